/-
  `foldSelect_rel`: the generic theorem of Proofs/FoldVecRes.lean for the folded statement of an accepted
  SELECT (`Run.foldSelect`), and its instances: row values and static type (`rowRSys`, C04's relation),
  batch values (`batchRSys`), kinds (`kindRSys`), `vecOk` (`vecRSys`).
-/
import Kvql.Proofs.FoldVecRes
import Kvql.Proofs.FoldVecMain
import Kvql.Proofs.FoldVecKind
import Kvql.Proofs.FoldVecShape

namespace Kvql
open Generated
namespace Fold
open Kvql.Parser Kvql.Proofs.Typing Kvql.Proofs.RunFold Kvql.Run Kvql.Proofs.RunFields
open Kvql.PlanCheck (planStage)

/-! ### lists -/

theorem rows_flip {α β : Type} {P : α → β → Prop} : ∀ {as : List α} {bs : List β}, Rows P as bs →
    Rows (fun b a => P a b) bs as
  | _, _, .nil => .nil
  | _, _, .cons hp hr => .cons hp (rows_flip hr)

theorem rows_map_right' {α β γ : Type} {P : α → γ → Prop} (φ : β → γ) : ∀ {as : List α} {bs : List β},
    Rows (fun a b => P a (φ b)) as bs → Rows P as (bs.map φ)
  | _, _, .nil => .nil
  | _, _, .cons hp hr => .cons hp (rows_map_right' φ hr)

theorem rows_weaken' {α β : Type} {P Q : α → β → Prop} : ∀ {as : List α} {bs : List β}, Rows P as bs →
    (∀ a b, b ∈ bs → P a b → Q a b) → Rows Q as bs
  | _, _, .nil, _ => .nil
  | _, _, .cons hp hr, h => .cons (h _ _ List.mem_cons_self hp)
      (rows_weaken' hr (fun a b hb => h a b (List.mem_cons_of_mem _ hb)))

theorem rows_getElem {α β : Type} {P : α → β → Prop} : ∀ {as : List α} {bs : List β}, Rows P as bs →
    ∀ (i : Nat) (b : β), bs[i]? = some b → ∃ a, as[i]? = some a ∧ P a b
  | _, _, .cons hp _, 0, b, h => by simp at h; subst h; exact ⟨_, rfl, hp⟩
  | _, _, .cons _ hr, i + 1, b, h => by
    obtain ⟨a, ha, hp⟩ := rows_getElem hr i b (by simpa using h)
    exact ⟨a, by simpa using ha, hp⟩
  | _, _, .nil, i, b, h => by simp at h

/-- `GetNamedExpr` looks at the names only: two tables with the same names find a name at the same index -/
theorem find_go_names (nm : Bytes) : ∀ (tbl tbl' : Tbl) (k : Nat), tbl.map (·.1) = tbl'.map (·.1) →
    ∀ i c', Tbl.find.go nm tbl' k = some (i, c') → ∃ c, Tbl.find.go nm tbl k = some (i, c)
  | [], [], _, _, i, c', h => by simp [Tbl.find.go] at h
  | [], _ :: _, _, hm, _, _, _ => by simp at hm
  | _ :: _, [], _, hm, _, _, _ => by simp at hm
  | (n, e) :: rest, (n', e') :: rest', k, hm, i, c', h => by
    simp only [List.map_cons, List.cons.injEq] at hm
    obtain ⟨hn, hr⟩ := hm
    have hn' : n = n' := hn
    subst hn'
    unfold Tbl.find.go at h ⊢
    split at h
    · rename_i heq
      simp only [Option.some.injEq, Prod.mk.injEq] at h
      rw [if_pos heq]
      exact ⟨e, by rw [h.1]⟩
    · rename_i heq
      rw [if_neg heq]
      exact find_go_names nm rest rest' (k + 1) hr i c' h

theorem find_names {tbl tbl' : Tbl} (hm : tbl.map (·.1) = tbl'.map (·.1)) {nm : Bytes} {i : Nat} {c' : Expr}
    (h : tbl'.find nm = some (i, c')) : ∃ c, tbl.find nm = some (i, c) :=
  find_go_names nm tbl tbl' 0 hm i c' h

/-! ### the parts of `foldSelect`, nodes included -/

theorem foldSelect_inv' {s : SelectS} {f : FoldedSelect} (hf : foldSelect s = .ok f) :
    ∃ (fw n : Expr) (fs : List (Expr × Expr)),
      optimizeBoth s.where_ = .ok (fw, n) ∧ Rows (fun r e => optimizeBoth e = .ok r) fs s.fields ∧
      f.where_ = resolveTop (s.fieldNames.zip (fs.map (·.2))) fw ∧
      f.fields = fs.map (fun p => resolveTop (s.fieldNames.zip (fs.map (·.2))) p.1) ∧
      f.nodes = fs.map (fun p => resolveTop (s.fieldNames.zip (fs.map (·.2))) p.2) := by
  unfold foldSelect at hf
  obtain ⟨w, hw, hf⟩ := except_bind_ok hf
  obtain ⟨fs, hfs, hf⟩ := except_bind_ok hf
  simp only [pure, Except.pure, Except.ok.injEq] at hf
  subst hf
  exact ⟨w.1, w.2, fs, hw, mapM_rows _ _ _ hfs, rfl, rfl, rfl⟩

/-- **the folded, re-pointed statement is related to the parsed one**, for every system of relations
    closed under the rewriting steps, `.ref` and `.not`.  `planStage` accepts the SELECT `s`; every field
    has a name (`hnames`, a parser fact); WHERE and fields are `plain`. -/
theorem foldSelect_rel (Y : RSys) {pf : Bytes → F64} {toks : Toks} {s : SelectS}
    (hplan : planStage pf toks = .ok (.select s)) (hnames : s.fieldNames.length = s.fields.length)
    (hpw : plain s.where_ = true) (hpf : ∀ e ∈ s.fields, plain e = true) {f : FoldedSelect}
    (hf : foldSelect s = .ok f) :
    Y.S s.where_ f.where_ ∧ Rows (fun e e' => Y.S e e') s.fields f.fields ∧ Rows (fun e n => Y.F e n) s.fields f.nodes := by
  obtain ⟨tbl', hall, hzip, hfl, hnf⟩ := accepted_refs hplan
  obtain ⟨fw, n, fs, hw, hfs, e1, e2, e3⟩ := foldSelect_inv' hf
  have hlen : fs.length = s.fields.length := hfs.length_eq
  -- the names of the two tables
  have hnm' : s.fieldNames = tbl'.map (·.1) := by
    have h1 : (s.fieldNames.zip s.fields).map (·.1) = s.fieldNames := List.map_fst_zip (by omega)
    rw [← h1, hzip, List.map_map]
    rfl
  have hnm : (s.fieldNames.zip (fs.map (·.2))).map (·.1) = tbl'.map (·.1) := by
    rw [List.map_fst_zip (by simp; omega), hnm']
  -- the statement's references
  have hplain_refs : ∀ q ∈ stmtRefs s, plain q.2 = true := by
    intro q hq
    simp only [stmtRefs, List.mem_append, List.mem_flatMap] at hq
    rcases hq with hq | ⟨e, he, hq⟩
    · exact refs_plain _ hpw q hq
    · exact refs_plain _ (hpf e he) q hq
  have hclosed : ∀ q ∈ stmtRefs s, ∀ q' ∈ Kvql.Cache.refs q.2, q' ∈ stmtRefs s := by
    intro q hq q' hq'
    simp only [stmtRefs, List.mem_append, List.mem_flatMap] at hq ⊢
    rcases hq with hq | ⟨e, he, hq⟩
    · exact .inl (refs_closed _ q hq q' hq')
    · exact .inr ⟨e, he, refs_closed _ q hq q' hq'⟩
  let E : Env Y :=
    { tbl := s.fieldNames.zip (fs.map (·.2))
      flds := s.fields
      G := fun q => q ∈ stmtRefs s
      hG := by
        intro nm t hq
        obtain ⟨⟨i, cur, fuel, path, hfind, hinv, ht⟩, hnc⟩ := hall _ hq
        simp only at hfind ht hnc
        obtain ⟨n0, hget⟩ := find_get hfind
        have hfi : s.fields[i]? = some (resolveTop tbl' cur) := by
          rw [hfl, List.getElem?_map, hget]; rfl
        have hnc' : noCyc (resolveTop tbl' cur) = true := hnf _ (List.mem_of_getElem? hfi)
        have hteq : t = resolveTop tbl' cur := by
          rw [ht]
          unfold resolveTop
          exact resolve_indep tbl' fuel _ path [] cur hinv (PInv.top tbl') (ht ▸ hnc) hnc'
        obtain ⟨r, hr, hopt⟩ := rows_getElem hfs i _ hfi
        obtain ⟨c, hc⟩ := find_names hnm hfind
        obtain ⟨n1, hget1⟩ := find_get hc
        have hcr : c = r.2 := by
          have : (s.fieldNames.zip (fs.map (·.2)))[i]? = some (n1, c) := hget1
          rw [List.getElem?_zip_eq_some] at this
          have h2 := this.2
          rw [List.getElem?_map, hr] at h2
          simpa using h2.symm
        subst hcr
        rw [← hteq] at hfi hopt
        exact ⟨i, r.2, hc, hfi, (Y.optimizeBoth_ok (r := r.1) (n := r.2) hopt).2,
          (subSys.optimizeBoth_ok (r := r.1) (n := r.2) hopt).2.2, hplain_refs _ hq⟩
      closed := by
        intro nm t hq x hx
        exact hclosed _ hq _ (topRefs_refs t (hplain_refs _ hq) x hx) }
  -- one tree: folded, then re-pointed
  have step : ∀ (e r : Expr), plain e = true → (∀ q ∈ Kvql.Cache.refs e, q ∈ stmtRefs s) → Y.S e r → RefsSub e r →
      Y.S e (resolveTop E.tbl r) := by
    intro e r hpe hre hS hsub
    refine Y.S_trans hS (Y.S_of_F (resolveTop_F Y E r (hsub.1 hpe) fun x hx => ?_))
    exact hre _ (topRefs_refs e hpe x (hsub.2 x hx))
  have stepF : ∀ (e r : Expr), plain e = true → (∀ q ∈ Kvql.Cache.refs e, q ∈ stmtRefs s) → Y.F e r → RefsSub e r →
      Y.F e (resolveTop E.tbl r) := by
    intro e r hpe hre hF hsub
    refine Y.F_trans hF (resolveTop_F Y E r (hsub.1 hpe) fun x hx => ?_)
    exact hre _ (topRefs_refs e hpe x (hsub.2 x hx))
  have hrw : ∀ q ∈ Kvql.Cache.refs s.where_, q ∈ stmtRefs s := fun q hq => by
    simp only [stmtRefs, List.mem_append]; exact .inl hq
  have hrf : ∀ e ∈ s.fields, ∀ q ∈ Kvql.Cache.refs e, q ∈ stmtRefs s := fun e he q hq => by
    simp only [stmtRefs, List.mem_append, List.mem_flatMap]; exact .inr ⟨e, he, hq⟩
  refine ⟨?_, ?_, ?_⟩
  · rw [e1]
    exact step _ _ hpw hrw (Y.optimizeBoth_ok hw).1 (subSys.optimizeBoth_ok hw).1.2
  · rw [e2]
    apply rows_map_right'
    apply rows_flip
    refine rows_weaken' hfs fun r e he hopt => ?_
    exact step e r.1 (hpf e he) (hrf e he) (Y.optimizeBoth_ok (r := r.1) (n := r.2) hopt).1
      (subSys.optimizeBoth_ok (r := r.1) (n := r.2) hopt).1.2
  · rw [e3]
    apply rows_map_right'
    apply rows_flip
    refine rows_weaken' hfs fun r e he hopt => ?_
    exact stepF e r.2 (hpf e he) (hrf e he) (Y.optimizeBoth_ok (r := r.1) (n := r.2) hopt).2
      (subSys.optimizeBoth_ok (r := r.1) (n := r.2) hopt).2.2

/-! ### the instances -/

theorem ev_ref (p : Nat) (nm : Bytes) (t : Expr) (kv : Pair) {c : Ctx} (hc : c.enable = false) :
    ev (.ref p nm t) kv c = ev t kv c := by
  unfold ev run
  rw [exec_ref_off p nm t kv hc (exec_inert t kv c hc)]

theorem ev_not (p : Nat) (r : Expr) (kv : Pair) {c : Ctx} (hc : c.enable = false) :
    ev (.not p r) kv c = match ev r kv c with
      | .error e => .error e
      | .ok v => match asBool v with
        | .error e => .error e
        | .ok b => .ok (.bool !b) := by
  rw [ev, exec, run_bind (exec_inert r kv) hc]
  simp only [ev]
  cases run (exec r kv) c with
  | error e => rfl
  | ok v =>
    simp only [run_lift_bind]
    cases asBool v <;> rfl

theorem FoldRel.ref (p : Nat) (nm : Bytes) {t t' : Expr} (h : FoldRel t t') : FoldRel (.ref p nm t) (.ref p nm t') :=
  ⟨fun kv c hc => by rw [ev_ref p nm t kv hc, ev_ref p nm t' kv hc]; exact h.sem kv c hc,
   by simp [retType, h.ty], ⟨fun hl => by simp [isListNode] at hl, fun _ _ => rfl⟩⟩

theorem FoldRel.not (p : Nat) {r r' : Expr} (h : FoldRel r r') : FoldRel (.not p r) (.not p r') := by
  refine ⟨fun kv c hc v hv => ?_, rfl, ⟨fun hl => by simp [isListNode] at hl, fun hcr => by simp [isCallRefNode] at hcr⟩⟩
  rw [ev_not p r kv hc] at hv
  rw [ev_not p r' kv hc]
  cases hr : ev r kv c with
  | error e => simp [hr] at hv
  | ok x =>
    obtain ⟨x', hx', rx⟩ := h.sem kv c hc x hr
    simp only [hr] at hv
    simp only [hx', rx.asBool_congr]
    exact ⟨v, hv, .refl v⟩

def rowRSys : RSys := { rowSys with ty := fun h => h.ty, ref := FoldRel.ref, not := FoldRel.not }

theorem sb_ref (p : Nat) (nm : Bytes) (t : Expr) (kv : Pair) {c : Ctx} (hc : c.enable = false) (v : Value) :
    SB (.ref p nm t) kv c v ↔ SB t kv c v := by
  unfold SB Single
  exact execBatch_ref_iff (pw_core t) hc (by simp) [v] c

theorem sb_not (p : Nat) (r : Expr) (kv : Pair) {c : Ctx} (hc : c.enable = false) (v : Value) :
    SB (.not p r) kv c v ↔ ∃ x, SB r kv c x ∧ boolV ((asBool x).map (!·)) = .ok v :=
  Single.un (X := execBatch r) (Z := execBatch (.not p r)) (K := fun v => boolV ((asBool v).map (!·)))
    (by rw [execBatch]; rfl) (fun a => mapRows_one' _ a) (pw_core r) hc v

theorem FoldRelB.ref (p : Nat) (nm : Bytes) {t t' : Expr} (h : FoldRelB t t') : FoldRelB (.ref p nm t) (.ref p nm t') :=
  ⟨FoldRel.ref p nm h.row,
   fun kv c hc v hv => by
    obtain ⟨v', hv', r⟩ := h.semB kv c hc v ((sb_ref p nm t kv hc v).mp hv)
    exact ⟨v', (sb_ref p nm t' kv hc v').mpr hv', r⟩,
   fun _ => .inl rfl⟩

theorem FoldRelB.not (p : Nat) {r r' : Expr} (h : FoldRelB r r') : FoldRelB (.not p r) (.not p r') :=
  ⟨FoldRel.not p h.row,
   fun kv c hc v hv => by
    obtain ⟨x, sx, hk⟩ := (sb_not p r kv hc v).mp hv
    obtain ⟨x', sx', rx⟩ := h.semB kv c hc x sx
    exact ⟨v, (sb_not p r' kv hc v).mpr ⟨x', sx', by rw [rx.asBool_congr]; exact hk⟩, .refl v⟩,
   fun hcr => by simp [isCallRefNode] at hcr⟩

def batchRSys : RSys := { batchSys with ty := fun h => h.row.ty, ref := FoldRelB.ref, not := FoldRelB.not }

def kindRSys : RSys :=
  { kindSys with
    ty := fun h => h.1.ty
    ref := fun p nm _ _ h => ⟨FoldRel.ref p nm h.1, fun k hk => by rw [kindOf] at hk ⊢; exact h.2 k hk⟩
    not := fun p r r' h => ⟨FoldRel.not p h.1, fun k hk => by
      rw [kindOf] at hk ⊢
      split at hk
      · rename_i hb
        have hr : kindOf r = some Kind.bool := by simpa using hb
        rw [h.2 _ hr]
        simpa using hk
      · cases hk⟩ }

def vecRSys : RSys :=
  { vecSys with
    ty := fun h => h.row.ty
    ref := fun p nm _ _ h => ⟨FoldRel.ref p nm h.row, fun hv => by simp only [Expr.vecOk] at hv ⊢; exact h.vec hv, fun _ => rfl⟩
    not := fun p _ _ h => ⟨FoldRel.not p h.row, fun hv => by simp only [Expr.vecOk] at hv ⊢; exact h.vec hv,
      fun hcr => by simp [isCallRefNode] at hcr⟩ }

end Fold
end Kvql
