/-
  RunNoPanic, part 15: SELECT with aggregates (`Run.runAggrSelect`: AggregatePlan over the scan, the LIMIT
  pushed into it when there is no ORDER BY, then ORDER BY, then LIMIT).
  Helpers: RunNoPanicAggrA (the pure aggregation model), B (folding keeps the aggregate calls' arguments),
  C (the evaluation tables of `runAggrSelect`), D (the consumers above the AggregatePlan).
-/
import Kvql.Proofs.RunNoPanicSelect
import Kvql.Proofs.RunNoPanicFold
import Kvql.Proofs.RunNoPanicAggrD

namespace Kvql.Proofs.RunNoPanic

open Kvql Kvql.Run Kvql.Plans Kvql.Storage

/-- **aggregated SELECT**: ends cleanly, with an evaluation error value, or outside the modelled fragment
    (`unsupported`: quantile, an aggregate under a non-arithmetic operator, an aggregate column of list kind) —
    never with a panic, unbounded recursion or a disagreement of the component models. -/
theorem runAggrSelect_safe (s : SelectS) (f : FoldedSelect) (hfold : foldSelect s = .ok f) (hsh : SelShape s f)
    (hnf : s.allFields = false)
    (hargs : ∀ x ∈ s.fields, ∀ c ∈ PlanCheck.listAggrCalls x, c.2 ≠ [])
    (store : Store) (kind : PollKind) (bs : Nat) (hbs : 1 ≤ bs) (cache : Bool)
    (fl : Run.Fail) (h : (runAggrSelect s f store kind bs cache).fail = some fl) :
    isExec fl ∨
    (fl = .unsupported "aggregate field (quantile, or an aggregate under a non-arithmetic operator)" ∧
      f.fields.mapM (aggrField (Ctx.new cache)) = none) ∨
    fl = .unsupported "aggregate column of list kind" := by
  have hargs' := AggrNP.foldSelect_argsNE hfold hargs
  obtain ⟨groups, hgr, hgwf⟩ := AggrNP.groupExprs_some hsh
  unfold runAggrSelect at h
  cases hm0 : f.fields.mapM (aggrField (Ctx.new cache)) with
  | none =>
    simp only [hm0] at h
    simp only [rejected, Option.some.injEq] at h
    exact .inr (.inl ⟨h.symm, rfl⟩)
  | some afields0 =>
    obtain ⟨afields, hm⟩ := Kvql.Proofs.RunAggr.mapM_aggrField_indep (Ctx.new cache) (Ctx.new cache).clear
      f.fields afields0 hm0
    simp only [hm0, hgr, hm] at h
    -- the plan and its evaluation table
    have hev := AggrNP.aggrEval_ok (kind := kind) (cache := cache) s.groupBy.isNone hgwf hsh.fieldsWf hargs' hm
    have hfo := AggrNP.afields_fieldOK hsh.fieldsWf hm
    have hlen : afields.length = s.fieldNames.length := by
      rw [(Kvql.Cache.mapM_some_get hm).1, hsh.flen, hsh.names]
    have horder : ∀ o, s.order = some o →
        ∃ keys, orderKeys s.fieldNames s.fieldTypes o = some keys ∧ ∀ k ∈ keys, k.pos < afields.length := by
      intro o ho
      obtain ⟨keys, hk, hpos⟩ := orderKeys_some s.fieldNames s.fieldTypes o (by rw [hsh.types hnf]; exact Nat.le_refl _)
        (hsh.order o ho)
      exact ⟨keys, hk, fun k hk' => by rw [hlen]; exact hpos k hk'⟩
    have hnil : AggrNP.GroupsOK afields [] := by intro kr hkr; cases hkr
    cases kind with
    | next =>
      simp only at h
      have hst : ∀ fl, (scanTrace (nodeOf (Scan.optimize f.where_))
          (rowVerdicts f.where_ Ctx.none (yielded (nodeOf (Scan.optimize f.where_)) store)) .next bs store).fin.1 =
            some fl → isExec fl :=
        fun fl h => scanTrace_fin_exec _ _ (rowVerdicts_good hsh.whereWf _ _) .next bs hbs fl h
      generalize scanTrace (nodeOf (Scan.optimize f.where_))
          (rowVerdicts f.where_ Ctx.none (yielded (nodeOf (Scan.optimize f.where_)) store)) .next bs store = st
        at h hst
      obtain ⟨p1, p2⟩ := AggrNP.prepare_good hev (st.polls.flatMap (fun p => p.1)) [] hnil
      refine (AggrNP.aggrTail_safe s store .next bs st.w0 st.fin.2 _ afields hfo ?_ ?_ horder fl h).imp id .inr
      · intro fl' h'
        split at h'
        · rename_i fl0 hf0
          cases h'
          exact hst _ hf0
        · split at h'
          · rename_i e he
            cases h'
            exact AggrNP.aggrFail_good (p1 e he)
          · cases h'
      · intro rows h'
        split at h'
        · cases h'
        · split at h'
          · cases h'
          · rename_i gs hgs
            cases h'
            intro r hr
            obtain ⟨kr, hkr, rfl⟩ := List.mem_map.mp hr
            exact p2 gs hgs kr hkr
    | batch =>
      simp only at h
      have hst : ∀ fl, (scanTrace (nodeOf (Scan.optimize f.where_))
          (batchVerdicts f.where_ (Ctx.new cache) (innerChunks (nodeOf (Scan.optimize f.where_)) bs store))
          .batch bs store).fin.1 = some fl → isExec fl := by
        intro fl h
        refine scanTrace_fin_exec _ _ ?_ .batch bs hbs fl h
        have := batchVerdicts_good hsh.whereWf cache (innerChunks (nodeOf (Scan.optimize f.where_)) bs store)
        rw [Kvql.Proofs.RunTables.innerChunks_flatten _ bs hbs store] at this
        exact this
      generalize scanTrace (nodeOf (Scan.optimize f.where_))
          (batchVerdicts f.where_ (Ctx.new cache) (innerChunks (nodeOf (Scan.optimize f.where_)) bs store))
          .batch bs store = st at h hst
      obtain ⟨p1, p2⟩ := AggrNP.prepareBatch_good hev (st.polls.map (fun p => p.1)) [] hnil
      refine (AggrNP.aggrTail_safe s store .batch bs st.w0 st.fin.2 _ afields hfo ?_ ?_ horder fl h).imp id .inr
      · intro fl' h'
        split at h'
        · rename_i fl0 hf0
          cases h'
          exact hst _ hf0
        · split at h'
          · rename_i e he
            cases h'
            exact AggrNP.aggrFail_good (p1 e he)
          · cases h'
      · intro rows h'
        split at h'
        · cases h'
        · split at h'
          · cases h'
          · rename_i gs hgs
            cases h'
            intro r hr
            obtain ⟨kr, hkr, rfl⟩ := List.mem_map.mp hr
            exact p2 gs hgs kr hkr

end Kvql.Proofs.RunNoPanic
