/-
  `ExecuteBatch` on a chunk of ONE pair, cache off, as a relation `SB e kv c v` ("succeeds with the one
  value `v`, context untouched"), and what it means node by node: a binary operator node succeeds iff
  both operands do and the batch loop's per-pair kernel (`kernelB`) does; likewise `in` (item list,
  call / alias), `between`, calls (vector twin bodies and the bodies run row-wise without a context).
  C03 `batch_pairwise` (Proofs/ExecVecPairwise.lean) extends every statement about one-pair chunks to
  all non-empty chunks; the lemmas here are the one-pair instances of its `PW.un / bin / tern`, stated
  so that they can be USED (there they are local to the proofs).
-/
import Kvql.Proofs.ExecVecPairwise
import Kvql.Proofs.C03Exec
import Kvql.Proofs.FoldPure

namespace Kvql
open Generated

/-- `ExecuteBatch(e, [kv], ctx)` succeeds with the single value `v` and leaves the context as it was -/
abbrev SB (e : Expr) (kv : Pair) (c : Ctx) (v : Value) : Prop := Single (execBatch e) c v kv

theorem SB.def' {e : Expr} {kv : Pair} {c : Ctx} {v : Value} : SB e kv c v ↔ execBatch e [kv] c = (.ok [v], c) := Iff.rfl

/-- a successful one-pair evaluation IS of that form (cache off) -/
theorem SB.of_ok {e : Expr} {kv : Pair} {c : Ctx} (hc : c.enable = false) {vs : List Value} {c' : Ctx}
    (h : execBatch e [kv] c = (.ok vs, c')) : c' = c ∧ ∃ v, vs = [v] ∧ SB e kv c v :=
  (pw_core e).single_inv hc h

theorem SB.of_fst {e : Expr} {kv : Pair} {c : Ctx} (hc : c.enable = false) {v : Value}
    (h : (execBatch e [kv] c).1 = .ok [v]) : SB e kv c v :=
  Kvql.Proofs.C03.batch_ok_ctx e c hc [kv] (by simp) h

theorem SB.unique {e : Expr} {kv : Pair} {c : Ctx} {v w : Value} (h1 : SB e kv c v) (h2 : SB e kv c w) : v = w := by
  unfold SB Single at h1 h2
  rw [h1] at h2
  simpa using h2

/-! ### the loops on one pair -/

theorem zipRows_one' (f : Value → Value → Except Err Value) (a b : Value) :
    zipRows f 1 [a] [b] = (f a b).map (fun y => [y]) := by
  simp only [zipRows]
  cases f a b <;> rfl

theorem mapRows_one' (f : Value → Except Err Value) (a : Value) : mapRows f 1 [a] = (f a).map (fun y => [y]) := by
  simp only [mapRows]
  cases f a <;> rfl

theorem zip3Rows_one (f : Value → Value → Value → Except Err Value) (a b d : Value) :
    zip3Rows f 1 [a] [b] [d] = (f a b d).map (fun y => [y]) := by
  simp only [zip3Rows]
  cases f a b d <;> rfl

theorem zipRowsLazy_one (f : Value → Option Value → Except Err Value) (a b : Value) :
    zipRowsLazy f 1 [a] [b] = (f a (some b)).map (fun y => [y]) := by
  simp only [zipRowsLazy, List.head?_cons]
  cases f a (some b) <;> rfl

theorem betweenRows_one (number : Bool) (a b d : Value) :
    betweenRows number 1 [a] [b] [d] = (betweenRow number (some a) b d).map (fun y => [y]) := by
  simp only [betweenRows, List.head?_cons]
  cases betweenRow number (some a) b d <;> rfl

theorem inCallRows_one (number : Bool) (a b : Value) :
    inCallRows number 1 [a] [b] = (inCallK number a b).map (fun y => [y]) := by
  simp only [inCallRows, inCallK, inValues]
  cases unpackArray b <;> rfl

theorem equalBatchFinish_one (not : Bool) (a b : Value) :
    equalBatchFinish not 1 [a] [b] =
      (boolV ((equalRow a b).map (fun c => if not then !c else c))).map (fun y => [y]) := by
  simp only [equalBatchFinish]
  rw [if_neg (by decide)]
  exact zipRows_one' _ a b

theorem map_single_inv {x : Except Err Value} {v : Value} (h : x.map (fun y => [y]) = .ok [v]) : x = .ok v := by
  cases x with
  | error e => cases h
  | ok y => simp [Except.map] at h; rw [h]

theorem map_single_of {x : Except Err Value} {v : Value} (h : x = .ok v) : x.map (fun y => [y]) = .ok [v] := by
  rw [h]; rfl

/-! ### sequences of sub-evaluations followed by one loop, on one pair -/

section generic
variable {kv : Pair} {c : Ctx}

theorem Single.un {X Z : List Pair → M (List Value)} {F : List Value → Except Err (List Value)}
    {K : Value → Except Err Value}
    (hZ : Z [kv] = (do let a ← X [kv]; M.lift (F a)))
    (hF : ∀ a, F [a] = (K a).map (fun y => [y]))
    (hX : PW X) (hc : c.enable = false) (v : Value) :
    Single Z c v kv ↔ ∃ x, Single X c x kv ∧ K x = .ok v := by
  unfold Single
  rw [hZ]
  constructor
  · intro h
    obtain ⟨al, c1, ha, h1⟩ := bind_ok_inv h
    obtain ⟨e1, x, rfl, sx⟩ := hX.single_inv hc ha
    rw [e1] at h1
    obtain ⟨hf, _⟩ := lift_ok_inv h1
    rw [hF] at hf
    exact ⟨x, sx, map_single_inv hf⟩
  · rintro ⟨x, sx, hk⟩
    rw [M.bind_ok sx]
    simp [hF, map_single_of hk]

theorem Single.bin {X Y Z : List Pair → M (List Value)} {F : List Value → List Value → Except Err (List Value)}
    {K : Value → Value → Except Err Value}
    (hZ : Z [kv] = (do let a ← X [kv]; let b ← Y [kv]; M.lift (F a b)))
    (hF : ∀ a b, F [a] [b] = (K a b).map (fun y => [y]))
    (hX : PW X) (hY : PW Y) (hc : c.enable = false) (v : Value) :
    Single Z c v kv ↔ ∃ x z, Single X c x kv ∧ Single Y c z kv ∧ K x z = .ok v := by
  unfold Single
  rw [hZ]
  constructor
  · intro h
    obtain ⟨al, c1, ha, h1⟩ := bind_ok_inv h
    obtain ⟨e1, x, rfl, sx⟩ := hX.single_inv hc ha
    rw [e1] at h1
    obtain ⟨bl, c2, hb, h2⟩ := bind_ok_inv h1
    obtain ⟨e2, z, rfl, sz⟩ := hY.single_inv hc hb
    rw [e2] at h2
    obtain ⟨hf, _⟩ := lift_ok_inv h2
    rw [hF] at hf
    exact ⟨x, z, sx, sz, map_single_inv hf⟩
  · rintro ⟨x, z, sx, sz, hk⟩
    rw [M.bind_ok sx, M.bind_ok sz]
    simp [hF, map_single_of hk]

theorem Single.tern {X Y W Z : List Pair → M (List Value)}
    {F : List Value → List Value → List Value → Except Err (List Value)}
    {K : Value → Value → Value → Except Err Value}
    (hZ : Z [kv] = (do let a ← X [kv]; let b ← Y [kv]; let d ← W [kv]; M.lift (F a b d)))
    (hF : ∀ a b d, F [a] [b] [d] = (K a b d).map (fun y => [y]))
    (hX : PW X) (hY : PW Y) (hW : PW W) (hc : c.enable = false) (v : Value) :
    Single Z c v kv ↔ ∃ x y z, Single X c x kv ∧ Single Y c y kv ∧ Single W c z kv ∧ K x y z = .ok v := by
  unfold Single
  rw [hZ]
  constructor
  · intro h
    obtain ⟨al, c1, ha, h1⟩ := bind_ok_inv h
    obtain ⟨e1, x, rfl, sx⟩ := hX.single_inv hc ha
    rw [e1] at h1
    obtain ⟨bl, c2, hb, h2⟩ := bind_ok_inv h1
    obtain ⟨e2, y, rfl, sy⟩ := hY.single_inv hc hb
    rw [e2] at h2
    obtain ⟨dl, c3, hd, h3⟩ := bind_ok_inv h2
    obtain ⟨e3, z, rfl, sz⟩ := hW.single_inv hc hd
    rw [e3] at h3
    obtain ⟨hf, _⟩ := lift_ok_inv h3
    rw [hF] at hf
    exact ⟨x, y, z, sx, sy, sz, map_single_inv hf⟩
  · rintro ⟨x, y, z, sx, sy, sz, hk⟩
    rw [M.bind_ok sx, M.bind_ok sy, M.bind_ok sz]
    simp [hF, map_single_of hk]

/-- a row body run without a context on the one pair -/
theorem Single.rowWise {f : Pair → M Value} (hin : ∀ kv, Inert (f kv)) (v : Value) :
    Single (rowWiseNoCtx f) c v kv ↔ (f kv Ctx.none).1 = .ok v := by
  unfold Single rowWiseNoCtx
  have := forPairs_iff hin (c := Ctx.none) rfl [kv] [v]
  constructor
  · intro h
    simp only [Prod.mk.injEq, and_true] at h
    obtain ⟨w, hw, hp⟩ := (this.mp h).singleton_inv
    cases hw; exact hp
  · intro h
    rw [this.mpr (Rows.single h)]

end generic

/-! ### binary operators with a per-pair kernel -/

/-- every operator except `in`, `between` and `!` (which no evaluator handles as a binary operator) -/
def isKernelOp : Op → Bool
  | .in_ | .between | .not => false
  | _ => true

/-- the per-pair kernel of the batch loop of a binary operator (`leftStr`: the left operand's static
    type is text).  Differences to the row kernel `Fold.kernel2` / `Fold.shortCircuit`: `&` / `|` need
    BOTH operands Boolean; text `+` needs both operands text (`convertToByteArray`) and yields `[]byte`. -/
def kernelB (op : Op) (leftStr : Bool) (a b : Value) : Except Err Value :=
  match op with
  | .and | .kwAnd => andK a b
  | .or | .kwOr => orK a b
  | .eq => boolV ((equalRow a b).map (fun c => if false then !c else c))
  | .neq => boolV ((equalRow a b).map (fun c => if true then !c else c))
  | .prefixMatch => prefixK a b
  | .regexMatch => regexK a b
  | .add => if leftStr then concatK a b else executeMathOp a b .add
  | .sub => executeMathOp a b .sub
  | .mul => executeMathOp a b .mul
  | .div => executeMathOp a b .div
  | .gt => boolV (compareBy (!leftStr) a b .gt)
  | .gte => boolV (compareBy (!leftStr) a b .gte)
  | .lt => boolV (compareBy (!leftStr) a b .lt)
  | .lte => boolV (compareBy (!leftStr) a b .lte)
  | _ => .error .unknownOp

theorem sb_binop {op : Op} (hop : isKernelOp op = true) (p : Nat) (l r : Expr) (kv : Pair) {c : Ctx}
    (hc : c.enable = false) (v : Value) :
    SB (.binop p op l r) kv c v ↔
      ∃ a b, SB l kv c a ∧ SB r kv c b ∧ kernelB op (retType l == tyTSTR) a b = .ok v := by
  have ihl := pw_core l
  have ihr := pw_core r
  cases op <;> simp only [isKernelOp, Bool.false_eq_true] at hop
  case and => exact Single.bin (K := andK) (by rw [execBatch]; rfl) (fun a b => zipRows_one' _ a b) ihl ihr hc v
  case kwAnd => exact Single.bin (K := andK) (by rw [execBatch]; rfl) (fun a b => zipRows_one' _ a b) ihl ihr hc v
  case or => exact Single.bin (K := orK) (by rw [execBatch]; rfl) (fun a b => zipRows_one' _ a b) ihl ihr hc v
  case kwOr => exact Single.bin (K := orK) (by rw [execBatch]; rfl) (fun a b => zipRows_one' _ a b) ihl ihr hc v
  case eq =>
    exact Single.bin (F := equalBatchFinish false 1) (by rw [execBatch]; rfl) (fun a b => equalBatchFinish_one _ a b)
      ihl ihr hc v
  case neq =>
    exact Single.bin (F := equalBatchFinish true 1) (by rw [execBatch]; rfl) (fun a b => equalBatchFinish_one _ a b)
      ihl ihr hc v
  case prefixMatch =>
    exact Single.bin (K := prefixK) (by rw [execBatch]; rfl) (fun a b => zipRows_one' _ a b) ihl ihr hc v
  case regexMatch =>
    exact Single.bin (K := regexK) (by rw [execBatch]; rfl) (fun a b => zipRows_one' _ a b) ihl ihr hc v
  case add =>
    cases hs : (retType l == tyTSTR)
    · exact Single.bin (K := fun x y => executeMathOp x y .add) (by rw [execBatch]; simp [hs])
        (fun a b => zipRows_one' _ a b) ihl ihr hc v
    · exact Single.bin (K := concatK) (by rw [execBatch]; simp [hs]; rfl) (fun a b => zipRows_one' _ a b) ihl ihr hc v
  case sub =>
    exact Single.bin (K := fun x y => executeMathOp x y .sub) (by rw [execBatch]; rfl) (fun a b => zipRows_one' _ a b)
      ihl ihr hc v
  case mul =>
    exact Single.bin (K := fun x y => executeMathOp x y .mul) (by rw [execBatch]; rfl) (fun a b => zipRows_one' _ a b)
      ihl ihr hc v
  case div =>
    exact Single.bin (K := fun x y => executeMathOp x y .div) (by rw [execBatch]; rfl) (fun a b => zipRows_one' _ a b)
      ihl ihr hc v
  case gt =>
    exact Single.bin (K := fun x y => boolV (compareBy (!(retType l == tyTSTR)) x y .gt)) (by rw [execBatch]; rfl)
      (fun a b => zipRows_one' _ a b) ihl ihr hc v
  case gte =>
    exact Single.bin (K := fun x y => boolV (compareBy (!(retType l == tyTSTR)) x y .gte)) (by rw [execBatch]; rfl)
      (fun a b => zipRows_one' _ a b) ihl ihr hc v
  case lt =>
    exact Single.bin (K := fun x y => boolV (compareBy (!(retType l == tyTSTR)) x y .lt)) (by rw [execBatch]; rfl)
      (fun a b => zipRows_one' _ a b) ihl ihr hc v
  case lte =>
    exact Single.bin (K := fun x y => boolV (compareBy (!(retType l == tyTSTR)) x y .lte)) (by rw [execBatch]; rfl)
      (fun a b => zipRows_one' _ a b) ihl ihr hc v

/-- `!` as a binary operator never evaluates -/
theorem sb_binop_not (p : Nat) (l r : Expr) (kv : Pair) (c : Ctx) (v : Value) : ¬ SB (.binop p .not l r) kv c v := by
  unfold SB Single
  rw [execBatch]
  exact throw_ne_ok

/-! ### `in` -/

/-- `x in (e1, e2, …)`: the left operand, every item (of the static type of the left operand), then the
    scan of the item values -/
theorem sb_in_list (p q : Nat) (l : Expr) (items : List Expr) (kv : Pair) {c : Ctx} (hc : c.enable = false) (v : Value) :
    SB (.binop p .in_ l (.list q items)) kv c v ↔
      ∃ x row, SB l kv c x ∧ RowP (!(retType l == tyTSTR)) c kv row items ∧
        ∃ b, inColumns (!(retType l == tyTSTR)) x 0 (unitCols row) = .ok b ∧ v = .bool b := by
  have hX := pw_core l
  have hI := items_pw (!(retType l == tyTSTR)) items
  unfold SB Single
  rw [execBatch]
  constructor
  · intro h
    obtain ⟨al, c1, ha, h1⟩ := bind_ok_inv h
    obtain ⟨e1, x, rfl, sx⟩ := hX.single_inv hc ha
    rw [e1] at h1
    obtain ⟨cols1, c2, hcs, h2⟩ := bind_ok_inv h1
    obtain ⟨e2, hcp⟩ := (hI c hc [kv] (by simp) cols1 c2).mp hcs
    rw [e2] at h2
    obtain ⟨row, rfl, hrow⟩ := hcp.single_inv
    obtain ⟨hf, _⟩ := lift_ok_inv h2
    simp only [List.length_cons, List.length_nil, Nat.zero_add] at hf
    rw [inRows_single] at hf
    cases hb : inColumns (!(retType l == tyTSTR)) x 0 (unitCols row) with
    | error e => simp [hb, Except.map] at hf
    | ok b =>
      simp [hb, Except.map] at hf
      exact ⟨x, row, sx, hrow, b, hb, hf.symm⟩
  · rintro ⟨x, row, sx, hrow, b, hb, rfl⟩
    rw [M.bind_ok sx]
    have hcs := (hI c hc [kv] (by simp) (unitCols row) c).mpr ⟨rfl, hrow.unitCols⟩
    simp only []
    rw [M.bind_ok hcs]
    simp only [List.length_cons, List.length_nil, Nat.zero_add]
    rw [inRows_single, hb]; rfl

/-- `x in f(…)` / `x in alias`: both operands, then the value of the right one is unpacked -/
theorem sb_in_callref (p : Nat) (l r : Expr) (hr : Fold.isCallRefNode r = true) (kv : Pair) {c : Ctx}
    (hc : c.enable = false) (v : Value) :
    SB (.binop p .in_ l r) kv c v ↔
      ∃ a b, SB l kv c a ∧ SB r kv c b ∧ inCallK (!(retType l == tyTSTR)) a b = .ok v := by
  have ihl := pw_core l
  have ihr := pw_core r
  cases r <;> simp only [Fold.isCallRefNode, Bool.false_eq_true] at hr
  · exact Single.bin (F := inCallRows (!(retType l == tyTSTR)) 1) (by rfl) (fun a b => inCallRows_one _ a b) ihl ihr hc v
  · exact Single.bin (F := inCallRows (!(retType l == tyTSTR)) 1) (by rfl) (fun a b => inCallRows_one _ a b) ihl ihr hc v

/-- `in` over anything else never evaluates -/
theorem sb_in_other (p : Nat) (l r : Expr) (h1 : Fold.isListNode r = false) (h2 : Fold.isCallRefNode r = false)
    (kv : Pair) (c : Ctx) (v : Value) : ¬ SB (.binop p .in_ l r) kv c v := by
  unfold SB Single
  cases r <;> simp only [Fold.isListNode, Fold.isCallRefNode, Bool.true_eq_false] at h1 h2 <;>
    (rw [execBatch]; exact bind_throw_ne_ok)

/-! ### `between` -/

/-- the static tests of `execBetweenBatch` on the bounds -/
def betweenStatic (leftStr : Bool) (lo hi : Expr) : Bool :=
  !((leftStr && retType lo != tyTSTR) || (leftStr && retType hi != tyTSTR) ||
    (!leftStr && retType lo != tyTNUMBER) || (!leftStr && retType hi != tyTNUMBER))

theorem sb_between (p q : Nat) (l lo hi : Expr) (kv : Pair) {c : Ctx} (hc : c.enable = false) (v : Value) :
    SB (.binop p .between l (.list q [lo, hi])) kv c v ↔
      betweenStatic (retType l == tyTSTR) lo hi = true ∧
      ∃ a b d, SB l kv c a ∧ SB lo kv c b ∧ SB hi kv c d ∧
        betweenRow (!(retType l == tyTSTR)) (some a) b d = .ok v := by
  unfold SB
  by_cases c1 : (retType l == tyTSTR && retType lo != tyTSTR) = true
  · constructor
    · intro h; unfold Single at h; rw [execBatch] at h; simp only [if_pos c1] at h; exact absurd h bind_throw_ne_ok
    · rintro ⟨hs, _⟩; simp [betweenStatic, c1] at hs
  · by_cases c2 : (retType l == tyTSTR && retType hi != tyTSTR) = true
    · constructor
      · intro h; unfold Single at h; rw [execBatch] at h; simp only [if_neg c1, if_pos c2] at h
        exact absurd h bind_throw_ne_ok
      · rintro ⟨hs, _⟩; simp [betweenStatic, c2] at hs
    · by_cases c3 : (!(retType l == tyTSTR) && retType lo != tyTNUMBER) = true
      · constructor
        · intro h; unfold Single at h; rw [execBatch] at h; simp only [if_neg c1, if_neg c2, if_pos c3] at h
          exact absurd h bind_throw_ne_ok
        · rintro ⟨hs, _⟩; simp [betweenStatic, c3] at hs
      · by_cases c4 : (!(retType l == tyTSTR) && retType hi != tyTNUMBER) = true
        · constructor
          · intro h; unfold Single at h; rw [execBatch] at h
            simp only [if_neg c1, if_neg c2, if_neg c3, if_pos c4] at h
            exact absurd h bind_throw_ne_ok
          · rintro ⟨hs, _⟩; simp [betweenStatic, c4] at hs
        · have hst : betweenStatic (retType l == tyTSTR) lo hi = true := by
            simp only [betweenStatic, Bool.not_eq_true] at c1 c2 c3 c4 ⊢
            simp [c1, c2, c3, c4]
          have := Single.tern (X := execBatch l) (Y := execBatch lo) (W := execBatch hi)
            (Z := execBatch (.binop p .between l (.list q [lo, hi])))
            (F := betweenRows (!(retType l == tyTSTR)) 1)
            (K := fun a b d => betweenRow (!(retType l == tyTSTR)) (some a) b d) (kv := kv) (c := c)
            (by rw [execBatch]; simp only [if_neg c1, if_neg c2, if_neg c3, if_neg c4]; rfl)
            (fun a b d => betweenRows_one _ a b d) (pw_core l) (pw_core lo) (pw_core hi) hc v
          rw [this]
          simp [hst]

/-- `between` over anything but a two-element list never evaluates -/
theorem sb_between_other (p : Nat) (l r : Expr) (h : ∀ q lo hi, r ≠ .list q [lo, hi]) (kv : Pair) (c : Ctx) (v : Value) :
    ¬ SB (.binop p .between l r) kv c v := by
  unfold SB Single
  cases r with
  | list q items =>
    match items with
    | [lo, hi] => exact absurd rfl (h q lo hi)
    | [] => rw [execBatch]; exact bind_throw_ne_ok
    | [_] => rw [execBatch]; exact bind_throw_ne_ok
    | _ :: _ :: _ :: _ => rw [execBatch]; exact bind_throw_ne_ok
  | _ => rw [execBatch]; exact bind_throw_ne_ok

/-! ### calls -/

/-- the dispatch of `FunctionCallExpr.ExecuteBatch`, as a function of name and argument COUNT only -/
def callForm (nm : Expr) (n : Nat) : Option (Body × Bool) :=
  match funcNameOf nm with
  | .error _ => none
  | .ok fname =>
    match lookupFunc fname with
    | none => none
    | some fo =>
      if !fo.varArgs && n != fo.numArgs then none
      else if fo.varArgs && n < fo.numArgs then none
      else match fo.body with
        | none => none
        | some b => some (b, fo.vecIsTwin)

theorem execBatch_call_none {p : Nat} {nm : Expr} {args : List Expr} (h : callForm nm args.length = none)
    (chunk : List Pair) (c : Ctx) (vs : List Value) (c' : Ctx) : execBatch (.call p nm args) chunk c ≠ (.ok vs, c') := by
  rw [execBatch]
  unfold callForm at h
  cases hn : funcNameOf nm with
  | error e => exact throw_ne_ok
  | ok fname =>
    rw [hn] at h
    simp only [] at h ⊢
    cases hf : lookupFunc fname with
    | none => exact throw_ne_ok
    | some fo =>
      rw [hf] at h
      simp only [] at h ⊢
      by_cases h1 : (!fo.varArgs && args.length != fo.numArgs) = true
      · rw [if_pos h1]; exact throw_ne_ok
      · rw [if_neg h1] at h ⊢
        by_cases h2 : (fo.varArgs && decide (args.length < fo.numArgs)) = true
        · rw [if_pos h2]; exact throw_ne_ok
        · rw [if_neg h2] at h ⊢
          cases hb : fo.body with
          | none => exact throw_ne_ok
          | some b => rw [hb] at h; cases h

theorem execBatch_call_some {p : Nat} {nm : Expr} {args : List Expr} {b : Body} {twin : Bool}
    (h : callForm nm args.length = some (b, twin)) (chunk : List Pair) :
    execBatch (.call p nm args) chunk = if twin then vecBody b args chunk else rowWiseNoCtx (rowBody b args) chunk := by
  rw [execBatch]
  unfold callForm at h
  cases hn : funcNameOf nm with
  | error e => rw [hn] at h; cases h
  | ok fname =>
    rw [hn] at h
    simp only [] at h ⊢
    cases hf : lookupFunc fname with
    | none => rw [hf] at h; cases h
    | some fo =>
      rw [hf] at h
      simp only [] at h ⊢
      by_cases h1 : (!fo.varArgs && args.length != fo.numArgs) = true
      · rw [if_pos h1] at h; cases h
      · rw [if_neg h1] at h ⊢
        by_cases h2 : (fo.varArgs && decide (args.length < fo.numArgs)) = true
        · rw [if_pos h2] at h; cases h
        · rw [if_neg h2] at h ⊢
          cases hb : fo.body with
          | none => rw [hb] at h; cases h
          | some b' =>
            rw [hb] at h
            simp only [Option.some.injEq, Prod.mk.injEq] at h
            obtain ⟨rfl, rfl⟩ := h
            rfl

/-- the vector twin of a unary function: the argument, mapped -/
theorem sb_unary {b : Body} {f : Value → Value} (hb : unaryOf b = some f) (a0 : Expr) (rest : List Expr) (kv : Pair)
    {c : Ctx} (hc : c.enable = false) (v : Value) :
    Single (vecBody b (a0 :: rest)) c v kv ↔ ∃ x, SB a0 kv c x ∧ v = f x := by
  have := Single.un (X := execBatch a0) (Z := vecBody b (a0 :: rest)) (F := mapRowsFresh f 1)
    (K := fun a => .ok (f a)) (kv := kv) (c := c)
    (by cases b <;> simp [unaryOf] at hb <;> subst hb <;> rw [vecBody] <;> rfl)
    (fun a => rfl) (pw_core a0) hc v
  rw [this]
  constructor
  · rintro ⟨x, sx, hk⟩; cases hk; exact ⟨x, sx, rfl⟩
  · rintro ⟨x, sx, rfl⟩; exact ⟨x, sx, rfl⟩

end Kvql
