/-
  End-to-end proofs for SELECT statements WITH A FIELD LIST, part 3: from `Run.runStmt` /
  `Run.runQuery` to the traces of parts 1 and 2.

  * `runStmt_plain`, `runPlainSelect_eq`   a SELECT without aggregates is `plainTrace` (projection, then
                                          ORDER BY unless elided) under the optional LIMIT;
  * `foldSelect_total`, `foldSelect_af`    the folded statement; for an alias-free statement it is the
                                          statement with every expression replaced by `Optimize()`'s result;
  * `aliasOK_of_af`, `aliasOK_of_check`    the C05 alias hypotheses: trivial without aliases, a decidable
                                          check (`aliasOKb`, trees compared by `Expr.same`) otherwise;
  * `runStmt_cache_invisible`              (2) cache on / off: the same `Outcome`;
  * `plainTrace_good`                      (1) row mode: the trace below LIMIT ends well with the projected
                                          accepted pairs in key order.
-/
import Kvql.Proofs.RunFieldsRow
import Kvql.Proofs.RunExprEq

namespace Kvql.Proofs.RunFields
open Kvql Kvql.Run Kvql.Plans Kvql.Storage Kvql.Cache Kvql.Project Kvql.Proofs.Scan Kvql.Proofs.Typing
open Kvql.Proofs.RunTables Kvql.Proofs.RunScan Kvql.Proofs.RunLimit Kvql.Proofs.RunFold
open Kvql.PlanCheck (planStage finalPlanCheck)
open Kvql.Fold (except_bind_ok)

/-! ### unfolding the statement -/

/-- the plan below `FinalLimitPlan`: the projection, then `FinalOrderPlan` unless it is elided -/
def plainTrace (s : SelectS) (f : FoldedSelect) (store : Store) (kind : PollKind) (bs : Nat) (cache : Bool) :
    Except Fail (Trace (List Value)) :=
  match s.order with
  | none => .ok (projTrace s f store kind bs cache)
  | some o =>
    if elideOrder s o then .ok (projTrace s f store kind bs cache)
    else match orderKeys (projNames s) (projTypes s) o with
      | some keys => .ok (orderTrace keys kind bs (projTrace s f store kind bs cache))
      | none => .error (.glue "order field not in the select list")

theorem runPlainSelect_eq (s : SelectS) (f : FoldedSelect) (store : Store) (kind : PollKind) (bs : Nat) (cache : Bool) :
    runPlainSelect s f store kind bs cache =
      match plainTrace s f store kind bs cache with
      | .error e => { fail := some e, rows := [], world := (projTrace s f store kind bs cache).w0 }
      | .ok t1 =>
        match s.limit with
        | none => t1.outcome
        | some l => (limitTrace (limitNat l).1 (limitNat l).2 kind bs t1).outcome := by
  unfold runPlainSelect plainTrace
  cases s.order with
  | none => rfl
  | some o =>
    simp only
    by_cases he : elideOrder s o = true
    · simp only [he, if_true]; rfl
    · simp only [he, Bool.false_eq_true, if_false]
      cases orderKeys (projNames s) (projTypes s) o <;> rfl

theorem bs_ne_zero {bs : Nat} (hbs : 1 ≤ bs) : (bs == 0) = false := by
  cases bs with
  | zero => omega
  | succ k => rfl

theorem runStmt_plain (s : SelectS) (store : Store) (kind : PollKind) (bs : Nat) (cache : Bool) (hbs : 1 ≤ bs)
    (hnoaggr : finalPlanCheck s = .ok false) {f : FoldedSelect} (hf : foldSelect s = .ok f) :
    runStmt (.select s) store kind bs cache = runPlainSelect s f store kind bs cache := by
  simp only [runStmt, bs_ne_zero hbs, Bool.false_eq_true, if_false, hnoaggr, hf]

theorem runQuery_stmt (query : Bytes) (pf : Bytes → F64) (store : Store) (kind : PollKind) (bs : Nat) (cache : Bool)
    {stmt : Stmt} (hplan : planStage pf (Lexer.split query) = .ok stmt) :
    runQuery query pf store kind bs cache = runStmt stmt store kind bs cache := by
  unfold runQuery
  rw [hplan]

theorem foldSelect_total (s : SelectS) : ∃ f, foldSelect s = .ok f := by
  obtain ⟨fw, n, hfold⟩ := Fold.optimizeBoth_total s.where_
  obtain ⟨f, _, hf, _⟩ := Kvql.Proofs.Run.foldSelect_ok s hfold
  exact ⟨f, hf⟩

/-- ORDER BY and LIMIT play no part in folding, nor in the accept / reject decision of `buildFinalPlan` -/
theorem foldSelect_noOrder (s : SelectS) : foldSelect { s with order := none } = foldSelect s := rfl
theorem foldSelect_noLimit (s : SelectS) : foldSelect { s with limit := none } = foldSelect s := rfl
theorem finalPlanCheck_noOrder (s : SelectS) : finalPlanCheck { s with order := none } = finalPlanCheck s := rfl
theorem finalPlanCheck_noLimit (s : SelectS) : finalPlanCheck { s with limit := none } = finalPlanCheck s := rfl

/-! ### the folded statement of an alias-free statement -/

/-- no alias reference in the WHERE nor in any select field (decidable on the statement) -/
def afStmt (s : SelectS) : Bool := aliasFree s.where_ && s.fields.all aliasFree

theorem mapM_rows {α β : Type} (g : α → Except String β) : ∀ (l : List α) (rs : List β), l.mapM g = .ok rs →
    Rows (fun r a => g a = .ok r) rs l
  | [], rs, h => by
    simp only [List.mapM_nil, pure, Except.pure, Except.ok.injEq] at h
    subst h
    exact .nil
  | a :: as, rs, h => by
    rw [List.mapM_cons] at h
    obtain ⟨r, hr, h⟩ := except_bind_ok h
    obtain ⟨rs', hrs, h⟩ := except_bind_ok h
    simp only [pure, Except.pure, Except.ok.injEq] at h
    subst h
    exact .cons hr (mapM_rows g as rs' hrs)

/-- the parts of `foldSelect` -/
theorem foldSelect_inv {s : SelectS} {f : FoldedSelect} (hf : foldSelect s = .ok f) :
    ∃ (fw n : Expr) (fs : List (Expr × Expr)),
      Fold.optimizeBoth s.where_ = .ok (fw, n) ∧ Rows (fun r e => Fold.optimizeBoth e = .ok r) fs s.fields ∧
      f.where_ = Parser.resolveTop (s.fieldNames.zip (fs.map (·.2))) fw ∧
      f.fields = fs.map (fun p => Parser.resolveTop (s.fieldNames.zip (fs.map (·.2))) p.1) := by
  unfold foldSelect at hf
  obtain ⟨w, hw, hf⟩ := except_bind_ok hf
  obtain ⟨fs, hfs, hf⟩ := except_bind_ok hf
  simp only [pure, Except.pure, Except.ok.injEq] at hf
  subst hf
  exact ⟨w.1, w.2, fs, hw, mapM_rows _ _ _ hfs, rfl, rfl⟩

theorem foldSelect_af {s : SelectS} (h : afStmt s = true) {f : FoldedSelect} (hf : foldSelect s = .ok f) :
    aliasFree f.where_ = true ∧ (∀ e ∈ f.fields, aliasFree e = true) ∧
    Fold.optimize s.where_ = .ok f.where_ ∧ Rows (fun e' e => Fold.optimize e = .ok e') f.fields s.fields := by
  unfold afStmt at h
  simp only [Bool.and_eq_true, List.all_eq_true] at h
  obtain ⟨haw, haf⟩ := h
  obtain ⟨fw, n, fs, hw, hfs, e1, e2⟩ := foldSelect_inv hf
  have hfw := optimizeBoth_af haw hw
  rw [resolveTop_of_af _ fw hfw] at e1
  -- the fields
  have key : ∀ (fs : List (Expr × Expr)) (l : List Expr) (tbl : Tbl),
      Rows (fun r e => Fold.optimizeBoth e = .ok r) fs l → (∀ e ∈ l, aliasFree e = true) →
      (∀ e ∈ fs.map (fun p => Parser.resolveTop tbl p.1), aliasFree e = true) ∧
      Rows (fun e' e => Fold.optimize e = .ok e') (fs.map (fun p => Parser.resolveTop tbl p.1)) l := by
    intro fs l tbl hr
    induction hr with
    | nil => intro _; exact ⟨by simp, .nil⟩
    | @cons r e rs es hre _ ih =>
      intro ha
      obtain ⟨ih1, ih2⟩ := ih (fun x hx => ha x (List.mem_cons_of_mem _ hx))
      obtain ⟨r1, r2⟩ := r
      have har := optimizeBoth_af (ha e List.mem_cons_self) hre
      have her : Parser.resolveTop tbl r1 = r1 := resolveTop_of_af _ r1 har
      refine ⟨?_, ?_⟩
      · intro x hx
        simp only [List.map_cons, List.mem_cons] at hx
        rcases hx with rfl | hx
        · rw [her]; exact har
        · exact ih1 x hx
      · simp only [List.map_cons]
        rw [her]
        exact .cons (Kvql.Proofs.Run.optimize_of_both hre) ih2
  obtain ⟨k1, k2⟩ := key fs s.fields _ hfs haf
  rw [← e2] at k1 k2
  exact ⟨by rw [e1]; exact hfw, k1, by rw [e1]; exact Kvql.Proofs.Run.optimize_of_both hw, k2⟩

/-! ### the alias hypotheses -/

theorem aliasTable_nil_of_af {s : SelectS} {f : FoldedSelect} (hw : aliasFree f.where_ = true)
    (hfs : ∀ e ∈ f.fields, aliasFree e = true) : aliasTable s f = [] := by
  unfold aliasTable allRefs
  rw [refs_of_af _ hw, List.nil_append, List.flatMap_eq_nil_iff]
  intro g hg
  unfold selFields at hg
  obtain ⟨⟨nm, e⟩, hp, rfl⟩ := List.mem_map.mp hg
  exact refs_of_af _ (hfs e (List.of_mem_zip hp).2)

theorem fieldsAgree_nil : ∀ (seen : List Bytes) (fields : List Field), FieldsAgreeFrom [] seen fields
  | _, [] => trivial
  | seen, g :: gs => ⟨fun _ t ht => (by cases ht), fieldsAgree_nil _ gs⟩

/-- a statement without alias references meets the alias hypotheses of C05 -/
theorem aliasOK_of_af {s : SelectS} (h : afStmt s = true) {f : FoldedSelect} (hf : foldSelect s = .ok f) :
    AliasOK s f := by
  obtain ⟨h1, h2, _, _⟩ := foldSelect_af h hf
  have hA := aliasTable_nil_of_af (s := s) h1 h2
  exact ⟨by rw [hA]; exact functional_nil, by rw [hA]; exact fieldsAgree_nil _ _⟩

/-- the alias hypotheses as a computable check on the folded statement: references to one name carry
    the same target, and the first field of a name IS (tree equality, `Expr.same`) the target of the
    references to that name -/
def functionalB (A : Aliases) : Bool := A.all (fun p => A.all (fun q => p.1 != q.1 || Expr.same p.2 q.2))

def agreeB (A : Aliases) : List Bytes → List Field → Bool
  | _, [] => true
  | seen, g :: gs =>
    (seen.contains g.name || A.all (fun p => p.1 != g.name || Expr.same p.2 g.expr)) && agreeB A (seen ++ [g.name]) gs

def aliasOKb (s : SelectS) (f : FoldedSelect) : Bool :=
  functionalB (aliasTable s f) && agreeB (aliasTable s f) [] (selFields s f)

theorem functional_of_check {A : Aliases} (h : functionalB A = true) : Functional A := by
  intro n t t' h1 h2
  unfold functionalB at h
  rw [List.all_eq_true] at h
  have := h _ h1
  rw [List.all_eq_true] at this
  have := this _ h2
  simp only [bne_self_eq_false, Bool.false_or] at this
  exact Expr.eq_of_same _ _ this

theorem agree_of_check {A : Aliases} : ∀ (seen : List Bytes) (fields : List Field), agreeB A seen fields = true →
    FieldsAgreeFrom A seen fields
  | _, [], _ => trivial
  | seen, g :: gs, h => by
    simp only [agreeB, Bool.and_eq_true, Bool.or_eq_true] at h
    refine ⟨fun hs t ht => ?_, agree_of_check _ gs h.2⟩
    rcases h.1 with h1 | h1
    · rw [hs] at h1; cases h1
    · rw [List.all_eq_true] at h1
      have := h1 _ ht
      simp only [bne_self_eq_false, Bool.false_or] at this
      have e : t = g.expr := Expr.eq_of_same _ _ this
      subst e
      exact ⟨fun _ => rfl, fun _ => rfl⟩

theorem aliasOK_of_check {s : SelectS} {f : FoldedSelect} (h : aliasOKb s f = true) : AliasOK s f := by
  unfold aliasOKb at h
  simp only [Bool.and_eq_true] at h
  exact ⟨functional_of_check h.1, agree_of_check _ _ h.2⟩

/-! ### (2) the field cache is invisible at statement level -/

theorem plainTrace_cache_invisible {s : SelectS} {f : FoldedSelect} (h : AliasOK s f) (store : Store) (kind : PollKind)
    (bs : Nat) (hk : kind = .next ∨ (store.Sorted ∧ 1 ≤ bs)) :
    plainTrace s f store kind bs true = plainTrace s f store kind bs false := by
  unfold plainTrace
  rw [projTrace_cache_invisible h store kind bs hk]

theorem runPlainSelect_cache_invisible {s : SelectS} {f : FoldedSelect} (h : AliasOK s f) (store : Store)
    (kind : PollKind) (bs : Nat) (hk : kind = .next ∨ (store.Sorted ∧ 1 ≤ bs)) :
    runPlainSelect s f store kind bs true = runPlainSelect s f store kind bs false := by
  rw [runPlainSelect_eq, runPlainSelect_eq, plainTrace_cache_invisible h store kind bs hk,
    projTrace_cache_invisible h store kind bs hk]

/-- **(2)** a SELECT without aggregates — `select *` or a field list, with or without ORDER BY and
    LIMIT — whose folded form meets the alias hypotheses of C05 has the same `Outcome` (failure, rows,
    final store and call log) with the field cache on and off: row mode on every store at every batch
    size ≥ 1; batch mode on a sorted store. -/
theorem runStmt_cache_invisible (s : SelectS) (hnoaggr : finalPlanCheck s = .ok false) {f : FoldedSelect}
    (hf : foldSelect s = .ok f) (h : AliasOK s f) (store : Store) (kind : PollKind) (bs : Nat) (hbs : 1 ≤ bs)
    (hk : kind = .next ∨ store.Sorted) :
    runStmt (.select s) store kind bs true = runStmt (.select s) store kind bs false := by
  rw [runStmt_plain s store kind bs true hbs hnoaggr hf, runStmt_plain s store kind bs false hbs hnoaggr hf]
  exact runPlainSelect_cache_invisible h store kind bs (hk.imp id (fun hs => ⟨hs, hbs⟩))

/-! ### (1) row mode -/

/-- the value of an expression on a stored pair, cache off (`nil` where it has none) -/
def colVal (e : Expr) (p : SPair) : Value :=
  match nocache e (toKv p) with
  | .ok v => v
  | .error _ => .nil

/-- the row of a stored pair under a list of field expressions -/
def rowVals (es : List Expr) (p : SPair) : List Value := es.map (colVal · p)

theorem rowSpec_ok : ∀ (fields : List Field) (p : SPair),
    (∀ g ∈ fields, ∃ v, nocache g.expr (toKv p) = .ok v ∧ rowSupported v = true) →
    rowSpec fields (toKv p) = .ok (fields.map (fun g => colVal g.expr p))
  | [], _, _ => rfl
  | g :: gs, p, h => by
    obtain ⟨v, hv, hsup⟩ := h g List.mem_cons_self
    rw [rowSpec, hv]
    simp only [hsup, Bool.not_true, Bool.false_eq_true, if_false,
      rowSpec_ok gs p (fun x hx => h x (List.mem_cons_of_mem _ hx)), List.map_cons]
    unfold colVal
    rw [hv]

theorem filterSpec_of_bool {w : Expr} {p : SPair} {b : Bool} (h : nocache w (toKv p) = .ok (.bool b)) :
    filterSpec w (toKv p) = .ok (Select.accepted w p) := by
  have h1 : filterSpec w (toKv p) = .ok b := by unfold filterSpec; rw [h]
  rw [h1, accepted_of_filterSpec h1]

/-- the hypotheses of (1) on a folded statement and a store: cache off, the folded WHERE is Boolean
    on every stored pair, and every folded field has a value (of a Go type the projection supports)
    on every stored pair the WHERE accepts -/
structure EvalOK (s : SelectS) (f : FoldedSelect) (store : Store) : Prop where
  filter : ∀ p ∈ store, ∃ b, nocache f.where_ (toKv p) = .ok (.bool b)
  fields : ∀ p ∈ store, Select.accepted f.where_ p = true →
    ∀ g ∈ selFields s f, ∃ v, nocache g.expr (toKv p) = .ok v ∧ rowSupported v = true

/-- the rows of the statement without ORDER BY / LIMIT: the accepted stored pairs in key order, each
    projected -/
def specRows (s : SelectS) (f : FoldedSelect) (store : Store) : List (List Value) :=
  (store.filter (Select.accepted f.where_)).map (fun p => (selFields s f).map (fun g => colVal g.expr p))

/-- **(1), row mode: the projection trace.** -/
theorem projTrace_good {s : SelectS} {f : FoldedSelect} (hnf : s.allFields = false) (hA : AliasOK s f)
    {store : Store} (hs : store.Sorted) (hev : EvalOK s f store) (bs : Nat) (hbs : 1 ≤ bs) (cache : Bool) :
    Good (projTrace s f store .next bs cache) (specRows s f store) store := by
  rw [projTrace_next_eq_spec hA]
  refine (projSpecNext_good hnf hs bs hbs (Select.accepted f.where_)
    (fun p => (selFields s f).map (fun g => colVal g.expr p)) ?_ ?_).1
  · intro p hp
    obtain ⟨b, hb⟩ := hev.filter p hp
    exact filterSpec_of_bool hb
  · intro p hp hg
    exact rowSpec_ok _ p (hev.fields p hp hg)

end Kvql.Proofs.RunFields
