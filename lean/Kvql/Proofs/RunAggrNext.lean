/-
  Aggregated SELECT, end to end — part 4: `Aggr.prepare` + `finishRow` with the tables of the
  end-to-end model compute `specRows` (`prepare_spec`, `runNext_spec`).
-/
import Kvql.Proofs.RunAggrRow

set_option linter.unusedSimpArgs false
set_option linter.unusedVariables false

namespace Kvql.Proofs.RunAggr
open Kvql Kvql.Run Kvql.Aggr Kvql.Proofs.Aggr Kvql.Generated Kvql.Proofs.Typing Kvql.Cache
open Kvql.PlanCheck (listAggrCalls isAggrCallee isAggr)

/-! ### `Run.aggrField` -/

theorem aggrField_eq (c0 : Ctx) (fe : Expr) : aggrField c0 fe =
    if (listAggrCalls fe).isEmpty then some .key
    else ((listAggrCalls fe).mapM (fun c => Run.kindOf c.1 c.2)).bind (fun kinds =>
      (aggExprOf c0 fe 0).bind (fun x => some (.agg kinds x.1))) := by
  cases fe <;> rfl

theorem aggrField_spec {c0 : Ctx} {fe : Expr} {fld : Aggr.Field} (h : aggrField c0 fe = some fld) :
    (isAggrField fe = false ∧ fld = .key) ∨
    (isAggrField fe = true ∧ ∃ kinds e n1, fld = .agg kinds e ∧
      (listAggrCalls fe).mapM (fun c => Run.kindOf c.1 c.2) = some kinds ∧ aggExprOf c0 fe 0 = some (e, n1)) := by
  rw [aggrField_eq] at h
  by_cases hemp : (listAggrCalls fe).isEmpty = true
  · simp only [hemp, if_true] at h
    injection h with h
    exact .inl ⟨by simp [isAggrField, hemp], h.symm⟩
  · simp only [hemp, Bool.false_eq_true, if_false] at h
    right
    refine ⟨by simp [isAggrField, hemp], ?_⟩
    cases hk : (listAggrCalls fe).mapM (fun c => Run.kindOf c.1 c.2) with
    | none => simp [hk] at h
    | some kinds =>
      cases ha : aggExprOf c0 fe 0 with
      | none => simp [hk, ha] at h
      | some en =>
        obtain ⟨e, n1⟩ := en
        simp only [hk, ha, Option.bind_some] at h
        injection h with h
        exact ⟨kinds, e, n1, h.symm, rfl, rfl⟩

theorem range_map_get {α β : Type} (l : List α) (F : α → β) (d : β) :
    (List.range l.length).map (fun j => (l[j]?.map F).getD d) = l.map F := by
  apply List.ext_getElem
  · simp
  · intro i h1 h2
    simp only [List.length_map, List.length_range] at h1
    simp [h1]

theorem beq_eq_decide' (a b : Bytes) : (a == b) = decide (a = b) := by
  by_cases h : a = b <;> simp [h]

section
variable {c0 : Ctx} {groups fields : List Expr} {afields : List Aggr.Field}

theorem fields_get (hfields : fields.mapM (aggrField c0) = some afields) {i : Nat} {fe : Expr}
    (h : fields[i]? = some fe) : ∃ fld, afields[i]? = some fld ∧ aggrField c0 fe = some fld := by
  obtain ⟨_, h2⟩ := mapM_some_get hfields
  have hlt : i < fields.length := by
    rcases Nat.lt_or_ge i fields.length with hlt | hge
    · exact hlt
    · rw [List.getElem?_eq_none hge] at h; cases h
  obtain ⟨y, hy1, hy2⟩ := h2 i hlt
  rw [List.getElem?_eq_getElem hlt] at h
  injection h with h
  rw [h] at hy2
  exact ⟨y, hy1, hy2⟩

theorem afields_get (hfields : fields.mapM (aggrField c0) = some afields) {i : Nat} {fld : Aggr.Field}
    (h : afields[i]? = some fld) : ∃ fe, fields[i]? = some fe ∧ aggrField c0 fe = some fld := by
  obtain ⟨h1, _⟩ := mapM_some_get hfields
  have hlt : i < fields.length := by
    rcases Nat.lt_or_ge i afields.length with hlt | hge
    · omega
    · rw [List.getElem?_eq_none hge] at h; cases h
  obtain ⟨fld', g1, g2⟩ := fields_get hfields (List.getElem?_eq_getElem hlt)
  rw [g1] at h
  injection h with h
  subst h
  exact ⟨_, List.getElem?_eq_getElem hlt, g2⟩

/-! ### the tables of `Run.aggrEval`, row mode -/

theorem ev_group {kind : Plans.PollKind} {j : Nat} {e : Expr} (h : groups[j]? = some e) (p : SPair) :
    (aggrEval kind c0 groups fields).group j p = groupEval kind c0 e p := by
  cases kind <;> simp [aggrEval, h, groupEval]

theorem ev_keyField {kind : Plans.PollKind} {i : Nat} {fe : Expr} (h : fields[i]? = some fe) (p : SPair) :
    (aggrEval kind c0 groups fields).keyField i p = evalRowA c0 fe p := by
  simp [aggrEval, h]

theorem ev_arg {kind : Plans.PollKind} {i c : Nat} {fe : Expr} {nm : Bytes} {a0 : Expr} {rest : List Expr}
    (h : fields[i]? = some fe) (hc : (listAggrCalls fe)[c]? = some (nm, a0 :: rest)) (p : SPair) :
    (aggrEval kind c0 groups fields).arg i c p = evalRowA c0 a0 p := by
  simp [aggrEval, h, hc]

theorem mem_of_getElem? {α : Type} {l : List α} {i : Nat} {a : α} (h : l[i]? = some a) : a ∈ l :=
  List.mem_of_getElem? h

variable (hc0 : CacheInvisible c0) (hfields : fields.mapM (aggrField c0) = some afields)
  (haff : ∀ fe ∈ fields, aliasFree fe = true)
include hc0 hfields haff

omit hfields in
/-- the first argument of the `c`-th aggregate call of field `i`, evaluated by the plan's table -/
theorem ev_arg_ok {kind : Plans.PollKind} {i c : Nat} {fe : Expr} {call : Bytes × List Expr}
    (h : fields[i]? = some fe) (hc : (listAggrCalls fe)[c]? = some call) {p : SPair}
    (hp : Evaluable groups fields p) :
    ∃ a rest, call.2 = a :: rest ∧ (aggrEval kind c0 groups fields).arg i c p = .ok (valueOf a p) := by
  have hmem : fe ∈ fields := mem_of_getElem? h
  obtain ⟨a, rest, v, h1, h2⟩ := hp.arg fe hmem call (mem_of_getElem? hc)
  obtain ⟨nm, args⟩ := call
  simp only at h1
  subst h1
  refine ⟨a, rest, rfl, ?_⟩
  rw [ev_arg h hc]
  exact evalRowA_ok hc0 (af_listAggrCalls fe (haff fe hmem) _ (mem_of_getElem? hc) a (by simp)) h2

theorem evalOkB_of {kind : Plans.PollKind} (aa : Bool) {p : SPair} (hpk : EvaluableK kind c0 groups fields p) :
    EvalOkB (aggrEval kind c0 groups fields) ⟨aa, groups.length, afields⟩ p := by
  have hp := hpk.base
  constructor
  · intro j hj
    have hg : groups[j]? = some groups[j] := List.getElem?_eq_getElem hj
    have hmem : groups[j] ∈ groups := List.getElem_mem hj
    have hb := hpk.grp _ hmem
    unfold GroupBytes at hb
    rw [ev_group hg]
    cases hv : groupEval kind c0 groups[j] p with
    | error x => rw [hv] at hb; cases hb
    | ok v => rw [hv] at hb; exact ⟨v, _, rfl, hb⟩
  · intro i hi
    obtain ⟨fe, hfe, hag⟩ := afields_get hfields hi
    have hmem : fe ∈ fields := mem_of_getElem? hfe
    rcases aggrField_spec hag with ⟨hk, _⟩ | ⟨_, kinds, e, n1, hfld, _, _⟩
    · obtain ⟨v, b, h1, h2⟩ := hp.key fe hmem hk
      refine ⟨valueOf fe p, b, ?_, by rw [valueOf_ok h1]; exact h2⟩
      rw [ev_keyField hfe]
      exact evalRowA_ok hc0 (haff _ hmem) h1
    · cases hfld
  · intro i calls e hi c hc
    obtain ⟨fe, hfe, hag⟩ := afields_get hfields hi
    rcases aggrField_spec hag with ⟨_, hfld⟩ | ⟨_, kinds, e', n1, hfld, hk, _⟩
    · cases hfld
    · injection hfld with hk1 hk2
      subst hk1 hk2
      obtain ⟨hl, _⟩ := mapM_some_get hk
      have hlt : c < (listAggrCalls fe).length := by omega
      obtain ⟨a, rest, _, h2⟩ := ev_arg_ok hc0 haff (kind := kind) hfe (List.getElem?_eq_getElem hlt) hp
      exact ⟨_, h2⟩

/-! ### the row of a group -/

/-- **the row handed out for a group is `rowOf` of its pairs** -/
theorem finishRow_group {kind : Plans.PollKind} (aa : Bool) {p0 : SPair} {rest : List SPair}
    (hev : ∀ p ∈ p0 :: rest, Evaluable groups fields p) {row : Row}
    (hrow : groupRow (aggrEval kind c0 groups fields) ⟨aa, groups.length, afields⟩ (p0 :: rest) = .ok row)
    {srow : List AVal} (hspec : rowOf fields (p0 :: rest) = .ok srow) : finishRow row = .ok srow := by
  obtain ⟨sl, sget⟩ := mapM_ok_get _ fields srow hspec
  obtain ⟨al, _⟩ := mapM_some_get hfields
  have hshape := groupRow_shape _ _ hrow
  rw [finishRow_eq_mapM]
  apply mapM_ok_of_get
  · rw [sl, hshape.1, al]
  · intro n col hcol
    have hlt : n < fields.length := by
      rcases Nat.lt_or_ge n row.length with hlt | hge
      · have := hshape.1; simp only at this; omega
      · rw [List.getElem?_eq_none hge] at hcol; cases hcol
    have hfe : fields[n]? = some fields[n] := List.getElem?_eq_getElem hlt
    have hmem : fields[n] ∈ fields := List.getElem_mem hlt
    obtain ⟨b, hb, hg⟩ := sget n _ hfe
    obtain ⟨fld, hfld, hag⟩ := fields_get hfields hfe
    refine ⟨b, hb, ?_⟩
    rcases aggrField_spec hag with ⟨hk, hf⟩ | ⟨hk, kinds, e, n1, hf, hkinds, hexpr⟩
    · -- a key field: its value on the first pair
      subst hf
      obtain ⟨v, bb, h1, h2, h3⟩ := groupRow_key _ _ hrow (n := n) hfld
      rw [h3] at hcol
      injection hcol with hcol
      subst hcol
      simp only [hk, Bool.false_eq_true, if_false] at hg
      injection hg with hg
      obtain ⟨v0, b0, g1, g2⟩ := (hev p0 (by simp)).key _ hmem hk
      rw [ev_keyField hfe, evalRowA_ok hc0 (haff _ hmem) g1] at h1
      injection h1 with h1
      subst h1
      rw [valueOf_ok g1] at h2 hg
      rw [g2] at h2
      injection h2 with h2
      rw [render_ok g2] at hg
      simp only [finishCol]
      rw [← hg, h2]
    · -- an aggregate field
      subst hf
      simp only [hk, if_true] at hg
      obtain ⟨accs, h3, hlen, hacc⟩ := groupRow_accs _ _ hrow (n := n) hfld
      rw [h3] at hcol
      injection hcol with hcol
      subst hcol
      obtain ⟨rs, hcv, _, hev'⟩ := aggExpr_eval_spec hc0 (p0 :: rest) _ 0 e n1 b (haff _ hmem) hexpr hg
      have hres : accs.mapM Acc.complete = .ok rs := by
        obtain ⟨rl, rget⟩ := mapM_ok_get _ _ rs hcv
        obtain ⟨kl, kget⟩ := mapM_some_get hkinds
        apply mapM_ok_of_get
        · rw [rl, hlen, kl]
        · intro m a ha
          have hm : m < (listAggrCalls fields[n]).length := by
            rcases Nat.lt_or_ge m accs.length with hlt' | hge
            · omega
            · rw [List.getElem?_eq_none hge] at ha; cases ha
          have hcall : (listAggrCalls fields[n])[m]? = some (listAggrCalls fields[n])[m] :=
            List.getElem?_eq_getElem hm
          obtain ⟨r, hr, hcd⟩ := rget m _ hcall
          obtain ⟨k, hk1, hk2⟩ := kget m hm
          refine ⟨r, hr, ?_⟩
          -- the definition of the call
          obtain ⟨a0, rest0, hargs, _⟩ :=
            ev_arg_ok hc0 haff (kind := kind) hfe hcall (hev p0 (by simp))
          unfold callDef at hcd
          rw [hk2, hargs] at hcd
          simp only at hcd
          obtain ⟨hcount, hother⟩ := hacc m k hk1
          by_cases hkc : k = .count
          · subst hkc
            rw [hcount rfl] at ha
            injection ha with ha
            rw [← ha, ← hcd]
            simp [Acc.complete, aggDef]
          · obtain ⟨vs, hvs, hfold⟩ := hother hkc
            rw [hfold] at ha
            injection ha with ha
            have hvs' : vs = (p0 :: rest).map (valueOf a0) := by
              have : (p0 :: rest).map (fun q => (aggrEval kind c0 groups fields).arg n m q) =
                  ((p0 :: rest).map (valueOf a0)).map Except.ok := by
                rw [List.map_map]
                apply List.map_congr_left
                intro q hq
                obtain ⟨a1, rest1, hargs1, h4⟩ :=
                  ev_arg_ok hc0 haff (kind := kind) hfe hcall (hev q hq)
                rw [hargs] at hargs1
                injection hargs1 with e1 _
                subst e1
                exact h4
              rw [this] at hvs
              exact ((List.map_inj_right (fun _ _ h => by injection h)).mp hvs).symm
            rw [← ha, complete_fold, hvs', hcd]
      simp only [finishCol, hres, bind_ok]
      have := hev' [] [] rfl
      simpa using this

/-! ### the group key and the tuple of GROUP BY values -/

omit hc0 hfields haff in
theorem gtuple_eq {kind : Plans.PollKind} (aa : Bool) {p : SPair} (hp : EvaluableK kind c0 groups fields p) :
    gtuple (aggrEval kind c0 groups fields) ⟨aa, groups.length, afields⟩ p = .ok (tupleOf groups p) := by
  unfold gtuple tupleOf
  rw [← range_map_get groups (fun e => render (valueOf e p)) []]
  apply mapM_of_ok
  intro j hj
  have hj' : j < groups.length := by simpa using hj
  have hg : groups[j]? = some groups[j] := List.getElem?_eq_getElem hj'
  have hmem : groups[j] ∈ groups := List.getElem_mem hj'
  have hb := hp.grp _ hmem
  unfold GroupBytes at hb
  unfold gbytes
  rw [ev_group hg, hb, hg]
  rfl

omit hc0 hfields haff in
theorem key_iff_tuple {kind : Plans.PollKind} (aa : Bool) (haa : aa = true → groups = []) {x y : SPair}
    (hx : EvaluableK kind c0 groups fields x) (hy : EvaluableK kind c0 groups fields y) :
    keyD (aggrEval kind c0 groups fields) ⟨aa, groups.length, afields⟩ x =
      keyD (aggrEval kind c0 groups fields) ⟨aa, groups.length, afields⟩ y ↔
    tupleOf groups x = tupleOf groups y := by
  cases aa with
  | true =>
    have hg := haa rfl
    subst hg
    simp [keyD, getAggrKey, tupleOf]
  | false =>
    exact same_key_iff _ _ rfl (gtuple_eq false hx) (gtuple_eq false hy)

/-! ### the whole preparation -/

/-- **`prepare` builds the groups of the specification, and handing them out gives its rows** -/
theorem prepare_spec {kind : Plans.PollKind} (aa : Bool) (haa : aa = true → groups = []) (sel : List SPair)
    (hev : ∀ p ∈ sel, EvaluableK kind c0 groups fields p) {out : List (List AVal)}
    (hspec : specRows groups fields sel = .ok out) :
    ∃ gs, prepare (aggrEval kind c0 groups fields) ⟨aa, groups.length, afields⟩ [] sel = .ok gs ∧
      (rowsOf gs).mapM finishRow = .ok out := by
  obtain ⟨gs, hgs⟩ := prepare_okB (aggrEval kind c0 groups fields) ⟨aa, groups.length, afields⟩ sel [] []
    (inv_nil _ _) (fun p hp => evalOkB_of hc0 hfields haff aa (hev p hp))
  refine ⟨gs, hgs, ?_⟩
  obtain ⟨_, hkeys, hrows⟩ := prepare_partition _ _ hgs
  -- the groups of the specification are the groups of the plan
  have hgroups : groupsOf groups sel =
      (gs.map Prod.fst).map (fun k => sel.filter (fun q =>
        keyD (aggrEval kind c0 groups fields) ⟨aa, groups.length, afields⟩ q == k)) := by
    rw [hkeys]
    unfold groupsOf
    rw [distinct_eq_firsts]
    simp only [beq_eq_decide']
    exact (groups_congr _ _ sel (fun x hx y hy =>
      key_iff_tuple aa haa (hev x hx) (hev y hy))).symm
  unfold specRows at hspec
  rw [hgroups] at hspec
  obtain ⟨ol, oget⟩ := mapM_ok_get _ _ out hspec
  unfold rowsOf
  apply mapM_ok_of_get
  · rw [ol]; simp
  · intro n row hrow
    rw [List.getElem?_map] at hrow
    cases hg : gs[n]? with
    | none => rw [hg] at hrow; cases hrow
    | some kr =>
      obtain ⟨k, r⟩ := kr
      rw [hg] at hrow
      simp only [Option.map_some, Option.some.injEq] at hrow
      subst hrow
      have hmem : (k, r) ∈ gs := mem_of_getElem? hg
      have hgr := hrows k r hmem
      obtain ⟨b, hb, hrowOf⟩ := oget n (sel.filter (fun q =>
          keyD (aggrEval kind c0 groups fields) ⟨aa, groups.length, afields⟩ q == k)) (by
        rw [List.getElem?_map, List.getElem?_map, hg]; rfl)
      refine ⟨b, hb, ?_⟩
      cases hf : sel.filter (fun q =>
          keyD (aggrEval kind c0 groups fields) ⟨aa, groups.length, afields⟩ q == k) with
      | nil => rw [hf] at hgr; simp [groupRow] at hgr
      | cons p0 rest =>
        rw [hf] at hgr hrowOf
        have hsub : ∀ p ∈ p0 :: rest, Evaluable groups fields p := by
          intro p hp
          rw [← hf] at hp
          exact (hev p (List.mem_filter.mp hp).1).base
        exact finishRow_group hc0 hfields haff aa hsub hgr hrowOf

/-- `Next` until nil over the selected pairs hands out the rows of the specification -/
theorem runNext_spec {kind : Plans.PollKind} (aa : Bool) (haa : aa = true → groups = []) (sel : List SPair)
    (hev : ∀ p ∈ sel, EvaluableK kind c0 groups fields p) {out : List (List AVal)}
    (hspec : specRows groups fields sel = .ok out) :
    runNext (aggrEval kind c0 groups fields) ⟨aa, groups.length, afields⟩ sel = (out, none) :=
  (runNext_ok_iff _ _ _ _).mpr (prepare_spec hc0 hfields haff aa haa sel hev hspec)

end

end Kvql.Proofs.RunAggr
