/-
  The trees the expression parser produces contain no alias reference and no cycle marker
  (`aliasFree`): references are only made by `Check` (`tryRewriteExpr`) and `RewriteFieldNames`.
-/
import Kvql.Proofs.TypingAccepted

namespace Kvql.Proofs.Typing

open Kvql Kvql.Parser Kvql.Generated

/-- `Q` on success; errors, panics and fuel are not this file's business -/
abbrev Shp {α : Type} (r : Res α) (Q : α → Prop) : Prop :=
  r.Holds Q (fun _ => True) (fun _ => True) True

def AF (p : Expr × Toks) : Prop := aliasFree p.1 = true
def AFs (p : List Expr × Toks) : Prop := aliasFree.aliasFreeList p.1 = true

theorem aliasFreeList_append {a b : List Expr} (ha : aliasFree.aliasFreeList a = true)
    (hb : aliasFree.aliasFreeList b = true) : aliasFree.aliasFreeList (a ++ b) = true := by
  induction a with
  | nil => simpa using hb
  | cons x xs ih =>
    simp only [aliasFree.aliasFreeList, Bool.and_eq_true, List.cons_append] at ha ⊢
    exact ⟨ha.1, ih ha.2⟩

variable (pf : Bytes → F64)

structure ShapeIH (fuel : Nat) : Prop where
  binary : ∀ lev prec ts, Shp (parseBinaryExpr pf fuel lev prec ts) AF
  bloop : ∀ lev prec x ts, aliasFree x = true → Shp (binaryLoop pf fuel lev prec x ts) AF
  unary : ∀ lev ts, Shp (parseUnaryExpr pf fuel lev ts) AF
  primary : ∀ lev ts, Shp (parsePrimaryExpr pf fuel lev ts) AF
  ploop : ∀ lev x ts, aliasFree x = true → Shp (primaryLoop pf fuel lev x ts) AF
  operand : ∀ lev ts, Shp (parseOperand pf fuel lev ts) AF
  items : ∀ lev close strict acc ts, aliasFree.aliasFreeList acc = true →
    Shp (parseItems pf fuel lev close strict acc ts) AFs
  call : ∀ lev fn ts, aliasFree fn = true → Shp (parseFuncCall pf fuel lev fn ts) AF
  access : ∀ lev pos l ts, aliasFree l = true → Shp (parseFieldAccess pf fuel lev pos l ts) AF
  list : ∀ lev pos ts, Shp (parseList pf fuel lev pos ts) AF
  between : ∀ lev pos oprec ts, Shp (parseBetween pf fuel lev pos oprec ts) AF

theorem shape_zero : ShapeIH pf 0 := by
  constructor <;> intros <;>
    simp [parseBinaryExpr, binaryLoop, parseUnaryExpr, parsePrimaryExpr, primaryLoop, parseOperand,
      parseItems, parseFuncCall, parseFieldAccess, parseList, parseBetween]

theorem expect_shp (tp : Nat) (ts : Toks) : Shp (expect tp ts) (fun _ => True) := by
  unfold expect; split
  · simp [eofErr]
  · split <;> simp [synErr]

theorem buildOp_shp (p : Nat) (s : String) : Shp (buildOp p s) (fun _ => True) := by
  unfold buildOp; split <;> simp [synErr]

theorem shape_step {fuel : Nat} (ih : ShapeIH pf fuel) : ShapeIH pf (fuel + 1) := by
  constructor
  · -- binary
    intro lev prec ts
    unfold parseBinaryExpr
    apply Res.Holds.bind (ih.unary lev ts)
    rintro ⟨x, ts'⟩ hx
    exact ih.bloop _ _ _ _ hx
  · -- bloop
    intro lev prec x ts hx
    unfold binaryLoop
    split
    · simp
    · split
      · exact hx
      · rename_i t rest
        dsimp only
        by_cases hp : t.prec < prec
        · rw [if_pos hp]; exact hx
        · rw [if_neg hp]
          apply Res.Holds.bind (R := AF)
          · split
            · split
              · simp [eofErr]
              · split
                · exact ih.list _ _ _
                · exact ih.binary _ _ _
            · split
              · exact ih.between _ _ _ _
              · exact ih.binary _ _ _
          · rintro ⟨y, ts'⟩ hy
            apply Res.Holds.bind (buildOp_shp _ _)
            intro op _
            refine ih.bloop _ _ _ _ ?_
            simp only [aliasFree, Bool.and_eq_true]
            exact ⟨hx, hy⟩
  · -- unary
    intro lev ts
    unfold parseUnaryExpr
    split
    · simp [eofErr]
    · split
      · apply Res.Holds.bind (ih.unary _ _)
        rintro ⟨y, ts'⟩ hy
        simpa [AF, aliasFree] using hy
      · exact ih.primary _ _
  · -- primary
    intro lev ts
    unfold parsePrimaryExpr
    apply Res.Holds.bind (ih.operand lev ts)
    rintro ⟨x, ts'⟩ hx
    exact ih.ploop _ _ _ hx
  · -- ploop
    intro lev x ts hx
    unfold primaryLoop
    split
    · exact hx
    · split
      · split
        · simp
        · apply Res.Holds.bind (ih.call _ _ _ hx)
          rintro ⟨y, ts'⟩ hy
          exact ih.ploop _ _ _ hy
      · split
        · apply Res.Holds.bind (ih.access _ _ _ _ hx)
          rintro ⟨y, ts'⟩ hy
          exact ih.ploop _ _ _ hy
        · exact hx
  · -- operand
    intro lev ts
    unfold parseOperand
    split
    · simp
    · rename_i t rest
      repeat' split
      all_goals try (first
        | (simp [AF, aliasFree, Expr.newNumber]; done)
        | (simp; done))
      apply Res.Holds.bind (ih.binary _ _ rest)
      rintro ⟨y, ts'⟩ hy
      apply Res.Holds.bind (expect_shp _ _)
      intro ts'' _
      exact hy
  · -- items
    intro lev close strict acc ts hacc
    unfold parseItems
    split
    · exact hacc
    · split
      · exact hacc
      · apply Res.Holds.bind (ih.binary _ _ _)
        rintro ⟨y, ts'⟩ hy
        dsimp only
        have hacc' : aliasFree.aliasFreeList (acc ++ [y]) = true :=
          aliasFreeList_append hacc (by simp only [aliasFree.aliasFreeList, Bool.and_true]; exact hy)
        split
        · exact hacc'
        · split
          · exact hacc'
          · split
            · simp [synErr]
            · exact ih.items _ _ _ _ _ hacc'
  · -- call
    intro lev fn ts hfn
    unfold parseFuncCall
    apply Res.Holds.bind (expect_shp _ _)
    intro ts1 _
    apply Res.Holds.bind (ih.items _ _ _ [] ts1 (by simp [aliasFree.aliasFreeList]))
    rintro ⟨args, ts2⟩ ha
    apply Res.Holds.bind (expect_shp _ _)
    intro ts3 _
    simp only [Res.holds_pure, AF, aliasFree, Bool.and_eq_true]
    exact ⟨hfn, ha⟩
  · -- access
    intro lev pos l ts hl
    unfold parseFieldAccess
    apply Res.Holds.bind (expect_shp _ _)
    intro ts1 _
    apply Res.Holds.bind (ih.items _ _ _ [] ts1 (by simp [aliasFree.aliasFreeList]))
    rintro ⟨args, ts2⟩ ha
    apply Res.Holds.bind (expect_shp _ _)
    intro ts3 _
    split
    · rename_i f
      simp only [AFs, aliasFree.aliasFreeList, Bool.and_eq_true] at ha
      simp only [Res.holds_pure, AF, aliasFree, Bool.and_eq_true]
      exact ⟨hl, ha.1⟩
    · simp [synErr]
  · -- list
    intro lev pos ts
    unfold parseList
    apply Res.Holds.bind (expect_shp _ _)
    intro ts1 _
    apply Res.Holds.bind (ih.items _ _ _ [] ts1 (by simp [aliasFree.aliasFreeList]))
    rintro ⟨args, ts2⟩ ha
    apply Res.Holds.bind (expect_shp _ _)
    intro ts3 _
    simp only [Res.holds_pure, AF, aliasFree]
    exact ha
  · -- between
    intro lev pos oprec ts
    unfold parseBetween
    apply Res.Holds.bind (ih.binary _ _ ts)
    rintro ⟨lo, ts1⟩ hlo
    apply Res.Holds.bind (expect_shp _ _)
    intro ts2 _
    apply Res.Holds.bind (ih.binary _ _ ts2)
    rintro ⟨hi, ts3⟩ hhi
    simp only [Res.holds_pure, AF, aliasFree, aliasFree.aliasFreeList, Bool.and_eq_true]
    exact ⟨hlo, hhi, trivial⟩

theorem shape_all : ∀ fuel, ShapeIH pf fuel
  | 0 => shape_zero pf
  | n + 1 => shape_step pf (shape_all n)

/-- what the expression parser returns contains no alias reference (and no cycle marker) -/
theorem parseExpr_aliasFree {efuel : Nat} {ts rest : Toks} {x : Expr}
    (h : parseExpr pf efuel ts = .ok (x, rest)) : aliasFree x = true := by
  have := (shape_all pf efuel).binary 0 1 ts
  unfold parseExpr at h
  rw [h] at this
  exact this

end Kvql.Proofs.Typing
