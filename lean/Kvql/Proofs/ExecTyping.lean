/-
  C14, dynamic half (lemma file): a typing of expressions written from README "Operators and
  Functions" (`kindOf`, a checker that infers the kind or refuses), and the kernels' behaviour on
  operands of the right kinds.  `ExecTypingThm.lean` proves from these that evaluation of a
  well-kinded expression never fails with an operand-type error and returns a value of its kind.

  Dynamically typed field access (`x['f']`, `x[n]`) is exempt in the property: `kindOf` refuses it.
-/
import Kvql.Proofs.ExecInert
import Kvql.Proofs.ExecTotal

namespace Kvql
open Generated

/-- the kinds of values the README speaks about; lists by element kind -/
inductive Kind | text | num | bool | listText | listNum | json
deriving DecidableEq, Repr

/-- `ReturnType()` code of a kind -/
def Kind.code : Kind → Nat
  | .text => tyTSTR | .num => tyTNUMBER | .bool => tyTBOOL | .listText => tyTLIST | .listNum => tyTLIST | .json => tyTJSON

def Kind.scalar : Kind → Bool
  | .text | .num | .bool => true
  | _ => false

def Value.hasKind : Value → Kind → Bool
  | .bytes _, .text | .str _, .text => true
  | .int _, .num | .goInt _, .num | .float _, .num => true
  | .bool _, .bool => true
  | .strList _, .listText => true
  | .intList _, .listNum | .floatList _, .listNum => true
  | .json _, .json => true
  | _, _ => false

/-- result kind of each function body (README: `…: str`, `…: int`, `…: list`, …) -/
def Body.res : Body → Kind
  | .lower | .upper | .toStr | .subStr | .join => .text
  | .toInt | .toFloat | .strlen | .len | .cosine | .l2 => .num
  | .isInt | .isFloat => .bool
  | .json => .json
  | .split => .listText
  | .toList | .intList | .floatList => .listNum

def isList (k : Option Kind) : Bool := k == some .listText || k == some .listNum
def isScalar (k : Option Kind) : Bool := k == some .text || k == some .num || k == some .bool

mutual
  /-- the kind of a well-kinded expression; `none`: not typable from the README rules -/
  def kindOf : Expr → Option Kind
    | .str .. => some .text
    | .field .. => some .text
    | .num .. => some .num
    | .float .. => some .num
    | .bool .. => some .bool
    | .not _ r => if kindOf r == some .bool then some .bool else none
    | .ref _ _ t => kindOf t
    | .name .. => none
    | .cycle => none
    | .list .. => none
    | .access .. => none
    | .call _ nm args =>
      match funcNameOf nm with
      | .error _ => none
      | .ok fname =>
        match lookupFunc fname with
        | none => none
        | some fo =>
          if !fo.varArgs && args.length != fo.numArgs then none
          else if fo.varArgs && args.length < fo.numArgs then none
          else match fo.body with
            | none => none
            | some b => if argsOk b args then some b.res else none
    | .binop _ op l r =>
      let kl := kindOf l
      let kr := kindOf r
      match op with
      | .and | .or | .kwAnd | .kwOr => if kl == some .bool && kr == some .bool then some .bool else none
      | .eq | .neq => if isScalar kl && kl == kr then some .bool else none
      | .prefixMatch | .regexMatch => if kl == some .text && kr == some .text then some .bool else none
      | .gt | .gte | .lt | .lte => if (kl == some .text || kl == some .num) && kl == kr then some .bool else none
      | .add => if kl == some .text && kr == some .text then some .text
                else if kl == some .num && kr == some .num then some .num else none
      | .sub | .mul | .div => if kl == some .num && kr == some .num then some .num else none
      | .in_ =>
        match r with
        | .list _ items =>
          if kl == some .text then (if allKind .text items then some .bool else none)
          else if kl == some .num then (if allKind .num items then some .bool else none)
          else none
        | .call .. | .ref .. =>
          if (kl == some .text && kr == some .listText) || (kl == some .num && kr == some .listNum) then some .bool
          else none
        | _ => none
      | .between =>
        match r with
        | .list _ [lo, hi] =>
          if (kl == some .text || kl == some .num) && kindOf lo == kl && kindOf hi == kl then some .bool else none
        | _ => none
      | .not => none
  def allKind (k : Kind) : List Expr → Bool
    | [] => true
    | e :: es => kindOf e == some k && allKind k es
  def allScalar : List Expr → Bool
    | [] => true
    | e :: es => isScalar (kindOf e) && allScalar es
  /-- documented argument kinds of each function -/
  def argsOk : Body → List Expr → Bool
    | .lower, [a] | .upper, [a] | .json, [a] => kindOf a == some .text
    | .toInt, [a] | .toFloat, [a] | .toStr, [a] | .strlen, [a] | .isInt, [a] | .isFloat, [a] => isScalar (kindOf a)
    | .subStr, [a0, a1, a2] => kindOf a0 == some .text && kindOf a1 == some .num && kindOf a2 == some .num
    | .split, [a0, a1] => kindOf a0 == some .text && kindOf a1 == some .text
    | .join, a0 :: rest => kindOf a0 == some .text && allScalar rest
    | .len, [a] => isList (kindOf a) || kindOf a == some .text
    | .cosine, [a0, a1] | .l2, [a0, a1] => isList (kindOf a0) && isList (kindOf a1)
    | .toList, a :: rest | .intList, a :: rest | .floatList, a :: rest => isScalar (kindOf a) && allScalar rest
    | _, _ => false
end

/-- the result kinds agree with the `ReturnType` column of `funcMap` -/
theorem funcTable_res :
    ∀ e ∈ funcTable, ∀ b, (FuncInfo.ofEntry e).body = some b → (FuncInfo.ofEntry e).retType = b.res.code := by
  decide

/-! ### kernels on operands of the right kinds -/

/-- never an operand-type error; on success a value of kind `k` -/
def KSound (k : Kind) (x : Except Err Value) : Prop :=
  (∀ v, x = .ok v → v.hasKind k = true) ∧ x ≠ .error .operandType

theorem Value.text_cases {v : Value} (h : v.hasKind .text = true) : ∃ b, v = .bytes b ∨ v = .str b := by
  cases v with
  | bytes b => exact ⟨b, .inl rfl⟩
  | str b => exact ⟨b, .inr rfl⟩
  | _ => simp [Value.hasKind] at h
theorem Value.num_cases {v : Value} (h : v.hasKind .num = true) : (∃ i, v = .int i ∨ v = .goInt i) ∨ ∃ f, v = .float f := by
  cases v with
  | int i => exact .inl ⟨i, .inl rfl⟩
  | goInt i => exact .inl ⟨i, .inr rfl⟩
  | float f => exact .inr ⟨f, rfl⟩
  | _ => simp [Value.hasKind] at h
theorem Value.bool_cases {v : Value} (h : v.hasKind .bool = true) : ∃ b, v = .bool b := by
  cases v with
  | bool b => exact ⟨b, rfl⟩
  | _ => simp [Value.hasKind] at h

theorem ks_ok {k : Kind} {v : Value} (h : v.hasKind k = true) : KSound k (.ok v) :=
  ⟨fun w hw => (by cases hw; exact h), (by simp)⟩
theorem ks_data {k : Kind} : KSound k (.error .data) := ⟨fun _ h => (by cases h), (by simp)⟩

theorem ks_intMath (op l r) : KSound .num (intMath op l r) := by
  cases op
  · exact ks_ok rfl
  · exact ks_ok rfl
  · exact ks_ok rfl
  · unfold intMath; dsimp only; split
    · exact ks_data
    · exact ks_ok rfl

theorem ks_floatMath (op l r) : KSound .num (floatMath op l r) := by
  cases op
  · exact ks_ok rfl
  · exact ks_ok rfl
  · exact ks_ok rfl
  · unfold floatMath; dsimp only; split
    · exact ks_data
    · exact ks_ok rfl

theorem ks_executeMathOp {a b : Value} (ha : a.hasKind .num = true) (hb : b.hasKind .num = true) (op : MathOp) :
    KSound .num (executeMathOp a b op) := by
  rcases Value.num_cases ha with ⟨i, rfl | rfl⟩ | ⟨f, rfl⟩ <;>
  rcases Value.num_cases hb with ⟨j, rfl | rfl⟩ | ⟨g, rfl⟩ <;>
    simp only [executeMathOp, convertToInt, convertToFloat] <;>
    first | exact ks_intMath _ _ _ | exact ks_floatMath _ _ _

theorem execNumberCompare_ok {a b : Value} (ha : a.hasKind .num = true) (hb : b.hasKind .num = true) (op : CmpOp) :
    ∃ c, execNumberCompare a b op = .ok c := by
  rcases Value.num_cases ha with ⟨i, rfl | rfl⟩ | ⟨f, rfl⟩ <;>
  rcases Value.num_cases hb with ⟨j, rfl | rfl⟩ | ⟨g, rfl⟩ <;>
    simp [execNumberCompare, convertToInt, convertToFloat]

theorem execStringCompare_ok {a b : Value} (ha : a.hasKind .text = true) (hb : b.hasKind .text = true) (op : CmpOp) :
    ∃ c, execStringCompare a b op = .ok c := by
  obtain ⟨x, rfl | rfl⟩ := Value.text_cases ha <;> obtain ⟨y, rfl | rfl⟩ := Value.text_cases hb <;>
    simp [execStringCompare, convertToByteArray]

/-- comparison chosen by the static type, on operands of that kind -/
theorem compareBy_ok {number : Bool} {k : Kind} (hk : (number = true ∧ k = .num) ∨ (number = false ∧ k = .text))
    {a b : Value} (ha : a.hasKind k = true) (hb : b.hasKind k = true) (op : CmpOp) :
    ∃ c, compareBy number a b op = .ok c := by
  rcases hk with ⟨rfl, rfl⟩ | ⟨rfl, rfl⟩
  · simpa [compareBy] using execNumberCompare_ok ha hb op
  · simpa [compareBy] using execStringCompare_ok ha hb op

theorem equalRow_ok {k : Kind} (hs : k.scalar = true) {a b : Value} (ha : a.hasKind k = true) (hb : b.hasKind k = true) :
    ∃ c, equalRow a b = .ok c := by
  cases k <;> simp [Kind.scalar] at hs
  · obtain ⟨x, rfl | rfl⟩ := Value.text_cases ha <;> obtain ⟨y, rfl | rfl⟩ := Value.text_cases hb <;>
      simp [equalRow, convertToByteArray]
  · obtain ⟨c, hc⟩ := execNumberCompare_ok ha hb .eq
    rcases Value.num_cases ha with ⟨i, rfl | rfl⟩ | ⟨f, rfl⟩ <;> exact ⟨c, by simp [equalRow, numberEqual, hc]⟩
  · obtain ⟨x, rfl⟩ := Value.bool_cases ha
    obtain ⟨y, rfl⟩ := Value.bool_cases hb
    simp [equalRow]

theorem betweenKernel_sound {number : Bool} {k : Kind} (hk : (number = true ∧ k = .num) ∨ (number = false ∧ k = .text))
    {x lo hi : Value} (hx : x.hasKind k = true) (hl : lo.hasKind k = true) (hh : hi.hasKind k = true) :
    KSound .bool (betweenKernel number x lo hi) := by
  obtain ⟨c1, h1⟩ := compareBy_ok hk hl hh .lt
  obtain ⟨c2, h2⟩ := compareBy_ok hk hl hx .lte
  obtain ⟨c3, h3⟩ := compareBy_ok hk hx hh .lte
  unfold betweenKernel
  simp only [h1, h2, h3, bind, Except.bind]
  cases c1 <;> cases c2 <;> first | exact ks_data | exact ks_ok rfl


end Kvql
