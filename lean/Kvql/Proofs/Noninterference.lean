/-
# Non-interference of concurrently executed statements

Informal claim being formalised:

  Statements executed concurrently, each with its own private state, over a
  thread-safe storage whose operations are atomic, return exactly what they
  return when run alone, provided their storage footprints are independent;
  the library itself has no shared mutable state.

Model.

* The shared storage is a total map `Store := Key → Option Val`.
* A storage operation `Op` is *atomic*: one scheduled step of a thread performs
  exactly one `Op` against the store, and nothing else can happen in between.
    - `read f`    : any pure observation of the store (Get, cursor snapshot, ...)
    - `write k v` : a put (`v = some _`) or a delete (`v = none`)
    - `batch l`   : an atomic batch of puts/deletes, applied left to right
* A `Thread` is a deterministic machine over a PRIVATE state `S`.  The library's
  global tables are read-only and the same for every thread, so they are just
  part of the closed-over definition of `next`/`resume`/`afterWrite`.  There is
  no other channel between threads: the only shared mutable object in a
  `Config` is `store`.
* A `Config` is the shared store plus the vector of private states; a schedule is
  a `List (Fin n)`; `run` executes, for each scheduled thread id, one atomic step
  of that thread (a finished thread's step is a no-op).
* `solo T j cfg m` is thread `j` executing `m` steps alone, from the same initial
  store and its own initial private state.

No imports beyond core.
-/

namespace Kvql.Proofs.Noninterference

/-! ## Storage -/

/-- The shared key-value store. `none` means "key absent". -/
abbrev Store (Key Val : Type) := Key → Option Val

/-- Point update of the store (`v = none` is a delete). -/
def setKey {Key Val : Type} [DecidableEq Key]
    (st : Store Key Val) (k : Key) (v : Option Val) : Store Key Val :=
  fun k' => if k' = k then v else st k'

/-- An atomic batch of point updates, applied left to right. -/
def applyWrites {Key Val : Type} [DecidableEq Key]
    (st : Store Key Val) : List (Key × Option Val) → Store Key Val
  | [] => st
  | kv :: l => applyWrites (setKey st kv.1 kv.2) l

/-- Atomic storage operations. -/
inductive Op (Key Val Resp : Type) where
  /-- Any operation that only observes the store. -/
  | read (f : Store Key Val → Resp)
  /-- Put (`some v`) or delete (`none`) of a single key. -/
  | write (k : Key) (v : Option Val)
  /-- Atomic batch write. -/
  | batch (l : List (Key × Option Val))

/-! ## Threads -/

/-- A deterministic machine with private state `S`.
`next s = none` means the thread has finished (its private state then holds its result).
After a `read f` it is resumed with the response; writes carry no response. -/
structure Thread (Key Val Resp S : Type) where
  next : S → Option (Op Key Val Resp)
  resume : S → Resp → S
  afterWrite : S → S

variable {Key Val Resp S : Type} [DecidableEq Key] {n : Nat}

/-- One atomic step of a thread against a store. A finished thread does nothing. -/
def Thread.step (t : Thread Key Val Resp S) (p : Store Key Val × S) : Store Key Val × S :=
  match t.next p.2 with
  | none => p
  | some (.read f) => (p.1, t.resume p.2 (f p.1))
  | some (.write k v) => (setKey p.1 k v, t.afterWrite p.2)
  | some (.batch l) => (applyWrites p.1 l, t.afterWrite p.2)

/-- `m` steps of a single thread. -/
def Thread.iter (t : Thread Key Val Resp S) : Nat → Store Key Val × S → Store Key Val × S
  | 0, p => p
  | m + 1, p => t.iter m (t.step p)

/-! ## Interleaving semantics -/

/-- Shared store plus one private state per thread. -/
structure Config (n : Nat) (Key Val S : Type) where
  store : Store Key Val
  priv : Fin n → S

/-- Thread `i` performs one atomic step. Only `store` and `priv i` can change. -/
def stepAt (T : Fin n → Thread Key Val Resp S) (c : Config n Key Val S) (i : Fin n) :
    Config n Key Val S :=
  let p := (T i).step (c.store, c.priv i)
  { store := p.1, priv := fun j => if j = i then p.2 else c.priv j }

/-- Execute a schedule. -/
def run (T : Fin n → Thread Key Val Resp S) (c : Config n Key Val S) (sch : List (Fin n)) :
    Config n Key Val S :=
  sch.foldl (stepAt T) c

/-- Thread `j` alone, `m` steps, from the same initial store and its own initial state.
Result: (its store, its private state). -/
def solo (T : Fin n → Thread Key Val Resp S) (j : Fin n) (c : Config n Key Val S) (m : Nat) :
    Store Key Val × S :=
  (T j).iter m (c.store, c.priv j)

/-! ## Independence of footprints -/

/-- Keys that some thread other than `j` may write. -/
def Others (W : Fin n → Key → Prop) (j : Fin n) (k : Key) : Prop :=
  ∃ i, i ≠ j ∧ W i k

/-- The footprints of the threads are independent w.r.t. the write sets `W`. -/
structure Independent (T : Fin n → Thread Key Val Resp S) (W : Fin n → Key → Prop) : Prop where
  /-- (a) every single write a thread can ever issue is inside its write set -/
  write_mem : ∀ i s k v, (T i).next s = some (.write k v) → W i k
  /-- (a') ... and so is every key of every batch -/
  batch_mem : ∀ i s l, (T i).next s = some (.batch l) → ∀ kv, kv ∈ l → W i kv.1
  /-- (b) write sets are pairwise disjoint -/
  disjoint : ∀ i j, i ≠ j → ∀ k, W i k → ¬ W j k
  /-- (c) every read of thread `j` is insensitive to the other threads' write sets -/
  read_blind : ∀ j s f, (T j).next s = some (.read f) →
    ∀ st st' : Store Key Val, (∀ k, ¬ Others W j k → st k = st' k) → f st = f st'

/-! ## Store lemmas -/

theorem applyWrites_congr (l : List (Key × Option Val)) (st st' : Store Key Val) (k : Key)
    (h : st k = st' k) : applyWrites st l k = applyWrites st' l k := by
  induction l generalizing st st' with
  | nil => simpa [applyWrites] using h
  | cons kv l ih =>
    simp only [applyWrites]
    apply ih
    simp only [setKey]
    split <;> simp_all

theorem applyWrites_of_not_mem (l : List (Key × Option Val)) (st : Store Key Val) (k : Key)
    (h : ∀ kv, kv ∈ l → kv.1 ≠ k) : applyWrites st l k = st k := by
  induction l generalizing st with
  | nil => simp [applyWrites]
  | cons kv l ih =>
    simp only [applyWrites]
    rw [ih _ (fun kv' h' => h kv' (List.mem_cons_of_mem _ h'))]
    have : kv.1 ≠ k := h kv (List.mem_cons_self ..)
    simp only [setKey]
    split
    · next e => exact absurd e.symm this
    · rfl

/-! ## The simulation invariant -/

/-- `c` (a configuration of the interleaved system) and `p` (a state of thread `j` running alone)
are related: same private state for `j`, same store outside the other threads' write sets. -/
def Rel (W : Fin n → Key → Prop) (j : Fin n) (c : Config n Key Val S) (p : Store Key Val × S) :
    Prop :=
  c.priv j = p.2 ∧ ∀ k, ¬ Others W j k → c.store k = p.1 k

/-- A step of `j` itself in the interleaving is matched by a step of solo-`j`. -/
theorem rel_step_self {T : Fin n → Thread Key Val Resp S} {W : Fin n → Key → Prop}
    (ind : Independent T W) (j : Fin n) (c : Config n Key Val S) (p : Store Key Val × S)
    (h : Rel W j c p) : Rel W j (stepAt T c j) ((T j).step p) := by
  obtain ⟨hp, hs⟩ := h
  obtain ⟨ps, pp⟩ := p
  simp only at hp hs
  subst hp
  simp only [Rel, stepAt, Thread.step, if_true]
  cases hn : (T j).next (c.priv j) with
  | none => exact ⟨rfl, hs⟩
  | some op =>
    cases op with
    | read f =>
      refine ⟨?_, hs⟩
      simp only
      rw [ind.read_blind j _ f hn c.store ps hs]
    | write k v =>
      refine ⟨rfl, ?_⟩
      intro k' hk'
      simp only [setKey]
      split
      · rfl
      · exact hs k' hk'
    | batch l =>
      refine ⟨rfl, ?_⟩
      intro k' hk'
      exact applyWrites_congr l _ _ k' (hs k' hk')

/-- A step of any other thread is invisible to solo-`j`. -/
theorem rel_step_other {T : Fin n → Thread Key Val Resp S} {W : Fin n → Key → Prop}
    (ind : Independent T W) (i j : Fin n) (hij : i ≠ j) (c : Config n Key Val S)
    (p : Store Key Val × S) (h : Rel W j c p) : Rel W j (stepAt T c i) p := by
  obtain ⟨hp, hs⟩ := h
  have hji : j ≠ i := fun e => hij e.symm
  simp only [Rel, stepAt, Thread.step, if_neg hji]
  refine ⟨hp, ?_⟩
  cases hn : (T i).next (c.priv i) with
  | none => exact hs
  | some op =>
    cases op with
    | read f => exact hs
    | write k v =>
      intro k' hk'
      have hne : k' ≠ k := by
        intro e
        subst e
        exact hk' ⟨i, hij, ind.write_mem i _ _ v hn⟩
      simp only [setKey, if_neg hne]
      exact hs k' hk'
    | batch l =>
      intro k' hk'
      simp only
      rw [applyWrites_of_not_mem l _ k' ?_]
      · exact hs k' hk'
      · intro kv hkv e
        exact hk' ⟨i, hij, e ▸ ind.batch_mem i _ l hn kv hkv⟩

/-- Generalised simulation: from related states, running schedule `sch` in the interleaving
corresponds to `count j sch` solo steps of `j`. -/
theorem rel_run {T : Fin n → Thread Key Val Resp S} {W : Fin n → Key → Prop}
    (ind : Independent T W) (j : Fin n) (sch : List (Fin n)) :
    ∀ (c : Config n Key Val S) (p : Store Key Val × S), Rel W j c p →
      Rel W j (run T c sch) ((T j).iter (sch.count j) p) := by
  induction sch with
  | nil => intro c p h; simpa [run, Thread.iter] using h
  | cons i sch ih =>
    intro c p h
    by_cases hij : i = j
    · subst hij
      have := ih _ _ (rel_step_self ind i c p h)
      simpa [run, List.count_cons, Thread.iter] using this
    · have := ih _ _ (rel_step_other ind i j hij c p h)
      simpa [run, List.count_cons, hij, Thread.iter] using this

/-! ## Main theorems -/

/-- **Non-interference.**  For every schedule and every thread `j`:
* `j`'s private state after the interleaved run is exactly its private state after running alone
  for as many steps as it was scheduled (so it issued the same operations, received the same
  responses, and - once finished - holds the same result);
* the final shared store agrees with `j`'s solo store on every key outside the other threads'
  write sets;
* in particular it agrees on `j`'s own write set. -/
theorem noninterference {T : Fin n → Thread Key Val Resp S} {W : Fin n → Key → Prop}
    (ind : Independent T W) (cfg : Config n Key Val S) (sch : List (Fin n)) (j : Fin n) :
    (run T cfg sch).priv j = (solo T j cfg (sch.count j)).2
    ∧ (∀ k, ¬ Others W j k → (run T cfg sch).store k = (solo T j cfg (sch.count j)).1 k)
    ∧ (∀ k, W j k → (run T cfg sch).store k = (solo T j cfg (sch.count j)).1 k) := by
  have h := rel_run ind j sch cfg (cfg.store, cfg.priv j) ⟨rfl, fun _ _ => rfl⟩
  refine ⟨h.1, h.2, ?_⟩
  intro k hk
  apply h.2
  rintro ⟨i, hij, hi⟩
  exact ind.disjoint i j hij k hi hk

/-- Operation-level reading of `noninterference`: at every point `pre` of an interleaving
(`pre` is any prefix of the schedule executed so far), the operation thread `j` is about to issue
is the operation it issues at the corresponding point of its solo run, and if that operation is
a `read f`, the response it receives from the shared store is the response it receives alone. -/
theorem same_ops_and_responses {T : Fin n → Thread Key Val Resp S} {W : Fin n → Key → Prop}
    (ind : Independent T W) (cfg : Config n Key Val S) (pre : List (Fin n)) (j : Fin n) :
    (T j).next ((run T cfg pre).priv j) = (T j).next (solo T j cfg (pre.count j)).2
    ∧ ∀ f, (T j).next ((run T cfg pre).priv j) = some (.read f) →
        f (run T cfg pre).store = f (solo T j cfg (pre.count j)).1 := by
  have h := noninterference ind cfg pre j
  exact ⟨by rw [h.1], fun f hf => ind.read_blind j _ f hf _ _ h.2.1⟩

/-- Two schedules with the same per-thread step counts give every thread the same final
private state. -/
theorem schedule_irrelevant {T : Fin n → Thread Key Val Resp S} {W : Fin n → Key → Prop}
    (ind : Independent T W) (cfg : Config n Key Val S) (sch sch' : List (Fin n))
    (hcount : ∀ j, sch.count j = sch'.count j) (j : Fin n) :
    (run T cfg sch).priv j = (run T cfg sch').priv j := by
  rw [(noninterference ind cfg sch j).1, (noninterference ind cfg sch' j).1, hcount j]

/-- A thread that never writes never changes the store. -/
theorem step_store_of_no_write (t : Thread Key Val Resp S)
    (hr : ∀ s, (∃ f, t.next s = some (.read f)) ∨ t.next s = none)
    (p : Store Key Val × S) : (t.step p).1 = p.1 := by
  simp only [Thread.step]
  rcases hr p.2 with ⟨f, hf⟩ | hnone
  · rw [hf]
  · rw [hnone]

/-- If no thread ever writes, no schedule changes the store. -/
theorem run_store_of_no_write (T : Fin n → Thread Key Val Resp S)
    (hr : ∀ i s, (∃ f, (T i).next s = some (.read f)) ∨ (T i).next s = none)
    (sch : List (Fin n)) : ∀ cfg : Config n Key Val S, (run T cfg sch).store = cfg.store := by
  induction sch with
  | nil => intro cfg; rfl
  | cons i sch ih =>
    intro cfg
    have h1 : (run T cfg (i :: sch)) = run T (stepAt T cfg i) sch := rfl
    rw [h1, ih]
    exact step_store_of_no_write (T i) (hr i) _

/-- **Read-only threads.**  If no thread ever writes (every operation any thread can issue is a
`read`), then every interleaving gives every thread exactly its solo result and leaves the store
unchanged.  No independence hypothesis is needed: all write sets are empty. -/
theorem read_only_threads (T : Fin n → Thread Key Val Resp S)
    (hr : ∀ i s, (∃ f, (T i).next s = some (.read f)) ∨ (T i).next s = none)
    (cfg : Config n Key Val S) (sch : List (Fin n)) :
    (∀ j, (run T cfg sch).priv j = (solo T j cfg (sch.count j)).2)
    ∧ (run T cfg sch).store = cfg.store := by
  have ind : Independent T (fun _ _ => False) := by
    refine ⟨?_, ?_, ?_, ?_⟩
    · intro i s k v h
      rcases hr i s with ⟨f, hf⟩ | hnone
      · rw [hf] at h; cases h
      · rw [hnone] at h; cases h
    · intro i s l h
      rcases hr i s with ⟨f, hf⟩ | hnone
      · rw [hf] at h; cases h
      · rw [hnone] at h; cases h
    · intro _ _ _ _ h; exact h.elim
    · intro j s f _ st st' h
      have : st = st' := funext fun k => h k (fun ⟨_, _, hf⟩ => hf)
      rw [this]
  exact ⟨fun j => (noninterference ind cfg sch j).1, run_store_of_no_write T hr sch cfg⟩

/-! ## A concrete instance: the hypotheses are satisfiable -/

namespace Example

/-- Private state: a program counter and the value read back. -/
structure St where
  pc : Nat
  got : Option Nat
  deriving DecidableEq, Repr

/-- Thread `me` (key `me`): write `me ↦ v`, then read key `me` back, then stop. -/
def prog (key v : Nat) : Thread Nat Nat (Option Nat) St where
  next s :=
    match s.pc with
    | 0 => some (.write key (some v))
    | 1 => some (.read fun st => st key)
    | _ => none
  resume s r := { pc := s.pc + 1, got := r }
  afterWrite s := { s with pc := s.pc + 1 }

/-- Thread 0 works on key 0 (writes 10), thread 1 works on key 1 (writes 11). -/
def T : Fin 2 → Thread Nat Nat (Option Nat) St :=
  fun i => prog i.val (10 + i.val)

/-- Write sets: thread `i` owns key `i`. -/
def W : Fin 2 → Nat → Prop := fun i k => k = i.val

def cfg0 : Config 2 Nat Nat St :=
  { store := fun _ => none, priv := fun _ => { pc := 0, got := none } }

theorem prog_next_write {key v : Nat} {s : St} {k : Nat} {w : Option Nat}
    (h : (prog key v).next s = some (.write k w)) : k = key := by
  simp only [prog] at h
  split at h
  · cases h; rfl
  · cases h
  · cases h

theorem prog_next_batch {key v : Nat} {s : St} {l : List (Nat × Option Nat)}
    (h : (prog key v).next s = some (.batch l)) : False := by
  simp only [prog] at h
  split at h <;> cases h

theorem prog_next_read {key v : Nat} {s : St} {f : Store Nat Nat → Option Nat}
    (h : (prog key v).next s = some (.read f)) : f = fun st => st key := by
  simp only [prog] at h
  split at h
  · cases h
  · cases h; rfl
  · cases h

/-- The independence hypotheses hold for the two-thread example. -/
theorem independent : Independent T W := by
  refine ⟨?_, ?_, ?_, ?_⟩
  · intro i s k v h
    exact prog_next_write h
  · intro i s l h
    exact (prog_next_batch h).elim
  · intro i j hij k hi hj
    simp only [W] at hi hj
    exact hij (Fin.ext (hi.symm.trans hj))
  · intro j s f h st st' hagree
    rw [prog_next_read h]
    apply hagree
    rintro ⟨i, hij, hi⟩
    simp only [W] at hi
    exact hij (Fin.ext hi.symm)

/-- Hence every interleaving gives each thread its solo result. -/
example (sch : List (Fin 2)) (j : Fin 2) :
    (run T cfg0 sch).priv j = (solo T j cfg0 (sch.count j)).2 :=
  (noninterference independent cfg0 sch j).1

/-- Two concrete interleavings, by evaluation: both threads read back their own value. -/
example : ((run T cfg0 [0, 1, 0, 1]).priv 0, (run T cfg0 [0, 1, 0, 1]).priv 1)
    = (⟨2, some 10⟩, ⟨2, some 11⟩) := by decide

example : ((run T cfg0 [1, 1, 0, 0, 1, 0]).priv 0, (run T cfg0 [1, 1, 0, 0, 1, 0]).priv 1)
    = (⟨2, some 10⟩, ⟨2, some 11⟩) := by decide

example : (solo T 0 cfg0 2).2 = ⟨2, some 10⟩ ∧ (solo T 1 cfg0 2).2 = ⟨2, some 11⟩ := by decide

end Example

end Kvql.Proofs.Noninterference

