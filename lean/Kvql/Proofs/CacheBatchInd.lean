/-
  C05 (c), evaluator level: `BS E (execBatch e E.ch) (touch e)` for every expression whose alias
  references are entries of the alias table — by induction over `execBatch` / `execInItemsBatch` /
  `vecBody`.  The alias reference is `ref_bs`; every other node only sequences its operands.
-/
import Kvql.Proofs.CacheBatchSim
import Kvql.Proofs.CacheRow

set_option linter.unusedSectionVars false
set_option linter.unusedSimpArgs false
set_option linter.unusedVariables false

namespace Kvql.Cache
open Kvql Kvql.Project

variable {E : BEnv} (hE : E.Ok)
include hE

/-- the row body run pair by pair with a nil context: the chunk's context is not involved -/
theorem rowWise_bs (f : Pair → M Value) : BS E (rowWiseNoCtx f E.ch) id := by
  unfold rowWiseNoCtx; exact .const _

mutual
  theorem execBatch_bs : ∀ (e : Expr), WF E.A e → BS E (execBatch e E.ch) (touch e)
    | .str .., hw => by rw [execBatch, touch]; exact .pure _
    | .field _ k, hw => by rw [execBatch, touch]; exact .pure _
    | .name .., hw => by rw [execBatch, touch]; exact .pure _
    | .num .., hw => by rw [execBatch, touch]; exact .pure _
    | .float .., hw => by rw [execBatch, touch]; exact .pure _
    | .bool .., hw => by rw [execBatch, touch]; exact .pure _
    | .list .., hw => by rw [execBatch, touch]; exact .pure _
    | .cycle, hw => by rw [execBatch, touch]; exact .throw _ _
    | .not _ r, hw => by
      rw [execBatch, touch]
      exact BS.congrT (.bind (execBatch_bs r (by wf_sub)) fun _ => .lift _) rfl
    | .ref p n t, hw => by
      rw [touch]
      exact ref_bs hE (hw (n, t) (by simp [refs])) (execBatch_bs t (by wf_sub))
    | .access _ l f, hw => by
      rw [execBatch, touch]
      refine BS.congrT (.bind (T2 := id) (execBatch_bs l (by wf_sub)) fun left => ?_) rfl
      split <;> first | exact .lift _ | exact .throw _ _
    | .call _ nm args, hw => by
      rw [execBatch, touch]
      cases hn : funcNameOf nm with
      | error e => exact .throw _ _
      | ok fname =>
        dsimp only
        cases hf : lookupFunc fname with
        | none => exact .throw _ _
        | some fo =>
          dsimp only
          cases hb : fo.body with
          | none => exact .ite (.throw _ _) (.ite (.throw _ _) (.throw _ _))
          | some b =>
            dsimp only
            refine .ite (.throw _ _) (.ite (.throw _ _) ?_)
            by_cases ht : fo.vecIsTwin = true
            · rw [if_pos ht, if_pos ht]; exact vecBody_bs b args (by wf_sub)
            · rw [if_neg ht, if_neg ht]; exact rowWise_bs hE _
    | .binop _ op l r, hw => by
      have hl := execBatch_bs l (by wf_sub)
      have hr := execBatch_bs r (by wf_sub)
      cases op
      case and => rw [execBatch, touch]; exact .seq2 hl hr _
      case or => rw [execBatch, touch]; exact .seq2 hl hr _
      case not => rw [execBatch, touch]; exact .throw _ _
      case eq => rw [execBatch, touch]; exact .seq2 hl hr _
      case neq => rw [execBatch, touch]; exact .seq2 hl hr _
      case prefixMatch => rw [execBatch, touch]; exact .seq2 hl hr _
      case regexMatch => rw [execBatch, touch]; exact .seq2 hl hr _
      case add => rw [execBatch, touch]; exact .ite (.seq2 hl hr _) (.seq2 hl hr _)
      case sub => rw [execBatch, touch]; exact .seq2 hl hr _
      case mul => rw [execBatch, touch]; exact .seq2 hl hr _
      case div => rw [execBatch, touch]; exact .seq2 hl hr _
      case gt => rw [execBatch, touch]; exact .seq2 hl hr _
      case gte => rw [execBatch, touch]; exact .seq2 hl hr _
      case lt => rw [execBatch, touch]; exact .seq2 hl hr _
      case lte => rw [execBatch, touch]; exact .seq2 hl hr _
      case kwAnd => rw [execBatch, touch]; exact .seq2 hl hr _
      case kwOr => rw [execBatch, touch]; exact .seq2 hl hr _
      case in_ =>
        cases r with
        | list q items =>
          rw [execBatch, touch]
          · exact BS.congrT (.bind hl fun rleft => .bind (execInItemsBatch_bs _ items (by wf_sub)) fun cols => .lift _) rfl
          all_goals (intros; first | contradiction | simp_all)
        | call q nm args =>
          rw [execBatch, touch]
          · exact BS.congrT (.bind hl fun rleft => .bind hr fun frets => .lift _) rfl
          all_goals (intros; first | contradiction | simp_all)
        | ref q nm t =>
          rw [execBatch, touch]
          · exact BS.congrT (.bind hl fun rleft => .bind hr fun frets => .lift _) rfl
          all_goals (intros; first | contradiction | simp_all)
        | _ =>
          rw [execBatch, touch]
          · exact BS.congrT (.bind hl fun rleft => .throw _ id) rfl
          all_goals (intros; first | contradiction | simp_all)
      case between =>
        cases r with
        | list q items =>
          rcases items with _ | ⟨lo, _ | ⟨hi, _ | ⟨x, rest⟩⟩⟩
          · rw [execBatch, touch]
            · exact BS.congrT (.bind hl fun rleft => .throw _ id) rfl
            all_goals (intros; first | contradiction | simp_all)
          · rw [execBatch, touch]
            · exact BS.congrT (.bind hl fun rleft => .throw _ id) rfl
            all_goals (intros; first | contradiction | simp_all)
          · have hlo := execBatch_bs lo (by wf_sub)
            have hhi := execBatch_bs hi (by wf_sub)
            rw [execBatch, touch]
            · exact BS.congrT (.bind hl fun rleft =>
                .ite (.throw _ _) (.ite (.throw _ _) (.ite (.throw _ _) (.ite (.throw _ _)
                  (.bind hlo fun lb => .bind hhi fun ub => .lift _))))) rfl
            all_goals (intros; first | contradiction | simp_all)
          · rw [execBatch, touch]
            · exact BS.congrT (.bind hl fun rleft => .throw _ id) rfl
            all_goals (intros; first | contradiction | simp_all)
        | _ =>
          rw [execBatch, touch]
          · exact BS.congrT (.bind hl fun rleft => .throw _ id) rfl
          all_goals (intros; first | contradiction | simp_all)

  theorem execInItemsBatch_bs : ∀ (number : Bool) (es : List Expr), WFList E.A es →
      BS E (execInItemsBatch number es E.ch) (touchList es)
    | _, [], hw => by rw [execInItemsBatch, touchList]; exact .pure _
    | number, e :: es, hw => by
      rw [execInItemsBatch, touchList]
      exact BS.congrT (.ite (.throw _ _) (.bind (execBatch_bs e (by wf_sub)) fun vals =>
        .bind (execInItemsBatch_bs number es (by wf_sub)) fun rest => .pure _)) rfl

  theorem vecBody_bs : ∀ (b : Body) (args : List Expr), WFList E.A args →
      BS E (vecBody b args E.ch) (touchBody b args)
    | .lower, a0 :: _, hw => by
      rw [vecBody, touchBody]; exact BS.congrT (.bind (execBatch_bs a0 (by wf_sub)) fun _ => .lift _) rfl
    | .upper, a0 :: _, hw => by
      rw [vecBody, touchBody]; exact BS.congrT (.bind (execBatch_bs a0 (by wf_sub)) fun _ => .lift _) rfl
    | .toInt, a0 :: _, hw => by
      rw [vecBody, touchBody]; exact BS.congrT (.bind (execBatch_bs a0 (by wf_sub)) fun _ => .lift _) rfl
    | .toFloat, a0 :: _, hw => by
      rw [vecBody, touchBody]; exact BS.congrT (.bind (execBatch_bs a0 (by wf_sub)) fun _ => .lift _) rfl
    | .toStr, a0 :: _, hw => by
      rw [vecBody, touchBody]; exact BS.congrT (.bind (execBatch_bs a0 (by wf_sub)) fun _ => .lift _) rfl
    | .isInt, a0 :: _, hw => by
      rw [vecBody, touchBody]; exact BS.congrT (.bind (execBatch_bs a0 (by wf_sub)) fun _ => .lift _) rfl
    | .isFloat, a0 :: _, hw => by
      rw [vecBody, touchBody]; exact BS.congrT (.bind (execBatch_bs a0 (by wf_sub)) fun _ => .lift _) rfl
    | .strlen, a0 :: _, hw => by
      rw [vecBody, touchBody]; exact BS.congrT (.bind (execBatch_bs a0 (by wf_sub)) fun _ => .lift _) rfl
    | .len, a0 :: _, hw => by
      rw [vecBody, touchBody]; exact BS.congrT (.bind (execBatch_bs a0 (by wf_sub)) fun _ => .lift _) rfl
    | .json, a0 :: _, hw => by
      rw [vecBody, touchBody]; exact BS.congrT (.bind (execBatch_bs a0 (by wf_sub)) fun _ => .lift _) rfl
    | .subStr, a0 :: a1 :: a2 :: _, hw => by
      rw [vecBody, touchBody]
      exact BS.congrT (.ite (.throw _ _) (.ite (.throw _ _)
        (.bind (execBatch_bs a0 (by wf_sub)) fun _ => .bind (execBatch_bs a1 (by wf_sub)) fun _ =>
          .bind (execBatch_bs a2 (by wf_sub)) fun _ => .lift _))) rfl
    | .split, a0 :: a1 :: _, hw => by
      rw [vecBody, touchBody]
      exact BS.congrT (.ite (.throw _ _)
        (.bind (execBatch_bs a0 (by wf_sub)) fun _ => .bind (execBatch_bs a1 (by wf_sub)) fun _ => .lift _)) rfl
    | .cosine, a0 :: a1 :: _, hw => by
      rw [vecBody, touchBody]
      exact BS.congrT (.bind (execBatch_bs a0 (by wf_sub)) fun _ => .bind (execBatch_bs a1 (by wf_sub)) fun _ => .lift _) rfl
    | .l2, a0 :: a1 :: _, hw => by
      rw [vecBody, touchBody]
      exact BS.congrT (.bind (execBatch_bs a0 (by wf_sub)) fun _ => .bind (execBatch_bs a1 (by wf_sub)) fun _ => .lift _) rfl
    | .join, args, hw => by simp only [vecBody, touchBody]; exact rowWise_bs hE _
    | .floatList, args, hw => by simp only [vecBody, touchBody]; exact rowWise_bs hE _
    | .intList, args, hw => by simp only [vecBody, touchBody]; exact rowWise_bs hE _
    | .toList, args, hw => by simp only [vecBody, touchBody]; exact rowWise_bs hE _
    | .lower, [], _ | .upper, [], _ | .toInt, [], _ | .toFloat, [], _
    | .toStr, [], _ | .isInt, [], _ | .isFloat, [], _ | .strlen, [], _
    | .len, [], _ | .json, [], _
    | .subStr, [], _ | .subStr, [_], _ | .subStr, [_, _], _
    | .split, [], _ | .split, [_], _
    | .cosine, [], _ | .cosine, [_], _
    | .l2, [], _ | .l2, [_], _ => by simp only [vecBody, touchBody]; exact .throw _ _
end

end Kvql.Cache
