/-
  RunNoPanic, part 6: constant folding keeps every tree well formed for the evaluators.
  `FoldInv P`: a predicate on trees that literals satisfy and that is determined by the operands of
  binary nodes and the arguments of calls; `Optimize()` preserves every such predicate, on the tree it
  returns and on the state it leaves the old root node in.  Instances: `Expr.wf`, `noCyc`, "the
  top-level alias references are among those of …".
-/
import Kvql.Proofs.RunNoPanicRank
import Kvql.Proofs.RunProofs

namespace Kvql.Proofs.RunNoPanic

open Kvql Kvql.Parser Kvql.Proofs.Typing Kvql.Run

structure FoldInv (P : Expr → Prop) : Prop where
  lit : ∀ e, Fold.isLit4 e = true → P e
  binop : ∀ p op l r, P (.binop p op l r) ↔ (P l ∧ P r)
  call_args : ∀ p nm args args', P (.call p nm args) → (∀ a ∈ args', P a) → P (.call p nm args')
  call_inv : ∀ p nm args, P (.call p nm args) → ∀ a ∈ args, P a

/-! ### the five helpers, by the well-founded mutual recursion of the definitions -/

section inv
set_option linter.unusedSectionVars false
open Kvql.Fold
variable {P : Expr → Prop} (hP : FoldInv P)
include hP

theorem reorder_inv : ∀ e : Expr, P e → P (reorder e)
  | .binop p op l r, h => by
    obtain ⟨hl, hr⟩ := (hP.binop ..).mp h
    have hl' := reorder_inv l hl
    have hr' := reorder_inv r hr
    rw [reorder]
    split
    · exact (hP.binop ..).mpr ⟨hl', hr'⟩
    · split
      · rename_i q lop ll lr heq
        have hl'' := hl'
        rw [heq] at hl''
        obtain ⟨h1, h2⟩ := (hP.binop ..).mp hl''
        split
        · exact (hP.binop ..).mpr ⟨h1, (hP.binop ..).mpr ⟨h2, hr'⟩⟩
        · exact (hP.binop ..).mpr ⟨hl', hr'⟩
      · exact (hP.binop ..).mpr ⟨hl', hr'⟩
  | .field .., h | .str .., h | .name .., h | .cycle, h | .num .., h | .float .., h | .bool .., h | .not .., h
  | .call .., h | .ref .., h | .list .., h | .access .., h => by simpa [reorder] using h

theorem mkBool_inv (p : Nat) (b : Bool) : P (mkBool p b) := hP.lit _ rfl

theorem andOr_inv (e : Expr) (h : P e) : P (andOr e).1 := by
  unfold andOr
  split
  · rename_i q op l r
    obtain ⟨hl, hr⟩ := (hP.binop ..).mp h
    split
    · exact h
    · split <;> (repeat' split) <;> first | exact h | exact hl | exact hr | exact mkBool_inv hP _ _
  · exact h

mutual
  theorem pass_inv : ∀ (e : Expr) (r : Pass), P e → pass e = .ok r → P r.ret ∧ P r.node
    | .binop p op l r, res, ha, h => by
      rw [pass] at h
      obtain ⟨o, ho, h⟩ := Fold.except_bind_ok h
      have oa := binExec_inv (reorder (.binop p op l r)) o (reorder_inv hP _ ha) ho
      split at h
      · cases h; exact ⟨andOr_inv hP _ oa.1, oa.2⟩
      · cases h; exact ⟨andOr_inv hP _ oa.1, oa.2⟩
    | .call p nm args, res, ha, h => by
      rw [pass] at h
      obtain ⟨o, ho, h⟩ := Fold.except_bind_ok h
      have oa := callFold_inv (.call p nm args) o ha ho
      cases h
      exact oa
    | .field p k, res, ha, h | .str p d, res, ha, h | .not p r, res, ha, h | .name p d, res, ha, h
    | .ref p n t, res, ha, h | .cycle, res, ha, h | .num p d v, res, ha, h | .float p d v, res, ha, h
    | .bool p d v, res, ha, h | .list p items, res, ha, h | .access p l f, res, ha, h => by
      simp only [pass] at h
      cases h
      exact ⟨ha, ha⟩
  termination_by e => (size e, 2)
  decreasing_by
    · rw [size_reorder]; exact Prod.Lex.right _ (by omega)
    · exact Prod.Lex.right _ (by omega)

  theorem binExec_inv : ∀ (e : Expr) (o : Out), P e → binExec e = .ok o → P o.ret ∧ P o.node
    | .binop p op l r, o, ha, h => by
      obtain ⟨hl, hr⟩ := (hP.binop ..).mp ha
      have hb := h
      rw [binExec] at h
      obtain ⟨lo, hlo, h⟩ := Fold.except_bind_ok h
      obtain ⟨ro, hro, h⟩ := Fold.except_bind_ok h
      have al := (operand_inv l lo hl hlo).1
      have ar := (operand_inv r ro hr hro).1
      have hnode : P (.binop p op lo.ret ro.ret) := (hP.binop ..).mpr ⟨al, ar⟩
      simp only [] at h
      split at h
      · cases h; exact ⟨hnode, hnode⟩
      · obtain ⟨fc, hfc, h⟩ := Fold.except_bind_ok h
        cases fc with
        | none => cases h; exact ⟨hnode, hnode⟩
        | some k =>
          cases h
          exact ⟨hP.lit _ ((binExec_ok _ _ hb).lit rfl), hnode⟩
    | .field p k, o, ha, h | .str p d, o, ha, h | .not p r, o, ha, h | .name p d, o, ha, h | .ref p n t, o, ha, h
    | .cycle, o, ha, h | .num p d v, o, ha, h | .float p d v, o, ha, h | .bool p d v, o, ha, h
    | .list p items, o, ha, h | .access p l f, o, ha, h | .call p nm args, o, ha, h => by
      simp only [binExec] at h
      cases h
      exact ⟨ha, ha⟩
  termination_by e => (size e, 1)
  decreasing_by
    · exact Prod.Lex.left _ _ (by simp only [size]; omega)
    · exact Prod.Lex.left _ _ (by simp only [size]; omega)

  theorem operand_inv : ∀ (e : Expr) (o : Out), P e → operand e = .ok o → P o.ret ∧ P o.node
    | .binop p op l r, o, ha, h => by
      rw [operand] at h
      exact binExec_inv (.binop p op l r) o ha h
    | .call p nm args, o, ha, h => by
      rw [operand] at h
      exact callFold_inv (.call p nm args) o ha h
    | .str p d, o, ha, h | .num p d v, o, ha, h | .float p d v, o, ha, h | .bool p d v, o, ha, h
    | .field p k, o, ha, h | .not p r, o, ha, h | .name p d, o, ha, h | .ref p n t, o, ha, h
    | .cycle, o, ha, h | .list p items, o, ha, h | .access p l f, o, ha, h => by
      simp only [operand] at h
      cases h
      exact ⟨ha, ha⟩
  termination_by e => (size e, 2)
  decreasing_by
    · exact Prod.Lex.right _ (by omega)
    · exact Prod.Lex.right _ (by omega)

  theorem callFold_inv : ∀ (e : Expr) (o : Out), P e → callFold e = .ok o → P o.ret ∧ P o.node
    | .call p nm args, o, ha, h => by
      have hb := h
      rw [callFold] at h
      obtain ⟨args', hargs, h⟩ := Fold.except_bind_ok h
      have aa := optArgs_inv args args' (hP.call_inv _ _ _ ha) hargs
      have hnode : P (.call p nm args') := hP.call_args _ _ _ _ ha aa
      simp only [] at h
      split at h
      · cases h; exact ⟨hnode, hnode⟩
      · obtain ⟨fc, hfc, h⟩ := Fold.except_bind_ok h
        cases fc with
        | none => cases h; exact ⟨hnode, hnode⟩
        | some k =>
          cases h
          exact ⟨hP.lit _ ((callFold_ok _ _ hb).lit rfl), hnode⟩
    | .field p k, o, ha, h | .str p d, o, ha, h | .not p r, o, ha, h | .name p d, o, ha, h | .ref p n t, o, ha, h
    | .cycle, o, ha, h | .num p d v, o, ha, h | .float p d v, o, ha, h | .bool p d v, o, ha, h
    | .list p items, o, ha, h | .access p l f, o, ha, h | .binop p op l r, o, ha, h => by
      simp only [callFold] at h
      cases h
      exact ⟨ha, ha⟩
  termination_by e => (size e, 1)
  decreasing_by
    · exact Prod.Lex.left _ _ (by simp only [size]; omega)

  theorem optArgs_inv : ∀ (args args' : List Expr), (∀ a ∈ args, P a) → optArgs args = .ok args' →
      ∀ a ∈ args', P a
    | [], args', _, h => by
      simp only [optArgs] at h
      cases h
      intro a ha
      cases ha
    | a :: rest, args', ha, h => by
      rw [optArgs] at h
      obtain ⟨pa, hpa, h⟩ := Fold.except_bind_ok h
      obtain ⟨rest', hrest, h⟩ := Fold.except_bind_ok h
      cases h
      have h1 := (pass_inv a pa (ha a (List.mem_cons_self ..)) hpa).1
      have h2 := optArgs_inv rest rest' (fun x hx => ha x (List.mem_cons_of_mem _ hx)) hrest
      intro x hx
      rcases List.mem_cons.mp hx with rfl | hx
      · exact h1
      · exact h2 x hx
  termination_by args => (sizeList args, 0)
  decreasing_by
    · exact Prod.Lex.left _ _ (by simp only [sizeList]; omega)
    · exact Prod.Lex.left _ _ (by simp only [sizeList]; omega)
end

end inv

/-- `Optimize()` preserves every `FoldInv` predicate: on the returned root and on the old root node -/
theorem optimizeBoth_inv {P : Expr → Prop} (hP : FoldInv P) {e r n : Expr} (he : P e)
    (h : Fold.optimizeBoth e = .ok (r, n)) : P r ∧ P n := by
  rw [Fold.optimizeBoth] at h
  obtain ⟨p1, h1, h⟩ := Fold.except_bind_ok h
  obtain ⟨p2, h2, h⟩ := Fold.except_bind_ok h
  have i1 := pass_inv hP _ _ he h1
  have i2 := pass_inv hP _ _ i1.1 h2
  have hloc := (Fold.pass_ok e p1 h1).loc
  cases h
  refine ⟨i2.1, ?_⟩
  cases hw : p1.which <;> simp only [hw] at hloc ⊢
  · exact i2.2
  · obtain ⟨q, op, l, r, hn, hr⟩ := hloc
    have := i1.2
    rw [hn] at this ⊢
    exact (hP.binop ..).mpr ⟨i2.2, ((hP.binop ..).mp this).2⟩
  · obtain ⟨q, op, l, r, hn, hr⟩ := hloc
    have := i1.2
    rw [hn] at this ⊢
    exact (hP.binop ..).mpr ⟨((hP.binop ..).mp this).1, i2.2⟩
  · exact i1.2

/-! ### the two instances -/

theorem wfList_iff : ∀ es : List Expr, Expr.wfList es = true ↔ ∀ a ∈ es, a.wf = true
  | [] => by simp [Expr.wfList]
  | e :: es => by simp [Expr.wfList, wfList_iff es]

theorem mem_refIdxList (tbl : Tbl) (j : Nat) : ∀ es : List Expr,
    j ∈ Expr.refIdx.refIdxList tbl es ↔ ∃ a ∈ es, j ∈ a.refIdx tbl
  | [] => by simp [Expr.refIdx.refIdxList]
  | e :: es => by simp [Expr.refIdx.refIdxList, mem_refIdxList tbl j es]

theorem foldInv_wf : FoldInv (fun e => e.wf = true) where
  lit := by
    intro e h
    cases e <;> simp [Fold.isLit4] at h <;> simp [Expr.wf]
  binop := by
    intro p op l r
    simp [Expr.wf]
  call_args := by
    intro p nm args args' _ h
    simp only [Expr.wf]
    exact (wfList_iff _).mpr h
  call_inv := by
    intro p nm args h
    simp only [Expr.wf] at h
    exact (wfList_iff _).mp h

theorem foldInv_refIdx (tbl : Tbl) (S : List Nat) : FoldInv (fun e => ∀ j ∈ e.refIdx tbl, j ∈ S) where
  lit := by
    intro e h
    cases e <;> simp [Fold.isLit4] at h <;> simp [Expr.refIdx]
  binop := by
    intro p op l r
    simp only [Expr.refIdx, List.mem_append]
    constructor
    · intro h; exact ⟨fun j hj => h j (.inl hj), fun j hj => h j (.inr hj)⟩
    · rintro ⟨h1, h2⟩ j (hj | hj)
      · exact h1 j hj
      · exact h2 j hj
  call_args := by
    intro p nm args args' h h'
    simp only [Expr.refIdx, List.mem_append] at h ⊢
    rintro j (hj | hj)
    · exact h j (.inl hj)
    · obtain ⟨a, ha, hja⟩ := (mem_refIdxList tbl j _).mp hj
      exact h' a ha j hja
  call_inv := by
    intro p nm args h a ha j hj
    simp only [Expr.refIdx, List.mem_append] at h
    exact h j (.inr ((mem_refIdxList tbl j _).mpr ⟨a, ha, hj⟩))

/-! ### `Optimize()` and `optimizeSelectExpressions` -/

/-- inversion of a successful `mapM` in `Except String` -/
theorem mapM_ok_inv {α β : Type} (f : α → Except String β) : ∀ (l : List α) (fs : List β),
    l.mapM f = .ok fs →
    fs.length = l.length ∧ ∀ (i : Nat) (y : β), fs[i]? = some y → ∃ x, l[i]? = some x ∧ f x = .ok y
  | [], fs, h => by
    simp only [List.mapM_nil, pure, Except.pure] at h
    cases h
    exact ⟨rfl, fun i y hy => by simp at hy⟩
  | a :: l, fs, h => by
    rw [List.mapM_cons] at h
    obtain ⟨b, hb, h⟩ := Fold.except_bind_ok h
    obtain ⟨bs, hbs, h⟩ := Fold.except_bind_ok h
    cases h
    obtain ⟨hlen, hi⟩ := mapM_ok_inv f l bs hbs
    refine ⟨by simp [hlen], ?_⟩
    intro i y hy
    cases i with
    | zero =>
      simp only [List.getElem?_cons_zero, Option.some.injEq] at hy
      subst hy
      exact ⟨a, by simp, hb⟩
    | succ i =>
      simp only [List.getElem?_cons_succ] at hy ⊢
      exact hi i y hy

theorem optimize_total (e : Expr) : ∃ fw, Fold.optimize e = .ok fw := by
  obtain ⟨r, n, h⟩ := Fold.optimizeBoth_total e
  exact ⟨r, by simp [Fold.optimize, h, Except.map]⟩

theorem foldSelect_total (s : SelectS) : ∃ f, foldSelect s = .ok f := by
  obtain ⟨r, n, h⟩ := Fold.optimizeBoth_total s.where_
  obtain ⟨f, _, hf, _⟩ := Kvql.Proofs.Run.foldSelect_ok s h
  exact ⟨f, hf⟩

theorem optimize_wf {e fw : Expr} (h : Fold.optimize e = .ok fw) (he : e.wf = true) : fw.wf = true := by
  unfold Fold.optimize at h
  cases hb : Fold.optimizeBoth e with
  | error x => rw [hb] at h; cases h
  | ok rn =>
    obtain ⟨r, n⟩ := rn
    rw [hb] at h
    simp only [Except.map] at h
    cases h
    exact (optimizeBoth_inv foldInv_wf he hb).1

theorem foldSelect_wf {s : SelectS} {f : FoldedSelect} (h : foldSelect s = .ok f)
    (hac : Acyclic (s.fieldNames.zip s.fields)) (hw : s.where_.wf = true)
    (hf : ∀ x ∈ s.fields, x.wf = true) (hlen : s.fieldNames.length = s.fields.length) :
    f.where_.wf = true ∧ (∀ x ∈ f.fields, x.wf = true) ∧ (∀ x ∈ f.nodes, x.wf = true) ∧
    f.fields.length = s.fields.length ∧ f.nodes.length = s.fields.length := by
  unfold foldSelect at h
  obtain ⟨w, hwo, h⟩ := Fold.except_bind_ok h
  obtain ⟨fs, hfs, h⟩ := Fold.except_bind_ok h
  obtain ⟨hfl, hfi⟩ := mapM_ok_inv _ _ _ hfs
  -- every folded pair is well formed
  have hpw : ∀ p ∈ fs, p.1.wf = true ∧ p.2.wf = true := by
    intro p hp
    obtain ⟨i, hi⟩ := List.mem_iff_getElem?.mp hp
    obtain ⟨x, hx, hxo⟩ := hfi i p hi
    exact optimizeBoth_inv foldInv_wf (hf x (List.mem_of_getElem? hx)) (r := p.1) (n := p.2) hxo
  have hnames : (s.fieldNames.zip (fs.map (·.2))).map (·.1) = (s.fieldNames.zip s.fields).map (·.1) := by
    rw [List.map_fst_zip (by simp [hfl, hlen]), List.map_fst_zip (by simp [hlen])]
  have hac' : Acyclic (s.fieldNames.zip (fs.map (·.2))) := by
    refine Acyclic.mono hac hnames ?_
    intro i nm e' hi
    obtain ⟨h1, h2⟩ := List.getElem?_zip_eq_some.mp hi
    simp only [List.getElem?_map, Option.map_eq_some_iff] at h2
    obtain ⟨p, hp, rfl⟩ := h2
    obtain ⟨x, hx, hxo⟩ := hfi i p hp
    refine ⟨x, List.getElem?_zip_eq_some.mpr ⟨h1, hx⟩, ?_⟩
    rw [refIdx_congr hnames]
    exact (optimizeBoth_inv (foldInv_refIdx _ _) (fun j hj => hj) (r := p.1) (n := p.2) hxo).2
  have hent : ∀ (j : Nat) (nm : Bytes) (g : Expr),
      (s.fieldNames.zip (fs.map (·.2)))[j]? = some (nm, g) → g.wf = true := by
    intro j nm g hj
    obtain ⟨_, h2⟩ := List.getElem?_zip_eq_some.mp hj
    simp only [List.getElem?_map, Option.map_eq_some_iff] at h2
    obtain ⟨p, hp, rfl⟩ := h2
    exact (hpw p (List.mem_of_getElem? hp)).2
  simp only [pure, Except.pure, Except.ok.injEq] at h
  subst h
  refine ⟨?_, ?_, ?_, by simp [hfl], by simp [hfl]⟩
  · exact resolveTop_wf hac' hent (optimizeBoth_inv foldInv_wf hw (r := w.1) (n := w.2) hwo).1
  · intro x hx
    obtain ⟨p, hp, rfl⟩ := List.mem_map.mp hx
    exact resolveTop_wf hac' hent (hpw p hp).1
  · intro x hx
    obtain ⟨p, hp, rfl⟩ := List.mem_map.mp hx
    exact resolveTop_wf hac' hent (hpw p hp).2

end Kvql.Proofs.RunNoPanic
