/-
  RunNoPanic, part 15c: the aggregation model instantiated with the evaluators (`Run.aggrEval`, `Run.aggrField`,
  `Run.groupExprs`): the evaluation table only reports good errors on the indices of the plan, every field of the
  plan is well formed.
-/
import Kvql.Proofs.RunNoPanicAggrA
import Kvql.Proofs.RunNoPanicAggrB
import Kvql.Proofs.RunNoPanicSelect
import Kvql.Proofs.RunAggrMain

namespace Kvql.Proofs.RunNoPanic.AggrNP

open Kvql Kvql.Run Kvql.Plans Kvql.Storage Kvql.Aggr
open Kvql.PlanCheck (listAggrCalls isAggrCallee isAggr)

/-! ### the evaluators only report good errors -/

theorem cls_good {x : Kvql.Err} (h : x.isPanic = false ∧ x ≠ .outOfFuel) : GoodErr (.eval x.cls) := by
  obtain ⟨h1, h2⟩ := h
  cases x <;> first
    | exact absurd rfl h2
    | exact ⟨by decide, by decide⟩
    | simp [Kvql.Err.isPanic] at h1

theorem valA_exec_good {e : Expr} (hw : e.wf = true) (kv : Kvql.Pair) (c : Ctx) : GoodRes (valA (exec e kv c).1) := by
  rcases hx : exec e kv c with ⟨r, c'⟩
  cases r with
  | ok v => intro e' h; cases h
  | error x =>
    intro e' h
    simp only [valA] at h
    cases h
    exact cls_good (Kvql.Proofs.PanicFree.exec_total e hw kv c hx)

theorem evalRowA_good {e : Expr} (hw : e.wf = true) (c : Ctx) (p : SPair) : GoodRes (evalRowA c e p) :=
  valA_exec_good hw _ _

theorem evalBatchA_good {e : Expr} (hw : e.wf = true) (cache : Bool) (p : SPair) :
    GoodRes (evalBatchA (Ctx.new cache) e p) := by
  have hs := (execBatch_safe e hw [toKv p] (Ctx.new cache) (fun _ => by simp) (colsLen_new cache _)).1
  unfold evalBatchA
  generalize (execBatch e [toKv p] (Ctx.new cache)).1 = r at hs
  cases r with
  | error x =>
    intro e' h
    cases h
    exact cls_good hs
  | ok vs =>
    simp only [List.length_cons, List.length_nil] at hs
    match vs, hs with
    | [v], _ => intro e' h; cases h

theorem aggrFail_good {e : Aggr.Err} (h : GoodErr e) : isExec (aggrFail e) := by
  cases e with
  | eval code =>
    obtain ⟨h1, h2⟩ := h
    simp only [aggrFail]
    rw [if_neg (by simpa using h1), if_neg (by simpa using h2)]
    exact ⟨_, rfl⟩
  | malformed => exact absurd h (by simp [GoodErr])
  | _ => exact ⟨_, rfl⟩

/-! ### the arguments of the aggregate calls of a well-formed field are well formed -/

theorem wf_listAggrCalls : ∀ (fe : Expr), fe.wf = true → ∀ c ∈ listAggrCalls fe, ∀ a ∈ c.2, a.wf = true
  | .binop p op l r, h, c, hc, a, ha => by
    simp only [Expr.wf, Bool.and_eq_true] at h
    simp only [listAggrCalls, List.mem_append] at hc
    rcases hc with hc | hc
    · exact wf_listAggrCalls l h.1 c hc a ha
    · exact wf_listAggrCalls r h.2 c hc a ha
  | .call p (.name q d) args, h, c, hc, a, ha => by
    simp only [Expr.wf] at h
    simp only [listAggrCalls] at hc
    split at hc
    · simp only [List.mem_singleton] at hc
      subst hc
      exact (wfList_iff _).mp h a ha
    · cases hc
  | .call p (.binop ..) args, h, c, hc, a, ha | .call p (.field ..) args, h, c, hc, a, ha
  | .call p (.str ..) args, h, c, hc, a, ha | .call p (.not ..) args, h, c, hc, a, ha
  | .call p (.call ..) args, h, c, hc, a, ha | .call p (.ref ..) args, h, c, hc, a, ha
  | .call p .cycle args, h, c, hc, a, ha | .call p (.num ..) args, h, c, hc, a, ha
  | .call p (.float ..) args, h, c, hc, a, ha | .call p (.bool ..) args, h, c, hc, a, ha
  | .call p (.list ..) args, h, c, hc, a, ha | .call p (.access ..) args, h, c, hc, a, ha => by
    simp [listAggrCalls] at hc
  | .field .., h, c, hc, a, ha | .str .., h, c, hc, a, ha | .not .., h, c, hc, a, ha | .name .., h, c, hc, a, ha
  | .ref .., h, c, hc, a, ha | .cycle, h, c, hc, a, ha | .num .., h, c, hc, a, ha | .float .., h, c, hc, a, ha
  | .bool .., h, c, hc, a, ha | .list .., h, c, hc, a, ha | .access .., h, c, hc, a, ha => by
    simp [listAggrCalls] at hc

/-! ### the expression around the aggregate calls -/

theorem listAggrCalls_call (p : Nat) (nm : Expr) (args : List Expr) :
    (listAggrCalls (.call p nm args)).length = if isAggrCallee nm then 1 else 0 := by
  cases nm with
  | name q d =>
    simp only [listAggrCalls, isAggrCallee]
    split <;> simp [*]
  | _ => simp [listAggrCalls, isAggrCallee]

/-- `aggExprOf` numbers the calls `n … n' - 1` in `listAggrFuncs` order; its leaves carry good errors only -/
theorem aggExprOf_ok (c : Ctx) : ∀ (fe : Expr) (n : Nat) (ae : AggExpr) (n' : Nat), fe.wf = true →
    aggExprOf c fe n = some (ae, n') → n' = n + (listAggrCalls fe).length ∧ ExprOK n' ae
  | .binop p op l r, n, ae, n', hw, h => by
    rw [aggExprOf] at h
    by_cases hemp : (listAggrCalls (.binop p op l r)).isEmpty = true
    · simp only [hemp, if_true] at h
      split at h
      · cases h
      · simp only [Option.some.injEq, Prod.mk.injEq] at h
        obtain ⟨rfl, rfl⟩ := h
        refine ⟨by rw [List.isEmpty_iff.mp hemp]; rfl, ?_⟩
        exact valA_exec_good hw _ _
    · simp only [hemp, Bool.false_eq_true, if_false] at h
      have hw' : l.wf = true ∧ r.wf = true := by simpa [Expr.wf] using hw
      cases hm : mathOpA op with
      | none => rw [hm] at h; cases h
      | some mop =>
        rw [hm] at h
        simp only at h
        cases hl : aggExprOf c l n with
        | none => rw [hl] at h; cases h
        | some x =>
          obtain ⟨le, n1⟩ := x
          rw [hl] at h
          simp only at h
          cases hr : aggExprOf c r n1 with
          | none => rw [hr] at h; cases h
          | some y =>
            obtain ⟨re, n2⟩ := y
            rw [hr] at h
            simp only at h
            obtain ⟨e1, o1⟩ := aggExprOf_ok c l n le n1 hw'.1 hl
            obtain ⟨e2, o2⟩ := aggExprOf_ok c r n1 re n2 hw'.2 hr
            have hn : n2 = n + (listAggrCalls (.binop p op l r)).length := by
              simp only [listAggrCalls, List.length_append]; omega
            have o1' : ExprOK n2 le := o1.mono (by omega)
            split at h
            · simp only [Option.some.injEq, Prod.mk.injEq] at h
              obtain ⟨rfl, rfl⟩ := h
              exact ⟨hn, o1', o2⟩
            · simp only [Option.some.injEq, Prod.mk.injEq] at h
              obtain ⟨rfl, rfl⟩ := h
              exact ⟨hn, o1', o2⟩
  | .call p nm args, n, ae, n', hw, h => by
    rw [aggExprOf] at h
    rw [listAggrCalls_call]
    split at h
    · rename_i hag
      simp only [Option.some.injEq, Prod.mk.injEq] at h
      obtain ⟨rfl, rfl⟩ := h
      exact ⟨by simp [hag], by simp only [ExprOK]; omega⟩
    · rename_i hag
      split at h
      · cases h
      · simp only [Option.some.injEq, Prod.mk.injEq] at h
        obtain ⟨rfl, rfl⟩ := h
        exact ⟨by simp [hag], valA_exec_good hw _ _⟩
  | .field a1 a2, n, ae, n', hw, h | .str a1 a2, n, ae, n', hw, h | .not a1 a2, n, ae, n', hw, h
  | .name a1 a2, n, ae, n', hw, h | .ref a1 a2 a3, n, ae, n', hw, h | .cycle, n, ae, n', hw, h
  | .num a1 a2 a3, n, ae, n', hw, h | .float a1 a2 a3, n, ae, n', hw, h | .bool a1 a2 a3, n, ae, n', hw, h
  | .list a1 a2, n, ae, n', hw, h | .access a1 a2 a3, n, ae, n', hw, h => by
    rw [aggExprOf.eq_def] at h
    simp only at h
    split at h
    · cases h
    · simp only [Option.some.injEq, Prod.mk.injEq] at h
      obtain ⟨rfl, rfl⟩ := h
      exact ⟨by simp [listAggrCalls], valA_exec_good hw _ _⟩

/-! ### the fields of the plan -/

theorem mapM_kindOf_length {calls : List (Bytes × List Expr)} {kinds : List Aggr.Kind}
    (h : calls.mapM (fun c => Run.kindOf c.1 c.2) = some kinds) : kinds.length = calls.length :=
  (Kvql.Cache.mapM_some_get h).1

/-- an aggregate field of the plan: one accumulator per aggregate call of the field expression, and the
    expression around them refers to these accumulators only -/
theorem aggrField_agg {c : Ctx} {fe : Expr} {kinds : List Aggr.Kind} {e : AggExpr} (hw : fe.wf = true)
    (h : aggrField c fe = some (.agg kinds e)) :
    kinds.length = (listAggrCalls fe).length ∧ ExprOK kinds.length e := by
  rcases Kvql.Proofs.RunAggr.aggrField_spec h with ⟨_, h2⟩ | ⟨_, kinds', e', n1, h1, h2, h3⟩
  · cases h2
  · cases h1
    have hl := mapM_kindOf_length h2
    obtain ⟨hn, hok⟩ := aggExprOf_ok c fe 0 e n1 hw h3
    refine ⟨hl, ?_⟩
    rw [hl]
    rw [hn, Nat.zero_add] at hok
    exact hok

theorem aggrField_fieldOK {c : Ctx} {fe : Expr} {fld : Field} (hw : fe.wf = true) (h : aggrField c fe = some fld) :
    FieldOK fld := by
  cases fld with
  | key => trivial
  | agg kinds e => exact (aggrField_agg hw h).2

theorem afields_fieldOK {c : Ctx} {fields : List Expr} {afields : List Field} (hw : ∀ x ∈ fields, x.wf = true)
    (h : fields.mapM (aggrField c) = some afields) : ∀ f ∈ afields, FieldOK f := by
  intro f hf
  obtain ⟨i, hi⟩ := List.mem_iff_getElem?.mp hf
  obtain ⟨fe, h1, h2⟩ := Kvql.Proofs.RunAggr.afields_get h hi
  exact aggrField_fieldOK (hw fe (List.mem_of_getElem? h1)) h2

/-! ### the GROUP BY expressions -/

theorem groupExprs_go (s : SelectS) (f : FoldedSelect) (hlen : s.fieldNames.length = f.nodes.length)
    (hnodes : ∀ x ∈ f.nodes, x.wf = true) : ∀ (gfs : List (Bytes × Expr)),
    (∀ p ∈ gfs, (∃ q k, p.2 = .field q k) ∨ p.1 ∈ s.fieldNames) →
    ∃ groups, gfs.mapM (fun (x : Bytes × Expr) =>
        match x with
        | (nm, e) =>
          match e with
          | .field .. => some e
          | _ => do
            let i ← s.fieldNames.findIdx? (· == nm)
            f.nodes[i]?) = some groups ∧ ∀ e ∈ groups, e.wf = true
  | [], _ => ⟨[], rfl, by simp⟩
  | (nm, e) :: rest, h => by
    obtain ⟨groups, hg, hwf⟩ := groupExprs_go s f hlen hnodes rest (fun p hp => h p (List.mem_cons_of_mem _ hp))
    have hone : ∃ g, (match e with
        | .field .. => some e
        | _ => do
          let i ← s.fieldNames.findIdx? (· == nm)
          f.nodes[i]?) = some g ∧ g.wf = true := by
      rcases h (nm, e) List.mem_cons_self with ⟨q, k, hq⟩ | hmem
      · simp only at hq
        subst hq
        exact ⟨_, rfl, by simp [Expr.wf]⟩
      · obtain ⟨i, hi, hlt⟩ := findIdx?_of_mem nm s.fieldNames hmem
        have hn : f.nodes[i]? = some f.nodes[i] := List.getElem?_eq_getElem (by omega)
        have hwn : f.nodes[i].wf = true := hnodes _ (List.getElem_mem _)
        simp only at hmem
        split
        · exact ⟨_, rfl, by simp [Expr.wf]⟩
        · exact ⟨f.nodes[i], by simp [hi, hn], hwn⟩
    obtain ⟨g, hg1, hg2⟩ := hone
    refine ⟨g :: groups, ?_, ?_⟩
    · rw [List.mapM_cons]
      simp only [hg1, hg]
      rfl
    · intro x hx
      rcases List.mem_cons.mp hx with rfl | hx
      · exact hg2
      · exact hwf x hx

/-- the GROUP BY expressions exist and are well formed -/
theorem groupExprs_some {s : SelectS} {f : FoldedSelect} (hsh : SelShape s f) :
    ∃ groups, groupExprs s f = some groups ∧ ∀ e ∈ groups, e.wf = true := by
  unfold groupExprs
  cases hg : s.groupBy with
  | none => exact ⟨[], rfl, by simp⟩
  | some g =>
    simp only
    have hlen : s.fieldNames.length = f.nodes.length := by rw [hsh.names, hsh.nlen]
    exact groupExprs_go s f hlen hsh.nodesWf g.fields (hsh.group g hg)

/-! ### the evaluation table of `runAggrSelect` -/

theorem aggrEval_ok {kind : PollKind} {cache : Bool} {c : Ctx} {groups fields : List Expr} {afields : List Field}
    (aa : Bool) (hgroups : ∀ e ∈ groups, e.wf = true) (hfields : ∀ x ∈ fields, x.wf = true)
    (hargs : ∀ x ∈ fields, ∀ cl ∈ listAggrCalls x, cl.2 ≠ [])
    (hmap : fields.mapM (aggrField c) = some afields) :
    EvalOK (aggrEval kind (Ctx.new cache) groups fields)
      { aggrAll := aa, nGroups := groups.length, fields := afields } where
  group := by
    intro j hj p
    simp only at hj
    have hg : groups[j]? = some groups[j] := List.getElem?_eq_getElem hj
    have hw := hgroups _ (List.getElem_mem hj)
    simp only [aggrEval, hg]
    cases kind with
    | next => exact evalRowA_good hw _ p
    | batch => exact evalBatchA_good hw cache p
  keyField := by
    intro i hi p
    simp only at hi
    obtain ⟨fe, h1, _⟩ := Kvql.Proofs.RunAggr.afields_get hmap hi
    simp only [aggrEval, h1]
    exact evalRowA_good (hfields fe (List.mem_of_getElem? h1)) _ p
  arg := by
    intro i calls e hi cidx hc p
    simp only at hi
    obtain ⟨fe, h1, h2⟩ := Kvql.Proofs.RunAggr.afields_get hmap hi
    have hmem : fe ∈ fields := List.mem_of_getElem? h1
    have hw := hfields fe hmem
    obtain ⟨hlen, _⟩ := aggrField_agg hw h2
    have hlt : cidx < (listAggrCalls fe).length := by omega
    have hget : (listAggrCalls fe)[cidx]? = some (listAggrCalls fe)[cidx] := List.getElem?_eq_getElem hlt
    have hcm : (listAggrCalls fe)[cidx] ∈ listAggrCalls fe := List.getElem_mem hlt
    rcases hcall : (listAggrCalls fe)[cidx] with ⟨nm, args⟩
    rw [hcall] at hget hcm
    cases args with
    | nil => exact absurd rfl (hargs fe hmem _ hcm)
    | cons a0 rest =>
      simp only [aggrEval, h1, hget]
      exact evalRowA_good (wf_listAggrCalls fe hw _ hcm a0 (by simp)) _ p

end Kvql.Proofs.RunNoPanic.AggrNP
