/-
  C14 (e), extended: COMPLETENESS of the checker
    (1) the four exclusions of `check_complete_partial` are proved facts: the engine REJECTS
        `!…` as an operand of a comparison, `key`/`value` compared with itself, a literal zero
        divisor and an empty list — in every context, whatever the other operand is
        (`rejects_compare_not`, `rejects_same_field`, `rejects_zero_divisor`, `rejects_empty_list`);
        likewise a field name directly under `!` or as a list item is not resolved and therefore
        rejected (`rejects_not_name`, `rejects_in_name_item`, `rejects_between_name_bound`);
    (2) completeness with alias references (`check_complete_alias`): a tree `e` whose references sit
        where `Check` rewrites names (operands of binary operators, arguments of calls), well-kinded by
        the README typing (the references typed through the copies they carry), each reference
        carrying the table's current entry whose checker type is the static type of that entry, is
        what `Check` returns for `unref e` — `e` with the references put back to the names the user
        wrote.
-/
import Kvql.Proofs.TypingComplete
import Kvql.Proofs.TypingAliasParse

namespace Kvql.Proofs.Typing

open Kvql Kvql.Generated Kvql.PlanCheck Kvql.Parser

/-! ### (1) the exclusions are rejections -/

theorem check_not_shape {ctx : CheckCtx} {p : Nat} {x y : Expr} (h : ctx.check (.not p x) = .ok y) :
    ∃ x', y = .not p x' := by
  simp only [CheckCtx.check] at h
  obtain ⟨r', _, h⟩ := bind_ok_iff.mp h
  obtain ⟨t, _, h⟩ := bind_ok_iff.mp h
  split at h
  · cases h
  · cases h; exact ⟨r', rfl⟩

theorem rewrite_not {ctx : CheckCtx} {p : Nat} {x y : Expr} (h : ctx.rewrite (.not p x) = .ok y) : y = .not p x := by
  simp only [CheckCtx.rewrite] at h
  cases h; rfl

theorem compareSide_not (p : Nat) (x : Expr) : Rejects (compareSide (.not p x)) := by
  intro a h; simp [compareSide, synErr] at h

/-- EXCLUSION 1 is a rejection: `!…` as an operand of a comparison (`= != < <= > >= ^= ~=`) is rejected
    in every context, whatever the other operand -/
theorem rejects_compare_not (ctx : CheckCtx) (pos : Nat) (op : Op) (l r : Expr) (hop : isCompareOp op = true)
    (hn : isNotNode l = true ∨ isNotNode r = true) : Rejects (ctx.check (.binop pos op l r)) := by
  intro e' h
  simp only [CheckCtx.check] at h
  obtain ⟨l1, hl1, h⟩ := bind_ok_iff.mp h
  obtain ⟨r1, hr1, h⟩ := bind_ok_iff.mp h
  obtain ⟨l2, hl2, h⟩ := bind_ok_iff.mp h
  obtain ⟨r2, hr2, h⟩ := bind_ok_iff.mp h
  obtain ⟨u, hck, _⟩ := bind_ok_iff.mp h
  have hcmp : ctx.checkOp pos op l2 r2 = ctx.checkWithCompares pos op l2 r2 := by
    cases op <;> simp [isCompareOp] at hop <;> rfl
  rw [hcmp] at hck
  unfold CheckCtx.checkWithCompares at hck
  rcases hn with hn | hn
  · cases l <;> simp [isNotNode] at hn
    obtain ⟨x', rfl⟩ := check_not_shape hl1
    rw [rewrite_not hl2] at hck
    obtain ⟨a, ha, _⟩ := bind_ok_iff.mp hck
    exact compareSide_not _ _ a ha
  · cases r <;> simp [isNotNode] at hn
    obtain ⟨x', rfl⟩ := check_not_shape hr1
    rw [rewrite_not hr2] at hck
    obtain ⟨a, _, hck⟩ := bind_ok_iff.mp hck
    obtain ⟨b, hb, _⟩ := bind_ok_iff.mp hck
    exact compareSide_not _ _ b hb

theorem check_field_shape {ctx : CheckCtx} {p : Nat} {kw : KW} {y : Expr} (h : ctx.check (.field p kw) = .ok y) :
    y = .field p kw := by
  simp only [CheckCtx.check] at h
  split at h
  · cases h
  · split at h
    · cases h
    · cases h; rfl

theorem sameField_inv {l r : Expr} (h : sameField l r = true) :
    ∃ p1 p2 kw, l = .field p1 kw ∧ r = .field p2 kw := by
  cases l with
  | field p1 k1 =>
    cases r with
    | field p2 k2 => cases k1 <;> cases k2 <;> simp [sameField] at h <;> exact ⟨_, _, _, rfl, rfl⟩
    | _ => cases k1 <;> simp [sameField] at h
  | _ => simp [sameField] at h

/-- EXCLUSION 2 is a rejection: `key` compared with `key`, `value` with `value` -/
theorem rejects_same_field (ctx : CheckCtx) (pos : Nat) (op : Op) (l r : Expr) (hop : isCompareOp op = true)
    (hs : sameField l r = true) : Rejects (ctx.check (.binop pos op l r)) := by
  intro e' h
  obtain ⟨p1, p2, kw, rfl, rfl⟩ := sameField_inv hs
  simp only [CheckCtx.check] at h
  obtain ⟨l1, hl1, h⟩ := bind_ok_iff.mp h
  obtain ⟨r1, hr1, h⟩ := bind_ok_iff.mp h
  obtain ⟨l2, hl2, h⟩ := bind_ok_iff.mp h
  obtain ⟨r2, hr2, h⟩ := bind_ok_iff.mp h
  obtain ⟨u, hck, _⟩ := bind_ok_iff.mp h
  have hcmp : ctx.checkOp pos op l2 r2 = ctx.checkWithCompares pos op l2 r2 := by
    cases op <;> simp [isCompareOp] at hop <;> rfl
  rw [hcmp] at hck
  unfold CheckCtx.checkWithCompares at hck
  have e1 : l1 = .field p1 kw := check_field_shape hl1
  have e2 : r1 = .field p2 kw := check_field_shape hr1
  subst e1; subst e2
  simp only [CheckCtx.rewrite] at hl2 hr2
  cases hl2; cases hr2
  cases kw <;> simp [compareSide, synErr] at hck

/-- EXCLUSION 3 is a rejection: a literal zero divisor -/
theorem rejects_zero_divisor (ctx : CheckCtx) (pos : Nat) (l r : Expr) (hz : zeroLit r = true) :
    Rejects (ctx.check (.binop pos .div l r)) := by
  intro e' h
  simp only [CheckCtx.check] at h
  obtain ⟨l1, hl1, h⟩ := bind_ok_iff.mp h
  obtain ⟨r1, hr1, h⟩ := bind_ok_iff.mp h
  obtain ⟨l2, hl2, h⟩ := bind_ok_iff.mp h
  obtain ⟨r2, hr2, h⟩ := bind_ok_iff.mp h
  obtain ⟨u, hck, _⟩ := bind_ok_iff.mp h
  simp only [CheckCtx.checkOp, CheckCtx.checkWithMath] at hck
  obtain ⟨bl, _, hck⟩ := bind_ok_iff.mp hck
  obtain ⟨br, _, hck⟩ := bind_ok_iff.mp hck
  obtain ⟨u', _, hck⟩ := bind_ok_iff.mp hck
  cases r <;> simp only [zeroLit] at hz <;> try (cases hz)
  all_goals
    simp only [CheckCtx.check] at hr1
    cases hr1
    simp only [CheckCtx.rewrite] at hr2
    cases hr2
    simp [hz, synErr] at hck

/-- EXCLUSION 4 is a rejection: an empty list, wherever it stands -/
theorem rejects_empty_list (ctx : CheckCtx) (q : Nat) : Rejects (ctx.check (.list q [])) := by
  intro e' h
  simp [CheckCtx.check, synErr] at h

/-- … in particular `x in ()` -/
theorem rejects_in_empty (ctx : CheckCtx) (pos q : Nat) (op : Op) (l : Expr) :
    Rejects (ctx.check (.binop pos op l (.list q []))) :=
  plug_rejects ctx (.binR pos op l .hole) _ (rejects_empty_list ctx q)

/-- a name directly under `!` is not resolved (a name has type identifier): rejected — also when it
    is the name of a Boolean select field -/
theorem rejects_not_name (ctx : CheckCtx) (pos q : Nat) (d : Bytes) : Rejects (ctx.check (.not pos (.name q d))) := by
  intro e' h
  simp only [CheckCtx.check] at h
  obtain ⟨r', hr', h⟩ := bind_ok_iff.mp h
  cases hr'
  obtain ⟨t, ht, h⟩ := bind_ok_iff.mp h
  rw [rt_selfTyped ctx (e := .name q d) rfl] at ht
  cases ht
  simp [Expr.retType, tyTIDENT, tyTBOOL, synErr] at h

theorem checkItems_keeps_name (ctx : CheckCtx) (p : Nat) (d : Bytes) : ∀ (items items' : List Expr),
    ctx.checkItems items = .ok items' → .name p d ∈ items → .name p d ∈ items'
  | [], _, _, hm => by simp at hm
  | a :: as, items', h, hm => by
    unfold CheckCtx.checkItems at h
    obtain ⟨a', ha, h⟩ := bind_ok_iff.mp h
    obtain ⟨as', has, h⟩ := bind_ok_iff.mp h
    cases h
    rcases List.mem_cons.mp hm with heq | hm'
    · rw [← heq] at ha
      simp only [CheckCtx.check] at ha
      cases ha
      exact List.mem_cons_self
    · exact List.mem_cons_of_mem _ (checkItems_keeps_name ctx p d as as' has hm')

theorem check_list_shape {ctx : CheckCtx} {q : Nat} {items : List Expr} {y : Expr}
    (h : ctx.check (.list q items) = .ok y) : ∃ items', y = .list q items' ∧ ctx.checkItems items = .ok items' := by
  simp only [CheckCtx.check] at h
  split at h
  · cases h
  · obtain ⟨items', hi, h⟩ := bind_ok_iff.mp h
    obtain ⟨u, _, h⟩ := bind_ok_iff.mp h
    cases h
    exact ⟨items', rfl, hi⟩

theorem rewrite_list {ctx : CheckCtx} {q : Nat} {items : List Expr} {y : Expr}
    (h : ctx.rewrite (.list q items) = .ok y) : y = .list q items := by
  simp only [CheckCtx.rewrite] at h
  cases h; rfl

theorem name_rt (ctx : CheckCtx) (p : Nat) (d : Bytes) : ctx.rt (.name p d) = .ok tyTIDENT :=
  rt_selfTyped ctx (e := .name p d) rfl

/-- a field name as an item of an IN list is not resolved (the items of a list are checked, not
    rewritten): `x in (…, name, …)` is rejected — also when `name` is a select field of the type of `x` -/
theorem rejects_in_name_item (ctx : CheckCtx) (pos q p : Nat) (d : Bytes) (l : Expr) (items : List Expr)
    (hm : .name p d ∈ items) : Rejects (ctx.check (.binop pos .in_ l (.list q items))) := by
  intro e' h
  simp only [CheckCtx.check] at h
  obtain ⟨l1, _, h⟩ := bind_ok_iff.mp h
  obtain ⟨r1, hr1, h⟩ := bind_ok_iff.mp h
  obtain ⟨l2, _, h⟩ := bind_ok_iff.mp h
  obtain ⟨r2, hr2, h⟩ := bind_ok_iff.mp h
  obtain ⟨u, hck, _⟩ := bind_ok_iff.mp h
  obtain ⟨items', rfl, hi⟩ := check_list_shape hr1
  rw [rewrite_list hr2] at hck
  simp only [CheckCtx.checkOp] at hck
  obtain ⟨t, _, htt, hcase⟩ := checkWithIn_ok hck
  have hm' := checkItems_keeps_name ctx p d items items' hi hm
  rcases hcase with ⟨q', its, heq, hit⟩ | ⟨hshape, _⟩
  · cases heq
    have := hit _ hm'
    rw [name_rt] at this
    rcases htt with rfl | rfl <;> simp [tyTIDENT, tyTSTR, tyTNUMBER] at this
  · rcases hshape with ⟨_, _, _, hh⟩ | ⟨_, _, _, hh⟩ <;> cases hh

/-- … and as a bound of BETWEEN -/
theorem rejects_between_name_bound (ctx : CheckCtx) (pos q p : Nat) (d : Bytes) (l : Expr) (items : List Expr)
    (hm : .name p d ∈ items) : Rejects (ctx.check (.binop pos .between l (.list q items))) := by
  intro e' h
  simp only [CheckCtx.check] at h
  obtain ⟨l1, _, h⟩ := bind_ok_iff.mp h
  obtain ⟨r1, hr1, h⟩ := bind_ok_iff.mp h
  obtain ⟨l2, _, h⟩ := bind_ok_iff.mp h
  obtain ⟨r2, hr2, h⟩ := bind_ok_iff.mp h
  obtain ⟨u, hck, _⟩ := bind_ok_iff.mp h
  obtain ⟨items', rfl, hi⟩ := check_list_shape hr1
  rw [rewrite_list hr2] at hck
  simp only [CheckCtx.checkOp] at hck
  obtain ⟨t, q', lo, hi', heq, _, htt, hlo, hhi⟩ := checkWithBetween_ok hck
  cases heq
  have hm' := checkItems_keeps_name ctx p d items _ hi hm
  simp only [List.mem_cons, List.not_mem_nil, or_false] at hm'
  rcases hm' with rfl | rfl
  · rw [name_rt] at hlo
    rcases htt with rfl | rfl <;> simp [tyTIDENT, tyTSTR, tyTNUMBER] at hlo
  · rw [name_rt] at hhi
    rcases htt with rfl | rfl <;> simp [tyTIDENT, tyTSTR, tyTNUMBER] at hhi

/-! ### on the constructors of `core`, `Check` accepts exactly `core` -/

mutual
  /-- the node kinds of `core` (literals, `key`/`value`, `!`, calls by name, binary operators; lists only
      to the right of `in` / `between`) without its four exclusions -/
  def coreShape : Expr → Bool
    | .str .. | .field .. | .num .. | .float .. | .bool .. => true
    | .not _ r => coreShape r
    | .call _ (.name ..) args => coreShapeList args
    | .binop _ op l r =>
      match op, r with
      | .in_, .list _ items => coreShape l && coreShapeList items
      | .between, .list _ items => coreShape l && coreShapeList items
      | _, r => coreShape l && coreShape r
    | _ => false
  def coreShapeList : List Expr → Bool
    | [] => true
    | e :: es => coreShape e && coreShapeList es
end

/-- why a binary node of the right shape is not in `core` -/
theorem not_core_binop {p : Nat} {op : Op} {l r : Expr} (hs : coreShape (.binop p op l r) = true)
    (hc : core (.binop p op l r) = false) :
    (coreShape l = true ∧ core l = false) ∨
    (∃ q items, r = .list q items ∧ coreShapeList items = true ∧ (items = [] ∨ core.coreList items = false)) ∨
    ((∀ q items, r ≠ .list q items) ∧ coreShape r = true ∧ core r = false) ∨
    (isCompareOp op = true ∧ (isNotNode l = true ∨ isNotNode r = true)) ∨
    (isCompareOp op = true ∧ sameField l r = true) ∨ (op = .div ∧ zeroLit r = true) := by
  by_cases hl : core l = true
  · by_cases hlist : ∃ q items, r = .list q items
    · obtain ⟨q, items, rfl⟩ := hlist
      right; left
      refine ⟨q, items, rfl, ?_⟩
      cases op <;> simp [core, coreShape, hl] at hs hc <;> first
        | exact ⟨hs.2, by
            cases items with
            | nil => exact .inl rfl
            | cons a as => exact .inr (by simpa using hc)⟩
        | exact ⟨hs.2, .inr (by simpa using hc)⟩
    · have hnl : ∀ q items, r ≠ .list q items := fun q items he => hlist ⟨q, items, he⟩
      have hsr : coreShape l = true ∧ coreShape r = true := by
        cases op <;> cases r <;> first
          | (exact absurd rfl (hnl _ _))
          | (simpa only [coreShape, Bool.and_eq_true] using hs)
      have hform : (core l && core r && !(isCompareOp op && (isNotNode l || isNotNode r || sameField l r)) &&
          !(op == .div && zeroLit r)) = false := by
        cases op <;> cases r <;> first
          | (exact absurd rfl (hnl _ _))
          | (simpa only [core] using hc)
      by_cases hr : core r = true
      · simp only [hl, hr, Bool.true_and, Bool.and_eq_false_iff, Bool.not_eq_false', Bool.and_eq_true,
          Bool.or_eq_true, beq_iff_eq] at hform
        rcases hform with ⟨h1, h2⟩ | ⟨h1, h2⟩
        · rcases h2 with (h2 | h2) | h2
          · exact .inr (.inr (.inr (.inl ⟨h1, .inl h2⟩)))
          · exact .inr (.inr (.inr (.inl ⟨h1, .inr h2⟩)))
          · exact .inr (.inr (.inr (.inr (.inl ⟨h1, h2⟩))))
        · exact .inr (.inr (.inr (.inr (.inr ⟨h1, h2⟩))))
      · exact .inr (.inr (.inl ⟨hnl, hsr.2, by simpa using hr⟩))
  · left
    refine ⟨?_, by simpa using hl⟩
    cases op <;> cases r <;> simp only [coreShape, Bool.and_eq_true] at hs <;> exact hs.1

mutual
  /-- THE EXCLUSIONS OF `core` ARE REJECTIONS: a tree built from the node kinds of `core` that is not
      in `core` — it has, at some position, `!…` as an operand of a comparison, `key`/`value` compared
      with itself, a literal zero divisor or an empty IN list — is rejected by `Check` in every context -/
  theorem rejects_of_not_core (ctx : CheckCtx) : ∀ (e : Expr), coreShape e = true → core e = false →
      Rejects (ctx.check e)
    | .not p r, hs, hc => by
      simp only [coreShape] at hs
      simp only [core] at hc
      exact plug_rejects ctx (.notC p .hole) r (rejects_of_not_core ctx r hs hc)
    | .call p nm args, hs, hc => by
      cases nm with
      | name q d =>
        simp only [coreShape] at hs
        simp only [core] at hc
        obtain ⟨pre, x, post, rfl, hx⟩ := rejects_of_not_coreList ctx args hs hc
        exact plug_rejects ctx (.arg p (.name q d) pre .hole post) x hx
      | _ => simp [coreShape] at hs
    | .binop p op l r, hs, hc => by
      rcases not_core_binop hs hc with ⟨h1, h2⟩ | ⟨q, items, rfl, h1, h2⟩ | ⟨_, h1, h2⟩ | ⟨h1, h2⟩ | ⟨h1, h2⟩ | ⟨rfl, h2⟩
      · exact plug_rejects ctx (.binL p op .hole r) l (rejects_of_not_core ctx l h1 h2)
      · rcases h2 with rfl | h2
        · exact rejects_in_empty ctx p q op l
        · obtain ⟨pre, x, post, rfl, hx⟩ := rejects_of_not_coreList ctx items h1 h2
          exact plug_rejects ctx (.binR p op l (.item q pre .hole post)) x hx
      · exact plug_rejects ctx (.binR p op l .hole) r (rejects_of_not_core ctx r h1 h2)
      · exact rejects_compare_not ctx p op l r h1 h2
      · exact rejects_same_field ctx p op l r h1 h2
      · exact rejects_zero_divisor ctx p l r h2
    | .str .., _, hc | .field .., _, hc | .num .., _, hc | .float .., _, hc | .bool .., _, hc => by
      simp [core] at hc
    | .name .., hs, _ | .ref .., hs, _ | .cycle, hs, _ | .list .., hs, _ | .access .., hs, _ => by
      simp [coreShape] at hs
  theorem rejects_of_not_coreList (ctx : CheckCtx) : ∀ (es : List Expr), coreShapeList es = true →
      core.coreList es = false → ∃ pre x post, es = pre ++ x :: post ∧ Rejects (ctx.check x)
    | [], _, hc => by simp [core.coreList] at hc
    | e :: es, hs, hc => by
      simp only [coreShapeList, Bool.and_eq_true] at hs
      by_cases he : core e = true
      · have hc' : core.coreList es = false := by simpa [core.coreList, he] using hc
        obtain ⟨pre, x, post, rfl, hx⟩ := rejects_of_not_coreList ctx es hs.2 hc'
        exact ⟨e :: pre, x, post, rfl, hx⟩
      · exact ⟨[], e, es, rfl, rejects_of_not_core ctx e hs.1 (by simpa using he)⟩
end

/-! every README-typable tree without alias references is built from the node kinds of `core` -/

theorem kind_operands {p : Nat} {op : Op} {l r : Expr} {k : Kind} (h : kindOf (.binop p op l r) = some k)
    (hop : op ≠ .in_) (hop2 : op ≠ .between) : (kindOf l).isSome = true ∧ (kindOf r).isSome = true := by
  cases hl : kindOf l <;> cases hr : kindOf r <;> cases op <;> simp_all [kindOf, isScalar]

theorem allKind_isSome {k : Kind} {items : List Expr} (h : allKind k items = true) :
    ∀ x ∈ items, (kindOf x).isSome = true := fun x hx => by rw [allKind_mem h x hx]; rfl

set_option linter.unnecessarySimpa false in
mutual
  theorem coreShape_of_kind : ∀ (e : Expr) (k : Kind), kindOf e = some k → refFree e = true → coreShape e = true
    | .str .., _, _, _ | .field .., _, _, _ | .num .., _, _, _ | .float .., _, _, _ | .bool .., _, _, _ => by
      simp [coreShape]
    | .name .., _, h, _ | .cycle, _, h, _ | .list .., _, h, _ | .access .., _, h, _ => by simp [kindOf] at h
    | .ref .., _, _, hr => by simp [refFree] at hr
    | .not p r, k, h, hr => by
      simp only [refFree] at hr
      simp only [kindOf] at h
      split at h
      · rename_i hb
        simp only [coreShape]
        exact coreShape_of_kind r .bool (beq_some_eq hb) hr
      · cases h
    | .call p nm args, k, h, hr => by
      simp only [refFree, Bool.and_eq_true] at hr
      obtain ⟨q, d, _, rfl, _, _, _⟩ := kind_call_valid h
      simp only [coreShape]
      exact coreShapeList_of_kind args (kind_call_args h) hr.2
    | .binop p op l r, k, h, hr => by
      simp only [refFree, Bool.and_eq_true] at hr
      by_cases hin : op = .in_
      · subst hin
        cases r with
        | list q items =>
          simp only [refFree] at hr
          rw [kindOf] at h
          have hkey : (kindOf l).isSome = true ∧ ∀ x ∈ items, (kindOf x).isSome = true := by
            split at h
            · rename_i hb
              split at h
              · rename_i ha; exact ⟨by rw [beq_some_eq hb]; rfl, allKind_isSome ha⟩
              · cases h
            · split at h
              · rename_i hb
                split at h
                · rename_i ha; exact ⟨by rw [beq_some_eq hb]; rfl, allKind_isSome ha⟩
                · cases h
              · cases h
          obtain ⟨kl, hkl⟩ := Option.isSome_iff_exists.mp hkey.1
          simp only [coreShape, Bool.and_eq_true]
          exact ⟨coreShape_of_kind l kl hkl hr.1, coreShapeList_of_kind items hkey.2 hr.2⟩
        | call q nm args =>
          rw [kindOf] at h
          split at h
          · rename_i hb
            simp only [Bool.or_eq_true, Bool.and_eq_true] at hb
            have hkey : ∃ kl kr, kindOf l = some kl ∧ kindOf (.call q nm args) = some kr := by
              rcases hb with ⟨h1, h2⟩ | ⟨h1, h2⟩
              · exact ⟨_, _, beq_some_eq h1, beq_some_eq h2⟩
              · exact ⟨_, _, beq_some_eq h1, beq_some_eq h2⟩
            obtain ⟨kl, kr, hkl, hkr⟩ := hkey
            simp only [coreShape, Bool.and_eq_true]
            exact ⟨coreShape_of_kind l kl hkl hr.1, coreShape_of_kind _ kr hkr hr.2⟩
          · cases h
        | ref _ _ _ => simp [refFree] at hr
        | _ => simp [kindOf] at h
      · by_cases hbt : op = .between
        · subst hbt
          cases r with
          | list q items =>
            simp only [refFree] at hr
            match items, h, hr with
            | [lo, hi], h, hr =>
              rw [kindOf] at h
              split at h
              · rename_i hb
                simp only [Bool.and_eq_true, Bool.or_eq_true] at hb
                cases hkl : kindOf l with
                | none => simp [hkl] at hb
                | some kl =>
                  have hklo : kindOf lo = some kl := by
                    have h2 := hb.1.2; rw [hkl] at h2; simpa using h2
                  have hkhi : kindOf hi = some kl := by
                    have h2 := hb.2; rw [hkl] at h2; simpa using h2
                  simp only [refFree.refFreeList, Bool.and_eq_true] at hr
                  simp only [coreShape, coreShapeList, Bool.and_eq_true]
                  exact ⟨coreShape_of_kind l kl hkl hr.1, coreShape_of_kind lo kl hklo hr.2.1,
                    coreShape_of_kind hi kl hkhi hr.2.2.1, trivial⟩
              · cases h
            | [], h, _ => simp [kindOf] at h
            | [_], h, _ => simp [kindOf] at h
            | _ :: _ :: _ :: _, h, _ => simp [kindOf] at h
          | _ => simp [kindOf] at h
        · obtain ⟨h1, h2⟩ := kind_operands h hin hbt
          obtain ⟨kl, hkl⟩ := Option.isSome_iff_exists.mp h1
          obtain ⟨kr, hkr⟩ := Option.isSome_iff_exists.mp h2
          have s1 := coreShape_of_kind l kl hkl hr.1
          have s2 := coreShape_of_kind r kr hkr hr.2
          have hnl : ∀ q items, r ≠ .list q items := core_not_list hkr
          cases op <;> cases r <;> first
            | (exact absurd rfl hin)
            | (exact absurd rfl hbt)
            | (exact absurd rfl (hnl _ _))
            | (simp only [coreShape, Bool.and_eq_true]; exact ⟨s1, by simpa only [coreShape] using s2⟩)
  theorem coreShapeList_of_kind : ∀ (es : List Expr), (∀ x ∈ es, (kindOf x).isSome = true) →
      refFree.refFreeList es = true → coreShapeList es = true
    | [], _, _ => by simp [coreShapeList]
    | e :: es, hk, hr => by
      simp only [refFree.refFreeList, Bool.and_eq_true] at hr
      obtain ⟨ke, hke⟩ := Option.isSome_iff_exists.mp (hk e List.mem_cons_self)
      simp only [coreShapeList, Bool.and_eq_true]
      exact ⟨coreShape_of_kind e ke hke hr.1,
        coreShapeList_of_kind es (fun x hx => hk x (List.mem_cons_of_mem e hx)) hr.2⟩
end

/-- ON THE NODE KINDS OF `core`, `Check` ACCEPTS EXACTLY `core`: a README-typable tree built from
    literals, `key`/`value`, `!`, calls by name and binary operators is accepted (unchanged) iff it has
    none of the four excluded forms; otherwise it is rejected -/
theorem check_accepts_iff_core (ctx : CheckCtx) (hk : ctx.notAllowKey = false) (hv : ctx.notAllowValue = false)
    (e : Expr) (k : Kind) (h : kindOf e = some k) (hs : coreShape e = true) :
    (ctx.check e = .ok e ↔ core e = true) ∧ (core e = false → Rejects (ctx.check e)) := by
  refine ⟨⟨fun hok => ?_, fun hc => check_complete_partial ctx hk hv e k h hc⟩,
    fun hc => rejects_of_not_core ctx e hs hc⟩
  cases hc : core e with
  | true => rfl
  | false => exact absurd hok (rejects_of_not_core ctx e hs hc e)

/-- COMPLETENESS, exact, on everything the README typing allows without alias references: a tree that
    is README-typable (`kindOf e = some k`) and has no alias reference is accepted, unchanged, by `Check`
    in a context that allows `key` and `value` IF AND ONLY IF it has none of the four forms on which the
    engine is stricter (`core`); if it has one, at any position, it is rejected -/
theorem check_complete_exact (ctx : CheckCtx) (hk : ctx.notAllowKey = false) (hv : ctx.notAllowValue = false)
    (e : Expr) (k : Kind) (h : kindOf e = some k) (hrf : refFree e = true) :
    (ctx.check e = .ok e ↔ core e = true) ∧ (core e = false → Rejects (ctx.check e)) :=
  check_accepts_iff_core ctx hk hv e k h (coreShape_of_kind e k h hrf)

/-! ### (2) completeness with alias references -/

def isRef : Expr → Bool
  | .ref .. => true
  | _ => false

mutual
  /-- `core`, with alias references where `Check` puts them: as operands of binary operators and as
      arguments of calls -/
  def coreA : Expr → Bool
    | .str .. | .field .. | .num .. | .float .. | .bool .. => true
    | .not _ r => coreA r
    | .call _ (.name ..) args => coreArgs args
    | .binop _ op l r =>
      match op, r with
      | .in_, .list _ items => (isRef l || coreA l) && !items.isEmpty && coreAList items
      | .between, .list _ items => (isRef l || coreA l) && coreAList items
      | op, r => (isRef l || coreA l) && (isRef r || coreA r) &&
          !(isCompareOp op && (isNotNode l || isNotNode r || sameField l r)) && !(op == .div && zeroLit r)
    | _ => false
  def coreArgs : List Expr → Bool
    | [] => true
    | e :: es => (isRef e || coreA e) && coreArgs es
  def coreAList : List Expr → Bool
    | [] => true
    | e :: es => coreA e && coreAList es
end

mutual
  /-- the references put back to the names the user wrote (outside the copies) -/
  def unref : Expr → Expr
    | .ref p d _ => .name p d
    | .binop p op l r => .binop p op (unref l) (unref r)
    | .not p r => .not p (unref r)
    | .call p n args => .call p n (unrefList args)
    | .list p items => .list p (unrefList items)
    | .access p l f => .access p (unref l) (unref f)
    | e => e
  def unrefList : List Expr → List Expr
    | [] => []
    | e :: es => unref e :: unrefList es
end

mutual
  /-- every reference (outside the copies) carries the table's current entry, does not close a cycle,
      and the checker's type of that entry is its static type -/
  def RefsCons (ctx : CheckCtx) : Expr → Prop
    | .ref _ d t => (∃ j, ctx.tbl.find d = some (j, t) ∧ ctx.closesCycle j = false) ∧ ctx.rt t = .ok t.retType
    | .binop _ _ l r => RefsCons ctx l ∧ RefsCons ctx r
    | .not _ r => RefsCons ctx r
    | .call _ _ args => RefsConsList ctx args
    | .list _ items => RefsConsList ctx items
    | .access _ l f => RefsCons ctx l ∧ RefsCons ctx f
    | _ => True
  def RefsConsList (ctx : CheckCtx) : List Expr → Prop
    | [] => True
    | e :: es => RefsCons ctx e ∧ RefsConsList ctx es
end

/-- an operand position: a reference or a core tree -/
abbrev opA (e : Expr) : Bool := isRef e || coreA e

/-- the checker's type of an operand is its static type -/
theorem rtA (ctx : CheckCtx) : ∀ (e : Expr), opA e = true → RefsCons ctx e → ctx.rt e = .ok e.retType
  | .ref p d t, _, hr => by
    simp only [RefsCons] at hr
    obtain ⟨⟨j, hf, _⟩, hrt⟩ := hr
    have := rt_ref ctx p d hf hrt
    simpa [Expr.retType] using this
  | .binop p op l r, hc, hr => by
    simp only [RefsCons] at hr
    cases op
    case add =>
      have hl : opA l = true := by
        simp only [opA, isRef, Bool.false_or] at hc
        cases r <;> simp only [coreA, Bool.and_eq_true] at hc <;> first | exact hc.1.1.1 | exact hc.1
      have := rt_add ctx p l r (rtA ctx l hl hr.1)
      simpa [Expr.retType, Expr.opRetType] using this
    all_goals exact rt_selfTyped ctx rfl
  | .field .., _, _ => rt_selfTyped ctx rfl
  | .str .., _, _ => rt_selfTyped ctx rfl
  | .not .., _, _ => rt_selfTyped ctx rfl
  | .call .., _, _ => rt_selfTyped ctx rfl
  | .num .., _, _ => rt_selfTyped ctx rfl
  | .float .., _, _ => rt_selfTyped ctx rfl
  | .bool .., _, _ => rt_selfTyped ctx rfl
  | .name .., hc, _ => by simp [opA, isRef, coreA] at hc
  | .cycle, hc, _ => by simp [opA, isRef, coreA] at hc
  | .list .., hc, _ => by simp [opA, isRef, coreA] at hc
  | .access .., hc, _ => by simp [opA, isRef, coreA] at hc

theorem rtA_kind {ctx : CheckCtx} {e : Expr} {k : Kind} (hc : opA e = true) (hr : RefsCons ctx e)
    (hk : kindOf e = some k) : ctx.rt e = .ok k.code := by
  rw [rtA ctx e hc hr, code_of_kind hk]

/-! the engine's rules evaluated forward on operands that may be references -/

theorem bool_shapeA {l : Expr} (hk : kindOf l = some .bool) (hc : opA l = true) : isBoolOperand l = true := by
  cases l <;> first
    | (simp [isBoolOperand, isBoolish]; done)
    | (simp [kindOf] at hk; done)
    | (simp [opA, isRef, coreA] at hc; done)

theorem andOrSide_evalA {ctx : CheckCtx} {l : Expr} (hk : kindOf l = some .bool) (hc : opA l = true)
    (hr : RefsCons ctx l) : ctx.checkAndOrSide l = .ok () := by
  unfold CheckCtx.checkAndOrSide
  simp only [bool_shapeA hk hc, if_true, rtA_kind hc hr hk, Res.bind_ok]
  simp [Kind.code]

theorem mathSide_evalA {ctx : CheckCtx} {l : Expr} {k : Kind} (hk : kindOf l = some k) (hc : opA l = true)
    (hr : RefsCons ctx l) (hkk : k = .text ∨ k = .num) : ctx.mathSide l = .ok (k == .text) := by
  have hrt := rtA_kind hc hr hk
  cases l with
  | str p d => simp [kindOf] at hk; subst hk; rfl
  | field p kw => simp [kindOf] at hk; subst hk; rfl
  | bool p d v => simp [kindOf] at hk; subst hk; simp at hkk
  | not p r =>
    simp only [kindOf] at hk
    split at hk <;> simp at hk
    subst hk; simp at hkk
  | num p d v =>
    simp only [CheckCtx.mathSide, hrt, Res.bind_ok]
    rcases hkk with rfl | rfl <;> simp [Kind.code, tyTSTR, tyTNUMBER] <;> rfl
  | float p d v =>
    simp only [CheckCtx.mathSide, hrt, Res.bind_ok]
    rcases hkk with rfl | rfl <;> simp [Kind.code, tyTSTR, tyTNUMBER] <;> rfl
  | binop p op a b =>
    simp only [CheckCtx.mathSide, hrt, Res.bind_ok]
    rcases hkk with rfl | rfl <;> simp [Kind.code, tyTSTR, tyTNUMBER] <;> rfl
  | call p nm args =>
    simp only [CheckCtx.mathSide, hrt, Res.bind_ok]
    rcases hkk with rfl | rfl <;> simp [Kind.code, tyTSTR, tyTNUMBER] <;> rfl
  | ref p d t =>
    simp only [CheckCtx.mathSide, hrt, Res.bind_ok]
    rcases hkk with rfl | rfl <;> simp [Kind.code, tyTSTR, tyTNUMBER] <;> rfl
  | _ => simp [opA, isRef, coreA] at hc

theorem checkWithMath_evalA {ctx : CheckCtx} {op : Op} {l r : Expr} {k : Kind}
    (hl : kindOf l = some k) (hr : kindOf r = some k) (cl : opA l = true) (cr : opA r = true)
    (rl : RefsCons ctx l) (rr : RefsCons ctx r)
    (hkk : (op = .add ∧ k = .text) ∨ k = .num) (hop : op = .add ∨ op = .sub ∨ op = .mul ∨ op = .div)
    (hz : op = .div → zeroLit r = false) : ctx.checkWithMath op l r = .ok () := by
  have hk' : k = .text ∨ k = .num := by rcases hkk with ⟨_, h⟩ | h <;> simp [h]
  unfold CheckCtx.checkWithMath
  simp only [mathSide_evalA hl cl rl hk', mathSide_evalA hr cr rr hk', Res.bind_ok]
  rcases hkk with ⟨rfl, rfl⟩ | rfl
  · simp
  · have e1 : (Kind.num == Kind.text) = false := by decide
    simp only [e1]
    rcases hop with rfl | rfl | rfl | rfl
    · simp
    · simp
    · simp
    · have hz' := hz rfl
      cases r <;> simp [zeroLit] at hz' <;> simp [hz']

theorem compareSide_evalA {l : Expr} (hc : opA l = true) (hn : isNotNode l = false) :
    compareSide l = .ok (fieldCount l) := by
  cases l <;> first
    | rfl
    | (rename_i kw; cases kw <;> rfl)
    | (simp [isNotNode] at hn; done)
    | (simp [opA, isRef, coreA] at hc; done)

theorem checkWithCompares_evalA {ctx : CheckCtx} {pos : Nat} {op : Op} {l r : Expr} {k : Kind}
    (hl : kindOf l = some k) (hr : kindOf r = some k) (cl : opA l = true) (cr : opA r = true)
    (rl : RefsCons ctx l) (rr : RefsCons ctx r)
    (hn : isNotNode l = false ∧ isNotNode r = false ∧ sameField l r = false)
    (hop : ((op = .eq ∨ op = .neq) ∧ k.scalar = true) ∨
           ((op = .gt ∨ op = .gte ∨ op = .lt ∨ op = .lte) ∧ (k = .text ∨ k = .num)) ∨
           ((op = .prefixMatch ∨ op = .regexMatch) ∧ k = .text)) :
    ctx.checkWithCompares pos op l r = .ok () := by
  unfold CheckCtx.checkWithCompares
  simp only [compareSide_evalA cl hn.1, compareSide_evalA cr hn.2.1, Res.bind_ok, sameField_counts hn.2.2]
  simp only [rtA_kind cl rl hl, rtA_kind cr rr hr, Res.bind_ok]
  rcases hop with ⟨ho, hs⟩ | ⟨ho, hk⟩ | ⟨ho, rfl⟩
  · rcases ho with rfl | rfl <;> cases k <;> simp [Kind.scalar] at hs <;>
      simp [Kind.code, tyTSTR, tyTNUMBER, tyTBOOL]
  · rcases ho with rfl | rfl | rfl | rfl <;> rcases hk with rfl | rfl <;>
      simp [Kind.code, tyTSTR, tyTNUMBER]
  · rcases ho with rfl | rfl <;> simp [Kind.code, tyTSTR]

/-! operands: `Check`, then `tryRewriteExpr` -/

theorem unref_not_name {e : Expr} (hc : coreA e = true) : ∀ p d, unref e ≠ .name p d := by
  intro p d he
  cases e <;> simp [unref, coreA] at he hc

theorem rewrite_core {ctx : CheckCtx} {e : Expr} (hc : coreA e = true) : ctx.rewrite e = .ok e := by
  cases e <;> first | rfl | (simp [coreA] at hc)

/-- an operand: `Check` of what the user wrote, then the rewriting of a field name, gives the operand -/
theorem operand_eval {ctx : CheckCtx} {x : Expr} (hc : opA x = true) (hr : RefsCons ctx x)
    (ih : coreA x = true → ctx.check (unref x) = .ok x) :
    ∃ x1, ctx.check (unref x) = .ok x1 ∧ ctx.rewrite x1 = .ok x := by
  rcases Bool.or_eq_true_iff.mp hc with hx | hx
  · cases x with
    | ref p d t =>
      simp only [RefsCons] at hr
      obtain ⟨⟨j, hf, hcyc⟩, _⟩ := hr
      refine ⟨.name p d, by simp [unref, CheckCtx.check], ?_⟩
      simp [CheckCtx.rewrite, hf, hcyc]
    | _ => simp [isRef] at hx
  · exact ⟨x, ih hx, rewrite_core hx⟩

theorem check_binop_evalA {ctx : CheckCtx} {pos : Nat} {op : Op} {l r l1 r1 : Expr}
    (cl : ctx.check (unref l) = .ok l1) (wl : ctx.rewrite l1 = .ok l)
    (cr : ctx.check (unref r) = .ok r1) (wr : ctx.rewrite r1 = .ok r)
    (hop : ctx.checkOp pos op l r = .ok ()) :
    ctx.check (unref (.binop pos op l r)) = .ok (.binop pos op l r) := by
  simp only [unref, CheckCtx.check, cl, cr, Res.bind_ok, wl, wr, hop]
  rfl

theorem checkItems_evalA {ctx : CheckCtx} : ∀ {items : List Expr}, (∀ x ∈ items, ctx.check (unref x) = .ok x) →
    ctx.checkItems (unrefList items) = .ok items
  | [], _ => by simp only [unrefList]; unfold CheckCtx.checkItems; rfl
  | a :: as, h => by
    have ih : ctx.checkItems (unrefList as) = .ok as := checkItems_evalA (fun x hx => h x (List.mem_cons_of_mem a hx))
    have ha : ctx.check (unref a) = .ok a := h a List.mem_cons_self
    simp only [unrefList]
    unfold CheckCtx.checkItems
    simp only [ha, Res.bind_ok, ih]
    rfl

theorem check_list_evalA {ctx : CheckCtx} {T q : Nat} {items : List Expr} (hne : items ≠ [])
    (hc : ∀ x ∈ items, ctx.check (unref x) = .ok x) (ht : ∀ x ∈ items, ctx.rt x = .ok T) :
    ctx.check (unref (.list q items)) = .ok (.list q items) := by
  cases items with
  | nil => exact absurd rfl hne
  | cons a as =>
    have := checkItems_evalA hc
    simp only [unrefList] at this
    simp only [unref, unrefList, CheckCtx.check, this, Res.bind_ok, listTypes_eval ht hne]
    rfl

theorem coreAList_mem : ∀ {xs : List Expr}, coreAList xs = true → ∀ x ∈ xs, coreA x = true
  | [], _, x, hx => by simp at hx
  | y :: ys, h, x, hx => by
    simp only [coreAList, Bool.and_eq_true] at h
    rcases List.mem_cons.mp hx with rfl | hx'
    · exact h.1
    · exact coreAList_mem h.2 x hx'

theorem refsConsList_mem {ctx : CheckCtx} : ∀ {xs : List Expr}, RefsConsList ctx xs → ∀ x ∈ xs, RefsCons ctx x
  | [], _, x, hx => by simp at hx
  | y :: ys, h, x, hx => by
    simp only [RefsConsList] at h
    rcases List.mem_cons.mp hx with rfl | hx'
    · exact h.1
    · exact refsConsList_mem h.2 x hx'

/-- from `coreA` of a binary node whose right operand is well-kinded (hence no list) -/
theorem coreA_binop_gen {p : Nat} {op : Op} {l r : Expr} {kr : Kind} (h : coreA (.binop p op l r) = true)
    (hr : kindOf r = some kr) :
    opA l = true ∧ opA r = true ∧
    (isCompareOp op = true → isNotNode l = false ∧ isNotNode r = false ∧ sameField l r = false) ∧
    (op = .div → zeroLit r = false) := by
  have hnl : ∀ q items, r ≠ .list q items := core_not_list hr
  have hgen : opA l = true ∧ opA r = true ∧
      (!(isCompareOp op && (isNotNode l || isNotNode r || sameField l r))) = true ∧
      (!(op == .div && zeroLit r)) = true := by
    cases op <;> cases r <;> first
      | (exact absurd rfl (hnl _ _))
      | (simp only [coreA, Bool.and_eq_true] at h; exact ⟨h.1.1.1, h.1.1.2, h.1.2, h.2⟩)
  refine ⟨hgen.1, hgen.2.1, ?_, ?_⟩
  · intro hc
    have := hgen.2.2.1
    simp only [hc, Bool.true_and, Bool.not_eq_true', Bool.or_eq_false_iff] at this
    exact ⟨this.1.1, this.1.2, this.2⟩
  · intro hd
    have := hgen.2.2.2
    subst hd
    simpa using this

mutual
  theorem check_complete_auxA (ctx : CheckCtx) (hk : ctx.notAllowKey = false) (hv : ctx.notAllowValue = false) :
      ∀ (e : Expr) (k : Kind), kindOf e = some k → coreA e = true → RefsCons ctx e → ctx.check (unref e) = .ok e
    | .str .., _, _, _, _ => by simp [unref, CheckCtx.check]
    | .num .., _, _, _, _ => by simp [unref, CheckCtx.check]
    | .float .., _, _, _, _ => by simp [unref, CheckCtx.check]
    | .bool .., _, _, _, _ => by simp [unref, CheckCtx.check]
    | .field p kw, _, _, _, _ => by simp [unref, CheckCtx.check, hk, hv]
    | .name .., _, _, hc, _ | .ref .., _, _, hc, _ | .cycle, _, _, hc, _ | .list .., _, _, hc, _
    | .access .., _, _, hc, _ => by
      simp [coreA] at hc
    | .not p r, k, h, hc, hr => by
      simp only [coreA] at hc
      simp only [RefsCons] at hr
      simp only [kindOf] at h
      split at h
      · rename_i hb
        have hkr := beq_some_eq hb
        have cr := check_complete_auxA ctx hk hv r .bool hkr hc hr
        have hrt := rtA_kind (ctx := ctx) (e := r) (by simp [opA, hc]) hr hkr
        simp only [unref, CheckCtx.check, cr, Res.bind_ok, hrt]
        simp [Kind.code]
      · cases h
    | .call p nm args, k, h, hc, hr => by
      cases nm with
      | name q d =>
        simp only [coreA] at hc
        simp only [RefsCons] at hr
        have hsome := kind_call_args h
        have hargs : ctx.checkArgs (unrefList args) = .ok args :=
          check_complete_args ctx hk hv args hc hr (fun x hx => hsome x hx)
        simp only [unref, CheckCtx.check, hargs, Res.bind_ok]
        rfl
      | _ => simp [coreA] at hc
    | .binop p op l r, k, h, hc, hr => by
      simp only [RefsCons] at hr
      obtain ⟨rl, rr⟩ := hr
      -- the operands, once their kinds are known
      have opL : ∀ (kx : Kind), kindOf l = some kx → opA l = true →
          ∃ x1, ctx.check (unref l) = .ok x1 ∧ ctx.rewrite x1 = .ok l := fun kx hkx hox =>
        operand_eval hox rl (fun hcx => check_complete_auxA ctx hk hv l kx hkx hcx rl)
      have opR : ∀ (kx : Kind), kindOf r = some kx → opA r = true →
          ∃ x1, ctx.check (unref r) = .ok x1 ∧ ctx.rewrite x1 = .ok r := fun kx hkx hox =>
        operand_eval hox rr (fun hcx => check_complete_auxA ctx hk hv r kx hkx hcx rr)
      cases op
      case and | or | kwAnd | kwOr =>
        simp only [kindOf] at h
        split at h
        · rename_i hb
          simp only [Bool.and_eq_true] at hb
          have hkl := beq_some_eq hb.1
          have hkr := beq_some_eq hb.2
          obtain ⟨cl, cr, _, _⟩ := coreA_binop_gen hc hkr
          obtain ⟨l1, hl1, wl⟩ := opL _ hkl cl
          obtain ⟨r1, hr1, wr⟩ := opR _ hkr cr
          refine check_binop_evalA hl1 wl hr1 wr ?_
          simp only [CheckCtx.checkOp, CheckCtx.checkWithAndOr, andOrSide_evalA hkl cl rl, andOrSide_evalA hkr cr rr,
            Res.bind_ok]
        · cases h
      case not => simp [kindOf] at h
      case eq | neq =>
        simp only [kindOf] at h
        split at h
        · rename_i hb
          simp only [Bool.and_eq_true] at hb
          cases hkl : kindOf l with
          | none => simp [hkl, isScalar] at hb
          | some kl =>
            have hkr : kindOf r = some kl := by
              have h2 := hb.2
              rw [hkl] at h2
              have h3 : some kl = kindOf r := by simpa using h2
              exact h3.symm
            have hsc : kl.scalar = true := by
              have := hb.1; rw [hkl] at this
              cases kl <;> simp [isScalar] at this <;> rfl
            obtain ⟨cl, cr, hcmp, _⟩ := coreA_binop_gen hc hkr
            obtain ⟨l1, hl1, wl⟩ := opL _ hkl cl
            obtain ⟨r1, hr1, wr⟩ := opR _ hkr cr
            refine check_binop_evalA hl1 wl hr1 wr ?_
            simp only [CheckCtx.checkOp]
            exact checkWithCompares_evalA hkl hkr cl cr rl rr (hcmp rfl) (.inl ⟨by simp, hsc⟩)
        · cases h
      case gt | gte | lt | lte =>
        simp only [kindOf] at h
        split at h
        · rename_i hb
          simp only [Bool.and_eq_true, Bool.or_eq_true] at hb
          cases hkl : kindOf l with
          | none => simp [hkl] at hb
          | some kl =>
            have hkr : kindOf r = some kl := by
              have h2 := hb.2
              rw [hkl] at h2
              have h3 : some kl = kindOf r := by simpa using h2
              exact h3.symm
            have htn : kl = .text ∨ kl = .num := by
              have := hb.1; rw [hkl] at this
              rcases this with h1 | h1
              · exact .inl (by simpa using h1)
              · exact .inr (by simpa using h1)
            obtain ⟨cl, cr, hcmp, _⟩ := coreA_binop_gen hc hkr
            obtain ⟨l1, hl1, wl⟩ := opL _ hkl cl
            obtain ⟨r1, hr1, wr⟩ := opR _ hkr cr
            refine check_binop_evalA hl1 wl hr1 wr ?_
            simp only [CheckCtx.checkOp]
            exact checkWithCompares_evalA hkl hkr cl cr rl rr (hcmp rfl) (.inr (.inl ⟨by simp, htn⟩))
        · cases h
      case prefixMatch | regexMatch =>
        simp only [kindOf] at h
        split at h
        · rename_i hb
          simp only [Bool.and_eq_true] at hb
          have hkl := beq_some_eq hb.1
          have hkr := beq_some_eq hb.2
          obtain ⟨cl, cr, hcmp, _⟩ := coreA_binop_gen hc hkr
          obtain ⟨l1, hl1, wl⟩ := opL _ hkl cl
          obtain ⟨r1, hr1, wr⟩ := opR _ hkr cr
          refine check_binop_evalA hl1 wl hr1 wr ?_
          simp only [CheckCtx.checkOp]
          exact checkWithCompares_evalA hkl hkr cl cr rl rr (hcmp rfl) (.inr (.inr ⟨by simp, rfl⟩))
        · cases h
      case add =>
        simp only [kindOf] at h
        split at h
        · rename_i hb
          simp only [Bool.and_eq_true] at hb
          have hkl := beq_some_eq hb.1
          have hkr := beq_some_eq hb.2
          obtain ⟨cl, cr, _, hz⟩ := coreA_binop_gen hc hkr
          obtain ⟨l1, hl1, wl⟩ := opL _ hkl cl
          obtain ⟨r1, hr1, wr⟩ := opR _ hkr cr
          refine check_binop_evalA hl1 wl hr1 wr ?_
          simp only [CheckCtx.checkOp]
          exact checkWithMath_evalA hkl hkr cl cr rl rr (.inl ⟨rfl, rfl⟩) (by simp) hz
        · split at h
          · rename_i hb
            simp only [Bool.and_eq_true] at hb
            have hkl := beq_some_eq hb.1
            have hkr := beq_some_eq hb.2
            obtain ⟨cl, cr, _, hz⟩ := coreA_binop_gen hc hkr
            obtain ⟨l1, hl1, wl⟩ := opL _ hkl cl
            obtain ⟨r1, hr1, wr⟩ := opR _ hkr cr
            refine check_binop_evalA hl1 wl hr1 wr ?_
            simp only [CheckCtx.checkOp]
            exact checkWithMath_evalA hkl hkr cl cr rl rr (.inr rfl) (by simp) hz
          · cases h
      case sub | mul | div =>
        simp only [kindOf] at h
        split at h
        · rename_i hb
          simp only [Bool.and_eq_true] at hb
          have hkl := beq_some_eq hb.1
          have hkr := beq_some_eq hb.2
          obtain ⟨cl, cr, _, hz⟩ := coreA_binop_gen hc hkr
          obtain ⟨l1, hl1, wl⟩ := opL _ hkl cl
          obtain ⟨r1, hr1, wr⟩ := opR _ hkr cr
          refine check_binop_evalA hl1 wl hr1 wr ?_
          simp only [CheckCtx.checkOp]
          exact checkWithMath_evalA hkl hkr cl cr rl rr (.inr rfl) (by simp) hz
        · cases h
      case in_ =>
        cases r with
        | list q items =>
          -- a literal list
          have hcc : opA l = true ∧ items ≠ [] ∧ coreAList items = true := by
            simp only [coreA, Bool.and_eq_true] at hc
            exact ⟨hc.1.1, by simpa using hc.1.2, hc.2⟩
          obtain ⟨cl, hne, hci⟩ := hcc
          simp only [RefsCons] at rr
          rw [kindOf] at h
          have hkey : ∃ kl, kindOf l = some kl ∧ (kl = .text ∨ kl = .num) ∧ allKind kl items = true := by
            split at h
            · rename_i hb
              split at h
              · rename_i ha; exact ⟨.text, beq_some_eq hb, .inl rfl, ha⟩
              · cases h
            · split at h
              · rename_i hb
                split at h
                · rename_i ha; exact ⟨.num, beq_some_eq hb, .inr rfl, ha⟩
                · cases h
              · cases h
          obtain ⟨kl, hkl, htn, hall⟩ := hkey
          have hkx := allKind_mem hall
          have hcx : ∀ x ∈ items, ctx.check (unref x) = .ok x := fun x hx =>
            check_complete_listA ctx hk hv items hci rr x hx kl (hkx x hx)
          have htx : ∀ x ∈ items, ctx.rt x = .ok kl.code := fun x hx =>
            rtA_kind (by simp [opA, coreAList_mem hci x hx]) (refsConsList_mem rr x hx) (hkx x hx)
          obtain ⟨l1, hl1, wl⟩ := opL _ hkl cl
          have hlist := check_list_evalA (q := q) hne hcx htx
          refine check_binop_evalA hl1 wl hlist (by rfl) ?_
          simp only [CheckCtx.checkOp, CheckCtx.checkWithIn, rtA_kind cl rl hkl, Res.bind_ok]
          rcases htn with rfl | rfl
          · simpa [Kind.code, tyTSTR, tyTNUMBER] using inItems_eval htx
          · simpa [Kind.code, tyTSTR, tyTNUMBER] using inItems_eval htx
        | call q nm args =>
          rw [kindOf] at h
          split at h
          · rename_i hb
            simp only [Bool.or_eq_true, Bool.and_eq_true] at hb
            have hkey : ∃ kl kr, kindOf l = some kl ∧ kindOf (.call q nm args) = some kr ∧
                (kl = .text ∨ kl = .num) ∧ kr.code = tyTLIST := by
              rcases hb with ⟨h1, h2⟩ | ⟨h1, h2⟩
              · exact ⟨.text, .listText, beq_some_eq h1, beq_some_eq h2, .inl rfl, rfl⟩
              · exact ⟨.num, .listNum, beq_some_eq h1, beq_some_eq h2, .inr rfl, rfl⟩
            obtain ⟨kl, kr, hkl, hkr, htn, hcode⟩ := hkey
            obtain ⟨cl, cr, _, _⟩ := coreA_binop_gen hc hkr
            obtain ⟨l1, hl1, wl⟩ := opL _ hkl cl
            obtain ⟨r1, hr1, wr⟩ := opR _ hkr cr
            refine check_binop_evalA hl1 wl hr1 wr ?_
            simp only [CheckCtx.checkOp, CheckCtx.checkWithIn, rtA_kind cl rl hkl,
              rtA_kind cr rr hkr, Res.bind_ok, hcode]
            rcases htn with rfl | rfl <;> simp [Kind.code, tyTSTR, tyTNUMBER]
          · cases h
        | ref q nm t =>
          rw [kindOf] at h
          split at h
          · rename_i hb
            simp only [Bool.or_eq_true, Bool.and_eq_true] at hb
            have hkey : ∃ kl kr, kindOf l = some kl ∧ kindOf (.ref q nm t) = some kr ∧
                (kl = .text ∨ kl = .num) ∧ kr.code = tyTLIST := by
              rcases hb with ⟨h1, h2⟩ | ⟨h1, h2⟩
              · exact ⟨.text, .listText, beq_some_eq h1, beq_some_eq h2, .inl rfl, rfl⟩
              · exact ⟨.num, .listNum, beq_some_eq h1, beq_some_eq h2, .inr rfl, rfl⟩
            obtain ⟨kl, kr, hkl, hkr, htn, hcode⟩ := hkey
            obtain ⟨cl, cr, _, _⟩ := coreA_binop_gen hc hkr
            obtain ⟨l1, hl1, wl⟩ := opL _ hkl cl
            obtain ⟨r1, hr1, wr⟩ := opR _ hkr cr
            refine check_binop_evalA hl1 wl hr1 wr ?_
            simp only [CheckCtx.checkOp, CheckCtx.checkWithIn, rtA_kind cl rl hkl,
              rtA_kind cr rr hkr, Res.bind_ok, hcode]
            rcases htn with rfl | rfl <;> simp [Kind.code, tyTSTR, tyTNUMBER]
          · cases h
        | _ => simp [kindOf] at h
      case between =>
        cases r with
        | list q items =>
          have hcc : opA l = true ∧ coreAList items = true := by
            simp only [coreA, Bool.and_eq_true] at hc
            exact hc
          obtain ⟨cl, hci⟩ := hcc
          simp only [RefsCons] at rr
          match items, h, hci, rr with
          | [lo, hi], h, hci, rr =>
            rw [kindOf] at h
            split at h
            · rename_i hb
              simp only [Bool.and_eq_true, Bool.or_eq_true] at hb
              cases hkl : kindOf l with
              | none => simp [hkl] at hb
              | some kl =>
                have htn : kl = .text ∨ kl = .num := by
                  have := hb.1.1; rw [hkl] at this
                  rcases this with h1 | h1
                  · exact .inl (by simpa using h1)
                  · exact .inr (by simpa using h1)
                have hklo : kindOf lo = some kl := by
                  have h2 := hb.1.2; rw [hkl] at h2; simpa using h2
                have hkhi : kindOf hi = some kl := by
                  have h2 := hb.2; rw [hkl] at h2; simpa using h2
                have hkx : ∀ x ∈ [lo, hi], kindOf x = some kl := by
                  intro x hx; simp at hx; rcases hx with rfl | rfl <;> assumption
                have hcx : ∀ x ∈ [lo, hi], ctx.check (unref x) = .ok x := fun x hx =>
                  check_complete_listA ctx hk hv [lo, hi] hci rr x hx kl (hkx x hx)
                have htx : ∀ x ∈ [lo, hi], ctx.rt x = .ok kl.code := fun x hx =>
                  rtA_kind (by simp [opA, coreAList_mem hci x hx]) (refsConsList_mem rr x hx) (hkx x hx)
                obtain ⟨l1, hl1, wl⟩ := opL _ hkl cl
                have hlist := check_list_evalA (q := q) (by simp) hcx htx
                refine check_binop_evalA hl1 wl hlist (by rfl) ?_
                simp only [CheckCtx.checkOp, CheckCtx.checkWithBetween, rtA_kind cl rl hkl,
                  Res.bind_ok, htx lo (by simp), htx hi (by simp)]
                rcases htn with rfl | rfl <;> simp [Kind.code, tyTSTR, tyTNUMBER]
            · cases h
          | [], h, _, _ => simp [kindOf] at h
          | [_], h, _, _ => simp [kindOf] at h
          | _ :: _ :: _ :: _, h, _, _ => simp [kindOf] at h
        | _ => simp [kindOf] at h
  theorem check_complete_listA (ctx : CheckCtx) (hk : ctx.notAllowKey = false) (hv : ctx.notAllowValue = false) :
      ∀ (es : List Expr), coreAList es = true → RefsConsList ctx es →
        ∀ x ∈ es, ∀ k, kindOf x = some k → ctx.check (unref x) = .ok x
    | [], _, _, x, hx, _, _ => by simp at hx
    | e :: es, hc, hr, x, hx, k, hkx => by
      simp only [coreAList, Bool.and_eq_true] at hc
      simp only [RefsConsList] at hr
      rcases List.mem_cons.mp hx with heq | hx'
      · rw [heq] at hkx ⊢
        exact check_complete_auxA ctx hk hv e k hkx hc.1 hr.1
      · exact check_complete_listA ctx hk hv es hc.2 hr.2 x hx' k hkx
  theorem check_complete_args (ctx : CheckCtx) (hk : ctx.notAllowKey = false) (hv : ctx.notAllowValue = false) :
      ∀ (es : List Expr), coreArgs es = true → RefsConsList ctx es →
        (∀ x ∈ es, (kindOf x).isSome = true) → ctx.checkArgs (unrefList es) = .ok es
    | [], _, _, _ => by simp only [unrefList]; unfold CheckCtx.checkArgs; rfl
    | e :: es, hc, hr, hs => by
      simp only [coreArgs, Bool.and_eq_true] at hc
      simp only [RefsConsList] at hr
      have ih := check_complete_args ctx hk hv es hc.2 hr.2 (fun x hx => hs x (List.mem_cons_of_mem e hx))
      obtain ⟨ke, hke⟩ := Option.isSome_iff_exists.mp (hs e List.mem_cons_self)
      simp only [unrefList]
      unfold CheckCtx.checkArgs
      rcases Bool.or_eq_true_iff.mp hc.1 with hx | hx
      · cases e with
        | ref p d t =>
          obtain ⟨⟨j, hf, hcyc⟩, _⟩ := (by simpa only [RefsCons] using hr.1 :
            (∃ j, ctx.tbl.find d = some (j, t) ∧ ctx.closesCycle j = false) ∧ ctx.rt t = .ok t.retType)
          simp only [unref, CheckCtx.rewrite, hf, hcyc, Bool.false_eq_true, if_false, Res.bind_ok, ih]
          rfl
        | _ => simp [isRef] at hx
      · have hchk := check_complete_auxA ctx hk hv e ke hke hx hr.1
        split
        · rename_i p d hname
          exact absurd hname (unref_not_name hx p d)
        · simp only [hchk, Res.bind_ok, ih]
          rfl
end

/-- COMPLETENESS WITH ALIAS REFERENCES.  `e` has alias references only where `Check` creates them
    (`coreA`), is well-kinded by the README typing (references typed through the copies they carry),
    and every reference is consistent with the select list of the context (`RefsCons`: it carries the
    current entry of that name, creating it closes no cycle, and the checker's type of the entry is
    the entry's static type).  Then `Check` accepts what the user wrote — `unref e`, the references
    put back to names — and returns `e`. -/
theorem check_complete_alias (ctx : CheckCtx) (hk : ctx.notAllowKey = false) (hv : ctx.notAllowValue = false)
    (e : Expr) (k : Kind) (h : kindOf e = some k) (hc : coreA e = true) (hr : RefsCons ctx e) :
    ctx.check (unref e) = .ok e :=
  check_complete_auxA ctx hk hv e k h hc hr

end Kvql.Proofs.Typing
