/-
  C12: PUT and REMOVE apply exactly the stated writes, once, all-or-nothing.
-/
import Kvql.Proofs.PlanMonad
import Kvql.Proofs.StoreLemmas

namespace Kvql.Proofs.Plan

open Kvql Kvql.Storage Kvql.Plans

/-! ### evaluation of the pairs / keys -/

/-- the two lists have the same length and are related element by element -/
inductive Forall2 (R : α → β → Prop) : List α → List β → Prop
  | nil : Forall2 R [] []
  | cons {a b as bs} : R a b → Forall2 R as bs → Forall2 R (a :: as) (b :: bs)

/-- each evaluated pair is its own key expression's result and its value expression's result
    *on that key* -/
theorem evalPairs_forall2 : ∀ (pairs : List PutPair) (kvps : List Pair), evalPairs pairs = .ok kvps →
    Forall2 (fun p kv => p.key = .ok kv.1 ∧ p.value kv.1 = .ok kv.2) pairs kvps := by
  intro pairs
  induction pairs with
  | nil => intro kvps h; simp [evalPairs] at h; subst h; exact .nil
  | cons p r ih =>
    intro kvps h
    simp only [evalPairs] at h
    split at h
    · cases h
    · rename_i k hk
      split at h
      · cases h
      · rename_i v hv
        split at h
        · cases h
        · rename_i kvs hkvs
          cases h
          exact .cons ⟨hk, hv⟩ (ih kvs hkvs)

/-- a failing pair: some key expression fails, or some value expression fails on its own key -/
def PairFails (p : PutPair) : Prop :=
  (∃ e, p.key = .error e) ∨ (∃ k e, p.key = .ok k ∧ p.value k = .error e)

theorem evalPairs_error_of_fails : ∀ (pairs : List PutPair), (∃ p ∈ pairs, PairFails p) →
    ∃ e, evalPairs pairs = .error e := by
  intro pairs
  induction pairs with
  | nil => intro ⟨p, hp, _⟩; cases hp
  | cons p r ih =>
    intro ⟨q, hq, hf⟩
    simp only [evalPairs]
    rcases hk : p.key with e | k
    · exact ⟨e, rfl⟩
    · simp only []
      rcases hv : p.value k with e | v
      · exact ⟨e, rfl⟩
      · simp only []
        rcases List.mem_cons.mp hq with h | h
        · subst h
          rcases hf with ⟨e, he⟩ | ⟨k', e, hk', he⟩
          · rw [hk] at he; cases he
          · rw [hk] at hk'; cases hk'; rw [hv] at he; cases he
        · obtain ⟨e, he⟩ := ih ⟨q, h, hf⟩
          rw [he]; exact ⟨e, rfl⟩

theorem evalKeys_forall2 : ∀ (keys : List (Except Err Bytes)) (ks : List Bytes), evalKeys keys = .ok ks →
    Forall2 (fun r k => r = .ok k) keys ks := by
  intro keys
  induction keys with
  | nil => intro ks h; simp [evalKeys] at h; subst h; exact .nil
  | cons r rs ih =>
    intro ks h
    simp only [evalKeys] at h
    split at h
    · cases h
    · rename_i k
      split at h
      · cases h
      · rename_i ks' hks
        cases h
        exact .cons rfl (ih ks' hks)

theorem evalKeys_error_of_fails : ∀ (keys : List (Except Err Bytes)), (∃ e, .error e ∈ keys) →
    ∃ e, evalKeys keys = .error e := by
  intro keys
  induction keys with
  | nil => intro ⟨e, he⟩; cases he
  | cons r rs ih =>
    intro ⟨e, he⟩
    simp only [evalKeys]
    cases r with
    | error e' => exact ⟨e', rfl⟩
    | ok k =>
      simp only []
      rcases List.mem_cons.mp he with h | h
      · cases h
      · obtain ⟨e'', he''⟩ := ih ⟨e, h⟩
        rw [he'']; exact ⟨e'', rfl⟩

/-! ### `execute` -/

/-- the one storage call a PUT makes -/
def putCall : List Pair → List Call
  | [] => []
  | [kv] => [.put kv.1 kv.2]
  | kvps => [.batchPut kvps]

/-- the one storage call a REMOVE makes -/
def removeCall : List Bytes → List Call
  | [] => []
  | [k] => [.delete k]
  | ks => [.batchDelete ks]

theorem putExecute_ok {pairs : List PutPair} {kvps : List Pair} (h : evalPairs pairs = .ok kvps) (w : World) :
    PutPlan.execute pairs none w =
      (.ok kvps.length, { store := w.store.insertMany kvps, log := w.log ++ (putCall kvps).map (⟨·, false⟩) }) := by
  simp only [PutPlan.execute, h, run_ofExcept_ok, run_bind, run_pure]
  match kvps with
  | [] => simp [putCall, Store.insertMany]
  | [kv] => simp [putCall, Store.insertMany, put, run_call_none]
  | kv1 :: kv2 :: r => simp [putCall, batchPut, run_call_none]

theorem putExecute_error {pairs : List PutPair} {e : Err} (h : evalPairs pairs = .error e) (f : Option Nat) (w : World) :
    PutPlan.execute pairs f w = (.error e, w) := by
  simp [PutPlan.execute, h]

theorem removeExecute_ok {keys : List (Except Err Bytes)} {ks : List Bytes} (h : evalKeys keys = .ok ks) (w : World) :
    RemovePlan.execute keys none w =
      (.ok ks.length, { store := w.store.eraseMany ks, log := w.log ++ (removeCall ks).map (⟨·, false⟩) }) := by
  simp only [RemovePlan.execute, h, run_ofExcept_ok, run_bind, run_pure]
  match ks with
  | [] => simp [removeCall, Store.eraseMany]
  | [k] => simp [removeCall, Store.eraseMany, delete, run_call_none]
  | k1 :: k2 :: r => simp [removeCall, batchDelete, run_call_none]

theorem removeExecute_error {keys : List (Except Err Bytes)} {e : Err} (h : evalKeys keys = .error e)
    (f : Option Nat) (w : World) : RemovePlan.execute keys f w = (.error e, w) := by
  simp [RemovePlan.execute, h]

/-! ### polls -/

/-- a write plan: PUT, REMOVE or DELETE -/
def Plan.isWrite : Plan → Bool
  | .select .. => false
  | _ => true

def Plan.executed : Plan → Bool
  | .select .. => false
  | .deleteScan _ _ ex _ | .deleteLimit _ _ _ _ ex _ | .put _ ex | .remove _ ex => ex

/-- an executed write plan does nothing when polled, and stays executed -/
theorem poll_executed (plan : Plan) (hw : Plan.isWrite plan = true) (hx : Plan.executed plan = true)
    (kind : PollKind) (bs : Nat) (f : Option Nat) (w : World) :
    plan.poll kind bs f w = (⟨[], none, plan⟩, w) := by
  cases plan <;> simp_all [Plan.isWrite, Plan.executed, Plan.poll]

/-- the first poll of a write plan leaves it executed (whatever the outcome) -/
theorem poll_sets_executed (plan : Plan) (hw : Plan.isWrite plan = true)
    (kind : PollKind) (bs : Nat) (f : Option Nat) (w : World) :
    Plan.isWrite (plan.poll kind bs f w).1.plan = true ∧ Plan.executed (plan.poll kind bs f w).1.plan = true := by
  cases plan with
  | select => simp [Plan.isWrite] at hw
  | put pairs ex =>
    cases ex with
    | true => simp [Plan.poll, Plan.isWrite, Plan.executed]
    | false =>
      simp only [Plan.poll, Bool.false_eq_true, if_false, writePoll]
      rcases PutPlan.execute pairs f w with ⟨r, w'⟩
      cases r <;> simp [Plan.isWrite, Plan.executed]
  | remove keys ex =>
    cases ex with
    | true => simp [Plan.poll, Plan.isWrite, Plan.executed]
    | false =>
      simp only [Plan.poll, Bool.false_eq_true, if_false, writePoll]
      rcases RemovePlan.execute keys f w with ⟨r, w'⟩
      cases r <;> simp [Plan.isWrite, Plan.executed]
  | deleteScan node filter ex st =>
    cases ex with
    | true => simp [Plan.poll, Plan.isWrite, Plan.executed]
    | false =>
      simp only [Plan.poll, Bool.false_eq_true, if_false]
      rcases DeletePlan.loop (node.child filter) bs (st.size + 2) 0 st f w with ⟨⟨⟨r, n⟩, st'⟩, w'⟩
      cases r <;> simp [Plan.isWrite, Plan.executed]
  | deleteLimit node filter start count ex st =>
    cases ex with
    | true => simp [Plan.poll, Plan.isWrite, Plan.executed]
    | false =>
      simp only [Plan.poll, Bool.false_eq_true, if_false]
      rcases DeletePlan.loop (LimitPlan.child start count (node.child filter)) bs (st.child.size + 2) 0 st f w with ⟨⟨⟨r, n⟩, st'⟩, w'⟩
      cases r <;> simp [Plan.isWrite, Plan.executed]

/-- polling an executed write plan any number of times: nothing happens -/
theorem pollSeq_executed (bs : Nat) (f : Option Nat) : ∀ (ks : List PollKind) (plan : Plan) (w : World)
    (acc : List (List Row × Option Err)), Plan.isWrite plan = true → Plan.executed plan = true →
    pollSeq bs f ks plan w acc = (acc ++ ks.map (fun _ => ([], none)), w) := by
  intro ks
  induction ks with
  | nil => intro plan w acc _ _; simp [pollSeq]
  | cons k ks ih =>
    intro plan w acc hw hx
    simp only [pollSeq, poll_executed plan hw hx]
    rw [ih plan w _ hw hx]
    simp

/-- EXACTLY ONCE: after the first poll of a write plan, however it is polled on, the world (store
    and call log) stays what the first poll left, and every later poll hands out nothing -/
theorem pollSeq_after_first (bs : Nat) (f : Option Nat) (k : PollKind) (ks : List PollKind) (plan : Plan)
    (hw : Plan.isWrite plan = true) (w : World) :
    pollSeq bs f (k :: ks) plan w [] =
      ([((plan.poll k bs f w).1.rows, (plan.poll k bs f w).1.err)] ++ ks.map (fun _ => ([], none)),
        (plan.poll k bs f w).2) := by
  have ⟨h1, h2⟩ := poll_sets_executed plan hw k bs f w
  simp only [pollSeq]
  rcases h : plan.poll k bs f w with ⟨⟨rows, e, plan'⟩, w'⟩
  rw [h] at h1 h2
  simp only at h1 h2 ⊢
  rw [pollSeq_executed bs f ks plan' w' _ h1 h2]
  simp

/-! ### statements -/

theorem buildPlan_put (pairs : List PutPair) (f : Option Nat) (w : World) :
    buildPlan (.put pairs) f w = (.ok (.put pairs false), w) := by
  simp [buildPlan, buildPlan1, Plan.init]

theorem buildPlan_remove (keys : List (Except Err Bytes)) (f : Option Nat) (w : World) :
    buildPlan (.remove keys) f w = (.ok (.remove keys false), w) := by
  simp [buildPlan, buildPlan1, Plan.init]

/-- a complete run of PUT whose expressions evaluate: one row `[n]`, one call, the store updated -/
theorem run_put_ok {pairs : List PutPair} {kvps : List Pair} (h : evalPairs pairs = .ok kvps)
    (kind : PollKind) (bs : Nat) (store : Store) :
    run (.put pairs) kind bs none store =
      (⟨.ok, [[.count kvps.length]]⟩,
        { store := store.insertMany kvps, log := (putCall kvps).map (⟨·, false⟩) }) := by
  simp [run, runG, buildPlan_put, drain, Plan.poll, writePoll, putExecute_ok h]

/-- a complete run of PUT with a failing expression: the error, and no call at all -/
theorem run_put_error {pairs : List PutPair} {e : Err} (h : evalPairs pairs = .error e)
    (kind : PollKind) (bs : Nat) (f : Option Nat) (store : Store) :
    run (.put pairs) kind bs f store = (⟨.execErr e, [[.count 0]]⟩, { store := store, log := [] }) := by
  simp [run, runG, buildPlan_put, drain, Plan.poll, writePoll, putExecute_error h]

theorem run_remove_ok {keys : List (Except Err Bytes)} {ks : List Bytes} (h : evalKeys keys = .ok ks)
    (kind : PollKind) (bs : Nat) (store : Store) :
    run (.remove keys) kind bs none store =
      (⟨.ok, [[.count ks.length]]⟩,
        { store := store.eraseMany ks, log := (removeCall ks).map (⟨·, false⟩) }) := by
  simp [run, runG, buildPlan_remove, drain, Plan.poll, writePoll, removeExecute_ok h]

theorem run_remove_error {keys : List (Except Err Bytes)} {e : Err} (h : evalKeys keys = .error e)
    (kind : PollKind) (bs : Nat) (f : Option Nat) (store : Store) :
    run (.remove keys) kind bs f store = (⟨.execErr e, [[.count 0]]⟩, { store := store, log := [] }) := by
  simp [run, runG, buildPlan_remove, drain, Plan.poll, writePoll, removeExecute_error h]

end Kvql.Proofs.Plan
