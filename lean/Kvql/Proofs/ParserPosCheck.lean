/-
  parse_err_pos, checker part: `Check` only copies positions (`GetPos()`), so it preserves
  the invariant and every error it raises carries the position of a node.
-/
import Kvql.Proofs.ParserPos

set_option linter.unusedSectionVars false

namespace Kvql.Proofs.ParserPos

open Kvql Kvql.Parser Kvql.Generated

section
variable (S : Nat → Prop) (h0 : S 0)

/-- every field of the select table satisfies the invariant -/
def TblOK (tbl : Tbl) : Prop := ∀ p ∈ tbl, PosOK S p.2

theorem find_go_posOK {tbl : Tbl} (ht : TblOK S tbl) (nm : Bytes) : ∀ (k i : Nat) (e : Expr),
    Tbl.find.go nm tbl k = some (i, e) → PosOK S e := by
  induction tbl with
  | nil => intro k i e h; simp [Tbl.find.go] at h
  | cons p rest ih =>
    intro k i e h
    obtain ⟨n, x⟩ := p
    unfold Tbl.find.go at h
    split at h
    · simp at h; rw [← h.2]; exact ht (n, x) (by simp)
    · exact ih (fun q hq => ht q (by simp [hq])) _ _ _ h

theorem find_posOK {tbl : Tbl} (ht : TblOK S tbl) {nm : Bytes} {i : Nat} {e : Expr}
    (h : tbl.find nm = some (i, e)) : PosOK S e := find_go_posOK S ht nm 0 i e h

theorem setField_ok {tbl : Tbl} (ht : TblOK S tbl) (i : Nat) {e : Expr} (he : PosOK S e) :
    TblOK S (tbl.setField i e) := by
  induction tbl generalizing i with
  | nil => simpa [Tbl.setField] using ht
  | cons p rest ih =>
    obtain ⟨n, x⟩ := p
    cases i with
    | zero =>
      intro q hq
      simp [Tbl.setField] at hq
      rcases hq with hq | hq
      · rw [hq]; exact he
      · exact ht q (by simp [hq])
    | succ j =>
      intro q hq
      simp [Tbl.setField] at hq
      rcases hq with hq | hq
      · rw [hq]; exact ht (n, x) (by simp)
      · exact ih (fun q hq => ht q (by simp [hq])) j q hq

theorem getElem_ok {tbl : Tbl} (ht : TblOK S tbl) {i : Nat} {n : Bytes} {e : Expr}
    (h : tbl[i]? = some (n, e)) : PosOK S e :=
  ht (n, e) (List.mem_of_getElem? h)

theorem rt_pos (ctx : CheckCtx) (e : Expr) : Pos S (ctx.rt e) (fun _ => True) := by
  unfold CheckCtx.rt; split <;> simp

theorem rewrite_pos (ctx : CheckCtx) (ht : TblOK S ctx.tbl) {e : Expr} (he : PosOK S e) :
    Pos S (ctx.rewrite e) (PosOK S) := by
  unfold CheckCtx.rewrite
  split
  · rename_i pos d
    have hp : S pos := he
    split
    · rename_i j tgt hf
      split
      · simpa [EOK] using hp
      · exact ⟨hp, find_posOK S ht hf⟩
    · exact he
  · exact he

include h0

/-- an error at the position of a node that satisfies the invariant -/
theorem synErr_node {α : Type} {e : Expr} (he : PosOK S e) (Q : α → Prop) :
    Pos S (synErr e.pos : Res α) Q := by
  simpa [EOK] using pos_of_posOK S h0 he

theorem checkAndOrSide_pos (ctx : CheckCtx) {e : Expr} (he : PosOK S e) :
    Pos S (ctx.checkAndOrSide e) (fun _ => True) := by
  unfold CheckCtx.checkAndOrSide
  split
  · apply Res.Holds.bind (rt_pos S _ _); intro _ _
    split
    · exact synErr_node S h0 he _
    · simp
  · exact synErr_node S h0 he _

theorem checkWithAndOr_pos (ctx : CheckCtx) {l r : Expr} (hl : PosOK S l) (hr : PosOK S r) :
    Pos S (ctx.checkWithAndOr l r) (fun _ => True) := by
  unfold CheckCtx.checkWithAndOr
  exact Res.Holds.bind (checkAndOrSide_pos S h0 _ hl) (fun _ _ => checkAndOrSide_pos S h0 _ hr)

theorem mathSide_pos (ctx : CheckCtx) {e : Expr} (he : PosOK S e) : Pos S (ctx.mathSide e) (fun _ => True) := by
  unfold CheckCtx.mathSide
  split
  all_goals first
    | (simp; done)
    | exact synErr_node S h0 he _
    | (apply Res.Holds.bind (rt_pos S _ _); intro _ _
       repeat' split
       all_goals first
         | (simp; done)
         | exact synErr_node S h0 he _)

theorem checkWithMath_pos (ctx : CheckCtx) (op : Op) {l r : Expr} (hl : PosOK S l) (hr : PosOK S r) :
    Pos S (ctx.checkWithMath op l r) (fun _ => True) := by
  unfold CheckCtx.checkWithMath
  apply Res.Holds.bind (mathSide_pos S h0 _ hl); intro _ _
  apply Res.Holds.bind (mathSide_pos S h0 _ hr); intro _ _
  apply Res.Holds.bind (R := fun _ => True)
  · split
    · simp
    · split
      · exact synErr_node S h0 hl _
      · split
        · exact synErr_node S h0 hr _
        · simp
  · intro _ _
    split
    · split
      · rename_i p _ v
        have : S p := hr
        split
        · simpa [EOK] using this
        · simp
      · rename_i p _ v
        have : S p := hr
        split
        · simpa [EOK] using this
        · simp
      · simp
    · simp

theorem compareSide_pos {e : Expr} (he : PosOK S e) : Pos S (compareSide e) (fun _ => True) := by
  unfold compareSide
  split
  all_goals first
    | (simp; done)
    | exact synErr_node S h0 he _

theorem checkWithCompares_pos (ctx : CheckCtx) {pos : Nat} (hp : S pos) (op : Op) {l r : Expr}
    (hl : PosOK S l) (hr : PosOK S r) : Pos S (ctx.checkWithCompares pos op l r) (fun _ => True) := by
  unfold CheckCtx.checkWithCompares
  apply Res.Holds.bind (compareSide_pos S h0 hl); intro _ _
  apply Res.Holds.bind (compareSide_pos S h0 hr); intro _ _
  dsimp only
  split
  · simpa [EOK] using hp
  · apply Res.Holds.bind (rt_pos S _ _); intro _ _
    apply Res.Holds.bind (rt_pos S _ _); intro _ _
    split
    · simpa [EOK] using hp
    · split
      all_goals first
        | (split
           · exact synErr_node S h0 hl _
           · simp)
        | simp

theorem inItems_pos (ctx : CheckCtx) (t : Nat) : ∀ {xs : List Expr}, PosOKs S xs →
    Pos S (ctx.inItems t xs) (fun _ => True) := by
  intro xs
  induction xs with
  | nil => intro _; simp [CheckCtx.inItems]
  | cons x rest ih =>
    intro hx
    unfold CheckCtx.inItems
    apply Res.Holds.bind (rt_pos S _ _); intro _ _
    split
    · exact synErr_node S h0 hx.1 _
    · exact ih hx.2

theorem checkWithIn_pos (ctx : CheckCtx) {l r : Expr} (hl : PosOK S l) (hr : PosOK S r) :
    Pos S (ctx.checkWithIn l r) (fun _ => True) := by
  unfold CheckCtx.checkWithIn
  apply Res.Holds.bind (rt_pos S _ _); intro _ _
  split
  · exact synErr_node S h0 hl _
  · split
    · exact inItems_pos S h0 _ _ hr.2
    · apply Res.Holds.bind (rt_pos S _ _); intro _ _
      split
      · exact synErr_node S h0 hr _
      · simp
    · apply Res.Holds.bind (rt_pos S _ _); intro _ _
      split
      · exact synErr_node S h0 hr _
      · simp
    · exact synErr_node S h0 hr _

theorem checkWithBetween_pos (ctx : CheckCtx) {l r : Expr} (hl : PosOK S l) (hr : PosOK S r) :
    Pos S (ctx.checkWithBetween l r) (fun _ => True) := by
  unfold CheckCtx.checkWithBetween
  apply Res.Holds.bind (rt_pos S _ _); intro _ _
  split
  · split
    · exact synErr_node S h0 hl _
    · apply Res.Holds.bind (rt_pos S _ _); intro _ _
      split
      · exact synErr_node S h0 hr _
      · apply Res.Holds.bind (rt_pos S _ _); intro _ _
        split
        · exact synErr_node S h0 hr _
        · simp
  · exact synErr_node S h0 hr _

theorem checkOp_pos (ctx : CheckCtx) {pos : Nat} (hp : S pos) (op : Op) {l r : Expr}
    (hl : PosOK S l) (hr : PosOK S r) : Pos S (ctx.checkOp pos op l r) (fun _ => True) := by
  unfold CheckCtx.checkOp
  split
  all_goals first
    | exact checkWithAndOr_pos S h0 _ hl hr
    | exact checkWithMath_pos S h0 _ _ hl hr
    | exact checkWithIn_pos S h0 _ hl hr
    | exact checkWithBetween_pos S h0 _ hl hr
    | exact checkWithCompares_pos S h0 _ hp _ hl hr
    | simpa [EOK] using hp

theorem listTypes_go_pos (ctx : CheckCtx) (t : Nat) : ∀ {xs : List Expr}, PosOKs S xs →
    Pos S (CheckCtx.listTypes.go ctx t xs) (fun _ => True) := by
  intro xs
  induction xs with
  | nil => intro _; simp [CheckCtx.listTypes.go]
  | cons x rest ih =>
    intro hx
    unfold CheckCtx.listTypes.go
    apply Res.Holds.bind (rt_pos S _ _); intro _ _
    split
    · exact synErr_node S h0 hx.1 _
    · exact ih hx.2

theorem listTypes_pos (ctx : CheckCtx) {pos : Nat} (hp : S pos) {xs : List Expr} (hx : PosOKs S xs) :
    Pos S (ctx.listTypes pos xs) (fun _ => True) := by
  unfold CheckCtx.listTypes
  split
  · simpa [EOK] using hp
  · split
    · simp
    · apply Res.Holds.bind (rt_pos S _ _); intro _ _
      exact listTypes_go_pos S h0 _ _ hx.2

theorem accessTypes_pos (ctx : CheckCtx) {l f : Expr} (hl : PosOK S l) (hf : PosOK S f) :
    Pos S (ctx.accessTypes l f) (fun _ => True) := by
  unfold CheckCtx.accessTypes
  apply Res.Holds.bind (rt_pos S _ _); intro _ _
  repeat' split
  all_goals first
    | (simp; done)
    | exact synErr_node S h0 hl _
    | exact synErr_node S h0 hf _

mutual
  theorem check_pos (ctx : CheckCtx) (ht : TblOK S ctx.tbl) : ∀ e : Expr, PosOK S e →
      Pos S (ctx.check e) (PosOK S)
    | .binop pos op l r, he => by
      unfold CheckCtx.check
      apply Res.Holds.bind (check_pos ctx ht l he.2.1); intro l1 hl1
      apply Res.Holds.bind (check_pos ctx ht r he.2.2); intro r1 hr1
      apply Res.Holds.bind (rewrite_pos S _ ht hl1); intro l2 hl2
      apply Res.Holds.bind (rewrite_pos S _ ht hr1); intro r2 hr2
      apply Res.Holds.bind (checkOp_pos S h0 _ he.1 _ hl2 hr2); intro _ _
      exact ⟨he.1, hl2, hr2⟩
    | .field pos kw, he => by
      unfold CheckCtx.check
      have hp : S pos := he
      split
      · simpa [EOK] using hp
      · split
        · simpa [EOK] using hp
        · exact hp
    | .not pos r, he => by
      unfold CheckCtx.check
      apply Res.Holds.bind (check_pos ctx ht r he.2); intro r1 hr1
      apply Res.Holds.bind (rt_pos S _ _); intro _ _
      split
      · exact synErr_node S h0 hr1 _
      · exact ⟨he.1, hr1⟩
    | .call pos nm args, he => by
      unfold CheckCtx.check
      split
      · apply Res.Holds.bind (checkArgs_pos ctx ht args he.2.2); intro a ha
        exact ⟨he.1, he.2.1, ha⟩
      · exact synErr_node S h0 he.2.1 _
    | .list pos items, he => by
      unfold CheckCtx.check
      split
      · simpa [EOK] using he.1
      · apply Res.Holds.bind (checkItems_pos ctx ht _ he.2); intro a ha
        apply Res.Holds.bind (listTypes_pos S h0 _ he.1 ha); intro _ _
        exact ⟨he.1, ha⟩
    | .access pos l f, he => by
      unfold CheckCtx.check
      apply Res.Holds.bind (check_pos ctx ht l he.2.1); intro l1 hl1
      apply Res.Holds.bind (check_pos ctx ht f he.2.2); intro f1 hf1
      apply Res.Holds.bind (accessTypes_pos S h0 _ hl1 hf1); intro _ _
      exact ⟨he.1, hl1, hf1⟩
    | .str .., he | .name .., he | .ref .., he | .cycle, he | .num .., he | .float .., he
    | .bool .., he => by
      unfold CheckCtx.check; exact he
  theorem checkArgs_pos (ctx : CheckCtx) (ht : TblOK S ctx.tbl) : ∀ es : List Expr, PosOKs S es →
      Pos S (ctx.checkArgs es) (PosOKs S)
    | [], _ => by unfold CheckCtx.checkArgs; simp [PosOKs]
    | a :: as, he => by
      unfold CheckCtx.checkArgs
      apply Res.Holds.bind (R := PosOK S)
      · split
        · exact rewrite_pos S _ ht he.1
        · exact check_pos ctx ht _ he.1
      · intro a' ha'
        apply Res.Holds.bind (checkArgs_pos ctx ht as he.2); intro as' has'
        exact ⟨ha', has'⟩
  theorem checkItems_pos (ctx : CheckCtx) (ht : TblOK S ctx.tbl) : ∀ es : List Expr, PosOKs S es →
      Pos S (ctx.checkItems es) (PosOKs S)
    | [], _ => by unfold CheckCtx.checkItems; simp [PosOKs]
    | a :: as, he => by
      unfold CheckCtx.checkItems
      apply Res.Holds.bind (check_pos ctx ht a he.1); intro a' ha'
      apply Res.Holds.bind (checkItems_pos ctx ht as he.2); intro as' has'
      exact ⟨ha', has'⟩
end

end

end Kvql.Proofs.ParserPos
