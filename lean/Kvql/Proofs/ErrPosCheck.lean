/-
  C17, positions in the tree: the checker.  `Check` only moves nodes around: the one node it creates
  (`FieldReferenceExpr`, in `tryRewriteExpr`) takes the `Pos` of the `NameExpr` it replaces and points
  at a select field; so it preserves `NodeOK T F` relative to a field table that satisfies it.
  `Parser.resolve` (the final state of the shared nodes) copies table entries into references.
-/
import Kvql.Proofs.ErrPosExpr

set_option linter.unusedSectionVars false

namespace Kvql.Proofs.ErrPos

open Kvql Kvql.Parser Kvql.Generated

section
variable (T F : Nat → Prop)

/-- every field of the select table satisfies the invariant -/
def TblOK (tbl : Tbl) : Prop := ∀ p ∈ tbl, NodeOK T F p.2

theorem tblOK_nil : TblOK T F [] := fun _ h => by simp at h

theorem find_go_ok {tbl : Tbl} (ht : TblOK T F tbl) (nm : Bytes) : ∀ (k i : Nat) (e : Expr),
    Tbl.find.go nm tbl k = some (i, e) → NodeOK T F e := by
  induction tbl with
  | nil => intro k i e h; simp [Tbl.find.go] at h
  | cons p rest ih =>
    intro k i e h
    obtain ⟨n, x⟩ := p
    unfold Tbl.find.go at h
    split at h
    · simp at h; rw [← h.2]; exact ht (n, x) (by simp)
    · exact ih (fun q hq => ht q (by simp [hq])) _ _ _ h

theorem find_ok {tbl : Tbl} (ht : TblOK T F tbl) {nm : Bytes} {i : Nat} {e : Expr}
    (h : tbl.find nm = some (i, e)) : NodeOK T F e := find_go_ok T F ht nm 0 i e h

theorem setField_ok {tbl : Tbl} (ht : TblOK T F tbl) (i : Nat) {e : Expr} (he : NodeOK T F e) :
    TblOK T F (tbl.setField i e) := by
  induction tbl generalizing i with
  | nil => simpa [Tbl.setField] using ht
  | cons p rest ih =>
    obtain ⟨n, x⟩ := p
    cases i with
    | zero =>
      intro q hq
      simp [Tbl.setField] at hq
      rcases hq with hq | hq
      · rw [hq]; exact he
      · exact ht q (by simp [hq])
    | succ j =>
      intro q hq
      simp [Tbl.setField] at hq
      rcases hq with hq | hq
      · rw [hq]; exact ht (n, x) (by simp)
      · exact ih (fun q hq => ht q (by simp [hq])) j q hq

theorem getElem_ok {tbl : Tbl} (ht : TblOK T F tbl) {i : Nat} {n : Bytes} {e : Expr}
    (h : tbl[i]? = some (n, e)) : NodeOK T F e :=
  ht (n, e) (List.mem_of_getElem? h)

theorem rewrite_ok (ctx : CheckCtx) (ht : TblOK T F ctx.tbl) {e : Expr} (he : NodeOK T F e) :
    Suc (ctx.rewrite e) (NodeOK T F) := by
  unfold CheckCtx.rewrite
  split
  · rename_i pos d
    have hp : T pos := he
    split
    · rename_i j tgt hf
      split
      · simp
      · exact ⟨hp, find_ok T F ht hf⟩
    · exact he
  · exact he

mutual
  theorem check_ok (ctx : CheckCtx) (ht : TblOK T F ctx.tbl) : ∀ e : Expr, NodeOK T F e →
      Suc (ctx.check e) (NodeOK T F)
    | .binop pos op l r, he => by
      unfold CheckCtx.check
      apply Res.Holds.bind (check_ok ctx ht l he.2.1); intro l1 hl1
      apply Res.Holds.bind (check_ok ctx ht r he.2.2); intro r1 hr1
      apply Res.Holds.bind (rewrite_ok T F _ ht hl1); intro l2 hl2
      apply Res.Holds.bind (rewrite_ok T F _ ht hr1); intro r2 hr2
      apply Res.Holds.bind (Suc.triv _); intro _ _
      exact ⟨he.1, hl2, hr2⟩
    | .field pos kw, he => by
      unfold CheckCtx.check
      have hp : F pos := he
      split
      · simp
      · split
        · simp
        · exact hp
    | .not pos r, he => by
      unfold CheckCtx.check
      apply Res.Holds.bind (check_ok ctx ht r he.2); intro r1 hr1
      apply Res.Holds.bind (Suc.triv _); intro _ _
      split
      · simp
      · exact ⟨he.1, hr1⟩
    | .call pos nm args, he => by
      unfold CheckCtx.check
      split
      · apply Res.Holds.bind (checkArgs_ok ctx ht args he.2.2); intro a ha
        exact ⟨he.1, he.2.1, ha⟩
      · simp
    | .list pos items, he => by
      unfold CheckCtx.check
      split
      · simp
      · apply Res.Holds.bind (checkItems_ok ctx ht _ he.2); intro a ha
        apply Res.Holds.bind (Suc.triv _); intro _ _
        exact ⟨he.1, ha⟩
    | .access pos l f, he => by
      unfold CheckCtx.check
      apply Res.Holds.bind (check_ok ctx ht l he.2.1); intro l1 hl1
      apply Res.Holds.bind (check_ok ctx ht f he.2.2); intro f1 hf1
      apply Res.Holds.bind (Suc.triv _); intro _ _
      exact ⟨he.1, hl1, hf1⟩
    | .str .., he | .name .., he | .ref .., he | .cycle, he | .num .., he | .float .., he
    | .bool .., he => by
      unfold CheckCtx.check; exact he
  theorem checkArgs_ok (ctx : CheckCtx) (ht : TblOK T F ctx.tbl) : ∀ es : List Expr, NodeOKs T F es →
      Suc (ctx.checkArgs es) (NodeOKs T F)
    | [], _ => by unfold CheckCtx.checkArgs; simp [NodeOKs]
    | a :: as, he => by
      unfold CheckCtx.checkArgs
      apply Res.Holds.bind (R := NodeOK T F)
      · split
        · exact rewrite_ok T F _ ht he.1
        · exact check_ok ctx ht _ he.1
      · intro a' ha'
        apply Res.Holds.bind (checkArgs_ok ctx ht as he.2); intro as' has'
        exact ⟨ha', has'⟩
  theorem checkItems_ok (ctx : CheckCtx) (ht : TblOK T F ctx.tbl) : ∀ es : List Expr, NodeOKs T F es →
      Suc (ctx.checkItems es) (NodeOKs T F)
    | [], _ => by unfold CheckCtx.checkItems; simp [NodeOKs]
    | a :: as, he => by
      unfold CheckCtx.checkItems
      apply Res.Holds.bind (check_ok ctx ht a he.1); intro a' ha'
      apply Res.Holds.bind (checkItems_ok ctx ht as he.2); intro as' has'
      exact ⟨ha', has'⟩
end

/-! ### `mapRefs` / `resolve` -/

mutual
  theorem mapRefs_ok (f : Nat → Bytes → Expr → Expr)
      (hf : ∀ p nm t, T p → NodeOK T F t → NodeOK T F (f p nm t)) :
      ∀ e : Expr, NodeOK T F e → NodeOK T F (mapRefs f e)
    | .binop p o l r, he => by
      unfold mapRefs; exact ⟨he.1, mapRefs_ok f hf l he.2.1, mapRefs_ok f hf r he.2.2⟩
    | .not p r, he => by
      unfold mapRefs; exact ⟨he.1, mapRefs_ok f hf r he.2⟩
    | .call p n args, he => by
      unfold mapRefs; exact ⟨he.1, mapRefs_ok f hf n he.2.1, mapRefsList_ok f hf args he.2.2⟩
    | .ref p n t, he => by
      unfold mapRefs; exact hf p n t he.1 he.2
    | .list p items, he => by
      unfold mapRefs; exact ⟨he.1, mapRefsList_ok f hf items he.2⟩
    | .access p l x, he => by
      unfold mapRefs; exact ⟨he.1, mapRefs_ok f hf l he.2.1, mapRefs_ok f hf x he.2.2⟩
    | .field .., he | .str .., he | .name .., he | .cycle, he | .num .., he | .float .., he
    | .bool .., he => by
      unfold mapRefs; exact he
  theorem mapRefsList_ok (f : Nat → Bytes → Expr → Expr)
      (hf : ∀ p nm t, T p → NodeOK T F t → NodeOK T F (f p nm t)) :
      ∀ es : List Expr, NodeOKs T F es → NodeOKs T F (mapRefsList f es)
    | [], _ => by unfold mapRefsList; trivial
    | e :: es, he => by
      unfold mapRefsList; exact ⟨mapRefs_ok f hf e he.1, mapRefsList_ok f hf es he.2⟩
end

/-- re-pointing references at the table's current entries keeps the invariant -/
theorem resolve_ok {tbl : Tbl} (ht : TblOK T F tbl) : ∀ (fuel : Nat) (path : List Nat) (e : Expr),
    NodeOK T F e → NodeOK T F (resolve tbl fuel path e) := by
  intro fuel
  induction fuel with
  | zero => intro path e he; simpa [resolve] using he
  | succ n ih =>
    intro path e he
    unfold resolve
    apply mapRefs_ok T F _ _ e he
    intro p nm t hp hnt
    split
    · rename_i i cur hfind
      split
      · trivial
      · exact ⟨hp, ih _ _ (find_ok T F ht hfind)⟩
    · exact ⟨hp, hnt⟩

theorem resolveTop_ok {tbl : Tbl} (ht : TblOK T F tbl) {e : Expr} (he : NodeOK T F e) :
    NodeOK T F (resolveTop tbl e) := resolve_ok T F ht _ _ e he

end

end Kvql.Proofs.ErrPos
