/-
  C01 (1), value level: the relation `≈` between the engine's run-time values and the reference
  evaluator's semantic values, and — operator group by operator group — "the kernel the engine
  runs on related operands returns a value related to what `Kvql.Spec` says".  No expression is
  evaluated here; `ExecRefinesSpec.lean` does the induction over expressions.
-/
import Kvql.Spec.Eval
import Kvql.Proofs.C14Exec
import Kvql.Proofs.ExecFuncs
import Kvql.Proofs.ByteOrderLaws

namespace Kvql.Refine
open Kvql Kvql.Spec

/-- `v ≈ s`: the same value, forgetting Go's `[]byte` vs `string` and `int64` vs `int` -/
def Rel : Value → SVal → Prop
  | .bytes b, .text t => b = t
  | .str b, .text t => b = t
  | .int i, .int j => i = j
  | .goInt i, .int j => i = j
  | .float f, .float g => f = g
  | .bool a, .bool b => a = b
  | _, _ => False

scoped infix:50 " ≈ " => Rel

theorem Rel.text_inv {v : Value} {t : Bytes} (h : v ≈ .text t) : v = .bytes t ∨ v = .str t := by
  cases v <;> simp [Rel] at h <;> simp [h]
theorem Rel.int_inv {v : Value} {i : Int64} (h : v ≈ .int i) : v = .int i ∨ v = .goInt i := by
  cases v <;> simp [Rel] at h <;> simp [h]
theorem Rel.float_inv {v : Value} {f : F64} (h : v ≈ .float f) : v = .float f := by
  cases v <;> simp [Rel] at h <;> simp [h]
theorem Rel.bool_inv {v : Value} {b : Bool} (h : v ≈ .bool b) : v = .bool b := by
  cases v <;> simp [Rel] at h <;> simp [h]
theorem Rel.list_inv {v : Value} {l : List SVal} (h : v ≈ .list l) : False := by
  cases v <;> simp [Rel] at h

theorem Rel.bytes (b : Bytes) : Value.bytes b ≈ .text b := rfl
theorem Rel.str (b : Bytes) : Value.str b ≈ .text b := rfl
theorem Rel.int (i : Int64) : Value.int i ≈ .int i := rfl
theorem Rel.float (f : F64) : Value.float f ≈ .float f := rfl
theorem Rel.bool (b : Bool) : Value.bool b ≈ .bool b := rfl

/-- the semantic value's class is the engine value's kind -/
theorem Rel.kind_text {v : Value} {s : SVal} (h : v ≈ s) (hk : v.hasKind .text = true) : ∃ t, s = .text t := by
  cases v <;> cases s <;> simp [Rel, Value.hasKind] at h hk <;> exact ⟨_, rfl⟩
theorem Rel.kind_bool {v : Value} {s : SVal} (h : v ≈ s) (hk : v.hasKind .bool = true) : ∃ b, s = .bool b := by
  cases v <;> cases s <;> simp [Rel, Value.hasKind] at h hk <;> exact ⟨_, rfl⟩
theorem Rel.kind_num {v : Value} {s : SVal} (h : v ≈ s) (hk : v.hasKind .num = true) :
    (∃ i, s = .int i) ∨ (∃ f, s = .float f) := by
  cases v <;> cases s <;> simp [Rel, Value.hasKind] at h hk <;> simp

theorem toStringV_text {v : Value} {t : Bytes} (h : v ≈ .text t) : toStringV v = t := by
  rcases h.text_inv with rfl | rfl <;> rfl
theorem convert_text {v : Value} {t : Bytes} (h : v ≈ .text t) : convertToByteArray v = some t := by
  rcases h.text_inv with rfl | rfl <;> rfl

/-! ### byte order: `Bytes.cmp` is core's lexicographic order -/

theorem ordCmp_lt (x y : Bytes) : ordCmp .lt (Bytes.cmp x y) = decide (x < y) := by
  by_cases h : x < y
  · simp [ordCmp, (Bytes.cmp_lt_iff x y).mpr h, h]
  · have : Bytes.cmp x y ≠ .lt := fun e => h ((Bytes.cmp_lt_iff x y).mp e)
    simp [ordCmp, this, h]
theorem ordCmp_gt (x y : Bytes) : ordCmp .gt (Bytes.cmp x y) = decide (y < x) := by
  by_cases h : y < x
  · simp [ordCmp, (Bytes.cmp_gt_iff x y).mpr h, h]
  · have : Bytes.cmp x y ≠ .gt := fun e => h ((Bytes.cmp_gt_iff x y).mp e)
    simp [ordCmp, this, h]
theorem ordCmp_lte (x y : Bytes) : ordCmp .lte (Bytes.cmp x y) = decide (x ≤ y) := by
  have := Bytes.le_iff x y
  simp only [Bytes.le] at this
  by_cases h : x ≤ y
  · simp [ordCmp, this.mpr h, h]
  · have h' : ¬ ((Bytes.cmp x y != .gt) = true) := fun e => h (this.mp e)
    simp only [ordCmp, h, decide_false]
    simpa using h'
theorem ordCmp_gte (x y : Bytes) : ordCmp .gte (Bytes.cmp x y) = decide (y ≤ x) := by
  have h1 : (Bytes.cmp x y = .lt) ↔ x < y := Bytes.cmp_lt_iff x y
  by_cases h : y ≤ x
  · have : ¬ x < y := List.not_lt.mpr h
    have : Bytes.cmp x y ≠ .lt := fun e => this (h1.mp e)
    simp [ordCmp, this, h]
  · have : x < y := List.not_le.mp h
    simp [ordCmp, h1.mpr this, h]
theorem ordCmp_eq (x y : Bytes) : ordCmp .eq (Bytes.cmp x y) = decide (x = y) := by
  by_cases h : x = y
  · subst h; simp [ordCmp, (Bytes.cmp_eq_iff x x).mpr rfl]
  · have : Bytes.cmp x y ≠ .eq := fun e => h ((Bytes.cmp_eq_iff x y).mp e)
    simp [ordCmp, this, h]

/-! ### comparisons -/

/-- the reference's reading of the five comparison kernels -/
def specCmp (op : CmpOp) (a b : SVal) : Option Bool :=
  match op with
  | .gt => compare? .lt b a
  | .gte => compare? .le b a
  | .lt => compare? .lt a b
  | .lte => compare? .le a b
  | .eq => compare? .eq a b

theorem stringCompare_spec {a b : Value} {x y : Bytes} (ha : a ≈ .text x) (hb : b ≈ .text y) (op : CmpOp)
    {r : Bool} (h : specCmp op (.text x) (.text y) = some r) : execStringCompare a b op = .ok r := by
  simp only [execStringCompare, convert_text ha, convert_text hb]
  cases op <;> simp only [specCmp, compare?, Option.some.injEq] at h <;> subst h
  · rw [ordCmp_gt]
  · rw [ordCmp_gte]
  · rw [ordCmp_lt]
  · rw [ordCmp_lte]
  · rw [ordCmp_eq]

theorem intCmp_spec (op : CmpOp) (i j : Int64) {r : Bool} (h : specCmp op (.int i) (.int j) = some r) :
    intCmp op i j = r := by
  cases op <;> simp only [specCmp, compare?, Option.some.injEq] at h <;> subst h <;> simp [intCmp]
  by_cases e : i = j <;> simp [e]

theorem floatCmp_spec (op : CmpOp) (f g : F64) :
    floatCmp op f g = (match op with
      | .gt => Cmp.onFloat .lt g f | .gte => Cmp.onFloat .le g f | .lt => Cmp.onFloat .lt f g
      | .lte => Cmp.onFloat .le f g | .eq => Cmp.onFloat .eq f g) := by
  cases op <;> rfl

theorem numberCompare_spec {a b : Value} {sa sb : SVal} (ha : a ≈ sa) (hb : b ≈ sb)
    (hna : (∃ i, sa = .int i) ∨ (∃ f, sa = .float f)) (op : CmpOp)
    {r : Bool} (h : specCmp op sa sb = some r) : execNumberCompare a b op = .ok r := by
  rcases hna with ⟨i, rfl⟩ | ⟨f, rfl⟩
  · cases sb with
    | int j =>
      rcases ha.int_inv with rfl | rfl <;> rcases hb.int_inv with rfl | rfl <;>
        simp only [execNumberCompare, convertToInt] <;> rw [intCmp_spec op i j h]
    | float g =>
      have hb' := hb.float_inv; subst hb'
      rcases ha.int_inv with rfl | rfl <;>
        (simp only [execNumberCompare, convertToInt, convertToFloat]
         rw [floatCmp_spec]
         cases op <;> simp only [specCmp, compare?, Option.some.injEq] at h <;> subst h <;> rfl)
    | text t => cases op <;> simp [specCmp, compare?] at h
    | bool t => cases op <;> simp [specCmp, compare?] at h
    | list t => cases op <;> simp [specCmp, compare?] at h
  · have ha' := ha.float_inv; subst ha'
    cases sb with
    | int j =>
      rcases hb.int_inv with rfl | rfl <;>
        (simp only [execNumberCompare, convertToInt, convertToFloat]
         rw [floatCmp_spec]
         cases op <;> simp only [specCmp, compare?, Option.some.injEq] at h <;> subst h <;> rfl)
    | float g =>
      have hb' := hb.float_inv; subst hb'
      simp only [execNumberCompare, convertToInt, convertToFloat]
      rw [floatCmp_spec]
      cases op <;> simp only [specCmp, compare?, Option.some.injEq] at h <;> subst h <;> rfl
    | text t => cases op <;> simp [specCmp, compare?] at h
    | bool t => cases op <;> simp [specCmp, compare?] at h
    | list t => cases op <;> simp [specCmp, compare?] at h

/-- `compareBy` with the flag the engine derives from the static type of the left operand, on
    operands whose kind is that static type -/
theorem compareBy_spec {number : Bool} {k : Kind} (hk : (number = true ∧ k = .num) ∨ (number = false ∧ k = .text))
    {a b : Value} {sa sb : SVal} (ha : a ≈ sa) (hb : b ≈ sb) (hka : a.hasKind k = true) (op : CmpOp)
    {r : Bool} (h : specCmp op sa sb = some r) : compareBy number a b op = .ok r := by
  rcases hk with ⟨rfl, rfl⟩ | ⟨rfl, rfl⟩
  · simp only [compareBy, if_true]
    exact numberCompare_spec ha hb (ha.kind_num hka) op h
  · simp only [compareBy, Bool.false_eq_true, if_false]
    obtain ⟨x, rfl⟩ := ha.kind_text hka
    cases sb with
    | text y => exact stringCompare_spec ha hb op h
    | int _ => cases op <;> simp [specCmp, compare?] at h
    | float _ => cases op <;> simp [specCmp, compare?] at h
    | bool _ => cases op <;> simp [specCmp, compare?] at h
    | list _ => cases op <;> simp [specCmp, compare?] at h

/-- `=` / `!=` after both sides are evaluated -/
theorem equalRow_spec {a b : Value} {sa sb : SVal} (ha : a ≈ sa) (hb : b ≈ sb) {r : Bool}
    (h : compare? .eq sa sb = some r) : equalRow a b = .ok r := by
  cases sa with
  | text x =>
    cases sb with
    | text y =>
      have := stringCompare_spec ha hb .eq (r := r) h
      simp only [execStringCompare, convert_text ha, convert_text hb, Except.ok.injEq] at this
      rw [ordCmp_eq] at this
      rcases ha.text_inv with rfl | rfl <;> rcases hb.text_inv with rfl | rfl <;>
        simp only [equalRow, convertToByteArray, ← this] <;> by_cases e : x = y <;> simp [e]
    | _ => simp [compare?] at h
  | int i =>
    have := numberCompare_spec ha hb (.inl ⟨i, rfl⟩) .eq (r := r) h
    rcases ha.int_inv with rfl | rfl <;> simp [equalRow, numberEqual, this]
  | float f =>
    have := numberCompare_spec ha hb (.inr ⟨f, rfl⟩) .eq (r := r) h
    have ha' := ha.float_inv; subst ha'
    simp [equalRow, numberEqual, this]
  | bool x =>
    have ha' := ha.bool_inv; subst ha'
    cases sb with
    | bool y =>
      have hb' := hb.bool_inv; subst hb'
      simp only [compare?, if_true, Option.some.injEq] at h
      simp [equalRow, h]
    | _ => simp [compare?] at h
  | list l => exact (ha.list_inv).elim

/-! ### arithmetic -/

def mathOpToOp : MathOp → Op
  | .add => .add | .sub => .sub | .mul => .mul | .div => .div

theorem intMath_spec (op : MathOp) (i j : Int64) {s : SVal} (h : arith (mathOpToOp op) (.int i) (.int j) = some s) :
    ∃ v, intMath op i j = .ok v ∧ v ≈ s := by
  cases op <;> simp only [arith, mathOpToOp] at h
  · cases h; exact ⟨_, rfl, rfl⟩
  · cases h; exact ⟨_, rfl, rfl⟩
  · cases h; exact ⟨_, rfl, rfl⟩
  · split at h
    · cases h
    · rename_i hj
      cases h
      refine ⟨.int (i / j), ?_, rfl⟩
      simp [intMath, hj]

theorem floatMath_spec (op : MathOp) (x y : F64) {s : SVal}
    (h : (match mathOpToOp op with
      | .add => some (SVal.float (x.add y)) | .sub => some (.float (x.sub y)) | .mul => some (.float (x.mul y))
      | .div => if y.isZero then none else some (.float (x.div y)) | _ => none) = some s) :
    ∃ v, floatMath op x y = .ok v ∧ v ≈ s := by
  cases op <;> simp only [mathOpToOp] at h
  · cases h; exact ⟨_, rfl, rfl⟩
  · cases h; exact ⟨_, rfl, rfl⟩
  · cases h; exact ⟨_, rfl, rfl⟩
  · split at h
    · cases h
    · rename_i hz
      cases h
      refine ⟨.float (x.div y), ?_, rfl⟩
      simp [floatMath, hz]

theorem executeMathOp_spec {a b : Value} {sa sb : SVal} (ha : a ≈ sa) (hb : b ≈ sb) (op : MathOp) {s : SVal}
    (h : arith (mathOpToOp op) sa sb = some s) : ∃ v, executeMathOp a b op = .ok v ∧ v ≈ s := by
  cases sa with
  | int i =>
    cases sb with
    | int j =>
      obtain ⟨v, hv, hr⟩ := intMath_spec op i j h
      rcases ha.int_inv with rfl | rfl <;> rcases hb.int_inv with rfl | rfl <;>
        exact ⟨v, by simpa [executeMathOp, convertToInt] using hv, hr⟩
    | float g =>
      have hb' := hb.float_inv; subst hb'
      simp only [arith, asFloat, bind, Option.bind] at h
      obtain ⟨v, hv, hr⟩ := floatMath_spec op (F64.ofInt i) g h
      rcases ha.int_inv with rfl | rfl <;>
        exact ⟨v, by simpa [executeMathOp, convertToInt, convertToFloat] using hv, hr⟩
    | text _ => simp [arith, asFloat, bind, Option.bind] at h
    | bool _ => simp [arith, asFloat, bind, Option.bind] at h
    | list _ => simp [arith, asFloat, bind, Option.bind] at h
  | float f =>
    have ha' := ha.float_inv; subst ha'
    cases sb with
    | int j =>
      simp only [arith, asFloat, bind, Option.bind] at h
      obtain ⟨v, hv, hr⟩ := floatMath_spec op f (F64.ofInt j) h
      rcases hb.int_inv with rfl | rfl <;>
        exact ⟨v, by simpa [executeMathOp, convertToInt, convertToFloat] using hv, hr⟩
    | float g =>
      have hb' := hb.float_inv; subst hb'
      simp only [arith, asFloat, bind, Option.bind] at h
      obtain ⟨v, hv, hr⟩ := floatMath_spec op f g h
      exact ⟨v, by simpa [executeMathOp, convertToInt, convertToFloat] using hv, hr⟩
    | text _ => simp [arith, asFloat, bind, Option.bind] at h
    | bool _ => simp [arith, asFloat, bind, Option.bind] at h
    | list _ => simp [arith, asFloat, bind, Option.bind] at h
  | text _ => cases sb <;> simp [arith, asFloat, bind, Option.bind] at h
  | bool _ => cases sb <;> simp [arith, asFloat, bind, Option.bind] at h
  | list _ => cases sb <;> simp [arith, asFloat, bind, Option.bind] at h

/-! ### between -/

theorem betweenKernel_spec {number : Bool} {k : Kind} (hk : (number = true ∧ k = .num) ∨ (number = false ∧ k = .text))
    {x lo hi : Value} {sx slo shi : SVal} (hx : x ≈ sx) (hlo : lo ≈ slo) (hhi : hi ≈ shi)
    (hkx : x.hasKind k = true) (hklo : lo.hasKind k = true) {r : Bool}
    (h : Spec.between sx slo shi = some r) : betweenKernel number x lo hi = .ok (.bool r) := by
  simp only [Spec.between, bind, Option.bind] at h
  cases h1 : compare? .lt slo shi with
  | none => simp [h1] at h
  | some ordered =>
    cases h2 : compare? .le slo sx with
    | none => simp [h1, h2] at h
    | some c1 =>
      cases h3 : compare? .le sx shi with
      | none => simp [h1, h2, h3] at h
      | some c2 =>
        simp only [h1, h2, h3] at h
        have e1 := compareBy_spec hk hlo hhi hklo .lt (r := ordered) h1
        have e2 := compareBy_spec hk hlo hx hklo .lte (r := c1) h2
        have e3 := compareBy_spec hk hx hhi hkx .lte (r := c2) h3
        cases ordered with
        | false => simp at h
        | true =>
          simp only [if_true, pure, Option.some.injEq] at h
          subst h
          simp only [betweenKernel, e1, e2, e3, bind, Except.bind]
          cases c1 <;> simp

/-! ### text functions -/

theorem upperByte_eq : Kvql.upperByte = Spec.upperByte := rfl
theorem lowerByte_eq : Kvql.lowerByte = Spec.lowerByte := rfl

theorem toUpper_eq (t : Bytes) : toUpper t = t.map Spec.upperByte := rfl
theorem toLower_eq (t : Bytes) : toLower t = t.map Spec.lowerByte := rfl

/-! ### `int(text)`: the reference's "decimal integer" is `strconv.ParseInt(·, 10, 64)` -/

theorem digitsValue_eq (ds : Bytes) :
    digitsValue ds = if ds.isEmpty || !ds.all isDigit then none else some (digitsVal ds) := by
  unfold digitsValue digitsVal
  have e : (fun c : UInt8 => decide (48 ≤ c) && decide (c ≤ 57)) = isDigit := rfl
  rw [e]
  cases ds with
  | nil => simp
  | cons d r =>
    by_cases h : (d :: r).all isDigit = true
    · simp [h]
    · simp [h]

theorem signedValue_eq (neg : Bool) (ds : Bytes) :
    signedValue neg ds = Option.map Int64.ofInt
        (if ds.isEmpty || !ds.all isDigit then none
         else
          let n := digitsVal ds
          if neg then (if n ≤ 9223372036854775808 then some (-(n : Int)) else none)
          else (if n ≤ 9223372036854775807 then some (n : Int) else none)) := by
  unfold signedValue
  rw [digitsValue_eq]
  by_cases hd : (ds.isEmpty || !ds.all isDigit) = true
  · simp [hd]
  · simp only [hd, Bool.false_eq_true, if_false]
    cases neg
    · simp only [Bool.false_eq_true, if_false]
      by_cases hn : digitsVal ds ≤ 9223372036854775807
      · have : (-9223372036854775808 : Int) ≤ (digitsVal ds : Int) ∧ (digitsVal ds : Int) ≤ 9223372036854775807 := by omega
        simp [hn, this]
      · have : ¬ ((-9223372036854775808 : Int) ≤ (digitsVal ds : Int) ∧ (digitsVal ds : Int) ≤ 9223372036854775807) := by omega
        simp [hn, this]
        try omega
    · simp only [if_true]
      by_cases hn : digitsVal ds ≤ 9223372036854775808
      · have : (-9223372036854775808 : Int) ≤ -(digitsVal ds : Int) ∧ -(digitsVal ds : Int) ≤ 9223372036854775807 := by omega
        simp [hn, this]
      · have : ¬ ((-9223372036854775808 : Int) ≤ -(digitsVal ds : Int) ∧ -(digitsVal ds : Int) ≤ 9223372036854775807) := by omega
        simp [hn, this]
        try omega

/-- the sign split of `parseInt?` on a text that starts with neither `-` nor `+` -/
theorem parseSign_other (t : Bytes) : (∀ ds, t = 45 :: ds → False) → (∀ ds, t = 43 :: ds → False) →
    parseInt?.match_1 (fun _ => Bool × List UInt8) t (fun r => (false, r)) (fun r => (true, r))
      (fun r => (false, r)) = (false, t) := by
  intro h45 h43
  split
  · exact absurd rfl (h43 _)
  · exact absurd rfl (h45 _)
  · rfl

theorem readInt_eq (t : Bytes) : readInt t = parseInt64? t := by
  unfold readInt
  split
  · rw [signedValue_eq]; rfl
  · rw [signedValue_eq]; rfl
  · rename_i h45 h43
    rw [signedValue_eq]
    unfold parseInt64? parseInt?
    rw [parseSign_other t h45 h43]

/-! ### `str(int)`: the reference's decimal numeral is `%d` -/

theorem digitChar_byte {d : Nat} (h : d < 10) : UInt8.ofNat (Nat.digitChar d).toNat = digitByte d := by
  have : d = 0 ∨ d = 1 ∨ d = 2 ∨ d = 3 ∨ d = 4 ∨ d = 5 ∨ d = 6 ∨ d = 7 ∨ d = 8 ∨ d = 9 := by omega
  rcases this with h | h | h | h | h | h | h | h | h | h <;> subst h <;> decide

theorem toDigits_natDigits (n : Nat) :
    (Nat.toDigits 10 n).map (fun c => UInt8.ofNat c.toNat) = natDigits n := by
  induction n using Nat.strongRecOn with
  | _ n ih =>
    by_cases h : n < 10
    · rw [Nat.toDigits_of_lt_base h, natDigits_lt10 h]
      simp [digitChar_byte h]
    · rw [Nat.toDigits_of_base_le (by omega) (by omega), natDigits_ge10 h]
      have hd : n % 10 < 10 := Nat.mod_lt _ (by omega)
      simp [ih (n / 10) (by omega), digitChar_byte hd]

theorem numeral_eq (i : Int64) : numeral i = formatInt i := by
  unfold numeral formatInt
  simp only [toDigits_natDigits]

theorem toStr_spec {v : Value} {sa : SVal} {x : Bytes} (h : v ≈ sa) (hs : Spec.toStr sa = some x) :
    toStringV v = x := by
  cases sa with
  | text t => simp only [Spec.toStr, Option.some.injEq] at hs; subst hs; exact toStringV_text h
  | int i =>
    simp only [Spec.toStr, Option.some.injEq] at hs; subst hs
    rcases h.int_inv with rfl | rfl <;> simp [toStringV, numeral_eq]
  | float f =>
    have := h.float_inv; subst this
    simp only [Spec.toStr, Option.some.injEq] at hs; subst hs; rfl
  | bool _ => simp [Spec.toStr] at hs
  | list _ => simp [Spec.toStr] at hs

/-! ### `substr` -/

theorem toNat_min (e : Int) (n : Nat) : (min e (n : Int)).toNat = min e.toNat n := by omega

theorem take_min {α} (t : List α) (n : Nat) : t.take (min n t.length) = t.take n :=
  List.take_eq_take_min.symm

theorem substr_eq (t : Bytes) (s e : Int64) : subString t s e = Spec.substr t s e := by
  unfold subString Spec.substr Bytes.slice
  simp only
  by_cases hs : s.toInt < 0
  · simp only [hs, if_true]
    have hs0 : s.toInt.toNat = 0 := by omega
    rw [hs0, List.drop_zero]
    by_cases he : (0 : Int) ≥ min e.toInt t.length
    · simp only [he, if_true]
      have : e.toInt.toNat = 0 ∨ t.length = 0 := by omega
      rcases this with h | h
      · simp [h]
      · have : t = [] := List.eq_nil_of_length_eq_zero h
        simp [this]
    · simp only [he, if_false]
      rw [toNat_min, Int.toNat_zero, List.drop_zero, take_min]
  · simp only [hs, if_false]
    by_cases he : s.toInt ≥ min e.toInt t.length
    · simp only [he, if_true]
      symm
      apply List.drop_eq_nil_of_le
      rw [List.length_take]
      omega
    · simp only [he, if_false]
      rw [toNat_min, take_min]

end Kvql.Refine
