/-
  print_reparse, parser half: parsing the token list of the canonical text of `e` gives `e`
  back, modulo positions.
-/
import Kvql.Proofs.ParserPrintToks

set_option linter.unusedSimpArgs false

namespace Kvql.Proofs.PrintParse

open Kvql Kvql.Parser Kvql.Generated Kvql.Proofs.PrintLex

mutual
  /-- the tree with every position set to 0 -/
  def erasePos : Expr → Expr
    | .binop _ op l r => .binop 0 op (erasePos l) (erasePos r)
    | .field _ kw => .field 0 kw
    | .str _ d => .str 0 d
    | .not _ r => .not 0 (erasePos r)
    | .call _ n args => .call 0 (erasePos n) (erasePosList args)
    | .name _ d => .name 0 d
    | .ref _ n t => .ref 0 n (erasePos t)
    | .cycle => .cycle
    | .num _ d v => .num 0 d v
    | .float _ d v => .float 0 d v
    | .bool _ d v => .bool 0 d v
    | .list _ items => .list 0 (erasePosList items)
    | .access _ l f => .access 0 (erasePos l) (erasePos f)
  def erasePosList : List Expr → List Expr
    | [] => []
    | e :: es => erasePos e :: erasePosList es
end

theorem erasePosList_append (a b : List Expr) :
    erasePosList (a ++ b) = erasePosList a ++ erasePosList b := by
  induction a with
  | nil => simp [erasePosList]
  | cons x xs ih => simp [erasePosList, ih]

theorem calleeAtomic_erase {a b : Expr} (h : erasePos a = erasePos b) : a.calleeAtomic = b.calleeAtomic := by
  cases a <;> cases b <;> simp_all [erasePos, Expr.calleeAtomic]

/-! ### tokens -/

/-- `Token.Precedence()` as a function of the token's text -/
def precD (d : Bytes) : Nat := (precTable.lookup (Bytes.toAsciiString d)).getD 0

theorem prec_tok (tp : Nat) (d : Bytes) (p : Nat) :
    (tok tp d p).prec = if tp == tkOPERATOR then precD d else 0 := rfl

/-- the documented binding strength of a binary operator -/
def opPrec : Op → Nat
  | .or | .kwOr => 1
  | .and | .kwAnd => 2
  | .add | .sub => 4
  | .mul | .div => 5
  | .not => 0
  | _ => 3

theorem precD_op : ∀ op : Op, precD (Expr.opText op) = opPrec op := by
  intro op; cases op <;> decide

theorem str_tok (tp : Nat) (d : Bytes) (p : Nat) : (tok tp d p).str = Bytes.toAsciiString d := rfl

theorem op_is_in : ∀ op : Op, (Bytes.toAsciiString (Expr.opText op) == "in") = (op == .in_) := by
  intro op; cases op <;> decide
theorem op_is_between : ∀ op : Op, (Bytes.toAsciiString (Expr.opText op) == "between") = (op == .between) := by
  intro op; cases op <;> decide
theorem buildOp_op : ∀ (op : Op) (p : Nat), buildOp p (Bytes.toAsciiString (Expr.opText op)) = .ok op := by
  intro op p; cases op <;> rfl

/-- the next token does not continue a primary expression -/
def Stop (rest : Toks) : Prop := ∀ t, rest.head? = some t → t.tp ≠ tkLPAREN ∧ t.tp ≠ tkLBRACK
/-- … nor a binary expression at level `prec` -/
def StopB (prec : Nat) (rest : Toks) : Prop :=
  ∀ t, rest.head? = some t → t.tp ≠ tkLPAREN ∧ t.tp ≠ tkLBRACK ∧ t.prec < prec

theorem StopB.stop {prec : Nat} {rest : Toks} (h : StopB prec rest) : Stop rest :=
  fun t ht => ⟨(h t ht).1, (h t ht).2.1⟩

theorem stop_nil : Stop [] := fun t h => by simp at h
theorem stopB_nil (prec : Nat) : StopB prec [] := fun t h => by simp at h

theorem stopB_cons {prec tp : Nat} {d : Bytes} {p : Nat} {rest : Toks}
    (h1 : tp ≠ tkLPAREN) (h2 : tp ≠ tkLBRACK) (h3 : tp ≠ tkOPERATOR ∨ precD d < prec) (hp : 0 < prec) :
    StopB prec (tok tp d p :: rest) := by
  intro t ht
  simp only [List.head?_cons, Option.some.injEq] at ht
  subst ht
  refine ⟨h1, h2, ?_⟩
  rw [prec_tok]
  split
  · rename_i hop
    rcases h3 with h3 | h3
    · simp at hop; exact (h3 hop).elim
    · exact h3
  · exact hp

variable (pf : Bytes → F64)

/-! ### single steps of the parser -/

theorem primaryLoop_stop (f lev : Nat) (x : Expr) {rest : Toks} (h : Stop rest) :
    primaryLoop pf (f + 1) lev x rest = .ok (x, rest) := by
  unfold primaryLoop
  split
  · rfl
  · rename_i t r
    have := h t rfl
    simp [this.1, this.2]

theorem binaryLoop_stop (f : Nat) {lev : Nat} (hl : lev ≤ maxNest) (prec : Nat) (x : Expr) {rest : Toks}
    (h : ∀ t, rest.head? = some t → t.prec < prec) : binaryLoop pf (f + 1) lev prec x rest = .ok (x, rest) := by
  unfold binaryLoop
  have : ¬ lev > maxNest := by omega
  simp only [this, if_false]
  split
  · rfl
  · rename_i t r
    have := h t rfl
    simp [this]

theorem primaryLoop_stop' {F : Nat} (hF : 0 < F) (lev : Nat) (x : Expr) {rest : Toks} (h : Stop rest) :
    primaryLoop pf F lev x rest = .ok (x, rest) := by
  obtain ⟨f, rfl⟩ : ∃ f, F = f + 1 := ⟨F - 1, by omega⟩
  exact primaryLoop_stop pf f lev x h

theorem binaryLoop_stop' {F : Nat} (hF : 0 < F) {lev : Nat} (hl : lev ≤ maxNest) (prec : Nat) (x : Expr)
    {rest : Toks} (h : ∀ t, rest.head? = some t → t.prec < prec) :
    binaryLoop pf F lev prec x rest = .ok (x, rest) := by
  obtain ⟨f, rfl⟩ : ∃ f, F = f + 1 := ⟨F - 1, by omega⟩
  exact binaryLoop_stop pf f hl prec x h

theorem tok_tp (tp : Nat) (d : Bytes) (p : Nat) : (tok tp d p).tp = tp := rfl

theorem expect_tok (tp : Nat) (d : Bytes) (p : Nat) (rest : Toks) :
    expect tp (tok tp d p :: rest) = .ok rest := by
  simp [expect, tok]

/-- the loop of `parseBinaryExpr` at an operator that binds at least as tightly as required -/
theorem binaryLoop_op (f : Nat) {lev : Nat} (hl : lev ≤ maxNest) (prec1 : Nat) (x : Expr) (op : Op) (p : Nat)
    (rest : Toks) (hp : prec1 ≤ opPrec op) :
    binaryLoop pf (f + 1) lev prec1 x (tok tkOPERATOR (Expr.opText op) p :: rest) =
      ((if op == .in_ then
          match rest with
          | [] => eofErr
          | t2 :: _ =>
            if t2.tp == tkLPAREN then parseList pf f lev p rest
            else parseBinaryExpr pf f lev (opPrec op + 1) rest
        else if op == .between then parseBetween pf f lev p (opPrec op + 1) rest
        else parseBinaryExpr pf f lev (opPrec op + 1) rest : Res (Expr × Toks)) >>= fun r =>
        binaryLoop pf f (lev + 1) prec1 (.binop p op x r.1) r.2) := by
  conv => lhs; unfold binaryLoop
  have h1 : ¬ lev > maxNest := by omega
  have h2 : ¬ opPrec op < prec1 := by omega
  simp only [h1, if_false, prec_tok, precD_op, str_tok, op_is_in, op_is_between, buildOp_op]
  simp only [beq_self_eq_true, if_true, tok, h2, if_false]
  cases hr : (if (op == Op.in_) = true then
      match rest with
      | [] => eofErr
      | t2 :: _ => if (t2.tp == tkLPAREN) = true then parseList pf f lev p rest
        else parseBinaryExpr pf f lev (opPrec op + 1) rest
    else if (op == Op.between) = true then parseBetween pf f lev p (opPrec op + 1) rest
    else parseBinaryExpr pf f lev (opPrec op + 1) rest : Res (Expr × Toks)) <;> rfl

/-! ### what "parses back" means at the three levels of the expression grammar -/

/-- a token that is not the unary `!` -/
def notBang (t : Token) : Prop := (t.tp == tkOPERATOR && t.str == "!") = false

theorem notBang_of_tp' {tp : Nat} {d : Bytes} {p : Nat} (h : tp ≠ tkOPERATOR) : notBang (tok tp d p) := by
  unfold notBang
  have : (tp == tkOPERATOR) = false := by simpa using h
  simp [tok_tp, this]

/-- `ts` read by `parsePrimaryExpr`: the operand and the call / index suffixes are consumed and
    the loop of `parsePrimaryExpr` stands at `rest` with (a re-positioned copy of) `e` in hand -/
def POK (e : Expr) (ts : Toks) : Prop :=
  ∀ fuel lev rest, 8 * ts.length + 2 ≤ fuel → lev + fuel ≤ maxNest →
    ∃ e' fuel' lev', parsePrimaryExpr pf fuel lev (ts ++ rest) = primaryLoop pf fuel' lev' e' rest ∧
      erasePos e' = erasePos e ∧ fuel ≤ fuel' + 2 * ts.length ∧ lev' + fuel' ≤ lev + fuel

/-- `ts` read by `parseUnaryExpr` gives `e` and stops at `rest` -/
def UOK (e : Expr) (ts : Toks) : Prop :=
  ∀ fuel lev rest, Stop rest → 8 * ts.length + 3 ≤ fuel → lev + fuel ≤ maxNest →
    ∃ e', parseUnaryExpr pf fuel lev (ts ++ rest) = .ok (e', rest) ∧ erasePos e' = erasePos e

/-- `ts` read by `parseBinaryExpr` at any level gives `e` and stops at `rest` -/
def BOK (e : Expr) (ts : Toks) : Prop :=
  ∀ fuel lev prec rest, StopB prec rest → 8 * ts.length + 4 ≤ fuel → lev + fuel ≤ maxNest →
    ∃ e', parseBinaryExpr pf fuel lev prec (ts ++ rest) = .ok (e', rest) ∧ erasePos e' = erasePos e

theorem uok_of_pok {e : Expr} {t : Token} {r : Toks} (hb : notBang t) (h : POK pf e (t :: r)) :
    UOK pf e (t :: r) := by
  intro fuel lev rest hstop hf hl
  obtain ⟨f, rfl⟩ : ∃ f, fuel = f + 1 := ⟨fuel - 1, by omega⟩
  obtain ⟨e', fuel', lev', heq, he, hf', hl'⟩ := h f (lev + 1) rest (by omega) (by omega)
  refine ⟨e', ?_, he⟩
  unfold parseUnaryExpr
  simp only [List.cons_append]
  unfold notBang at hb
  simp only [hb, Bool.false_eq_true, if_false]
  rw [← List.cons_append, heq]
  obtain ⟨k, rfl⟩ : ∃ k, fuel' = k + 1 := ⟨fuel' - 1, by simp only [List.length_cons] at *; omega⟩
  exact primaryLoop_stop pf k lev' e' hstop

theorem bok_of_uok {e : Expr} {ts : Toks} (h : UOK pf e ts) : BOK pf e ts := by
  intro fuel lev prec rest hstop hf hl
  obtain ⟨f, rfl⟩ : ∃ f, fuel = f + 1 := ⟨fuel - 1, by omega⟩
  obtain ⟨e', heq, he⟩ := h f lev rest hstop.stop (by omega) (by omega)
  refine ⟨e', ?_, he⟩
  unfold parseBinaryExpr
  rw [heq]
  obtain ⟨k, rfl⟩ : ∃ k, f = k + 1 := ⟨f - 1, by omega⟩
  exact binaryLoop_stop pf k (by omega) prec e' (fun t ht => (hstop t ht).2.2)

/-- a single-token operand -/
theorem pok_single {e x : Expr} {t : Token}
    (hop : ∀ f lev rest, parseOperand pf (f + 1) lev (t :: rest) = .ok (x, rest))
    (he : erasePos x = erasePos e) : POK pf e [t] := by
  intro fuel lev rest hf hl
  obtain ⟨f, rfl⟩ : ∃ f, fuel = f + 2 := ⟨fuel - 2, by simp at hf; omega⟩
  refine ⟨x, f + 1, lev + 1, ?_, he, by simp, by omega⟩
  unfold parsePrimaryExpr
  simp [hop]

/-! ### unfolding one call -/

theorem primary_succ (f lev : Nat) (ts : Toks) :
    parsePrimaryExpr pf (f + 1) lev ts =
      (parseOperand pf f lev ts >>= fun r => primaryLoop pf f (lev + 1) r.1 r.2) := by
  conv => lhs; unfold parsePrimaryExpr

theorem binary_succ (f lev prec : Nat) (ts : Toks) :
    parseBinaryExpr pf (f + 1) lev prec ts =
      (parseUnaryExpr pf f lev ts >>= fun r => binaryLoop pf f (lev + 1) prec r.1 r.2) := by
  conv => lhs; unfold parseBinaryExpr

theorem operand_lparen (f lev : Nat) (d : Bytes) (p : Nat) (ts : Toks) :
    parseOperand pf (f + 1) lev (tok tkLPAREN d p :: ts) =
      (parseBinaryExpr pf f lev 1 ts >>= fun r => expect tkRPAREN r.2 >>= fun ts'' => pure (r.1, ts'')) := by
  conv => lhs; unfold parseOperand
  simp only [tok]
  cases parseBinaryExpr pf f lev 1 ts <;> rfl

theorem stop_op (op : Op) (p : Nat) (rest : Toks) : Stop (tok tkOPERATOR (Expr.opText op) p :: rest) := by
  intro t ht
  simp only [List.head?_cons, Option.some.injEq] at ht
  subst ht
  exact ⟨(by decide : tkOPERATOR ≠ tkLPAREN), (by decide : tkOPERATOR ≠ tkLBRACK)⟩

theorem stopB_rp (prec : Nat) (hp : 0 < prec) (p : Nat) (rest : Toks) :
    StopB prec (tok tkRPAREN [41] p :: rest) :=
  stopB_cons (by decide) (by decide) (Or.inl (by decide)) hp

/-- `( L op R )` for an operator other than `in`, `between` -/
theorem pok_generic {l r : Expr} {tl tr : Toks} (op : Op) (p0 : Nat) (hop1 : op ≠ .not)
    (hop2 : op ≠ .in_) (hop3 : op ≠ .between) (hl : UOK pf l tl) (hr : BOK pf r tr) (p1 p2 p3 : Nat) :
    POK pf (.binop p0 op l r)
      (tok tkLPAREN [40] p1 :: (tl ++ tok tkOPERATOR (Expr.opText op) p2 :: (tr ++ [tok tkRPAREN [41] p3]))) := by
  intro fuel lev rest hf hlev
  simp only [List.length_cons, List.length_append, List.length_nil] at hf
  obtain ⟨f, rfl⟩ : ∃ f, fuel = f + 5 := ⟨fuel - 5, by omega⟩
  have hp1 : 1 ≤ opPrec op := by cases op <;> simp_all [opPrec]
  obtain ⟨l', hl1, hle⟩ := hl (f + 2) lev (tok tkOPERATOR (Expr.opText op) p2 :: (tr ++ tok tkRPAREN [41] p3 :: rest))
    (stop_op op p2 _) (by omega) (by omega)
  obtain ⟨r', hr1, hre⟩ := hr (f + 1) (lev + 1) (opPrec op + 1) (tok tkRPAREN [41] p3 :: rest)
    (stopB_rp _ (by omega) _ _) (by omega) (by omega)
  refine ⟨.binop p2 op l' r', f + 4, lev + 1, ?_, by simp [erasePos, hle, hre],
    by simp only [List.length_cons, List.length_append, List.length_nil]; omega, by omega⟩
  have hin : (op == Op.in_) = false := by cases op <;> simp_all
  have hbt : (op == Op.between) = false := by cases op <;> simp_all
  rw [primary_succ]
  simp only [List.cons_append, List.append_assoc, List.nil_append]
  rw [operand_lparen, binary_succ, hl1]
  simp only [Res.bind_ok]
  rw [binaryLoop_op pf (f + 1) (by omega) 1 l' op p2 _ hp1]
  simp only [hin, hbt, Bool.false_eq_true, if_false]
  rw [hr1]
  simp only [Res.bind_ok]
  rw [binaryLoop_stop' pf (by omega) (by omega) 1 _ (fun t ht => ((stopB_rp 1 (by omega) p3 rest) t ht).2.2)]
  simp only [Res.bind_ok, expect_tok, Res.pure_eq]

theorem between_succ (f lev pos oprec : Nat) (ts : Toks) :
    parseBetween pf (f + 1) lev pos oprec ts =
      (parseBinaryExpr pf f lev oprec ts >>= fun r1 => expect tkOPERATOR r1.2 >>= fun ts2 =>
        parseBinaryExpr pf f lev oprec ts2 >>= fun r2 => pure (.list pos [r1.1, r2.1], r2.2)) := by
  conv => lhs; unfold parseBetween

theorem list_succ (f lev pos : Nat) (ts : Toks) :
    parseList pf (f + 1) lev pos ts =
      (expect tkLPAREN ts >>= fun ts1 => parseItems pf f lev tkRPAREN false [] ts1 >>= fun r =>
        expect tkRPAREN r.2 >>= fun ts3 => pure (.list pos r.1, ts3)) := by
  conv => lhs; unfold parseList

theorem call_succ (f lev : Nat) (fn : Expr) (ts : Toks) :
    parseFuncCall pf (f + 1) lev fn ts =
      (expect tkLPAREN ts >>= fun ts1 => parseItems pf f lev tkRPAREN true [] ts1 >>= fun r =>
        expect tkRPAREN r.2 >>= fun ts3 => pure (.call fn.pos fn r.1, ts3)) := by
  conv => lhs; unfold parseFuncCall

/-- the items of a list / the arguments of a call, up to the closing parenthesis -/
def IOK (es : List Expr) (ts : Toks) : Prop :=
  ∀ fuel lev strict acc rest p, 8 * ts.length + 5 ≤ fuel → lev + fuel ≤ maxNest →
    ∃ es', parseItems pf fuel lev tkRPAREN strict acc (ts ++ tok tkRPAREN [41] p :: rest) =
        .ok (acc ++ es', tok tkRPAREN [41] p :: rest) ∧ erasePosList es' = erasePosList es

theorem stopB_and (p : Nat) (rest : Toks) : StopB 4 (tok tkOPERATOR (Expr.opText .kwAnd) p :: rest) :=
  stopB_cons (by decide) (by decide) (Or.inr (by decide)) (by omega)

/-- `( L BETWEEN lo AND hi )` -/
theorem pok_between {l lo hi : Expr} {tl tlo thi : Toks} (p0 q0 : Nat) (hl : UOK pf l tl) (hlo : BOK pf lo tlo)
    (hhi : BOK pf hi thi) (p1 p2 p3 p4 : Nat) :
    POK pf (.binop p0 .between l (.list q0 [lo, hi]))
      (tok tkLPAREN [40] p1 :: (tl ++ tok tkOPERATOR (Expr.opText .between) p2 ::
        (tlo ++ tok tkOPERATOR (Expr.opText .kwAnd) p3 :: (thi ++ [tok tkRPAREN [41] p4])))) := by
  intro fuel lev rest hf hlev
  simp only [List.length_cons, List.length_append, List.length_nil] at hf
  obtain ⟨f, rfl⟩ : ∃ f, fuel = f + 6 := ⟨fuel - 6, by omega⟩
  obtain ⟨l', hl1, hle⟩ := hl (f + 3) lev (tok tkOPERATOR (Expr.opText .between) p2 ::
    (tlo ++ tok tkOPERATOR (Expr.opText .kwAnd) p3 :: (thi ++ tok tkRPAREN [41] p4 :: rest)))
    (stop_op _ p2 _) (by omega) (by omega)
  obtain ⟨lo', hlo1, hloe⟩ := hlo (f + 1) (lev + 1) 4 (tok tkOPERATOR (Expr.opText .kwAnd) p3 ::
    (thi ++ tok tkRPAREN [41] p4 :: rest)) (stopB_and _ _) (by omega) (by omega)
  obtain ⟨hi', hhi1, hhie⟩ := hhi (f + 1) (lev + 1) 4 (tok tkRPAREN [41] p4 :: rest)
    (stopB_rp _ (by omega) _ _) (by omega) (by omega)
  refine ⟨.binop p2 .between l' (.list p2 [lo', hi']), f + 5, lev + 1, ?_,
    by simp [erasePos, erasePosList, hle, hloe, hhie],
    by simp only [List.length_cons, List.length_append, List.length_nil]; omega, by omega⟩
  rw [primary_succ]
  simp only [List.cons_append, List.append_assoc, List.nil_append]
  rw [operand_lparen, binary_succ, hl1]
  simp only [Res.bind_ok]
  rw [binaryLoop_op pf (f + 2) (by omega) 1 l' .between p2 _ (by decide)]
  simp only [show (Op.between == Op.in_) = false from rfl, show (Op.between == Op.between) = true from rfl,
    Bool.false_eq_true, if_false, if_true, show opPrec .between + 1 = 4 from rfl]
  rw [between_succ, hlo1]
  simp only [Res.bind_ok, expect_tok]
  rw [hhi1]
  simp only [Res.bind_ok, Res.pure_eq]
  rw [binaryLoop_stop' pf (by omega) (by omega) 1 _ (fun t ht => ((stopB_rp 1 (by omega) p4 rest) t ht).2.2)]
  simp only [Res.bind_ok, expect_tok, Res.pure_eq]

/-- `( L in ( items ) )` -/
theorem pok_in_list {l : Expr} {items : List Expr} {tl tj : Toks} (p0 q0 : Nat) (hl : UOK pf l tl)
    (hj : IOK pf items tj) (p1 p2 p3 p4 p5 : Nat) :
    POK pf (.binop p0 .in_ l (.list q0 items))
      (tok tkLPAREN [40] p1 :: (tl ++ tok tkOPERATOR (Expr.opText .in_) p2 ::
        ((tok tkLPAREN [40] p3 :: (tj ++ [tok tkRPAREN [41] p4])) ++ [tok tkRPAREN [41] p5]))) := by
  intro fuel lev rest hf hlev
  simp only [List.length_cons, List.length_append, List.length_nil] at hf
  obtain ⟨f, rfl⟩ : ∃ f, fuel = f + 6 := ⟨fuel - 6, by omega⟩
  obtain ⟨l', hl1, hle⟩ := hl (f + 3) lev (tok tkOPERATOR (Expr.opText .in_) p2 ::
    (tok tkLPAREN [40] p3 :: (tj ++ tok tkRPAREN [41] p4 :: tok tkRPAREN [41] p5 :: rest)))
    (stop_op _ p2 _) (by omega) (by omega)
  obtain ⟨es', hj1, hje⟩ := hj (f + 1) (lev + 1) false [] (tok tkRPAREN [41] p5 :: rest) p4 (by omega) (by omega)
  refine ⟨.binop p2 .in_ l' (.list p2 es'), f + 5, lev + 1, ?_,
    by simp [erasePos, hle, hje],
    by simp only [List.length_cons, List.length_append, List.length_nil]; omega, by omega⟩
  rw [primary_succ]
  simp only [List.cons_append, List.append_assoc, List.nil_append]
  rw [operand_lparen, binary_succ, hl1]
  simp only [Res.bind_ok]
  rw [binaryLoop_op pf (f + 2) (by omega) 1 l' .in_ p2 _ (by decide)]
  simp only [show (Op.in_ == Op.in_) = true from rfl, if_true, tok_tp, beq_self_eq_true]
  rw [list_succ, expect_tok]
  simp only [Res.bind_ok]
  rw [hj1]
  simp only [Res.bind_ok, List.nil_append, expect_tok, Res.pure_eq]
  rw [binaryLoop_stop' pf (by omega) (by omega) 1 _ (fun t ht => ((stopB_rp 1 (by omega) p5 rest) t ht).2.2)]
  simp only [Res.bind_ok, expect_tok, Res.pure_eq]

/-- `( L in R )` where the text of `R` does not start with `(` -/
theorem pok_in_other {l r : Expr} {tl tr : Toks} (p0 : Nat) (hl : UOK pf l tl) (hr : BOK pf r tr)
    (hfirst : ∃ t r', tr = t :: r' ∧ t.tp ≠ tkLPAREN) (p1 p2 p3 : Nat) :
    POK pf (.binop p0 .in_ l r)
      (tok tkLPAREN [40] p1 :: (tl ++ tok tkOPERATOR (Expr.opText .in_) p2 :: (tr ++ [tok tkRPAREN [41] p3]))) := by
  intro fuel lev rest hf hlev
  obtain ⟨t, r0, rfl, ht⟩ := hfirst
  simp only [List.length_cons, List.length_append, List.length_nil] at hf
  obtain ⟨f, rfl⟩ : ∃ f, fuel = f + 5 := ⟨fuel - 5, by omega⟩
  obtain ⟨l', hl1, hle⟩ := hl (f + 2) lev (tok tkOPERATOR (Expr.opText .in_) p2 ::
    (t :: (r0 ++ tok tkRPAREN [41] p3 :: rest))) (stop_op _ p2 _) (by omega) (by omega)
  obtain ⟨r', hr1, hre⟩ := hr (f + 1) (lev + 1) 4 (tok tkRPAREN [41] p3 :: rest)
    (stopB_rp _ (by omega) _ _) (by simp only [List.length_cons]; omega) (by omega)
  refine ⟨.binop p2 .in_ l' r', f + 4, lev + 1, ?_, by simp [erasePos, hle, hre],
    by simp only [List.length_cons, List.length_append, List.length_nil]; omega, by omega⟩
  rw [primary_succ]
  simp only [List.cons_append, List.append_assoc, List.nil_append]
  rw [operand_lparen, binary_succ, hl1]
  simp only [Res.bind_ok]
  rw [binaryLoop_op pf (f + 1) (by omega) 1 l' .in_ p2 _ (by decide)]
  have ht' : (t.tp == tkLPAREN) = false := by simpa using ht
  simp only [show (Op.in_ == Op.in_) = true from rfl, if_true, List.cons_append, ht', Bool.false_eq_true,
    if_false, show opPrec .in_ + 1 = 4 from rfl]
  simp only [List.cons_append] at hr1
  rw [hr1]
  simp only [Res.bind_ok]
  rw [binaryLoop_stop' pf (by omega) (by omega) 1 _ (fun t ht => ((stopB_rp 1 (by omega) p3 rest) t ht).2.2)]
  simp only [Res.bind_ok, expect_tok, Res.pure_eq]

/-- `!( R )` -/
theorem uok_not {r : Expr} {tr : Toks} (p0 : Nat) (hr : BOK pf r tr) (p1 p2 p3 : Nat) :
    UOK pf (.not p0 r) (tok tkOPERATOR [33] p1 :: tok tkLPAREN [40] p2 :: (tr ++ [tok tkRPAREN [41] p3])) := by
  intro fuel lev rest hstop hf hlev
  simp only [List.length_cons, List.length_append, List.length_nil] at hf
  obtain ⟨f, rfl⟩ : ∃ f, fuel = f + 5 := ⟨fuel - 5, by omega⟩
  obtain ⟨r', hr1, hre⟩ := hr (f + 1) (lev + 2) 1 (tok tkRPAREN [41] p3 :: rest)
    (stopB_rp _ (by omega) _ _) (by omega) (by omega)
  refine ⟨.not p1 r', ?_, by simp [erasePos, hre]⟩
  have hbang : ((tok tkOPERATOR [33] p1).tp == tkOPERATOR && (tok tkOPERATOR [33] p1).str == "!") = true := by
    simp only [tok_tp, str_tok]; decide
  have hnb : ((tok tkLPAREN [40] p2).tp == tkOPERATOR && (tok tkLPAREN [40] p2).str == "!") = false := by
    simp only [tok_tp, str_tok]; decide
  conv => lhs; unfold parseUnaryExpr
  simp only [List.cons_append, hbang, if_true]
  conv => lhs; unfold parseUnaryExpr
  simp only [hnb, Bool.false_eq_true, if_false]
  rw [primary_succ, operand_lparen]
  simp only [List.append_assoc, List.cons_append, List.nil_append]
  rw [hr1]
  simp only [Res.bind_ok, expect_tok, Res.pure_eq]
  rw [primaryLoop_stop' pf (by omega) _ _ hstop]
  rfl

/-! ### calls, indexing, item lists -/

theorem primaryLoop_call (f lev : Nat) (x : Expr) (d : Bytes) (p : Nat) (ts : Toks)
    (hx : x.calleeAtomic = true) :
    primaryLoop pf (f + 1) lev x (tok tkLPAREN d p :: ts) =
      (parseFuncCall pf f lev x (tok tkLPAREN d p :: ts) >>= fun r => primaryLoop pf f (lev + 1) r.1 r.2) := by
  conv => lhs; unfold primaryLoop
  simp only [tok_tp, beq_self_eq_true, if_true, hx, Bool.not_true, Bool.false_eq_true, if_false]

theorem primaryLoop_index (f lev : Nat) (x : Expr) (d : Bytes) (p : Nat) (ts : Toks) :
    primaryLoop pf (f + 1) lev x (tok tkLBRACK d p :: ts) =
      (parseFieldAccess pf f lev p x (tok tkLBRACK d p :: ts) >>= fun r =>
        primaryLoop pf f (lev + 1) r.1 r.2) := by
  conv => lhs; unfold primaryLoop
  simp only [tok_tp, show (tkLBRACK == tkLPAREN) = false from rfl, Bool.false_eq_true, if_false,
    beq_self_eq_true, if_true]
  rfl

/-- the first token of a token list satisfies `P` -/
def Head (P : Token → Prop) (ts : Toks) : Prop := ∃ t r, ts = t :: r ∧ P t

theorem iok_nil : IOK pf [] [] := by
  intro fuel lev strict acc rest p hf _
  obtain ⟨f, rfl⟩ : ∃ f, fuel = f + 1 := ⟨fuel - 1, by omega⟩
  refine ⟨[], ?_, rfl⟩
  unfold parseItems
  simp [tok_tp]

theorem stopB_sep (p : Nat) (rest : Toks) : StopB 1 (tok tkSEP [44] p :: rest) :=
  stopB_cons (by decide) (by decide) (Or.inl (by decide)) (by omega)

theorem iok_one {e : Expr} {te : Toks} (he : BOK pf e te) (hh : Head (fun t => t.tp ≠ tkRPAREN) te) :
    IOK pf [e] te := by
  intro fuel lev strict acc rest p hf hlev
  obtain ⟨t, r, rfl, ht⟩ := hh
  obtain ⟨f, rfl⟩ : ∃ f, fuel = f + 1 := ⟨fuel - 1, by omega⟩
  obtain ⟨e', he1, hee⟩ := he f lev 1 (tok tkRPAREN [41] p :: rest) (stopB_rp 1 (by omega) p rest)
    (by omega) (by omega)
  refine ⟨[e'], ?_, by simp [erasePosList, hee]⟩
  conv => lhs; unfold parseItems
  have ht' : (t.tp == tkRPAREN) = false := by simpa using ht
  simp only [List.cons_append, ht', Bool.false_eq_true, if_false]
  simp only [List.cons_append] at he1
  rw [he1]
  simp [tok_tp]

theorem iok_cons {e e2 : Expr} {es : List Expr} {te tj : Toks} (he : BOK pf e te)
    (hh : Head (fun t => t.tp ≠ tkRPAREN) te) (hj : IOK pf (e2 :: es) tj) (ps : Nat) :
    IOK pf (e :: e2 :: es) (te ++ tok tkSEP [44] ps :: tj) := by
  intro fuel lev strict acc rest p hf hlev
  obtain ⟨t, r, rfl, ht⟩ := hh
  simp only [List.length_cons, List.length_append] at hf
  obtain ⟨f, rfl⟩ : ∃ f, fuel = f + 1 := ⟨fuel - 1, by omega⟩
  obtain ⟨e', he1, hee⟩ := he f lev 1 (tok tkSEP [44] ps :: (tj ++ tok tkRPAREN [41] p :: rest))
    (stopB_sep ps _) (by simp only [List.length_cons]; omega) (by omega)
  obtain ⟨es', hj1, hje⟩ := hj f lev strict (acc ++ [e']) rest p (by omega) (by omega)
  refine ⟨e' :: es', ?_, by simp [erasePosList, hee, hje]⟩
  conv => lhs; unfold parseItems
  have ht' : (t.tp == tkRPAREN) = false := by simpa using ht
  simp only [List.cons_append, List.append_assoc, ht', Bool.false_eq_true, if_false]
  simp only [List.cons_append] at he1
  rw [he1]
  have hs : (tok tkSEP [44] ps).str = "," := by simp only [str_tok]; decide
  simp only [Res.bind_ok, tok_tp, show (tkSEP == tkRPAREN) = false from rfl, Bool.false_eq_true, if_false, hs,
    beq_self_eq_true, Bool.and_self, Bool.not_true, Bool.and_false]
  rw [hj1]
  simp

/-- `N( args )` -/
theorem pok_call {n : Expr} {args : List Expr} {tn tj : Toks} (p0 : Nat) (hn : POK pf n tn)
    (hat : n.calleeAtomic = true) (hj : IOK pf args tj) (p1 p2 : Nat) :
    POK pf (.call p0 n args) (tn ++ tok tkLPAREN [40] p1 :: (tj ++ [tok tkRPAREN [41] p2])) := by
  intro fuel lev rest hf hlev
  simp only [List.length_cons, List.length_append, List.length_nil] at hf
  obtain ⟨n', fuel', lev', heq, hne, hf', hl'⟩ :=
    hn fuel lev (tok tkLPAREN [40] p1 :: (tj ++ tok tkRPAREN [41] p2 :: rest)) (by omega) hlev
  obtain ⟨k, rfl⟩ : ∃ k, fuel' = k + 2 := ⟨fuel' - 2, by omega⟩
  obtain ⟨es', hj1, hje⟩ := hj k lev' true [] rest p2 (by omega) (by omega)
  have hat' : n'.calleeAtomic = true := by rw [calleeAtomic_erase hne]; exact hat
  refine ⟨.call n'.pos n' es', k + 1, lev' + 1, ?_, by simp [erasePos, hne, hje],
    by simp only [List.length_cons, List.length_append, List.length_nil]; omega, by omega⟩
  simp only [List.append_assoc, List.cons_append, List.nil_append]
  rw [heq, primaryLoop_call pf (k + 1) lev' n' _ _ _ hat', call_succ, expect_tok]
  simp only [Res.bind_ok]
  rw [hj1]
  simp only [Res.bind_ok, List.nil_append, expect_tok, Res.pure_eq]

/-- `L[ F ]` -/
theorem pok_access {l f : Expr} {tl tf : Toks} (p0 : Nat) (hl : POK pf l tl) (hf : BOK pf f tf)
    (hh : Head (fun t => t.tp ≠ tkRBRACK) tf) (p1 p2 : Nat) :
    POK pf (.access p0 l f) (tl ++ tok tkLBRACK [91] p1 :: (tf ++ [tok tkRBRACK [93] p2])) := by
  intro fuel lev rest hfu hlev
  obtain ⟨t, r, rfl, ht⟩ := hh
  simp only [List.length_cons, List.length_append, List.length_nil] at hfu
  obtain ⟨l', fuel', lev', heq, hle, hf', hl'⟩ :=
    hl fuel lev (tok tkLBRACK [91] p1 :: (t :: (r ++ tok tkRBRACK [93] p2 :: rest))) (by omega) hlev
  obtain ⟨k, rfl⟩ : ∃ k, fuel' = k + 3 := ⟨fuel' - 3, by omega⟩
  obtain ⟨f', hf1, hfe⟩ := hf k lev' 1 (tok tkRBRACK [93] p2 :: rest)
    (stopB_cons (by decide) (by decide) (Or.inl (by decide)) (by omega))
    (by simp only [List.length_cons]; omega) (by omega)
  refine ⟨.access p1 l' f', k + 2, lev' + 1, ?_, by simp [erasePos, hle, hfe],
    by simp only [List.length_cons, List.length_append, List.length_nil]; omega, by omega⟩
  simp only [List.append_assoc, List.cons_append, List.nil_append]
  rw [heq, primaryLoop_index]
  conv => lhs; unfold parseFieldAccess
  rw [expect_tok]
  simp only [Res.bind_ok]
  conv => lhs; unfold parseItems
  have ht' : (t.tp == tkRBRACK) = false := by simpa using ht
  simp only [ht', Bool.false_eq_true, if_false]
  simp only [List.cons_append] at hf1
  rw [hf1]
  simp [tok_tp, expect_tok]

/-! ### single-token operands -/

theorem operand_name (f lev : Nat) (d : Bytes) (p : Nat) (rest : Toks) :
    parseOperand pf (f + 1) lev (tok tkNAME d p :: rest) = .ok (.name p d, rest) := by
  conv => lhs; unfold parseOperand
  simp [tok, tkNAME, tkKEY, tkVALUE, tkSTRING, tkLPAREN]
theorem operand_key (f lev : Nat) (d : Bytes) (p : Nat) (rest : Toks) :
    parseOperand pf (f + 1) lev (tok tkKEY d p :: rest) = .ok (.field p .key, rest) := by
  conv => lhs; unfold parseOperand
  simp [tok]
theorem operand_value (f lev : Nat) (d : Bytes) (p : Nat) (rest : Toks) :
    parseOperand pf (f + 1) lev (tok tkVALUE d p :: rest) = .ok (.field p .value, rest) := by
  conv => lhs; unfold parseOperand
  simp [tok, tkVALUE, tkKEY]
theorem operand_str (f lev : Nat) (d : Bytes) (p : Nat) (rest : Toks) :
    parseOperand pf (f + 1) lev (tok tkSTRING d p :: rest) = .ok (.str p d, rest) := by
  conv => lhs; unfold parseOperand
  simp [tok, tkVALUE, tkKEY, tkSTRING]
theorem operand_num (f lev : Nat) (d : Bytes) (p : Nat) (rest : Toks) :
    parseOperand pf (f + 1) lev (tok tkNUMBER d p :: rest) = .ok (Expr.newNumber p d, rest) := by
  conv => lhs; unfold parseOperand
  simp [tok, tkVALUE, tkKEY, tkSTRING, tkNUMBER, tkLPAREN, tkNAME]
theorem operand_float (f lev : Nat) (d : Bytes) (p : Nat) (rest : Toks) :
    parseOperand pf (f + 1) lev (tok tkFLOAT d p :: rest) = .ok (.float p d (pf d), rest) := by
  conv => lhs; unfold parseOperand
  simp [tok, tkVALUE, tkKEY, tkSTRING, tkNUMBER, tkLPAREN, tkNAME, tkFLOAT]
theorem operand_true (f lev : Nat) (d : Bytes) (p : Nat) (rest : Toks) :
    parseOperand pf (f + 1) lev (tok tkTRUE d p :: rest) = .ok (.bool p d true, rest) := by
  conv => lhs; unfold parseOperand
  simp [tok, tkVALUE, tkKEY, tkSTRING, tkNUMBER, tkLPAREN, tkNAME, tkFLOAT, tkTRUE]
theorem operand_false (f lev : Nat) (d : Bytes) (p : Nat) (rest : Toks) :
    parseOperand pf (f + 1) lev (tok tkFALSE d p :: rest) = .ok (.bool p d false, rest) := by
  conv => lhs; unfold parseOperand
  simp [tok, tkVALUE, tkKEY, tkSTRING, tkNUMBER, tkLPAREN, tkNAME, tkFLOAT, tkTRUE, tkFALSE]

end Kvql.Proofs.PrintParse
