/-
  RunNoPanic, part 10a: batch mode with a field list, cache off — the common specification of the two
  sides of `Run.projTrace` when the evaluation of a chunk may FAIL (`pollLoopE`, `pollsOfE`: take inner
  chunks until `PlanBatchSize` pairs are accepted, give up the whole `Batch` call at the first chunk whose
  filter fails), and the EVALUATION side (`Project.drainBatchFuel` from `Ctx.off`) against it (`Lock`).
-/
import Kvql.Proofs.RunNoPanicBase
import Kvql.Proofs.RunNoPanicVec
import Kvql.Proofs.RunFieldsBatchThms

namespace Kvql.Proofs.RunNoPanic.LockBatch

open Kvql Kvql.Run Kvql.Project Kvql.Cache

/-- an evaluation failure that is reported as an error value -/
def PBenign (e : Project.PErr) : Prop := ∃ cls, perrFail e = .exec cls

/-- the verdict of the filter on one (non-empty) inner chunk -/
abbrev ChunkV := List SPair → Except Project.PErr (List Bool)

/-- one `Batch` call of a scan: take inner chunks until `bs` pairs are accepted (or the chunks are used up);
    a chunk whose filter fails ends the call with that failure -/
def pollLoopE (bs : Nat) (V : ChunkV) : List (List SPair) → List SPair → Except Project.PErr (List SPair × List (List SPair))
  | [], acc => .ok (acc, [])
  | c :: rest, acc =>
    if c.isEmpty then pollLoopE bs V rest acc
    else
      match V c with
      | .error e => .error e
      | .ok ms =>
        if (acc ++ Plans.selectMatches c ms).length ≥ bs then .ok (acc ++ Plans.selectMatches c ms, rest)
        else pollLoopE bs V rest (acc ++ Plans.selectMatches c ms)

/-- the `Batch` calls of a drain: until one returns nothing or fails -/
def pollsOfE (bs : Nat) (V : ChunkV) : Nat → List (List SPair) → List (List SPair) × Option Project.PErr
  | 0, _ => ([], none)
  | n + 1, chunks =>
    match pollLoopE bs V chunks [] with
    | .error e => ([], some e)
    | .ok ([], _) => ([], none)
    | .ok (x :: xs, rest) => ((x :: xs) :: (pollsOfE bs V n rest).1, (pollsOfE bs V n rest).2)

theorem pollLoopE_rest_length (bs : Nat) (V : ChunkV) : ∀ (chunks : List (List SPair)) (acc X : List SPair)
    (R : List (List SPair)), pollLoopE bs V chunks acc = .ok (X, R) → R.length ≤ chunks.length
  | [], acc, X, R, h => by simp [pollLoopE] at h; simp [h.2.symm]
  | c :: rest, acc, X, R, h => by
    rw [pollLoopE] at h
    split at h
    · have := pollLoopE_rest_length bs V rest acc X R h
      simp only [List.length_cons]; omega
    · split at h
      · cases h
      · split at h
        · simp only [Except.ok.injEq, Prod.mk.injEq] at h
          simp [h.2.symm]
        · have := pollLoopE_rest_length bs V rest _ X R h
          simp only [List.length_cons]; omega

theorem pollLoopE_rest_mem (bs : Nat) (V : ChunkV) : ∀ (chunks : List (List SPair)) (acc X : List SPair)
    (R : List (List SPair)), pollLoopE bs V chunks acc = .ok (X, R) → ∀ c ∈ R, c ∈ chunks
  | [], acc, X, R, h => by simp [pollLoopE] at h; simp [h.2.symm]
  | c :: rest, acc, X, R, h => by
    rw [pollLoopE] at h
    split at h
    · exact fun c' hc' => List.mem_cons_of_mem _ (pollLoopE_rest_mem bs V rest acc X R h c' hc')
    · split at h
      · cases h
      · split at h
        · simp only [Except.ok.injEq, Prod.mk.injEq] at h
          rw [← h.2]
          exact fun c' hc' => List.mem_cons_of_mem _ hc'
        · exact fun c' hc' => List.mem_cons_of_mem _ (pollLoopE_rest_mem bs V rest _ X R h c' hc')

/-- a `Batch` call that accepts more pairs than it started with uses up at least one inner chunk -/
theorem pollLoopE_consumes (bs : Nat) (V : ChunkV) : ∀ (chunks : List (List SPair)) (acc X : List SPair)
    (R : List (List SPair)), pollLoopE bs V chunks acc = .ok (X, R) → X ≠ acc → R.length < chunks.length
  | [], acc, X, R, h, hne => by simp [pollLoopE] at h; exact absurd h.1.symm hne
  | c :: rest, acc, X, R, h, hne => by
    rw [pollLoopE] at h
    split at h
    · have := pollLoopE_consumes bs V rest acc X R h hne
      simp only [List.length_cons]; omega
    · split at h
      · cases h
      · split at h
        · simp only [Except.ok.injEq, Prod.mk.injEq] at h
          simp [h.2.symm]
        · have := pollLoopE_rest_length bs V rest _ X R h
          simp only [List.length_cons]; omega

/-- the failure of a `Batch` call is the failure of one of its non-empty inner chunks -/
theorem pollLoopE_error_mem (bs : Nat) (V : ChunkV) : ∀ (chunks : List (List SPair)) (acc : List SPair) (e : Project.PErr),
    pollLoopE bs V chunks acc = .error e → ∃ c ∈ chunks, c ≠ [] ∧ V c = .error e
  | [], acc, e, h => by simp [pollLoopE] at h
  | c :: rest, acc, e, h => by
    rw [pollLoopE] at h
    split at h
    · obtain ⟨c', h1, h2⟩ := pollLoopE_error_mem bs V rest acc e h
      exact ⟨c', List.mem_cons_of_mem _ h1, h2⟩
    · rename_i hce
      split at h
      · rename_i e' he'
        simp only [Except.error.injEq] at h
        subst h
        exact ⟨c, List.mem_cons_self, by intro h; subst h; simp at hce, he'⟩
      · split at h
        · cases h
        · obtain ⟨c', h1, h2⟩ := pollLoopE_error_mem bs V rest _ e h
          exact ⟨c', List.mem_cons_of_mem _ h1, h2⟩

/-- with enough fuel the `Batch` calls of a drain do not depend on the fuel -/
theorem pollsOfE_fuel (bs : Nat) (V : ChunkV) : ∀ (n m : Nat) (chunks : List (List SPair)),
    chunks.length < n → chunks.length < m → pollsOfE bs V n chunks = pollsOfE bs V m chunks
  | 0, _, _, h, _ => by omega
  | _, 0, _, _, h => by omega
  | n + 1, m + 1, chunks, hn, hm => by
    rw [pollsOfE, pollsOfE]
    cases hp : pollLoopE bs V chunks [] with
    | error e => rfl
    | ok r =>
      obtain ⟨X, rest⟩ := r
      cases X with
      | nil => rfl
      | cons x xs =>
        simp only
        have hc := pollLoopE_consumes bs V chunks [] _ _ hp (by simp)
        rw [pollsOfE_fuel bs V n m rest (by omega) (by omega)]

theorem pollsOfE_error_mem (bs : Nat) (V : ChunkV) : ∀ (n : Nat) (chunks : List (List SPair)) (e : Project.PErr),
    (pollsOfE bs V n chunks).2 = some e → ∃ c ∈ chunks, c ≠ [] ∧ V c = .error e
  | 0, _, e, h => by simp [pollsOfE] at h
  | n + 1, chunks, e, h => by
    rw [pollsOfE] at h
    cases hp : pollLoopE bs V chunks [] with
    | error e' =>
      rw [hp] at h
      simp only [Option.some.injEq] at h
      subst h
      exact pollLoopE_error_mem bs V chunks [] _ hp
    | ok r =>
      obtain ⟨X, rest⟩ := r
      rw [hp] at h
      cases X with
      | nil => simp at h
      | cons x xs =>
        simp only at h
        obtain ⟨c, h1, h2⟩ := pollsOfE_error_mem bs V n rest e h
        exact ⟨c, pollLoopE_rest_mem bs V chunks [] _ _ hp c h1, h2⟩

theorem pollsOfE_nil (bs : Nat) (V : ChunkV) : ∀ n, pollsOfE bs V n [] = ([], none)
  | 0 => rfl
  | n + 1 => by simp [pollsOfE, pollLoopE]

/-! ### the evaluation side, from `Ctx.off` -/

/-- the verdict of `FilterExec.FilterBatch` on an inner chunk, field cache off -/
def cvOf (w : Expr) : ChunkV := fun c => (Project.filterChunk w (c.map toKv) Ctx.off).1

theorem pbenign_eval {e : Err} (h : e.isPanic = false ∧ e ≠ .outOfFuel) : PBenign (.eval e) := by
  obtain ⟨h1, h2⟩ := h
  cases e with
  | panic s => simp [Err.isPanic] at h1
  | outOfFuel => exact absurd rfl h2
  | _ => exact ⟨_, rfl⟩

theorem pbenign_whereNotBool : PBenign .whereNotBool := ⟨_, rfl⟩

/-- `FilterBatch` on a non-empty chunk from `Ctx.off`: as many Booleans as pairs and the context untouched, or
    a failure that is an error value -/
theorem filterChunk_facts (w : Expr) (hw : w.wf = true) (ch : List Kvql.Pair) (hne : ch ≠ []) :
    (∀ ms, (Project.filterChunk w ch Ctx.off).1 = .ok ms →
      Project.filterChunk w ch Ctx.off = (.ok ms, Ctx.off) ∧ ms.length = ch.length) ∧
    (∀ e, (Project.filterChunk w ch Ctx.off).1 = .error e → PBenign e) := by
  have safe := (execBatch_safe w hw ch Ctx.off (fun _ => hne) (colsLen_new false _)).1
  unfold Project.filterChunk
  rcases hx : execBatch w ch Ctx.off with ⟨r, c1⟩
  rw [hx] at safe
  cases r with
  | error err =>
    refine ⟨fun ms h => (by cases h), fun e h => ?_⟩
    simp only [Except.error.injEq] at h
    subst h
    exact pbenign_eval safe
  | ok vs =>
    simp only at safe
    have hctx := Kvql.Proofs.C03.batch_ok_ctx w Ctx.off rfl ch hne (vs := vs) (by rw [hx])
    rw [hx] at hctx
    have hc1 : c1 = Ctx.off := by
      have := congrArg Prod.snd hctx
      exact this
    subst hc1
    simp only
    cases hm : vs.mapM boolOf? with
    | none =>
      refine ⟨fun ms h => (by cases h), fun e h => ?_⟩
      simp only [Except.error.injEq] at h
      subst h
      exact pbenign_whereNotBool
    | some ms0 =>
      refine ⟨fun ms h => ?_, fun e h => by cases h⟩
      simp only [Except.ok.injEq] at h
      subst h
      exact ⟨rfl, by rw [mapM_boolOf_length hm, safe]⟩

theorem cvOf_len {w : Expr} (hw : w.wf = true) {c : List SPair} (hne : c ≠ []) {ms : List Bool}
    (h : cvOf w c = .ok ms) : ms.length = c.length := by
  have := ((filterChunk_facts w hw (c.map toKv) (by simpa using hne)).1 ms h).2
  simpa using this

theorem cvOf_benign {w : Expr} (hw : w.wf = true) {c : List SPair} (hne : c ≠ []) {e : Project.PErr}
    (h : cvOf w c = .error e) : PBenign e :=
  (filterChunk_facts w hw (c.map toKv) (by simpa using hne)).2 e h

theorem maskFilter_selectMatches : ∀ (ms : List Bool) (c : List SPair),
    maskFilter ms (c.map toKv) = (Plans.selectMatches c ms).map toKv
  | [], [] => rfl
  | [], _ :: _ => rfl
  | b :: _, [] => by cases b <;> rfl
  | true :: ms, p :: ps => by
    simp [maskFilter, Plans.selectMatches, maskFilter_selectMatches ms ps]
  | false :: ms, p :: ps => by
    simp [maskFilter, Plans.selectMatches, maskFilter_selectMatches ms ps]

/-- the chunk loop of a scan's `Batch` on the evaluation side computes `pollLoopE` -/
theorem scanBatchLoop_poll {w : Expr} (hw : w.wf = true) {bs : Nat} :
    ∀ (chunks : List (List SPair)) (s : Sel) (acc : List SPair), s.ret = acc.map toKv →
    (∀ e, pollLoopE bs (cvOf w) chunks acc = .error e →
      ∃ c1, scanBatchLoop w bs (chunks.map (·.map toKv)) s Ctx.off = (.error e, c1)) ∧
    (∀ X R, pollLoopE bs (cvOf w) chunks acc = .ok (X, R) →
      ∃ s', scanBatchLoop w bs (chunks.map (·.map toKv)) s Ctx.off = (.ok (s', R.map (·.map toKv)), Ctx.off) ∧
        s'.ret = X.map toKv)
  | [], s, acc, hs => by
    refine ⟨fun e h => by simp [pollLoopE] at h, fun X R h => ?_⟩
    simp only [pollLoopE, Except.ok.injEq, Prod.mk.injEq] at h
    obtain ⟨rfl, rfl⟩ := h
    exact ⟨s, by simp [scanBatchLoop], hs⟩
  | [] :: rest, s, acc, hs => by
    have ih := scanBatchLoop_poll hw (bs := bs) rest s acc hs
    rw [pollLoopE]
    simp only [List.isEmpty_nil, if_true, List.map_cons, List.map_nil, scanBatchLoop]
    exact ih
  | (p :: ps) :: rest, s, acc, hs => by
    have hmap : ((p :: ps) :: rest).map (·.map toKv) = (toKv p :: ps.map toKv) :: rest.map (·.map toKv) := rfl
    have hc : (p :: ps).map toKv = toKv p :: ps.map toKv := rfl
    obtain ⟨f1, f2⟩ := filterChunk_facts w hw ((p :: ps).map toKv) (by simp)
    rw [hmap, scanBatchLoop, ← hc, pollLoopE]
    simp only [List.isEmpty_cons, Bool.false_eq_true, if_false]
    cases hv : cvOf w (p :: ps) with
    | error e' =>
      simp only
      have hfc : ∃ c1, Project.filterChunk w ((p :: ps).map toKv) Ctx.off = (.error e', c1) := by
        unfold cvOf at hv
        rcases hx : Project.filterChunk w ((p :: ps).map toKv) Ctx.off with ⟨r, c1⟩
        rw [hx] at hv
        simp only at hv
        subst hv
        exact ⟨c1, rfl⟩
      obtain ⟨c1, hfc⟩ := hfc
      refine ⟨fun e h => ?_, fun X R h => by cases h⟩
      simp only [Except.error.injEq] at h
      subst h
      exact ⟨c1, by rw [hfc]⟩
    | ok ms =>
      simp only
      obtain ⟨hfc, hlen⟩ := f1 ms hv
      rw [hfc]
      simp only
      rw [selectLoop_spec ms ((p :: ps).map toKv) s hlen, maskFilter_selectMatches]
      simp only
      have hret : (s.ret ++ (Plans.selectMatches (p :: ps) ms).map toKv).length =
          (acc ++ Plans.selectMatches (p :: ps) ms).length := by rw [hs]; simp
      by_cases hge : (acc ++ Plans.selectMatches (p :: ps) ms).length ≥ bs
      · simp only [hge, if_true, hret]
        refine ⟨fun e h => (by cases h), fun X R h => ?_⟩
        simp only [Except.ok.injEq, Prod.mk.injEq] at h
        obtain ⟨rfl, rfl⟩ := h
        exact ⟨_, rfl, by simp [hs]⟩
      · simp only [hge, if_false, hret]
        exact scanBatchLoop_poll hw rest _ (acc ++ Plans.selectMatches (p :: ps) ms) (by simp [hs])

/-! #### the projection of the accepted pairs -/

theorem fieldCol_off_eq (seen : List Bytes) (f : Field) (ch : List Kvql.Pair) :
    fieldCol seen f ch Ctx.off = ((execBatch f.expr ch Ctx.none).1, Ctx.off) := by
  unfold fieldCol
  have : (if seen.contains f.name = true then none else Ctx.off.getChunkFieldFinalResult f.name) = none := by
    split <;> rfl
  rw [this]

/-- `processProjectionBatch`, first loop, from `Ctx.off`: one column per field, each as long as the chunk, or a
    failure that is an error value; the context stays `Ctx.off` -/
theorem projectColsFrom_off_safe : ∀ (seen : List Bytes) (fields : List Field), (∀ fld ∈ fields, fld.expr.wf = true) →
    ∀ (ch : List Kvql.Pair),
    (∃ pe, projectColsFrom seen fields ch Ctx.off = (.error pe, Ctx.off) ∧ PBenign pe) ∨
    (∃ cols, projectColsFrom seen fields ch Ctx.off = (.ok cols, Ctx.off) ∧ cols.length = fields.length ∧
      ∀ col ∈ cols, col.length = ch.length)
  | _, [], _, _ => .inr ⟨[], rfl, rfl, by simp⟩
  | seen, f :: fs, hf, ch => by
    have safe := (execBatch_safe f.expr (hf f List.mem_cons_self) ch Ctx.none (fun h => by cases h)
      (colsLen_none _)).1
    rw [projectColsFrom, fieldCol_off_eq]
    cases hx : (execBatch f.expr ch Ctx.none).1 with
    | error err =>
      rw [hx] at safe
      exact .inl ⟨_, rfl, pbenign_eval safe⟩
    | ok col =>
      rw [hx] at safe
      simp only at safe ⊢
      rcases projectColsFrom_off_safe (seen ++ [f.name]) fs (fun g hg => hf g (List.mem_cons_of_mem _ hg)) ch with
        ⟨pe, h1, h2⟩ | ⟨cols, h1, h2, h3⟩
      · rw [h1]; exact .inl ⟨pe, rfl, h2⟩
      · rw [h1]
        refine .inr ⟨col :: cols, rfl, by simp [h2], ?_⟩
        intro c hc
        rcases List.mem_cons.mp hc with rfl | hc
        · exact safe
        · exact h3 c hc

theorem mapM_option_length {α β : Type} {f : α → Option β} : ∀ {l : List α} {r : List β}, l.mapM f = some r →
    r.length = l.length
  | [], r, h => by simp at h; subst h; rfl
  | a :: l, r, h => by
    simp only [List.mapM_cons, Option.bind_eq_bind, Option.bind_eq_some_iff] at h
    obtain ⟨b, _, rest, hr, he⟩ := h
    simp at he; subst he
    simp [mapM_option_length hr]

theorem mapM_option_mem {α β : Type} {f : α → Option β} : ∀ {l : List α} {r : List β}, l.mapM f = some r →
    ∀ b ∈ r, ∃ a ∈ l, f a = some b
  | [], r, h => by simp at h; subst h; simp
  | a :: l, r, h => by
    simp only [List.mapM_cons, Option.bind_eq_bind, Option.bind_eq_some_iff] at h
    obtain ⟨b, hb, rest, hr, he⟩ := h
    simp at he; subst he
    intro x hx
    rcases List.mem_cons.mp hx with rfl | hx
    · exact ⟨a, List.mem_cons_self, hb⟩
    · obtain ⟨a', h1, h2⟩ := mapM_option_mem hr x hx
      exact ⟨a', List.mem_cons_of_mem _ h1, h2⟩

/-- the transposition: `n` rows, one value per column -/
theorem rowsOfCols_shape' {n : Nat} {cols : List (List Value)} {rows : List Row} (h : rowsOfCols n cols = .ok rows) :
    rows.length = n ∧ ∀ r ∈ rows, r.length = cols.length := by
  unfold rowsOfCols at h
  cases hm : (List.range n).mapM (fun i => cols.mapM (fun col => col[i]?)) with
  | none => rw [hm] at h; cases h
  | some rs =>
    rw [hm] at h
    simp only [Except.ok.injEq] at h
    subst h
    refine ⟨by rw [mapM_option_length hm, List.length_range], fun r hr => ?_⟩
    obtain ⟨i, _, hi⟩ := mapM_option_mem hm r hr
    exact mapM_option_length hi

/-- one `Batch` call of the projection from `Ctx.off` against `pollLoopE` -/
theorem nextBatch_poll {w : Expr} (hw : w.wf = true) {fields : List Field} (hf : ∀ fld ∈ fields, fld.expr.wf = true)
    {bs : Nat} (chunks : List (List SPair)) :
    (∀ e, pollLoopE bs (cvOf w) chunks [] = .error e →
      ∃ c1, nextBatch w fields bs (chunks.map (·.map toKv)) Ctx.off = (.error e, c1)) ∧
    (∀ X R, pollLoopE bs (cvOf w) chunks [] = .ok (X, R) →
      (X = [] ∧ nextBatch w fields bs (chunks.map (·.map toKv)) Ctx.off = (.ok ([], R.map (·.map toKv)), Ctx.off)) ∨
      (X ≠ [] ∧ ∃ pe c1, nextBatch w fields bs (chunks.map (·.map toKv)) Ctx.off = (.error pe, c1) ∧ PBenign pe) ∨
      (X ≠ [] ∧ ∃ rows, nextBatch w fields bs (chunks.map (·.map toKv)) Ctx.off =
          (.ok (rows, R.map (·.map toKv)), Ctx.off) ∧ rows.length = X.length ∧ ∀ r ∈ rows, r.length = fields.length)) := by
  obtain ⟨g1, g2⟩ := scanBatchLoop_poll hw (bs := bs) chunks {} [] rfl
  have hclear : Ctx.off.clear = Ctx.off := rfl
  refine ⟨fun e h => ?_, fun X R h => ?_⟩
  · obtain ⟨c1, h1⟩ := g1 e h
    exact ⟨c1, by unfold nextBatch scanBatch; rw [hclear, h1]⟩
  · obtain ⟨s', h1, h2⟩ := g2 X R h
    have hadj : Ctx.off.adjustChunkCache s'.choose = Ctx.off := rfl
    unfold nextBatch scanBatch
    rw [hclear, h1]
    simp only [hadj, h2]
    cases X with
    | nil => exact .inl ⟨rfl, rfl⟩
    | cons x xs =>
      simp only [List.map_cons]
      unfold projectCols
      rcases projectColsFrom_off_safe [] fields hf (toKv x :: xs.map toKv) with ⟨pe, p1, p2⟩ | ⟨cols, p1, p2, p3⟩
      · rw [p1]
        exact .inr (.inl ⟨by simp, pe, Ctx.off, rfl, p2⟩)
      · rw [p1]
        simp only
        obtain ⟨rows, hr⟩ := Kvql.Proofs.RunFields.rowsOfCols_ok (toKv x :: xs.map toKv).length cols p3
        rw [hr]
        obtain ⟨q1, q2⟩ := rowsOfCols_shape' hr
        exact .inr (.inr ⟨by simp, rows, rfl, by simpa using q1, fun r hr' => by rw [q2 r hr', p2]⟩)

/-! #### the drain -/

/-- the `Batch` calls of the storage side (`P`, terminal failure `e`) against those of the evaluation side
    (`bsz`, terminal failure `err`): the same number of rows call by call; both fail in the same call at a
    chunk, or the evaluation side fails projecting a call's accepted pairs, or none fails -/
inductive Lock (nf : Nat) : List (List SPair) → Option Project.PErr → List (List Row) → Option Project.PErr → Prop
  | done : Lock nf [] none [] none
  | scanErr (e : Project.PErr) : PBenign e → Lock nf [] (some e) [] (some e)
  | projErr (X : List SPair) (P : List (List SPair)) (e : Option Project.PErr) (pe : Project.PErr) :
      PBenign pe → Lock nf (X :: P) e [] (some pe)
  | step {X : List SPair} {P : List (List SPair)} {e : Option Project.PErr} {rows : List Row} {rs : List (List Row)}
      {err : Option Project.PErr} : rows.length = X.length → (∀ r ∈ rows, r.length = nf) → Lock nf P e rs err →
      Lock nf (X :: P) e (rows :: rs) err

/-- **the evaluation side**: `Project.drainBatchFuel` from `Ctx.off` is in lock step with `pollsOfE` -/
theorem drainBatchFuel_lock {w : Expr} (hw : w.wf = true) {fields : List Field}
    (hf : ∀ fld ∈ fields, fld.expr.wf = true) {bs : Nat} : ∀ (n : Nat) (chunks : List (List SPair)), chunks.length < n →
    Lock fields.length (pollsOfE bs (cvOf w) n chunks).1 (pollsOfE bs (cvOf w) n chunks).2
      (drainBatchFuel w fields bs n (chunks.map (·.map toKv)) Ctx.off).1
      (drainBatchFuel w fields bs n (chunks.map (·.map toKv)) Ctx.off).2.1
  | 0, _, h => by omega
  | n + 1, chunks, hn => by
    obtain ⟨g1, g2⟩ := nextBatch_poll hw hf (bs := bs) chunks
    rw [pollsOfE, drainBatchFuel]
    cases hp : pollLoopE bs (cvOf w) chunks [] with
    | error e =>
      obtain ⟨c1, h1⟩ := g1 e hp
      rw [h1]
      obtain ⟨c, hc, hne, hv⟩ := pollLoopE_error_mem bs (cvOf w) chunks [] e hp
      exact .scanErr e (cvOf_benign hw hne hv)
    | ok r =>
      obtain ⟨X, R⟩ := r
      rcases g2 X R hp with ⟨rfl, h1⟩ | ⟨hne, pe, c1, h1, hpe⟩ | ⟨hne, rows, h1, hl, hr⟩
      · rw [h1]; exact .done
      · rw [h1]
        cases X with
        | nil => exact absurd rfl hne
        | cons x xs => exact .projErr _ _ _ pe hpe
      · rw [h1]
        cases X with
        | nil => exact absurd rfl hne
        | cons x xs =>
          cases rows with
          | nil => simp at hl
          | cons r rs =>
            simp only
            have hc := pollLoopE_consumes bs (cvOf w) chunks [] _ _ hp (by simp)
            have ih := drainBatchFuel_lock hw hf (bs := bs) n R (by omega)
            exact .step hl hr ih

end Kvql.Proofs.RunNoPanic.LockBatch
