/-
  C18 (planner half), conjunctions: the conjuncts of the `&`/`and` spine, narrowing to one of
  them, and the face-unsatisfiable shapes.
-/
import Kvql.Proofs.ScanNarrow

namespace Kvql.Scan
open Kvql.Bytes (Pre)

/-- FULL is a two-sided unit of `optimizeAndExpr`'s combination -/
theorem andScan_full_left (x : Scan) : andScan .full x = x := by
  cases x <;> scan_kinds

theorem andScan_full_right (x : Scan) : andScan x .full = x := by
  cases x <;> scan_kinds

theorem andScan_empty_left (x : Scan) : andScan .empty x = .empty := by
  cases x <;> scan_kinds

theorem andScan_empty_right (x : Scan) : andScan x .empty = .empty := by
  cases x <;> scan_kinds

/-- `false` (or any conjunct already inferred EMPTY, such as `key < ''` or a nested
    unsatisfiable conjunction) anywhere in the conjunction: nothing is read -/
theorem unsat_conjunct {c e : Expr} (hc : Conjunct c e) (h : optimizeExpr c = .empty) :
    optimizeExpr e = .empty := by
  induction hc with
  | self => exact h
  | andL _ ih => simp only [optimizeExpr, ih, andScan_empty_left]
  | andR _ ih => simp only [optimizeExpr, ih, andScan_empty_right]
  | kwAndL _ ih => simp only [optimizeExpr, ih, andScan_empty_left]
  | kwAndR _ ih => simp only [optimizeExpr, ih, andScan_empty_right]

theorem unsat_false {e : Expr} {p : Nat} {d : Bytes} (hc : Conjunct (.bool p d false) e) :
    optimizeExpr e = .empty :=
  unsat_conjunct hc (by simp [optimizeExpr])

/-- the conjuncts of the `&` / `and` spine, left to right -/
def conjuncts : Expr → List Expr
  | .binop _ .and l r => conjuncts l ++ conjuncts r
  | .binop _ .kwAnd l r => conjuncts l ++ conjuncts r
  | e => [e]

/-- the scan types of the conjuncts that pin the key (the others are FULL: predicates on the
    value, negations, …) -/
def keyScans (e : Expr) : List Scan :=
  ((conjuncts e).map optimizeExpr).filter (fun s => decide (s ≠ .full))

theorem keyScans_and (p : Nat) (l r : Expr) :
    keyScans (.binop p .and l r) = keyScans l ++ keyScans r := by
  simp [keyScans, conjuncts]

theorem keyScans_kwAnd (p : Nat) (l r : Expr) :
    keyScans (.binop p .kwAnd l r) = keyScans l ++ keyScans r := by
  simp [keyScans, conjuncts]

/-- with at most two key conjuncts, the other conjuncts disappear: the inferred type is that of
    the key conjunct, or the combination of the two -/
theorem keyScans_fold (e : Expr) :
    (keyScans e = [] → optimizeExpr e = .full) ∧
    (∀ s, keyScans e = [s] → optimizeExpr e = s) ∧
    (∀ s1 s2, keyScans e = [s1, s2] → optimizeExpr e = andScan s1 s2) := by
  fun_induction conjuncts e
  case case1 p l r ihl ihr =>
    rw [keyScans_and]
    simp only [optimizeExpr]
    refine ⟨?_, ?_, ?_⟩
    · intro h
      simp only [List.append_eq_nil_iff] at h
      rw [ihl.1 h.1, ihr.1 h.2]; rfl
    · intro s h
      rcases List.append_eq_singleton_iff.mp h with ⟨h1, h2⟩ | ⟨h1, h2⟩
      · rw [ihl.1 h1, ihr.2.1 s h2, andScan_full_left]
      · rw [ihl.2.1 s h1, ihr.1 h2, andScan_full_right]
    · intro s1 s2 h
      rcases List.append_eq_cons_iff.mp h with ⟨h1, h2⟩ | ⟨t, h1, h2⟩
      · rw [ihl.1 h1, ihr.2.2 s1 s2 h2, andScan_full_left]
      · rcases List.append_eq_singleton_iff.mp h2.symm with ⟨h3, h4⟩ | ⟨h3, h4⟩
        · subst h3
          rw [ihl.2.1 s1 h1, ihr.2.1 s2 h4]
        · subst h3
          rw [ihl.2.2 s1 s2 h1, ihr.1 h4, andScan_full_right]
  case case2 p l r ihl ihr =>
    rw [keyScans_kwAnd]
    simp only [optimizeExpr]
    refine ⟨?_, ?_, ?_⟩
    · intro h
      simp only [List.append_eq_nil_iff] at h
      rw [ihl.1 h.1, ihr.1 h.2]; rfl
    · intro s h
      rcases List.append_eq_singleton_iff.mp h with ⟨h1, h2⟩ | ⟨h1, h2⟩
      · rw [ihl.1 h1, ihr.2.1 s h2, andScan_full_left]
      · rw [ihl.2.1 s h1, ihr.1 h2, andScan_full_right]
    · intro s1 s2 h
      rcases List.append_eq_cons_iff.mp h with ⟨h1, h2⟩ | ⟨t, h1, h2⟩
      · rw [ihl.1 h1, ihr.2.2 s1 s2 h2, andScan_full_left]
      · rcases List.append_eq_singleton_iff.mp h2.symm with ⟨h3, h4⟩ | ⟨h3, h4⟩
        · subst h3
          rw [ihl.2.1 s1 h1, ihr.2.1 s2 h4]
        · subst h3
          rw [ihl.2.2 s1 s2 h1, ihr.1 h4, andScan_full_right]
  case case3 e h1 h2 =>
    have hc : keyScans e = if optimizeExpr e = .full then [] else [optimizeExpr e] := by
      unfold keyScans
      rw [conjuncts]
      · by_cases hf : optimizeExpr e = .full <;> simp [hf]
      · exact h1
      · exact h2
    rw [hc]
    by_cases hf : optimizeExpr e = .full <;> simp [hf]

/-! ### the face-unsatisfiable pairs -/

theorem unsat_eq_eq {a b : Bytes} (h : a ≠ b) : andScan (.mget [a]) (.mget [b]) = .empty := by
  scan_kinds
  simp [intersectionMget, Bytes.dedup, Bytes.sort, h]

theorem unsat_pre_pre {a b : Bytes} (h1 : ¬ Pre a b) (h2 : ¬ Pre b a) :
    andScan (.pre a) (.pre b) = .empty := by
  scan_kinds
  have hne : a ≠ b := fun e => h1 (e ▸ Bytes.pre_refl a)
  simp [intersectionPrefix, hne, Bytes.isPrefix_iff, h1, h2]

/-- two ranges, each with start ≤ end, one ending before the other starts -/
theorem unsat_range_range {a b c d : OB} (wl : WF (.range a b)) (wr : WF (.range c d))
    (h : (∃ x y, b = some x ∧ c = some y ∧ x < y) ∨ (∃ x y, d = some x ∧ a = some y ∧ x < y)) :
    andScan (.range a b) (.range c d) = .empty := by
  scan_kinds
  unfold intersectionRange
  rw [swap_wf wl, swap_wf wr]
  unfold intersectionBounds
  cases a <;> cases b <;> cases c <;> cases d <;>
    simp [WF, bv, Bytes.lt_iff, Bytes.eq_iff] at * <;> grind

/-- the shapes of C18: two different equalities, two prefixes neither of which extends the other,
    two disjoint ranges -/
inductive FaceUnsat : Scan → Scan → Prop
  | eqEq {a b : Bytes} : a ≠ b → FaceUnsat (.mget [a]) (.mget [b])
  | prePre {a b : Bytes} : ¬ Pre a b → ¬ Pre b a → FaceUnsat (.pre a) (.pre b)
  | rangeRange {a b c d : OB} : WF (.range a b) → WF (.range c d) →
      ((∃ x y, b = some x ∧ c = some y ∧ x < y) ∨ (∃ x y, d = some x ∧ a = some y ∧ x < y)) →
      FaceUnsat (.range a b) (.range c d)

/-- `unsat_reads_nothing`: a conjunction whose key conjuncts are exactly two, of a
    face-unsatisfiable shape — among any number of conjuncts that do not constrain the key, in
    any nesting — is planned EMPTY.  (`false` as a conjunct: `unsat_false`, with any other
    conjuncts.) -/
theorem unsat_reads_nothing {e : Expr} {s1 s2 : Scan} (hk : keyScans e = [s1, s2])
    (hu : FaceUnsat s1 s2) : optimizeExpr e = .empty := by
  rw [(keyScans_fold e).2.2 s1 s2 hk]
  cases hu with
  | eqEq h => exact unsat_eq_eq h
  | prePre h1 h2 => exact unsat_pre_pre h1 h2
  | rangeRange wl wr h => exact unsat_range_range wl wr h

/-! ### narrowing along the whole conjunction -/

theorem mget_like_ne_full (ks : List Bytes) : (if ks.isEmpty then Scan.empty else .mget ks) ≠ .full := by
  split <;> simp

theorem intersectionPrefix_ne_full (a b : Bytes) : intersectionPrefix a b ≠ .full := by
  unfold intersectionPrefix; (repeat' split) <;> simp

theorem intersectionRange_ne_full {a b c d : OB} (wl : WF (.range a b)) (wr : WF (.range c d)) :
    intersectionRange a b c d ≠ .full := by
  unfold intersectionRange
  rw [swap_wf wl, swap_wf wr]
  unfold intersectionBounds
  cases a <;> cases b <;> cases c <;> cases d <;>
    simp [WF, bv, Bytes.lt_iff, Bytes.eq_iff] at * <;> (repeat' split) <;> simp

theorem intersectionPrefixAndRange_ne_full {p : Bytes} {rs re : OB} (hw : WF (.range rs re)) :
    intersectionPrefixAndRange p rs re ≠ .full := by
  unfold intersectionPrefixAndRange
  cases rs <;> cases re <;>
    simp [WF, inRange, bv, Bytes.le_iff, Bytes.lt_iff, Bytes.eq_iff, Bytes.isPrefix_iff] at * <;>
    (repeat' split) <;> simp <;> grind

/-- under the invariant AND never falls back to FULL: the result is FULL only when both
    operands are -/
theorem andScan_full_iff {l r : Scan} (wl : WF l) (wr : WF r) :
    andScan l r = .full ↔ l = .full ∧ r = .full := by
  constructor
  · cases l <;> cases r <;> scan_kinds <;>
      first
      | exact mget_like_ne_full _
      | exact intersectionPrefix_ne_full _ _
      | exact intersectionRange_ne_full wl wr
      | exact intersectionPrefixAndRange_ne_full wr
      | exact intersectionPrefixAndRange_ne_full wl
  · rintro ⟨rfl, rfl⟩; rfl

theorem pinned_iff (e : Expr) :
    pinned (optimizeExpr e) ↔ ∃ c ∈ conjuncts e, pinned (optimizeExpr c) := by
  fun_induction conjuncts e
  case case1 p l r ihl ihr =>
    simp only [optimizeExpr, pinned, ne_eq, andScan_full_iff (wf_optimizeExpr l) (wf_optimizeExpr r),
      List.mem_append] at *
    grind
  case case2 p l r ihl ihr =>
    simp only [optimizeExpr, pinned, ne_eq, andScan_full_iff (wf_optimizeExpr l) (wf_optimizeExpr r),
      List.mem_append] at *
    grind
  case case3 e h1 h2 => simp

/-- `and_narrows` along the whole conjunction: if some conjunct pins the key, the region
    inferred for the conjunction lies within the region inferred for one pinning conjunct -/
theorem and_narrows_conjuncts (e : Expr) (h : ∃ c ∈ conjuncts e, pinned (optimizeExpr c)) :
    ∃ c ∈ conjuncts e, pinned (optimizeExpr c) ∧ within (optimizeExpr e) (optimizeExpr c) := by
  fun_induction conjuncts e
  case case1 p l r ihl ihr =>
    have hp : pinned (optimizeExpr l) ∨ pinned (optimizeExpr r) := by
      rw [pinned_iff l, pinned_iff r]
      simp only [List.mem_append] at h
      grind
    obtain ⟨x, hx, hpx, hw⟩ := and_narrows (wf_optimizeExpr l) (wf_optimizeExpr r) hp
    simp only [optimizeExpr, List.mem_append]
    rcases hx with rfl | rfl
    · obtain ⟨c, hc, hpc, hwc⟩ := ihl ((pinned_iff l).mp hpx)
      exact ⟨c, Or.inl hc, hpc, fun k hk => hwc k (hw k hk)⟩
    · obtain ⟨c, hc, hpc, hwc⟩ := ihr ((pinned_iff r).mp hpx)
      exact ⟨c, Or.inr hc, hpc, fun k hk => hwc k (hw k hk)⟩
  case case2 p l r ihl ihr =>
    have hp : pinned (optimizeExpr l) ∨ pinned (optimizeExpr r) := by
      rw [pinned_iff l, pinned_iff r]
      simp only [List.mem_append] at h
      grind
    obtain ⟨x, hx, hpx, hw⟩ := and_narrows (wf_optimizeExpr l) (wf_optimizeExpr r) hp
    simp only [optimizeExpr, List.mem_append]
    rcases hx with rfl | rfl
    · obtain ⟨c, hc, hpc, hwc⟩ := ihl ((pinned_iff l).mp hpx)
      exact ⟨c, Or.inl hc, hpc, fun k hk => hwc k (hw k hk)⟩
    · obtain ⟨c, hc, hpc, hwc⟩ := ihr ((pinned_iff r).mp hpx)
      exact ⟨c, Or.inr hc, hpc, fun k hk => hwc k (hw k hk)⟩
  case case3 e h1 h2 =>
    simp only [List.mem_singleton, exists_eq_left] at h ⊢
    exact ⟨h, within_refl _⟩

end Kvql.Scan
