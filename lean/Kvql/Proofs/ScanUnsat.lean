/-
  C18 (planner half), conjunctions: the conjuncts of the `&`/`and` spine, narrowing to one of
  them, and the face-unsatisfiable shapes.
-/
import Kvql.Proofs.ScanNarrow

namespace Kvql.Scan
open Kvql.Bytes (Pre)

/-- FULL is a two-sided unit of `optimizeAndExpr`'s combination -/
theorem andScan_full_left (x : Scan) : andScan .full x = x := by
  cases x <;> scan_kinds

theorem andScan_full_right (x : Scan) : andScan x .full = x := by
  cases x <;> scan_kinds

theorem andScan_empty_left (x : Scan) : andScan .empty x = .empty := by
  cases x <;> scan_kinds

theorem andScan_empty_right (x : Scan) : andScan x .empty = .empty := by
  cases x <;> scan_kinds

theorem unsat_conjunct_tree {c e : Expr} (hc : Conjunct c e) (h : optimizeExpr c = .empty) :
    andTree e = .empty ∨ emptyPair (leafTypes e) = true := by
  induction hc with
  | self =>
    rw [optimizeExpr_eq] at h
    cases hp : emptyPair (leafTypes c) with
    | true => exact Or.inr rfl
    | false => simp [hp] at h; exact Or.inl h
  | andL _ ih =>
    rcases ih with ih | ih
    · left; rw [andTree_and, ih, andScan_empty_left]
    · right; rw [leafTypes_and]; exact emptyPair_sublist (List.sublist_append_left _ _) ih
  | andR _ ih =>
    rcases ih with ih | ih
    · left; rw [andTree_and, ih, andScan_empty_right]
    · right; rw [leafTypes_and]; exact emptyPair_sublist (List.sublist_append_right _ _) ih
  | kwAndL _ ih =>
    rcases ih with ih | ih
    · left; rw [andTree_kwAnd, ih, andScan_empty_left]
    · right; rw [leafTypes_kwAnd]; exact emptyPair_sublist (List.sublist_append_left _ _) ih
  | kwAndR _ ih =>
    rcases ih with ih | ih
    · left; rw [andTree_kwAnd, ih, andScan_empty_right]
    · right; rw [leafTypes_kwAnd]; exact emptyPair_sublist (List.sublist_append_right _ _) ih

/-- `false` (or any conjunct already inferred EMPTY, such as `key < ''` or a nested
    unsatisfiable conjunction) anywhere in the conjunction: nothing is read -/
theorem unsat_conjunct {c e : Expr} (hc : Conjunct c e) (h : optimizeExpr c = .empty) :
    optimizeExpr e = .empty := by
  rw [optimizeExpr_eq]
  rcases unsat_conjunct_tree hc h with h | h
  · rw [h]; split <;> rfl
  · simp [h]

theorem unsat_false {e : Expr} {p : Nat} {d : Bytes} (hc : Conjunct (.bool p d false) e) :
    optimizeExpr e = .empty :=
  unsat_conjunct hc (by simp [optimizeExpr, infer, Conj.single])

/-- the conjuncts of the `&` / `and` spine (its leaves, whatever the nesting), left to right -/
def conjuncts : Expr → List Expr
  | .binop _ .and l r => conjuncts l ++ conjuncts r
  | .binop _ .kwAnd l r => conjuncts l ++ conjuncts r
  | e => [e]

theorem isAnd_false_of {e : Expr} (h1 : ∀ p l r, e = .binop p .and l r → False)
    (h2 : ∀ p l r, e = .binop p .kwAnd l r → False) : isAnd e = false := by
  cases e with
  | binop p op l r =>
    cases op <;> simp [isAnd]
    · exact h1 _ _ _ rfl
    · exact h2 _ _ _ rfl
  | _ => simp [isAnd]

/-- `conjunctScanTypes` is `optimizeExpr` of each conjunct -/
theorem leafTypes_eq (e : Expr) : leafTypes e = (conjuncts e).map optimizeExpr := by
  fun_induction conjuncts e
  case case1 ihl ihr => rw [leafTypes_and, ihl, ihr, List.map_append]
  case case2 ihl ihr => rw [leafTypes_kwAnd, ihl, ihr, List.map_append]
  case case3 e h1 h2 => simp [leafTypes_leaf (isAnd_false_of h1 h2)]

/-! ### the face-unsatisfiable pairs -/

theorem unsat_eq_eq {a b : Bytes} (h : a ≠ b) : andScan (.mget [a]) (.mget [b]) = .empty := by
  scan_kinds
  simp [intersectionMget, Bytes.dedup, Bytes.sort, h]

theorem unsat_pre_pre {a b : Bytes} (h1 : ¬ Pre a b) (h2 : ¬ Pre b a) :
    andScan (.pre a) (.pre b) = .empty := by
  scan_kinds
  have hne : a ≠ b := fun e => h1 (e ▸ Bytes.pre_refl a)
  simp [intersectionPrefix, hne, Bytes.isPrefix_iff, h1, h2]

/-- two ranges, each with start ≤ end, one ending before the other starts -/
theorem unsat_range_range {a b c d : OB} (wl : WF (.range a b)) (wr : WF (.range c d))
    (h : (∃ x y, b = some x ∧ c = some y ∧ x < y) ∨ (∃ x y, d = some x ∧ a = some y ∧ x < y)) :
    andScan (.range a b) (.range c d) = .empty := by
  scan_kinds
  unfold intersectionRange
  rw [swap_wf wl, swap_wf wr]
  unfold intersectionBounds
  cases a <;> cases b <;> cases c <;> cases d <;>
    simp [WF, bv, Bytes.lt_iff, Bytes.eq_iff] at * <;> grind

/-- the shapes of C18: two different equalities, two prefixes neither of which extends the other,
    two disjoint ranges -/
inductive FaceUnsat : Scan → Scan → Prop
  | eqEq {a b : Bytes} : a ≠ b → FaceUnsat (.mget [a]) (.mget [b])
  | prePre {a b : Bytes} : ¬ Pre a b → ¬ Pre b a → FaceUnsat (.pre a) (.pre b)
  | rangeRange {a b c d : OB} : WF (.range a b) → WF (.range c d) →
      ((∃ x y, b = some x ∧ c = some y ∧ x < y) ∨ (∃ x y, d = some x ∧ a = some y ∧ x < y)) →
      FaceUnsat (.range a b) (.range c d)

theorem faceUnsat_empty {s1 s2 : Scan} (hu : FaceUnsat s1 s2) : andScan s1 s2 = .empty := by
  cases hu with
  | eqEq h => exact unsat_eq_eq h
  | prePre h1 h2 => exact unsat_pre_pre h1 h2
  | rangeRange wl wr h => exact unsat_range_range wl wr h

/-- `unsat_reads_nothing` (general): if two conjuncts of the flattened `&`/`and` spine — an
    earlier and a later one, anywhere in the nesting — have inferred scan types whose
    intersection (`optimizeAndExpr`'s own combination of the two) is EMPTY, the whole
    conjunction is planned EMPTY, whatever the other conjuncts are. -/
theorem unsat_reads_nothing (e : Expr) {s1 s2 : Scan}
    (hk : [s1, s2].Sublist ((conjuncts e).map optimizeExpr)) (hu : andScan s1 s2 = .empty) :
    optimizeExpr e = .empty := by
  rw [optimizeExpr_eq, leafTypes_eq]
  have : emptyPair [s1, s2] = true := by simp [emptyPair, hu, Scan.isEmpty]
  simp [emptyPair_sublist hk this]

/-- the same, naming the two conjuncts -/
theorem unsat_conjunct_pair (e : Expr) {c1 c2 : Expr} (hk : [c1, c2].Sublist (conjuncts e))
    (hu : andScan (optimizeExpr c1) (optimizeExpr c2) = .empty) : optimizeExpr e = .empty :=
  unsat_reads_nothing e (hk.map optimizeExpr) hu

/-- in particular for the face-unsatisfiable shapes: two different equalities, two prefixes
    neither of which extends the other, two ranges one of which ends before the other starts -/
theorem unsat_face (e : Expr) {s1 s2 : Scan}
    (hk : [s1, s2].Sublist ((conjuncts e).map optimizeExpr)) (hu : FaceUnsat s1 s2) :
    optimizeExpr e = .empty :=
  unsat_reads_nothing e hk (faceUnsat_empty hu)

/-! ### narrowing along the whole conjunction -/

theorem mget_like_ne_full (ks : List Bytes) : (if ks.isEmpty then Scan.empty else .mget ks) ≠ .full := by
  split <;> simp

theorem intersectionPrefix_ne_full (a b : Bytes) : intersectionPrefix a b ≠ .full := by
  unfold intersectionPrefix; (repeat' split) <;> simp

theorem intersectionRange_ne_full {a b c d : OB} (wl : WF (.range a b)) (wr : WF (.range c d)) :
    intersectionRange a b c d ≠ .full := by
  unfold intersectionRange
  rw [swap_wf wl, swap_wf wr]
  unfold intersectionBounds
  cases a <;> cases b <;> cases c <;> cases d <;>
    simp [WF, bv, Bytes.lt_iff, Bytes.eq_iff] at * <;> (repeat' split) <;> simp

theorem intersectionPrefixAndRange_ne_full {p : Bytes} {rs re : OB} (hw : WF (.range rs re)) :
    intersectionPrefixAndRange p rs re ≠ .full := by
  unfold intersectionPrefixAndRange
  cases rs <;> cases re <;>
    simp [WF, inRange, bv, Bytes.le_iff, Bytes.lt_iff, Bytes.eq_iff, Bytes.isPrefix_iff] at * <;>
    (repeat' split) <;> simp <;> grind

/-- under the invariant AND never falls back to FULL: the result is FULL only when both
    operands are -/
theorem andScan_full_iff {l r : Scan} (wl : WF l) (wr : WF r) :
    andScan l r = .full ↔ l = .full ∧ r = .full := by
  constructor
  · cases l <;> cases r <;> scan_kinds <;>
      first
      | exact mget_like_ne_full _
      | exact intersectionPrefix_ne_full _ _
      | exact intersectionRange_ne_full wl wr
      | exact intersectionPrefixAndRange_ne_full wr
      | exact intersectionPrefixAndRange_ne_full wl
  · rintro ⟨rfl, rfl⟩; rfl

/-- the tree combination pins the key exactly when some conjunct does -/
theorem tree_pinned_iff (e : Expr) :
    pinned (andTree e) ↔ ∃ s ∈ leafTypes e, pinned s := by
  fun_induction conjuncts e
  case case1 p l r ihl ihr =>
    simp only [andTree_and, leafTypes_and, pinned, ne_eq, andScan_full_iff (wf_andTree l) (wf_andTree r),
      List.mem_append] at *
    grind
  case case2 p l r ihl ihr =>
    simp only [andTree_kwAnd, leafTypes_kwAnd, pinned, ne_eq, andScan_full_iff (wf_andTree l) (wf_andTree r),
      List.mem_append] at *
    grind
  case case3 e h1 h2 =>
    have := isAnd_false_of h1 h2
    simp [andTree_leaf this, leafTypes_leaf this]

/-- `and_narrows` along the tree combination -/
theorem tree_narrows (e : Expr) (h : ∃ s ∈ leafTypes e, pinned s) :
    ∃ s ∈ leafTypes e, pinned s ∧ within (andTree e) s := by
  fun_induction conjuncts e
  case case1 p l r ihl ihr =>
    have hp : pinned (andTree l) ∨ pinned (andTree r) := by
      rw [tree_pinned_iff l, tree_pinned_iff r]
      simp only [leafTypes_and, List.mem_append] at h
      grind
    obtain ⟨x, hx, hpx, hw⟩ := and_narrows (wf_andTree l) (wf_andTree r) hp
    simp only [andTree_and, leafTypes_and, List.mem_append]
    rcases hx with rfl | rfl
    · obtain ⟨c, hc, hpc, hwc⟩ := ihl ((tree_pinned_iff l).mp hpx)
      exact ⟨c, Or.inl hc, hpc, fun k hk => hwc k (hw k hk)⟩
    · obtain ⟨c, hc, hpc, hwc⟩ := ihr ((tree_pinned_iff r).mp hpx)
      exact ⟨c, Or.inr hc, hpc, fun k hk => hwc k (hw k hk)⟩
  case case2 p l r ihl ihr =>
    have hp : pinned (andTree l) ∨ pinned (andTree r) := by
      rw [tree_pinned_iff l, tree_pinned_iff r]
      simp only [leafTypes_kwAnd, List.mem_append] at h
      grind
    obtain ⟨x, hx, hpx, hw⟩ := and_narrows (wf_andTree l) (wf_andTree r) hp
    simp only [andTree_kwAnd, leafTypes_kwAnd, List.mem_append]
    rcases hx with rfl | rfl
    · obtain ⟨c, hc, hpc, hwc⟩ := ihl ((tree_pinned_iff l).mp hpx)
      exact ⟨c, Or.inl hc, hpc, fun k hk => hwc k (hw k hk)⟩
    · obtain ⟨c, hc, hpc, hwc⟩ := ihr ((tree_pinned_iff r).mp hpx)
      exact ⟨c, Or.inr hc, hpc, fun k hk => hwc k (hw k hk)⟩
  case case3 e h1 h2 =>
    have := isAnd_false_of h1 h2
    simp only [andTree_leaf this, leafTypes_leaf this, List.mem_singleton, exists_eq_left] at h ⊢
    exact ⟨h, within_refl _⟩

/-- `and_narrows` along the whole conjunction: if some conjunct pins the key, the region
    inferred for the conjunction lies within the region inferred for one pinning conjunct
    (trivially so when the pair test made it EMPTY) -/
theorem and_narrows_conjuncts (e : Expr) (h : ∃ c ∈ conjuncts e, pinned (optimizeExpr c)) :
    ∃ c ∈ conjuncts e, pinned (optimizeExpr c) ∧ within (optimizeExpr e) (optimizeExpr c) := by
  rw [optimizeExpr_eq]
  split
  · obtain ⟨c, hc, hp⟩ := h
    exact ⟨c, hc, hp, empty_within _⟩
  · have h' : ∃ s ∈ leafTypes e, pinned s := by
      obtain ⟨c, hc, hp⟩ := h
      exact ⟨optimizeExpr c, by rw [leafTypes_eq]; exact List.mem_map_of_mem hc, hp⟩
    obtain ⟨s, hs, hp, hw⟩ := tree_narrows e h'
    rw [leafTypes_eq] at hs
    obtain ⟨c, hc, rfl⟩ := List.mem_map.mp hs
    exact ⟨c, hc, hp, hw⟩

/-- the clause pins the key exactly when some conjunct does -/
theorem pinned_iff (e : Expr) :
    pinned (optimizeExpr e) ↔ ∃ c ∈ conjuncts e, pinned (optimizeExpr c) := by
  have ht := tree_pinned_iff e
  rw [leafTypes_eq] at ht
  rw [optimizeExpr_eq]
  cases hp : emptyPair (leafTypes e) with
  | false =>
    simp only [Bool.false_eq_true, ↓reduceIte]
    rw [ht]
    constructor
    · rintro ⟨s, hs, hp⟩
      obtain ⟨c, hc, rfl⟩ := List.mem_map.mp hs
      exact ⟨c, hc, hp⟩
    · rintro ⟨c, hc, hp⟩
      exact ⟨_, List.mem_map_of_mem hc, hp⟩
  | true =>
    simp only [↓reduceIte, pinned, ne_eq, reduceCtorEq, not_false_eq_true, true_iff]
    -- a pair that intersects to EMPTY cannot be FULL ∩ FULL
    have hne : ¬ (leafTypes e).Pairwise (fun a b => andScan a b ≠ .empty) := by
      rw [← emptyPair_false_iff, hp]; simp
    by_cases hall : ∀ s ∈ leafTypes e, s = .full
    · exfalso
      apply hne
      generalize leafTypes e = ls at hall
      induction ls with
      | nil => exact List.Pairwise.nil
      | cons a rest ih =>
        refine List.Pairwise.cons (fun b hb => ?_) (ih (fun s hs => hall s (List.mem_cons_of_mem _ hs)))
        rw [hall a (List.mem_cons_self ..), hall b (List.mem_cons_of_mem _ hb)]
        decide
    · have : ∃ s ∈ leafTypes e, s ≠ .full := by
        apply Classical.byContradiction
        intro hn
        apply hall
        intro s hs
        apply Classical.byContradiction
        intro hs'
        exact hn ⟨s, hs, hs'⟩
      obtain ⟨s, hs, hs'⟩ := this
      rw [leafTypes_eq] at hs
      obtain ⟨c, hc, rfl⟩ := List.mem_map.mp hs
      exact ⟨c, hc, hs'⟩

end Kvql.Scan
