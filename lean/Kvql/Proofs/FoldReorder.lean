/-
  C04, `tryReorderBinaryOp` guarded by `canReassociate` (patch C04-02): `isIntegerExpr` is sound
  (number-typed, evaluates to int64 / int only: read off the regenerated `funcTable` for `int`,
  `strlen`, `len`), the two associativity lemmas (byte-string concatenation, wrapping Int64 + and *),
  and `reorder_ok`.
-/
import Kvql.Proofs.FoldRel
namespace Kvql
open Generated
namespace Fold

/-! ### isIntegerExpr: such an expression is number-typed and evaluates to an integer only -/

/-- the Go kinds `int64` and `int` -/
def IsInt (v : Value) : Prop := ∃ i, convertToInt v = some i

theorem intName_cases {nm : Expr} (h : isIntCallName nm = true) :
    ∃ q d, nm = .name q d ∧ (toLower d = asciiBytes "int" ∨ toLower d = asciiBytes "strlen" ∨ toLower d = asciiBytes "len") := by
  cases nm <;> simp [isIntCallName, funcNameOf] at h
  rename_i q d
  exact ⟨q, d, rfl, by simpa [or_assoc] using h⟩

theorem lookup_int :
    (lookupFunc (asciiBytes "int")).map (fun f => (f.body, f.numArgs, f.varArgs, f.retType)) =
      some (some .toInt, 1, false, tyTNUMBER) := by decide
theorem lookup_strlen :
    (lookupFunc (asciiBytes "strlen")).map (fun f => (f.body, f.numArgs, f.varArgs, f.retType)) =
      some (some .strlen, 1, false, tyTNUMBER) := by decide
theorem lookup_len :
    (lookupFunc (asciiBytes "len")).map (fun f => (f.body, f.numArgs, f.varArgs, f.retType)) =
      some (some .len, 1, false, tyTNUMBER) := by decide

theorem lookup_of_map {name : Bytes} {b : Option Body} {n : Nat} {va : Bool} {t : Nat}
    (h : (lookupFunc name).map (fun f => (f.body, f.numArgs, f.varArgs, f.retType)) = some (b, n, va, t)) :
    ∃ fo, lookupFunc name = some fo ∧ fo.body = b ∧ fo.numArgs = n ∧ fo.varArgs = va ∧ fo.retType = t := by
  cases hl : lookupFunc name with
  | none => simp [hl] at h
  | some fo =>
    simp [hl] at h
    exact ⟨fo, rfl, h.1, h.2.1, h.2.2.1, h.2.2.2⟩

/-- the three functions `isIntegerExpr` knows by name: number-typed, one argument, and a body that
    returns an integer (read off the regenerated `funcTable`) -/
theorem intName_lookup {d : Bytes}
    (h : toLower d = asciiBytes "int" ∨ toLower d = asciiBytes "strlen" ∨ toLower d = asciiBytes "len") :
    ∃ fo b, lookupFunc (toLower d) = some fo ∧ fo.body = some b ∧ fo.numArgs = 1 ∧ fo.varArgs = false ∧
      fo.retType = tyTNUMBER ∧ (b = .toInt ∨ b = .strlen ∨ b = .len) := by
  rcases h with h | h | h <;> rw [h]
  · obtain ⟨fo, h1, h2, h3, h4, h5⟩ := lookup_of_map lookup_int
    exact ⟨fo, _, h1, h2, h3, h4, h5, .inl rfl⟩
  · obtain ⟨fo, h1, h2, h3, h4, h5⟩ := lookup_of_map lookup_strlen
    exact ⟨fo, _, h1, h2, h3, h4, h5, .inr (.inl rfl)⟩
  · obtain ⟨fo, h1, h2, h3, h4, h5⟩ := lookup_of_map lookup_len
    exact ⟨fo, _, h1, h2, h3, h4, h5, .inr (.inr rfl)⟩

theorem isInt_ty : ∀ e : Expr, isIntegerExpr e = true → retType e = tyTNUMBER
  | .num .., _ => rfl
  | .binop p op l r, h => by
    simp only [isIntegerExpr, Bool.and_eq_true, Bool.or_eq_true, beq_iff_eq] at h
    have hl := isInt_ty l h.1.2
    rcases h.1.1 with ((h1 | h1) | h1) | h1 <;> subst h1 <;> simp [retType, hl]
    decide
  | .call p nm args, h => by
    simp only [isIntegerExpr] at h
    obtain ⟨q, d, rfl, hd⟩ := intName_cases h
    obtain ⟨fo, b, hlk, _, _, _, hty, _⟩ := intName_lookup hd
    simp [retType, hlk, hty]
  | .field .., h | .str .., h | .not .., h | .name .., h | .ref .., h | .cycle, h | .float .., h | .bool .., h
  | .list .., h | .access .., h => by simp [isIntegerExpr] at h

theorem executeMathOp_int {a b : Value} {ia ib : Int64} (ha : convertToInt a = some ia) (hb : convertToInt b = some ib)
    (op : MathOp) : executeMathOp a b op = intMath op ia ib := by
  simp [executeMathOp, ha, hb]

theorem kernel2_math {op : Op} {mop : MathOp} (h : mathOpOf op = some mop) (a b : Value) :
    kernel2 op false a b = executeMathOp a b mop := by
  cases op <;> simp [mathOpOf] at h <;> subst h <;> simp [kernel2]

theorem isInt_val : ∀ (e : Expr), isIntegerExpr e = true → ∀ (kv : Pair) (c : Ctx), c.enable = false →
    ∀ v, ev e kv c = .ok v → IsInt v
  | .num p d i, _, kv, c, _, v, hv => by
    simp [ev, exec] at hv
    subst hv
    exact ⟨i, rfl⟩
  | .binop p op l r, h, kv, c, hc, v, hv => by
    simp only [isIntegerExpr, Bool.and_eq_true, Bool.or_eq_true, beq_iff_eq] at h
    have hlt := isInt_ty l h.1.2
    have ihl := isInt_val l h.1.2 kv c hc
    have ihr := isInt_val r h.2 kv c hc
    have hs : isStrict2 op = true := by rcases h.1.1 with ((h1 | h1) | h1) | h1 <;> subst h1 <;> rfl
    rw [ev_strict2 hs p l r kv hc] at hv
    cases hl : ev l kv c with
    | error e => simp [strict2, hl] at hv
    | ok a =>
      cases hr : ev r kv c with
      | error e => simp [strict2, hl, hr] at hv
      | ok b =>
        obtain ⟨ia, ha⟩ := ihl a hl
        obtain ⟨ib, hb⟩ := ihr b hr
        have hne : (retType l == tyTSTR) = false := by rw [hlt]; decide
        simp only [strict2, hl, hr, hne] at hv
        have : ∃ mop, kernel2 op false a b = intMath mop ia ib := by
          obtain ⟨mop, hm⟩ : ∃ mop, mathOpOf op = some mop := by
            rcases h.1.1 with ((h1 | h1) | h1) | h1 <;> subst h1 <;> exact ⟨_, rfl⟩
          exact ⟨mop, by rw [kernel2_math hm, executeMathOp_int ha hb]⟩
        obtain ⟨mop, hk⟩ := this
        rw [hk] at hv
        obtain ⟨i, rfl⟩ := intMath_kind hv
        exact ⟨i, rfl⟩
  | .call p nm args, h, kv, c, hc, v, hv => by
    simp only [isIntegerExpr] at h
    obtain ⟨q, d, rfl, hd⟩ := intName_cases h
    obtain ⟨fo, b, hlk, hb, hn, hva, _, hbody⟩ := intName_lookup hd
    rw [ev_call] at hv
    simp only [funcNameOf, hlk, hb, hn, hva] at hv
    cases args with
    | nil => simp at hv
    | cons a rest =>
      split at hv
      · cases hv
      · split at hv
        · cases hv
        · rcases hbody with rfl | rfl | rfl
          · rw [run_unary (f := fun v => .int (toIntV v 0)) rfl a rest kv hc] at hv
            cases hx : ev a kv c with
            | error e => rw [hx] at hv; cases hv
            | ok x => rw [hx] at hv; cases hv; exact ⟨_, rfl⟩
          · rw [run_unary (f := fun v => .int (Int64.ofNat (toStringV v).length)) rfl a rest kv hc] at hv
            cases hx : ev a kv c with
            | error e => rw [hx] at hv; cases hv
            | ok x => rw [hx] at hv; cases hv; exact ⟨_, rfl⟩
          · rw [rowBody, run_bind (exec_inert a kv) hc] at hv
            cases hx : run (exec a kv) c with
            | error e => rw [hx] at hv; cases hv
            | ok x =>
              rw [hx] at hv
              simp only [run_lift_bind] at hv
              cases hg : getListLength x with
              | error e => rw [hg] at hv; cases hv
              | ok n =>
                rw [hg] at hv
                simp only [run_pure] at hv
                cases hv; exact ⟨_, rfl⟩
  | .field .., h, _, _, _, _, _ | .str .., h, _, _, _, _, _ | .not .., h, _, _, _, _, _ | .name .., h, _, _, _, _, _
  | .ref .., h, _, _, _, _, _ | .cycle, h, _, _, _, _, _ | .float .., h, _, _, _, _, _ | .bool .., h, _, _, _, _, _
  | .list .., h, _, _, _, _, _ | .access .., h, _, _, _, _, _ => by simp [isIntegerExpr] at h

/-! ### tryReorderBinaryOp: `(x op c1) op c2 => x op (c1 op c2)` where `canReassociate` allows it -/

/-- text concatenation is associative -/
theorem assoc_text (p q : Nat) {x c1 : Expr} (c2 : Expr) (hx : retType x = tyTSTR) (h1 : retType c1 = tyTSTR)
    (kv : Pair) {c : Ctx} (hc : c.enable = false) :
    ev (.binop p .add x (.binop p .add c1 c2)) kv c = ev (.binop p .add (.binop q .add x c1) c2) kv c := by
  have hs : isStrict2 .add = true := rfl
  have hq : retType (.binop q .add x c1) = tyTSTR := by simp [retType, hx]
  rw [ev_strict2 hs p _ _ kv hc, ev_strict2 hs p _ _ kv hc, ev_strict2 hs p _ _ kv hc, ev_strict2 hs q _ _ kv hc,
    hx, h1, hq]
  cases ev x kv c with
  | error e => rfl
  | ok a =>
    cases ev c1 kv c with
    | error e => rfl
    | ok b =>
      cases ev c2 kv c with
      | error e => rfl
      | ok d => simp [strict2, kernel2, toStringV, List.append_assoc]

/-- wrapping integer `+` and `*` are associative (`Int64.add_assoc`, `Int64.mul_assoc`) -/
theorem assoc_int (p q : Nat) {op : Op} (hop : op = .add ∨ op = .mul) {x c1 c2 : Expr}
    (hx : isIntegerExpr x = true) (h1 : isIntegerExpr c1 = true) (h2 : isIntegerExpr c2 = true)
    (kv : Pair) {c : Ctx} (hc : c.enable = false) :
    ev (.binop p op x (.binop p op c1 c2)) kv c = ev (.binop p op (.binop q op x c1) c2) kv c := by
  have hs : isStrict2 op = true := by rcases hop with rfl | rfl <;> rfl
  obtain ⟨mop, hm, hmop⟩ : ∃ mop, mathOpOf op = some mop ∧ (mop = .add ∨ mop = .mul) := by
    rcases hop with rfl | rfl
    · exact ⟨.add, rfl, .inl rfl⟩
    · exact ⟨.mul, rfl, .inr rfl⟩
  have tx : (retType x == tyTSTR) = false := by rw [isInt_ty x hx]; decide
  have t1 : (retType c1 == tyTSTR) = false := by rw [isInt_ty c1 h1]; decide
  have tq : (retType (.binop q op x c1) == tyTSTR) = false := by
    have : isIntegerExpr (.binop q op x c1) = true := by
      rcases hop with rfl | rfl <;> simp [isIntegerExpr, hx, h1]
    rw [isInt_ty _ this]; decide
  rw [ev_strict2 hs p _ _ kv hc, ev_strict2 hs p _ _ kv hc, ev_strict2 hs p _ _ kv hc, ev_strict2 hs q _ _ kv hc,
    tx, t1, tq]
  have vx := isInt_val x hx kv c hc
  have v1 := isInt_val c1 h1 kv c hc
  have v2 := isInt_val c2 h2 kv c hc
  cases ex : ev x kv c with
  | error e => rfl
  | ok a =>
    cases e1 : ev c1 kv c with
    | error e => rfl
    | ok b =>
      obtain ⟨ia, ha⟩ := vx a ex
      obtain ⟨ib, hb⟩ := v1 b e1
      cases e2 : ev c2 kv c with
      | error e =>
        simp only [strict2, kernel2_math hm, executeMathOp_int ha hb]
        rcases hmop with rfl | rfl <;> rfl
      | ok d =>
        obtain ⟨id, hd⟩ := v2 d e2
        simp only [strict2, kernel2_math hm, executeMathOp_int ha hb, executeMathOp_int hb hd]
        rcases hmop with rfl | rfl
        · simp only [intMath]
          simp [executeMathOp_int ha (show convertToInt (.int (ib + id)) = some (ib + id) from rfl),
            executeMathOp_int (show convertToInt (.int (ia + ib)) = some (ia + ib) from rfl) hd, intMath, Int64.add_assoc]
        · simp only [intMath]
          simp [executeMathOp_int ha (show convertToInt (.int (ib * id)) = some (ib * id) from rfl),
            executeMathOp_int (show convertToInt (.int (ia * ib)) = some (ia * ib) from rfl) hd, intMath, Int64.mul_assoc]

theorem assoc_ok (p q : Nat) {op : Op} (hop : op = .add ∨ op = .mul) {x c1 c2 : Expr}
    (h : canReassociate op x c1 c2 = true) :
    FoldRel (.binop p op (.binop q op x c1) c2) (.binop p op x (.binop p op c1 c2)) := by
  simp only [canReassociate, Bool.or_eq_true, Bool.and_eq_true, beq_iff_eq] at h
  refine ⟨fun kv c hc => ?_, ?_, shapeOK_binop ..⟩
  · rcases h with ⟨⟨h0, hx⟩, h1⟩ | ⟨⟨hx, h1⟩, h2⟩
    · subst h0; exact .of_eq (assoc_text p q c2 hx h1 kv hc)
    · exact .of_eq (assoc_int p q hop hx h1 h2 kv hc)
  · rcases hop with rfl | rfl
    · by_cases hx : retType x = tyTSTR <;> simp [retType, hx]
    · rfl

theorem reorder_ok : ∀ e : Expr, FoldRel e (reorder e)
  | .binop p op l r => by
    have hl := reorder_ok l
    have hr := reorder_ok r
    have hcong := FoldRel.binop p op hl hr
    rw [reorder]
    split
    · exact hcong
    · rename_i hop
      have hop' : op = .add ∨ op = .mul := by
        cases op <;> simp at hop <;> simp
      split
      · rename_i q lop ll lr heq
        split
        · rename_i hcond
          simp only [Bool.and_eq_true, beq_iff_eq] at hcond
          obtain ⟨⟨⟨_, hlop⟩, hre⟩, _⟩ := hcond
          subst hlop
          rw [heq] at hcong
          exact hcong.trans (assoc_ok p q hop' hre)
        · exact hcong
      · exact hcong
  | .field .. | .str .. | .name .. | .cycle | .num .. | .float .. | .bool .. | .not .. | .call .. | .ref ..
  | .list .. | .access .. => by simp only [reorder]; exact .refl _

end Fold
end Kvql
