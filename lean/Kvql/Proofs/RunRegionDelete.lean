/-
  C18 end to end, part 4: DELETE.  The READ calls of a DELETE statement (`readsOf log`: the log without
  its `Delete` / `BatchDelete` entries) are a prefix of the script of the scan node — the cursors are
  snapshots, so the script is the one of the store BEFORE the statement — every other entry is a
  `Delete` / `BatchDelete`, and the RemovePlan shortcut reads nothing.
-/
import Kvql.Proofs.RunRegionTrace

namespace Kvql.Proofs.RunRegion

open Kvql Kvql.Storage Kvql.Plans Kvql.Proofs.Plan

/-- the read calls of a log -/
def readsOf (l : List Entry) : List Entry := l.filter (fun e => e.call.isRead)

@[simp] theorem readsOf_nil : readsOf [] = [] := rfl
theorem readsOf_append (a b : List Entry) : readsOf (a ++ b) = readsOf a ++ readsOf b := by
  simp [readsOf]

/-- `Delete` / `BatchDelete`, not failed -/
def IsDel (e : Entry) : Prop := (∃ k, e = ⟨.delete k, false⟩) ∨ (∃ ks, e = ⟨.batchDelete ks, false⟩)

/-- what a DELETE appends: reads that are the calls `ext`, and deletes -/
def DelLog (added : List Entry) (ext : List Call) : Prop :=
  readsOf added = entries ext ∧ ∀ e ∈ added, e.call.isRead = true ∨ IsDel e

theorem DelLog.nil : DelLog [] [] := ⟨rfl, by simp⟩

theorem readsOf_entries_of_reads : ∀ (cs : List Call), (∀ c ∈ cs, c.isRead = true) → readsOf (entries cs) = entries cs := by
  intro cs h
  unfold readsOf
  rw [List.filter_eq_self]
  intro e he
  simp only [entries, List.mem_map] at he
  obtain ⟨c, hc, rfl⟩ := he
  exact h c hc

theorem DelLog.append {a b : List Entry} {x y : List Call} (h1 : DelLog a x) (h2 : DelLog b y) :
    DelLog (a ++ b) (x ++ y) := by
  refine ⟨by rw [readsOf_append, h1.1, h2.1, entries_append], ?_⟩
  intro e he
  rcases List.mem_append.mp he with h | h
  · exact h1.2 e h
  · exact h2.2 e h

theorem DelLog.del (ks : List Bytes) : DelLog [⟨.batchDelete ks, false⟩] [] :=
  ⟨rfl, by intro e he; simp only [List.mem_singleton] at he; subst he; exact .inr (.inr ⟨ks, rfl⟩)⟩

/-! ### children -/

/-- a child plan whose `Batch` consumes the script `R` of its state (reads only) -/
def ChildConsumes {σ : Type} (c : Child σ) (R : σ → List Call) (bs : Nat) : Prop :=
  ∀ s, Consumes (c.batch bs s) (R s) (fun x rem => rem = R x.2)

theorem scan_childConsumes (node : ScanNode) (filter : Filter) (bs : Nat) :
    ChildConsumes (node.child filter) (remaining node) bs :=
  fun s => (cs_scanBatch node filter bs s).mono (fun _ _ h => h.1)

section limit
variable {σ : Type} {c : Child σ} {R : σ → List Call} {bs : Nat} (hc : ChildConsumes c R bs)
include hc

theorem cs_skipBatch (start fuel : Nat) : ∀ (skips : Nat) (s : σ),
    Consumes (LimitPlan.skipBatch start bs c fuel skips s) (R s) (fun x rem => rem = R x.2.2) := by
  induction fuel with
  | zero =>
    intro skips s
    unfold LimitPlan.skipBatch
    split
    · exact Consumes.throw _ _
    · exact Consumes.pure _ _ rfl
  | succ fuel ih =>
    intro skips s
    unfold LimitPlan.skipBatch
    split
    · refine Consumes.bind (hc s) (fun x rem hx => ?_)
      obtain ⟨rows, s'⟩ := x
      simp only at hx ⊢
      subst hx
      split
      · exact Consumes.pure _ _ rfl
      · split
        · exact ih _ _
        · exact Consumes.pure _ _ rfl
    · exact Consumes.pure _ _ rfl

theorem cs_fillBatch (count fuel : Nat) : ∀ (current : Nat) (acc : List Storage.Pair) (s : σ),
    Consumes (LimitPlan.fillBatch count bs c fuel current acc s) (R s) (fun x rem => rem = R x.2.2) := by
  induction fuel with
  | zero => intro current acc s; unfold LimitPlan.fillBatch; exact Consumes.throw _ _
  | succ fuel ih =>
    intro current acc s
    unfold LimitPlan.fillBatch
    refine Consumes.bind (hc s) (fun x rem hx => ?_)
    obtain ⟨rows, s'⟩ := x
    simp only at hx ⊢
    subst hx
    split
    · exact Consumes.pure _ _ rfl
    · split
      · exact Consumes.pure _ _ rfl
      · split
        · exact Consumes.pure _ _ rfl
        · exact ih _ _ _

theorem limit_childConsumes (start count : Nat) :
    ChildConsumes (LimitPlan.child start count c) (fun st => R st.child) bs := by
  intro st
  show Consumes (LimitPlan.batch start count c bs st) _ _
  unfold LimitPlan.batch
  refine Consumes.bind (cs_skipBatch hc start _ _ _) (fun x rem hx => ?_)
  obtain ⟨rows?, skips, s1⟩ := x
  simp only at hx ⊢
  subst hx
  split
  · exact Consumes.pure _ _ rfl
  · split
    · exact Consumes.pure _ _ rfl
    · refine Consumes.bind (cs_fillBatch hc count _ _ _ _) (fun y rem hy => ?_)
      obtain ⟨out, cur, s2⟩ := y
      simp only at hy ⊢
      subst hy
      exact Consumes.pure _ _ rfl

end limit

/-! ### `DeletePlan.execute` -/

theorem batchDelete_run (ks : List Bytes) (w : World) :
    batchDelete ks none w = (.ok (), { store := w.store.eraseMany ks, log := w.log ++ [⟨.batchDelete ks, false⟩] }) := by
  simp [batchDelete, run_call_none]

theorem delete_run (k : Bytes) (w : World) :
    Storage.delete k none w = (.ok (), { store := w.store.erase k, log := w.log ++ [⟨.delete k, false⟩] }) := by
  simp [Storage.delete, run_call_none]

theorem deleteLoop_log {σ : Type} {c : Child σ} {R : σ → List Call} {bs : Nat} (hc : ChildConsumes c R bs)
    (hR : ∀ s, ∀ x ∈ R s, x.isRead = true) :
    ∀ (fuel count : Nat) (s : σ) (w : World),
      ∃ added ext rem, R s = ext ++ rem ∧ (DeletePlan.loop c bs fuel count s none w).2.log = w.log ++ added ∧
        DelLog added ext := by
  intro fuel
  induction fuel with
  | zero =>
    intro count s w
    exact ⟨[], [], R s, rfl, by simp [DeletePlan.loop], DelLog.nil⟩
  | succ fuel ih =>
    intro count s w
    obtain ⟨ext, rem, hsplit, hw, hq⟩ := hc s w
    simp only [DeletePlan.loop]
    rcases hb : c.batch bs s none w with ⟨r, w'⟩
    rw [hb] at hw hq
    simp only at hw hq
    have hext : ∀ x ∈ ext, x.isRead = true := fun x hx => hR s x (by rw [hsplit]; exact List.mem_append_left _ hx)
    have hd1 : DelLog (entries ext) ext := by
      refine ⟨readsOf_entries_of_reads ext hext, ?_⟩
      intro e he
      simp only [entries, List.mem_map] at he
      obtain ⟨x, hx, rfl⟩ := he
      exact .inl (hext x hx)
    have hlog' : w'.log = w.log ++ entries ext := by rw [hw]
    cases r with
    | error e => exact ⟨entries ext, ext, rem, hsplit, hlog', hd1⟩
    | ok x =>
      obtain ⟨rows, s'⟩ := x
      have hrem := hq _ rfl
      simp only at hrem ⊢
      split
      · exact ⟨entries ext, ext, rem, hsplit, hlog', hd1⟩
      · rw [batchDelete_run]
        simp only
        obtain ⟨added2, ext2, rem2, hs2, hl2, hd2⟩ := ih (count + rows.length) s'
          { store := w'.store.eraseMany (rows.map (·.1)), log := w'.log ++ [⟨.batchDelete (rows.map (·.1)), false⟩] }
        refine ⟨entries ext ++ [⟨.batchDelete (rows.map (·.1)), false⟩] ++ added2, ext ++ ext2, rem2, ?_, ?_, ?_⟩
        · rw [hsplit, hrem, hs2, List.append_assoc]
        · rw [hl2]; simp only [hlog', List.append_assoc]
        · have := (hd1.append (DelLog.del (rows.map (·.1)))).append hd2
          simpa using this

/-! ### the statement -/

theorem remaining_reads (node : ScanNode) (st : ScanSt) : ∀ x ∈ remaining node st, x.isRead = true := by
  have hn : ∀ stop rest, ∀ x ∈ nextScript stop rest, x.isRead = true := by
    intro stop rest
    induction rest with
    | nil => intro x hx; simp [nextScript] at hx; subst hx; rfl
    | cons p r ih =>
      intro x hx
      simp only [nextScript] at hx
      split at hx
      · simp at hx; subst hx; rfl
      · rcases List.mem_cons.mp hx with h | h
        · subst h; rfl
        · exact ih x h
  intro x hx
  unfold remaining at hx
  split at hx
  · simp only [List.mem_map] at hx; obtain ⟨k, _, rfl⟩ := hx; rfl
  · simp at hx
  · split at hx
    · simp at hx
    · split at hx
      · exact hn _ _ x hx
      · simp at hx

/-- what the run of a DELETE leaves in the log -/
structure DeleteWorld (node : ScanNode) (store : Store) (w : World) : Prop where
  reads : readsOf w.log <+: entries (scriptI node store)
  rest : ∀ e ∈ w.log, e.call.isRead = true ∨ IsDel e

theorem deleteWorld_of {node : ScanNode} {store : Store} {st : ScanSt} {w0 : World} (hg : Good node store st w0)
    (hr0 : ∀ e ∈ w0.log, e.call.isRead = true) {w : World} {added : List Entry} {ext rem : List Call}
    (hs : remaining node st = ext ++ rem) (hl : w.log = w0.log ++ added) (hd : DelLog added ext) :
    DeleteWorld node store w := by
  constructor
  · rw [hl, readsOf_append, hd.1]
    have : readsOf w0.log = w0.log := by
      unfold readsOf; rw [List.filter_eq_self]; exact hr0
    rw [this]
    refine ⟨entries rem, ?_⟩
    rw [List.append_assoc, ← entries_append, ← hs]
    exact hg.2
  · intro e he
    rw [hl] at he
    rcases List.mem_append.mp he with h | h
    · exact .inl (hr0 e h)
    · exact hd.2 e h

/-- draining a write plan that has been executed: one more poll, no call -/
theorem drain_deleteScan_done (node : ScanNode) (filter : Filter) (st : ScanSt) (kind : PollKind) (bs fuel : Nat)
    (acc : List (List Row)) (w : World) :
    (drain kind bs (fuel + 1) (.deleteScan node filter true st) acc none w).2 = w := by
  simp [drain, Plan.poll]

theorem drain_deleteLimit_done (node : ScanNode) (filter : Filter) (a b : Nat) (st : LimitSt ScanSt) (kind : PollKind)
    (bs fuel : Nat) (acc : List (List Row)) (w : World) :
    (drain kind bs (fuel + 1) (.deleteLimit node filter a b true st) acc none w).2 = w := by
  simp [drain, Plan.poll]

theorem initCalls_reads (node : ScanNode) : ∀ e ∈ entries (initCalls node ++ initCalls node), e.call.isRead = true := by
  have h1 : ∀ c ∈ initCalls node, c.isRead = true := by
    intro c hc
    cases node with
    | range a b =>
      cases a with
      | none => simp [initCalls] at hc; subst hc; rfl
      | some a => simp [initCalls] at hc; rcases hc with h | h <;> subst h <;> rfl
    | full => simp [initCalls] at hc; rcases hc with h | h <;> subst h <;> rfl
    | «prefix» p => simp [initCalls] at hc; rcases hc with h | h <;> subst h <;> rfl
    | mget ks => simp [initCalls] at hc
    | empty => simp [initCalls] at hc
  intro e he
  simp only [entries, List.mem_map] at he
  obtain ⟨c, hc, rfl⟩ := he
  rcases List.mem_append.mp hc with h | h <;> exact h1 c h

/-- the world after the two `Init`s of a scan -/
theorem good_after_inits (node : ScanNode) (store : Store) :
    Good node store (initState node (initState node node.newState store) store)
      { store := store, log := ([] ++ entries (initCalls node)) ++ entries (initCalls node) } := by
  have hk : ∀ ks, node = .mget ks → (initState node node.newState store).keysLeft = ks := by
    intro ks h; subst h; rfl
  refine ⟨rfl, ?_⟩
  rw [remaining_init node _ store hk]
  simp [scriptI]

/-- DeletePlan over a scan -/
theorem run_deleteScan (node : ScanNode) (filter : Filter) (kind : PollKind) (bs : Nat) (store : Store) :
    DeleteWorld node store
      (drain kind bs ((Plan.deleteScan node filter false
          (initState node (initState node node.newState store) store)).size + 2)
        (.deleteScan node filter false (initState node (initState node node.newState store) store)) [] none
        { store := store, log := ([] ++ entries (initCalls node)) ++ entries (initCalls node) }).2 := by
  have hg := good_after_inits node store
  have hr0 : ∀ e ∈ (([] : List Entry) ++ entries (initCalls node)) ++ entries (initCalls node), e.call.isRead = true := by
    intro e he; exact initCalls_reads node e (by simpa using he)
  generalize initState node (initState node node.newState store) store = st at hg ⊢
  generalize hw0 : ({ store := store, log := ([] ++ entries (initCalls node)) ++ entries (initCalls node) } : World) = w0 at hg ⊢
  have hr0' : ∀ e ∈ w0.log, e.call.isRead = true := by rw [← hw0]; exact hr0
  obtain ⟨added, ext, rem, hs, hl, hd⟩ := deleteLoop_log (scan_childConsumes node filter bs) (remaining_reads node)
    (st.size + 2) 0 st w0
  have hdw := deleteWorld_of hg hr0' hs hl hd
  simp only [drain, Plan.poll, Bool.false_eq_true, if_false]
  rcases hloop : DeletePlan.loop (node.child filter) bs (st.size + 2) 0 st none w0 with ⟨⟨⟨r, n⟩, st'⟩, w'⟩
  rw [hloop] at hdw
  simp only at hdw
  cases r with
  | error e => exact hdw
  | ok m =>
    simp
    exact hdw

/-- DeletePlan over LimitPlan over a scan -/
theorem run_deleteLimit (node : ScanNode) (filter : Filter) (a b : Nat) (kind : PollKind) (bs : Nat) (store : Store) :
    DeleteWorld node store
      (drain kind bs ((Plan.deleteLimit node filter a b false
          { lim := {}, child := initState node (initState node node.newState store) store }).size + 2)
        (.deleteLimit node filter a b false
          { lim := {}, child := initState node (initState node node.newState store) store }) [] none
        { store := store, log := ([] ++ entries (initCalls node)) ++ entries (initCalls node) }).2 := by
  have hg := good_after_inits node store
  have hr0 : ∀ e ∈ (([] : List Entry) ++ entries (initCalls node)) ++ entries (initCalls node), e.call.isRead = true := by
    intro e he; exact initCalls_reads node e (by simpa using he)
  generalize initState node (initState node node.newState store) store = st at hg ⊢
  generalize hw0 : ({ store := store, log := ([] ++ entries (initCalls node)) ++ entries (initCalls node) } : World) = w0 at hg ⊢
  have hr0' : ∀ e ∈ w0.log, e.call.isRead = true := by rw [← hw0]; exact hr0
  obtain ⟨added, ext, rem, hs, hl, hd⟩ := deleteLoop_log
    (limit_childConsumes (scan_childConsumes node filter bs) a b) (fun s => remaining_reads node s.child)
    (st.size + 2) 0 { lim := {}, child := st } w0
  have hdw := deleteWorld_of hg hr0' hs hl hd
  simp only [drain, Plan.poll, Bool.false_eq_true, if_false]
  rcases hloop : DeletePlan.loop (LimitPlan.child a b (node.child filter)) bs (st.size + 2) 0
    { lim := {}, child := st } none w0 with ⟨⟨⟨r, n⟩, st'⟩, w'⟩
  rw [hloop] at hdw
  simp only at hdw
  cases r with
  | error e => exact hdw
  | ok m =>
    simp
    exact hdw

end Kvql.Proofs.RunRegion
