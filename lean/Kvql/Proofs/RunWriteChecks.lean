/-
  Whole-statement theorems for the write statements: failure of any expression, and the hypotheses
  of the theorems as computable checks on what `planStage` returns for a statement text (so that
  the instances in Properties/E2EWrite.lean are closed by kernel evaluation).
-/
import Kvql.Proofs.RunWriteRef
import Kvql.Proofs.RunWriteAliasFree

namespace Kvql.Proofs.RunWrite
open Kvql Kvql.Run Kvql.Plans Kvql.Proofs.Plan Kvql.Proofs.Typing Kvql.Cache Kvql.Refine
open Kvql.PlanCheck (planStage)

/-! ### any failing expression fails the statement -/

/-- a PUT pair one of whose expressions fails: the key expression on the empty pair, or the value
    expression on (its own evaluated key, "") -/
def PutPairFails (p : Expr × Expr) : Prop :=
  (∃ e, bytesOf p.1 emptyKv = .error e) ∨ (∃ key e, bytesOf p.1 emptyKv = .ok key ∧ bytesOf p.2 ⟨key, []⟩ = .error e)

theorem putEval_error_of_fails : ∀ (pairs : List (Expr × Expr)), (∃ p ∈ pairs, PutPairFails p) →
    ∃ e, putEval pairs = .error e
  | [], ⟨_, hp, _⟩ => by cases hp
  | (k, v) :: rest, ⟨q, hq, hf⟩ => by
    simp only [putEval]
    cases hk : bytesOf k emptyKv with
    | error e => exact ⟨e, rfl⟩
    | ok key =>
      simp only
      cases hv : bytesOf v ⟨key, []⟩ with
      | error e => exact ⟨e, rfl⟩
      | ok val =>
        simp only
        rcases List.mem_cons.mp hq with h | h
        · subst h
          rcases hf with ⟨e, he⟩ | ⟨key', e, hk', he⟩
          · simp only at he; rw [hk] at he; cases he
          · simp only at hk' he
            rw [hk] at hk'
            injection hk' with hk'
            subst hk'
            rw [hv] at he; cases he
        · obtain ⟨e, he⟩ := putEval_error_of_fails rest ⟨q, h, hf⟩
          rw [he]; exact ⟨e, rfl⟩

theorem removeEval_error_of_fails : ∀ (keys : List Expr), (∃ k ∈ keys, ∃ e, bytesOf k emptyKv = .error e) →
    ∃ e, removeEval keys = .error e
  | [], ⟨_, hp, _⟩ => by cases hp
  | k :: rest, ⟨q, hq, e0, hf⟩ => by
    simp only [removeEval]
    cases hk : bytesOf k emptyKv with
    | error e => exact ⟨e, rfl⟩
    | ok key =>
      simp only
      rcases List.mem_cons.mp hq with h | h
      · subst h; rw [hk] at hf; cases hf
      · obtain ⟨e, he⟩ := removeEval_error_of_fails rest ⟨q, h, e0, hf⟩
        rw [he]; exact ⟨e, rfl⟩

/-! ### DELETE: the hypotheses as one Boolean check -/

/-- the WHERE of an accepted DELETE (a placeholder otherwise) -/
def deleteWhere (r : Res Stmt) : Expr :=
  match r with
  | .ok (.delete _ _ w _) => w
  | _ => .cycle

def deleteLimit (r : Res Stmt) : Option LimitS :=
  match r with
  | .ok (.delete _ _ _ l) => l
  | _ => none

/-- every hypothesis of the DELETE theorems about the accepted statement and the store: accepted as a
    DELETE, WHERE within `sideOk` and the core language, reference-evaluable on every stored pair -/
def deleteHyps (r : Res Stmt) (store : Storage.Store) : Bool :=
  match r with
  | .ok (.delete _ _ w _) =>
    sideOk w && Refine.core w && store.all (fun p => Spec.evaluable w ⟨p.1, p.2⟩)
  | _ => false

theorem deleteHyps_sound {r : Res Stmt} {store : Storage.Store} (h : deleteHyps r store = true) :
    ∃ pos wpos w lim, r = .ok (.delete pos wpos w lim) ∧ sideOk w = true ∧
      Refine.core w = true ∧ (∀ p ∈ store, Spec.evaluable w ⟨p.1, p.2⟩ = true) := by
  unfold deleteHyps at h
  split at h
  · rename_i pos wpos w lim
    simp only [Bool.and_eq_true, List.all_eq_true] at h
    obtain ⟨⟨h2, h3⟩, h4⟩ := h
    exact ⟨pos, wpos, w, lim, rfl, h2, h3, h4⟩
  · cases h

/-! ### PUT / REMOVE: the hypotheses as Boolean checks -/

def putPairsOf (r : Res Stmt) : List (Expr × Expr) :=
  match r with
  | .ok (.put _ pairs) => pairs
  | _ => []

def removeKeysOf (r : Res Stmt) : List Expr :=
  match r with
  | .ok (.remove _ keys) => keys
  | _ => []

def isPut (r : Res Stmt) : Bool :=
  match r with
  | .ok (.put ..) => true
  | _ => false

def isRemove (r : Res Stmt) : Bool :=
  match r with
  | .ok (.remove ..) => true
  | _ => false

theorem isPut_sound {r : Res Stmt} (h : isPut r = true) : ∃ pos, r = .ok (.put pos (putPairsOf r)) := by
  unfold isPut at h
  split at h
  · rename_i pos pairs; exact ⟨pos, rfl⟩
  · cases h

theorem isRemove_sound {r : Res Stmt} (h : isRemove r = true) : ∃ pos, r = .ok (.remove pos (removeKeysOf r)) := by
  unfold isRemove at h
  split at h
  · rename_i pos keys; exact ⟨pos, rfl⟩
  · cases h

/-- `putEval` gives exactly these pairs (a Boolean, for kernel evaluation) -/
def putEvalIs (pairs : List (Expr × Expr)) (kvps : List Storage.Pair) : Bool :=
  match putEval pairs with
  | .ok l => l == kvps
  | .error _ => false

theorem putEvalIs_sound {pairs : List (Expr × Expr)} {kvps : List Storage.Pair} (h : putEvalIs pairs kvps = true) :
    putEval pairs = .ok kvps := by
  unfold putEvalIs at h
  split at h
  · rename_i l hl
    rw [hl, eq_of_beq h]
  · cases h

def putEvalFails (pairs : List (Expr × Expr)) : Bool :=
  match putEval pairs with
  | .ok _ => false
  | .error _ => true

theorem putEvalFails_sound {pairs : List (Expr × Expr)} (h : putEvalFails pairs = true) : ∃ e, putEval pairs = .error e := by
  unfold putEvalFails at h
  split at h
  · cases h
  · rename_i e he; exact ⟨e, he⟩

def removeEvalIs (keys : List Expr) (ks : List Bytes) : Bool :=
  match removeEval keys with
  | .ok l => l == ks
  | .error _ => false

theorem removeEvalIs_sound {keys : List Expr} {ks : List Bytes} (h : removeEvalIs keys ks = true) :
    removeEval keys = .ok ks := by
  unfold removeEvalIs at h
  split at h
  · rename_i l hl
    rw [hl, eq_of_beq h]
  · cases h

end Kvql.Proofs.RunWrite
