/-
  C14 (e): COMPLETENESS of the engine's checker on a core sub-language — what the README typing
  `kindOf` allows is accepted by `Check`, and returned unchanged.

  `core` names what is left out, i.e. where the engine is knowingly stricter than the README:
    * `!…` as an operand of a comparison            (`checkWithCompares` has no case for `*NotExpr`)
    * `key` compared with `key`, `value` with `value` ("operator with two same field")
    * a literal zero divisor                         ("divide by zero", reported by the checker)
    * an empty IN list                               ("Empty list")
    * alias references                               (typed through the select list: `check_sound`)
  and the statement-form flags must allow `key` / `value`.
-/
import Kvql.Proofs.TypingFaultAll

namespace Kvql.Proofs.Typing

open Kvql Kvql.Generated Kvql.PlanCheck Kvql.Parser

/-! ### the core sub-language -/

def isNotNode : Expr → Bool
  | .not .. => true
  | _ => false

def isCompareOp : Op → Bool
  | .eq | .neq | .gt | .gte | .lt | .lte | .prefixMatch | .regexMatch => true
  | _ => false

/-- `key` compared with `key`, `value` with `value` ("operator with two same field") -/
def sameField : Expr → Expr → Bool
  | .field _ .key, .field _ .key => true
  | .field _ .value, .field _ .value => true
  | _, _ => false

/-- a literal zero divisor ("divide by zero" is reported by the checker) -/
def zeroLit : Expr → Bool
  | .num _ _ v => v == 0
  | .float _ _ v => v.isZero
  | _ => false

/-- the part of the README typing on which the engine's checker is not stricter -/
def core : Expr → Bool
  | .str .. | .field .. | .num .. | .float .. | .bool .. => true
  | .not _ r => core r
  | .call _ (.name ..) args => coreList args
  | .binop _ op l r =>
    match op, r with
    | .in_, .list _ items => core l && !items.isEmpty && coreList items
    | .between, .list _ items => core l && coreList items
    | op, r => core l && core r &&
        !(isCompareOp op && (isNotNode l || isNotNode r || sameField l r)) && !(op == .div && zeroLit r)
  | _ => false
where coreList : List Expr → Bool
  | [] => true
  | e :: es => core e && coreList es

/-- the shape of `core` on a binary node -/
theorem core_binop {p : Nat} {op : Op} {l r : Expr} (h : core (.binop p op l r) = true) :
    core l = true ∧
    ((op = .in_ ∧ ∃ q items, r = .list q items ∧ items ≠ [] ∧ core.coreList items = true) ∨
     (op = .between ∧ ∃ q items, r = .list q items ∧ core.coreList items = true) ∨
     ((∀ q items, r ≠ .list q items) ∧ core r = true ∧
       (isCompareOp op = true → isNotNode l = false ∧ isNotNode r = false ∧ sameField l r = false) ∧
       (op = .div → zeroLit r = false))) := by
  by_cases hl : ∃ q items, r = .list q items
  · obtain ⟨q, items, rfl⟩ := hl
    cases op <;> simp [core] at h
    case in_ => exact ⟨h.1.1, .inl ⟨rfl, q, items, rfl, by simpa using h.1.2, h.2⟩⟩
    case between => exact ⟨h.1, .inr (.inl ⟨rfl, q, items, rfl, h.2⟩)⟩
  · have hnl : ∀ q items, r ≠ .list q items := fun q items he => hl ⟨q, items, he⟩
    have hgen : core l = true ∧ core r = true ∧
        (!(isCompareOp op && (isNotNode l || isNotNode r || sameField l r))) = true ∧
        (!(op == .div && zeroLit r)) = true := by
      cases op <;> cases r <;> simp_all [core]
    refine ⟨hgen.1, .inr (.inr ⟨hnl, hgen.2.1, ?_, ?_⟩)⟩
    · intro hc
      have := hgen.2.2.1
      simp only [hc, Bool.true_and, Bool.not_eq_true', Bool.or_eq_false_iff] at this
      exact ⟨this.1.1, this.1.2, this.2⟩
    · intro hd
      have := hgen.2.2.2
      subst hd
      simpa using this

mutual
  theorem core_plain : ∀ e : Expr, core e = true → plain e = true
    | .binop _ op l r, h => by
      simp only [plain, Bool.and_eq_true]
      obtain ⟨hl, hr⟩ := core_binop h
      refine ⟨core_plain l hl, ?_⟩
      rcases hr with ⟨_, q, items, rfl, _, hi⟩ | ⟨_, q, items, rfl, hi⟩ | ⟨_, hr, _⟩
      · simpa [plain] using coreList_plain items hi
      · simpa [plain] using coreList_plain items hi
      · exact core_plain r hr
    | .not _ r, h => by
      simp only [core] at h
      simp only [plain]
      exact core_plain r h
    | .call _ nm args, h => by
      cases nm <;> simp only [core] at h <;> try (cases h)
      simp only [plain]
      exact coreList_plain args h
    | .str .., _ | .field .., _ | .num .., _ | .float .., _ | .bool .., _ => by simp [plain]
    | .name .., h | .ref .., h | .cycle, h | .list .., h | .access .., h => by simp [core] at h
  theorem coreList_plain : ∀ es : List Expr, core.coreList es = true → plain.plainList es = true
    | [], _ => by simp [plain.plainList]
    | e :: es, h => by
      simp only [core.coreList, Bool.and_eq_true] at h
      simp [plain.plainList, core_plain e h.1, coreList_plain es h.2]
end

/-! ### the engine's rules evaluated forward on plain, well-kinded operands -/

theorem check_binop_eval {ctx : CheckCtx} {pos : Nat} {op : Op} {l r : Expr}
    (hl : plain l = true) (hr : plain r = true) (cl : ctx.check l = .ok l) (cr : ctx.check r = .ok r)
    (hop : ctx.checkOp pos op l r = .ok ()) : ctx.check (.binop pos op l r) = .ok (.binop pos op l r) := by
  simp only [CheckCtx.check, cl, cr, Res.bind_ok, rewrite_plain ctx hl, rewrite_plain ctx hr, hop]
  rfl

theorem rt_of_kind {ctx : CheckCtx} {e : Expr} {k : Kind} (hp : plain e = true) (hk : kindOf e = some k) :
    ctx.rt e = .ok k.code := by
  rw [rt_plain ctx e hp, code_of_kind hk]

theorem bool_shape {l : Expr} (hk : kindOf l = some .bool) (hc : core l = true) : isBoolOperand l = true := by
  cases l <;> first
    | (simp [isBoolOperand, isBoolish]; done)
    | (simp [kindOf] at hk; done)
    | (simp [core] at hc; done)

theorem andOrSide_eval {ctx : CheckCtx} {l : Expr} (hk : kindOf l = some .bool) (hc : core l = true) :
    ctx.checkAndOrSide l = .ok () := by
  unfold CheckCtx.checkAndOrSide
  simp only [bool_shape hk hc, if_true, rt_of_kind (core_plain l hc) hk, Res.bind_ok]
  simp [Kind.code]

theorem mathSide_eval {ctx : CheckCtx} {l : Expr} {k : Kind} (hk : kindOf l = some k) (hc : core l = true)
    (hkk : k = .text ∨ k = .num) : ctx.mathSide l = .ok (k == .text) := by
  have hrt := rt_of_kind (ctx := ctx) (core_plain l hc) hk
  cases l with
  | str p d => simp [kindOf] at hk; subst hk; rfl
  | field p kw => simp [kindOf] at hk; subst hk; rfl
  | bool p d v => simp [kindOf] at hk; subst hk; simp at hkk
  | not p r =>
    simp only [kindOf] at hk
    split at hk <;> simp at hk
    subst hk; simp at hkk
  | num p d v =>
    simp only [CheckCtx.mathSide, hrt, Res.bind_ok]
    rcases hkk with rfl | rfl <;> simp [Kind.code, tyTSTR, tyTNUMBER] <;> rfl
  | float p d v =>
    simp only [CheckCtx.mathSide, hrt, Res.bind_ok]
    rcases hkk with rfl | rfl <;> simp [Kind.code, tyTSTR, tyTNUMBER] <;> rfl
  | binop p op a b =>
    simp only [CheckCtx.mathSide, hrt, Res.bind_ok]
    rcases hkk with rfl | rfl <;> simp [Kind.code, tyTSTR, tyTNUMBER] <;> rfl
  | call p nm args =>
    simp only [CheckCtx.mathSide, hrt, Res.bind_ok]
    rcases hkk with rfl | rfl <;> simp [Kind.code, tyTSTR, tyTNUMBER] <;> rfl
  | _ => simp [core] at hc

theorem checkWithMath_eval {ctx : CheckCtx} {op : Op} {l r : Expr} {k : Kind}
    (hl : kindOf l = some k) (hr : kindOf r = some k) (cl : core l = true) (cr : core r = true)
    (hkk : (op = .add ∧ k = .text) ∨ k = .num) (hop : op = .add ∨ op = .sub ∨ op = .mul ∨ op = .div)
    (hz : op = .div → zeroLit r = false) : ctx.checkWithMath op l r = .ok () := by
  have hk' : k = .text ∨ k = .num := by rcases hkk with ⟨_, h⟩ | h <;> simp [h]
  unfold CheckCtx.checkWithMath
  simp only [mathSide_eval hl cl hk', mathSide_eval hr cr hk', Res.bind_ok]
  rcases hkk with ⟨rfl, rfl⟩ | rfl
  · simp
  · have e1 : (Kind.num == Kind.text) = false := by decide
    simp only [e1]
    rcases hop with rfl | rfl | rfl | rfl
    · simp
    · simp
    · simp
    · have hz' := hz rfl
      cases r <;> simp [zeroLit] at hz' <;> simp [hz']

/-- how many `key` / `value` fields `checkWithCompares` counts on one side -/
def fieldCount : Expr → Nat × Nat
  | .field _ .key => (1, 0)
  | .field _ .value => (0, 1)
  | _ => (0, 0)

theorem compareSide_eval {l : Expr} (hc : core l = true) (hn : isNotNode l = false) :
    compareSide l = .ok (fieldCount l) := by
  cases l <;> first
    | rfl
    | (rename_i kw; cases kw <;> rfl)
    | (simp [isNotNode] at hn; done)
    | (simp [core] at hc; done)

theorem sameField_counts {l r : Expr} (h : sameField l r = false) :
    ((fieldCount l).1 + (fieldCount r).1 == 2 || (fieldCount l).2 + (fieldCount r).2 == 2) = false := by
  have key : ∀ x : Expr, fieldCount x = (0, 0) ∨ (∃ p, x = .field p .key) ∨ (∃ p, x = .field p .value) := by
    intro x
    cases x with
    | field p kw => cases kw <;> simp
    | _ => exact .inl rfl
  rcases key l with hl | ⟨p, rfl⟩ | ⟨p, rfl⟩ <;> rcases key r with hr | ⟨q, rfl⟩ | ⟨q, rfl⟩ <;>
    simp_all [fieldCount, sameField]

theorem checkWithCompares_eval {ctx : CheckCtx} {pos : Nat} {op : Op} {l r : Expr} {k : Kind}
    (hl : kindOf l = some k) (hr : kindOf r = some k) (cl : core l = true) (cr : core r = true)
    (hn : isNotNode l = false ∧ isNotNode r = false ∧ sameField l r = false)
    (hop : ((op = .eq ∨ op = .neq) ∧ k.scalar = true) ∨
           ((op = .gt ∨ op = .gte ∨ op = .lt ∨ op = .lte) ∧ (k = .text ∨ k = .num)) ∨
           ((op = .prefixMatch ∨ op = .regexMatch) ∧ k = .text)) :
    ctx.checkWithCompares pos op l r = .ok () := by
  unfold CheckCtx.checkWithCompares
  simp only [compareSide_eval cl hn.1, compareSide_eval cr hn.2.1, Res.bind_ok, sameField_counts hn.2.2]
  simp only [rt_of_kind (core_plain l cl) hl, rt_of_kind (core_plain r cr) hr, Res.bind_ok]
  rcases hop with ⟨ho, hs⟩ | ⟨ho, hk⟩ | ⟨ho, rfl⟩
  · rcases ho with rfl | rfl <;> cases k <;> simp [Kind.scalar] at hs <;>
      simp [Kind.code, tyTSTR, tyTNUMBER, tyTBOOL]
  · rcases ho with rfl | rfl | rfl | rfl <;> rcases hk with rfl | rfl <;>
      simp [Kind.code, tyTSTR, tyTNUMBER]
  · rcases ho with rfl | rfl <;> simp [Kind.code, tyTSTR]

theorem checkItems_eval {ctx : CheckCtx} : ∀ {items : List Expr}, (∀ x ∈ items, ctx.check x = .ok x) →
    ctx.checkItems items = .ok items
  | [], _ => by unfold CheckCtx.checkItems; rfl
  | a :: as, h => by
    have ih : ctx.checkItems as = .ok as := checkItems_eval (fun x hx => h x (List.mem_cons_of_mem a hx))
    have ha : ctx.check a = .ok a := h a List.mem_cons_self
    unfold CheckCtx.checkItems
    simp only [ha, Res.bind_ok, ih]
    rfl

theorem checkArgs_eval {ctx : CheckCtx} : ∀ {args : List Expr}, (∀ x ∈ args, ctx.check x = .ok x) →
    (∀ x ∈ args, ∀ p d, x ≠ .name p d) → ctx.checkArgs args = .ok args
  | [], _, _ => by unfold CheckCtx.checkArgs; rfl
  | a :: as, h, hn => by
    have ih : ctx.checkArgs as = .ok as :=
      checkArgs_eval (fun x hx => h x (List.mem_cons_of_mem a hx)) (fun x hx => hn x (List.mem_cons_of_mem a hx))
    have hca : ctx.check a = .ok a := h a List.mem_cons_self
    have hna : ∀ p d, a ≠ .name p d := hn a List.mem_cons_self
    cases a with
    | name p d => exact absurd rfl (hna p d)
    | _ =>
      unfold CheckCtx.checkArgs
      simp only [hca, Res.bind_ok, ih]
      rfl

theorem inItems_eval {ctx : CheckCtx} {T : Nat} : ∀ {items : List Expr}, (∀ x ∈ items, ctx.rt x = .ok T) →
    ctx.inItems T items = .ok ()
  | [], _ => by unfold CheckCtx.inItems; rfl
  | a :: as, h => by
    unfold CheckCtx.inItems
    have ha : ctx.rt a = .ok T := h a List.mem_cons_self
    simp only [ha, Res.bind_ok, bne_self_eq_false, Bool.false_eq_true, if_false]
    exact inItems_eval (fun x hx => h x (List.mem_cons_of_mem a hx))

theorem listTypes_go_eval {ctx : CheckCtx} {T : Nat} : ∀ {items : List Expr}, (∀ x ∈ items, ctx.rt x = .ok T) →
    CheckCtx.listTypes.go ctx T items = .ok ()
  | [], _ => by unfold CheckCtx.listTypes.go; rfl
  | a :: as, h => by
    unfold CheckCtx.listTypes.go
    have ha : ctx.rt a = .ok T := h a List.mem_cons_self
    simp only [ha, Res.bind_ok, bne_self_eq_false, Bool.false_eq_true, if_false]
    exact listTypes_go_eval (fun x hx => h x (List.mem_cons_of_mem a hx))

theorem listTypes_eval {ctx : CheckCtx} {T q : Nat} {items : List Expr} (h : ∀ x ∈ items, ctx.rt x = .ok T)
    (hne : items ≠ []) : ctx.listTypes q items = .ok () := by
  cases items with
  | nil => exact absurd rfl hne
  | cons a as =>
    unfold CheckCtx.listTypes
    dsimp only
    split
    · rfl
    · have ha : ctx.rt a = .ok T := h a List.mem_cons_self
      simp only [ha, Res.bind_ok]
      exact listTypes_go_eval (fun x hx => h x (List.mem_cons_of_mem a hx))

theorem check_list_eval {ctx : CheckCtx} {T q : Nat} {items : List Expr} (hne : items ≠ [])
    (hc : ∀ x ∈ items, ctx.check x = .ok x) (ht : ∀ x ∈ items, ctx.rt x = .ok T) :
    ctx.check (.list q items) = .ok (.list q items) := by
  cases items with
  | nil => exact absurd rfl hne
  | cons a as =>
    simp only [CheckCtx.check, checkItems_eval hc, Res.bind_ok, listTypes_eval ht hne]
    rfl

theorem allKind_mem {k : Kind} : ∀ {items : List Expr}, allKind k items = true → ∀ x ∈ items, kindOf x = some k
  | [], _, x, hx => by simp at hx
  | y :: ys, h, x, hx => by
    simp only [allKind, Bool.and_eq_true, beq_iff_eq] at h
    rcases List.mem_cons.mp hx with rfl | hx'
    · exact h.1
    · exact allKind_mem h.2 x hx'

theorem coreList_mem : ∀ {xs : List Expr}, core.coreList xs = true → ∀ x ∈ xs, core x = true
  | [], _, x, hx => by simp at hx
  | y :: ys, h, x, hx => by
    simp only [core.coreList, Bool.and_eq_true] at h
    rcases List.mem_cons.mp hx with rfl | hx'
    · exact h.1
    · exact coreList_mem h.2 x hx'

/-! ### arguments of a well-kinded call are well-kinded -/

theorem isScalar_isSome {o : Option Kind} (h : isScalar o = true) : o.isSome = true := by
  cases o <;> simp [isScalar] at h ⊢

theorem isList_isSome {o : Option Kind} (h : isList o = true) : o.isSome = true := by
  cases o <;> simp [isList] at h ⊢

theorem allScalar_isSome : ∀ {rest : List Expr}, allScalar rest = true → ∀ a ∈ rest, (kindOf a).isSome = true
  | [], _, a, ha => by simp at ha
  | b :: bs, h, a, ha => by
    simp only [allScalar, Bool.and_eq_true] at h
    rcases List.mem_cons.mp ha with rfl | ha'
    · exact isScalar_isSome h.1
    · exact allScalar_isSome h.2 a ha'

theorem argsOk_isSome (b : Body) (args : List Expr) (h : argsOk b args = true) :
    ∀ a ∈ args, (kindOf a).isSome = true := by
  intro a ha
  cases b
  case lower | upper | json =>
    rcases args with _ | ⟨a0, _ | ⟨a1, r⟩⟩ <;> simp [argsOk] at h
    simp at ha; subst ha; simp [h]
  case toInt | toFloat | toStr | strlen | isInt | isFloat =>
    rcases args with _ | ⟨a0, _ | ⟨a1, r⟩⟩ <;> first | (simp [argsOk] at h; done) | skip
    simp only [argsOk] at h
    simp at ha; subst ha; exact isScalar_isSome h
  case subStr =>
    rcases args with _ | ⟨a0, _ | ⟨a1, _ | ⟨a2, _ | ⟨a3, r⟩⟩⟩⟩ <;> simp [argsOk] at h
    simp at ha
    rcases ha with rfl | rfl | rfl <;> simp [h]
  case split =>
    rcases args with _ | ⟨a0, _ | ⟨a1, _ | ⟨a2, r⟩⟩⟩ <;> simp [argsOk] at h
    simp at ha
    rcases ha with rfl | rfl <;> simp [h]
  case join =>
    rcases args with _ | ⟨a0, rest⟩ <;> simp only [argsOk, Bool.and_eq_true, beq_iff_eq] at h
    · cases h
    · rcases List.mem_cons.mp ha with rfl | ha'
      · simp [h.1]
      · exact allScalar_isSome h.2 a ha'
  case len =>
    rcases args with _ | ⟨a0, _ | ⟨a1, r⟩⟩ <;> first | (simp [argsOk] at h; done) | skip
    simp only [argsOk, Bool.or_eq_true, beq_iff_eq] at h
    simp at ha; subst ha
    rcases h with h | h
    · exact isList_isSome h
    · simp [h]
  case cosine | l2 =>
    rcases args with _ | ⟨a0, _ | ⟨a1, _ | ⟨a2, r⟩⟩⟩ <;> first | (simp [argsOk] at h; done) | skip
    simp only [argsOk, Bool.and_eq_true] at h
    simp at ha
    rcases ha with rfl | rfl
    · exact isList_isSome h.1
    · exact isList_isSome h.2
  case toList | intList | floatList =>
    rcases args with _ | ⟨a0, rest⟩ <;> simp only [argsOk, Bool.and_eq_true] at h
    · cases h
    · rcases List.mem_cons.mp ha with rfl | ha'
      · exact isScalar_isSome h.1
      · exact allScalar_isSome h.2 a ha'

theorem kind_call_args {p : Nat} {nm : Expr} {args : List Expr} {k : Kind}
    (h : kindOf (.call p nm args) = some k) : ∀ a ∈ args, (kindOf a).isSome = true := by
  simp only [kindOf] at h
  split at h
  · cases h
  · split at h
    · cases h
    · split at h
      · cases h
      · split at h
        · cases h
        · split at h
          · cases h
          · rename_i b _
            split at h
            · rename_i hargs
              exact argsOk_isSome b args hargs
            · cases h

/-! ### C14 (e) -/

theorem beq_some_eq {o : Option Kind} {k : Kind} (h : (o == some k) = true) : o = some k := by
  simpa using h

theorem core_not_list {r : Expr} {k : Kind} (h : kindOf r = some k) : ∀ q items, r ≠ .list q items := by
  intro q items he
  subst he
  simp [kindOf] at h

/-- from `core` of a binary node whose right operand is well-kinded (hence no list) -/
theorem core_binop_gen {p : Nat} {op : Op} {l r : Expr} {kr : Kind} (h : core (.binop p op l r) = true)
    (hr : kindOf r = some kr) :
    core l = true ∧ core r = true ∧
    (isCompareOp op = true → isNotNode l = false ∧ isNotNode r = false ∧ sameField l r = false) ∧
    (op = .div → zeroLit r = false) := by
  obtain ⟨hl, hcase⟩ := core_binop h
  rcases hcase with ⟨_, q, items, rfl, _⟩ | ⟨_, q, items, rfl, _⟩ | ⟨_, h2, h3, h4⟩
  · simp [kindOf] at hr
  · simp [kindOf] at hr
  · exact ⟨hl, h2, h3, h4⟩

mutual
  theorem check_complete_aux (ctx : CheckCtx) (hk : ctx.notAllowKey = false) (hv : ctx.notAllowValue = false) :
      ∀ (e : Expr) (k : Kind), kindOf e = some k → core e = true → ctx.check e = .ok e
    | .str .., _, _, _ => by simp [CheckCtx.check]
    | .num .., _, _, _ => by simp [CheckCtx.check]
    | .float .., _, _, _ => by simp [CheckCtx.check]
    | .bool .., _, _, _ => by simp [CheckCtx.check]
    | .field p kw, _, _, _ => by simp [CheckCtx.check, hk, hv]
    | .name .., _, _, hc | .ref .., _, _, hc | .cycle, _, _, hc | .list .., _, _, hc | .access .., _, _, hc => by
      simp [core] at hc
    | .not p r, k, h, hc => by
      simp only [core] at hc
      simp only [kindOf] at h
      split at h
      · rename_i hb
        have hkr := beq_some_eq hb
        have cr := check_complete_aux ctx hk hv r .bool hkr hc
        simp only [CheckCtx.check, cr, Res.bind_ok, rt_of_kind (core_plain r hc) hkr]
        simp [Kind.code]
      · cases h
    | .call p nm args, k, h, hc => by
      cases nm with
      | name q d =>
        simp only [core] at hc
        have hsome := kind_call_args h
        have hargs : ctx.checkArgs args = .ok args := by
          apply checkArgs_eval
          · intro x hx
            obtain ⟨kx, hkx⟩ := Option.isSome_iff_exists.mp (hsome x hx)
            exact check_complete_list ctx hk hv args hc x hx kx hkx
          · intro x hx p' d' he
            subst he
            have := hsome _ hx
            simp [kindOf] at this
        simp only [CheckCtx.check, hargs, Res.bind_ok]
        rfl
      | _ => simp [core] at hc
    | .binop p op l r, k, h, hc => by
      cases op
      case and | or | kwAnd | kwOr =>
        simp only [kindOf] at h
        split at h
        · rename_i hb
          simp only [Bool.and_eq_true] at hb
          have hkl := beq_some_eq hb.1
          have hkr := beq_some_eq hb.2
          obtain ⟨cl, cr, _, _⟩ := core_binop_gen hc hkr
          refine check_binop_eval (core_plain l cl) (core_plain r cr)
            (check_complete_aux ctx hk hv l _ hkl cl) (check_complete_aux ctx hk hv r _ hkr cr) ?_
          simp only [CheckCtx.checkOp, CheckCtx.checkWithAndOr, andOrSide_eval hkl cl, andOrSide_eval hkr cr,
            Res.bind_ok]
        · cases h
      case not => simp [kindOf] at h
      case eq | neq =>
        simp only [kindOf] at h
        split at h
        · rename_i hb
          simp only [Bool.and_eq_true] at hb
          cases hkl : kindOf l with
          | none => simp [hkl, isScalar] at hb
          | some kl =>
            have hkr : kindOf r = some kl := by
              have h2 := hb.2
              rw [hkl] at h2
              have h3 : some kl = kindOf r := by simpa using h2
              exact h3.symm
            have hsc : kl.scalar = true := by
              have := hb.1; rw [hkl] at this
              cases kl <;> simp [isScalar] at this <;> rfl
            obtain ⟨cl, cr, hcmp, _⟩ := core_binop_gen hc hkr
            refine check_binop_eval (core_plain l cl) (core_plain r cr)
              (check_complete_aux ctx hk hv l _ hkl cl) (check_complete_aux ctx hk hv r _ hkr cr) ?_
            simp only [CheckCtx.checkOp]
            exact checkWithCompares_eval hkl hkr cl cr (hcmp rfl) (.inl ⟨by simp, hsc⟩)
        · cases h
      case gt | gte | lt | lte =>
        simp only [kindOf] at h
        split at h
        · rename_i hb
          simp only [Bool.and_eq_true, Bool.or_eq_true] at hb
          cases hkl : kindOf l with
          | none => simp [hkl] at hb
          | some kl =>
            have hkr : kindOf r = some kl := by
              have h2 := hb.2
              rw [hkl] at h2
              have h3 : some kl = kindOf r := by simpa using h2
              exact h3.symm
            have htn : kl = .text ∨ kl = .num := by
              have := hb.1; rw [hkl] at this
              rcases this with h1 | h1
              · exact .inl (by simpa using h1)
              · exact .inr (by simpa using h1)
            obtain ⟨cl, cr, hcmp, _⟩ := core_binop_gen hc hkr
            refine check_binop_eval (core_plain l cl) (core_plain r cr)
              (check_complete_aux ctx hk hv l _ hkl cl) (check_complete_aux ctx hk hv r _ hkr cr) ?_
            simp only [CheckCtx.checkOp]
            exact checkWithCompares_eval hkl hkr cl cr (hcmp rfl) (.inr (.inl ⟨by simp, htn⟩))
        · cases h
      case prefixMatch | regexMatch =>
        simp only [kindOf] at h
        split at h
        · rename_i hb
          simp only [Bool.and_eq_true] at hb
          have hkl := beq_some_eq hb.1
          have hkr := beq_some_eq hb.2
          obtain ⟨cl, cr, hcmp, _⟩ := core_binop_gen hc hkr
          refine check_binop_eval (core_plain l cl) (core_plain r cr)
            (check_complete_aux ctx hk hv l _ hkl cl) (check_complete_aux ctx hk hv r _ hkr cr) ?_
          simp only [CheckCtx.checkOp]
          exact checkWithCompares_eval hkl hkr cl cr (hcmp rfl) (.inr (.inr ⟨by simp, rfl⟩))
        · cases h
      case add =>
        simp only [kindOf] at h
        split at h
        · rename_i hb
          simp only [Bool.and_eq_true] at hb
          have hkl := beq_some_eq hb.1
          have hkr := beq_some_eq hb.2
          obtain ⟨cl, cr, _, hz⟩ := core_binop_gen hc hkr
          refine check_binop_eval (core_plain l cl) (core_plain r cr)
            (check_complete_aux ctx hk hv l _ hkl cl) (check_complete_aux ctx hk hv r _ hkr cr) ?_
          simp only [CheckCtx.checkOp]
          exact checkWithMath_eval hkl hkr cl cr (.inl ⟨rfl, rfl⟩) (by simp) hz
        · split at h
          · rename_i hb
            simp only [Bool.and_eq_true] at hb
            have hkl := beq_some_eq hb.1
            have hkr := beq_some_eq hb.2
            obtain ⟨cl, cr, _, hz⟩ := core_binop_gen hc hkr
            refine check_binop_eval (core_plain l cl) (core_plain r cr)
              (check_complete_aux ctx hk hv l _ hkl cl) (check_complete_aux ctx hk hv r _ hkr cr) ?_
            simp only [CheckCtx.checkOp]
            exact checkWithMath_eval hkl hkr cl cr (.inr rfl) (by simp) hz
          · cases h
      case sub | mul | div =>
        simp only [kindOf] at h
        split at h
        · rename_i hb
          simp only [Bool.and_eq_true] at hb
          have hkl := beq_some_eq hb.1
          have hkr := beq_some_eq hb.2
          obtain ⟨cl, cr, _, hz⟩ := core_binop_gen hc hkr
          refine check_binop_eval (core_plain l cl) (core_plain r cr)
            (check_complete_aux ctx hk hv l _ hkl cl) (check_complete_aux ctx hk hv r _ hkr cr) ?_
          simp only [CheckCtx.checkOp]
          exact checkWithMath_eval hkl hkr cl cr (.inr rfl) (by simp) hz
        · cases h
      case in_ =>
        cases r with
        | list q items =>
          -- a literal list
          have hcc : core l = true ∧ items ≠ [] ∧ core.coreList items = true := by
            simp only [core, Bool.and_eq_true] at hc
            exact ⟨hc.1.1, by simpa using hc.1.2, hc.2⟩
          obtain ⟨cl, hne, hci⟩ := hcc
          rw [kindOf] at h
          have hkey : ∃ kl, kindOf l = some kl ∧ (kl = .text ∨ kl = .num) ∧ allKind kl items = true := by

            split at h
            · rename_i hb
              split at h
              · rename_i ha; exact ⟨.text, beq_some_eq hb, .inl rfl, ha⟩
              · cases h
            · split at h
              · rename_i hb
                split at h
                · rename_i ha; exact ⟨.num, beq_some_eq hb, .inr rfl, ha⟩
                · cases h
              · cases h
          obtain ⟨kl, hkl, htn, hall⟩ := hkey
          have hkx := allKind_mem hall
          have hcx : ∀ x ∈ items, ctx.check x = .ok x := fun x hx =>
            check_complete_list ctx hk hv items hci x hx kl (hkx x hx)
          have htx : ∀ x ∈ items, ctx.rt x = .ok kl.code := fun x hx =>
            rt_of_kind (core_plain x (coreList_mem hci x hx)) (hkx x hx)
          have hpl : plain (.list q items) = true := by simpa [plain] using coreList_plain items hci
          refine check_binop_eval (core_plain l cl) hpl (check_complete_aux ctx hk hv l _ hkl cl)
            (check_list_eval hne hcx htx) ?_
          simp only [CheckCtx.checkOp, CheckCtx.checkWithIn, rt_of_kind (core_plain l cl) hkl, Res.bind_ok]
          rcases htn with rfl | rfl
          · simpa [Kind.code, tyTSTR, tyTNUMBER] using inItems_eval htx
          · simpa [Kind.code, tyTSTR, tyTNUMBER] using inItems_eval htx
        | call q nm args =>
          have hcc : core l = true ∧ core (.call q nm args) = true := by
            have := core_binop hc
            rcases this.2 with ⟨_, _, _, hh, _⟩ | ⟨hh, _⟩ | ⟨_, cr, _, _⟩
            · cases hh
            · cases hh
            · exact ⟨this.1, cr⟩
          obtain ⟨cl, cr⟩ := hcc
          rw [kindOf] at h

          split at h
          · rename_i hb
            simp only [Bool.or_eq_true, Bool.and_eq_true] at hb
            have hkey : ∃ kl kr, kindOf l = some kl ∧ kindOf (.call q nm args) = some kr ∧
                (kl = .text ∨ kl = .num) ∧ kr.code = tyTLIST := by
              rcases hb with ⟨h1, h2⟩ | ⟨h1, h2⟩
              · exact ⟨.text, .listText, beq_some_eq h1, beq_some_eq h2, .inl rfl, rfl⟩
              · exact ⟨.num, .listNum, beq_some_eq h1, beq_some_eq h2, .inr rfl, rfl⟩
            obtain ⟨kl, kr, hkl, hkr, htn, hcode⟩ := hkey
            refine check_binop_eval (core_plain l cl) (core_plain _ cr)
              (check_complete_aux ctx hk hv l _ hkl cl) (check_complete_aux ctx hk hv _ _ hkr cr) ?_
            simp only [CheckCtx.checkOp, CheckCtx.checkWithIn, rt_of_kind (core_plain l cl) hkl,
              rt_of_kind (core_plain _ cr) hkr, Res.bind_ok, hcode]
            rcases htn with rfl | rfl <;> simp [Kind.code, tyTSTR, tyTNUMBER]
          · cases h
        | ref _ _ _ =>
          have := core_binop hc
          rcases this.2 with ⟨_, _, _, hh, _⟩ | ⟨hh, _⟩ | ⟨_, cr, _, _⟩
          · cases hh
          · cases hh
          · simp [core] at cr
        | _ => simp [kindOf] at h
      case between =>
        cases r with
        | list q items =>
          have hcc : core l = true ∧ core.coreList items = true := by
            simp only [core, Bool.and_eq_true] at hc
            exact hc
          obtain ⟨cl, hci⟩ := hcc
          match items, h, hci with
          | [lo, hi], h, hci =>
            rw [kindOf] at h

            split at h
            · rename_i hb
              simp only [Bool.and_eq_true, Bool.or_eq_true] at hb
              cases hkl : kindOf l with
              | none => simp [hkl] at hb
              | some kl =>
                have htn : kl = .text ∨ kl = .num := by
                  have := hb.1.1; rw [hkl] at this
                  rcases this with h1 | h1
                  · exact .inl (by simpa using h1)
                  · exact .inr (by simpa using h1)
                have hklo : kindOf lo = some kl := by
                  have h2 := hb.1.2; rw [hkl] at h2; simpa using h2
                have hkhi : kindOf hi = some kl := by
                  have h2 := hb.2; rw [hkl] at h2; simpa using h2
                have hkx : ∀ x ∈ [lo, hi], kindOf x = some kl := by
                  intro x hx; simp at hx; rcases hx with rfl | rfl <;> assumption
                have hcx : ∀ x ∈ [lo, hi], ctx.check x = .ok x := fun x hx =>
                  check_complete_list ctx hk hv [lo, hi] hci x hx kl (hkx x hx)
                have htx : ∀ x ∈ [lo, hi], ctx.rt x = .ok kl.code := fun x hx =>
                  rt_of_kind (core_plain x (coreList_mem hci x hx)) (hkx x hx)
                have hpl : plain (.list q [lo, hi]) = true := by simpa [plain] using coreList_plain _ hci
                refine check_binop_eval (core_plain l cl) hpl (check_complete_aux ctx hk hv l _ hkl cl)
                  (check_list_eval (by simp) hcx htx) ?_
                simp only [CheckCtx.checkOp, CheckCtx.checkWithBetween, rt_of_kind (core_plain l cl) hkl,
                  Res.bind_ok, htx lo (by simp), htx hi (by simp)]
                rcases htn with rfl | rfl <;> simp [Kind.code, tyTSTR, tyTNUMBER]
            · cases h
          | [], h, _ => simp [kindOf] at h
          | [_], h, _ => simp [kindOf] at h
          | _ :: _ :: _ :: _, h, _ => simp [kindOf] at h
        | _ => simp [kindOf] at h
  theorem check_complete_list (ctx : CheckCtx) (hk : ctx.notAllowKey = false) (hv : ctx.notAllowValue = false) :
      ∀ (es : List Expr), core.coreList es = true → ∀ x ∈ es, ∀ k, kindOf x = some k → ctx.check x = .ok x
    | [], _, x, hx, _, _ => by simp at hx
    | e :: es, hc, x, hx, k, hkx => by
      simp only [core.coreList, Bool.and_eq_true] at hc
      rcases List.mem_cons.mp hx with heq | hx'
      · rw [heq] at hkx ⊢
        exact check_complete_aux ctx hk hv e k hkx hc.1
      · exact check_complete_list ctx hk hv es hc.2 x hx' k hkx
end


/-- COMPLETENESS, partial: every expression of the core sub-language that the README typing
    allows (`kindOf e = some k`) is accepted by `Check`, unchanged, in every context that allows
    `key` and `value` — whatever the select list -/
theorem check_complete_partial (ctx : CheckCtx) (hk : ctx.notAllowKey = false) (hv : ctx.notAllowValue = false)
    (e : Expr) (k : Kind) (h : kindOf e = some k) (hc : core e = true) : ctx.check e = .ok e :=
  check_complete_aux ctx hk hv e k h hc

/-- … and its plan-time validation succeeds: a well-kinded expression only calls known scalar
    functions with an admissible number of arguments.  (Stated for the call node itself.) -/
theorem kind_call_valid {p : Nat} {nm : Expr} {args : List Expr} {k : Kind}
    (h : kindOf (.call p nm args) = some k) :
    ∃ q d fo, nm = .name q d ∧ lookupFunc (toLower d) = some fo ∧
      ¬ (!fo.varArgs && args.length != fo.numArgs) = true ∧ ¬ (fo.varArgs && args.length < fo.numArgs) = true := by
  simp only [kindOf] at h
  split at h
  · cases h
  · rename_i fname hn
    obtain ⟨q, d, rfl, rfl⟩ := funcNameOf_ok hn
    split at h
    · cases h
    · rename_i fo hf
      split at h
      · cases h
      · rename_i h1
        split at h
        · cases h
        · rename_i h2
          exact ⟨q, d, fo, rfl, hf, h1, h2⟩

end Kvql.Proofs.Typing
