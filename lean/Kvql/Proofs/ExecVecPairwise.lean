/-
  `batch_pairwise` (C03 / C05 lemma): with the field cache switched off, `ExecuteBatch` on a
  non-empty chunk succeeds exactly when it succeeds on each pair taken as a chunk of its own, and
  then returns those pairs' values, in order; the context is left untouched.
  Every node kind and every function of `funcTable`; no static side condition.
  (Patched code: `execEqualBatch` chooses the comparison kind pair by pair — with the kind taken
  from `rleft[0]` the statement was false: `json(value)['a'] = json(value)['a']` on a number pair
  followed by a text pair.)
-/
import Kvql.Proofs.ExecVecPairwiseLemmas

namespace Kvql
open Generated

theorem throw_ne_ok {α} {e : Err} {c c' : Ctx} {a : α} : (M.throw e : M α) c ≠ (.ok a, c') := by simp

/-- strict binary operators: both operands, then `zipRows` with a per-pair kernel -/
theorem PW.zip {X Y Z : List Pair → M (List Value)} {K : Value → Value → Except Err Value}
    (hZ : ∀ chunk, Z chunk = (do let a ← X chunk; let b ← Y chunk; M.lift (zipRows K chunk.length a b)))
    (hX : PW X) (hY : PW Y) : PW Z :=
  PW.bin (F := fun chunk => zipRows K chunk.length) (K := K) hZ (fun ha hb h => zipRows_forall₂ ha hb h)
    (fun ha hb h => zipRows_F2 ha hb h) hX hY

theorem PW.map {X Z : List Pair → M (List Value)} {k : Value → Except Err Value}
    (hZ : ∀ chunk, Z chunk = (do let a ← X chunk; M.lift (mapRows k chunk.length a))) (hX : PW X) : PW Z :=
  PW.un (F := fun chunk => mapRows k chunk.length) (K := k) hZ (fun ha h => mapRows_F1 ha h) (fun ha h => mapRows_F2 ha h) hX

theorem PW.mapFresh {X Z : List Pair → M (List Value)} {f : Value → Value}
    (hZ : ∀ chunk, Z chunk = (do let a ← X chunk; M.lift (mapRowsFresh f chunk.length a))) (hX : PW X) : PW Z :=
  PW.un (F := fun chunk => mapRowsFresh f chunk.length) (K := fun a => .ok (f a)) hZ
    (fun ha h => mapRowsFresh_F1 ha h) (fun ha h => mapRowsFresh_F2 ha h) hX

/-- field access loops over `len(left)` -/
theorem PW.mapLen {X Z : List Pair → M (List Value)} {k : Value → Except Err Value}
    (hZ : ∀ chunk, Z chunk = (do let a ← X chunk; M.lift (mapRows k a.length a))) (hX : PW X) : PW Z :=
  PW.un (F := fun _ a => mapRows k a.length a) (K := k) hZ
    (fun {_ as _ chunk} ha h => by rw [ha.length_eq] at h; exact mapRows_F1 ha h)
    (fun {as _ _} _ h => mapRows_of_rows h) hX

theorem unary_body_pw {b : Body} {f : Value → Value} (hb : unaryOf b = some f) {a0 : Expr} {rest : List Expr}
    (ih : PW (execBatch a0)) : PW (vecBody b (a0 :: rest)) := by
  refine PW.mapFresh (X := execBatch a0) (f := f) (fun chunk => ?_) ih
  cases b <;> simp [unaryOf] at hb <;> subst hb <;> rw [vecBody]

mutual
  theorem pw_core : ∀ (e : Expr), PW (execBatch e)
    | .str p d => PW.congr (fun _ => by rw [execBatch]) (PW.const fun _ => .bytes d)
    | .field p k => by
      cases k
      · exact PW.congr (fun _ => by rw [execBatch]) (PW.const fun kv => .bytes kv.key)
      · exact PW.congr (fun _ => by rw [execBatch]) (PW.const fun kv => .bytes kv.value)
    | .name p d => PW.congr (fun _ => by rw [execBatch]) (PW.const fun _ => .str d)
    | .num p d v => PW.congr (fun _ => by rw [execBatch]) (PW.const fun _ => .int v)
    | .float p d v => PW.congr (fun _ => by rw [execBatch]) (PW.const fun _ => .float v)
    | .bool p d v => PW.congr (fun _ => by rw [execBatch]) (PW.const fun _ => .bool v)
    | .list p items => PW.congr (fun _ => by rw [execBatch]) (PW.const fun _ => .exprList items)
    | .cycle => PW.never fun chunk c vs c' => by rw [execBatch]; exact throw_ne_ok
    | .not p r => PW.map (X := execBatch r) (fun _ => by rw [execBatch]) (pw_core r)
    | .ref p name t => PW.ref (pw_core t)
    | .access p l f => by
      have ihl := pw_core l
      cases f with
      | str q d => exact PW.mapLen (X := execBatch l) (fun _ => by rw [execBatch]) ihl
      | num q d n => exact PW.mapLen (X := execBatch l) (fun _ => by rw [execBatch]) ihl
      | _ => exact PW.never fun chunk c vs c' => by rw [execBatch]; exact bind_throw_ne_ok
    | .call p nm args => by
      cases hn : funcNameOf nm with
      | error e => exact PW.never fun chunk c vs c' => by rw [execBatch, hn]; exact throw_ne_ok
      | ok fname =>
        cases hf : lookupFunc fname with
        | none => exact PW.never fun chunk c vs c' => by rw [execBatch, hn]; simp only [hf]; exact throw_ne_ok
        | some fo =>
          by_cases h1 : (!fo.varArgs && args.length != fo.numArgs) = true
          · exact PW.never (fun chunk c vs c' => by rw [execBatch, hn]; simp only [hf]; rw [if_pos h1]; exact throw_ne_ok)
          · by_cases h2 : (fo.varArgs && decide (args.length < fo.numArgs)) = true
            · exact PW.never (fun chunk c vs c' => by rw [execBatch, hn]; simp only [hf]; rw [if_neg h1, if_pos h2]; exact throw_ne_ok)
            · cases hb : fo.body with
              | none => exact PW.never (fun chunk c vs c' => by rw [execBatch, hn]; simp only [hf]; rw [if_neg h1, if_neg h2]; simp only [hb]; exact throw_ne_ok)
              | some b =>
                by_cases ht : fo.vecIsTwin = true
                · exact PW.congr (fun chunk => by
                    rw [execBatch, hn]; simp only [hf]; rw [if_neg h1, if_neg h2]; simp only [hb]; rw [if_pos ht])
                    (pw_body b args)
                · exact PW.congr (fun chunk => by
                    rw [execBatch, hn]; simp only [hf]; rw [if_neg h1, if_neg h2]; simp only [hb]; rw [if_neg ht])
                    (PW.rowWise fun kv => rowBody_inert b args kv)
    | .binop p op l r => by
      have ihl := pw_core l
      have ihr := pw_core r
      cases op with
      | and => exact PW.zip (K := andK) (fun _ => by rw [execBatch]; rfl) ihl ihr
      | kwAnd => exact PW.zip (K := andK) (fun _ => by rw [execBatch]; rfl) ihl ihr
      | or => exact PW.zip (K := orK) (fun _ => by rw [execBatch]; rfl) ihl ihr
      | kwOr => exact PW.zip (K := orK) (fun _ => by rw [execBatch]; rfl) ihl ihr
      | not => exact PW.never fun chunk c vs c' => by rw [execBatch]; exact throw_ne_ok
      | eq =>
        exact PW.bin (F := fun chunk => equalBatchFinish false chunk.length) (fun _ => by rw [execBatch])
          (fun ha hb h => equalBatchFinish_F ha hb h) (fun ha hb h => equalBatchFinish_F2 ha hb h) ihl ihr
      | neq =>
        exact PW.bin (F := fun chunk => equalBatchFinish true chunk.length) (fun _ => by rw [execBatch])
          (fun ha hb h => equalBatchFinish_F ha hb h) (fun ha hb h => equalBatchFinish_F2 ha hb h) ihl ihr
      | prefixMatch => exact PW.zip (K := prefixK) (fun _ => by rw [execBatch]; rfl) ihl ihr
      | regexMatch => exact PW.zip (K := regexK) (fun _ => by rw [execBatch]; rfl) ihl ihr
      | add =>
        cases hs : (retType l == tyTSTR)
        · exact PW.zip (K := fun x y => executeMathOp x y .add) (fun _ => by rw [execBatch]; simp [hs]) ihl ihr
        · exact PW.zip (K := concatK) (fun _ => by rw [execBatch]; simp [hs]; rfl) ihl ihr
      | sub => exact PW.zip (K := fun x y => executeMathOp x y .sub) (fun _ => by rw [execBatch]) ihl ihr
      | mul => exact PW.zip (K := fun x y => executeMathOp x y .mul) (fun _ => by rw [execBatch]) ihl ihr
      | div => exact PW.zip (K := fun x y => executeMathOp x y .div) (fun _ => by rw [execBatch]) ihl ihr
      | gt => exact PW.zip (K := fun x y => boolV (compareBy (!(retType l == tyTSTR)) x y .gt)) (fun _ => by rw [execBatch]) ihl ihr
      | gte => exact PW.zip (K := fun x y => boolV (compareBy (!(retType l == tyTSTR)) x y .gte)) (fun _ => by rw [execBatch]) ihl ihr
      | lt => exact PW.zip (K := fun x y => boolV (compareBy (!(retType l == tyTSTR)) x y .lt)) (fun _ => by rw [execBatch]) ihl ihr
      | lte => exact PW.zip (K := fun x y => boolV (compareBy (!(retType l == tyTSTR)) x y .lte)) (fun _ => by rw [execBatch]) ihl ihr
      | in_ =>
        cases r with
        | list q items =>
          exact PW.inList (X := execBatch l) (number := !(retType l == tyTSTR)) (items := items)
            (fun _ => by rw [execBatch]) ihl (items_pw _ items)
        | call q nm args =>
          exact PW.bin (F := fun chunk => inCallRows (!(retType l == tyTSTR)) chunk.length) (fun _ => by rfl)
            (fun ha hb h => inCallRows_F1 ha hb h) (fun ha hb h => inCallRows_F2 ha hb h) ihl ihr
        | ref q nm t =>
          exact PW.bin (F := fun chunk => inCallRows (!(retType l == tyTSTR)) chunk.length) (fun _ => by rfl)
            (fun ha hb h => inCallRows_F1 ha hb h) (fun ha hb h => inCallRows_F2 ha hb h) ihl ihr
        | _ => exact PW.never fun chunk c vs c' => by rw [execBatch]; exact bind_throw_ne_ok
      | between =>
        cases r with
        | list q items =>
          match items with
          | [lo, hi] =>
            by_cases c1 : (retType l == tyTSTR && retType lo != tyTSTR) = true
            · exact PW.never fun chunk c vs c' => by rw [execBatch]; simp only [if_pos c1]; exact bind_throw_ne_ok
            · by_cases c2 : (retType l == tyTSTR && retType hi != tyTSTR) = true
              · exact PW.never (fun chunk c vs c' => by rw [execBatch]; simp only [if_neg c1, if_pos c2]; exact bind_throw_ne_ok)
              · by_cases c3 : (!(retType l == tyTSTR) && retType lo != tyTNUMBER) = true
                · exact PW.never (fun chunk c vs c' => by rw [execBatch]; simp only [if_neg c1, if_neg c2, if_pos c3]; exact bind_throw_ne_ok)
                · by_cases c4 : (!(retType l == tyTSTR) && retType hi != tyTNUMBER) = true
                  · exact PW.never (fun chunk c vs c' => by rw [execBatch]; simp only [if_neg c1, if_neg c2, if_neg c3, if_pos c4]; exact bind_throw_ne_ok)
                  · exact PW.tern (X := execBatch l) (Y := execBatch lo) (W := execBatch hi)
                      (F := fun chunk => betweenRows (!(retType l == tyTSTR)) chunk.length)
                      (K := fun a b d => betweenRow (!(retType l == tyTSTR)) (some a) b d)
                      (fun _ => by rw [execBatch]; simp only [if_neg c1, if_neg c2, if_neg c3, if_neg c4])
                      (fun ha hb hd h => betweenRows_forall₂ ha hb hd h) (fun ha hb hd h => betweenRows_F2 ha hb hd h)
                      ihl (pw_core lo) (pw_core hi)
          | [] => exact PW.never fun chunk c vs c' => by rw [execBatch]; exact bind_throw_ne_ok
          | [_] => exact PW.never fun chunk c vs c' => by rw [execBatch]; exact bind_throw_ne_ok
          | _ :: _ :: _ :: _ => exact PW.never fun chunk c vs c' => by rw [execBatch]; exact bind_throw_ne_ok
        | _ => exact PW.never fun chunk c vs c' => by rw [execBatch]; exact bind_throw_ne_ok

  theorem items_pw : ∀ (number : Bool) (items : List Expr), ItemsPW number items
    | number, [] => by
      intro c _ chunk _ cols c'
      rw [execInItemsBatch]
      constructor
      · intro h; obtain ⟨rfl, rfl⟩ := pure_ok_inv h; exact ⟨rfl, .nil⟩
      · rintro ⟨rfl, R⟩; cases R; rfl
    | number, e :: es => by
      have ihe := pw_core e
      have ihs := items_pw number es
      intro c hc chunk hne cols c'
      rw [execInItemsBatch]
      by_cases ht : (retType e != (if number = true then tyTNUMBER else tyTSTR)) = true
      · rw [if_pos ht]
        constructor
        · intro h; exact absurd h throw_ne_ok
        · rintro ⟨_, R⟩
          cases R with
          | cons hp _ => simp [wantType] at hp; simp [hp.1] at ht
      · rw [if_neg ht]
        have htt : retType e = wantType number := by simpa [wantType] using ht
        constructor
        · intro h
          obtain ⟨vals, c1, hv, h1⟩ := bind_ok_inv h
          obtain ⟨e1, Rv⟩ := (ihe c hc chunk hne vals c1).mp hv
          rw [e1] at h1
          obtain ⟨rest, c2, hr, h2⟩ := bind_ok_inv h1
          obtain ⟨e2, Rr⟩ := (ihs c hc chunk hne rest c2).mp hr
          rw [e2] at h2
          obtain ⟨rfl, rfl⟩ := pure_ok_inv h2
          exact ⟨rfl, .cons ⟨htt, Rv⟩ Rr⟩
        · rintro ⟨rfl, R⟩
          cases R with
          | cons hp hr =>
            have hv := (ihe c' hc chunk hne _ c').mpr ⟨rfl, hp.2⟩
            have hrest := (ihs c' hc chunk hne _ c').mpr ⟨rfl, hr⟩
            rw [M.bind_ok hv, M.bind_ok hrest]; rfl

  theorem pw_body : ∀ (b : Body) (args : List Expr), PW (vecBody b args)
    | .join, args => PW.congr (fun _ => by rw [vecBody]) (PW.rowWise fun kv => rowBody_inert .join args kv)
    | .toList, args => PW.congr (fun _ => by rw [vecBody]) (PW.rowWise fun kv => rowBody_inert .toList args kv)
    | .intList, args => PW.congr (fun _ => by rw [vecBody]) (PW.rowWise fun kv => rowBody_inert .intList args kv)
    | .floatList, args => PW.congr (fun _ => by rw [vecBody]) (PW.rowWise fun kv => rowBody_inert .floatList args kv)
    | .lower, a0 :: _ => unary_body_pw rfl (pw_core a0)
    | .upper, a0 :: _ => unary_body_pw rfl (pw_core a0)
    | .toInt, a0 :: _ => unary_body_pw rfl (pw_core a0)
    | .toFloat, a0 :: _ => unary_body_pw rfl (pw_core a0)
    | .toStr, a0 :: _ => unary_body_pw rfl (pw_core a0)
    | .isInt, a0 :: _ => unary_body_pw rfl (pw_core a0)
    | .isFloat, a0 :: _ => unary_body_pw rfl (pw_core a0)
    | .strlen, a0 :: _ => unary_body_pw rfl (pw_core a0)
    | .len, a0 :: _ => PW.map (X := execBatch a0) (fun _ => by rw [vecBody]) (pw_core a0)
    | .json, a0 :: _ => PW.map (X := execBatch a0) (fun _ => by rw [vecBody]) (pw_core a0)
    | .subStr, a0 :: a1 :: a2 :: _ => by
      by_cases t1 : (retType a1 != tyTNUMBER) = true
      · exact PW.never fun chunk c vs c' => by rw [vecBody, if_pos t1]; exact throw_ne_ok
      · by_cases t2 : (retType a2 != tyTNUMBER) = true
        · exact PW.never fun chunk c vs c' => by rw [vecBody, if_neg t1, if_pos t2]; exact throw_ne_ok
        · exact PW.tern (X := execBatch a0) (Y := execBatch a1) (W := execBatch a2)
            (F := fun chunk => zip3Rows substrRow chunk.length) (K := substrRow)
            (fun _ => by rw [vecBody, if_neg t1, if_neg t2])
            (fun ha hb hd h => zip3Rows_forall₂ ha hb hd h) (fun ha hb hd h => zip3Rows_F2 ha hb hd h)
            (pw_core a0) (pw_core a1) (pw_core a2)
    | .split, a0 :: a1 :: _ => by
      by_cases t1 : (retType a1 != tyTSTR) = true
      · exact PW.never fun chunk c vs c' => by rw [vecBody, if_pos t1]; exact throw_ne_ok
      · exact PW.zip (X := execBatch a0) (Y := execBatch a1) (fun _ => by rw [vecBody, if_neg t1]) (pw_core a0) (pw_core a1)
    | .cosine, a0 :: a1 :: _ =>
      PW.bin (X := execBatch a0) (Y := execBatch a1)
        (F := fun chunk => zipRowsLazy (distanceRow cosineDistance) chunk.length)
        (K := fun a b => distanceRow cosineDistance a (some b)) (fun _ => by rw [vecBody])
        (fun ha hb h => zipRowsLazy_forall₂ ha hb h) (fun ha hb h => zipRowsLazy_F2 ha hb h) (pw_core a0) (pw_core a1)
    | .l2, a0 :: a1 :: _ =>
      PW.bin (X := execBatch a0) (Y := execBatch a1)
        (F := fun chunk => zipRowsLazy (distanceRow l2Distance) chunk.length)
        (K := fun a b => distanceRow l2Distance a (some b)) (fun _ => by rw [vecBody])
        (fun ha hb h => zipRowsLazy_forall₂ ha hb h) (fun ha hb h => zipRowsLazy_F2 ha hb h) (pw_core a0) (pw_core a1)
    | .lower, [] | .upper, [] | .toInt, [] | .toFloat, []
    | .toStr, [] | .isInt, [] | .isFloat, [] | .strlen, []
    | .len, [] | .json, []
    | .subStr, [] | .subStr, [_] | .subStr, [_, _]
    | .split, [] | .split, [_]
    | .cosine, [] | .cosine, [_]
    | .l2, [] | .l2, [_] => PW.never fun chunk c vs c' => by simp only [vecBody]; exact throw_ne_ok
end

theorem Rows.of_get {α β : Type} {P : α → β → Prop} :
    ∀ {as : List α} {bs : List β}, as.length = bs.length →
      (∀ (i : Nat) (h : i < bs.length), ∃ a, as[i]? = some a ∧ P a bs[i]) → Rows P as bs
  | [], [], _, _ => .nil
  | a :: as, b :: bs, hl, h => by
    obtain ⟨a', ha, hp⟩ := h 0 (by simp)
    simp at ha; subst ha
    refine .cons hp (Rows.of_get (by simpa using hl) fun i hi => ?_)
    obtain ⟨x, hx, hpx⟩ := h (i + 1) (by simpa using hi)
    exact ⟨x, by simpa using hx, by simpa using hpx⟩
  | [], _ :: _, hl, _ => by simp at hl
  | _ :: _, [], hl, _ => by simp at hl

end Kvql

namespace Kvql.Proofs.C03
open Kvql

/-- with the cache off and a non-empty chunk, `ExecuteBatch` is pair-wise (relational form; the
    context is left as it was) -/
theorem batch_pairwise_rows (e : Expr) (c : Ctx) (hc : c.enable = false) (chunk : List Pair) (hne : chunk ≠ [])
    (vs : List Value) (c' : Ctx) :
    execBatch e chunk c = (.ok vs, c') ↔
      (c' = c ∧ Rows (fun v kv => execBatch e [kv] c = (.ok [v], c)) vs chunk) :=
  pw_core e c hc chunk hne vs c'

/-- a successful batch evaluation never touches a cache-off context -/
theorem batch_ok_ctx (e : Expr) (c : Ctx) (hc : c.enable = false) (chunk : List Pair) (hne : chunk ≠ [])
    {vs : List Value} (h : (execBatch e chunk c).1 = .ok vs) : execBatch e chunk c = (.ok vs, c) := by
  rcases hx : execBatch e chunk c with ⟨r, c'⟩
  rw [hx] at h; simp at h; subst h
  obtain ⟨e1, _⟩ := (pw_core e c hc chunk hne vs c').mp hx
  rw [e1]

/-- `batch_pairwise`: the chunk succeeds with `vs` iff `vs` has one value per pair and each pair,
    evaluated as a chunk of its own, succeeds with that value -/
theorem batch_pairwise (e : Expr) (chunk : List Pair) (hne : chunk ≠ []) (vs : List Value) :
    (execBatch e chunk Ctx.off).1 = .ok vs ↔
      (vs.length = chunk.length ∧ ∀ (i : Nat) (hi : i < chunk.length),
        ∃ v, vs[i]? = some v ∧ (execBatch e [chunk[i]] Ctx.off).1 = .ok [v]) := by
  constructor
  · intro h
    have hx := batch_ok_ctx e Ctx.off rfl chunk hne h
    obtain ⟨_, R⟩ := (pw_core e Ctx.off rfl chunk hne vs Ctx.off).mp hx
    refine ⟨R.length_eq, fun i hi => ?_⟩
    obtain ⟨v, hv, hs⟩ := R.get i hi
    exact ⟨v, hv, by unfold Single at hs; rw [hs]⟩
  · rintro ⟨hl, h⟩
    have R : Rows (Single (execBatch e) Ctx.off) vs chunk := Rows.of_get hl fun i hi => by
      obtain ⟨v, hv, hs⟩ := h i hi
      exact ⟨v, hv, batch_ok_ctx e Ctx.off rfl [chunk[i]] (by simp) hs⟩
    rw [(pw_core e Ctx.off rfl chunk hne vs Ctx.off).mpr ⟨rfl, R⟩]

/-- the same for any context whose cache is off (a nil context included) -/
theorem batch_pairwise_off (e : Expr) (c : Ctx) (hc : c.enable = false) (chunk : List Pair) (hne : chunk ≠ [])
    (vs : List Value) :
    (execBatch e chunk c).1 = .ok vs ↔
      (vs.length = chunk.length ∧ ∀ (i : Nat) (hi : i < chunk.length),
        ∃ v, vs[i]? = some v ∧ (execBatch e [chunk[i]] c).1 = .ok [v]) := by
  constructor
  · intro h
    have hx := batch_ok_ctx e c hc chunk hne h
    obtain ⟨_, R⟩ := (pw_core e c hc chunk hne vs c).mp hx
    refine ⟨R.length_eq, fun i hi => ?_⟩
    obtain ⟨v, hv, hs⟩ := R.get i hi
    exact ⟨v, hv, by unfold Single at hs; rw [hs]⟩
  · rintro ⟨hl, h⟩
    have R : Rows (Single (execBatch e) c) vs chunk := Rows.of_get hl fun i hi => by
      obtain ⟨v, hv, hs⟩ := h i hi
      exact ⟨v, hv, batch_ok_ctx e c hc [chunk[i]] (by simp) hs⟩
    rw [(pw_core e c hc chunk hne vs c).mpr ⟨rfl, R⟩]

/-- non-vacuity: `key + 'x'` on two pairs, and on each pair alone -/
example :
    let e := Expr.binop 0 .add (.field 0 .key) (.str 0 [120])
    (execBatch e [⟨[97], []⟩, ⟨[98], []⟩] Ctx.off).1 = .ok [.bytes [97, 120], .bytes [98, 120]] ∧
    (execBatch e [⟨[97], []⟩] Ctx.off).1 = .ok [.bytes [97, 120]] ∧
    (execBatch e [⟨[98], []⟩] Ctx.off).1 = .ok [.bytes [98, 120]] := ⟨rfl, rfl, rfl⟩

end Kvql.Proofs.C03
