/-
  C17, positions in the tree: definitions.

  * `Expr.nodePositions` / `Expr.fieldPositions` / `Expr.positions`: the `Pos` fields that occur in
    an expression tree (the copy a `ref` node carries included; `cycle` has no `Pos`), split into
    those of KEY / VALUE field nodes and those of every other node kind — the split is what makes
    the one synthesised position of the front end (`select *` builds `&FieldExpr{Field: KeyKW}` and
    `&FieldExpr{Field: ValueKW}` with the zero `Pos`) statable exactly.
  * `Stmt.exprs`, `Stmt.clausePositions`, `Stmt.pos`, `Stmt.positions`.
  * the invariant `NodeOK T F e`: every node of `e` other than a KEY / VALUE node has its position
    in `T`, every KEY / VALUE node in `F`; `StmtOK T F s` the same for a statement (clause
    positions in `T`, the statement's own `Pos` in `F`).
  * `Suc r Q`: the success-only Hoare triple over `Res` (errors are `parse_err_pos`'s business).
-/
import Kvql.Proofs.ParserBasic

namespace Kvql

namespace Expr

mutual
  /-- the `Pos` of every node that is not a KEY / VALUE field node -/
  def nodePositions : Expr → List Nat
    | .binop p _ l r => p :: (nodePositions l ++ nodePositions r)
    | .field _ _ => []
    | .str p _ => [p]
    | .not p r => p :: nodePositions r
    | .call p n args => p :: (nodePositions n ++ nodePositionsList args)
    | .name p _ => [p]
    | .ref p _ t => p :: nodePositions t
    | .cycle => []
    | .num p _ _ => [p]
    | .float p _ _ => [p]
    | .bool p _ _ => [p]
    | .list p items => p :: nodePositionsList items
    | .access p l f => p :: (nodePositions l ++ nodePositions f)
  def nodePositionsList : List Expr → List Nat
    | [] => []
    | e :: es => nodePositions e ++ nodePositionsList es
end

mutual
  /-- the `Pos` of every KEY / VALUE field node (`*FieldExpr`) -/
  def fieldPositions : Expr → List Nat
    | .binop _ _ l r => fieldPositions l ++ fieldPositions r
    | .field p _ => [p]
    | .not _ r => fieldPositions r
    | .call _ n args => fieldPositions n ++ fieldPositionsList args
    | .ref _ _ t => fieldPositions t
    | .list _ items => fieldPositionsList items
    | .access _ l f => fieldPositions l ++ fieldPositions f
    | .str .. | .name .. | .cycle | .num .. | .float .. | .bool .. => []
  def fieldPositionsList : List Expr → List Nat
    | [] => []
    | e :: es => fieldPositions e ++ fieldPositionsList es
end

/-- every `Pos` field that occurs in the tree -/
def positions (e : Expr) : List Nat := nodePositions e ++ fieldPositions e

end Expr

namespace Stmt

/-- the expression trees of a statement: WHERE, select fields, GROUP BY expressions, put pairs,
    remove keys (ORDER BY fields are recorded by name: their nodes are select fields) -/
def exprs : Stmt → List Expr
  | .select s => s.where_ :: (s.fields ++ (match s.groupBy with
      | some g => g.fields.map (·.2)
      | none => []))
  | .put _ pairs => pairs.flatMap (fun p => [p.1, p.2])
  | .remove _ keys => keys
  | .delete _ _ w _ => [w]

def limitPos : Option LimitS → List Nat
  | some l => [l.pos]
  | none => []

/-- the `Pos` of the clauses: `Where.Pos`, `Order.Pos`, `GroupBy.Pos`, `Limit.Pos` -/
def clausePositions : Stmt → List Nat
  | .select s => s.wherePos :: ((match s.order with | some o => [o.pos] | none => []) ++
      (match s.groupBy with | some g => [g.pos] | none => []) ++ limitPos s.limit)
  | .put _ _ => []
  | .remove _ _ => []
  | .delete _ wpos _ lim => wpos :: limitPos lim

/-- the statement's own `Pos` -/
def pos : Stmt → Nat
  | .select s => s.pos
  | .put p _ => p
  | .remove p _ => p
  | .delete p _ _ _ => p

/-- `AllFields` (`select *`, or a bare `where …`) -/
def isAll : Stmt → Bool
  | .select s => s.allFields
  | _ => false

/-- every position stored anywhere in the statement -/
def positions (s : Stmt) : List Nat :=
  s.pos :: (s.clausePositions ++ s.exprs.flatMap Expr.positions)

end Stmt

namespace Proofs.ErrPos

open Kvql Kvql.Parser Kvql.Generated

section
variable (T F : Nat → Prop)

mutual
  /-- every node other than a KEY / VALUE node has its position in `T`, KEY / VALUE nodes in `F` -/
  def NodeOK : Expr → Prop
    | .binop p _ l r => T p ∧ NodeOK l ∧ NodeOK r
    | .field p _ => F p
    | .str p _ => T p
    | .not p r => T p ∧ NodeOK r
    | .call p n args => T p ∧ NodeOK n ∧ NodeOKs args
    | .name p _ => T p
    | .ref p _ t => T p ∧ NodeOK t
    | .cycle => True
    | .num p _ _ => T p
    | .float p _ _ => T p
    | .bool p _ _ => T p
    | .list p items => T p ∧ NodeOKs items
    | .access p l f => T p ∧ NodeOK l ∧ NodeOK f
  def NodeOKs : List Expr → Prop
    | [] => True
    | e :: es => NodeOK e ∧ NodeOKs es
end

theorem nodeOKs_iff (es : List Expr) : NodeOKs T F es ↔ ∀ e ∈ es, NodeOK T F e := by
  induction es with
  | nil => simp [NodeOKs]
  | cons a rest ih => simp [NodeOKs, ih]

theorem nodeOKs_append {a b : List Expr} (ha : NodeOKs T F a) (hb : NodeOKs T F b) :
    NodeOKs T F (a ++ b) := by
  rw [nodeOKs_iff] at *
  intro e he
  rcases List.mem_append.mp he with h | h
  · exact ha e h
  · exact hb e h

mutual
  theorem nodeOK_iff : ∀ e : Expr, NodeOK T F e ↔
      (∀ p ∈ e.nodePositions, T p) ∧ (∀ p ∈ e.fieldPositions, F p)
    | .binop p o l r => by
      have hl := nodeOK_iff l
      have hr := nodeOK_iff r
      simp only [NodeOK, hl, hr, Expr.nodePositions, Expr.fieldPositions, List.mem_cons,
        List.mem_append]
      grind
    | .field p k => by simp [NodeOK, Expr.nodePositions, Expr.fieldPositions]
    | .str p d => by simp [NodeOK, Expr.nodePositions, Expr.fieldPositions]
    | .not p r => by
      have hr := nodeOK_iff r
      simp only [NodeOK, hr, Expr.nodePositions, Expr.fieldPositions, List.mem_cons]
      grind
    | .call p n args => by
      have hn := nodeOK_iff n
      have ha := nodeOKs_iff_pos args
      simp only [NodeOK, hn, ha, Expr.nodePositions, Expr.fieldPositions, List.mem_cons,
        List.mem_append]
      grind
    | .name p d => by simp [NodeOK, Expr.nodePositions, Expr.fieldPositions]
    | .ref p n t => by
      have ht := nodeOK_iff t
      simp only [NodeOK, ht, Expr.nodePositions, Expr.fieldPositions, List.mem_cons]
      grind
    | .cycle => by simp [NodeOK, Expr.nodePositions, Expr.fieldPositions]
    | .num p d v => by simp [NodeOK, Expr.nodePositions, Expr.fieldPositions]
    | .float p d v => by simp [NodeOK, Expr.nodePositions, Expr.fieldPositions]
    | .bool p d v => by simp [NodeOK, Expr.nodePositions, Expr.fieldPositions]
    | .list p items => by
      have ha := nodeOKs_iff_pos items
      simp only [NodeOK, ha, Expr.nodePositions, Expr.fieldPositions, List.mem_cons]
      grind
    | .access p l f => by
      have hl := nodeOK_iff l
      have hf := nodeOK_iff f
      simp only [NodeOK, hl, hf, Expr.nodePositions, Expr.fieldPositions, List.mem_cons,
        List.mem_append]
      grind
  theorem nodeOKs_iff_pos : ∀ es : List Expr, NodeOKs T F es ↔
      (∀ p ∈ Expr.nodePositionsList es, T p) ∧ (∀ p ∈ Expr.fieldPositionsList es, F p)
    | [] => by simp [NodeOKs, Expr.nodePositionsList, Expr.fieldPositionsList]
    | e :: es => by
      have he := nodeOK_iff e
      have hes := nodeOKs_iff_pos es
      simp only [NodeOKs, he, hes, Expr.nodePositionsList, Expr.fieldPositionsList,
        List.mem_append]
      grind
end

end

section
variable {T F T' F' : Nat → Prop}

theorem NodeOK.mono (hT : ∀ p, T p → T' p) (hF : ∀ p, F p → F' p) {e : Expr}
    (h : NodeOK T F e) : NodeOK T' F' e := by
  rw [nodeOK_iff] at h ⊢
  exact ⟨fun p hp => hT p (h.1 p hp), fun p hp => hF p (h.2 p hp)⟩

theorem NodeOKs.mono (hT : ∀ p, T p → T' p) (hF : ∀ p, F p → F' p) {es : List Expr}
    (h : NodeOKs T F es) : NodeOKs T' F' es := by
  rw [nodeOKs_iff] at h ⊢
  exact fun e he => (h e he).mono hT hF

/-- every position of the tree is in `T` or in `F` -/
theorem NodeOK.positions {e : Expr} (h : NodeOK T F e) : ∀ p ∈ e.positions, T p ∨ F p := by
  rw [nodeOK_iff] at h
  intro p hp
  rcases List.mem_append.mp hp with hp | hp
  · exact Or.inl (h.1 p hp)
  · exact Or.inr (h.2 p hp)

/-- the root's `GetPos()` is a position of the tree (not for `cycle`, which has none) -/
theorem pos_mem_positions {e : Expr} (hc : e ≠ .cycle) : e.pos ∈ e.positions := by
  cases e <;> simp_all [Expr.pos, Expr.positions, Expr.nodePositions, Expr.fieldPositions]

/-- the root's position is in `T` or `F` (or the tree is `cycle`, whose `GetPos()` is the model's 0) -/
theorem NodeOK.pos_root (hTF : ∀ p, T p → F p) {e : Expr} (h : NodeOK T F e) (hc : e ≠ .cycle) :
    F e.pos := by
  cases e <;> simp_all [NodeOK, Expr.pos]
  all_goals exact hTF _ (by first | exact h | exact h.1)

end

section
variable (T F : Nat → Prop)

/-- every token of the list has a position in `T` -/
def TokS (ts : Toks) : Prop := ∀ t ∈ ts, T t.pos

variable {T}
theorem TokS.tail {t : Token} {rest : Toks} (h : TokS T (t :: rest)) : TokS T rest :=
  fun x hx => h x (List.mem_cons_of_mem _ hx)
theorem TokS.head {t : Token} {rest : Toks} (h : TokS T (t :: rest)) : T t.pos :=
  h t (List.mem_cons_self ..)
theorem TokS.nil : TokS T [] := fun _ h => by simp at h
variable (T)

/-- success-only triple: if `r` is `ok a` then `Q a` -/
abbrev Suc {α : Type} (r : Res α) (Q : α → Prop) : Prop :=
  r.Holds Q (fun _ => True) (fun _ => True) True

theorem Suc.triv {α : Type} (r : Res α) : Suc r (fun _ => True) := by
  cases r <;> simp

theorem Suc.of_eq {α : Type} {r : Res α} {Q : α → Prop} (h : Suc r Q) {a : α} (ha : r = .ok a) :
    Q a := by
  rw [ha] at h; exact h

/-- the invariant of a parsed statement -/
def StmtOK : Stmt → Prop
  | .select s =>
    F s.pos ∧ NodeOKs T F s.fields ∧ T s.wherePos ∧ NodeOK T F s.where_ ∧
    (∀ o, s.order = some o → T o.pos) ∧
    (∀ g, s.groupBy = some g → T g.pos ∧ ∀ x ∈ g.fields, NodeOK T F x.2) ∧
    (∀ l, s.limit = some l → T l.pos)
  | .put pos pairs => T pos ∧ ∀ x ∈ pairs, NodeOK T F x.1 ∧ NodeOK T F x.2
  | .remove pos keys => T pos ∧ NodeOKs T F keys
  | .delete pos wpos w lim => T pos ∧ T wpos ∧ NodeOK T F w ∧ (∀ l, lim = some l → T l.pos)

end

theorem StmtOK.exprs {T F : Nat → Prop} {s : Stmt} (h : StmtOK T F s) : ∀ e ∈ s.exprs, NodeOK T F e := by
  intro e he
  cases s with
  | select s =>
    obtain ⟨_, hf, _, hw, _, hg, _⟩ := h
    simp only [Stmt.exprs, List.mem_cons, List.mem_append] at he
    rcases he with rfl | he | he
    · exact hw
    · exact (nodeOKs_iff T F _).mp hf e he
    · cases hgb : s.groupBy with
      | none => rw [hgb] at he; simp at he
      | some g =>
        rw [hgb] at he
        simp only [List.mem_map] at he
        obtain ⟨x, hx, rfl⟩ := he
        exact (hg g hgb).2 x hx
  | put pos pairs =>
    simp only [Stmt.exprs, List.mem_flatMap] at he
    obtain ⟨x, hx, he⟩ := he
    simp at he
    rcases he with rfl | rfl
    · exact (h.2 x hx).1
    · exact (h.2 x hx).2
  | remove pos keys => exact (nodeOKs_iff T F _).mp h.2 e he
  | delete pos wpos w lim =>
    simp only [Stmt.exprs, List.mem_singleton] at he
    subst he
    exact h.2.2.1

theorem StmtOK.clauses {T F : Nat → Prop} {s : Stmt} (h : StmtOK T F s) : ∀ p ∈ s.clausePositions, T p := by
  intro p hp
  cases s with
  | select s =>
    obtain ⟨_, _, hw, _, ho, hg, hl⟩ := h
    simp only [Stmt.clausePositions, List.mem_cons, List.mem_append] at hp
    rcases hp with rfl | (hp | hp) | hp
    · exact hw
    · cases hor : s.order with
      | none => rw [hor] at hp; simp at hp
      | some o => rw [hor] at hp; simp at hp; subst hp; exact ho o hor
    · cases hgb : s.groupBy with
      | none => rw [hgb] at hp; simp at hp
      | some g => rw [hgb] at hp; simp at hp; subst hp; exact (hg g hgb).1
    · cases hli : s.limit with
      | none => rw [hli] at hp; simp [Stmt.limitPos] at hp
      | some l => rw [hli] at hp; simp [Stmt.limitPos] at hp; subst hp; exact hl l hli
  | put pos pairs => simp [Stmt.clausePositions] at hp
  | remove pos keys => simp [Stmt.clausePositions] at hp
  | delete pos wpos w lim =>
    simp only [Stmt.clausePositions, List.mem_cons] at hp
    rcases hp with rfl | hp
    · exact h.2.1
    · cases lim with
      | none => simp [Stmt.limitPos] at hp
      | some l => simp [Stmt.limitPos] at hp; subst hp; exact h.2.2.2 l rfl

theorem StmtOK.pos {T F : Nat → Prop} (hTF : ∀ p, T p → F p) {s : Stmt} (h : StmtOK T F s) : F s.pos := by
  cases s with
  | select s => exact h.1
  | put pos pairs => exact hTF _ h.1
  | remove pos keys => exact hTF _ h.1
  | delete pos wpos w lim => exact hTF _ h.1

/-- every position of the statement is in `T` or in `F` -/
theorem StmtOK.positions {T F : Nat → Prop} (hTF : ∀ p, T p → F p) {s : Stmt} (h : StmtOK T F s) :
    ∀ p ∈ s.positions, F p := by
  intro p hp
  simp only [Stmt.positions, List.mem_cons, List.mem_append, List.mem_flatMap] at hp
  rcases hp with rfl | hp | ⟨e, he, hp⟩
  · exact h.pos hTF
  · exact hTF _ (h.clauses p hp)
  · rcases (h.exprs e he).positions p hp with h1 | h1
    · exact hTF _ h1
    · exact h1

end Proofs.ErrPos
end Kvql
