/-
  print_reparse, lexer half (continued): the token list of each shape of canonical text.
  `T i s` is the token list of the text `s` standing at offset `i`.
-/
import Kvql.Proofs.ParserPrintable

set_option linter.unusedSimpArgs false

namespace Kvql.Proofs.PrintLex

open Kvql Kvql.Lexer Kvql.Generated Kvql.Spec Kvql.Proofs.LexSpec

def tok (tp : Nat) (d : Bytes) (p : Nat) : Token := { tp := tp, data := d, pos := p }

/-- the tokens of the text `s` standing at offset `i` (clean scanner state) -/
abbrev T (i : Nat) (s : Bytes) : Toks := L s i [] i

theorem T_nil (i : Nat) : T i [] = [] := by simp [T, L_nil, wordTok_nil]

/-! ### single bytes -/

theorem step_punct (c : UInt8) (hc : c = 40 ∨ c = 41 ∨ c = 91 ∨ c = 93 ∨ c = 44) (Y : Bytes) :
    stepOf c Y = .brk (some (punctTp c, [c])) 1 Y := by
  rcases hc with rfl | rfl | rfl | rfl | rfl <;>
    simp [stepOf, specBlank, isQuote, isBackquote, isOpChar, isPunct, isSep]

theorem L_punct (c : UInt8) (hc : c = 40 ∨ c = 41 ∨ c = 91 ∨ c = 93 ∨ c = 44) (Y : Bytes) (i : Nat) :
    L (c :: Y) i [] i = tok (punctTp c) [c] i :: L Y (i + 1) [] (i + 1) := by
  rw [L_brk (step_punct c hc Y)]
  simp [emitToks, wordTok_nil, tok]

theorem L_lp (Y : Bytes) (i : Nat) : L (40 :: Y) i [] i = tok tkLPAREN [40] i :: L Y (i + 1) [] (i + 1) := by
  rw [L_punct 40 (by decide)]; rfl
theorem L_lb (Y : Bytes) (i : Nat) : L (91 :: Y) i [] i = tok tkLBRACK [91] i :: L Y (i + 1) [] (i + 1) := by
  rw [L_punct 91 (by decide)]; rfl
theorem L_comma (Y : Bytes) (i : Nat) : L (44 :: Y) i [] i = tok tkSEP [44] i :: L Y (i + 1) [] (i + 1) := by
  rw [L_punct 44 (by decide)]; rfl

theorem L_sp (Y : Bytes) (i : Nat) : L (32 :: Y) i [] i = L Y (i + 1) [] (i + 1) := by
  rw [L_brk (stepOf_blank _ (by decide))]
  simp [emitToks, wordTok_nil]

theorem L_bang (Y : Bytes) (i : Nat) :
    L (33 :: 40 :: Y) i [] i = tok tkOPERATOR [33] i :: tok tkLPAREN [40] (i + 1) :: L Y (i + 2) [] (i + 2) := by
  have h : stepOf 33 (40 :: Y) = .brk (some (tkOPERATOR, [33])) 1 (40 :: Y) := by
    simp [stepOf, specBlank, isQuote, isBackquote, isOpChar, isPunct, isSep, isOp1, isOp2Lead]
  rw [L_brk h, L_punct 40 (Or.inl rfl)]
  simp [emitToks, wordTok_nil, tok, punctTp]

/-! ### words -/

theorem BreakHead_nil : BreakHead [] := by simp [BreakHead]
theorem BreakHead_cons {c : UInt8} {Y : Bytes} (h : wordByte c = false) : BreakHead (c :: Y) := by
  simp [BreakHead, h]

theorem wordTok_ok {d : Bytes} (h : wordOK d = true) (i : Nat) : wordTok d i = [tok (classify d) d i] := by
  unfold wordOK at h
  simp only [Bool.and_eq_true, beq_iff_eq, Bool.not_eq_true'] at h
  obtain ⟨⟨h1, _⟩, h3⟩ := h
  simp [wordTok, h1, h3, tok]

/-- a word followed by something that cannot continue it -/
theorem L_wordK {d : Bytes} (h : wordOK d = true) (Y : Bytes) (hY : BreakHead Y) (i : Nat) :
    L (d ++ Y) i [] i = tok (classify d) d i :: L Y (i + d.length) [] (i + d.length) := by
  rw [L_words d (wordOK_bytes h) Y i [] i, L_flush Y _ _ _ hY, L_wpos Y _ i (i + d.length) hY]
  simp [wordTok_ok h]

theorem T_word {d : Bytes} (h : wordOK d = true) (i : Nat) : T i d = [tok (classify d) d i] := by
  have := L_wordK h [] BreakHead_nil i
  simpa [T, L_nil, wordTok_nil] using this

/-- an upper-case keyword (`KEY`, `VALUE`, `BETWEEN`, `AND`): one token with the lower-cased text -/
theorem L_upperK (d : Bytes) (hd : ∀ c ∈ d, wordByte c = true) (hne : d ≠ []) (Y : Bytes)
    (hY : BreakHead Y) (i : Nat) :
    L (d ++ Y) i [] i = tok (classify (toLower d)) (toLower d) i :: L Y (i + d.length) [] (i + d.length) := by
  rw [L_words d hd Y i [] i, L_flush Y _ _ _ hY, L_wpos Y _ i (i + d.length) hY]
  have : d.isEmpty = false := by cases d <;> simp_all
  simp [wordTok, this, tok]

/-! ### string literals -/

theorem L_str {d : Bytes} (h : strOK d = true) (Y : Bytes) (i : Nat) :
    L (39 :: (d ++ 39 :: Y)) i [] i = tok tkSTRING d i :: L Y (i + d.length + 2) [] (i + d.length + 2) := by
  have hd : (39 : UInt8) ∉ d := by
    unfold strOK at h
    simpa using h
  have hs : stepOf 39 (d ++ 39 :: Y) = .brk (some (tkSTRING, d)) (d.length + 2) Y := by
    simp [stepOf, specBlank, isQuote, literalBody_of_eq d Y hd]
  rw [L_brk hs]
  simp [emitToks, wordTok_nil, tok, Nat.add_assoc]

/-! ### operators between blanks -/

theorem opText_eq : ∀ op : Op, Expr.opText op =
    match op with
    | .and => [38] | .or => [124] | .not => [33] | .eq => [61] | .neq => [33, 61]
    | .prefixMatch => [94, 61] | .regexMatch => [126, 61] | .add => [43] | .sub => [45]
    | .mul => [42] | .div => [47] | .gt => [62] | .gte => [62, 61] | .lt => [60] | .lte => [60, 61]
    | .in_ => [105, 110] | .between => [98, 101, 116, 119, 101, 101, 110] | .kwAnd => [97, 110, 100]
    | .kwOr => [111, 114] := by
  intro op; cases op <;> decide

theorem step_op1 (c : UInt8)
    (hc : c = 38 ∨ c = 124 ∨ c = 61 ∨ c = 43 ∨ c = 45 ∨ c = 42 ∨ c = 47 ∨ c = 62 ∨ c = 60) (Y : Bytes) :
    stepOf c (32 :: Y) = .brk (some (tkOPERATOR, [c])) 1 (32 :: Y) := by
  rcases hc with rfl | rfl | rfl | rfl | rfl | rfl | rfl | rfl | rfl <;>
    simp [stepOf, specBlank, isQuote, isBackquote, isOpChar, isPunct, isSep, isOp1, isOp2Lead, punctTp]

theorem step_op2 (c : UInt8) (hc : c = 33 ∨ c = 94 ∨ c = 126 ∨ c = 62 ∨ c = 60) (Y : Bytes) :
    stepOf c (61 :: 32 :: Y) = .brk (some (tkOPERATOR, [c, 61])) 2 (32 :: Y) := by
  rcases hc with rfl | rfl | rfl | rfl | rfl <;>
    simp [stepOf, specBlank, isQuote, isBackquote, isOpChar, isPunct, isSep, isOp1, isOp2Lead, punctTp]

theorem L_op1 (c : UInt8)
    (hc : c = 38 ∨ c = 124 ∨ c = 61 ∨ c = 43 ∨ c = 45 ∨ c = 42 ∨ c = 47 ∨ c = 62 ∨ c = 60) (Y : Bytes)
    (i : Nat) : L (c :: 32 :: Y) i [] i = tok tkOPERATOR [c] i :: L Y (i + 2) [] (i + 2) := by
  rw [L_brk (step_op1 c hc Y), L_sp]
  simp [emitToks, wordTok_nil, tok, Nat.add_assoc]

theorem L_op2 (c : UInt8) (hc : c = 33 ∨ c = 94 ∨ c = 126 ∨ c = 62 ∨ c = 60) (Y : Bytes) (i : Nat) :
    L (c :: 61 :: 32 :: Y) i [] i = tok tkOPERATOR [c, 61] i :: L Y (i + 3) [] (i + 3) := by
  rw [L_brk (step_op2 c hc Y), L_sp]
  simp [emitToks, wordTok_nil, tok, Nat.add_assoc]

/-- ` op ` followed by anything: one OPERATOR token with the operator's text -/
theorem L_opsp (op : Op) (hop : op ≠ .not) (Y : Bytes) (i : Nat) :
    L (32 :: (Expr.opText op ++ 32 :: Y)) i [] i =
      tok tkOPERATOR (Expr.opText op) (i + 1) ::
        L Y (i + (Expr.opText op).length + 2) [] (i + (Expr.opText op).length + 2) := by
  rw [L_sp]
  have hsp : BreakHead (32 :: Y) := BreakHead_cons (by decide)
  cases op
  case not => exact (hop rfl).elim
  case in_ =>
    rw [opText_eq, L_wordK (d := [105, 110]) (by decide) _ hsp, L_sp]
    simp [tok, Nat.add_assoc]; decide
  case between =>
    rw [opText_eq, L_wordK (d := [98, 101, 116, 119, 101, 101, 110]) (by decide) _ hsp, L_sp]
    simp [tok, Nat.add_assoc]; decide
  case kwAnd =>
    rw [opText_eq, L_wordK (d := [97, 110, 100]) (by decide) _ hsp, L_sp]
    simp [tok, Nat.add_assoc]; decide
  case kwOr =>
    rw [opText_eq, L_wordK (d := [111, 114]) (by decide) _ hsp, L_sp]
    simp [tok, Nat.add_assoc]; decide
  all_goals
    rw [opText_eq]
    simp only [List.cons_append, List.nil_append]
    first
      | (rw [L_op1 _ (by decide)]; simp [Nat.add_assoc])
      | (rw [L_op2 _ (by decide)]; simp [Nat.add_assoc])

/-! ### the shapes of `Expr.toString` -/

/-- a text that ends outside a literal, followed by something that cannot continue a word -/
theorem T_appendK {s : Bytes} (hs : Outside s) (Y : Bytes) (hY : BreakHead Y) (h61 : Y.head? ≠ some 61)
    (i : Nat) : L (s ++ Y) i [] i = T i s ++ L Y (i + s.length) [] (i + s.length) :=
  L_append s Y i hs (Seam_of_head_ne h61) (Or.inl hY)

theorem lits : Bytes.ofAscii "(" = [40] ∧ Bytes.ofAscii ")" = [41] ∧ Bytes.ofAscii " " = [32] ∧
    Bytes.ofAscii "!(" = [33, 40] ∧ Bytes.ofAscii "[" = [91] ∧ Bytes.ofAscii "]" = [93] ∧
    Bytes.ofAscii ", " = [44, 32] ∧ Bytes.ofAscii "'" = [39] ∧
    Bytes.ofAscii " BETWEEN " = 32 :: ([66, 69, 84, 87, 69, 69, 78] ++ [32]) ∧
    Bytes.ofAscii " AND " = 32 :: ([65, 78, 68] ++ [32]) ∧
    Bytes.ofAscii "KEY" = [75, 69, 89] ∧ Bytes.ofAscii "VALUE" = [86, 65, 76, 85, 69] := by decide

theorem L_rp_end (i : Nat) : L [41] i [] i = [tok tkRPAREN [41] i] := by
  rw [L_punct 41 (by decide)]; simp [L_nil, wordTok_nil, punctTp]

theorem L_rb_end (i : Nat) : L [93] i [] i = [tok tkRBRACK [93] i] := by
  rw [L_punct 93 (by decide)]; simp [L_nil, wordTok_nil, punctTp]

/-- `(L op R)` -/
theorem T_generic {sl sr : Bytes} (op : Op) (hop : op ≠ .not) (hl : Outside sl) (hr : Outside sr) (i : Nat) :
    ∃ j1 j2 p2 p3, T i (Bytes.ofAscii "(" ++ sl ++ Bytes.ofAscii " " ++ Expr.opText op ++ Bytes.ofAscii " " ++ sr ++
        Bytes.ofAscii ")") =
      tok tkLPAREN [40] i :: (T j1 sl ++ tok tkOPERATOR (Expr.opText op) p2 ::
        (T j2 sr ++ [tok tkRPAREN [41] p3])) := by
  have e : Bytes.ofAscii "(" ++ sl ++ Bytes.ofAscii " " ++ Expr.opText op ++ Bytes.ofAscii " " ++ sr ++
      Bytes.ofAscii ")" = 40 :: (sl ++ (32 :: (Expr.opText op ++ 32 :: (sr ++ [41])))) := by
    simp [lits.1, lits.2.1, lits.2.2.1]
  refine ⟨?_, ?_, ?_, ?_, ?main⟩
  case main =>
    rw [T, e, L_lp, T_appendK hl _ (BreakHead_cons (by decide)) (by simp),
      L_opsp op hop, T_appendK hr [41] (BreakHead_cons (by decide)) (by simp), L_rp_end]

/-- `(L BETWEEN lo AND hi)` -/
theorem T_between {sl slo shi : Bytes} (hl : Outside sl) (hlo : Outside slo) (hhi : Outside shi) (i : Nat) :
    ∃ j1 j2 j3 p2 p3 p4, T i (Bytes.ofAscii "(" ++ sl ++ Bytes.ofAscii " BETWEEN " ++ slo ++ Bytes.ofAscii " AND " ++
        shi ++ Bytes.ofAscii ")") =
      tok tkLPAREN [40] i :: (T j1 sl ++ tok tkOPERATOR (Expr.opText .between) p2 ::
        (T j2 slo ++ tok tkOPERATOR (Expr.opText .kwAnd) p3 :: (T j3 shi ++ [tok tkRPAREN [41] p4]))) := by
  have e : Bytes.ofAscii "(" ++ sl ++ Bytes.ofAscii " BETWEEN " ++ slo ++ Bytes.ofAscii " AND " ++ shi ++
      Bytes.ofAscii ")" = 40 :: (sl ++ (32 :: ([66, 69, 84, 87, 69, 69, 78] ++ 32 :: (slo ++
        (32 :: ([65, 78, 68] ++ 32 :: (shi ++ [41]))))))) := by
    simp [lits.1, lits.2.1, lits.2.2.2.2.2.2.2.2.1, lits.2.2.2.2.2.2.2.2.2.1]
  have hsp : ∀ Y : Bytes, BreakHead (32 :: Y) := fun Y => BreakHead_cons (by decide)
  refine ⟨?_, ?_, ?_, ?_, ?_, ?_, ?main⟩
  case main =>
    rw [T, e, L_lp, T_appendK hl _ (hsp _) (by simp), L_sp,
      L_upperK [66, 69, 84, 87, 69, 69, 78] (by decide) (by decide) _ (hsp _), L_sp,
      T_appendK hlo _ (hsp _) (by simp), L_sp,
      L_upperK [65, 78, 68] (by decide) (by decide) _ (hsp _), L_sp,
      T_appendK hhi [41] (BreakHead_cons (by decide)) (by simp), L_rp_end]
    have h1 : toLower [66, 69, 84, 87, 69, 69, 78] = Expr.opText .between := by decide
    have h2 : toLower [65, 78, 68] = Expr.opText .kwAnd := by decide
    have h3 : classify (Expr.opText .between) = tkOPERATOR := by decide
    have h4 : classify (Expr.opText .kwAnd) = tkOPERATOR := by decide
    rw [h1, h2, h3, h4]

/-- `!(R)` -/
theorem T_not {sr : Bytes} (hr : Outside sr) (i : Nat) :
    ∃ j p, T i (Bytes.ofAscii "!(" ++ sr ++ Bytes.ofAscii ")") =
      tok tkOPERATOR [33] i :: tok tkLPAREN [40] (i + 1) :: (T j sr ++ [tok tkRPAREN [41] p]) := by
  have e : Bytes.ofAscii "!(" ++ sr ++ Bytes.ofAscii ")" = 33 :: 40 :: (sr ++ [41]) := by
    simp [lits.2.1, lits.2.2.2.1]
  refine ⟨?_, ?_, ?main⟩
  case main =>
    rw [T, e, L_bang, T_appendK hr [41] (BreakHead_cons (by decide)) (by simp), L_rp_end]

/-- `(J)` — a list, or the parenthesised argument list of a call -/
theorem T_parens {s : Bytes} (hs : Outside s) (i : Nat) :
    ∃ j p, T i (Bytes.ofAscii "(" ++ s ++ Bytes.ofAscii ")") =
      tok tkLPAREN [40] i :: (T j s ++ [tok tkRPAREN [41] p]) := by
  have e : Bytes.ofAscii "(" ++ s ++ Bytes.ofAscii ")" = 40 :: (s ++ [41]) := by
    simp [lits.1, lits.2.1]
  refine ⟨?_, ?_, ?main⟩
  case main =>
    rw [T, e, L_lp, T_appendK hs [41] (BreakHead_cons (by decide)) (by simp), L_rp_end]

/-- `N(J)` -/
theorem T_call {sn sj : Bytes} (hn : Outside sn) (hj : Outside sj) (i : Nat) :
    ∃ j1 p1 p2, T i (sn ++ Bytes.ofAscii "(" ++ sj ++ Bytes.ofAscii ")") =
      T i sn ++ tok tkLPAREN [40] p1 :: (T j1 sj ++ [tok tkRPAREN [41] p2]) := by
  have e : sn ++ Bytes.ofAscii "(" ++ sj ++ Bytes.ofAscii ")" = sn ++ (40 :: (sj ++ [41])) := by
    simp [lits.1, lits.2.1]
  refine ⟨?_, ?_, ?_, ?main⟩
  case main =>
    rw [T, e, T_appendK hn _ (BreakHead_cons (by decide)) (by simp), L_lp,
      T_appendK hj [41] (BreakHead_cons (by decide)) (by simp), L_rp_end]

/-- `L[F]` -/
theorem T_access {sl sf : Bytes} (hl : Outside sl) (hf : Outside sf) (i : Nat) :
    ∃ j1 p1 p2, T i (sl ++ Bytes.ofAscii "[" ++ sf ++ Bytes.ofAscii "]") =
      T i sl ++ tok tkLBRACK [91] p1 :: (T j1 sf ++ [tok tkRBRACK [93] p2]) := by
  have e : sl ++ Bytes.ofAscii "[" ++ sf ++ Bytes.ofAscii "]" = sl ++ (91 :: (sf ++ [93])) := by
    simp [lits.2.2.2.2.1, lits.2.2.2.2.2.1]
  refine ⟨?_, ?_, ?_, ?main⟩
  case main =>
    rw [T, e, T_appendK hl _ (BreakHead_cons (by decide)) (by simp), L_lb,
      T_appendK hf [93] (BreakHead_cons (by decide)) (by simp), L_rb_end]

/-- `a, b, …`: the first item, a SEP token, the rest -/
theorem T_join_cons {s : Bytes} (hs : Outside s) (s2 : Bytes) (ss : List Bytes) (i : Nat) :
    ∃ j p, T i (Expr.joinSep (Bytes.ofAscii ", ") (s :: s2 :: ss)) =
      T i s ++ tok tkSEP [44] p :: T j (Expr.joinSep (Bytes.ofAscii ", ") (s2 :: ss)) := by
  have e : Expr.joinSep (Bytes.ofAscii ", ") (s :: s2 :: ss) =
      s ++ (44 :: 32 :: Expr.joinSep (Bytes.ofAscii ", ") (s2 :: ss)) := by
    simp [Expr.joinSep, lits.2.2.2.2.2.2.1]
  refine ⟨?_, ?_, ?main⟩
  case main =>
    rw [T, e, T_appendK hs _ (BreakHead_cons (by decide)) (by simp), L_comma, L_sp]

theorem T_str {d : Bytes} (h : strOK d = true) (i : Nat) :
    T i (Bytes.ofAscii "'" ++ d ++ Bytes.ofAscii "'") = [tok tkSTRING d i] := by
  have e : Bytes.ofAscii "'" ++ d ++ Bytes.ofAscii "'" = 39 :: (d ++ 39 :: []) := by
    simp [lits.2.2.2.2.2.2.2.1]
  rw [T, e, L_str h]
  simp [L_nil, wordTok_nil]

theorem T_key (i : Nat) : T i (Bytes.ofAscii "KEY") = [tok tkKEY (Bytes.ofAscii "key") i] := by
  have := L_upperK [75, 69, 89] (by decide) (by decide) [] BreakHead_nil i
  rw [T, lits.2.2.2.2.2.2.2.2.2.2.1]
  simp only [List.append_nil, L_nil, wordTok_nil] at this
  rw [this]
  have h1 : toLower [75, 69, 89] = Bytes.ofAscii "key" := by decide
  have h2 : classify (Bytes.ofAscii "key") = tkKEY := by decide
  simp [h1, h2]

theorem T_value (i : Nat) : T i (Bytes.ofAscii "VALUE") = [tok tkVALUE (Bytes.ofAscii "value") i] := by
  have := L_upperK [86, 65, 76, 85, 69] (by decide) (by decide) [] BreakHead_nil i
  rw [T, lits.2.2.2.2.2.2.2.2.2.2.2]
  simp only [List.append_nil, L_nil, wordTok_nil] at this
  rw [this]
  have h1 : toLower [86, 65, 76, 85, 69] = Bytes.ofAscii "value" := by decide
  have h2 : classify (Bytes.ofAscii "value") = tkVALUE := by decide
  simp [h1, h2]

end Kvql.Proofs.PrintLex
