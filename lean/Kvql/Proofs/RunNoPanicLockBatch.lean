/-
  RunNoPanic, part 10: SELECT with a field list, batch mode, field cache off.  As RunNoPanicLockRow, for
  `Project.drainBatchFuel` against the batch polls of the scan plans: both sides take inner chunks until
  `PlanBatchSize` pairs are accepted and both give up the whole `Batch` call when a chunk fails.

  RunNoPanicLockBatchA.lean: the common specification (`pollLoopE`, `pollsOfE`) and the evaluation side (`Lock`);
  RunNoPanicLockBatchB.lean: the storage side (`scanTrace_batch_pollsE`);
  here: the verdict table as the plan filter (`filterV_batchVerdicts`), `zipProj`, the theorem.
-/
import Kvql.Proofs.RunNoPanicBase
import Kvql.Proofs.RunNoPanicVec
import Kvql.Proofs.RunFieldsBatchThms
import Kvql.Proofs.RunNoPanicLockBatchB

namespace Kvql.Proofs.RunNoPanic

namespace LockBatch

open Kvql Kvql.Run Kvql.Plans Kvql.Storage
open Kvql.Proofs.RunTables Kvql.Proofs.RunScan Kvql.Proofs.RunFields

/-! ### the verdict table as the filter of the plan -/

theorem zipVerdicts_keys : ∀ (c : List SPair) (ms : List Bool), (zipVerdicts c ms).map (·.1) = c.map (·.1)
  | [], _ => rfl
  | p :: ps, [] => by simp [zipVerdicts, zipVerdicts_keys ps []]
  | p :: ps, b :: bs => by simp [zipVerdicts, zipVerdicts_keys ps bs]

theorem zipVerdicts_ok : ∀ (c : List SPair) (ms : List Bool), ∀ x ∈ zipVerdicts c ms, ∃ b, x.2 = .ok b
  | [], _, x, h => by simp [zipVerdicts] at h
  | p :: ps, [], x, h => by
    simp only [zipVerdicts, List.mem_cons] at h
    rcases h with rfl | h
    · exact ⟨false, rfl⟩
    · exact zipVerdicts_ok ps [] x h
  | p :: ps, b :: bs, x, h => by
    simp only [zipVerdicts, List.mem_cons] at h
    rcases h with rfl | h
    · exact ⟨b, rfl⟩
    · exact zipVerdicts_ok ps bs x h

theorem chunkVerdicts_keys (w : Expr) (c0 : Ctx) (c : List SPair) :
    (chunkVerdicts w c0 c).map (·.1) = c.map (·.1) := by
  unfold chunkVerdicts
  split
  · simp [List.map_map, Function.comp_def]
  · split
    · simp [List.map_map, Function.comp_def]
    · exact zipVerdicts_keys c _

theorem chunkVerdicts_def (w : Expr) (c : List SPair) :
    chunkVerdicts w Ctx.off c =
      (match cvOf w c with
        | .error e => c.map (fun p => (p.1, .error e))
        | .ok ms =>
          if (ms.drop c.length).any id then c.map (fun p => (p.1, .error .filterIndex))
          else zipVerdicts c ms) := rfl

theorem pairwise_of_mem_flatten {α : Type} {R : α → α → Prop} : ∀ (chunks : List (List α)),
    chunks.flatten.Pairwise R → ∀ c ∈ chunks, c.Pairwise R
  | [], _, c, h => by cases h
  | c0 :: cs, hd, c, h => by
    rw [List.flatten_cons, List.pairwise_append] at hd
    rcases List.mem_cons.mp h with rfl | h
    · exact hd.1
    · exact pairwise_of_mem_flatten cs hd.2.1 c h

/-- with distinct keys, a key of a chunk is looked up in the part of the table its chunk contributes -/
theorem lookup_flatMap {F : List SPair → Verdicts} (hk : ∀ c, (F c).map (·.1) = c.map (·.1)) :
    ∀ (chunks : List (List SPair)), chunks.flatten.Pairwise (fun a b => a.1 ≠ b.1) →
    ∀ c ∈ chunks, ∀ p ∈ c, (chunks.flatMap F).lookup p.1 = (F c).lookup p.1
  | [], _, c, h, _, _ => by cases h
  | c0 :: cs, hd, c, hc, p, hp => by
    rw [List.flatten_cons, List.pairwise_append] at hd
    rw [List.flatMap_cons, List.lookup_append]
    rcases List.mem_cons.mp hc with rfl | hc
    · have hmem : p.1 ∈ (F c).map (·.1) := by rw [hk]; exact List.mem_map.mpr ⟨p, hp, rfl⟩
      cases hl : (F c).lookup p.1 with
      | some x => rfl
      | none =>
        obtain ⟨y, hy, hyk⟩ := List.mem_map.mp hmem
        have := List.lookup_eq_none_iff.mp hl y hy
        simp [hyk] at this
    · have hnone : (F c0).lookup p.1 = none := by
        rw [List.lookup_eq_none_iff]
        intro y hy
        have hyk : y.1 ∈ c0.map (·.1) := by rw [← hk]; exact List.mem_map.mpr ⟨y, hy, rfl⟩
        obtain ⟨q, hq, hqk⟩ := List.mem_map.mp hyk
        have := hd.2.2 q hq p (List.mem_flatten.mpr ⟨c, hc, hp⟩)
        simp only [bne_iff_ne, ne_eq]
        intro e
        exact this (by rw [hqk, ← e])
      rw [hnone, Option.none_or]
      exact lookup_flatMap hk cs hd.2.1 c hc p hp

theorem lookup_const {β : Type} (x : β) : ∀ (c : List SPair) (p : SPair), p ∈ c →
    (c.map (fun q => (q.1, x))).lookup p.1 = some x
  | [], _, h => by cases h
  | q :: qs, p, h => by
    simp only [List.map_cons, List.lookup_cons]
    split
    · rfl
    · rcases List.mem_cons.mp h with rfl | h
      · rename_i hne; simp at hne
      · exact lookup_const x qs p h

theorem filterChunk_err {v : Verdicts} {e : Project.PErr} {c : List SPair} (hne : c ≠ [])
    (h : ∀ p ∈ c, v.lookup p.1 = some (.error e)) : Plans.filterChunk (filterOfV v) c = .error .eval := by
  cases c with
  | nil => exact absurd rfl hne
  | cons p ps => simp [Plans.filterChunk, filterOfV, h p List.mem_cons_self]

theorem filterChunk_zip {v : Verdicts} : ∀ (c : List SPair) (ms : List Bool), ms.length = c.length →
    c.Pairwise (fun a b => a.1 ≠ b.1) → (∀ p ∈ c, v.lookup p.1 = (zipVerdicts c ms).lookup p.1) →
    Plans.filterChunk (filterOfV v) c = .ok ms
  | [], [], _, _, _ => rfl
  | [], _ :: _, h, _, _ => by simp at h
  | _ :: _, [], h, _, _ => by simp at h
  | p :: ps, b :: bs, hl, hd, h => by
    rw [List.pairwise_cons] at hd
    have hp : v.lookup p.1 = some (.ok b) := by
      rw [h p List.mem_cons_self]; simp [zipVerdicts]
    have ih := filterChunk_zip ps bs (by simpa using hl) hd.2 (fun q hq => by
      rw [h q (List.mem_cons_of_mem _ hq)]
      have hne : q.1 ≠ p.1 := fun e => hd.1 q hq e.symm
      have : (q.1 == p.1) = false := by simpa using hne
      simp [zipVerdicts, List.lookup_cons, this])
    simp [Plans.filterChunk, filterOfV, hp, ih]

/-- the verdict table of batch mode, as the filter of the plan, is the chunk verdict `cvOf` on every inner chunk -/
theorem filterV_batchVerdicts {w : Expr} (hw : w.wf = true) (chunks : List (List SPair))
    (hd : chunks.flatten.Pairwise (fun a b => a.1 ≠ b.1)) :
    FilterV (filterOfV (batchVerdicts w Ctx.off chunks)) (cvOf w) chunks := by
  intro c hc hne
  have hl := lookup_flatMap (chunkVerdicts_keys w Ctx.off) chunks hd c hc
  have hpw := pairwise_of_mem_flatten chunks hd c hc
  rw [chunkVerdicts_def] at hl
  unfold batchVerdicts
  cases hv : cvOf w c with
  | error e =>
    rw [hv] at hl
    simp only at hl ⊢
    exact filterChunk_err hne (fun p hp => by rw [hl p hp]; exact lookup_const _ c p hp)
  | ok ms =>
    rw [hv] at hl
    have hlen := cvOf_len hw hne hv
    have hdrop : (ms.drop c.length).any id = false := by
      rw [List.drop_eq_nil_iff.mpr (by omega)]; rfl
    simp only [hdrop, Bool.false_eq_true, if_false] at hl ⊢
    exact filterChunk_zip c ms hlen hpw hl

/-- every failure the table holds is an error value -/
theorem batchVerdicts_benign {w : Expr} (hw : w.wf = true) (chunks : List (List SPair)) :
    ∀ x ∈ batchVerdicts w Ctx.off chunks, ∀ e, x.2 = .error e → PBenign e := by
  intro x hx e he
  unfold batchVerdicts at hx
  obtain ⟨c, hc, hxc⟩ := List.mem_flatMap.mp hx
  rw [chunkVerdicts_def] at hxc
  by_cases hne : c = []
  · subst hne
    split at hxc
    · simp at hxc
    · split at hxc
      · simp at hxc
      · simp [zipVerdicts] at hxc
  · cases hv : cvOf w c with
    | error e' =>
      rw [hv] at hxc
      simp only [List.mem_map] at hxc
      obtain ⟨p, _, rfl⟩ := hxc
      simp only [Except.error.injEq] at he
      subst he
      exact cvOf_benign hw hne hv
    | ok ms =>
      rw [hv] at hxc
      have hlen := cvOf_len hw hne hv
      have hdrop : (ms.drop c.length).any id = false := by
        rw [List.drop_eq_nil_iff.mpr (by omega)]; rfl
      simp only [hdrop, Bool.false_eq_true, if_false] at hxc
      obtain ⟨b, hb⟩ := zipVerdicts_ok c ms x hxc
      rw [hb] at he; cases he

/-- a failing inner chunk leaves a failure in the table -/
theorem batchVerdicts_has_error {w : Expr} (chunks : List (List SPair)) {c : List SPair} (hc : c ∈ chunks) (hne : c ≠ [])
    {e : Project.PErr} (hv : cvOf w c = .error e) : ∃ x ∈ batchVerdicts w Ctx.off chunks, ∃ e', x.2 = .error e' := by
  cases c with
  | nil => exact absurd rfl hne
  | cons p ps =>
    refine ⟨(p.1, .error e), ?_, e, rfl⟩
    unfold batchVerdicts
    refine List.mem_flatMap.mpr ⟨p :: ps, hc, ?_⟩
    rw [chunkVerdicts_def, hv]
    simp

theorem firstErr_benign (v : Verdicts) (hall : ∀ x ∈ v, ∀ e, x.2 = .error e → PBenign e)
    (hex : ∃ x ∈ v, ∃ e, x.2 = .error e) : ∃ e, firstErr v = some e ∧ PBenign e := by
  unfold firstErr
  cases h : v.findSome? (fun e => match e.2 with | .error x => some x | .ok _ => none) with
  | none =>
    obtain ⟨x, hx, e, he⟩ := hex
    have := List.findSome?_eq_none_iff.mp h x hx
    rw [he] at this
    cases this
  | some e =>
    obtain ⟨l1, a, l2, hv, ha, _⟩ := List.findSome?_eq_some_iff.mp h
    refine ⟨e, rfl, hall a (by rw [hv]; simp) e ?_⟩
    split at ha
    · rename_i x hx; simp only [Option.some.injEq] at ha; rw [← ha]; exact hx
    · cases ha

/-! ### `zipProj` -/

theorem mild_of_pbenign {e : Project.PErr} (h : PBenign e) : mild (perrFail e) = true := by
  obtain ⟨cls, hc⟩ := h
  rw [hc]; rfl

theorem Lock.rows_len {nf : Nat} {P : List (List SPair)} {e : Option Project.PErr} {bsz : List (List Project.Row)}
    {err : Option Project.PErr} (h : Lock nf P e bsz err) : ∀ rows ∈ bsz, ∀ r ∈ rows, r.length = nf := by
  induction h with
  | done => intro rows h; cases h
  | scanErr e _ => intro rows h; cases h
  | projErr X P e pe _ => intro rows h; cases h
  | step h1 h2 _ ih =>
    intro rows h
    rcases List.mem_cons.mp h with rfl | h
    · exact h2
    · exact ih rows h

/-- the final failure of two sides in lock step is an error value -/
theorem zipProj_lock_fin {nf : Nat} : ∀ (polls : List (List SPair × Storage.World)) (fin : Option Fail × Storage.World)
    (bsz : List (List Project.Row)) (err : Option Project.PErr) (w0 : Storage.World)
    (acc : List (List (List Value) × Storage.World)) (e : Option Project.PErr),
    Lock nf (polls.map (·.1)) e bsz err → (e = none → fin.1 = none) →
    (∀ x, e = some x → ∃ cls, fin.1 = some (.exec cls)) →
    ∀ fl, (zipProj polls fin bsz err w0 acc).fin.1 = some fl → mild fl = true
  | [], fin, bsz, err, w0, acc, e, hl, h1, h2 => by
    obtain ⟨f1, wf⟩ := fin
    simp only [List.map_nil] at hl
    cases hl with
    | done =>
      have : f1 = none := h1 rfl
      subst this
      intro fl h
      simp [zipProj] at h
    | scanErr x hx =>
      obtain ⟨cls, hc⟩ := h2 x rfl
      simp only at hc
      subst hc
      intro fl h
      simp only [zipProj, Option.some.injEq] at h
      rw [← h]
      exact mild_of_pbenign hx
  | (pairs, w) :: ps, fin, bsz, err, w0, acc, e, hl, h1, h2 => by
    simp only [List.map_cons] at hl
    cases hl with
    | projErr _ _ _ pe hpe =>
      intro fl h
      simp only [zipProj, Option.some.injEq] at h
      rw [← h]
      exact mild_of_pbenign hpe
    | step hlen hrows hrest =>
      rename_i rows rs
      rw [zipProj]
      simp only [hlen, beq_self_eq_true, if_true]
      exact zipProj_lock_fin ps fin rs err w0 _ e hrest h1 h2

/-- every poll `zipProj` records is one the accumulator holds or carries a batch of the evaluation side -/
theorem zipProj_polls_mem (polls : List (List SPair × Storage.World)) (fin : Option Fail × Storage.World)
    (rss : List (List Project.Row)) (err : Option Project.PErr) (w0 : Storage.World)
    (acc : List (List (List Value) × Storage.World)) :
    ∀ q ∈ (zipProj polls fin rss err w0 acc).polls, q ∈ acc ∨ q.1 ∈ rss := by
  fun_induction zipProj polls fin rss err w0 acc <;> try (exact fun q hq => .inl hq)
  rename_i pairs w ps fin rows rs err w0 acc hlen ih
  intro q hq
  rcases ih q hq with h | h
  · rcases List.mem_append.mp h with h | h
    · exact .inl h
    · simp only [List.mem_singleton] at h
      subst h
      exact .inr List.mem_cons_self
  · exact .inr (List.mem_cons_of_mem _ h)

end LockBatch

open Kvql Kvql.Run Kvql.Plans Kvql.Storage
open Kvql.Proofs.RunTables Kvql.Proofs.RunFields LockBatch

/-- BATCH MODE, FIELD LIST, CACHE OFF -/
theorem projTrace_batch_safe_off (s : SelectS) (f : FoldedSelect) (store : Store) (hs : store.Sorted)
    (bs : Nat) (hbs : 1 ≤ bs) (hnf : s.allFields = false)
    (hw : f.where_.wf = true) (hf : ∀ x ∈ f.fields, x.wf = true) :
    (∀ fl, (projTrace s f store .batch bs false).fin.1 = some fl → mild fl = true) ∧
    (∀ p ∈ (projTrace s f store .batch bs false).polls, ∀ r ∈ p.1, r.length = (s.fieldNames.zip f.fields).length) := by
  have hwfN := nodeOf_wf f.where_
  have hfl := innerChunks_flatten (nodeOf (Scan.optimize f.where_)) bs hbs store
  have hy := yielded_eq_filter (nodeOf (Scan.optimize f.where_)) hwfN hs
  have hd : (innerChunks (nodeOf (Scan.optimize f.where_)) bs store).flatten.Pairwise (fun a b => a.1 ≠ b.1) := by
    rw [hfl, hy]; exact keys_distinct hs _
  have hF := filterV_batchVerdicts hw _ hd
  have hst := scanTrace_batch_pollsE (nodeOf (Scan.optimize f.where_)) store _ (cvOf f.where_) bs hbs hF
  have hff : ∀ fld ∈ (s.fieldNames.zip f.fields).map (fun p => (⟨p.1, p.2⟩ : Project.Field)), fld.expr.wf = true := by
    intro fld hfld
    obtain ⟨p, hp, rfl⟩ := List.mem_map.mp hfld
    exact hf p.2 (List.of_mem_zip hp).2
  have hlock := drainBatchFuel_lock hw hff (bs := bs)
    ((innerChunks (nodeOf (Scan.optimize f.where_)) bs store).length + 1)
    (innerChunks (nodeOf (Scan.optimize f.where_)) bs store) (by omega)
  have hoff : Ctx.new false = Ctx.off := rfl
  unfold projTrace
  simp only [hnf, Bool.false_eq_true, if_false, hoff]
  generalize hP : pollsOfE bs (cvOf f.where_) ((innerChunks (nodeOf (Scan.optimize f.where_)) bs store).length + 1)
    (innerChunks (nodeOf (Scan.optimize f.where_)) bs store) = P at hst hlock
  obtain ⟨PP, pe⟩ := P
  generalize scanTrace (nodeOf (Scan.optimize f.where_))
    (batchVerdicts f.where_ Ctx.off (innerChunks (nodeOf (Scan.optimize f.where_)) bs store)) .batch bs store = st at hst
  obtain ⟨hst1, hst2⟩ := hst
  simp only [List.map_nil, List.nil_append] at hst1 hst2
  rw [← hst1] at hlock
  simp only [List.length_map] at hlock
  constructor
  · refine zipProj_lock_fin st.polls st.fin _ _ st.w0 [] pe hlock ?_ ?_
    · intro h; rw [hst2, h]; rfl
    · intro x hx
      subst hx
      have hmem : ∃ c ∈ innerChunks (nodeOf (Scan.optimize f.where_)) bs store, c ≠ [] ∧ cvOf f.where_ c = .error x := by
        have := pollsOfE_error_mem bs (cvOf f.where_) _ _ x (by rw [hP])
        exact this
      obtain ⟨c, hc, hne, hv⟩ := hmem
      obtain ⟨e', he1, he2⟩ := firstErr_benign _ (batchVerdicts_benign hw _) (batchVerdicts_has_error _ hc hne hv)
      obtain ⟨cls, hcls⟩ := he2
      refine ⟨cls, ?_⟩
      rw [hst2, he1]
      simp [pollFail, hcls]
  · intro p hp r hr
    rcases zipProj_polls_mem _ _ _ _ _ _ p hp with h | h
    · cases h
    · exact hlock.rows_len _ h r hr

end Kvql.Proofs.RunNoPanic
