/-
  Facts about the model of `outputQueryAndErrPos` (`Kvql.Errors.render`):
  the caret is under the offending byte, line 1 is a stretch of the query, and the
  slice expressions of the windowed branch are in range.
-/
import Kvql.Model.Errors

namespace Kvql.Proofs.ErrRender

open Kvql Kvql.Errors

/-! ### constants -/

theorem winLen_eq : winLen = 70 := rfl
theorem winLeft_eq : winLeft = 35 := rfl

theorem ellL_eq : Bytes.ofString "... " = [46, 46, 46, 32] := by decide +kernel
theorem ellR_eq : Bytes.ofString " ..." = [32, 46, 46, 46] := by decide +kernel

/-! ### `trimSpace` is a slice of the query -/

theorem dropWhile_eq_drop_takeWhile {α} (p : α → Bool) (l : List α) :
    l.dropWhile p = l.drop (l.takeWhile p).length := by
  induction l with
  | nil => rfl
  | cons a t ih =>
    by_cases h : p a
    · simp [h, ih]
    · simp [h]

theorem reverse_dropWhile_reverse_prefix {α} (p : α → Bool) (l : List α) :
    (l.reverse.dropWhile p).reverse <+: l := by
  refine ⟨(l.reverse.takeWhile p).reverse, ?_⟩
  rw [← List.reverse_append, List.takeWhile_append_dropWhile, List.reverse_reverse]

theorem trimSpace_prefix (q : Bytes) : trimSpace q <+: q.drop (leadBlanks q) := by
  unfold trimSpace leadBlanks
  rw [← dropWhile_eq_drop_takeWhile]
  exact reverse_dropWhile_reverse_prefix _ _

/-- 1. the trimmed text is the slice of `q` that starts after the leading blanks -/
theorem trimSpace_eq_slice (q : Bytes) :
    trimSpace q = (q.drop (leadBlanks q)).take (trimSpace q).length :=
  List.prefix_iff_eq_take.mp (trimSpace_prefix q)

theorem trimSpace_getElem? (q : Bytes) :
    ∀ j < (trimSpace q).length, (trimSpace q)[j]? = q[leadBlanks q + j]? := by
  intro j hj
  have h := trimSpace_eq_slice q
  generalize trimSpace q = t at h hj ⊢
  rw [h, List.getElem?_take, if_pos hj, List.getElem?_drop]

theorem leadBlanks_add_trimSpace_length_le (q : Bytes) :
    leadBlanks q + (trimSpace q).length ≤ q.length := by
  have h := (trimSpace_prefix q).length_le
  have h2 : leadBlanks q ≤ q.length := by
    unfold leadBlanks; exact (List.takeWhile_sublist _).length_le
  rw [List.length_drop] at h
  omega

/-! ### `render` by cases -/

/-- the clamped, trimmed-text-relative position computed at the top of `render` -/
def pos0 (q : Bytes) (pos : Option Nat) : Nat :=
  match pos with
  | none => (trimSpace q).length
  | some p => min (p - leadBlanks q) (trimSpace q).length

theorem pos0_le (q : Bytes) (pos : Option Nat) : pos0 q pos ≤ (trimSpace q).length := by
  unfold pos0; split <;> omega

theorem pos0_none (q : Bytes) : pos0 q none = (trimSpace q).length := rfl

theorem pos0_some (q : Bytes) (p : Nat) (h1 : leadBlanks q ≤ p)
    (h2 : p < leadBlanks q + (trimSpace q).length) : pos0 q (some p) = p - leadBlanks q := by
  simp only [pos0]; omega

/-- `pos0` is the quantity `render` uses: `render` written with `pos0` -/
theorem render_eq_pos0 (q : Bytes) (pos : Option Nat) (adjust : Nat) :
    render q pos adjust =
      (let tq := trimSpace q
       let qlen := tq.length
       if qlen > winLen then
         if pos0 q pos ≤ winLeft then
           { line1 := tq.take winLen ++ Bytes.ofString " ...", caret := pos0 q pos + adjust }
         else
           let trim := pos0 q pos - winLeft
           let restLen := qlen - trim
           { line1 := Bytes.ofString "... " ++ (tq.drop trim).take (min restLen winLen) ++
               (if restLen > winLen then Bytes.ofString " ..." else []),
             caret := (pos0 q pos - trim) + adjust + 4 }
       else { line1 := tq, caret := pos0 q pos + adjust }) := rfl

theorem render_small (q : Bytes) (pos : Option Nat) (adjust : Nat)
    (h : (trimSpace q).length ≤ 70) :
    render q pos adjust = { line1 := trimSpace q, caret := pos0 q pos + adjust } := by
  rw [render_eq_pos0]; dsimp only
  rw [if_neg (by rw [winLen_eq]; omega)]

theorem render_left (q : Bytes) (pos : Option Nat) (adjust : Nat)
    (h : 70 < (trimSpace q).length) (hp : pos0 q pos ≤ 35) :
    render q pos adjust =
      { line1 := (trimSpace q).take 70 ++ [32, 46, 46, 46], caret := pos0 q pos + adjust } := by
  rw [render_eq_pos0]; dsimp only
  rw [if_pos (by rw [winLen_eq]; omega), if_pos (by rw [winLeft_eq]; omega), ellR_eq, winLen_eq]

theorem render_right (q : Bytes) (pos : Option Nat) (adjust : Nat)
    (h : 70 < (trimSpace q).length) (hp : 35 < pos0 q pos) :
    render q pos adjust =
      { line1 := [46, 46, 46, 32] ++
          ((trimSpace q).drop (pos0 q pos - 35)).take
            (min ((trimSpace q).length - (pos0 q pos - 35)) 70) ++
          (if (trimSpace q).length - (pos0 q pos - 35) > 70 then [32, 46, 46, 46] else []),
        caret := 35 + adjust + 4 } := by
  rw [render_eq_pos0]; dsimp only
  rw [if_pos (by rw [winLen_eq]; omega), if_neg (by rw [winLeft_eq]; omega), ellR_eq, ellL_eq,
    winLen_eq, winLeft_eq]
  congr 2
  omega

/-! ### 2. the caret is under the byte at offset `p` of the original query -/

theorem render_caret_aligned (q : Bytes) (p adjust : Nat)
    (h1 : leadBlanks q ≤ p) (h2 : p < leadBlanks q + (trimSpace q).length) :
    let r := render q (some p) adjust
    adjust ≤ r.caret ∧ r.line1[r.caret - adjust]? = q[p]? := by
  have hidx : (trimSpace q)[p - leadBlanks q]? = q[p]? := by
    rw [trimSpace_getElem? q _ (by omega)]
    congr 1; omega
  have hp := pos0_some q p h1 h2
  intro r
  by_cases hlen : 70 < (trimSpace q).length
  · by_cases hpos : pos0 q (some p) ≤ 35
    · have hr : r = _ := render_left q (some p) adjust hlen hpos
      rw [hr]
      refine ⟨by simp, ?_⟩
      simp only [Nat.add_sub_cancel]
      rw [List.getElem?_append_left (by simp; omega), List.getElem?_take,
        if_pos (by omega), hp, hidx]
    · have hr : r = _ := render_right q (some p) adjust hlen (by omega)
      rw [hr]
      refine ⟨by simp; omega, ?_⟩
      have e : 35 + adjust + 4 - adjust = 4 + 35 := by omega
      simp only [e]
      rw [List.append_assoc, List.getElem?_append_right (by simp)]
      simp only [List.length_cons, List.length_nil, Nat.zero_add, Nat.add_sub_cancel_left]
      rw [List.getElem?_append_left (by simp; omega), List.getElem?_take,
        if_pos (by omega), List.getElem?_drop, ← hidx]
      congr 1; omega
  · have hr : r = _ := render_small q (some p) adjust (by omega)
    rw [hr]
    refine ⟨by simp, ?_⟩
    simp only [Nat.add_sub_cancel]
    rw [hp, hidx]

/-- the hypotheses of `render_caret_aligned` hold for a query with 3 leading blanks,
    90 non-blank bytes, 2 trailing blanks and an offset in the middle -/
example :
    let q : Bytes := List.replicate 3 32 ++ List.replicate 90 65 ++ [32, 9]
    leadBlanks q = 3 ∧ (trimSpace q).length = 90 ∧
      leadBlanks q ≤ 50 ∧ 50 < leadBlanks q + (trimSpace q).length := by
  decide

/-! ### 3. end of input: the caret is one past the last shown byte -/

theorem render_caret_end (q : Bytes) (adjust : Nat) :
    let r := render q none adjust
    adjust ≤ r.caret ∧ r.caret - adjust = r.line1.length := by
  intro r
  by_cases hlen : 70 < (trimSpace q).length
  · have hr : r = _ := render_right q none adjust hlen (by rw [pos0_none]; omega)
    rw [hr, pos0_none]
    refine ⟨by simp; omega, ?_⟩
    rw [if_neg (by omega)]
    simp only [List.length_append, List.length_take, List.length_drop, List.length_cons,
      List.length_nil]
    omega
  · have hr : r = _ := render_small q none adjust (by omega)
    rw [hr, pos0_none]
    exact ⟨by simp, by simp⟩

/-! ### 4. line 1 is a stretch of the query, optionally decorated with ellipses -/

theorem slice_of_slice {α} (q : List α) (lb L trim m : Nat) (tq : List α)
    (hs : tq = (q.drop lb).take L) :
    (tq.drop trim).take m = (q.drop (lb + trim)).take (min m (L - trim)) := by
  subst hs
  rw [List.drop_take, List.take_take, List.drop_drop]

theorem render_window_in_query (q : Bytes) (pos : Option Nat) (adjust : Nat) :
    ∃ a n pre suf,
      (render q pos adjust).line1 = pre ++ (q.drop a).take n ++ suf ∧
      (pre = [] ∨ pre = Bytes.ofString "... ") ∧
      (suf = [] ∨ suf = Bytes.ofString " ...") ∧
      a + n ≤ q.length := by
  have hs := trimSpace_eq_slice q
  have hl := leadBlanks_add_trimSpace_length_le q
  have hle := pos0_le q pos
  rw [ellL_eq, ellR_eq]
  by_cases hlen : 70 < (trimSpace q).length
  · by_cases hpos : pos0 q pos ≤ 35
    · rw [render_left q pos adjust hlen hpos]
      refine ⟨leadBlanks q, min 70 (trimSpace q).length, [], _, ?_, .inl rfl, .inr rfl, by omega⟩
      rw [List.nil_append, ← List.take_take, ← hs]
    · rw [render_right q pos adjust hlen (by omega)]
      refine ⟨leadBlanks q + (pos0 q pos - 35),
        min (min ((trimSpace q).length - (pos0 q pos - 35)) 70)
          ((trimSpace q).length - (pos0 q pos - 35)),
        [46, 46, 46, 32],
        (if (trimSpace q).length - (pos0 q pos - 35) > 70 then [32, 46, 46, 46] else []),
        ?_, .inr rfl, ?_, ?_⟩
      · rw [slice_of_slice q _ _ _ _ _ hs]
      · split
        · exact .inr rfl
        · exact .inl rfl
      · omega
  · rw [render_small q pos adjust (by omega)]
    exact ⟨leadBlanks q, (trimSpace q).length, [], [], by simpa using hs, .inl rfl, .inl rfl, hl⟩

/-! ### 5. the slice expressions of the windowed branch are in range (no panic) -/

/-- `tquery[trim : trim+restLen']` with `trim = pos0 - winLeft`,
    `restLen' = min (len(tquery) - trim) winLen` satisfies `trim ≤ trim+restLen' ≤ len(tquery)` -/
theorem render_slices_in_range (q : Bytes) (pos : Option Nat)
    (_hlen : (trimSpace q).length > winLen) (_hpos : pos0 q pos > winLeft) :
    pos0 q pos - winLeft ≤ (trimSpace q).length ∧
    (pos0 q pos - winLeft) +
        min ((trimSpace q).length - (pos0 q pos - winLeft)) winLen ≤ (trimSpace q).length := by
  have := pos0_le q pos
  omega

end Kvql.Proofs.ErrRender

