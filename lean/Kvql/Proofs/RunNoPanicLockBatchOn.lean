/-
  RunNoPanic, part 10b: SELECT with a field list, batch mode, field cache ON — without the alias hypotheses of C05.

  RunNoPanicLockBatchOnA.lean: the vector evaluator on one chunk, cache on (`execBatch_frame`, `execBatch_fs`);
  RunNoPanicLockBatchOnB.lean: the evaluation side (`drainBatchFuel_lock_on`) against `pollsOfE` for the fresh
    verdicts `VOn w`;
  here: the verdict table `batchVerdicts w (Ctx.new true)` as the plan filter acts as `VOn w` on the inner chunks
    (the storage side `scanTrace_batch_pollsE` is generic in the verdict), and the theorem.
-/
import Kvql.Proofs.RunNoPanicLockBatch
import Kvql.Proofs.RunNoPanicLockBatchOnB

namespace Kvql.Proofs.RunNoPanic

namespace LockBatchOn

open Kvql Kvql.Run Kvql.Plans Kvql.Storage LockBatch
open Kvql.Proofs.RunTables Kvql.Proofs.RunScan Kvql.Proofs.RunFields

theorem chunkVerdicts_def_on (w : Expr) (c : List SPair) :
    chunkVerdicts w (Ctx.new true) c =
      (match VOn w c with
        | .error e => c.map (fun p => (p.1, .error e))
        | .ok ms =>
          if (ms.drop c.length).any id then c.map (fun p => (p.1, .error .filterIndex))
          else zipVerdicts c ms) := rfl

/-- the verdict table of batch mode, cache on, as the filter of the plan, is the fresh chunk verdict `VOn` on every
    inner chunk -/
theorem filterV_batchVerdicts_on {w : Expr} (hw : w.wf = true) (chunks : List (List SPair))
    (hd : chunks.flatten.Pairwise (fun a b => a.1 ≠ b.1)) :
    FilterV (filterOfV (batchVerdicts w (Ctx.new true) chunks)) (VOn w) chunks := by
  intro c hc hne
  have hl := lookup_flatMap (LockBatch.chunkVerdicts_keys w (Ctx.new true)) chunks hd c hc
  have hpw := pairwise_of_mem_flatten chunks hd c hc
  rw [chunkVerdicts_def_on] at hl
  unfold batchVerdicts
  cases hv : VOn w c with
  | error e =>
    rw [hv] at hl
    simp only at hl ⊢
    exact filterChunk_err hne (fun p hp => by rw [hl p hp]; exact lookup_const _ c p hp)
  | ok ms =>
    rw [hv] at hl
    have hlen := VOn_len hw hne hv
    have hdrop : (ms.drop c.length).any id = false := by
      rw [List.drop_eq_nil_iff.mpr (by omega)]; rfl
    simp only [hdrop, Bool.false_eq_true, if_false] at hl ⊢
    exact filterChunk_zip c ms hlen hpw hl

/-- every failure the table holds is an error value -/
theorem batchVerdicts_benign_on {w : Expr} (hw : w.wf = true) (chunks : List (List SPair)) :
    ∀ x ∈ batchVerdicts w (Ctx.new true) chunks, ∀ e, x.2 = .error e → PBenign e := by
  intro x hx e he
  unfold batchVerdicts at hx
  obtain ⟨c, hc, hxc⟩ := List.mem_flatMap.mp hx
  rw [chunkVerdicts_def_on] at hxc
  by_cases hne : c = []
  · subst hne
    split at hxc
    · simp at hxc
    · split at hxc
      · simp at hxc
      · simp [zipVerdicts] at hxc
  · cases hv : VOn w c with
    | error e' =>
      rw [hv] at hxc
      simp only [List.mem_map] at hxc
      obtain ⟨p, _, rfl⟩ := hxc
      simp only [Except.error.injEq] at he
      subst he
      exact VOn_benign hw hne hv
    | ok ms =>
      rw [hv] at hxc
      have hlen := VOn_len hw hne hv
      have hdrop : (ms.drop c.length).any id = false := by
        rw [List.drop_eq_nil_iff.mpr (by omega)]; rfl
      simp only [hdrop, Bool.false_eq_true, if_false] at hxc
      obtain ⟨b, hb⟩ := LockBatch.zipVerdicts_ok c ms x hxc
      rw [hb] at he; cases he

/-- a failing inner chunk leaves a failure in the table -/
theorem batchVerdicts_has_error_on {w : Expr} (chunks : List (List SPair)) {c : List SPair} (hc : c ∈ chunks)
    (hne : c ≠ []) {e : Project.PErr} (hv : VOn w c = .error e) :
    ∃ x ∈ batchVerdicts w (Ctx.new true) chunks, ∃ e', x.2 = .error e' := by
  cases c with
  | nil => exact absurd rfl hne
  | cons p ps =>
    refine ⟨(p.1, .error e), ?_, e, rfl⟩
    unfold batchVerdicts
    refine List.mem_flatMap.mpr ⟨p :: ps, hc, ?_⟩
    rw [chunkVerdicts_def_on, hv]
    simp

end LockBatchOn

open Kvql Kvql.Run Kvql.Plans Kvql.Storage
open Kvql.Proofs.RunTables Kvql.Proofs.RunFields LockBatch LockBatchOn

/-- BATCH MODE, FIELD LIST, CACHE ON -/
theorem projTrace_batch_safe_on (s : SelectS) (f : FoldedSelect) (store : Store) (hs : store.Sorted)
    (bs : Nat) (hbs : 1 ≤ bs) (hnf : s.allFields = false)
    (hw : f.where_.wf = true) (hf : ∀ x ∈ f.fields, x.wf = true) :
    (∀ fl, (projTrace s f store .batch bs true).fin.1 = some fl → mild fl = true) ∧
    (∀ p ∈ (projTrace s f store .batch bs true).polls, ∀ r ∈ p.1, r.length = (s.fieldNames.zip f.fields).length) := by
  have hwfN := nodeOf_wf f.where_
  have hfl := innerChunks_flatten (nodeOf (Scan.optimize f.where_)) bs hbs store
  have hy := yielded_eq_filter (nodeOf (Scan.optimize f.where_)) hwfN hs
  have hd : (innerChunks (nodeOf (Scan.optimize f.where_)) bs store).flatten.Pairwise (fun a b => a.1 ≠ b.1) := by
    rw [hfl, hy]; exact keys_distinct hs _
  have hdk := distinctFk_innerChunks (nodeOf (Scan.optimize f.where_)) hwfN hs bs hbs
  have hF := filterV_batchVerdicts_on hw _ hd
  have hst := scanTrace_batch_pollsE (nodeOf (Scan.optimize f.where_)) store _ (VOn f.where_) bs hbs hF
  have hff : ∀ fld ∈ (s.fieldNames.zip f.fields).map (fun p => (⟨p.1, p.2⟩ : Project.Field)), fld.expr.wf = true := by
    intro fld hfld
    obtain ⟨p, hp, rfl⟩ := List.mem_map.mp hfld
    exact hf p.2 (List.of_mem_zip hp).2
  have hon : Kvql.Cache.CtxOn (Ctx.new true) := ⟨rfl, rfl⟩
  have hlock := drainBatchFuel_lock_on hw hff (bs := bs)
    ((innerChunks (nodeOf (Scan.optimize f.where_)) bs store).length + 1)
    (innerChunks (nodeOf (Scan.optimize f.where_)) bs store) (by omega) hdk (Ctx.new true) hon
  unfold projTrace
  simp only [hnf, Bool.false_eq_true, if_false]
  generalize hP : pollsOfE bs (VOn f.where_) ((innerChunks (nodeOf (Scan.optimize f.where_)) bs store).length + 1)
    (innerChunks (nodeOf (Scan.optimize f.where_)) bs store) = P at hst hlock
  obtain ⟨PP, pe⟩ := P
  generalize scanTrace (nodeOf (Scan.optimize f.where_))
    (batchVerdicts f.where_ (Ctx.new true) (innerChunks (nodeOf (Scan.optimize f.where_)) bs store)) .batch bs store = st at hst
  obtain ⟨hst1, hst2⟩ := hst
  simp only [List.map_nil, List.nil_append] at hst1 hst2
  rw [← hst1] at hlock
  simp only [List.length_map] at hlock
  constructor
  · refine zipProj_lock_fin st.polls st.fin _ _ st.w0 [] pe hlock ?_ ?_
    · intro h; rw [hst2, h]; rfl
    · intro x hx
      subst hx
      have hmem : ∃ c ∈ innerChunks (nodeOf (Scan.optimize f.where_)) bs store, c ≠ [] ∧ VOn f.where_ c = .error x := by
        have := pollsOfE_error_mem bs (VOn f.where_) _ _ x (by rw [hP])
        exact this
      obtain ⟨c, hc, hne, hv⟩ := hmem
      obtain ⟨e', he1, he2⟩ := firstErr_benign _ (batchVerdicts_benign_on hw _) (batchVerdicts_has_error_on _ hc hne hv)
      obtain ⟨cls, hcls⟩ := he2
      refine ⟨cls, ?_⟩
      rw [hst2, he1]
      simp [pollFail, hcls]
  · intro p hp r hr
    rcases zipProj_polls_mem _ _ _ _ _ _ p hp with h | h
    · cases h
    · exact hlock.rows_len _ h r hr

end Kvql.Proofs.RunNoPanic
