/-
  End-to-end proofs for SELECT statements WITH A FIELD LIST, part 8: the hypotheses as computable
  checks (so that every theorem has a closed instance), and the ORDER BY hypothesis `RowOKV` carried
  from the values of the parsed fields to the rows of the folded statement.
-/
import Kvql.Proofs.RunFieldsMain

namespace Kvql.Proofs.RunFields
open Kvql Kvql.Run Kvql.Plans Kvql.Storage Kvql.Cache Kvql.Project Kvql.Proofs.Scan Kvql.Proofs.Typing
open Kvql.Proofs.RunTables Kvql.Proofs.RunScan Kvql.Proofs.RunLimit Kvql.Proofs.RunFold
open Kvql.PlanCheck (planStage finalPlanCheck)
open Kvql.Spec.Order (RowOK)

/-! ### `ExecOK`, `EvalOK`, `SpecOK` as checks -/

def isBoolVal : Except Err Value → Bool
  | .ok (.bool _) => true
  | _ => false

def isSupported : Except Err Value → Bool
  | .ok v => rowSupported v
  | _ => false

theorem isBoolVal_sound {x : Except Err Value} (h : isBoolVal x = true) : ∃ b, x = .ok (.bool b) := by
  unfold isBoolVal at h
  split at h
  · exact ⟨_, rfl⟩
  · cases h

theorem isSupported_sound {x : Except Err Value} (h : isSupported x = true) : ∃ v, x = .ok v ∧ rowSupported v = true := by
  unfold isSupported at h
  split at h
  · exact ⟨_, rfl, h⟩
  · cases h

theorem exec_of_nocache {e : Expr} {kv : Kvql.Pair} {v : Value} (h : nocache e kv = .ok v) :
    exec e kv Ctx.off = (.ok v, Ctx.off) := by
  rw [Select.exec_off]
  unfold nocache at h
  rw [h]

/-- `ExecOK` as a check on the parsed statement and the store -/
def execOKb (s : SelectS) (store : Store) : Bool :=
  store.all (fun p => isBoolVal (nocache s.where_ (toKv p)) &&
    (!Select.accepted s.where_ p || s.fields.all (fun e => isSupported (nocache e (toKv p)))))

theorem execOK_of_check {s : SelectS} {store : Store} (h : execOKb s store = true) : ExecOK s store := by
  unfold execOKb at h
  rw [List.all_eq_true] at h
  refine ⟨fun p hp => ?_, fun p hp ha e he => ?_⟩
  · have := h p hp
    simp only [Bool.and_eq_true] at this
    obtain ⟨b, hb⟩ := isBoolVal_sound this.1
    exact ⟨b, exec_of_nocache hb⟩
  · have := h p hp
    simp only [Bool.and_eq_true, Bool.or_eq_true, Bool.not_eq_true', List.all_eq_true] at this
    rcases this.2 with h1 | h1
    · rw [ha] at h1; cases h1
    · obtain ⟨v, hv, hs⟩ := isSupported_sound (h1 e he)
      exact ⟨v, exec_of_nocache hv, hs⟩

/-- `EvalOK` as a check on the folded statement and the store -/
def evalOKb (s : SelectS) (f : FoldedSelect) (store : Store) : Bool :=
  store.all (fun p => isBoolVal (nocache f.where_ (toKv p)) &&
    (!Select.accepted f.where_ p || (selFields s f).all (fun g => isSupported (nocache g.expr (toKv p)))))

theorem evalOK_of_check {s : SelectS} {f : FoldedSelect} {store : Store} (h : evalOKb s f store = true) :
    EvalOK s f store := by
  unfold evalOKb at h
  rw [List.all_eq_true] at h
  refine ⟨fun p hp => ?_, fun p hp ha g hg => ?_⟩
  · have := h p hp
    simp only [Bool.and_eq_true] at this
    exact isBoolVal_sound this.1
  · have := h p hp
    simp only [Bool.and_eq_true, Bool.or_eq_true, Bool.not_eq_true', List.all_eq_true] at this
    rcases this.2 with h1 | h1
    · rw [ha] at h1; cases h1
    · exact isSupported_sound (h1 g hg)

/-- `SpecOK` as a check -/
def specOKb (s : SelectS) (store : Store) : Bool :=
  sideOk s.where_ && Refine.core s.where_ && store.all (fun p => Spec.evaluable s.where_ ⟨p.1, p.2⟩) &&
  s.fields.all (fun e => sideOk e && Refine.core e && noSiteAggr e) &&
  store.all (fun p => !Spec.holds s.where_ ⟨p.1, p.2⟩ || s.fields.all (fun e => (Spec.eval e ⟨p.1, p.2⟩).isSome))

theorem specOK_of_check {s : SelectS} {store : Store} (h : specOKb s store = true) : SpecOK s store := by
  unfold specOKb at h
  simp only [Bool.and_eq_true, List.all_eq_true, Bool.or_eq_true, Bool.not_eq_true'] at h
  obtain ⟨⟨⟨⟨h1, h2⟩, h3⟩, h4⟩, h5⟩ := h
  refine ⟨h1, h2, h3, fun e he => (h4 e he).1.1, fun e he => (h4 e he).1.2, fun e he => (h4 e he).2, ?_⟩
  intro p hp hh e he
  rcases h5 p hp with h6 | h6
  · rw [hh] at h6; cases h6
  · exact h6 e he

/-! ### `RowOK` as a check -/

def smallIntB (i : Int) : Bool := decide (-2^53 < i) && decide (i < 2^53)

def kindHoldsB : Spec.Order.Kind → Col → Bool
  | .bytes, .bytes _ => true
  | .str, .str _ => true
  | .text, .bytes _ => true
  | .text, .str _ => true
  | .int, .int _ => true
  | .goInt, .goInt _ => true
  | .float, .float f => !Order.f64IsNaN f
  | .num, .int i => smallIntB i.toInt
  | .num, .goInt i => smallIntB i.toInt
  | .num, .float f => !Order.f64IsNaN f
  | .bool, .bool _ => true
  | _, _ => false

def kindFitsB (tp : Nat) : Spec.Order.Kind → Bool
  | .bytes | .str | .text => tp == Generated.tyTSTR
  | .int | .goInt | .float | .num => tp == Generated.tyTNUMBER
  | .bool => tp == Generated.tyTBOOL

def rowOKb : List Order.Key → List Spec.Order.Kind → Order.Row → Bool
  | [], [], _ => true
  | o :: keys, k :: kinds, r =>
    kindFitsB o.tp k && (match r[o.pos]? with | some v => kindHoldsB k v | none => false) && rowOKb keys kinds r
  | _, _, _ => false

theorem smallIntB_sound {i : Int} (h : smallIntB i = true) : Kvql.Properties.C07.SmallInt i := by
  unfold smallIntB at h
  simp only [Bool.and_eq_true, decide_eq_true_eq] at h
  exact h

theorem kindHoldsB_sound {k : Spec.Order.Kind} {v : Col} (h : kindHoldsB k v = true) :
    k.holds Kvql.Properties.C07.SmallInt v := by
  cases k <;> cases v <;> simp [kindHoldsB] at h <;> simp [Spec.Order.Kind.holds, h] <;> exact smallIntB_sound h

theorem kindFitsB_sound {tp : Nat} {k : Spec.Order.Kind} (h : kindFitsB tp k = true) : k.fits tp := by
  cases k <;> simp [kindFitsB] at h <;> exact h

theorem rowOKb_sound : ∀ (keys : List Order.Key) (kinds : List Spec.Order.Kind) (r : Order.Row), rowOKb keys kinds r = true →
    RowOK Kvql.Properties.C07.SmallInt keys kinds r
  | [], [], _, _ => trivial
  | [], _ :: _, _, h => by simp [rowOKb] at h
  | _ :: _, [], _, h => by simp [rowOKb] at h
  | o :: keys, k :: kinds, r, h => by
    simp only [rowOKb, Bool.and_eq_true] at h
    obtain ⟨⟨h1, h2⟩, h3⟩ := h
    refine ⟨kindFitsB_sound h1, ?_, rowOKb_sound keys kinds r h3⟩
    cases hv : r[o.pos]? with
    | none => rw [hv] at h2; cases h2
    | some v => rw [hv] at h2; exact ⟨v, rfl, kindHoldsB_sound h2⟩

/-! ### the ORDER BY hypothesis, from the parsed fields to the folded rows -/

/-- the kinds whose membership does not depend on a text being held as `[]byte` or as a Go string -/
def stableKind : Spec.Order.Kind → Bool
  | .bytes | .str => false
  | _ => true

theorem holds_rel {S : Int → Prop} {k : Spec.Order.Kind} (hk : stableKind k = true) {col v : Value} (h : Kvql.Rel col v)
    (hv : k.holds S (toCol v)) : k.holds S (toCol col) := by
  rcases h with rfl | ⟨b, rfl, rfl⟩
  · exact hv
  · cases k <;> simp [stableKind] at hk <;> simp [toCol, Spec.Order.Kind.holds] at hv ⊢

theorem rows_getElem?_right {α β : Type} {P : α → β → Prop} : ∀ {as : List α} {bs : List β}, Rows P as bs →
    ∀ (i : Nat) (a : α), as[i]? = some a → ∃ b, bs[i]? = some b ∧ P a b
  | _, _, .nil, i, a, h => by simp at h
  | _, _, .cons (b := b) hp _, 0, a, h => by
    simp only [List.getElem?_cons_zero, Option.some.injEq] at h
    subst h
    exact ⟨b, rfl, hp⟩
  | _, _, .cons _ hr, i + 1, a, h => by
    simp only [List.getElem?_cons_succ] at h ⊢
    exact rows_getElem?_right hr i a h

theorem rowOK_of_rel {S : Int → Prop} : ∀ (keys : List Order.Key) (kinds : List Spec.Order.Kind), kinds.all stableKind = true →
    ∀ {row row' : List Value}, Rows Kvql.Rel row row' → RowOK S keys kinds (row'.map toCol) →
      RowOK S keys kinds (row.map toCol)
  | [], [], _, _, _, _, _ => trivial
  | [], _ :: _, _, _, _, _, h => h.elim
  | _ :: _, [], _, _, _, _, h => h.elim
  | o :: keys, k :: kinds, hst, row, row', hr, h => by
    simp only [List.all_cons, Bool.and_eq_true] at hst
    obtain ⟨h1, ⟨v, hv, hh⟩, h3⟩ := h
    refine ⟨h1, ?_, rowOK_of_rel keys kinds hst.2 hr h3⟩
    rw [List.getElem?_map] at hv
    cases hv' : row'[o.pos]? with
    | none => rw [hv'] at hv; cases hv
    | some v0 =>
      rw [hv'] at hv
      simp only [Option.map_some, Option.some.injEq] at hv
      subst hv
      obtain ⟨c, hc, hrel⟩ := rows_getElem? hr o.pos v0 hv'
      exact ⟨toCol c, by rw [List.getElem?_map, hc]; rfl, holds_rel hst.1 hrel hh⟩

/-! ### checking a statement text by computation -/

/-- a computable predicate on the SELECT that `planStage` returns (false for anything else) -/
def stmtCheck (P : SelectS → Bool) (r : Res Stmt) : Bool :=
  match r with
  | .ok (.select s) => P s
  | _ => false

theorem stmtCheck_sound {P : SelectS → Bool} {r : Res Stmt} (h : stmtCheck P r = true) :
    ∃ s, r = .ok (.select s) ∧ P s = true := by
  unfold stmtCheck at h
  split at h
  · exact ⟨_, rfl, h⟩
  · cases h

/-- `finalPlanCheck s = ok false` as a Boolean -/
def noAggrB (s : SelectS) : Bool :=
  match finalPlanCheck s with
  | .ok false => true
  | _ => false

theorem noAggrB_sound {s : SelectS} (h : noAggrB s = true) : finalPlanCheck s = .ok false := by
  unfold noAggrB at h
  split at h
  · assumption
  · cases h

/-- `OrderHypParsed` with the order keys' kinds given, as a check -/
def rowsOKParsedB (s : SelectS) (store : Store) (keys : List Order.Key) (kinds : List Spec.Order.Kind) : Bool :=
  store.all (fun p => !Select.accepted s.where_ p || rowOKb keys kinds ((s.fields.map (colVal · p)).map toCol))

theorem rowsOKParsedB_sound {s : SelectS} {store : Store} {keys : List Order.Key} {kinds : List Spec.Order.Kind}
    (h : rowsOKParsedB s store keys kinds = true) :
    ∀ p ∈ store, Select.accepted s.where_ p = true → RowOKV keys kinds (s.fields.map (colVal · p)) := by
  intro p hp ha
  unfold rowsOKParsedB at h
  rw [List.all_eq_true] at h
  have := h p hp
  simp only [Bool.or_eq_true, Bool.not_eq_true'] at this
  rcases this with h1 | h1
  · rw [ha] at h1; cases h1
  · exact rowOKb_sound _ _ _ h1

/-- a sorting ORDER BY whose keys exist, with `kinds` for the order columns: the hypotheses of
    `run_fields_order` about the clause, as a check -/
def orderCheck (s : SelectS) (store : Store) (kinds : List Spec.Order.Kind) : Bool :=
  match s.order with
  | some o =>
    !elideOrder s o &&
    (match orderKeys (projNames s) (projTypes s) o with
     | some keys => kinds.all stableKind && rowsOKParsedB s store keys kinds
     | none => false)
  | none => false

theorem orderCheck_sound {s : SelectS} {store : Store} {kinds : List Spec.Order.Kind}
    (h : orderCheck s store kinds = true) :
    ∃ o keys, s.order = some o ∧ elideOrder s o = false ∧ orderKeys (projNames s) (projTypes s) o = some keys ∧
      kinds.all stableKind = true ∧
      ∀ p ∈ store, Select.accepted s.where_ p = true → RowOKV keys kinds (s.fields.map (colVal · p)) := by
  unfold orderCheck at h
  split at h
  · rename_i o ho
    simp only [Bool.and_eq_true, Bool.not_eq_true'] at h
    obtain ⟨h1, h2⟩ := h
    split at h2
    · rename_i keys hk
      simp only [Bool.and_eq_true] at h2
      exact ⟨o, keys, ho, h1, hk, h2.1, rowsOKParsedB_sound h2.2⟩
    · cases h2
  · cases h

/-- the elided ORDER BY, as a check -/
def elideCheck (s : SelectS) : Bool :=
  match s.order with
  | some o => elideOrder s o && (orderKeys (projNames s) (projTypes s) o).isSome
  | none => false

theorem elideCheck_sound {s : SelectS} (h : elideCheck s = true) :
    ∃ o keys, s.order = some o ∧ elideOrder s o = true ∧ orderKeys (projNames s) (projTypes s) o = some keys := by
  unfold elideCheck at h
  split at h
  · rename_i o ho
    simp only [Bool.and_eq_true] at h
    obtain ⟨keys, hk⟩ := Option.isSome_iff_exists.mp h.2
    exact ⟨o, keys, ho, h.1, hk⟩
  · cases h

/-- the checks that look at the statement through its field names only -/
theorem aliasOKb_congr {s s' : SelectS} (h : s.fieldNames = s'.fieldNames) (f : FoldedSelect) :
    aliasOKb s f = aliasOKb s' f := by
  unfold aliasOKb aliasTable selFields; rw [h]

theorem evalOKb_congr {s s' : SelectS} (h : s.fieldNames = s'.fieldNames) (f : FoldedSelect) (store : Store) :
    evalOKb s f store = evalOKb s' f store := by
  unfold evalOKb selFields; rw [h]

end Kvql.Proofs.RunFields
