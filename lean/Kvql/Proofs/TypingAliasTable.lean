/-
  C14 through alias references, part 4: the select-field table of an accepted SELECT.

  The table invariant `TInv al tbl` (the names are `al`; every reference of every entry names a field)
  through `RewriteFieldNames`, ORDER BY / GROUP BY / LIMIT, and the two passes of `ValidateFields`; the
  second pass returns the table unchanged, so every entry of the final table was accepted by `Check`
  against the final table; hence `TblOK`.
-/
import Kvql.Proofs.TypingAliasParse

namespace Kvql.Proofs.Typing

open Kvql Kvql.Generated Kvql.PlanCheck Kvql.Parser

variable {pf : Bytes → F64}

/-- the names of the table are `al`, and every reference of every entry names a field -/
def TInv (al : Bytes → Bool) (tbl : Tbl) : Prop :=
  aliasP tbl = al ∧ ∀ (j : Nat) (nm : Bytes) (f : Expr), tbl[j]? = some (nm, f) → FoundP al f = true

theorem TInv.setField {al : Bytes → Bool} {tbl : Tbl} (h : TInv al tbl) (i : Nat) {e : Expr}
    (he : FoundP al e = true) : TInv al (tbl.setField i e) := by
  refine ⟨by rw [aliasP_setField]; exact h.1, fun j nm f hj => ?_⟩
  rcases setField_get_cases tbl i j e nm f hj with ⟨_, h2⟩ | ⟨_, rfl⟩
  · exact h.2 j nm f h2
  · exact he

theorem rewriteFieldNames_tinv {al : Bytes → Bool} : ∀ (n i : Nat) (tbl : Tbl) (tys : List Nat)
    (r : Tbl × List Nat), rewriteFieldNames n i tbl tys = .ok r → TInv al tbl → TInv al r.1
  | 0, i, tbl, tys, r, h, hh => by
    simp only [rewriteFieldNames] at h; cases h; exact hh
  | n + 1, i, tbl, tys, r, h, hh => by
    unfold rewriteFieldNames at h
    split at h
    · cases h; exact hh
    · rename_i nm0 f hget
      split at h
      · rename_i p d
        split at h
        · split at h
          · exact rewriteFieldNames_tinv n (i + 1) tbl tys r h hh
          · obtain ⟨f', hrw, h2⟩ := bind_ok_iff.mp h
            obtain ⟨t, _, h3⟩ := bind_ok_iff.mp h2
            refine rewriteFieldNames_tinv n (i + 1) _ _ r h3 (hh.setField i ?_)
            exact found_rewrite (ctx := { tbl := tbl, cur := some i }) hh.1 (hh.2 i nm0 _ hget) hrw
        · exact rewriteFieldNames_tinv n (i + 1) tbl tys r h hh
      · exact rewriteFieldNames_tinv n (i + 1) tbl tys r h hh

theorem groupCheck_tinv {al : Bytes → Bool} : ∀ (gs : List (Bytes × GTarget)) (tbl : Tbl)
    (r : Tbl × List (Bytes × GTarget)), groupCheck tbl gs = .ok r → TInv al tbl → TInv al r.1
  | [], tbl, r, h, hh => by
    simp only [groupCheck] at h; cases h; exact hh
  | (n, .sel i) :: rest, tbl, r, h, hh => by
    simp only [groupCheck] at h
    split at h
    · cases h
    · rename_i nm0 e hget
      obtain ⟨e', hck, h2⟩ := bind_ok_iff.mp h
      obtain ⟨⟨tbl', rest'⟩, h3, h4⟩ := bind_ok_iff.mp h2
      cases h4
      refine groupCheck_tinv rest _ (tbl', rest') h3 (hh.setField i ?_)
      exact check_found { tbl := tbl, cur := some i } hh.1 e e' hck (hh.2 i nm0 e hget)
  | (n, .own e) :: rest, tbl, r, h, hh => by
    simp only [groupCheck] at h
    obtain ⟨e', _, h2⟩ := bind_ok_iff.mp h
    obtain ⟨⟨tbl', rest'⟩, h3, h4⟩ := bind_ok_iff.mp h2
    cases h4
    exact groupCheck_tinv rest tbl (tbl', rest') h3 hh

theorem clauseLoop_tinv {ef lf : Nat} {al : Bytes → Bool} : ∀ (fuel : Nat) (c c' : Clauses) (ts : Toks),
    clauseLoop pf ef lf fuel c ts = .ok c' → TInv al c.tbl → TInv al c'.tbl
  | 0, c, c', ts, h, _ => by simp [clauseLoop] at h
  | fuel + 1, c, c', ts, h, hh => by
    unfold clauseLoop at h
    split at h
    · cases h; exact hh
    · split at h
      · split at h
        · cases h
        · obtain ⟨⟨o, ts'⟩, _, h2⟩ := bind_ok_iff.mp h
          dsimp only at h2
          split at h2
          · cases h2
          · exact clauseLoop_tinv fuel _ c' ts' h2 hh
      · split at h
        · split at h
          · cases h
          · obtain ⟨⟨⟨gpos, gfields, tbl'⟩, ts'⟩, hg, h2⟩ := bind_ok_iff.mp h
            dsimp only at h2
            split at h2
            · cases h2
            · refine clauseLoop_tinv fuel _ c' ts' h2 ?_
              dsimp only
              unfold parseGroupBy at hg
              split at hg
              · cases hg
              · obtain ⟨ts1, _, hg2⟩ := bind_ok_iff.mp hg
                obtain ⟨ts2, _, hg3⟩ := bind_ok_iff.mp hg2
                obtain ⟨⟨fields, ts3⟩, _, hg4⟩ := bind_ok_iff.mp hg3
                dsimp only at hg4
                obtain ⟨⟨tbl2, fields2⟩, hgc, hg5⟩ := bind_ok_iff.mp hg4
                cases hg5
                exact groupCheck_tinv fields c.tbl _ hgc hh
        · split at h
          · split at h
            · cases h
            · obtain ⟨⟨l, ts'⟩, _, h2⟩ := bind_ok_iff.mp h
              dsimp only at h2
              split at h2
              · cases h2
              · exact clauseLoop_tinv fuel _ c' [] h2 hh
          · cases h

/-- the first pass of `ValidateFields`: the invariant is kept, and every entry it went over is
    settled -/
theorem validateFields_pass1 {al : Bytes → Bool} : ∀ (n i : Nat) (tbl tbl' : Tbl),
    validateFields n i tbl = .ok tbl' → TInv al tbl →
      TInv al tbl' ∧
      (∀ (j : Nat) (nm : Bytes) (f : Expr), i ≤ j → j < i + n → tbl'[j]? = some (nm, f) → SettledP al f = true) ∧
      (∀ j, j < i → tbl'[j]? = tbl[j]?)
  | 0, i, tbl, tbl', h, hh => by
    simp only [validateFields] at h
    cases h
    exact ⟨hh, fun j nm f h1 h2 _ => by omega, fun _ _ => rfl⟩
  | n + 1, i, tbl, tbl', h, hh => by
    unfold validateFields at h
    split at h
    · cases h
      rename_i hnone
      refine ⟨hh, fun j nm f h1 _ hj => ?_, fun _ _ => rfl⟩
      have : tbl[j]? = none := by
        rw [List.getElem?_eq_none_iff] at hnone ⊢; omega
      rw [this] at hj; cases hj
    · rename_i nm0 f0 hget
      obtain ⟨f', hf', h⟩ := bind_ok_iff.mp h
      obtain ⟨u, _, h⟩ := bind_ok_iff.mp h
      have hfound := check_found { tbl := tbl, cur := some i } hh.1 f0 f' hf' (hh.2 i nm0 f0 hget)
      have hset := check_settled { tbl := tbl, cur := some i } hh.1 f0 f' hf'
      obtain ⟨ih0, ih1, ih2⟩ := validateFields_pass1 n (i + 1) (tbl.setField i f') tbl' h (hh.setField i hfound)
      refine ⟨ih0, fun j nm f h1 h2 hj => ?_, fun j hj => ?_⟩
      · by_cases hji : j = i
        · subst hji
          rw [ih2 j (by omega), setField_get_eq _ _ _ _ _ hget] at hj
          cases hj
          exact hset
        · exact ih1 j nm f (by omega) (by omega) hj
      · rw [ih2 j (by omega), setField_get_ne _ _ _ _ (by omega)]

/-- the second pass of `ValidateFields` over settled entries changes nothing: every entry is accepted
    by `Check`, unchanged, against the table as it is -/
theorem validateFields_pass2 : ∀ (n i : Nat) (tbl tbl' : Tbl), validateFields n i tbl = .ok tbl' →
    (∀ (j : Nat) (nm : Bytes) (f : Expr), i ≤ j → tbl[j]? = some (nm, f) → SettledP (aliasP tbl) f = true) →
      tbl' = tbl ∧
      ∀ (j : Nat) (nm : Bytes) (f : Expr), i ≤ j → j < i + n → tbl[j]? = some (nm, f) →
        ({ tbl := tbl, cur := some j } : CheckCtx).check f = .ok f
  | 0, i, tbl, tbl', h, _ => by
    simp only [validateFields] at h
    cases h
    exact ⟨rfl, fun j nm f h1 h2 _ => by omega⟩
  | n + 1, i, tbl, tbl', h, hs => by
    unfold validateFields at h
    split at h
    · cases h
      rename_i hnone
      refine ⟨rfl, fun j nm f h1 _ hj => ?_⟩
      have : tbl[j]? = none := by
        rw [List.getElem?_eq_none_iff] at hnone ⊢; omega
      rw [this] at hj; cases hj
    · rename_i nm0 f0 hget
      obtain ⟨f', hf', h⟩ := bind_ok_iff.mp h
      obtain ⟨u, _, h⟩ := bind_ok_iff.mp h
      have heq : f' = f0 := check_idem { tbl := tbl, cur := some i } f0 f' (hs i nm0 f0 (Nat.le_refl _) hget) hf'
      rw [heq] at hf' h
      rw [setField_same tbl i nm0 f0 hget] at h
      obtain ⟨ih0, ih1⟩ := validateFields_pass2 n (i + 1) tbl tbl' h (fun j nm f hj => hs j nm f (by omega))
      refine ⟨ih0, fun j nm f h1 h2 hj => ?_⟩
      by_cases hji : j = i
      · subst hji
        rw [hget] at hj
        cases hj
        exact hf'
      · exact ih1 j nm f (by omega) (by omega) hj

/-! ### the names of the table never change -/

theorem setField_names : ∀ (tbl : Tbl) (i : Nat) (e : Expr), (tbl.setField i e).map (·.1) = tbl.map (·.1)
  | [], i, e => by simp [Tbl.setField]
  | (n, x) :: rest, 0, e => by simp [Tbl.setField]
  | p :: rest, i + 1, e => by simp [Tbl.setField, setField_names rest i e]

theorem rewriteFieldNames_names : ∀ (n i : Nat) (tbl : Tbl) (tys : List Nat)
    (r : Tbl × List Nat), rewriteFieldNames n i tbl tys = .ok r → r.1.map (·.1) = tbl.map (·.1)
  | 0, i, tbl, tys, r, h => by
    simp only [rewriteFieldNames] at h; cases h; rfl
  | n + 1, i, tbl, tys, r, h => by
    unfold rewriteFieldNames at h
    split at h
    · cases h; rfl
    · split at h
      · split at h
        · split at h
          · exact rewriteFieldNames_names n (i + 1) tbl tys r h
          · obtain ⟨f', _, h2⟩ := bind_ok_iff.mp h
            obtain ⟨t, _, h3⟩ := bind_ok_iff.mp h2
            rw [rewriteFieldNames_names n (i + 1) _ _ r h3, setField_names]
        · exact rewriteFieldNames_names n (i + 1) tbl tys r h
      · exact rewriteFieldNames_names n (i + 1) tbl tys r h

theorem groupCheck_names : ∀ (gs : List (Bytes × GTarget)) (tbl : Tbl)
    (r : Tbl × List (Bytes × GTarget)), groupCheck tbl gs = .ok r → r.1.map (·.1) = tbl.map (·.1)
  | [], tbl, r, h => by
    simp only [groupCheck] at h; cases h; rfl
  | (n, .sel i) :: rest, tbl, r, h => by
    simp only [groupCheck] at h
    split at h
    · cases h
    · obtain ⟨e', _, h2⟩ := bind_ok_iff.mp h
      obtain ⟨⟨tbl', rest'⟩, h3, h4⟩ := bind_ok_iff.mp h2
      cases h4
      rw [groupCheck_names rest _ (tbl', rest') h3, setField_names]
  | (n, .own e) :: rest, tbl, r, h => by
    simp only [groupCheck] at h
    obtain ⟨e', _, h2⟩ := bind_ok_iff.mp h
    obtain ⟨⟨tbl', rest'⟩, h3, h4⟩ := bind_ok_iff.mp h2
    cases h4
    exact groupCheck_names rest tbl (tbl', rest') h3

theorem clauseLoop_names {ef lf : Nat} : ∀ (fuel : Nat) (c c' : Clauses) (ts : Toks),
    clauseLoop pf ef lf fuel c ts = .ok c' → c'.tbl.map (·.1) = c.tbl.map (·.1)
  | 0, c, c', ts, h => by simp [clauseLoop] at h
  | fuel + 1, c, c', ts, h => by
    unfold clauseLoop at h
    split at h
    · cases h; rfl
    · split at h
      · split at h
        · cases h
        · obtain ⟨⟨o, ts'⟩, _, h2⟩ := bind_ok_iff.mp h
          dsimp only at h2
          split at h2
          · cases h2
          · have := clauseLoop_names fuel _ c' ts' h2
            exact this
      · split at h
        · split at h
          · cases h
          · obtain ⟨⟨⟨gpos, gfields, tbl'⟩, ts'⟩, hg, h2⟩ := bind_ok_iff.mp h
            dsimp only at h2
            split at h2
            · cases h2
            · rw [clauseLoop_names fuel _ c' ts' h2]
              dsimp only
              unfold parseGroupBy at hg
              split at hg
              · cases hg
              · obtain ⟨ts1, _, hg2⟩ := bind_ok_iff.mp hg
                obtain ⟨ts2, _, hg3⟩ := bind_ok_iff.mp hg2
                obtain ⟨⟨fields, ts3⟩, _, hg4⟩ := bind_ok_iff.mp hg3
                dsimp only at hg4
                obtain ⟨⟨tbl2, fields2⟩, hgc, hg5⟩ := bind_ok_iff.mp hg4
                cases hg5
                exact groupCheck_names fields c.tbl _ hgc
        · split at h
          · split at h
            · cases h
            · obtain ⟨⟨l, ts'⟩, _, h2⟩ := bind_ok_iff.mp h
              dsimp only at h2
              split at h2
              · cases h2
              · have := clauseLoop_names fuel _ c' [] h2
                exact this
          · cases h

theorem validateFields_names : ∀ (n i : Nat) (tbl tbl' : Tbl), validateFields n i tbl = .ok tbl' →
    tbl'.map (·.1) = tbl.map (·.1)
  | 0, i, tbl, tbl', h => by
    simp only [validateFields] at h; cases h; rfl
  | n + 1, i, tbl, tbl', h => by
    unfold validateFields at h
    split at h
    · cases h; rfl
    · obtain ⟨f', _, h⟩ := bind_ok_iff.mp h
      obtain ⟨u, _, h⟩ := bind_ok_iff.mp h
      rw [validateFields_names n (i + 1) _ tbl' h, setField_names]

/-- `FieldNames` of the accepted statement are the names the select list was parsed with -/
theorem parseWhere_fieldNames {ef lf spos : Nat} {sel : SelAcc} {wpos : Nat} {ts : Toks} {s : SelectS}
    (h : parseWhere pf ef lf spos sel wpos ts = .ok (.select s)) : s.fieldNames = sel.names := by
  unfold parseWhere at h
  split at h
  · cases h
  · obtain ⟨⟨expr, rest⟩, _, h⟩ := bind_ok_iff.mp h
    dsimp only at h
    obtain ⟨⟨tbl, types⟩, _, h⟩ := bind_ok_iff.mp h
    dsimp only at h
    obtain ⟨c, _, h⟩ := bind_ok_iff.mp h
    obtain ⟨tbl1, _, h⟩ := bind_ok_iff.mp h
    obtain ⟨tbl', _, h⟩ := bind_ok_iff.mp h
    obtain ⟨types', _, h⟩ := bind_ok_iff.mp h
    obtain ⟨expr', _, h⟩ := bind_ok_iff.mp h
    obtain ⟨wt, _, h⟩ := bind_ok_iff.mp h
    split at h
    · cases h
    · cases h; rfl

/-- zipping names with the images of a table whose names they are -/
theorem zip_names_map (g : Expr → Expr) : ∀ (names : List Bytes) (fields : List Expr) (l : Tbl),
    l.map (·.1) = (names.zip fields).map (·.1) →
    names.zip (l.map (fun p => g p.2)) = l.map (fun p => (p.1, g p.2))
  | [], fields, l, h => by
    simp at h; subst h; simp
  | n :: ns, [], l, h => by
    simp at h; subst h; simp
  | n :: ns, f :: fs, [], _ => by simp
  | n :: ns, f :: fs, (n', x) :: l', h => by
    simp only [List.zip_cons_cons, List.map_cons, List.cons.injEq] at h
    obtain ⟨rfl, h'⟩ := h
    simp only [List.map_cons, List.zip_cons_cons, List.cons.injEq, true_and]
    exact zip_names_map g ns fs l' h'

/-! ### the select list the parser hands over has no reference -/

theorem selectLoop_aliasFree {ef : Nat} : ∀ (fuel : Nat) (acc : SelAcc) (ts : Toks) (r : SelAcc × Toks),
    selectLoop pf ef fuel acc ts = .ok r → (∀ f ∈ acc.fields, aliasFree f = true) →
      ∀ f ∈ r.1.fields, aliasFree f = true
  | 0, acc, ts, r, h, _ => by simp [selectLoop] at h
  | fuel + 1, acc, ts, r, h, hacc => by
    unfold selectLoop at h
    split at h
    · cases h; exact hacc
    · rename_i t rest
      split at h
      · cases h; exact hacc
      · split at h
        · split at h
          · split at h
            · cases h
            · split at h
              · cases h
              · cases h; exact hacc
          · split at h
            · cases h
            · cases h; exact hacc
        · obtain ⟨⟨field, ts1⟩, hpe, h⟩ := bind_ok_iff.mp h
          dsimp only at h
          obtain ⟨⟨fname, ts2⟩, _, h⟩ := bind_ok_iff.mp h
          dsimp only at h
          have hacc' : ∀ f ∈ acc.fields ++ [field], aliasFree f = true := by
            intro f hf
            rcases List.mem_append.mp hf with hf | hf
            · exact hacc f hf
            · simp at hf; subst hf; exact parseExpr_aliasFree pf hpe
          split at h
          · cases h; exact hacc'
          · split at h
            · cases h; exact hacc'
            · exact selectLoop_aliasFree fuel _ _ r h hacc'

theorem parseSelect_aliasFree {ef lf : Nat} {ts rest : Toks} {spos : Nat} {sel : SelAcc}
    (h : parseSelect pf ef lf ts = .ok ((spos, sel), rest)) : ∀ f ∈ sel.fields, aliasFree f = true := by
  unfold parseSelect at h
  split at h
  · cases h
  · obtain ⟨ts1, _, h⟩ := bind_ok_iff.mp h
    obtain ⟨⟨acc, ts2⟩, hl, h⟩ := bind_ok_iff.mp h
    dsimp only at h
    have hacc := selectLoop_aliasFree (pf := pf) lf {} ts1 (acc, ts2) hl (by simp)
    split at h
    · cases h
    · split at h
      · cases h
        intro f hf
        simp at hf
        rcases hf with rfl | rfl <;> rfl
      · cases h
        exact hacc

/-- `Parse` of a SELECT (or a bare `where`): the select list comes from `parseSelect`, or is empty -/
theorem parse_select_inv {toks : Toks} {s : SelectS} (h : Parse pf toks = .ok (.select s)) :
    ∃ ef lf spos sel wpos ts, parseWhere pf ef lf spos sel wpos ts = .ok (.select s) ∧
      ∀ f ∈ sel.fields, aliasFree f = true := by
  unfold Parse at h
  dsimp only at h
  split at h
  · cases h
  · split at h
    · obtain ⟨_, _, _, _, _, _, he⟩ := parsePut_inv h; cases he
    · split at h
      · obtain ⟨_, _, _, _, _, _, he⟩ := parseRemove_inv h; cases he
      · split at h
        · obtain ⟨_, _, _, _, _, _, _, _, _, _, he⟩ := parseDelete_inv h; cases he
        · split at h
          · obtain ⟨⟨⟨spos, sel⟩, ts⟩, hps, h⟩ := bind_ok_iff.mp h
            dsimp only at h
            split at h
            · cases h
            · exact ⟨_, _, _, _, _, _, h, parseSelect_aliasFree hps⟩
          · split at h
            · exact ⟨_, _, _, _, _, _, h, by simp⟩
            · cases h

theorem zip_mem_snd {names : List Bytes} {fields : List Expr} {j : Nat} {nm : Bytes} {f : Expr}
    (h : (names.zip fields)[j]? = some (nm, f)) : f ∈ fields := by
  have hm : (nm, f) ∈ names.zip fields := List.mem_of_getElem? h
  exact (List.of_mem_zip hm).2

/-! ### the accepted SELECT -/

/-- the accepted SELECT: the table `tbl'` and the filter `expr'` as `Check` left them; the table is a
    fixpoint of the checker, the filter passed every test over it and is Boolean; the statement
    carries their resolved forms; the plan-time validation went through -/
theorem accepted_select_table {toks : Toks} {s : SelectS} (h : planStage pf toks = .ok (.select s)) :
    ∃ (tbl' : Tbl) (expr' : Expr), TblOK tbl' ∧
      NodeOK { tbl := tbl' } false expr' ∧ Found tbl' expr' = true ∧
      ({ tbl := tbl' } : CheckCtx).rt expr' = .ok tyTBOOL ∧
      s.where_ = resolveTop tbl' expr' ∧
      s.fields = tbl'.map (fun p => resolveTop tbl' p.2) ∧
      callsOk s.where_ ∧ walkFields s.fields = .ok () ∧
      s.fieldNames.zip s.fields = tbl'.map (fun p => (p.1, resolveTop tbl' p.2)) := by
  obtain ⟨hp, hc, _⟩ := planStage_ok_iff.mp h
  simp only [checkStmtCalls] at hc
  obtain ⟨u, hw, hwf⟩ := bind_ok_iff.mp hc
  obtain ⟨ef, lf, spos, sel, wpos, ts, h1, hsel⟩ := parse_select_inv hp
  have hnames := parseWhere_fieldNames h1
  obtain ⟨expr, rest, tbl, types, c, tbl1, tbl', expr', s', hpe, hrw, hcl, hv1, hv2, hck, hrt, he, hwh, hfl⟩ :=
    parseWhere_inv h1
  cases he
  have hnm : tbl'.map (·.1) = (sel.names.zip sel.fields).map (·.1) := by
    rw [validateFields_names _ _ _ _ hv2, validateFields_names _ _ _ _ hv1, clauseLoop_names _ _ _ _ hcl,
      rewriteFieldNames_names _ _ _ _ _ hrw]
  have hzip : s.fieldNames.zip s.fields = tbl'.map (fun p => (p.1, resolveTop tbl' p.2)) := by
    rw [hnames, hfl]
    exact zip_names_map (resolveTop tbl') sel.names sel.fields tbl' hnm
  -- the names of the table never change
  let al := aliasP (sel.names.zip sel.fields)
  have h0 : TInv al (sel.names.zip sel.fields) :=
    ⟨rfl, fun j nm f hj => foundP_of_refFree al f (refFree_of_aliasFree f (hsel f (zip_mem_snd hj)))⟩
  have ht : TInv al tbl := rewriteFieldNames_tinv _ _ _ _ _ hrw h0
  have hc' : TInv al c.tbl := clauseLoop_tinv _ _ _ _ hcl ht
  obtain ⟨ht1, hset1, _⟩ := validateFields_pass1 _ _ _ _ hv1 hc'
  have hlen1 : tbl1.length = c.tbl.length := (validateFields_entries _ _ _ _ hv1).2.2
  have hsettled : ∀ (j : Nat) (nm : Bytes) (f : Expr), 0 ≤ j → tbl1[j]? = some (nm, f) →
      SettledP (aliasP tbl1) f = true := by
    intro j nm f _ hj
    rw [ht1.1]
    have hjl : j < tbl1.length := by
      rcases Nat.lt_or_ge j tbl1.length with hlt | hge
      · exact hlt
      · rw [List.getElem?_eq_none_iff.mpr hge] at hj; cases hj
    exact hset1 j nm f (Nat.zero_le _) (by omega) hj
  obtain ⟨heq, hfix⟩ := validateFields_pass2 _ _ _ _ hv2 hsettled
  subst heq
  refine ⟨tbl', expr', ?_, check_nodeOK _ _ _ hck, ?_, hrt, hwh, hfl, hw, hwf, hzip⟩
  · intro j nm f hj
    have hjl : j < tbl'.length := by
      rcases Nat.lt_or_ge j tbl'.length with hlt | hge
      · exact hlt
      · rw [List.getElem?_eq_none_iff.mpr hge] at hj; cases hj
    refine ⟨⟨{ tbl := tbl', cur := some j }, rfl, ?_⟩, ?_⟩
    · exact check_nodeOK _ _ _ (hfix j nm f (Nat.zero_le _) (by omega) hj)
    · have := ht1.2 j nm f hj
      rw [← ht1.1] at this
      exact this
  · have hrf := refFree_of_aliasFree _ (parseExpr_aliasFree pf hpe)
    have := check_found { tbl := tbl' } (al := aliasP tbl') rfl expr expr' hck (foundP_of_refFree _ _ hrf)
    exact this

end Kvql.Proofs.Typing
