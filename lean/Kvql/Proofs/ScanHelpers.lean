/-
  Regions of scan types, the invariant `WF`, and one soundness lemma + one invariant lemma per
  helper of filter_optimizer.go (12 helpers), assembled into `inter_sound` / `union_sound`
  (what `optimizeAndExpr` / `optimizeOrExpr` do with two inferred operands).
  Order reasoning: `cases` on the optional bounds, Bool tests rewritten into `≤ < = Pre`,
  then `grind` with the laws of `ByteOrderLaws.lean`.
-/
import Std
import Kvql.Model.Scan
import Kvql.Proofs.ByteOrderLaws

namespace Kvql.Scan
open Kvql.Bytes (Pre)

/-- the keys a plan node reads (scan_plan.go): nothing, the listed keys, the keys with the
    prefix, the keys between the present bounds (inclusive), everything -/
def region : Scan → Bytes → Prop
  | .empty, _ => False
  | .mget ks, k => k ∈ ks
  | .pre p, k => Pre p k
  | .range lo hi, k => (∀ l, lo = some l → l ≤ k) ∧ (∀ h, hi = some h → k ≤ h)
  | .full, _ => True

/-- the invariant the helpers rely on: a RANGE has a bound, and start ≤ end when it has both -/
def WF : Scan → Prop
  | .range lo hi => (lo ≠ none ∨ hi ≠ none) ∧ (∀ l h, lo = some l → hi = some h → l ≤ h)
  | _ => True

/-- the executable membership test of the driver (`SCANSPEC`) is `region` -/
theorem contains_iff_region (s : Scan) (k : Bytes) : s.contains k = true ↔ region s k := by
  cases s with
  | range lo hi =>
    cases lo <;> cases hi <;> simp [Scan.contains, region, Bytes.le_iff]
  | _ => simp [Scan.contains, region, Bytes.isPrefix_iff]

theorem region_ite {c : Prop} [Decidable c] (a b : Scan) (k : Bytes) :
    region (if c then a else b) k = if c then region a k else region b k := by
  split <;> rfl

/-- the order/prefix laws, put in context for `grind` -/
macro "scan_laws" : tactic => `(tactic|
  (have := @Bytes.pre_le; have := @Bytes.pre_conv; have := Bytes.pre_refl; have := Bytes.nil_le
   have := @Bytes.pre_trans; have := @Bytes.pre_comparable; have := Bytes.pre_of_nil
   have := Bytes.pre_nil))

/-- Bool tests of the model → propositions about `≤`, `<`, `=`, `Pre`; `region` pushed through `if` -/
macro "scan_simp" : tactic => `(tactic|
  simp [region, region_ite, WF, inRange, bv, Bytes.le_iff, Bytes.lt_iff, Bytes.eq_iff,
    Bytes.isPrefix_iff, Bytes.le_false_iff, Bytes.lt_false_iff, Bytes.eq_false_iff,
    Bytes.isPrefix_false_iff] at *)

/-! ### key lists -/

theorem mem_insertSorted {x y : Bytes} {l : List Bytes} :
    x ∈ Bytes.insertSorted y l ↔ x = y ∨ x ∈ l := by
  induction l with
  | nil => simp [Bytes.insertSorted]
  | cons z zs ih => simp only [Bytes.insertSorted]; split <;> simp [ih] <;> grind

theorem mem_sort {x : Bytes} {l : List Bytes} : x ∈ Bytes.sort l ↔ x ∈ l := by
  induction l with
  | nil => simp [Bytes.sort]
  | cons z zs ih =>
    have : Bytes.sort (z :: zs) = Bytes.insertSorted z (Bytes.sort zs) := rfl
    rw [this, mem_insertSorted, ih]; simp

theorem mem_dedup {x : Bytes} {l : List Bytes} : x ∈ Bytes.dedup l ↔ x ∈ l := by
  induction l with
  | nil => simp [Bytes.dedup]
  | cons z zs ih => simp [Bytes.dedup, ih]; grind

/-! ### one lemma per helper: intersections -/

theorem intersectionMget_sound {a b : List Bytes} {k : Bytes} (h1 : k ∈ a) (h2 : k ∈ b) :
    region (intersectionMget a b) k := by
  have hk : k ∈ Bytes.sort ((Bytes.dedup a).filter (fun k => b.contains k)) := by
    simp [mem_sort, mem_dedup, h1, h2]
  simp only [intersectionMget]
  split
  · rename_i h; simp only [List.isEmpty_iff] at h; rw [h] at hk; simp at hk
  · exact hk

theorem intersectionPrefix_sound {l r k : Bytes} (h1 : Pre l k) (h2 : Pre r k) :
    region (intersectionPrefix l r) k := by
  scan_laws
  unfold intersectionPrefix
  scan_simp
  grind

theorem swap_region {a b : OB} {k : Bytes} (h : region (.range a b) k) :
    region (.range (swapBounds a b).1 (swapBounds a b).2) k := by
  cases a <;> cases b <;> simp [swapBounds, region, bv, Bytes.lt_iff] at * <;> grind

theorem swap_wf {a b : OB} (h : WF (.range a b)) : swapBounds a b = (a, b) := by
  cases a <;> cases b <;> simp [swapBounds, WF, bv, Bytes.lt_iff] at * <;> grind

theorem intersectionBounds_sound {a b c d : OB} {k : Bytes}
    (h1 : region (.range a b) k) (h2 : region (.range c d) k) :
    region (intersectionBounds a b c d) k := by
  unfold intersectionBounds
  cases a <;> cases b <;> cases c <;> cases d <;> scan_simp <;> grind

theorem intersectionRange_sound {a b c d : OB} {k : Bytes}
    (h1 : region (.range a b) k) (h2 : region (.range c d) k) :
    region (intersectionRange a b c d) k :=
  intersectionBounds_sound (swap_region h1) (swap_region h2)

theorem intersectionMgetAndPrefix_sound {ks : List Bytes} {p k : Bytes} (h1 : k ∈ ks) (h2 : Pre p k) :
    region (intersectionMgetAndPrefix ks p) k := by
  have hk : k ∈ ks.filter (fun k => Bytes.isPrefix p k) := by simp [h1, Bytes.isPrefix_iff, h2]
  simp only [intersectionMgetAndPrefix]
  split
  · rename_i h; simp only [List.isEmpty_iff] at h; rw [h] at hk; simp at hk
  · exact hk

/-- on a RANGE with a bound, `inRange` of a non-nil key is membership in the region -/
theorem inRange_some {rs re : OB} {k : Bytes} (hw : WF (.range rs re)) :
    inRange rs re (some k) false = true ↔ region (.range rs re) k := by
  cases rs <;> cases re <;> scan_simp

theorem intersectionMgetAndRange_sound {ks : List Bytes} {rs re : OB} {k : Bytes}
    (hw : WF (.range rs re))
    (h1 : k ∈ ks) (h2 : region (.range rs re) k) : region (intersectionMgetAndRange ks rs re) k := by
  have hk : k ∈ ks.filter (fun k => inRange rs re (some k) false) := by simp [h1, inRange_some hw, h2]
  simp only [intersectionMgetAndRange]
  split
  · rename_i h; simp only [List.isEmpty_iff] at h; rw [h] at hk; simp at hk
  · exact hk

theorem intersectionPrefixAndRange_sound {p : Bytes} {rs re : OB} {k : Bytes}
    (hw : WF (.range rs re))
    (h1 : Pre p k) (h2 : region (.range rs re) k) : region (intersectionPrefixAndRange p rs re) k := by
  scan_laws
  unfold intersectionPrefixAndRange
  cases rs <;> cases re <;> scan_simp <;> grind

/-! ### one lemma per helper: unions -/

theorem unionMget_sound {a b : List Bytes} {k : Bytes} (h : k ∈ a ∨ k ∈ b) :
    region (unionMget a b) k := by
  have hk : k ∈ Bytes.sort (Bytes.dedup (a ++ b)) := by simp [mem_sort, mem_dedup, h]
  simp only [unionMget]
  split
  · rename_i h; simp only [List.isEmpty_iff] at h; rw [h] at hk; simp at hk
  · exact hk

theorem unionPrefix_sound {l r k : Bytes} (h : Pre l k ∨ Pre r k) :
    region (unionPrefix l r) k := by
  scan_laws
  unfold unionPrefix
  scan_simp
  grind

theorem unionBounds_sound {a b c d : OB} {k : Bytes}
    (h : region (.range a b) k ∨ region (.range c d) k) :
    region (unionBounds a b c d) k := by
  unfold unionBounds
  cases a <;> cases b <;> cases c <;> cases d <;> scan_simp <;> grind

theorem unionRange_sound {a b c d : OB} {k : Bytes}
    (h : region (.range a b) k ∨ region (.range c d) k) :
    region (unionRange a b c d) k :=
  unionBounds_sound (h.imp swap_region swap_region)

theorem unionMgetAndPrefix_sound {ks : List Bytes} {p k : Bytes} (h : k ∈ ks ∨ Pre p k) :
    region (unionMgetAndPrefix ks p) k := by
  unfold unionMgetAndPrefix
  split
  · trivial
  · rename_i hn
    simp only [List.any_eq_true, Bool.not_eq_eq_eq_not, Bool.not_true, not_exists, not_and,
      Bool.not_eq_false] at hn
    rcases h with h | h
    · exact (Bytes.isPrefix_iff p k).mp (hn k h)
    · exact h

theorem unionMgetAndRange_sound {ks : List Bytes} {rs re : OB} {k : Bytes}
    (hw : WF (.range rs re)) (h : k ∈ ks ∨ region (.range rs re) k) :
    region (unionMgetAndRange ks rs re) k := by
  unfold unionMgetAndRange
  split
  · split
    · cases rs <;> cases re <;> scan_simp <;> grind
    · trivial
  · rename_i hall
    simp only [List.any_eq_true, Bool.not_eq_eq_eq_not, Bool.not_true, not_exists, not_and,
      Bool.not_eq_false] at hall
    rcases h with h | h
    · exact (inRange_some hw).mp (hall k h)
    · exact h

theorem unionPrefixAndRange_sound {p : Bytes} {rs re : OB} {k : Bytes}
    (hw : WF (.range rs re)) (h : Pre p k ∨ region (.range rs re) k) :
    region (unionPrefixAndRange p rs re) k := by
  scan_laws
  unfold unionPrefixAndRange
  cases rs <;> cases re <;> scan_simp <;> grind

/-! ### the helpers keep the invariant -/

theorem swap_ordered (a b : OB) :
    ∀ l h, (swapBounds a b).1 = some l → (swapBounds a b).2 = some h → l ≤ h := by
  cases a <;> cases b <;> simp [swapBounds, bv, Bytes.lt_iff] <;> grind

theorem intersectionBounds_wf (a b c d : OB) : WF (intersectionBounds a b c d) := by
  unfold intersectionBounds
  cases a <;> cases b <;> cases c <;> cases d <;> simp [bv, Bytes.lt_iff, Bytes.eq_iff] <;>
    (repeat' split) <;> simp_all [WF] <;> grind

theorem unionBounds_wf {a b c d : OB} (h1 : ∀ l h, a = some l → b = some h → l ≤ h)
    (h2 : ∀ l h, c = some l → d = some h → l ≤ h) : WF (unionBounds a b c d) := by
  unfold unionBounds
  cases a <;> cases b <;> cases c <;> cases d <;> simp [bv, Bytes.lt_iff, Bytes.eq_iff] <;>
    (repeat' split) <;> simp_all [WF] <;> grind

theorem intersectionPrefixAndRange_wf {p : Bytes} {rs re : OB} (hw : WF (.range rs re)) :
    WF (intersectionPrefixAndRange p rs re) := by
  unfold intersectionPrefixAndRange
  cases rs <;> cases re <;>
    simp [inRange, bv, Bytes.le_iff, Bytes.lt_iff, Bytes.eq_iff, Bytes.isPrefix_iff] <;>
    (repeat' split) <;> simp_all [WF]

theorem unionMgetAndRange_wf {ks : List Bytes} {rs re : OB} (hw : WF (.range rs re)) :
    WF (unionMgetAndRange ks rs re) := by
  unfold unionMgetAndRange
  split
  · split
    · cases rs <;> cases re <;> simp [bv, Bytes.lt_iff] <;> (repeat' split) <;> simp_all [WF] <;> grind
    · trivial
  · exact hw

theorem unionPrefixAndRange_wf {p : Bytes} {rs re : OB} (hw : WF (.range rs re)) :
    WF (unionPrefixAndRange p rs re) := by
  scan_laws
  unfold unionPrefixAndRange
  cases rs <;> cases re <;>
    simp [inRange, bv, Bytes.le_iff, Bytes.lt_iff, Bytes.eq_iff, Bytes.isPrefix_iff] <;>
    (repeat' split) <;> simp_all [WF] <;> grind

/-! ### AND / OR -/

/-- decide the priority comparisons of `optimizeAndExpr` / `optimizeOrExpr` for concrete kinds
    (uses the regenerated values of EMPTY … FULL) -/
macro "scan_kinds" : tactic => `(tactic|
  simp [andScan, orScan, Scan.tp, Generated.scanEMPTY, Generated.scanMGET, Generated.scanPREFIX,
    Generated.scanRANGE, Generated.scanFULL])

/-- `inter_sound`: a key in both operands' regions is in the region `optimizeAndExpr` infers -/
theorem inter_sound {l r : Scan} {k : Bytes} (wl : WF l) (wr : WF r)
    (h1 : region l k) (h2 : region r k) : region (andScan l r) k := by
  cases l <;> cases r <;> scan_kinds <;>
    first
    | assumption
    | exact intersectionMget_sound h1 h2
    | exact intersectionPrefix_sound h1 h2
    | exact intersectionRange_sound h1 h2
    | exact intersectionMgetAndPrefix_sound h1 h2
    | exact intersectionMgetAndPrefix_sound h2 h1
    | exact intersectionMgetAndRange_sound wr h1 h2
    | exact intersectionMgetAndRange_sound wl h2 h1
    | exact intersectionPrefixAndRange_sound wr h1 h2
    | exact intersectionPrefixAndRange_sound wl h2 h1

/-- `union_sound`: a key in either operand's region is in the region `optimizeOrExpr` infers -/
theorem union_sound {l r : Scan} {k : Bytes} (wl : WF l) (wr : WF r)
    (h : region l k ∨ region r k) : region (orScan l r) k := by
  cases l <;> cases r <;> scan_kinds <;>
    first
    | trivial
    | (simp_all [region]; done)
    | exact unionMget_sound h
    | exact unionPrefix_sound h
    | exact unionRange_sound h
    | exact unionMgetAndPrefix_sound h
    | exact unionMgetAndPrefix_sound h.symm
    | exact unionMgetAndRange_sound wr h
    | exact unionMgetAndRange_sound wl h.symm
    | exact unionPrefixAndRange_sound wr h
    | exact unionPrefixAndRange_sound wl h.symm

theorem intersectionRange_wf (a b c d : OB) : WF (intersectionRange a b c d) :=
  intersectionBounds_wf _ _ _ _

theorem unionRange_wf (a b c d : OB) : WF (unionRange a b c d) :=
  unionBounds_wf (swap_ordered a b) (swap_ordered c d)

theorem mget_like_wf {ks : List Bytes} : WF (if ks.isEmpty then .empty else .mget ks) := by
  split <;> trivial

theorem andScan_wf {l r : Scan} (wl : WF l) (wr : WF r) : WF (andScan l r) := by
  cases l <;> cases r <;> scan_kinds <;>
    first
    | trivial
    | assumption
    | exact intersectionRange_wf _ _ _ _
    | exact intersectionPrefixAndRange_wf wr
    | exact intersectionPrefixAndRange_wf wl
    | (simp only [intersectionMget, intersectionMgetAndPrefix, intersectionMgetAndRange]; exact mget_like_wf)
    | (unfold intersectionPrefix; (repeat' split) <;> trivial)

theorem orScan_wf {l r : Scan} (wl : WF l) (wr : WF r) : WF (orScan l r) := by
  cases l <;> cases r <;> scan_kinds <;>
    first
    | trivial
    | assumption
    | exact unionRange_wf _ _ _ _
    | exact unionMgetAndRange_wf wr
    | exact unionMgetAndRange_wf wl
    | exact unionPrefixAndRange_wf wr
    | exact unionPrefixAndRange_wf wl
    | (simp only [unionMget]; exact mget_like_wf)
    | (unfold unionPrefix; (repeat' split) <;> trivial)
    | (unfold unionMgetAndPrefix; split <;> trivial)

end Kvql.Scan
