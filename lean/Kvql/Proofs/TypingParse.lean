/-
  C14, static half — what an accepted statement went through: inversion of the `do` blocks of
  `Parser.Parse` (one lemma per statement form), trees without alias references (`aliasFree`:
  resolving references changes nothing there), and `Check` never removing a reference.
-/
import Kvql.Proofs.TypingSound
import Kvql.Proofs.TypingStage

namespace Kvql.Proofs.Typing

open Kvql Kvql.Generated Kvql.PlanCheck Kvql.Parser

variable {pf : Bytes → F64}

/-- what an accepted select statement went through (parser.go `Parse`, after the WHERE keyword) -/
theorem parseWhere_inv {ef lf spos : Nat} {sel : SelAcc} {wpos : Nat} {ts : Toks} {stmt : Stmt}
    (h : parseWhere pf ef lf spos sel wpos ts = .ok stmt) :
    ∃ expr rest tbl types c tbl1 tbl' expr' s,
      parseExpr pf ef ts = .ok (expr, rest) ∧
      rewriteFieldNames (sel.names.zip sel.fields).length 0 (sel.names.zip sel.fields) sel.types = .ok (tbl, types) ∧
      clauseLoop pf ef lf lf { tbl := tbl } rest = .ok c ∧
      validateFields c.tbl.length 0 c.tbl = .ok tbl1 ∧
      validateFields tbl1.length 0 tbl1 = .ok tbl' ∧
      ({ tbl := tbl' } : CheckCtx).check expr = .ok expr' ∧
      ({ tbl := tbl' } : CheckCtx).rt expr' = .ok tyTBOOL ∧
      stmt = .select s ∧ s.where_ = resolveTop tbl' expr' ∧
      s.fields = tbl'.map (fun p => resolveTop tbl' p.2) := by
  unfold parseWhere at h
  split at h
  · cases h
  · obtain ⟨⟨expr, rest⟩, h1, h⟩ := bind_ok_iff.mp h
    dsimp only at h
    obtain ⟨⟨tbl, types⟩, h2, h⟩ := bind_ok_iff.mp h
    dsimp only at h
    obtain ⟨c, h3, h⟩ := bind_ok_iff.mp h
    obtain ⟨tbl1, h4, h⟩ := bind_ok_iff.mp h
    obtain ⟨tbl', h5, h⟩ := bind_ok_iff.mp h
    -- repair 0014: `FieldTypes` refreshed after the fields were validated (does not touch the trees)
    obtain ⟨types', _, h⟩ := bind_ok_iff.mp h
    obtain ⟨expr', h6, h⟩ := bind_ok_iff.mp h
    obtain ⟨wt, h7, h⟩ := bind_ok_iff.mp h
    split at h
    · cases h
    · rename_i hne
      simp only [bne_iff_ne, ne_eq, Decidable.not_not] at hne
      cases h
      exact ⟨expr, rest, tbl, types, c, tbl1, tbl', expr', _, h1, h2, h3, h4, h5, h6, by rw [h7, hne], rfl, rfl, rfl⟩

/-- … an accepted DELETE -/
theorem parseDelete_inv {ef lf : Nat} {ts : Toks} {stmt : Stmt} (h : parseDelete pf ef lf ts = .ok stmt) :
    ∃ wexpr w' pos wpos lim ts1 ts2,
      parseExpr pf ef ts1 = .ok (wexpr, ts2) ∧
      ({} : CheckCtx).check wexpr = .ok w' ∧ ({} : CheckCtx).rt w' = .ok tyTBOOL ∧
      stmt = .delete pos wpos w' lim := by
  unfold parseDelete at h
  split at h
  · cases h
  · obtain ⟨ts0, _, h⟩ := bind_ok_iff.mp h
    split at h
    · cases h
    · obtain ⟨ts1, _, h⟩ := bind_ok_iff.mp h
      obtain ⟨⟨wexpr, ts2⟩, h1, h⟩ := bind_ok_iff.mp h
      dsimp only at h
      obtain ⟨⟨lim, ts3⟩, _, h⟩ := bind_ok_iff.mp h
      dsimp only at h
      split at h
      · cases h
      · obtain ⟨w', h2, h⟩ := bind_ok_iff.mp h
        obtain ⟨wt, h3, h⟩ := bind_ok_iff.mp h
        split at h
        · cases h
        · rename_i hne
          simp only [bne_iff_ne, ne_eq, Decidable.not_not] at hne
          cases h
          exact ⟨wexpr, w', _, _, lim, ts1, ts2, h1, h2, by rw [h3, hne], rfl⟩

/-- … an accepted PUT: the pairs are the validated pairs -/
theorem parsePut_inv {ef lf : Nat} {ts : Toks} {stmt : Stmt} (h : parsePut pf ef lf ts = .ok stmt) :
    ∃ pos pairs pairs' ts1, putLoop pf ef lf [] ts1 = .ok pairs ∧
      validatePut { notAllowValue := true } pairs = .ok pairs' ∧ stmt = .put pos pairs' := by
  unfold parsePut at h
  split at h
  · cases h
  · obtain ⟨ts1, _, h⟩ := bind_ok_iff.mp h
    obtain ⟨pairs, h1, h⟩ := bind_ok_iff.mp h
    obtain ⟨pairs', h2, h⟩ := bind_ok_iff.mp h
    cases h
    exact ⟨_, pairs, pairs', ts1, h1, h2, rfl⟩

/-- … an accepted REMOVE -/
theorem parseRemove_inv {ef lf : Nat} {ts : Toks} {stmt : Stmt} (h : parseRemove pf ef lf ts = .ok stmt) :
    ∃ pos keys keys' ts1, removeLoop pf ef lf [] ts1 = .ok keys ∧
      validateRemove { notAllowKey := true, notAllowValue := true } keys = .ok keys' ∧ stmt = .remove pos keys' := by
  unfold parseRemove at h
  split at h
  · cases h
  · obtain ⟨ts1, _, h⟩ := bind_ok_iff.mp h
    obtain ⟨keys, h1, h⟩ := bind_ok_iff.mp h
    obtain ⟨keys', h2, h⟩ := bind_ok_iff.mp h
    cases h
    exact ⟨_, keys, keys', ts1, h1, h2, rfl⟩

/-- the five statement forms of `Parse` -/
theorem parse_inv {toks : Toks} {stmt : Stmt} (h : Parse pf toks = .ok stmt) :
    (∃ ef lf ts, parsePut pf ef lf ts = .ok stmt) ∨
    (∃ ef lf ts, parseRemove pf ef lf ts = .ok stmt) ∨
    (∃ ef lf ts, parseDelete pf ef lf ts = .ok stmt) ∨
    (∃ ef lf spos sel wpos ts, parseWhere pf ef lf spos sel wpos ts = .ok stmt) := by
  unfold Parse at h
  dsimp only at h
  split at h
  · cases h
  · split at h
    · exact .inl ⟨_, _, _, h⟩
    · split at h
      · exact .inr (.inl ⟨_, _, _, h⟩)
      · split at h
        · exact .inr (.inr (.inl ⟨_, _, _, h⟩))
        · split at h
          · obtain ⟨⟨⟨spos, sel⟩, ts⟩, _, h⟩ := bind_ok_iff.mp h
            dsimp only at h
            split at h
            · cases h
            · exact .inr (.inr (.inr ⟨_, _, _, _, _, _, h⟩))
          · split at h
            · exact .inr (.inr (.inr ⟨_, _, _, _, _, _, h⟩))
            · cases h

/-! ### trees without alias references -/

/-- no alias reference and no cycle marker anywhere -/
def aliasFree : Expr → Bool
  | .binop _ _ l r => aliasFree l && aliasFree r
  | .not _ r => aliasFree r
  | .call _ n args => aliasFree n && aliasFreeList args
  | .ref .. => false
  | .cycle => false
  | .list _ items => aliasFreeList items
  | .access _ l f => aliasFree l && aliasFree f
  | _ => true
where aliasFreeList : List Expr → Bool
  | [] => true
  | e :: es => aliasFree e && aliasFreeList es

mutual
  theorem refFree_of_aliasFree : ∀ e : Expr, aliasFree e = true → refFree e = true
    | .binop _ _ l r, h => by
      simp only [aliasFree, Bool.and_eq_true] at h
      simp [refFree, refFree_of_aliasFree l h.1, refFree_of_aliasFree r h.2]
    | .not _ r, h => by
      simp only [aliasFree] at h
      simp [refFree, refFree_of_aliasFree r h]
    | .call _ n args, h => by
      simp only [aliasFree, Bool.and_eq_true] at h
      simp [refFree, refFree_of_aliasFree n h.1, refFreeList_of_aliasFree args h.2]
    | .list _ items, h => by
      simp only [aliasFree] at h
      simp [refFree, refFreeList_of_aliasFree items h]
    | .access _ l f, h => by
      simp only [aliasFree, Bool.and_eq_true] at h
      simp [refFree, refFree_of_aliasFree l h.1, refFree_of_aliasFree f h.2]
    | .ref .., h => by simp [aliasFree] at h
    | .cycle, _ => by simp [refFree]
    | .field .., _ | .str .., _ | .name .., _ | .num .., _ | .float .., _ | .bool .., _ => by simp [refFree]
  theorem refFreeList_of_aliasFree : ∀ es : List Expr, aliasFree.aliasFreeList es = true → refFree.refFreeList es = true
    | [], _ => by simp [refFree.refFreeList]
    | e :: es, h => by
      simp only [aliasFree.aliasFreeList, Bool.and_eq_true] at h
      simp [refFree.refFreeList, refFree_of_aliasFree e h.1, refFreeList_of_aliasFree es h.2]
end

/-- a function that puts a reference or the cycle marker in the place of a reference -/
def RefLike (f : Nat → Bytes → Expr → Expr) : Prop :=
  ∀ p n t, f p n t = .cycle ∨ ∃ t', f p n t = .ref p n t'

mutual
  /-- if the resolved tree has no reference, nothing was resolved -/
  theorem mapRefs_aliasFree {f : Nat → Bytes → Expr → Expr} (hf : RefLike f) :
      ∀ e : Expr, aliasFree (mapRefs f e) = true → mapRefs f e = e
    | .binop p o l r, h => by
      simp only [mapRefs, aliasFree, Bool.and_eq_true] at h
      simp [mapRefs, mapRefs_aliasFree hf l h.1, mapRefs_aliasFree hf r h.2]
    | .not p r, h => by
      simp only [mapRefs, aliasFree] at h
      simp [mapRefs, mapRefs_aliasFree hf r h]
    | .call p n args, h => by
      simp only [mapRefs, aliasFree, Bool.and_eq_true] at h
      simp [mapRefs, mapRefs_aliasFree hf n h.1, mapRefsList_aliasFree hf args h.2]
    | .list p items, h => by
      simp only [mapRefs, aliasFree] at h
      simp [mapRefs, mapRefsList_aliasFree hf items h]
    | .access p l x, h => by
      simp only [mapRefs, aliasFree, Bool.and_eq_true] at h
      simp [mapRefs, mapRefs_aliasFree hf l h.1, mapRefs_aliasFree hf x h.2]
    | .ref p n t, h => by
      simp only [mapRefs] at h
      rcases hf p n t with hc | ⟨t', hr⟩
      · rw [hc] at h; simp [aliasFree] at h
      · rw [hr] at h; simp [aliasFree] at h
    | .cycle, _ | .field .., _ | .str .., _ | .name .., _ | .num .., _ | .float .., _ | .bool .., _ => by
      simp [mapRefs]
  theorem mapRefsList_aliasFree {f : Nat → Bytes → Expr → Expr} (hf : RefLike f) :
      ∀ es : List Expr, aliasFree.aliasFreeList (mapRefsList f es) = true → mapRefsList f es = es
    | [], _ => by simp [mapRefsList]
    | e :: es, h => by
      simp only [mapRefsList, aliasFree.aliasFreeList, Bool.and_eq_true] at h
      simp [mapRefsList, mapRefs_aliasFree hf e h.1, mapRefsList_aliasFree hf es h.2]
end

theorem resolveTop_aliasFree (tbl : Tbl) (e : Expr) (h : aliasFree (resolveTop tbl e) = true) :
    resolveTop tbl e = e := by
  unfold resolveTop at h ⊢
  simp only [resolve] at h ⊢
  apply mapRefs_aliasFree _ e h
  intro p n t
  dsimp only
  split
  · split
    · exact .inl rfl
    · exact .inr ⟨_, rfl⟩
  · exact .inr ⟨_, rfl⟩

/-! ### `Check` never removes a reference -/

theorem rewrite_refFree_in {ctx : CheckCtx} {x y : Expr} (h : ctx.rewrite x = .ok y) (hy : refFree y = true) :
    y = x := by
  rcases rewrite_cases h with rfl | ⟨p, d, j, tgt, _, _, rfl⟩
  · rfl
  · simp [refFree] at hy

mutual
  theorem check_refFree_in (ctx : CheckCtx) : ∀ (e e' : Expr), ctx.check e = .ok e' → refFree e' = true →
      refFree e = true
    | .binop pos op l r, e', h, hr => by
      simp only [CheckCtx.check] at h
      obtain ⟨l1, hl1, h⟩ := bind_ok_iff.mp h
      obtain ⟨r1, hr1, h⟩ := bind_ok_iff.mp h
      obtain ⟨l2, hl2, h⟩ := bind_ok_iff.mp h
      obtain ⟨r2, hr2, h⟩ := bind_ok_iff.mp h
      obtain ⟨u, _, h⟩ := bind_ok_iff.mp h
      cases h
      simp only [refFree, Bool.and_eq_true] at hr ⊢
      have e1 := rewrite_refFree_in hl2 hr.1
      have e2 := rewrite_refFree_in hr2 hr.2
      subst e1; subst e2
      exact ⟨check_refFree_in ctx l _ hl1 hr.1, check_refFree_in ctx r _ hr1 hr.2⟩
    | .not pos r, e', h, hr => by
      simp only [CheckCtx.check] at h
      obtain ⟨r', hr', h⟩ := bind_ok_iff.mp h
      obtain ⟨t, _, h⟩ := bind_ok_iff.mp h
      split at h
      · cases h
      · cases h
        simp only [refFree] at hr ⊢
        exact check_refFree_in ctx r _ hr' hr
    | .call pos nm args, e', h, hr => by
      simp only [CheckCtx.check] at h
      split at h
      · obtain ⟨args', ha, h⟩ := bind_ok_iff.mp h
        cases h
        simp only [refFree, Bool.and_eq_true] at hr ⊢
        exact ⟨hr.1, checkArgs_refFree_in ctx args _ ha hr.2⟩
      · cases h
    | .list pos items, e', h, hr => by
      simp only [CheckCtx.check] at h
      split at h
      · cases h
      · obtain ⟨items', hi, h⟩ := bind_ok_iff.mp h
        obtain ⟨u, _, h⟩ := bind_ok_iff.mp h
        cases h
        simp only [refFree] at hr ⊢
        exact checkItems_refFree_in ctx _ _ hi hr
    | .access pos l f, e', h, hr => by
      simp only [CheckCtx.check] at h
      obtain ⟨l', hl', h⟩ := bind_ok_iff.mp h
      obtain ⟨f', hf', h⟩ := bind_ok_iff.mp h
      obtain ⟨u, _, h⟩ := bind_ok_iff.mp h
      cases h
      simp only [refFree, Bool.and_eq_true] at hr ⊢
      exact ⟨check_refFree_in ctx l _ hl' hr.1, check_refFree_in ctx f _ hf' hr.2⟩
    | .ref .., e', h, hr => by
      simp only [CheckCtx.check] at h; cases h; exact hr
    | .field .., _, _, _ | .str .., _, _, _ | .name .., _, _, _ | .cycle, _, _, _ | .num .., _, _, _
    | .float .., _, _, _ | .bool .., _, _, _ => by simp [refFree]
  theorem checkArgs_refFree_in (ctx : CheckCtx) : ∀ (args args' : List Expr), ctx.checkArgs args = .ok args' →
      refFree.refFreeList args' = true → refFree.refFreeList args = true
    | [], _, _, _ => by simp [refFree.refFreeList]
    | a :: as, args', h, hr => by
      unfold CheckCtx.checkArgs at h
      obtain ⟨a', ha, h⟩ := bind_ok_iff.mp h
      obtain ⟨as', has, h⟩ := bind_ok_iff.mp h
      cases h
      simp only [refFree.refFreeList, Bool.and_eq_true] at hr ⊢
      refine ⟨?_, checkArgs_refFree_in ctx as _ has hr.2⟩
      split at ha
      · simp [refFree]
      · exact check_refFree_in ctx a _ ha hr.1
  theorem checkItems_refFree_in (ctx : CheckCtx) : ∀ (items items' : List Expr), ctx.checkItems items = .ok items' →
      refFree.refFreeList items' = true → refFree.refFreeList items = true
    | [], _, _, _ => by simp [refFree.refFreeList]
    | a :: as, items', h, hr => by
      unfold CheckCtx.checkItems at h
      obtain ⟨a', ha, h⟩ := bind_ok_iff.mp h
      obtain ⟨as', has, h⟩ := bind_ok_iff.mp h
      cases h
      simp only [refFree.refFreeList, Bool.and_eq_true] at hr ⊢
      exact ⟨check_refFree_in ctx a _ ha hr.1, checkItems_refFree_in ctx as _ has hr.2⟩
end

/-- soundness needs no assumption on the input when the accepted tree has no reference -/
theorem check_sound_out_refFree (ctx : CheckCtx) (e e' : Expr)
    (h : ctx.check e = .ok e') (hc : callsOk e') (hs : sideOk e' = true) (hrf' : refFree e' = true) :
    ∃ k, kindOf e' = some k ∧ k.code = e'.retType ∧ ctx.rt e' = .ok k.code :=
  check_sound_refFree ctx e e' (check_refFree_in ctx e e' h hrf') h hc hs hrf'

end Kvql.Proofs.Typing
