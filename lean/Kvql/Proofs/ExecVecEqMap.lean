/-
  C03(1) `vec_eq_map`: with the field cache switched off, a batch evaluation that succeeds agrees,
  pair by pair and by content, with row-at-a-time evaluation — which then succeeds too.
  Mutual induction over `Expr` and the function bodies.
-/
import Kvql.Proofs.ExecVecRel

namespace Kvql
open Generated

mutual
  /-- the static condition of `vec_eq_map`: in `x in f(..)` / `x in alias` the right operand is
      statically a list — what `checkWithIn` enforces; the batch code does not test it, the row
      code does.  Nothing else is required. -/
  def Expr.vecOk : Expr → Bool
    | .binop _ op l r =>
      l.vecOk && r.vecOk &&
        (match op with
         | .in_ => (match r with
            | .call .. | .ref .. => retType r == tyTLIST
            | _ => true)
         | _ => true)
    | .not _ r => r.vecOk
    | .call _ _ args => Expr.vecOkList args
    | .ref _ _ t => t.vecOk
    | .list _ items => Expr.vecOkList items
    | .access _ l _ => l.vecOk
    | _ => true
  def Expr.vecOkList : List Expr → Bool
    | [] => true
    | e :: es => e.vecOk && Expr.vecOkList es
end

/-- every batch value is matched by a successful row evaluation of the same pair, equal by content -/
def RowsOk (e : Expr) (c : Ctx) (vs : List Value) (chunk : List Pair) : Prop :=
  Rows (fun vb kv => ∃ vr, exec e kv c = (.ok vr, c) ∧ Rel vb vr) vs chunk

def BodyRowsOk (b : Body) (args : List Expr) (c : Ctx) (vs : List Value) (chunk : List Pair) : Prop :=
  Rows (fun vb kv => ∃ vr, rowBody b args kv c = (.ok vr, c) ∧ Rel vb vr) vs chunk

theorem Rows.map_left {β : Type} {P : Value → β → Prop} (f : β → Value) (h : ∀ b, P (f b) b) :
    ∀ (bs : List β), Rows P (bs.map f) bs
  | [] => .nil
  | b :: bs => .cons (h b) (Rows.map_left f h bs)

theorem lift_ok_inv {α} {x : Except Err α} {c c' : Ctx} {a : α} (h : M.lift x c = (.ok a, c')) :
    x = .ok a ∧ c' = c := by
  simp at h; exact ⟨h.1, h.2.symm⟩

/-- the common shape of the binary operators: both operands in batch, then a loop `F` over the pairs
    that applies a kernel `K` pair by pair; row by row: once both operands have values, the node has
    the value of a kernel `K'` -/
theorem binop_step {e l r : Expr} {F : Nat → List Value → List Value → Except Err (List Value)}
    {K K' : Value → Value → Except Err Value} {chunk : List Pair} {c c' : Ctx} {vs : List Value}
    (hb : execBatch e chunk = (do
      let a ← execBatch l chunk
      let b ← execBatch r chunk
      M.lift (F chunk.length a b)))
    (hF : ∀ {Pa Pb : Value → Pair → Prop} {as bs ys}, Rows Pa as chunk → Rows Pb bs chunk →
      F chunk.length as bs = .ok ys → Rows (fun y kv => ∃ a b, Pa a kv ∧ Pb b kv ∧ K a b = .ok y) ys chunk)
    (hrow : ∀ kv x' z' y', exec l kv c = (.ok x', c) → exec r kv c = (.ok z', c) → K' x' z' = .ok y' →
      exec e kv c = (.ok y', c))
    (hK : ∀ x x' z z' y, Rel x x' → Rel z z' → K x z = .ok y → ∃ y', K' x' z' = .ok y' ∧ Rel y y')
    (ihl : ∀ vs c', execBatch l chunk c = (.ok vs, c') → c' = c ∧ RowsOk l c vs chunk)
    (ihr : ∀ vs c', execBatch r chunk c = (.ok vs, c') → c' = c ∧ RowsOk r c vs chunk)
    (h : execBatch e chunk c = (.ok vs, c')) : c' = c ∧ RowsOk e c vs chunk := by
  rw [hb] at h
  obtain ⟨a, c1, ha, h1⟩ := bind_ok_inv h
  obtain ⟨e1, Ra⟩ := ihl _ _ ha
  rw [e1] at h1
  obtain ⟨b, c2, hb', h2⟩ := bind_ok_inv h1
  obtain ⟨e2, Rb⟩ := ihr _ _ hb'
  rw [e2] at h2
  obtain ⟨hz, e3⟩ := lift_ok_inv h2
  refine ⟨e3, ?_⟩
  refine (hF Ra Rb hz).imp ?_
  rintro y kv ⟨x, z, ⟨x', hx, rx⟩, ⟨z', hzr, rz⟩, hf⟩
  obtain ⟨y', hk, ry⟩ := hK x x' z z' y rx rz hf
  exact ⟨y', hrow kv x' z' y' hx hzr hk, ry⟩

/-- a kernel that is the same in both modes and does not look at the Go kind of a text -/
theorem same_kernel {K : Value → Value → Except Err Value}
    (hK : ∀ x x' z z', Rel x x' → Rel z z' → K x z = K x' z') :
    ∀ x x' z z' y, Rel x x' → Rel z z' → K x z = .ok y → ∃ y', K x' z' = .ok y' ∧ Rel y y' :=
  fun x x' z z' y rx rz h => ⟨y, by rw [← hK x x' z z' rx rz]; exact h, .refl y⟩

theorem zipRows_F {K : Value → Value → Except Err Value} {chunk : List Pair}
    {Pa Pb : Value → Pair → Prop} {as bs ys : List Value} (ha : Rows Pa as chunk) (hb : Rows Pb bs chunk)
    (h : zipRows K chunk.length as bs = .ok ys) :
    Rows (fun y kv => ∃ a b, Pa a kv ∧ Pb b kv ∧ K a b = .ok y) ys chunk := zipRows_forall₂ ha hb h

/-- `execEqualBatch` after the operands: pair by pair it is `execEqual`'s comparison -/
theorem equalBatchFinish_F {not : Bool} {chunk : List Pair}
    {Pa Pb : Value → Pair → Prop} {as bs ys : List Value} (ha : Rows Pa as chunk) (hb : Rows Pb bs chunk)
    (h : equalBatchFinish not chunk.length as bs = .ok ys) :
    Rows (fun y kv => ∃ a b, Pa a kv ∧ Pb b kv ∧
      boolV ((equalRow a b).map (fun c => if not then !c else c)) = .ok y) ys chunk := by
  unfold equalBatchFinish at h
  split at h
  · rename_i h0
    have : chunk = [] := by cases chunk <;> simp_all
    subst this
    cases h; cases ha; exact .nil
  · exact zipRows_forall₂ ha hb h

theorem leaf_rows {e : Expr} {c : Ctx} {f : Pair → Value} (chunk : List Pair)
    (hr : ∀ kv, exec e kv c = (.ok (f kv), c)) : RowsOk e c (chunk.map f) chunk :=
  Rows.map_left f (fun kv => ⟨f kv, hr kv, .refl _⟩) chunk

theorem pure_ok_inv {α} {a b : α} {c c' : Ctx} (h : (Pure.pure a : M α) c = (.ok b, c')) : b = a ∧ c' = c := by
  simp at h; exact ⟨h.1.symm, h.2.symm⟩

/-- row step of the arithmetic operators -/
theorem row_math {p : Nat} {op : Op} {mop : MathOp} {l r : Expr} {c : Ctx}
    (hop : (op = .sub ∧ mop = .sub) ∨ (op = .mul ∧ mop = .mul) ∨ (op = .div ∧ mop = .div) ∨
      (op = .add ∧ mop = .add ∧ (retType l == tyTSTR) = false)) :
    ∀ kv x' z' y', exec l kv c = (.ok x', c) → exec r kv c = (.ok z', c) → executeMathOp x' z' mop = .ok y' →
      exec (.binop p op l r) kv c = (.ok y', c) := by
  intro kv x' z' y' hx hz hk
  rcases hop with ⟨rfl, rfl⟩ | ⟨rfl, rfl⟩ | ⟨rfl, rfl⟩ | ⟨rfl, rfl, hs⟩ <;> rw [exec] <;>
    simp [M.bind_ok hx, M.bind_ok hz, hk, *]

theorem row_compare {p : Nat} {op : Op} {cop : CmpOp} {l r : Expr} {c : Ctx}
    (hop : (op = .gt ∧ cop = .gt) ∨ (op = .gte ∧ cop = .gte) ∨ (op = .lt ∧ cop = .lt) ∨ (op = .lte ∧ cop = .lte)) :
    ∀ kv x' z' y', exec l kv c = (.ok x', c) → exec r kv c = (.ok z', c) →
      boolV (compareBy (!(retType l == tyTSTR)) x' z' cop) = .ok y' →
      exec (.binop p op l r) kv c = (.ok y', c) := by
  intro kv x' z' y' hx hz hk
  cases hc : compareBy (!(retType l == tyTSTR)) x' z' cop with
  | error e => simp [hc, boolV, Except.map] at hk
  | ok b =>
    simp [hc, boolV, Except.map] at hk
    subst hk
    rcases hop with ⟨rfl, rfl⟩ | ⟨rfl, rfl⟩ | ⟨rfl, rfl⟩ | ⟨rfl, rfl⟩ <;> rw [exec] <;>
      simp [M.bind_ok hx, M.bind_ok hz, hc, M.bind_run]

/-! kernels of the remaining binary operators, as the batch loops apply them -/

def prefixK (x y : Value) : Except Err Value :=
  match convertToByteArray x, convertToByteArray y with
  | some x, some y => .ok (.bool (y.isPrefixOf x))
  | _, _ => .error .operandType

def regexK (x y : Value) : Except Err Value :=
  match convertToByteArray x, convertToByteArray y with
  | some x, some y =>
    match Regex.parse y with
    | none => .error .data
    | some re => .ok (.bool (re.matches x))
  | _, _ => .error .operandType

def andK (x y : Value) : Except Err Value :=
  match x, y with
  | .bool p, .bool q => .ok (.bool (p && q))
  | _, _ => .error .operandType

def orK (x y : Value) : Except Err Value :=
  match x, y with
  | .bool p, .bool q => .ok (.bool (p || q))
  | _, _ => .error .operandType

def concatK (x y : Value) : Except Err Value :=
  match convertToByteArray x, convertToByteArray y with
  | some x, some y => .ok (.bytes (x ++ y))
  | _, _ => .error .operandType

/-- row mode concatenates whatever `toString` makes of the operands, as a Go string -/
def concatK' (x y : Value) : Except Err Value := .ok (.str (toStringV x ++ toStringV y))

theorem prefixK_congr : ∀ x x' z z', Rel x x' → Rel z z' → prefixK x z = prefixK x' z' :=
  fun _ _ _ _ rx rz => by unfold prefixK; rw [rx.convertToByteArray_congr, rz.convertToByteArray_congr]
theorem regexK_congr : ∀ x x' z z', Rel x x' → Rel z z' → regexK x z = regexK x' z' :=
  fun _ _ _ _ rx rz => by unfold regexK; rw [rx.convertToByteArray_congr, rz.convertToByteArray_congr]

theorem Rel.bool_left {b : Bool} {x' : Value} (h : Rel (.bool b) x') : x' = .bool b := by
  rcases h with rfl | ⟨_, h, _⟩
  · rfl
  · cases h

theorem andK_rel : ∀ x x' z z' y, Rel x x' → Rel z z' → andK x z = .ok y → ∃ y', andK x' z' = .ok y' ∧ Rel y y' := by
  intro x x' z z' y rx rz h
  unfold andK at h
  split at h
  · rename_i p q
    rw [rx.bool_left, rz.bool_left]
    exact ⟨y, h, .refl y⟩
  · cases h

theorem orK_rel : ∀ x x' z z' y, Rel x x' → Rel z z' → orK x z = .ok y → ∃ y', orK x' z' = .ok y' ∧ Rel y y' := by
  intro x x' z z' y rx rz h
  unfold orK at h
  split at h
  · rename_i p q
    rw [rx.bool_left, rz.bool_left]
    exact ⟨y, h, .refl y⟩
  · cases h

theorem convertToByteArray_toStringV {x : Value} {b : Bytes} (h : convertToByteArray x = some b) : toStringV x = b := by
  cases x <;> simp [convertToByteArray] at h <;> simp [toStringV, h]

theorem concatK_rel : ∀ x x' z z' y, Rel x x' → Rel z z' → concatK x z = .ok y → ∃ y', concatK' x' z' = .ok y' ∧ Rel y y' := by
  intro x x' z z' y rx rz h
  unfold concatK at h
  split at h
  · rename_i bx bz hx hz
    cases h
    refine ⟨_, rfl, .inr ⟨bx ++ bz, rfl, ?_⟩⟩
    rw [← rx.toStringV_congr, ← rz.toStringV_congr, convertToByteArray_toStringV hx, convertToByteArray_toStringV hz]
  · cases h

section rowsteps
variable {p : Nat} {l r : Expr} {c : Ctx}

theorem row_eq {op : Op} {not : Bool} (hop : (op = .eq ∧ not = false) ∨ (op = .neq ∧ not = true)) :
    ∀ kv x' z' y', exec l kv c = (.ok x', c) → exec r kv c = (.ok z', c) →
      boolV ((equalRow x' z').map (fun c => if not then !c else c)) = .ok y' →
      exec (.binop p op l r) kv c = (.ok y', c) := by
  intro kv x' z' y' hx hz hk
  cases hc : equalRow x' z' with
  | error e => simp [hc, boolV, Except.map] at hk
  | ok b =>
    simp [hc, boolV, Except.map] at hk
    subst hk
    rcases hop with ⟨rfl, rfl⟩ | ⟨rfl, rfl⟩ <;> rw [exec] <;>
      simp [M.bind_ok hx, M.bind_ok hz, hc, M.bind_run]

theorem row_prefix : ∀ kv x' z' y', exec l kv c = (.ok x', c) → exec r kv c = (.ok z', c) →
    prefixK x' z' = .ok y' → exec (.binop p .prefixMatch l r) kv c = (.ok y', c) := by
  intro kv x' z' y' hx hz hk
  rw [exec]; simp only [M.bind_ok hx, M.bind_ok hz]
  unfold prefixK at hk
  split at hk <;> simp_all

theorem row_regex : ∀ kv x' z' y', exec l kv c = (.ok x', c) → exec r kv c = (.ok z', c) →
    regexK x' z' = .ok y' → exec (.binop p .regexMatch l r) kv c = (.ok y', c) := by
  intro kv x' z' y' hx hz hk
  rw [exec]; simp only [M.bind_ok hx, M.bind_ok hz]
  unfold regexK at hk
  split at hk
  · split at hk <;> simp_all
  · cases hk

theorem row_and {op : Op} (hop : op = .and ∨ op = .kwAnd) :
    ∀ kv x' z' y', exec l kv c = (.ok x', c) → exec r kv c = (.ok z', c) →
      andK x' z' = .ok y' → exec (.binop p op l r) kv c = (.ok y', c) := by
  intro kv x' z' y' hx hz hk
  unfold andK at hk
  split at hk
  · rename_i a b
    cases hk
    rcases hop with rfl | rfl <;> rw [exec] <;> cases a <;>
      simp [M.bind_ok hx, M.bind_ok hz, asBool, M.bind_run]
  · cases hk

theorem row_or {op : Op} (hop : op = .or ∨ op = .kwOr) :
    ∀ kv x' z' y', exec l kv c = (.ok x', c) → exec r kv c = (.ok z', c) →
      orK x' z' = .ok y' → exec (.binop p op l r) kv c = (.ok y', c) := by
  intro kv x' z' y' hx hz hk
  unfold orK at hk
  split at hk
  · rename_i a b
    cases hk
    rcases hop with rfl | rfl <;> rw [exec] <;> cases a <;>
      simp [M.bind_ok hx, M.bind_ok hz, asBool, M.bind_run]
  · cases hk

theorem row_concat (hs : (retType l == tyTSTR) = true) :
    ∀ kv x' z' y', exec l kv c = (.ok x', c) → exec r kv c = (.ok z', c) →
      concatK' x' z' = .ok y' → exec (.binop p .add l r) kv c = (.ok y', c) := by
  intro kv x' z' y' hx hz hk
  unfold concatK' at hk
  cases hk
  rw [exec]; simp [hs, M.bind_ok hx, M.bind_ok hz]

end rowsteps

/-! ### function bodies -/

theorem unaryOf_congr {b : Body} {f : Value → Value} (hb : unaryOf b = some f) {x x' : Value} (h : Rel x x') :
    f x = f x' := by
  cases b <;> simp [unaryOf] at hb <;> subst hb <;>
    simp [h.toStringV_congr, h.toIntV_congr, h.toFloatV_congr, h.isIntV_congr, h.isFloatV_congr]

theorem exec_call_eq {p : Nat} {nm : Expr} {args : List Expr} {kv : Pair} {fname : Bytes} {fo : FuncInfo} {b : Body}
    (hn : funcNameOf nm = .ok fname) (hf : lookupFunc fname = some fo)
    (h1 : ¬ (!fo.varArgs && args.length != fo.numArgs) = true)
    (h2 : ¬ (fo.varArgs && decide (args.length < fo.numArgs)) = true) (hb : fo.body = some b) :
    exec (.call p nm args) kv = rowBody b args kv := by
  rw [exec]; simp only [hn, hf, hb]; simp [h1, h2]

theorem substrRow_congr {v v' s s' l l' : Value} (hv : Rel v v') (hs : Rel s s') (hl : Rel l l') :
    substrRow v s l = substrRow v' s' l' := by
  unfold substrRow; rw [hv.toStringV_congr, hs.toIntV_congr, hl.toIntV_congr]

theorem distanceRow_congr (dist : List F64 → List F64 → Except Err F64) {l l' r r' : Value}
    (hl : Rel l l') (hr : Rel r r') : distanceRow dist l (some r) = distanceRow dist l' (some r') := by
  rw [distanceRow_some, distanceRow_some, hl.toFloatList_congr, hr.toFloatList_congr]

end Kvql
