/-
  WHERE AN OPERAND-TYPE FAILURE OF A NON-AGGREGATE SELECT CAN COME FROM.  `Run.runPlainSelect` reports the
  failure of its projection trace, possibly after ORDER BY (which adds a panic of its own only) and LIMIT
  (which may hide it).  The projection trace's failure is the storage machine's, a disagreement of the
  composition (`glue`), the class of the FIRST failing verdict of the scan's filter table, or the
  projection drain's error.  So: if the statement ends with `exec "operand-type"` or
  `exec "where-not-bool"` (`OpFail`), then the verdict table or the projection drain holds an operand-type
  error (`OpErr`).  No hypothesis on the statement; used by Proofs/FoldVecRun.lean with C14 + "folding
  preserves kinds" to show that this never happens for an accepted statement.
-/
import Kvql.Proofs.RunFieldsBatchThms
import Kvql.Proofs.TypingAliasProject

namespace Kvql.Proofs.FoldVecRun
open Kvql Kvql.Run Kvql.Plans Kvql.Storage Kvql.Project Kvql.Cache Kvql.Proofs.Typing Kvql.Proofs.RunFields
open Kvql.PlanCheck (planStage finalPlanCheck)

/-- the two classes under which a statement reports an operand-type failure of an evaluator -/
def OpFail (f : Fail) : Prop := f = .exec "operand-type" ∨ f = .exec "where-not-bool"

theorem perrFail_opFail {e : Project.PErr} (h : OpFail (perrFail e)) : OpErr e := by
  unfold OpFail at h
  cases e with
  | eval e' =>
    cases e' <;> simp [perrFail, Project.PErr.cls, Err.cls] at h
    exact .inl rfl
  | whereNotBool => exact .inr rfl
  | _ => simp [perrFail, Project.PErr.cls] at h

theorem pollFail_opFail {cls : Option Project.PErr} {e : Storage.Err} (h : OpFail (pollFail cls e)) :
    ∃ pe, cls = some pe ∧ OpErr pe := by
  unfold pollFail at h
  cases e <;> try (rcases h with h | h <;> cases h)
  cases cls with
  | none => rcases h with h | h <;> cases h
  | some pe => exact ⟨pe, rfl, perrFail_opFail h⟩

theorem scanTraceLoop_opFail (cls : Option Project.PErr) (kind : PollKind) (bs : Nat) (w0 : Run.World) {f : Fail}
    (hf : OpFail f) : ∀ (fuel : Nat) (plan : Plan) (w : Run.World) (acc : List (List SPair × Run.World)),
    (scanTraceLoop cls kind bs w0 fuel plan w acc).fin.1 = some f → ∃ pe, cls = some pe ∧ OpErr pe
  | 0, _, _, _, h => by
    simp only [scanTraceLoop, Option.some.injEq] at h
    subst h
    rcases hf with h | h <;> cases h
  | fuel + 1, plan, w, acc, h => by
    unfold scanTraceLoop at h
    split at h
    · simp only [Option.some.injEq] at h
      subst h
      exact pollFail_opFail hf
    · cases h
    · exact scanTraceLoop_opFail cls kind bs w0 hf fuel _ _ _ h

theorem scanTrace_opFail {node : ScanNode} {v : Verdicts} {kind : PollKind} {bs : Nat} {store : Store} {f : Fail}
    (hf : OpFail f) (h : (scanTrace node v kind bs store).fin.1 = some f) : ∃ pe, firstErr v = some pe ∧ OpErr pe := by
  unfold scanTrace at h
  split at h
  · simp only [Trace.failed, Option.some.injEq] at h
    subst h
    rcases hf with h | h <;> cases h
  · exact scanTraceLoop_opFail _ kind bs _ hf _ _ _ _ h

theorem firstErr_mem {v : Verdicts} {pe : Project.PErr} (h : firstErr v = some pe) : ∃ k, (k, .error pe) ∈ v := by
  unfold firstErr at h
  obtain ⟨e, he, hx⟩ := List.exists_of_findSome?_eq_some h
  obtain ⟨k, r⟩ := e
  cases r with
  | ok b => simp at hx
  | error x =>
    simp only [Option.some.injEq] at hx
    subst hx
    exact ⟨k, he⟩

theorem zipProj_opFail {f : Fail} (hf : OpFail f) : ∀ (polls : List (List SPair × Run.World)) (fin : Option Fail × Run.World)
    (rss : List (List Project.Row)) (err : Option Project.PErr) (w0 : Run.World) (acc : List (List (List Value) × Run.World)),
    (zipProj polls fin rss err w0 acc).fin.1 = some f → ∃ pe, err = some pe ∧ OpErr pe := by
  intro polls fin rss err w0 acc
  have glue : ∀ s, ¬ OpFail (.glue s) := fun s h => by rcases h with h | h <;> cases h
  have sx : ∀ e, ¬ OpFail (.storageExec e) := fun s h => by rcases h with h | h <;> cases h
  fun_induction zipProj polls fin rss err w0 acc <;> intro h
  all_goals first
    | (rename_i ih; exact ih h)
    | (simp only [Option.some.injEq] at h
       subst h
       first
         | exact absurd hf (glue _)
         | exact absurd hf (sx _)
         | exact ⟨_, rfl, perrFail_opFail hf⟩)
    | cases h

theorem orderTrace_fail {keys : List Order.Key} {kind : PollKind} {bs : Nat} {t : Trace (List Value)} {f : Fail}
    (hf : OpFail f) (h : (orderTrace keys kind bs t).fin.1 = some f) : t.fin.1 = some f := by
  unfold orderTrace at h
  split at h
  · rename_i f0 h0
    simp only [Option.some.injEq] at h
    rw [h0, h]
  · cases kind <;> simp only at h <;> split at h <;> simp only [Option.some.injEq] at h <;>
      first | (subst h; rcases hf with h | h <;> cases h) | cases h

theorem limitTrace_fail {start count : Nat} {kind : PollKind} {bs : Nat} {t : Trace (List Value)} {f : Fail}
    (h : (limitTrace start count kind bs t).fin.1 = some f) : t.fin.1 = some f := by
  unfold limitTrace at h
  cases kind with
  | next =>
    simp only at h
    split at h
    · exact h
    · cases h
  | batch =>
    simp only at h
    split at h
    · split at h
      · rename_i f0 h0
        simp only [Option.some.injEq] at h
        rw [h0, h]
      · cases h
    · cases h

/-- a non-aggregate SELECT that reports an operand-type failure: its projection trace ended with it -/
theorem runPlainSelect_opFail {s : SelectS} {f : FoldedSelect} {store : Store} {kind : PollKind} {bs : Nat} {cache : Bool}
    {fl : Fail} (hf : OpFail fl) (h : (runPlainSelect s f store kind bs cache).fail = some fl) :
    (projTrace s f store kind bs cache).fin.1 = some fl := by
  unfold runPlainSelect at h
  simp only at h
  cases ho : s.order with
  | none =>
    simp only [ho] at h
    cases hl : s.limit with
    | none => simp only [hl] at h; exact h
    | some l => simp only [hl] at h; exact limitTrace_fail h
  | some o =>
    simp only [ho] at h
    by_cases he : elideOrder s o = true
    · simp only [he, if_true] at h
      cases hl : s.limit with
      | none => simp only [hl] at h; exact h
      | some l => simp only [hl] at h; exact limitTrace_fail h
    · simp only [he] at h
      cases hk : orderKeys (projNames s) (projTypes s) o with
      | none =>
        simp [hk] at h
        subst h
        rcases hf with h | h <;> cases h
      | some keys =>
        simp only [hk] at h
        cases hl : s.limit with
        | none => simp only [hl] at h; exact orderTrace_fail hf h
        | some l => simp only [hl] at h; exact orderTrace_fail hf (limitTrace_fail h)

theorem map_fin {α β : Type} (g : α → β) (t : Trace α) : (t.map g).fin = t.fin := rfl

/-- ROW MODE, in terms of the cache-free specifications (`projSpecNext`): the filter's verdict on some
    yielded pair, or the projection drain, holds the operand-type error -/
theorem projSpecNext_opFail {s : SelectS} {f : FoldedSelect} {store : Store} {bs : Nat} {fl : Fail} (hf : OpFail fl)
    (h : (projSpecNext s f store bs).fin.1 = some fl) :
    (∃ p pe, filterSpec f.where_ (toKv p) = .error pe ∧ OpErr pe) ∨
    (∃ ps pe, (rowsSpec f.where_ (selFields s f) ps).err = some pe ∧ OpErr pe) := by
  unfold projSpecNext at h
  simp only at h
  have table : ∀ {fl'}, OpFail fl' →
      (scanTrace (nodeOf (Scan.optimize f.where_)) (rowTable f.where_ (yielded (nodeOf (Scan.optimize f.where_)) store))
        .next bs store).fin.1 = some fl' → ∃ p pe, filterSpec f.where_ (toKv p) = .error pe ∧ OpErr pe := by
    intro fl' hf' h'
    obtain ⟨pe, h1, h2⟩ := scanTrace_opFail hf' h'
    obtain ⟨k, hk⟩ := firstErr_mem h1
    unfold rowTable at hk
    obtain ⟨p, _, hp⟩ := List.mem_map.mp hk
    simp only [Prod.mk.injEq] at hp
    exact ⟨p, pe, hp.2, h2⟩
  split at h
  · rw [map_fin] at h
    exact .inl (table hf h)
  · obtain ⟨pe, h1, h2⟩ := zipProj_opFail hf _ _ _ _ _ _ h
    exact .inr ⟨_, pe, h1, h2⟩

theorem zipVerdicts_no_err : ∀ (c : List SPair) (ms : List Bool) (k : Bytes) (pe : Project.PErr),
    (k, Except.error pe) ∉ zipVerdicts c ms
  | [], _, _, _ => by simp [zipVerdicts]
  | p :: ps, [], k, pe => by
    simp only [zipVerdicts, List.mem_cons, Prod.mk.injEq, not_or]
    exact ⟨fun h => (by cases h.2), zipVerdicts_no_err ps [] k pe⟩
  | p :: ps, b :: bs, k, pe => by
    simp only [zipVerdicts, List.mem_cons, Prod.mk.injEq, not_or]
    exact ⟨fun h => (by cases h.2), zipVerdicts_no_err ps bs k pe⟩

/-- an operand-type error in the batch verdict table is the error of `filterChunkSpec` on some inner chunk -/
theorem batchTable_err {w : Expr} {chunks : List (List SPair)} {pe : Project.PErr}
    (h1 : firstErr (batchTable w chunks) = some pe) (h2 : OpErr pe) : ∃ ch, filterChunkSpec w ch = .error pe := by
  obtain ⟨k, hk⟩ := firstErr_mem h1
  unfold batchTable at hk
  obtain ⟨ch, _, hch⟩ := List.mem_flatMap.mp hk
  unfold chunkTable at hch
  split at hch
  · rename_i e he
    obtain ⟨p, _, hp⟩ := List.mem_map.mp hch
    simp only [Prod.mk.injEq, Except.error.injEq] at hp
    exact ⟨_, by rw [he, hp.2]⟩
  · split at hch
    · obtain ⟨p, _, hp⟩ := List.mem_map.mp hch
      simp only [Prod.mk.injEq, Except.error.injEq] at hp
      rw [← hp.2] at h2
      rcases h2 with h2 | h2 <;> cases h2
    · exact absurd hch (zipVerdicts_no_err _ _ _ _)

/-- a write statement reports an evaluation failure with the class of the first failing verdict only -/
theorem writeOutcome_opFail {cls : Option Fail} {r : Plans.RunOut × Run.World} {fl : Fail} (hf : OpFail fl)
    (h : (writeOutcome cls r).fail = some fl) : cls = some fl := by
  unfold writeOutcome at h
  split at h
  · cases h
  · simp only [Option.some.injEq] at h
    subst h
    rcases hf with h | h <;> cases h
  · cases cls with
    | none =>
      simp only [Option.getD_none, Option.some.injEq] at h
      subst h
      rcases hf with h | h <;> cases h
    | some c =>
      simp only [Option.getD_some, Option.some.injEq] at h
      rw [h]
  · simp only [Option.some.injEq] at h
    subst h
    rcases hf with h | h <;> cases h

/-- BATCH MODE (`projSpecBatch`): the filter's verdict on some inner chunk, or the batch drain -/
theorem projSpecBatch_opFail {s : SelectS} {f : FoldedSelect} {store : Store} {bs : Nat} {fl : Fail} (hf : OpFail fl)
    (h : (projSpecBatch s f store bs).fin.1 = some fl) :
    (∃ ch pe, filterChunkSpec f.where_ ch = .error pe ∧ OpErr pe) ∨
    (∃ n chunks pe, (batchesSpec f.where_ (selFields s f) bs n chunks).2 = some pe ∧ OpErr pe) := by
  unfold projSpecBatch at h
  simp only at h
  have table : ∀ {fl'}, OpFail fl' →
      (scanTrace (nodeOf (Scan.optimize f.where_))
        (batchTable f.where_ (innerChunks (nodeOf (Scan.optimize f.where_)) bs store)) .batch bs store).fin.1 = some fl' →
      ∃ ch pe, filterChunkSpec f.where_ ch = .error pe ∧ OpErr pe := by
    intro fl' hf' h'
    obtain ⟨pe, h1, h2⟩ := scanTrace_opFail hf' h'
    obtain ⟨ch, hch⟩ := batchTable_err h1 h2
    exact ⟨ch, pe, hch, h2⟩
  split at h
  · rw [map_fin] at h
    exact .inl (table hf h)
  · obtain ⟨pe, h1, h2⟩ := zipProj_opFail hf _ _ _ _ _ _ h
    exact .inr ⟨_, _, pe, h1, h2⟩

end Kvql.Proofs.FoldVecRun
