/-
  parse_total: the fuelled parser model never runs out of fuel and never reaches one of its
  `panic` branches (the Go code never dereferences a nil `p.tok`, and every loop consumes a
  token per iteration).
-/
import Kvql.Proofs.ParserBasic

namespace Kvql.Proofs.ParserTotal

open Kvql Kvql.Parser Kvql.Generated

/-- total: no `outOfFuel`, no `panic`; errors and `unsupported` are fine -/
abbrev Tot {α : Type} (r : Res α) (Q : α → Prop) : Prop :=
  r.Holds Q (fun _ => True) (fun _ => False) False

def Lt (n : Nat) (p : Expr × Toks) : Prop := p.2.length < n
def Le (n : Nat) (p : Expr × Toks) : Prop := p.2.length ≤ n

theorem expect_tot (tp : Nat) (ts : Toks) : Tot (expect tp ts) (fun ts' => ts'.length < ts.length) := by
  unfold expect
  split
  · simp [eofErr]
  · split <;> simp [synErr]

theorem buildOp_tot (p : Nat) (s : String) : Tot (buildOp p s) (fun _ => True) := by
  unfold buildOp; split <;> simp [synErr]

variable (pf : Bytes → F64)

/-- the induction hypothesis: what holds of every function of the mutual block at `fuel`.
    The constants are the ranks of the functions in the "calls without consuming a token"
    order; 8 exceeds the largest rank by more than one. -/
structure IH (fuel : Nat) : Prop where
  binary : ∀ lev prec ts, 8 * ts.length + 4 ≤ fuel →
    Tot (parseBinaryExpr pf fuel lev prec ts) (Lt ts.length)
  bloop : ∀ lev prec x ts, 8 * ts.length + 1 ≤ fuel →
    Tot (binaryLoop pf fuel lev prec x ts) (Le ts.length)
  unary : ∀ lev ts, 8 * ts.length + 3 ≤ fuel → Tot (parseUnaryExpr pf fuel lev ts) (Lt ts.length)
  primary : ∀ lev ts, ts ≠ [] → 8 * ts.length + 2 ≤ fuel →
    Tot (parsePrimaryExpr pf fuel lev ts) (Lt ts.length)
  ploop : ∀ lev x ts, 8 * ts.length + 2 ≤ fuel → Tot (primaryLoop pf fuel lev x ts) (Le ts.length)
  operand : ∀ lev ts, ts ≠ [] → 8 * ts.length + 1 ≤ fuel →
    Tot (parseOperand pf fuel lev ts) (Lt ts.length)
  items : ∀ lev close strict acc ts, 8 * ts.length + 5 ≤ fuel →
    Tot (parseItems pf fuel lev close strict acc ts) (fun p => p.2.length ≤ ts.length)
  call : ∀ lev fn ts, 8 * ts.length + 1 ≤ fuel → Tot (parseFuncCall pf fuel lev fn ts) (Lt ts.length)
  access : ∀ lev pos l ts, 8 * ts.length + 1 ≤ fuel →
    Tot (parseFieldAccess pf fuel lev pos l ts) (Lt ts.length)
  list : ∀ lev pos ts, 8 * ts.length + 1 ≤ fuel → Tot (parseList pf fuel lev pos ts) (Lt ts.length)
  between : ∀ lev pos oprec ts, 8 * ts.length + 5 ≤ fuel →
    Tot (parseBetween pf fuel lev pos oprec ts) (Lt ts.length)

theorem step_binary {fuel : Nat} (ih : IH pf fuel) (lev prec : Nat) (ts : Toks)
    (h : 8 * ts.length + 4 ≤ fuel + 1) : Tot (parseBinaryExpr pf (fuel + 1) lev prec ts) (Lt ts.length) := by
  unfold parseBinaryExpr
  apply Res.Holds.bind (ih.unary lev ts (by omega))
  rintro ⟨x, ts'⟩ hx
  simp only [Lt] at hx
  apply (ih.bloop (lev + 1) prec x ts' (by omega)).mono
  rintro ⟨y, ts''⟩ hy
  simp only [Lt, Le] at *
  omega

theorem step_bloop {fuel : Nat} (ih : IH pf fuel) (lev prec : Nat) (x : Expr) (ts : Toks)
    (h : 8 * ts.length + 1 ≤ fuel + 1) : Tot (binaryLoop pf (fuel + 1) lev prec x ts) (Le ts.length) := by
  unfold binaryLoop
  split
  · simp
  · split
    · simp [Le]
    · rename_i t rest
      simp only [List.length_cons] at h
      dsimp only
      by_cases hp : t.prec < prec
      · rw [if_pos hp]; simp [Le]
      · rw [if_neg hp]
        apply Res.Holds.bind (R := Lt rest.length)
        · split
          · split
            · simp [eofErr]
            · split
              · exact ih.list _ _ _ (by omega)
              · exact ih.binary _ _ _ (by omega)
          · split
            · exact ih.between _ _ _ _ (by omega)
            · exact ih.binary _ _ _ (by omega)
        · rintro ⟨y, ts'⟩ hy
          simp only [Lt] at hy
          apply Res.Holds.bind (buildOp_tot _ _)
          intro op _
          apply (ih.bloop _ _ _ ts' (by omega)).mono
          rintro ⟨z, ts''⟩ hz
          simp only [Le, List.length_cons] at *
          omega

theorem step_unary {fuel : Nat} (ih : IH pf fuel) (lev : Nat) (ts : Toks)
    (h : 8 * ts.length + 3 ≤ fuel + 1) : Tot (parseUnaryExpr pf (fuel + 1) lev ts) (Lt ts.length) := by
  unfold parseUnaryExpr
  split
  · simp [eofErr]
  · rename_i t rest
    simp only [List.length_cons] at h
    split
    · apply Res.Holds.bind (ih.unary _ rest (by omega))
      rintro ⟨y, ts'⟩ hy
      simp only [Lt, Res.holds_pure, List.length_cons] at *
      omega
    · exact ih.primary _ _ (by simp) (by simp only [List.length_cons]; omega)

theorem step_primary {fuel : Nat} (ih : IH pf fuel) (lev : Nat) (ts : Toks) (hne : ts ≠ [])
    (h : 8 * ts.length + 2 ≤ fuel + 1) : Tot (parsePrimaryExpr pf (fuel + 1) lev ts) (Lt ts.length) := by
  unfold parsePrimaryExpr
  apply Res.Holds.bind (ih.operand lev ts hne (by omega))
  rintro ⟨x, ts'⟩ hx
  simp only [Lt] at hx
  apply (ih.ploop _ x ts' (by omega)).mono
  rintro ⟨y, ts''⟩ hy
  simp only [Lt, Le] at *
  omega

theorem step_ploop {fuel : Nat} (ih : IH pf fuel) (lev : Nat) (x : Expr) (ts : Toks)
    (h : 8 * ts.length + 2 ≤ fuel + 1) : Tot (primaryLoop pf (fuel + 1) lev x ts) (Le ts.length) := by
  unfold primaryLoop
  split
  · simp [Le]
  · rename_i t rest
    split
    · split
      · simp
      · apply Res.Holds.bind (ih.call _ _ _ (by omega))
        rintro ⟨y, ts'⟩ hy
        simp only [Lt] at hy
        apply (ih.ploop _ _ ts' (by omega)).mono
        rintro ⟨z, ts''⟩ hz
        simp only [Le] at *
        omega
    · split
      · apply Res.Holds.bind (ih.access _ _ _ _ (by omega))
        rintro ⟨y, ts'⟩ hy
        simp only [Lt] at hy
        apply (ih.ploop _ _ ts' (by omega)).mono
        rintro ⟨z, ts''⟩ hz
        simp only [Le] at *
        omega
      · simp [Le]

theorem step_operand {fuel : Nat} (ih : IH pf fuel) (lev : Nat) (ts : Toks) (hne : ts ≠ [])
    (h : 8 * ts.length + 1 ≤ fuel + 1) : Tot (parseOperand pf (fuel + 1) lev ts) (Lt ts.length) := by
  unfold parseOperand
  split
  · exact absurd rfl hne
  · rename_i t rest
    simp only [List.length_cons] at h
    repeat' split
    all_goals try (simp [Lt, synErr]; done)
    apply Res.Holds.bind (ih.binary _ _ rest (by omega))
    rintro ⟨y, ts'⟩ hy
    simp only [Lt] at hy
    apply Res.Holds.bind (expect_tot _ _)
    intro ts'' h2
    simp only [Lt, Res.holds_pure, List.length_cons] at *
    omega

theorem step_items {fuel : Nat} (ih : IH pf fuel) (lev close : Nat) (strict : Bool) (acc : List Expr)
    (ts : Toks) (h : 8 * ts.length + 5 ≤ fuel + 1) :
    Tot (parseItems pf (fuel + 1) lev close strict acc ts) (fun p => p.2.length ≤ ts.length) := by
  unfold parseItems
  split
  · simp
  · rename_i t rest
    split
    · simp
    · apply Res.Holds.bind (ih.binary _ _ _ (by omega))
      rintro ⟨y, ts'⟩ hy
      simp only [Lt] at hy
      dsimp only
      split
      · simp
      · rename_i t1 rest1
        simp only [List.length_cons] at hy
        split
        · simp; omega
        · split
          · simp [synErr]
          · apply (ih.items _ _ _ _ rest1 (by simp only [List.length_cons] at h; omega)).mono
            rintro ⟨z, ts''⟩ hz
            simp only [List.length_cons] at *
            omega

theorem step_call {fuel : Nat} (ih : IH pf fuel) (lev : Nat) (fn : Expr) (ts : Toks)
    (h : 8 * ts.length + 1 ≤ fuel + 1) : Tot (parseFuncCall pf (fuel + 1) lev fn ts) (Lt ts.length) := by
  unfold parseFuncCall
  apply Res.Holds.bind (expect_tot _ _)
  intro ts1 h1
  apply Res.Holds.bind (ih.items _ _ _ _ ts1 (by omega))
  rintro ⟨args, ts2⟩ h2
  apply Res.Holds.bind (expect_tot _ _)
  intro ts3 h3
  simp only [Lt, Res.holds_pure] at *
  omega

theorem step_access {fuel : Nat} (ih : IH pf fuel) (lev pos : Nat) (l : Expr) (ts : Toks)
    (h : 8 * ts.length + 1 ≤ fuel + 1) :
    Tot (parseFieldAccess pf (fuel + 1) lev pos l ts) (Lt ts.length) := by
  unfold parseFieldAccess
  apply Res.Holds.bind (expect_tot _ _)
  intro ts1 h1
  apply Res.Holds.bind (ih.items _ _ _ _ ts1 (by omega))
  rintro ⟨args, ts2⟩ h2
  apply Res.Holds.bind (expect_tot _ _)
  intro ts3 h3
  split
  · simp only [Lt, Res.holds_pure] at *
    omega
  · simp [synErr]

theorem step_list {fuel : Nat} (ih : IH pf fuel) (lev pos : Nat) (ts : Toks)
    (h : 8 * ts.length + 1 ≤ fuel + 1) : Tot (parseList pf (fuel + 1) lev pos ts) (Lt ts.length) := by
  unfold parseList
  apply Res.Holds.bind (expect_tot _ _)
  intro ts1 h1
  apply Res.Holds.bind (ih.items _ _ _ _ ts1 (by omega))
  rintro ⟨args, ts2⟩ h2
  apply Res.Holds.bind (expect_tot _ _)
  intro ts3 h3
  simp only [Lt, Res.holds_pure] at *
  omega

theorem step_between {fuel : Nat} (ih : IH pf fuel) (lev pos oprec : Nat) (ts : Toks)
    (h : 8 * ts.length + 5 ≤ fuel + 1) :
    Tot (parseBetween pf (fuel + 1) lev pos oprec ts) (Lt ts.length) := by
  unfold parseBetween
  apply Res.Holds.bind (ih.binary _ _ ts (by omega))
  rintro ⟨lo, ts1⟩ h1
  simp only [Lt] at h1
  apply Res.Holds.bind (expect_tot _ _)
  intro ts2 h2
  apply Res.Holds.bind (ih.binary _ _ ts2 (by omega))
  rintro ⟨hi, ts3⟩ h3
  simp only [Lt, Res.holds_pure] at *
  omega

/-- every function of the expression parser is total at every fuel that is at least
    `8·|ts| + rank` -/
theorem expr_total : ∀ fuel, IH pf fuel := by
  intro fuel
  induction fuel with
  | zero =>
    constructor <;> intros <;> omega
  | succ n ih =>
    exact {
      binary := step_binary pf ih, bloop := step_bloop pf ih, unary := step_unary pf ih,
      primary := step_primary pf ih, ploop := step_ploop pf ih, operand := step_operand pf ih,
      items := step_items pf ih, call := step_call pf ih, access := step_access pf ih,
      list := step_list pf ih, between := step_between pf ih }

end Kvql.Proofs.ParserTotal
