/-
  C15, precedence and parentheses — the class `wf` contains the expression parser's image:
  whatever `parseExpr` returns, on any token list with any fuel, is `wf` and carries the
  canonical positions (`canonPos x = x`).  Hence `parseExpr (printMin x) = x` for every tree `x`
  the parser can return.

  The invariant of the climbing loop that matters is the one for the right operand of `in`
  (read at the level of `+`, from tokens that do not start with `(`): within one loop at a
  threshold `≥ 4` the operators met are arithmetic and of non-increasing precedence, so that the
  minimal text of the result starts with the text of its first operand.
-/
import Kvql.Proofs.ParsePrecThm
import Kvql.Proofs.ParserBasic

set_option linter.unusedSimpArgs false
set_option linter.unusedVariables false

namespace Kvql.Proofs.ParsePrec

open Kvql Kvql.Parser Kvql.Generated Kvql.Proofs.PrintLex Kvql.Proofs.PrintParse
open Kvql.Proofs.Prec (atomTok opOK pr opPrec_pos)

/-! ### the operator tables -/

/-- `BuildOp` without the error position -/
def opOfStr (s : String) : Option Op := (stringToOperator.lookup s) >>= Op.ofCode

theorem buildOp_eq (p : Nat) (s : String) :
    buildOp p s = match opOfStr s with
      | some op => .ok op
      | none => synErr p := rfl

/-- what holds of every key of `precTable` (checked by evaluation below) -/
def KeyOK (s : String) : Bool :=
  match opOfStr s with
  | some op => opPrec op == (precTable.lookup s).getD 0 && op != .not &&
      ((s == "in") == (op == .in_)) && ((s == "between") == (op == .between))
  | none => false

theorem keys_ok : ∀ s ∈ precTable.map (·.1), KeyOK s = true := by decide

theorem lookup_mem : ∀ (l : List (String × Nat)) (s : String), 1 ≤ (l.lookup s).getD 0 → s ∈ l.map (·.1)
  | [], s, h => by simp [List.lookup] at h
  | (k, v) :: l, s, h => by
    simp only [List.lookup] at h
    by_cases hk : s == k
    · simp only [List.map_cons, List.mem_cons]
      left
      simpa using hk
    · simp only [hk] at h
      simp only [List.map_cons, List.mem_cons]
      right
      exact lookup_mem l s h

/-- a token that the climbing loop takes as a binary operator -/
theorem op_facts (t : Token) (h : 1 ≤ t.prec) :
    ∃ op, buildOp t.pos t.str = .ok op ∧ opPrec op = t.prec ∧ op ≠ .not ∧
      (t.str == "in") = (op == .in_) ∧ (t.str == "between") = (op == .between) := by
  unfold Token.prec at h
  split at h
  · rename_i htp
    have hk := keys_ok _ (lookup_mem _ _ h)
    unfold KeyOK at hk
    rw [buildOp_eq]
    unfold Token.prec
    rw [if_pos htp]
    cases hop : opOfStr t.str with
    | none => simp [hop] at hk
    | some op =>
      simp only [hop, Bool.and_eq_true, beq_iff_eq, bne_iff_ne, ne_eq] at hk
      exact ⟨op, rfl, hk.1.1.1, hk.1.1.2, hk.1.2, hk.2⟩
  · omega

theorem prec_le5 (t : Token) : t.prec ≤ 5 := by
  by_cases h : 1 ≤ t.prec
  · obtain ⟨op, _, h2, _⟩ := op_facts t h
    rw [← h2]
    exact Syn.opPrec_le5 op
  · omega

/-! ### the invariants -/

variable (pf : Bytes → F64)

/-- success-only postcondition -/
abbrev Im {α : Type} (r : Res α) (Q : α → Prop) : Prop :=
  r.Holds Q (fun _ => True) (fun _ => True) True

/-- in the class, with the parser's positions -/
def W (x : Expr) : Prop := wf pf x = true ∧ canonPos x = x
def Wl (xs : List Expr) : Prop := wfList pf xs = true ∧ canonPosList xs = xs

/-- a primary expression whose text does not start with `(` -/
def P0 (x : Expr) : Prop := isBinE x = false ∧ isNotE x = false ∧ headParenE x = false

/-- the next token binds less tightly than `prec` -/
def NextLt (prec : Nat) (ts : Toks) : Prop := ∀ t, ts.head? = some t → t.prec < prec
/-- the first token is not `(` -/
def HNL (ts : Toks) : Prop := ∀ t, ts.head? = some t → t.tp ≠ tkLPAREN

/-- the state of a climbing loop that started on a token other than `(` at a threshold `≥ 4` -/
def J (x : Expr) (ts : Toks) : Prop :=
  headParenE x = false ∧ 4 ≤ pr x ∧ ∀ t, ts.head? = some t → t.prec ≤ pr x

/-- the text starts without `(` and the root binds at least as tightly as `+` -/
def Tight (x : Expr) : Prop := headParenE x = false ∧ 4 ≤ pr x

theorem wl_nil : Wl pf [] := ⟨rfl, rfl⟩

theorem wl_snoc {acc : List Expr} {y : Expr} (ha : Wl pf acc) (hy : W pf y) : Wl pf (acc ++ [y]) := by
  induction acc with
  | nil => exact ⟨by simp [wfList, hy.1], by simp [canonPosList, hy.2]⟩
  | cons a as ih =>
    obtain ⟨h1, h2⟩ := ha
    simp only [wfList, Bool.and_eq_true] at h1
    simp only [canonPosList, List.cons.injEq] at h2
    obtain ⟨i1, i2⟩ := ih ⟨h1.2, h2.2⟩
    exact ⟨by simp [wfList, h1.1, i1], by simp [canonPosList, h2.1, i2]⟩

theorem w_not_list {x : Expr} (h : W pf x) : isListE x = false := wf_not_list pf h.1

/-- a binary node over a non-list right operand -/
theorem w_binop_nonlist {p : Nat} {op : Op} {x y : Expr} (hx : W pf x) (hy : W pf y)
    (h1 : op ≠ .not) (h2 : op ≠ .between) (h3 : op = .in_ → Tight y) : W pf (.binop p op x y) := by
  have hnl := w_not_list pf hy
  refine ⟨?_, by rw [canonPos_binop_nonlist hnl, hx.2, hy.2]⟩
  rw [wf_binop_nonlist pf hnl]
  simp only [hx.1, hy.1, Bool.and_eq_true, bne_iff_ne, ne_eq, Bool.or_eq_true, decide_eq_true_eq,
    Bool.not_eq_true', true_and]
  refine ⟨⟨h1, h2⟩, ?_⟩
  by_cases hin : op = .in_
  · right
    exact ⟨(h3 hin).2, (h3 hin).1⟩
  · left; exact hin

theorem w_in_list {p : Nat} {x : Expr} {items : List Expr} (hx : W pf x) (hi : Wl pf items) :
    W pf (.binop p .in_ x (.list p items)) :=
  ⟨by simp [wf, hx.1, hi.1], by rw [canonPos_binop_list, hx.2, hi.2]⟩

theorem w_between {p : Nat} {x lo hi : Expr} (hx : W pf x) (hlo : W pf lo) (hhi : W pf hi) :
    W pf (.binop p .between x (.list p [lo, hi])) :=
  ⟨by simp [wf, wfList, hx.1, hlo.1, hhi.1],
   by rw [canonPos_binop_list, hx.2]; simp only [canonPosList, hlo.2, hhi.2]⟩

structure ImIH (fuel : Nat) : Prop where
  binary : ∀ lev prec ts, 1 ≤ prec → Im (parseBinaryExpr pf fuel lev prec ts)
    (fun r => W pf r.1 ∧ NextLt prec r.2 ∧ (4 ≤ prec → HNL ts → Tight r.1))
  bloop : ∀ lev prec x ts, 1 ≤ prec → W pf x → Im (binaryLoop pf fuel lev prec x ts)
    (fun r => W pf r.1 ∧ NextLt prec r.2 ∧ (4 ≤ prec → J x ts → Tight r.1))
  unary : ∀ lev ts, Im (parseUnaryExpr pf fuel lev ts)
    (fun r => W pf r.1 ∧ (HNL ts → isBinE r.1 = false ∧ headParenE r.1 = false))
  primary : ∀ lev ts, Im (parsePrimaryExpr pf fuel lev ts) (fun r => W pf r.1 ∧ (HNL ts → P0 r.1))
  ploop : ∀ lev x ts, W pf x → Im (primaryLoop pf fuel lev x ts) (fun r => W pf r.1 ∧ (P0 x → P0 r.1))
  operand : ∀ lev ts, Im (parseOperand pf fuel lev ts) (fun r => W pf r.1 ∧ (HNL ts → P0 r.1))
  items : ∀ lev close strict acc ts, Wl pf acc → Im (parseItems pf fuel lev close strict acc ts)
    (fun r => Wl pf r.1)
  call : ∀ lev fn ts, W pf fn → fn.calleeAtomic = true → Im (parseFuncCall pf fuel lev fn ts)
    (fun r => W pf r.1 ∧ (P0 fn → P0 r.1))
  access : ∀ lev pos l ts, W pf l → Im (parseFieldAccess pf fuel lev pos l ts)
    (fun r => W pf r.1 ∧ (P0 l → P0 r.1))
  list : ∀ lev pos ts, Im (parseList pf fuel lev pos ts) (fun r => ∃ items, r.1 = .list pos items ∧ Wl pf items)
  between : ∀ lev pos oprec ts, 1 ≤ oprec → Im (parseBetween pf fuel lev pos oprec ts)
    (fun r => ∃ lo hi, r.1 = .list pos [lo, hi] ∧ W pf lo ∧ W pf hi)

theorem im_zero : ImIH pf 0 := by
  constructor <;> intros <;>
    simp [parseBinaryExpr, binaryLoop, parseUnaryExpr, parsePrimaryExpr, primaryLoop, parseOperand,
      parseItems, parseFuncCall, parseFieldAccess, parseList, parseBetween]

theorem expect_im (tp : Nat) (ts : Toks) : Im (expect tp ts) (fun _ => True) := by
  unfold expect; split
  · simp [eofErr]
  · split <;> simp [synErr]

theorem w_atom {e : Expr} (h : (atomTok pf e).isSome = true) (hs : wf pf e = (atomTok pf e).isSome)
    (hc : canonPos e = e) : W pf e := ⟨by rw [hs]; exact h, hc⟩

theorem hnl_absurd {t : Token} {rest : Toks} (h : HNL (t :: rest)) (ht : (t.tp == tkLPAREN) = true) : False :=
  h t rfl (by simpa using ht)

theorem im_step {fuel : Nat} (ih : ImIH pf fuel) : ImIH pf (fuel + 1) := by
  constructor
  · -- binary
    intro lev prec ts hp
    unfold parseBinaryExpr
    apply Res.Holds.bind (ih.unary lev ts)
    rintro ⟨x, ts'⟩ ⟨hx, hxu⟩
    refine Res.Holds.mono (ih.bloop _ _ _ _ hp hx) ?_
    rintro ⟨r, ts''⟩ ⟨h1, h2, h3⟩
    refine ⟨h1, h2, fun h4 hnl => h3 h4 ?_⟩
    obtain ⟨hb, hh⟩ := hxu hnl
    have hpr : pr x = 7 := by cases x <;> simp_all [isBinE, pr]
    exact ⟨hh, by omega, fun t _ => by rw [hpr]; have := prec_le5 t; omega⟩
  · -- bloop
    intro lev prec x ts hp hx
    unfold binaryLoop
    split
    · simp
    · split
      · exact ⟨hx, fun t ht => by simp at ht, fun _ hj => ⟨hj.1, hj.2.1⟩⟩
      · rename_i t rest
        dsimp only
        by_cases hlt : t.prec < prec
        · rw [if_pos hlt]
          refine ⟨hx, fun t' ht' => ?_, fun _ hj => ⟨hj.1, hj.2.1⟩⟩
          simp only [List.head?_cons, Option.some.injEq] at ht'
          subst ht'
          exact hlt
        · rw [if_neg hlt]
          obtain ⟨op, hbuild, hprec, hnot, hisin, hisbt⟩ := op_facts t (by omega)
          -- the right operand: `x op y` is in the class, and the arithmetic loop keeps its order
          apply Res.Holds.bind
            (R := fun r : Expr × Toks => W pf (.binop t.pos op x r.1) ∧ (4 ≤ prec → NextLt (t.prec + 1) r.2))
          · by_cases hin : t.str == "in"
            · have hop : op = .in_ := by rw [hin] at hisin; simpa using hisin.symm
              subst hop
              have h3 : t.prec = 3 := by rw [← hprec]; rfl
              rw [if_pos hin]
              split
              · simp [eofErr]
              · rename_i t2 rest2
                split
                · refine Res.Holds.mono (ih.list _ _ _) ?_
                  rintro ⟨y, ts'⟩ ⟨items, rfl, hi⟩
                  exact ⟨w_in_list pf hx hi, fun h4 => by omega⟩
                · rename_i hlp
                  refine Res.Holds.mono (ih.binary _ _ _ (by omega)) ?_
                  rintro ⟨y, ts'⟩ ⟨hy, hn, ht⟩
                  refine ⟨w_binop_nonlist pf hx hy (by decide) (by decide) (fun _ => ?_), fun h4 => by omega⟩
                  refine ht (by omega) (fun t' ht' => ?_)
                  simp only [List.head?_cons, Option.some.injEq] at ht'
                  subst ht'
                  simpa using hlp
            · rw [if_neg hin]
              have hop : op ≠ .in_ := by
                intro h; rw [h] at hisin; simp at hisin; exact hin (by simpa using hisin)
              by_cases hbt : t.str == "between"
              · have hop2 : op = .between := by rw [hbt] at hisbt; simpa using hisbt.symm
                subst hop2
                have h3 : t.prec = 3 := by rw [← hprec]; rfl
                rw [if_pos hbt]
                refine Res.Holds.mono (ih.between _ _ _ _ (by omega)) ?_
                rintro ⟨y, ts'⟩ ⟨lo, hi, rfl, hlo, hhi⟩
                exact ⟨w_between pf hx hlo hhi, fun h4 => by omega⟩
              · rw [if_neg hbt]
                have hop2 : op ≠ .between := by
                  intro h; rw [h] at hisbt; simp at hisbt; exact hbt (by simpa using hisbt)
                refine Res.Holds.mono (ih.binary _ _ _ (by omega)) ?_
                rintro ⟨y, ts'⟩ ⟨hy, hn, _⟩
                exact ⟨w_binop_nonlist pf hx hy hnot hop2 (fun h => (hop h).elim), fun _ => hn⟩
          · rintro ⟨y, ts'⟩ ⟨hw, hn⟩
            rw [hbuild]
            simp only [Res.bind_ok]
            refine Res.Holds.mono (ih.bloop _ _ _ _ hp hw) ?_
            rintro ⟨r, ts''⟩ ⟨h1, h2, h3⟩
            refine ⟨h1, h2, fun h4 hj => h3 h4 ?_⟩
            obtain ⟨j1, j2, j3⟩ := hj
            have jt := j3 t rfl
            refine ⟨?_, by simp only [pr]; omega, fun t' ht' => ?_⟩
            · simp only [headParenE, j1, Bool.or_false, decide_eq_false_iff_not]
              omega
            · have := hn h4 t' ht'
              simp only [pr]
              omega
  · -- unary
    intro lev ts
    unfold parseUnaryExpr
    split
    · simp [eofErr]
    · rename_i t rest
      split
      · apply Res.Holds.bind (ih.unary _ _)
        rintro ⟨y, ts'⟩ ⟨hy, _⟩
        exact ⟨⟨by simp only [wf]; exact hy.1, by simp only [canonPos, hy.2]⟩, fun _ => ⟨rfl, rfl⟩⟩
      · refine Res.Holds.mono (ih.primary _ _) ?_
        rintro ⟨y, ts'⟩ ⟨hy, hp0⟩
        exact ⟨hy, fun hnl => ⟨(hp0 hnl).1, (hp0 hnl).2.2⟩⟩
  · -- primary
    intro lev ts
    unfold parsePrimaryExpr
    apply Res.Holds.bind (ih.operand lev ts)
    rintro ⟨x, ts'⟩ ⟨hx, hx0⟩
    refine Res.Holds.mono (ih.ploop _ _ _ hx) ?_
    rintro ⟨r, ts''⟩ ⟨h1, h2⟩
    exact ⟨h1, fun hnl => h2 (hx0 hnl)⟩
  · -- ploop
    intro lev x ts hx
    unfold primaryLoop
    split
    · exact ⟨hx, id⟩
    · split
      · split
        · simp
        · rename_i hat
          have hat' : x.calleeAtomic = true := by simpa using hat
          apply Res.Holds.bind (ih.call _ _ _ hx hat')
          rintro ⟨y, ts'⟩ ⟨hy, hy0⟩
          refine Res.Holds.mono (ih.ploop _ _ _ hy) ?_
          rintro ⟨r, ts''⟩ ⟨h1, h2⟩
          exact ⟨h1, fun h0 => h2 (hy0 h0)⟩
      · split
        · apply Res.Holds.bind (ih.access _ _ _ _ hx)
          rintro ⟨y, ts'⟩ ⟨hy, hy0⟩
          refine Res.Holds.mono (ih.ploop _ _ _ hy) ?_
          rintro ⟨r, ts''⟩ ⟨h1, h2⟩
          exact ⟨h1, fun h0 => h2 (hy0 h0)⟩
        · exact ⟨hx, id⟩
  · -- operand
    intro lev ts
    unfold parseOperand
    split
    · simp
    · rename_i t rest
      repeat' split
      all_goals try (first
        | (simp [synErr]; done)
        | exact ⟨w_atom pf (by simp [atomTok, Expr.newNumber]) (by simp [wf, Expr.newNumber]) rfl,
            fun _ => ⟨rfl, rfl, rfl⟩⟩)
      rename_i hlp
      apply Res.Holds.bind (ih.binary _ _ rest (by omega))
      rintro ⟨y, ts'⟩ ⟨hy, _⟩
      apply Res.Holds.bind (expect_im _ _)
      intro ts'' _
      exact ⟨hy, fun hnl => (hnl_absurd hnl hlp).elim⟩
  · -- items
    intro lev close strict acc ts hacc
    unfold parseItems
    split
    · exact hacc
    · split
      · exact hacc
      · apply Res.Holds.bind (ih.binary _ _ _ (by omega))
        rintro ⟨y, ts'⟩ ⟨hy, _⟩
        dsimp only
        have hacc' := wl_snoc pf hacc hy
        split
        · exact hacc'
        · split
          · exact hacc'
          · split
            · simp [synErr]
            · exact ih.items _ _ _ _ _ hacc'
  · -- call
    intro lev fn ts hfn hat
    unfold parseFuncCall
    apply Res.Holds.bind (expect_im _ _)
    intro ts1 _
    apply Res.Holds.bind (ih.items _ _ _ [] ts1 (wl_nil pf))
    rintro ⟨args, ts2⟩ ha
    apply Res.Holds.bind (expect_im _ _)
    intro ts3 _
    simp only [Res.holds_pure]
    refine ⟨⟨by simp only [wf, hat, hfn.1, ha.1, Bool.and_self], by simp only [canonPos, hfn.2, ha.2]⟩, ?_⟩
    rintro ⟨_, _, h3⟩
    exact ⟨rfl, rfl, by simp only [headParenE, h3]⟩
  · -- access
    intro lev pos l ts hl
    unfold parseFieldAccess
    apply Res.Holds.bind (expect_im _ _)
    intro ts1 _
    apply Res.Holds.bind (ih.items _ _ _ [] ts1 (wl_nil pf))
    rintro ⟨args, ts2⟩ ha
    apply Res.Holds.bind (expect_im _ _)
    intro ts3 _
    split
    · rename_i f
      obtain ⟨h1, h2⟩ := ha
      simp only [wfList, Bool.and_eq_true, and_true] at h1
      simp only [canonPosList, List.cons.injEq, and_true] at h2
      simp only [Res.holds_pure]
      refine ⟨⟨by simp only [wf, hl.1, h1, Bool.and_self], by simp only [canonPos, hl.2, h2]⟩, ?_⟩
      rintro ⟨p1, p2, p3⟩
      exact ⟨rfl, rfl, by simp only [headParenE, p1, p2, p3, Bool.or_self]⟩
    · simp [synErr]
  · -- list
    intro lev pos ts
    unfold parseList
    apply Res.Holds.bind (expect_im _ _)
    intro ts1 _
    apply Res.Holds.bind (ih.items _ _ _ [] ts1 (wl_nil pf))
    rintro ⟨args, ts2⟩ ha
    apply Res.Holds.bind (expect_im _ _)
    intro ts3 _
    simp only [Res.holds_pure]
    exact ⟨args, rfl, ha⟩
  · -- between
    intro lev pos oprec ts hp
    unfold parseBetween
    apply Res.Holds.bind (ih.binary _ _ ts hp)
    rintro ⟨lo, ts1⟩ ⟨hlo, _⟩
    apply Res.Holds.bind (expect_im _ _)
    intro ts2 _
    apply Res.Holds.bind (ih.binary _ _ ts2 hp)
    rintro ⟨hi, ts3⟩ ⟨hhi, _⟩
    simp only [Res.holds_pure]
    exact ⟨lo, hi, rfl, hlo, hhi⟩

theorem im_all : ∀ fuel, ImIH pf fuel
  | 0 => im_zero pf
  | n + 1 => im_step pf (im_all n)

/-- **The class contains the parser's image**: whatever the expression parser returns — any
    tokens, any fuel, any nesting level, any threshold `≥ 1` — is well formed and carries the
    canonical positions. -/
theorem parseBinaryExpr_image {fuel lev prec : Nat} {ts rest : Toks} {x : Expr} (hp : 1 ≤ prec)
    (h : parseBinaryExpr pf fuel lev prec ts = .ok (x, rest)) : wf pf x = true ∧ canonPos x = x := by
  have := (im_all pf fuel).binary lev prec ts hp
  rw [h] at this
  exact this.1

theorem parseExpr_image {fuel : Nat} {ts rest : Toks} {x : Expr}
    (h : parseExpr pf fuel ts = .ok (x, rest)) : wf pf x = true ∧ canonPos x = x :=
  parseBinaryExpr_image pf (by omega) h

/-- **`parseExpr ∘ printMin` is the identity on the parser's image.** -/
theorem reparse_image {fuel : Nat} {ts rest : Toks} {x : Expr}
    (h : parseExpr pf fuel ts = .ok (x, rest))
    (hsize : 8 * (printMin pf x).length + 8 ≤ maxNestLevel) :
    parseExpr pf (exprFuel (printMin pf x)) (printMin pf x) = .ok (x, []) := by
  obtain ⟨hw, hc⟩ := parseExpr_image pf h
  have := print_min_parse pf x hw hsize
  rw [hc] at this
  exact this

end Kvql.Proofs.ParsePrec
