/-
  C14 through alias references, part 2: from the select-field table to the self-contained tree.

  `Parser.resolveTop tbl e` gives every alias reference of `e` a copy of the select field it names,
  resolved in turn.  If every node of `e` and of every table entry passes the checker's test of its
  operator over `tbl` (`NodeOK {tbl} false`), every reference names a field (`Found`), and the
  resolved tree has no cycle marker, then every node of the resolved tree — the copies included —
  passes the same tests over the EMPTY table (`NodeOK ctx0 true`), and the static type of the
  resolved tree is the type the checker computed for `e` through the table (`Sim`, `RtImp`).

  The induction is on the resolution depth (the fuel of `resolve`, which `PathInv` ties to the
  number of fields still unvisited), inside it on the tree.
-/
import Kvql.Proofs.TypingAliasBase

namespace Kvql.Proofs.Typing

open Kvql Kvql.Generated Kvql.PlanCheck Kvql.Parser

/-! ### the relation between a tree and its resolved form -/

/-- whatever `ReturnType()` of `x` finds through the table is the static type of `X` -/
def RtImp (tbl : Tbl) (x X : Expr) : Prop := ∀ n t, rtF tbl n x = some t → X.retType = t

/-- list items: same positions, types carried over -/
def Items (tbl : Tbl) : List Expr → List Expr → Prop
  | [], [] => True
  | a :: as, A :: AS => A.pos = a.pos ∧ RtImp tbl a A ∧ Items tbl as AS
  | _, _ => False

/-- `X` is `x` with its references re-targeted: same node kind, same position, same literal, and the
    types the checker asks of `x` are the static types of `X` -/
inductive Sim (tbl : Tbl) : Expr → Expr → Prop
  | binop (p : Nat) (op : Op) (l r L R : Expr) : RtImp tbl l L → Sim tbl (.binop p op l r) (.binop p op L R)
  | field (p : Nat) (kw : KW) : Sim tbl (.field p kw) (.field p kw)
  | str (p : Nat) (d : Bytes) : Sim tbl (.str p d) (.str p d)
  | name (p : Nat) (d : Bytes) : Sim tbl (.name p d) (.name p d)
  | num (p : Nat) (d : Bytes) (v : Int64) : Sim tbl (.num p d v) (.num p d v)
  | float (p : Nat) (d : Bytes) (v : F64) : Sim tbl (.float p d v) (.float p d v)
  | bool (p : Nat) (d : Bytes) (v : Bool) : Sim tbl (.bool p d v) (.bool p d v)
  | not (p : Nat) (r R : Expr) : Sim tbl (.not p r) (.not p R)
  | call (p : Nat) (nm : Expr) (args ARGS : List Expr) : Sim tbl (.call p nm args) (.call p nm ARGS)
  | ref (p : Nat) (nm : Bytes) (t T : Expr) : RtImp tbl (.ref p nm t) (.ref p nm T) →
      Sim tbl (.ref p nm t) (.ref p nm T)
  | list (p : Nat) (items ITEMS : List Expr) : Items tbl items ITEMS → Sim tbl (.list p items) (.list p ITEMS)
  | access (p : Nat) (l f L F : Expr) : Sim tbl (.access p l f) (.access p L F)

theorem Sim.pos {tbl : Tbl} {x X : Expr} (h : Sim tbl x X) : X.pos = x.pos := by
  cases h <;> rfl

theorem Sim.rtImp {tbl : Tbl} {x X : Expr} (h : Sim tbl x X) : RtImp tbl x X := by
  intro n t hrt
  cases n with
  | zero => simp [rtF] at hrt
  | succ n =>
    cases h with
    | binop p op l r L R hl =>
      cases op
      case add =>
        simp only [rtF, Expr.opRetType] at hrt
        cases hl' : rtF tbl n l with
        | none => simp [hl'] at hrt
        | some tl =>
          simp only [hl', Option.map_some, Option.some.injEq] at hrt
          simp only [Expr.retType, Expr.opRetType, hl n tl hl']
          exact hrt
      all_goals
        simp only [rtF, Expr.opRetType, Option.some.injEq] at hrt
        simp only [Expr.retType, Expr.opRetType]
        exact hrt
    | ref p nm tg T hr => exact hr (n + 1) t hrt
    | field p kw => simp only [rtF, Option.some.injEq] at hrt; exact hrt
    | str p d => simp only [rtF, Option.some.injEq] at hrt; exact hrt
    | name p d => simp only [rtF, Option.some.injEq] at hrt; exact hrt
    | num p d v => simp only [rtF, Option.some.injEq] at hrt; exact hrt
    | float p d v => simp only [rtF, Option.some.injEq] at hrt; exact hrt
    | bool p d v => simp only [rtF, Option.some.injEq] at hrt; exact hrt
    | not p r R => simp only [rtF, Option.some.injEq] at hrt; simpa [Expr.retType] using hrt
    | call p nm args ARGS => simp only [rtF, Option.some.injEq] at hrt; simpa [Expr.retType] using hrt
    | list p items ITEMS _ => simp only [rtF, Option.some.injEq] at hrt; simpa [Expr.retType] using hrt
    | access p l f L F => simp only [rtF, Option.some.injEq] at hrt; simpa [Expr.retType] using hrt

/-- the type the checker finds for `x` through the table is the type it finds for `X` without one -/
theorem rt_transfer {ctx : CheckCtx} {x X : Expr} (hs : Sim ctx.tbl x X) (hn : noCyc X = true) {t : Nat}
    (h : ctx.rt x = .ok t) : ctx0.rt X = .ok t := by
  rw [rt_ok_iff] at h
  rw [rt0 hn, hs.rtImp _ _ h]

theorem rtImp_transfer {ctx : CheckCtx} {x X : Expr} (hs : RtImp ctx.tbl x X) (hn : noCyc X = true) {t : Nat}
    (h : ctx.rt x = .ok t) : ctx0.rt X = .ok t := by
  rw [rt_ok_iff] at h
  rw [rt0 hn, hs _ _ h]

/-! ### the checker's operator rules carry over -/

theorem isBoolOperand_sim {tbl : Tbl} {x X : Expr} (h : Sim tbl x X) : isBoolOperand X = isBoolOperand x := by
  cases h <;> rfl

theorem compareSide_sim {tbl : Tbl} {x X : Expr} (h : Sim tbl x X) : compareSide X = compareSide x := by
  cases h <;> rfl

theorem andOrSide_transfer {ctx : CheckCtx} {x X : Expr} (hs : Sim ctx.tbl x X) (hn : noCyc X = true)
    (h : ctx.checkAndOrSide x = .ok ()) : ctx0.checkAndOrSide X = .ok () := by
  have hrt := rt_transfer hs hn (checkAndOrSide_ok h)
  have hb : isBoolOperand x = true := by
    unfold CheckCtx.checkAndOrSide at h
    split at h
    · assumption
    · cases h
  unfold CheckCtx.checkAndOrSide
  rw [isBoolOperand_sim hs, hb]
  simp [hrt]

theorem checkWithAndOr_transfer {ctx : CheckCtx} {l r L R : Expr} (hl : Sim ctx.tbl l L) (hr : Sim ctx.tbl r R)
    (hnl : noCyc L = true) (hnr : noCyc R = true) (h : ctx.checkWithAndOr l r = .ok ()) :
    ctx0.checkWithAndOr L R = .ok () := by
  unfold CheckCtx.checkWithAndOr at h ⊢
  obtain ⟨u, h1, h2⟩ := bind_ok_iff.mp h
  rw [andOrSide_transfer hl hnl h1]
  exact andOrSide_transfer hr hnr h2

theorem mathSide_transfer {ctx : CheckCtx} {x X : Expr} (hs : Sim ctx.tbl x X) (hn : noCyc X = true) {b : Bool}
    (h : ctx.mathSide x = .ok b) : ctx0.mathSide X = .ok b := by
  have key : ∀ t, ctx.rt x = .ok t → ctx0.rt X = .ok t := fun t ht => rt_transfer hs hn ht
  cases hs with
  | binop p op l r L R hl =>
    simp only [CheckCtx.mathSide] at h ⊢
    obtain ⟨t, ht, h2⟩ := bind_ok_iff.mp h
    rw [key t ht]; exact h2
  | call p nm args ARGS =>
    simp only [CheckCtx.mathSide] at h ⊢
    obtain ⟨t, ht, h2⟩ := bind_ok_iff.mp h
    rw [key t ht]; exact h2
  | num p d v =>
    simp only [CheckCtx.mathSide] at h ⊢
    obtain ⟨t, ht, h2⟩ := bind_ok_iff.mp h
    rw [key t ht]; exact h2
  | float p d v =>
    simp only [CheckCtx.mathSide] at h ⊢
    obtain ⟨t, ht, h2⟩ := bind_ok_iff.mp h
    rw [key t ht]; exact h2
  | ref p nm t T hr =>
    simp only [CheckCtx.mathSide] at h ⊢
    obtain ⟨t, ht, h2⟩ := bind_ok_iff.mp h
    rw [key t ht]; exact h2
  | str p d => exact h
  | field p kw => exact h
  | access p l f L F => exact h
  | name p d => simp [CheckCtx.mathSide, synErr] at h
  | bool p d v => simp [CheckCtx.mathSide, synErr] at h
  | not p r R => simp [CheckCtx.mathSide, synErr] at h
  | list p items ITEMS _ => simp [CheckCtx.mathSide, synErr] at h

theorem checkWithMath_transfer {ctx : CheckCtx} {op : Op} {l r L R : Expr} (hl : Sim ctx.tbl l L)
    (hr : Sim ctx.tbl r R) (hnl : noCyc L = true) (hnr : noCyc R = true)
    (h : ctx.checkWithMath op l r = .ok ()) : ctx0.checkWithMath op L R = .ok () := by
  unfold CheckCtx.checkWithMath at h ⊢
  obtain ⟨bl, hbl, h⟩ := bind_ok_iff.mp h
  obtain ⟨br, hbr, h⟩ := bind_ok_iff.mp h
  rw [mathSide_transfer hl hnl hbl, mathSide_transfer hr hnr hbr]
  simp only [Res.bind_ok]
  rw [hl.pos, hr.pos]
  cases hr <;> exact h

theorem checkWithCompares_transfer {ctx : CheckCtx} {pos : Nat} {op : Op} {l r L R : Expr} (hl : Sim ctx.tbl l L)
    (hr : Sim ctx.tbl r R) (hnl : noCyc L = true) (hnr : noCyc R = true)
    (h : ctx.checkWithCompares pos op l r = .ok ()) : ctx0.checkWithCompares pos op L R = .ok () := by
  unfold CheckCtx.checkWithCompares at h ⊢
  rw [compareSide_sim hl, compareSide_sim hr]
  obtain ⟨⟨lk, lv⟩, h1, h⟩ := bind_ok_iff.mp h
  obtain ⟨⟨rk, rv⟩, h2, h⟩ := bind_ok_iff.mp h
  rw [h1, h2]
  simp only [Res.bind_ok]
  dsimp only at h
  split at h
  · cases h
  · rename_i hc
    rw [if_neg hc]
    obtain ⟨lt, hlt, h⟩ := bind_ok_iff.mp h
    obtain ⟨rt, hrt, h⟩ := bind_ok_iff.mp h
    rw [rt_transfer hl hnl hlt, rt_transfer hr hnr hrt]
    simp only [Res.bind_ok]
    rw [hl.pos]
    exact h

theorem inItems_transfer {ctx : CheckCtx} {t : Nat} : ∀ (items ITEMS : List Expr), Items ctx.tbl items ITEMS →
    noCycList ITEMS = true → ctx.inItems t items = .ok () → ctx0.inItems t ITEMS = .ok ()
  | [], [], _, _, _ => by unfold CheckCtx.inItems; rfl
  | a :: as, A :: AS, hi, hn, h => by
    simp only [Items] at hi
    simp only [noCycList, Bool.and_eq_true] at hn
    unfold CheckCtx.inItems at h ⊢
    obtain ⟨ta, hta, h⟩ := bind_ok_iff.mp h
    rw [rtImp_transfer hi.2.1 hn.1 hta]
    simp only [Res.bind_ok]
    split at h
    · cases h
    · rename_i hc
      rw [if_neg hc]
      exact inItems_transfer as AS hi.2.2 hn.2 h
  | [], _ :: _, hi, _, _ => by simp [Items] at hi
  | _ :: _, [], hi, _, _ => by simp [Items] at hi

theorem checkWithIn_transfer {ctx : CheckCtx} {l r L R : Expr} (hl : Sim ctx.tbl l L)
    (hr : Sim ctx.tbl r R) (hnl : noCyc L = true) (hnr : noCyc R = true)
    (h : ctx.checkWithIn l r = .ok ()) : ctx0.checkWithIn L R = .ok () := by
  have key : ∀ t, ctx.rt r = .ok t → ctx0.rt R = .ok t := fun t ht => rt_transfer hr hnr ht
  unfold CheckCtx.checkWithIn at h ⊢
  obtain ⟨lt, hlt, h⟩ := bind_ok_iff.mp h
  rw [rt_transfer hl hnl hlt]
  simp only [Res.bind_ok]
  split at h
  · cases h
  · rename_i hc
    rw [if_neg hc]
    cases hr with
    | list p items ITEMS hi =>
      simp only [noCyc] at hnr
      exact inItems_transfer items ITEMS hi hnr h
    | call p nm args ARGS =>
      dsimp only at h ⊢
      obtain ⟨t, ht, h2⟩ := bind_ok_iff.mp h
      rw [key t ht]; exact h2
    | ref p nm t T hrr =>
      dsimp only at h ⊢
      obtain ⟨t, ht, h2⟩ := bind_ok_iff.mp h
      rw [key t ht]; exact h2
    | binop p op l r L R _ => simp [synErr] at h
    | field p kw => simp [synErr] at h
    | str p d => simp [synErr] at h
    | name p d => simp [synErr] at h
    | num p d v => simp [synErr] at h
    | float p d v => simp [synErr] at h
    | bool p d v => simp [synErr] at h
    | not p r R => simp [synErr] at h
    | access p l f L F => simp [synErr] at h

theorem checkWithBetween_transfer {ctx : CheckCtx} {l r L R : Expr} (hl : Sim ctx.tbl l L)
    (hr : Sim ctx.tbl r R) (hnl : noCyc L = true) (hnr : noCyc R = true)
    (h : ctx.checkWithBetween l r = .ok ()) : ctx0.checkWithBetween L R = .ok () := by
  obtain ⟨t, q, lo, hi, rfl, h1, htt, hlo, hhi⟩ := checkWithBetween_ok h
  cases hr with
  | list p items ITEMS hi' =>
    match ITEMS, hi', hnr with
    | [LO, HI], hi', hnr =>
      simp only [Items] at hi'
      simp only [noCyc, noCycList, Bool.and_eq_true] at hnr
      unfold CheckCtx.checkWithBetween
      simp only [rt_transfer hl hnl h1, Res.bind_ok, rtImp_transfer hi'.2.1 hnr.1 hlo,
        rtImp_transfer hi'.2.2.2.1 hnr.2.1 hhi]
      rcases htt with rfl | rfl <;> simp [tyTSTR, tyTNUMBER]
    | [], hi', _ => simp [Items] at hi'
    | [_], hi', _ => simp [Items] at hi'
    | _ :: _ :: _ :: _, hi', _ => simp [Items] at hi'

theorem checkOp_transfer {ctx : CheckCtx} {pos : Nat} {op : Op} {l r L R : Expr} (hl : Sim ctx.tbl l L)
    (hr : Sim ctx.tbl r R) (hnl : noCyc L = true) (hnr : noCyc R = true)
    (h : ctx.checkOp pos op l r = .ok ()) : ctx0.checkOp pos op L R = .ok () := by
  cases op <;> simp only [CheckCtx.checkOp] at h ⊢ <;>
    first
      | exact checkWithAndOr_transfer hl hr hnl hnr h
      | exact checkWithMath_transfer hl hr hnl hnr h
      | exact checkWithIn_transfer hl hr hnl hnr h
      | exact checkWithBetween_transfer hl hr hnl hnr h
      | exact checkWithCompares_transfer hl hr hnl hnr h
      | (simp [synErr] at h)

/-! ### references that name a select field -/

/-- the names of the select fields, as `GetNamedExpr` sees them -/
def aliasP (tbl : Tbl) : Bytes → Bool := fun d => (tbl.find d).isSome

mutual
  /-- every reference of the tree (outside the copies) has a name `al` accepts -/
  def FoundP (al : Bytes → Bool) : Expr → Bool
    | .ref _ nm _ => al nm
    | .binop _ _ l r => FoundP al l && FoundP al r
    | .not _ r => FoundP al r
    | .call _ n args => FoundP al n && FoundPList al args
    | .list _ items => FoundPList al items
    | .access _ l f => FoundP al l && FoundP al f
    | _ => true
  def FoundPList (al : Bytes → Bool) : List Expr → Bool
    | [] => true
    | e :: es => FoundP al e && FoundPList al es
end

/-- every reference of the tree (outside the copies) names a field of the table -/
abbrev Found (tbl : Tbl) (e : Expr) : Bool := FoundP (aliasP tbl) e
abbrev FoundList (tbl : Tbl) (es : List Expr) : Bool := FoundPList (aliasP tbl) es

/-- what a function put in the place of the references must do: a reference to a named field becomes
    the cycle marker, or a reference whose copy — if it has no cycle marker — passes every test over
    the empty table and has the static type the checker finds through the table -/
def GOK (tbl : Tbl) (g : Nat → Bytes → Expr → Expr) : Prop :=
  ∀ p nm t, (tbl.find nm).isSome = true →
    g p nm t = .cycle ∨
    ∃ T, g p nm t = .ref p nm T ∧
      (noCyc T = true → NodeOK ctx0 true T ∧ RtImp tbl (.ref p nm t) (.ref p nm T))

mutual
  theorem mapRefs_deep {ctx : CheckCtx} {g : Nat → Bytes → Expr → Expr} (hg : GOK ctx.tbl g) :
      ∀ (e : Expr), NodeOK ctx false e → Found ctx.tbl e = true → noCyc (mapRefs g e) = true →
        NodeOK ctx0 true (mapRefs g e) ∧ Sim ctx.tbl e (mapRefs g e)
    | .binop p op l r, h, hf, hn => by
      simp only [NodeOK] at h
      simp only [Found, FoundP, Bool.and_eq_true] at hf
      simp only [mapRefs, noCyc, Bool.and_eq_true] at hn ⊢
      obtain ⟨dl, sl⟩ := mapRefs_deep hg l h.1 hf.1 hn.1
      obtain ⟨dr, sr⟩ := mapRefs_deep hg r h.2.1 hf.2 hn.2
      exact ⟨⟨dl, dr, checkOp_transfer sl sr hn.1 hn.2 h.2.2⟩, .binop _ _ _ _ _ _ sl.rtImp⟩
    | .not p r, h, hf, hn => by
      simp only [NodeOK] at h
      simp only [Found, FoundP, aliasP] at hf
      simp only [mapRefs, noCyc] at hn ⊢
      obtain ⟨dr, sr⟩ := mapRefs_deep hg r h.1 hf hn
      exact ⟨⟨dr, rt_transfer sr hn h.2⟩, .not _ _ _⟩
    | .call p nm args, h, hf, hn => by
      simp only [NodeOK] at h
      obtain ⟨⟨q, d, rfl⟩, hargs⟩ := h
      simp only [Found, FoundP, Bool.and_eq_true] at hf
      simp only [mapRefs, noCyc, Bool.and_eq_true] at hn ⊢
      obtain ⟨da, _⟩ := mapRefsList_deep hg args hargs hf.2 hn.2
      exact ⟨⟨⟨q, d, rfl⟩, da⟩, .call _ _ _ _⟩
    | .list p items, h, hf, hn => by
      simp only [NodeOK] at h
      simp only [Found, FoundP, aliasP] at hf
      simp only [mapRefs, noCyc] at hn ⊢
      obtain ⟨di, si⟩ := mapRefsList_deep hg items h hf hn
      exact ⟨di, .list _ _ _ si⟩
    | .ref p nm t, _, hf, hn => by
      simp only [Found, FoundP, aliasP] at hf
      simp only [mapRefs] at hn ⊢
      rcases hg p nm t hf with hc | ⟨T, hT, hgood⟩
      · rw [hc] at hn; simp [noCyc] at hn
      · rw [hT] at hn ⊢
        simp only [noCyc] at hn
        obtain ⟨dT, rT⟩ := hgood hn
        exact ⟨by simpa only [NodeOK, if_true] using dT, .ref _ _ _ _ rT⟩
    | .access p l f, _, _, _ => by
      simp only [mapRefs, NodeOK]
      exact ⟨trivial, .access _ _ _ _ _⟩
    | .field p kw, _, _, _ => by simp only [mapRefs, NodeOK]; exact ⟨trivial, .field _ _⟩
    | .str p d, _, _, _ => by simp only [mapRefs, NodeOK]; exact ⟨trivial, .str _ _⟩
    | .name p d, _, _, _ => by simp only [mapRefs, NodeOK]; exact ⟨trivial, .name _ _⟩
    | .num p d v, _, _, _ => by simp only [mapRefs, NodeOK]; exact ⟨trivial, .num _ _ _⟩
    | .float p d v, _, _, _ => by simp only [mapRefs, NodeOK]; exact ⟨trivial, .float _ _ _⟩
    | .bool p d v, _, _, _ => by simp only [mapRefs, NodeOK]; exact ⟨trivial, .bool _ _ _⟩
    | .cycle, _, _, hn => by simp [mapRefs, noCyc] at hn
  theorem mapRefsList_deep {ctx : CheckCtx} {g : Nat → Bytes → Expr → Expr} (hg : GOK ctx.tbl g) :
      ∀ (es : List Expr), NodeOKList ctx false es → FoundList ctx.tbl es = true →
        noCycList (mapRefsList g es) = true →
        NodeOKList ctx0 true (mapRefsList g es) ∧ Items ctx.tbl es (mapRefsList g es)
    | [], _, _, _ => by simp [mapRefsList, NodeOKList, Items]
    | e :: es, h, hf, hn => by
      simp only [NodeOKList] at h
      simp only [FoundList, FoundPList, Bool.and_eq_true] at hf
      simp only [mapRefsList, noCycList, Bool.and_eq_true] at hn ⊢
      obtain ⟨de, se⟩ := mapRefs_deep hg e h.1 hf.1 hn.1
      obtain ⟨des, ses⟩ := mapRefsList_deep hg es h.2 hf.2 hn.2
      exact ⟨⟨de, des⟩, by simp only [Items]; exact ⟨se.pos, se.rtImp, ses⟩⟩
end

/-! ### `resolve` -/

/-- what `resolve tbl (fuel + 1) path` puts in the place of a reference -/
def rg (tbl : Tbl) (fuel : Nat) (path : List Nat) : Nat → Bytes → Expr → Expr :=
  fun p nm t =>
    match tbl.find nm with
    | some (i, cur) => if path.contains i then .cycle else .ref p nm (resolve tbl fuel (i :: path) cur)
    | none => .ref p nm t

theorem resolve_succ (tbl : Tbl) (fuel : Nat) (path : List Nat) (e : Expr) :
    resolve tbl (fuel + 1) path e = mapRefs (rg tbl fuel path) e := rfl

theorem find_go_get (nm : Bytes) : ∀ (tbl : Tbl) (k i : Nat) (e : Expr),
    Tbl.find.go nm tbl k = some (i, e) → ∃ n, tbl[i - k]? = some (n, e)
  | [], k, i, e, h => by simp [Tbl.find.go] at h
  | (n, x) :: rest, k, i, e, h => by
    unfold Tbl.find.go at h
    split at h
    · simp only [Option.some.injEq, Prod.mk.injEq] at h
      obtain ⟨rfl, rfl⟩ := h
      exact ⟨n, by simp⟩
    · have hb := ParserTotal.Tbl.find_go_lt rest nm (k + 1) i e h
      obtain ⟨n', hn'⟩ := find_go_get nm rest (k + 1) i e h
      refine ⟨n', ?_⟩
      have : i - k = (i - (k + 1)) + 1 := by omega
      rw [this]
      simpa using hn'

theorem find_get {tbl : Tbl} {nm : Bytes} {i : Nat} {e : Expr} (h : tbl.find nm = some (i, e)) :
    ∃ n, tbl[i]? = some (n, e) := by
  have := find_go_get nm tbl 0 i e h
  simpa using this

/-- the table is a fixpoint of the checker: every node of every entry passes its test over the
    table, and every reference names a field -/
def TblOK (tbl : Tbl) : Prop :=
  ∀ (j : Nat) (nm : Bytes) (f : Expr), tbl[j]? = some (nm, f) →
    (∃ ctx : CheckCtx, ctx.tbl = tbl ∧ NodeOK ctx false f) ∧ Found tbl f = true

/-- induction on the resolution depth: with `fuel` levels left and `path` the fields being
    expanded (distinct, `fuel + |path|` = number of fields), what `resolve` puts in the place of a
    reference is good -/
theorem rg_gok (tbl : Tbl) (hok : TblOK tbl) : ∀ (fuel : Nat) (path : List Nat),
    fuel + path.length = tbl.length → path.Nodup → (∀ i ∈ path, i < tbl.length) → GOK tbl (rg tbl fuel path)
  | fuel, path, hlen, hnd, hlt => by
    intro p nm t hfound
    unfold rg
    cases hf : tbl.find nm with
    | none => rw [hf] at hfound; cases hfound
    | some pr =>
      obtain ⟨i, cur⟩ := pr
      dsimp only
      by_cases hc : path.contains i = true
      · left; rw [if_pos hc]
      · right
        refine ⟨resolve tbl fuel (i :: path) cur, by rw [if_neg hc], fun hn => ?_⟩
        have hi : i < tbl.length := ParserTotal.Tbl.find_lt hf
        have hni : i ∉ path := fun hmem => hc (List.contains_iff_mem.mpr hmem)
        have hnd' : (i :: path).Nodup := List.nodup_cons.mpr ⟨hni, hnd⟩
        have hlt' : ∀ j ∈ i :: path, j < tbl.length := by
          intro j hj
          rcases List.mem_cons.mp hj with rfl | hj'
          · exact hi
          · exact hlt j hj'
        have hpig : (i :: path).length ≤ tbl.length := by
          have := List.Nodup.length_le_of_subset (l₂ := List.range tbl.length) hnd'
            (fun x hx => List.mem_range.mpr (hlt' x hx))
          simpa using this
        obtain ⟨fuel', rfl⟩ : ∃ f', fuel = f' + 1 := ⟨fuel - 1, by simp only [List.length_cons] at hpig; omega⟩
        obtain ⟨n0, hget⟩ := find_get hf
        obtain ⟨⟨cx, hcx, hnode⟩, hfnd⟩ := hok i n0 cur hget
        have ih := rg_gok tbl hok fuel' (i :: path) (by simp only [List.length_cons]; omega) hnd' hlt'
        rw [resolve_succ] at hn ⊢
        subst hcx
        obtain ⟨dT, sT⟩ := mapRefs_deep (ctx := cx) ih cur hnode hfnd hn
        refine ⟨dT, ?_⟩
        intro n t0 hrt
        cases n with
        | zero => simp [rtF] at hrt
        | succ n =>
          simp only [rtF, hf] at hrt
          simp only [Expr.retType]
          exact sT.rtImp n t0 hrt
termination_by fuel => fuel

/-- THE RESOLVED TREE IS SELF-CONTAINED.  Over a table that is a fixpoint of the checker, a tree all
    of whose nodes pass the checker's tests and whose references name fields resolves — unless a cycle
    marker appears — to a tree all of whose nodes, the copies included, pass the tests over the empty
    table, with the static type the checker found through the table. -/
theorem resolveTop_deep (ctx : CheckCtx) (hok : TblOK ctx.tbl) (e : Expr) (h : NodeOK ctx false e)
    (hf : Found ctx.tbl e = true) (hn : noCyc (resolveTop ctx.tbl e) = true) :
    NodeOK ctx0 true (resolveTop ctx.tbl e) ∧ Sim ctx.tbl e (resolveTop ctx.tbl e) := by
  unfold resolveTop at hn ⊢
  rw [resolve_succ] at hn ⊢
  exact mapRefs_deep (ctx := ctx) (rg_gok ctx.tbl hok ctx.tbl.length [] (by simp) List.nodup_nil (by simp)) e h hf hn

end Kvql.Proofs.Typing
