/-
  Statement level, over `Run.runStmt` / `Run.runQuery`:
  * an accepted non-aggregate SELECT never ends with an operand-type failure — from the kinds of the
    FOLDED trees (C14 + `optimize_kind`), through Proofs/FoldVecFail.lean and the cache-free
    specifications of C05 (`runStmt_no_ot_of_kinds`; `runStmt_no_ot_af` for a statement without alias
    references);
  * the batch hypotheses of E2E / E2EFields / E2EAggr moved from the folded statement to the PARSED one by
    the batch analogue of C04 (`optimize_semB`) and `optimize_vecOk`.
-/
import Kvql.Proofs.FoldVecFail
import Kvql.Proofs.FoldVecMain
import Kvql.Proofs.FoldVecKind
import Kvql.Proofs.FoldVecShape
import Kvql.Proofs.RunFieldsThms
import Kvql.Proofs.RunWriteAliasFree

namespace Kvql.Proofs.FoldVecRun
open Kvql Kvql.Run Kvql.Plans Kvql.Storage Kvql.Project Kvql.Cache Kvql.Proofs.Typing Kvql.Proofs.RunFields
open Kvql.Proofs.RunFold Kvql.Proofs.RunTables
open Kvql.PlanCheck (planStage finalPlanCheck)

/-! ### no operand-type failure -/

/-- a non-aggregate SELECT whose FOLDED filter is Boolean by the README typing and whose folded select
    fields are well-kinded (under the alias hypotheses of C05 on the folded statement) never ends with an
    operand-type failure: row mode on every store, batch mode on a sorted store -/
theorem runStmt_no_ot_of_kinds {s : SelectS} (hnoaggr : finalPlanCheck s = .ok false) {f : FoldedSelect}
    (hf : foldSelect s = .ok f) (hA : AliasOK s f) (hkw : kindOf f.where_ = some .bool)
    (hkf : ∀ g ∈ selFields s f, ∃ k, kindOf g.expr = some k)
    (store : Store) (kind : PollKind) (hk : kind = .next ∨ store.Sorted) (bs : Nat) (hbs : 1 ≤ bs) (cache : Bool)
    (fl : Fail) (h : (runStmt (.select s) store kind bs cache).fail = some fl) : ¬ OpFail fl := by
  intro hfl
  rw [runStmt_plain s store kind bs cache hbs hnoaggr hf] at h
  have ht := runPlainSelect_opFail hfl h
  cases kind with
  | next =>
    rw [projTrace_next_eq_spec hA] at ht
    rcases projSpecNext_opFail hfl ht with ⟨p, pe, h1, h2⟩ | ⟨ps, pe, h1, h2⟩
    · have := filterSpec_kind hkw (toKv p)
      rcases h2 with rfl | rfl
      · exact this.1 h1
      · exact this.2 h1
    · have := rowsSpec_no_ot (w := f.where_) (fields := selFields s f) (fun kv => filterSpec_kind hkw kv)
        (fun kv g hg => by
          obtain ⟨k, hk'⟩ := hkf g hg
          exact (nocache_kind hk' kv).2) ps
      rcases h2 with rfl | rfl
      · exact this.1 h1
      · exact this.2 h1
  | batch =>
    have hs : store.Sorted := by
      rcases hk with hk | hk
      · cases hk
      · exact hk
    rw [projTrace_batch_eq_spec hA hs bs hbs] at ht
    rcases projSpecBatch_opFail hfl ht with ⟨ch, pe, h1, h2⟩ | ⟨n, chunks, pe, h1, h2⟩
    · exact filterChunkSpec_kind hkw ch pe h1 h2
    · exact batchesSpec_err hkw (fun ch g hg => by
        obtain ⟨k, hk'⟩ := hkf g hg
        exact (nocacheB_kind hk' ch).2) bs n chunks pe h1 h2

/-- the kinds of the folded trees of an accepted SELECT without alias references -/
theorem folded_kinds_af {pf : Bytes → F64} {toks : Toks} {s : SelectS} (hplan : planStage pf toks = .ok (.select s))
    (haf : afStmt s = true) (hsw : sideOkD s.where_ = true)
    (hsf : ∀ e ∈ s.fields, sideOkD e = true ∧ noSiteAggr e = true) {f : FoldedSelect} (hf : foldSelect s = .ok f) :
    kindOf f.where_ = some .bool ∧ ∀ g ∈ selFields s f, ∃ k, kindOf g.expr = some k := by
  obtain ⟨_, _, hw, hfs⟩ := foldSelect_af haf hf
  refine ⟨Fold.optimize_kind hw (accepted_select_where_kind_alias hplan hsw), fun g hg => ?_⟩
  unfold selFields at hg
  obtain ⟨⟨nm, e'⟩, hp, rfl⟩ := List.mem_map.mp hg
  obtain ⟨e, he, hopt⟩ := Kvql.Cache.Rows.mem_left hfs e' (List.of_mem_zip hp).2
  obtain ⟨k, hk, _⟩ := accepted_select_field_kind_alias hplan e he (hsf e he).1 (hsf e he).2
  exact ⟨k, Fold.optimize_kind hopt hk⟩

theorem runStmt_no_ot_af {pf : Bytes → F64} {toks : Toks} {s : SelectS} (hplan : planStage pf toks = .ok (.select s))
    (hnoaggr : finalPlanCheck s = .ok false) (haf : afStmt s = true) (hsw : sideOkD s.where_ = true)
    (hsf : ∀ e ∈ s.fields, sideOkD e = true ∧ noSiteAggr e = true)
    (store : Store) (kind : PollKind) (hk : kind = .next ∨ store.Sorted) (bs : Nat) (hbs : 1 ≤ bs) (cache : Bool)
    (fl : Fail) (h : (runStmt (.select s) store kind bs cache).fail = some fl) : ¬ OpFail fl := by
  obtain ⟨f, hf⟩ := foldSelect_total s
  obtain ⟨hkw, hkf⟩ := folded_kinds_af hplan haf hsw hsf hf
  exact runStmt_no_ot_of_kinds hnoaggr hf (aliasOK_of_af haf hf) hkw hkf store kind hk bs hbs cache fl h

/-- DELETE: the filter is evaluated chunk-wise through `ExecuteBatch` in either polling mode; an accepted
    DELETE (within `sideOk`) never ends with an operand-type failure -/
theorem runStmt_delete_no_ot {pf : Bytes → F64} {toks : Toks} {pos wpos : Nat} {w : Expr} {lim : Option LimitS}
    (hplan : planStage pf toks = .ok (.delete pos wpos w lim)) (hside : sideOk w = true)
    (store : Store) (kind : PollKind) (bs : Nat) (cache : Bool)
    (fl : Fail) (h : (runStmt (.delete pos wpos w lim) store kind bs cache).fail = some fl) : ¬ OpFail fl := by
  intro hfl
  have haf := Kvql.Proofs.RunWrite.accepted_delete_aliasFree hplan
  have hk := accepted_delete_where_kind hplan haf hside
  unfold runStmt at h
  split at h
  · simp only [rejected, Option.some.injEq] at h
    subst h
    rcases hfl with h | h <;> cases h
  · unfold runDelete at h
    cases hfw : Fold.optimize w with
    | error site =>
      simp only [hfw, Option.some.injEq] at h
      subst h
      rcases hfl with h | h <;> cases h
    | ok fw =>
      simp only [hfw] at h
      have hcls := writeOutcome_opFail hfl h
      have hafw : aliasFree fw = true := by
        obtain ⟨fw', n, hb⟩ := Fold.optimizeBoth_total w
        have := Kvql.Proofs.Run.optimize_of_both hb
        rw [hfw] at this
        injection this with this
        subst this
        exact optimizeBoth_af haf hb
      have hkfw := Fold.optimize_kind hfw hk
      have hwf : WF [] fw := by
        intro p hp
        rw [refs_of_af _ hafw] at hp
        cases hp
      rw [batchVerdicts_spec (A := []) functional_nil hwf cache] at hcls
      cases hfe : firstErr (batchTable fw (innerChunks (nodeOf (Scan.optimize fw)) bs store)) with
      | none => rw [hfe] at hcls; cases hcls
      | some pe =>
        rw [hfe] at hcls
        simp only [Option.map_some, Option.some.injEq] at hcls
        have hop : OpErr pe := perrFail_opFail (hcls ▸ hfl)
        obtain ⟨ch, hch⟩ := batchTable_err hfe hop
        exact filterChunkSpec_kind hkfw ch pe hch hop

/-! ### the batch hypotheses, from the parsed statement to the folded one -/

theorem pairVal_fold {w fw : Expr} (hfw : Fold.optimize w = .ok fw) {kv : Kvql.Pair} {v : Value} (h : PairVal w v kv) :
    ∃ v', PairVal fw v' kv ∧ Kvql.Rel v' v := Fold.optimize_semB hfw kv Ctx.off rfl v h

theorem pairVal_fold_bool {w fw : Expr} (hfw : Fold.optimize w = .ok fw) {kv : Kvql.Pair} {b : Bool}
    (h : PairVal w (.bool b) kv) : PairVal fw (.bool b) kv := by
  obtain ⟨v', h1, h2⟩ := pairVal_fold hfw h
  have : v' = .bool b := by
    rcases h2 with rfl | ⟨x, _, hx⟩
    · rfl
    · cases hx
  rw [← this]; exact h1

theorem pairVal_of_fst {e : Expr} {kv : Kvql.Pair} {v : Value} (h : (execBatch e [kv] Ctx.off).1 = .ok [v]) :
    PairVal e v kv := Kvql.Proofs.C03.batch_ok_ctx e Ctx.off rfl [kv] (by simp) h

/-- the folded WHERE under the vector evaluator, from the parsed one: still `vecOk`, still a Boolean on
    every stored pair, and the row evaluator accepts the same stored pairs -/
theorem where_batch_fold {w fw : Expr} (hfw : Fold.optimize w = .ok fw) (hok : w.vecOk = true) {store : Store}
    (hbatch : ∀ p ∈ store, ∃ b, (execBatch w [⟨p.1, p.2⟩] Ctx.off).1 = .ok [.bool b]) :
    fw.vecOk = true ∧ (∀ p ∈ store, ∃ b, (execBatch fw [⟨p.1, p.2⟩] Ctx.off).1 = .ok [.bool b]) ∧
    (∀ p ∈ store, Select.accepted fw p = Select.accepted w p) := by
  have hok' := Fold.optimize_vecOk hfw hok
  refine ⟨hok', fun p hp => ?_, fun p hp => ?_⟩
  · obtain ⟨b, hb⟩ := hbatch p hp
    have := pairVal_fold_bool hfw (pairVal_of_fst hb)
    exact ⟨b, by unfold PairVal at this; rw [this]⟩
  · obtain ⟨b, hb⟩ := hbatch p hp
    have h1 : PairVal w (.bool b) (toKv p) := pairVal_of_fst hb
    rw [accepted_of_pairVal hok h1, accepted_of_pairVal hok' (pairVal_fold_bool hfw h1)]

/-- the batch hypotheses on the PARSED statement and a store: the vector evaluator, cache off, on each
    stored pair as a chunk of its own, gives a Boolean for the WHERE and — where the row evaluator accepts
    the pair — a value for every select field -/
structure BatchExecOK (s : SelectS) (store : Store) : Prop where
  filter : ∀ p ∈ store, ∃ b, PairVal s.where_ (.bool b) (toKv p)
  fields : ∀ p ∈ store, Select.accepted s.where_ p = true → ∀ e ∈ s.fields, ∃ v, PairVal e v (toKv p)

/-- one batch row against the parsed statement: column j is the vector evaluator's value of parsed field
    j on the pair — the same value, or the same text as `[]byte` where the un-folded tree yields a Go string -/
def RowOfB (s : SelectS) (p : SPair) (row : List Value) : Prop :=
  Rows (fun col e => ∃ v, PairVal e v (toKv p) ∧ Kvql.Rel col v) row s.fields

/-- **alias-free statements, batch mode: from the parsed statement to the folded one** -/
theorem folded_of_batchExecOK {s : SelectS} (haf : afStmt s = true) {f : FoldedSelect} (hf : foldSelect s = .ok f)
    (hnames : s.fieldNames.length = s.fields.length) (hok : s.where_.vecOk = true) {store : Store}
    (h : BatchExecOK s store) :
    f.where_.vecOk = true ∧ BatchEvalOK s f store ∧
    (∀ p ∈ store, Select.accepted f.where_ p = Select.accepted s.where_ p) ∧
    (∀ p ∈ store, Select.accepted s.where_ p = true → RowOfB s p (batchRow (selFields s f) p)) := by
  obtain ⟨_, _, hw, hfs⟩ := foldSelect_af haf hf
  have hlen : f.fields.length = s.fields.length := hfs.length_eq
  have hexprs : (selFields s f).map (·.expr) = f.fields := selFields_exprs (by omega)
  have hok' := Fold.optimize_vecOk hw hok
  have hacc : ∀ p ∈ store, Select.accepted f.where_ p = Select.accepted s.where_ p := by
    intro p hp
    obtain ⟨b, hb⟩ := h.filter p hp
    rw [accepted_of_pairVal hok hb, accepted_of_pairVal hok' (pairVal_fold_bool hw hb)]
  refine ⟨hok', ⟨fun p hp => ?_, fun p hp ha g hg => ?_⟩, hacc, fun p hp ha => ?_⟩
  · obtain ⟨b, hb⟩ := h.filter p hp
    exact ⟨b, pairVal_fold_bool hw hb⟩
  · rw [hacc p hp] at ha
    have hge : g.expr ∈ f.fields := by rw [← hexprs]; exact List.mem_map.mpr ⟨g, hg, rfl⟩
    obtain ⟨e, he, hopt⟩ := Kvql.Cache.Rows.mem_left hfs g.expr hge
    obtain ⟨v, hv⟩ := h.fields p hp ha e he
    obtain ⟨v', hv', _⟩ := pairVal_fold hopt hv
    exact ⟨v', hv'⟩
  · have hmap : batchRow (selFields s f) p = f.fields.map (batchVal · p) := by
      unfold batchRow
      rw [← hexprs, List.map_map]; rfl
    unfold RowOfB
    rw [hmap]
    apply rows_map_left
    refine rows_weaken hfs ?_
    intro e' e he hopt
    obtain ⟨v, hv⟩ := h.fields p hp ha e he
    obtain ⟨v', hv', hrel⟩ := pairVal_fold hopt hv
    refine ⟨v, hv, ?_⟩
    unfold batchVal
    rw [batchValKv_of_pairVal hv']
    exact hrel

/-- the folded fields of an alias-free statement are `vecOk` when the parsed ones are -/
theorem selFields_vecOk_af {s : SelectS} (haf : afStmt s = true) {f : FoldedSelect} (hf : foldSelect s = .ok f)
    (hvf : ∀ e ∈ s.fields, e.vecOk = true) : ∀ g ∈ selFields s f, g.expr.vecOk = true := by
  obtain ⟨_, _, _, hfs⟩ := foldSelect_af haf hf
  intro g hg
  unfold selFields at hg
  obtain ⟨⟨nm, e'⟩, hp, rfl⟩ := List.mem_map.mp hg
  obtain ⟨e, he, hopt⟩ := Kvql.Cache.Rows.mem_left hfs e' (List.of_mem_zip hp).2
  exact Fold.optimize_vecOk hopt (hvf e he)

/-! ### `BatchExecOK` as a check -/

def batchExecOKb (s : SelectS) (store : Store) : Bool :=
  store.all (fun p => isBoolBatch (execBatch s.where_ [toKv p] Ctx.off).1 &&
    (!Select.accepted s.where_ p || s.fields.all (fun e => isOneBatch (execBatch e [toKv p] Ctx.off).1)))

theorem batchExecOK_of_check {s : SelectS} {store : Store} (h : batchExecOKb s store = true) : BatchExecOK s store := by
  unfold batchExecOKb at h
  rw [List.all_eq_true] at h
  refine ⟨fun p hp => ?_, fun p hp ha e he => ?_⟩
  · have := h p hp
    simp only [Bool.and_eq_true] at this
    have h1 := this.1
    unfold isBoolBatch at h1
    split at h1
    · rename_i b hb
      exact ⟨b, pairVal_of_fst hb⟩
    · cases h1
  · have := h p hp
    simp only [Bool.and_eq_true, Bool.or_eq_true, Bool.not_eq_true', List.all_eq_true] at this
    rcases this.2 with h1 | h1
    · rw [ha] at h1; cases h1
    · have h2 := h1 e he
      unfold isOneBatch at h2
      split at h2
      · rename_i v hv
        exact ⟨v, pairVal_of_fst hv⟩
      · cases h2

/-- the hypothesis of the `select *` batch theorems, on the parsed WHERE, as a check -/
def batchBoolOnW (w : Expr) (store : Store) : Bool :=
  store.all (fun p => isBoolBatch (execBatch w [⟨p.1, p.2⟩] Ctx.off).1)

theorem batchBoolOnW_sound {w : Expr} {store : Store} (h : batchBoolOnW w store = true) :
    ∀ p ∈ store, ∃ b, (execBatch w [⟨p.1, p.2⟩] Ctx.off).1 = .ok [.bool b] := by
  intro p hp
  unfold batchBoolOnW at h
  rw [List.all_eq_true] at h
  have h1 := h p hp
  unfold isBoolBatch at h1
  split at h1
  · rename_i b hb
    exact ⟨b, hb⟩
  · cases h1

end Kvql.Proofs.FoldVecRun
