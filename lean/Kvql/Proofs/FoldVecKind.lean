/-
  FOLDING PRESERVES KINDS.  The README typing `kindOf` (Proofs/ExecTyping.lean; the typing C14's
  soundness theorems speak about) is preserved by `Optimize()`: a tree of kind `k` is rewritten to a
  tree of kind `k`.  Instance `kindSys` of the abstract recursion of Proofs/FoldVecGen.lean with
      F e e' := FoldRel e e' ∧ (∀ k, kindOf e = some k → kindOf e' = some k)
  (`FoldRel` supplies what the congruence for `in` / `between` needs: a list stays the same list, a
  list-typed call / alias stays a call / alias).
  The folding steps: the literal that replaces a node has the kind of the node because the node's value
  has it (C14 `progress_row` on the empty pair) and the literal is built from that value.
-/
import Kvql.Proofs.FoldVecGen
import Kvql.Proofs.C14Exec

namespace Kvql
open Generated
namespace Fold

/-- `e'` is typable wherever `e` is, with the same kind -/
def KindPres (e e' : Expr) : Prop := ∀ k, kindOf e = some k → kindOf e' = some k

theorem KindPres.refl (e : Expr) : KindPres e e := fun _ h => h
theorem KindPres.trans {a b c : Expr} (h1 : KindPres a b) (h2 : KindPres b c) : KindPres a c :=
  fun k h => h2 k (h1 k h)

theorem KindPres.eq_of_some {e e' : Expr} (h : KindPres e e') {k : Kind} (hk : kindOf e = some k) :
    kindOf e' = kindOf e := by rw [hk]; exact h k hk

/-! ### literals -/

theorem kindOf_lit {k : Expr} (h : isLit4 k = true) {kk : Kind} (hv : (litVal k).hasKind kk = true) :
    kindOf k = some kk := by
  cases k <;> simp [isLit4] at h <;> cases kk <;> simp [litVal, Value.hasKind] at hv <;> simp [kindOf]

theorem foldBinary_const {n k : Expr} (h : foldBinary n = .ok (some k)) : ∃ ret, constExec n = .ok ret := by
  cases hk : constExec n with
  | ok ret => exact ⟨ret, rfl⟩
  | error e =>
    exfalso
    cases n with
    | binop p op l r => cases op <;> simp [foldBinary, hk, pure, Except.pure] at h
    | _ => simp [foldBinary, pure, Except.pure] at h

theorem foldCall_const {n k : Expr} (h : foldCall n = .ok (some k)) : ∃ ret, constExec n = .ok ret := by
  cases hk : constExec n with
  | ok ret => exact ⟨ret, rfl⟩
  | error e =>
    exfalso
    simp only [foldCall, hk] at h
    split at h <;> simp [pure, Except.pure] at h

/-- a node replaced by the literal of its value keeps its kind -/
theorem lit_kind {n k : Expr} (hk : isLit4 k = true) (hrow : FoldRel n k) {ret : Value} (hc : constExec n = .ok ret) :
    KindPres n k := by
  intro kk hkk
  have hx : exec n emptyPair Ctx.none = (.ok ret, (exec n emptyPair Ctx.none).2) := by
    unfold constExec at hc
    rw [← hc]
  have hkind := (Kvql.Proofs.C14.progress_row n kk hkk emptyPair Ctx.none rfl).1 ret _ hx
  obtain ⟨v', hv', r⟩ := hrow.sem emptyPair Ctx.none rfl ret (by rw [← constExec_eq]; exact hc)
  rw [ev_lit hk] at hv'
  cases hv'
  exact kindOf_lit hk (by rw [r.hasKind_congr]; exact hkind)

/-! ### binary nodes -/

theorem kindOf_binop_left {p : Nat} {op : Op} {l r : Expr} {k : Kind} (h : kindOf (.binop p op l r) = some k) :
    ∃ kl, kindOf l = some kl := by
  cases hkl : kindOf l with
  | some kl => exact ⟨kl, rfl⟩
  | none =>
    exfalso
    rw [kindOf.eq_def] at h
    simp only [hkl] at h
    cases op <;> simp [isScalar] at h
    all_goals (split at h <;> simp at h)

theorem kindOf_binop_right {p : Nat} {op : Op} {l r : Expr} {k : Kind} (h : kindOf (.binop p op l r) = some k)
    (hr : isListNode r = false) : ∃ kr, kindOf r = some kr := by
  cases hkr : kindOf r with
  | some kr => exact ⟨kr, rfl⟩
  | none =>
    exfalso
    rw [kindOf.eq_def] at h
    simp only [hkr] at h
    cases op <;> simp [isScalar] at h
    case eq => obtain ⟨h1, h2⟩ := h.1; rw [h2] at h1; simp at h1
    case neq => obtain ⟨h1, h2⟩ := h.1; rw [h2] at h1; simp at h1
    case gt => obtain ⟨h1, h2⟩ := h.1; rw [h2] at h1; simp at h1
    case gte => obtain ⟨h1, h2⟩ := h.1; rw [h2] at h1; simp at h1
    case lt => obtain ⟨h1, h2⟩ := h.1; rw [h2] at h1; simp at h1
    case lte => obtain ⟨h1, h2⟩ := h.1; rw [h2] at h1; simp at h1
    all_goals (cases r <;> simp [isListNode] at hr <;> simp at h)

/-- the kind of a binary node is a function of the operands' kinds — and of the right operand as a
    tree for `in` / `between` -/
theorem kindOf_binop_congr_left {p : Nat} {op : Op} {l l' : Expr} (r : Expr) (h : kindOf l' = kindOf l) :
    kindOf (.binop p op l' r) = kindOf (.binop p op l r) := by
  conv => lhs; rw [kindOf.eq_def]
  conv => rhs; rw [kindOf.eq_def]
  simp only [h]

theorem kindOf_in_callref {p : Nat} {l r : Expr} (hr : isCallRefNode r = true) :
    kindOf (.binop p .in_ l r) =
      if (kindOf l == some .text && kindOf r == some .listText) || (kindOf l == some .num && kindOf r == some .listNum)
      then some .bool else none := by
  cases r <;> simp [isCallRefNode] at hr <;> (conv => lhs; rw [kindOf])

theorem kindOf_binop_congr_right {p : Nat} {op : Op} (l : Expr) {r r' : Expr} (hop : op ≠ .in_ ∧ op ≠ .between)
    (h : kindOf r' = kindOf r) : kindOf (.binop p op l r') = kindOf (.binop p op l r) := by
  conv => lhs; rw [kindOf.eq_def]
  conv => rhs; rw [kindOf.eq_def]
  cases op <;> simp only [h] <;> simp at hop

theorem kp_binop (p : Nat) (op : Op) {l l' r r' : Expr} (hl : KindPres l l') (hr : KindPres r r') (sr : ShapeOK r r') :
    KindPres (.binop p op l r) (.binop p op l' r') := by
  intro k hk
  obtain ⟨kl, hkl⟩ := kindOf_binop_left hk
  have el := hl.eq_of_some hkl
  by_cases hlist : isListNode r = true
  · have := sr.1 hlist
    subst this
    rw [kindOf_binop_congr_left _ el]; exact hk
  · have hlist' : isListNode r = false := by simpa using hlist
    obtain ⟨kr, hkr⟩ := kindOf_binop_right hk hlist'
    have er := hr.eq_of_some hkr
    by_cases hop : op ≠ .in_ ∧ op ≠ .between
    · rw [kindOf_binop_congr_left _ el, kindOf_binop_congr_right _ hop er]; exact hk
    · have hop' : op = .in_ ∨ op = .between := by
        cases op <;> simp at hop ⊢
      rcases hop' with rfl | rfl
      · -- `in` over a call / alias
        by_cases hcr : isCallRefNode r = true
        · rw [kindOf_in_callref hcr] at hk
          have hkr' : kr = .listText ∨ kr = .listNum := by
            rw [hkr] at hk
            by_cases h1 : kr = .listText
            · exact .inl h1
            · by_cases h2 : kr = .listNum
              · exact .inr h2
              · simp [h1, h2] at hk
          have hty : retType r = tyTLIST := by
            rw [retType_of_kind r kr hkr]
            rcases hkr' with rfl | rfl <;> rfl
          rw [kindOf_in_callref (sr.2 hcr hty), el, er]
          exact hk
        · exfalso
          cases r <;> simp [isListNode] at hlist' <;> simp [isCallRefNode] at hcr <;> simp [kindOf] at hk
      · exfalso
        cases r <;> simp [isListNode] at hlist' <;> simp [kindOf] at hk

/-! ### calls -/

theorem isScalar_some {o : Option Kind} (h : isScalar o = true) : ∃ k, o = some k := by
  cases o with
  | none => simp [isScalar] at h
  | some k => exact ⟨k, rfl⟩

theorem isList_some {o : Option Kind} (h : isList o = true) : ∃ k, o = some k := by
  cases o with
  | none => simp [isList] at h
  | some k => exact ⟨k, rfl⟩

theorem kp_beq {a a' : Expr} (h : KindPres a a') {k : Kind} (hk : (kindOf a == some k) = true) :
    (kindOf a' == some k) = true := by
  have : kindOf a = some k := by simpa using hk
  simp [h k this]

theorem kp_scalar {a a' : Expr} (h : KindPres a a') (hk : isScalar (kindOf a) = true) : isScalar (kindOf a') = true := by
  obtain ⟨k, hk'⟩ := isScalar_some hk
  rw [h.eq_of_some hk']; exact hk

theorem kp_list {a a' : Expr} (h : KindPres a a') (hk : isList (kindOf a) = true) : isList (kindOf a') = true := by
  obtain ⟨k, hk'⟩ := isList_some hk
  rw [h.eq_of_some hk']; exact hk

theorem kp_allScalar : ∀ {args args' : List Expr}, Rows KindPres args args' → allScalar args = true → allScalar args' = true
  | _, _, .nil, _ => by simp [allScalar]
  | _, _, .cons ha hr, h => by
    simp only [allScalar, Bool.and_eq_true] at h ⊢
    exact ⟨kp_scalar ha h.1, kp_allScalar hr h.2⟩

theorem argsOk_pres (b : Body) {args args' : List Expr} (h : Rows KindPres args args') (hok : argsOk b args = true) :
    argsOk b args' = true := by
  match args, args', h with
  | [], _, .nil => exact hok
  | [a], _, .cons (b := a') ha .nil =>
    cases b <;> simp only [argsOk, Bool.and_eq_true, Bool.or_eq_true] at hok ⊢ <;>
      first
      | exact hok
      | exact kp_beq ha hok
      | exact kp_scalar ha hok
      | exact ⟨kp_beq ha hok.1, hok.2⟩
      | exact ⟨kp_scalar ha hok.1, hok.2⟩
      | (rcases hok with h1 | h1
         · exact .inl (kp_list ha h1)
         · exact .inr (kp_beq ha h1))
  | [a0, a1], _, .cons (b := b0) h0 (.cons (b := b1) h1 .nil) =>
    cases b <;> simp only [argsOk, allScalar, Bool.and_eq_true, Bool.or_eq_true, Bool.and_true] at hok ⊢ <;>
      first
      | exact hok
      | exact ⟨kp_beq h0 hok.1, kp_beq h1 hok.2⟩
      | exact ⟨kp_list h0 hok.1, kp_list h1 hok.2⟩
      | exact ⟨kp_beq h0 hok.1, kp_scalar h1 hok.2⟩
      | exact ⟨kp_scalar h0 hok.1, kp_scalar h1 hok.2⟩
  | a0 :: a1 :: a2 :: rest, _, .cons (b := b0) h0 (.cons (b := b1) h1 (.cons (b := b2) (bs := rest') h2 hr)) =>
    have hrest : Rows KindPres (a1 :: a2 :: rest) (b1 :: b2 :: rest') := .cons h1 (.cons h2 hr)
    cases rest with
    | nil =>
      cases hr
      cases b <;> simp only [argsOk, Bool.and_eq_true] at hok ⊢ <;>
        first
        | exact hok
        | exact ⟨⟨kp_beq h0 hok.1.1, kp_beq h1 hok.1.2⟩, kp_beq h2 hok.2⟩
        | exact ⟨kp_beq h0 hok.1, kp_allScalar hrest hok.2⟩
        | exact ⟨kp_scalar h0 hok.1, kp_allScalar hrest hok.2⟩
    | cons a3 rest2 =>
      cases hr with
      | cons h3 hr2 =>
        cases b <;> simp only [argsOk, Bool.and_eq_true] at hok ⊢ <;>
          first
          | exact hok
          | exact ⟨kp_beq h0 hok.1, kp_allScalar hrest hok.2⟩
          | exact ⟨kp_scalar h0 hok.1, kp_allScalar hrest hok.2⟩

theorem kp_call (p : Nat) (nm : Expr) {args args' : List Expr} (h : Rows KindPres args args') :
    KindPres (.call p nm args) (.call p nm args') := by
  intro k hk
  rw [kindOf] at hk ⊢
  rw [← Rows.length_eq h]
  cases hn : funcNameOf nm with
  | error e => simp [hn] at hk
  | ok fname =>
    simp only [hn] at hk ⊢
    cases hf : lookupFunc fname with
    | none => simp [hf] at hk
    | some fo =>
      simp only [hf] at hk ⊢
      split at hk
      · cases hk
      · split at hk
        · cases hk
        · rename_i h1 h2
          rw [if_neg h1, if_neg h2]
          cases hb : fo.body with
          | none => simp [hb] at hk
          | some b =>
            simp only [hb] at hk ⊢
            split at hk
            · rename_i hok
              rw [if_pos (argsOk_pres b h hok)]
              exact hk
            · cases hk

/-! ### re-association -/

theorem kindOf_add {p : Nat} {l r : Expr} {k : Kind} :
    kindOf (.binop p .add l r) = some k ↔
      (kindOf l = some .text ∧ kindOf r = some .text ∧ k = .text) ∨
      (kindOf l = some .num ∧ kindOf r = some .num ∧ k = .num) := by
  rw [kindOf]
  constructor
  · intro h
    split at h
    · rename_i h1
      simp only [Bool.and_eq_true, beq_iff_eq] at h1
      cases h
      exact .inl ⟨h1.1, h1.2, rfl⟩
    · split at h
      · rename_i _ h1
        simp only [Bool.and_eq_true, beq_iff_eq] at h1
        cases h
        exact .inr ⟨h1.1, h1.2, rfl⟩
      · cases h
  · rintro (⟨h1, h2, rfl⟩ | ⟨h1, h2, rfl⟩)
    · simp [h1, h2]
    · simp [h1, h2]

theorem kindOf_mul {p : Nat} {l r : Expr} {k : Kind} :
    kindOf (.binop p .mul l r) = some k ↔ kindOf l = some .num ∧ kindOf r = some .num ∧ k = .num := by
  rw [kindOf]
  constructor
  · intro h
    split at h
    · rename_i h1
      simp only [Bool.and_eq_true, beq_iff_eq] at h1
      cases h
      exact ⟨h1.1, h1.2, rfl⟩
    · cases h
  · rintro ⟨h1, h2, rfl⟩
    simp [h1, h2]

theorem kp_assoc (p q : Nat) {op : Op} (hop : op = .add ∨ op = .mul) (x c1 c2 : Expr) :
    KindPres (.binop p op (.binop q op x c1) c2) (.binop p op x (.binop p op c1 c2)) := by
  intro k hk
  rcases hop with rfl | rfl
  · rcases kindOf_add.mp hk with ⟨h1, h2, rfl⟩ | ⟨h1, h2, rfl⟩
    · rcases kindOf_add.mp h1 with ⟨h3, h4, _⟩ | ⟨_, _, h5⟩
      · exact kindOf_add.mpr (.inl ⟨h3, kindOf_add.mpr (.inl ⟨h4, h2, rfl⟩), rfl⟩)
      · cases h5
    · rcases kindOf_add.mp h1 with ⟨_, _, h5⟩ | ⟨h3, h4, _⟩
      · cases h5
      · exact kindOf_add.mpr (.inr ⟨h3, kindOf_add.mpr (.inr ⟨h4, h2, rfl⟩), rfl⟩)
  · obtain ⟨h1, h2, rfl⟩ := kindOf_mul.mp hk
    obtain ⟨h3, h4, _⟩ := kindOf_mul.mp h1
    exact kindOf_mul.mpr ⟨h3, kindOf_mul.mpr ⟨h4, h2, rfl⟩, rfl⟩

/-! ### tryOptimizeAndOr -/

theorem kindOf_andor {p : Nat} {op : Op} (hop : op = .and ∨ op = .or) {l r : Expr} {k : Kind}
    (h : kindOf (.binop p op l r) = some k) : kindOf l = some .bool ∧ kindOf r = some .bool ∧ k = .bool := by
  rcases hop with rfl | rfl <;> rw [kindOf] at h <;> split at h
  · rename_i h1
    simp only [Bool.and_eq_true, beq_iff_eq] at h1
    cases h
    exact ⟨h1.1, h1.2, rfl⟩
  · cases h
  · rename_i h1
    simp only [Bool.and_eq_true, beq_iff_eq] at h1
    cases h
    exact ⟨h1.1, h1.2, rfl⟩
  · cases h

theorem kindOf_mkBool (pos : Nat) (b : Bool) : kindOf (mkBool pos b) = some .bool := by simp [mkBool, kindOf]

theorem kp_andOr (e : Expr) : KindPres e (andOr e).1 := by
  cases e with
  | binop p op l r =>
    by_cases hop : op = .and ∨ op = .or
    · have hne : (op != .and && op != .or) = false := by rcases hop with h | h <;> subst h <;> rfl
      intro k hk
      obtain ⟨h1, h2, rfl⟩ := kindOf_andor hop hk
      rcases notBool_cases l with ⟨pl, dl, lv, rfl⟩ | hl
      · rcases notBool_cases r with ⟨pr, dr, rv, rfl⟩ | hr
        · rw [andOr_bothLit pl dl lv pr dr rv hne]
          split <;> exact kindOf_mkBool _ _
        · rw [andOr_leftLit pl dl lv hne hr]
          split <;> split <;> first | exact kindOf_mkBool _ _ | exact h2
      · rcases notBool_cases r with ⟨pr, dr, rv, rfl⟩ | hr
        · rw [andOr_rightLit pr dr rv hne hl]
          split <;> split <;> first | exact kindOf_mkBool _ _ | exact h1
        · rw [andOr_noLit hl hr]
          exact hk
    · have : (op != .and && op != .or) = true := by
        cases op <;> simp at hop <;> rfl
      simp only [andOr, this, if_true]
      exact .refl _
  | _ => simp only [andOr]; exact .refl _

/-! ### the instance -/

def kindSys : Sys where
  F := fun e e' => FoldRel e e' ∧ KindPres e e'
  S := fun e e' => Sem e e' ∧ KindPres e e'
  F_refl := fun e => ⟨.refl e, .refl e⟩
  F_trans := fun h1 h2 => ⟨h1.1.trans h2.1, h1.2.trans h2.2⟩
  S_of_F := fun h => ⟨h.1.sem, h.2⟩
  S_trans := fun h1 h2 => ⟨h1.1.trans h2.1, h1.2.trans h2.2⟩
  binop := fun p op _ _ _ _ hl hr => ⟨FoldRel.binop p op hl.1 hr.1, kp_binop p op hl.2 hr.2 hr.1.shape⟩
  call := fun p nm _ _ h =>
    ⟨FoldRel.call p nm (h.imp fun _ _ ⟨⟨hs, _⟩, ht⟩ => ⟨hs, ht⟩), kp_call p nm (h.imp fun _ _ ⟨⟨_, hk⟩, _⟩ => hk)⟩
  foldBinary := fun hl hr h =>
    let ⟨hrow, hk⟩ := foldBinary_ok hl hr h
    let ⟨_, hc⟩ := foldBinary_const h
    ⟨hrow, lit_kind hk hrow hc⟩
  foldCall := fun hl h =>
    let ⟨hrow, hk⟩ := foldCall_ok hl h
    let ⟨_, hc⟩ := foldCall_const h
    ⟨hrow, lit_kind hk hrow hc⟩
  assoc := fun p q _ x c1 c2 hop h => ⟨assoc_ok p q hop h, kp_assoc p q hop x c1 c2⟩
  andOr := fun e => ⟨(andOr_ok e).sem, kp_andOr e⟩

/-- **folding preserves kinds**: the tree `Optimize()` returns is typable wherever the original is, with
    the same kind -/
theorem optimize_kind {e e' : Expr} (h : optimize e = .ok e') {k : Kind} (hk : kindOf e = some k) :
    kindOf e' = some k := (kindSys.optimize_ok h).2 k hk

/-- … and so is the state in which the node that was the root is left (alias references point at it) -/
theorem optimizeNode_kind {e n : Expr} (h : optimizeNode e = .ok n) {k : Kind} (hk : kindOf e = some k) :
    kindOf n = some k := (kindSys.optimizeNode_ok h).2 k hk

theorem optimizeBoth_kind {e r n : Expr} (h : optimizeBoth e = .ok (r, n)) {k : Kind} (hk : kindOf e = some k) :
    kindOf r = some k ∧ kindOf n = some k :=
  ⟨(kindSys.optimizeBoth_ok h).1.2 k hk, (kindSys.optimizeBoth_ok h).2.2 k hk⟩

end Fold
end Kvql
