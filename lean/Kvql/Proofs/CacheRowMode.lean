/-
  C05 (b), (d), row mode: the drain of `ProjectionPlan.Next` over a scan equals a cache-free
  specification (`rowsSpec`), with the cache on (under the alias-table hypotheses) and with it off
  (unconditionally).  Hence the cache is invisible, and every row has the announced shape.
  The statement FAILS for the code without the `Clear` in `FilterExec.Filter` (`noClear_counterexample`).
-/
import Kvql.Proofs.CacheRow

namespace Kvql.Cache
open Kvql Kvql.Project

/-! ### the cache-free specification of row mode -/

/-- the filter's verdict on a pair, cache off -/
def filterSpec (w : Expr) (kv : Pair) : Except PErr Bool :=
  match nocache w kv with
  | .error e => .error (.eval e)
  | .ok (.bool b) => .ok b
  | .ok _ => .error .whereNotBool

/-- the row of a pair: per field its cache-free value (of a Go type `processProjection` supports) -/
def rowSpec : List Field → Pair → Except PErr Row
  | [], _ => .ok []
  | f :: fs, kv =>
    match nocache f.expr kv with
    | .error e => .error (.eval e)
    | .ok v =>
      if !rowSupported v then .error .resultType
      else
        match rowSpec fs kv with
        | .error e => .error e
        | .ok vs => .ok (v :: vs)

/-- the next accepted pair and what is left -/
def scanSpec (w : Expr) : List Pair → Except PErr (Option Pair × List Pair)
  | [] => .ok (none, [])
  | kv :: rest =>
    match filterSpec w kv with
    | .error e => .error e
    | .ok true => .ok (some kv, rest)
    | .ok false => scanSpec w rest

/-- the rows of `select <fields> where <w>` over the pairs a scan yields: the accepted pairs in order,
    each projected, up to the first failure -/
def rowsSpec (w : Expr) (fields : List Field) : List Pair → Out
  | [] => ⟨[], none⟩
  | kv :: rest =>
    match filterSpec w kv with
    | .error e => ⟨[], some e⟩
    | .ok false => rowsSpec w fields rest
    | .ok true =>
      match rowSpec fields kv with
      | .error e => ⟨[], some e⟩
      | .ok row => ⟨row :: (rowsSpec w fields rest).rows, (rowsSpec w fields rest).err⟩

theorem scanSpec_length {w : Expr} : ∀ {ps : List Pair} {kv : Pair} {rest : List Pair},
    scanSpec w ps = .ok (some kv, rest) → rest.length < ps.length
  | [], _, _, h => by simp [scanSpec] at h
  | p :: ps, kv, rest, h => by
    rw [scanSpec] at h
    split at h
    · cases h
    · simp at h; obtain ⟨_, rfl⟩ := h; simp
    · have := scanSpec_length h; simp; omega

theorem rowsSpec_scan (w : Expr) (fields : List Field) : ∀ (ps : List Pair),
    rowsSpec w fields ps =
      match scanSpec w ps with
      | .error e => ⟨[], some e⟩
      | .ok (none, _) => ⟨[], none⟩
      | .ok (some kv, rest) =>
        match rowSpec fields kv with
        | .error e => ⟨[], some e⟩
        | .ok row => ⟨row :: (rowsSpec w fields rest).rows, (rowsSpec w fields rest).err⟩
  | [] => by simp [rowsSpec, scanSpec]
  | p :: ps => by
    rw [rowsSpec, scanSpec]
    cases hf : filterSpec w p with
    | error e => rfl
    | ok b =>
      cases b
      · simp only; exact rowsSpec_scan w fields ps
      · rfl

/-! ### hypotheses on the select list -/

/-- a select field that is the first of its name evaluates, cache off, like every target the alias
    table has for that name (row and batch).  True when the target IS the field's expression, which is
    what the checker builds; constant folding may replace the field's root afterwards (C04) -/
def FieldsAgreeFrom (A : Aliases) : List Bytes → List Field → Prop
  | _, [] => True
  | seen, f :: fs =>
    (seen.contains f.name = false → ∀ t, (f.name, t) ∈ A →
      (∀ kv, nocache t kv = nocache f.expr kv) ∧ (∀ ch, nocacheB t ch = nocacheB f.expr ch)) ∧
    FieldsAgreeFrom A (seen ++ [f.name]) fs

def FieldsAgree (A : Aliases) (fields : List Field) : Prop := FieldsAgreeFrom A [] fields

def FieldsWF (A : Aliases) (fields : List Field) : Prop := ∀ f ∈ fields, WF A f.expr

/-! ### cache off: the drain IS the specification -/

theorem filterRow_off (b : Bool) (w : Expr) (kv : Pair) {c : Ctx} (hc : c.enable = false) :
    filterRowG b w kv c = (filterSpec w kv, c) := by
  unfold filterRowG filterSpec
  have : (if b = true then c.clear else c) = c := by split <;> simp [clear_off hc]
  rw [this, nocache_eq hc]
  cases nocache w kv with
  | error e => rfl
  | ok v => cases v <;> rfl

theorem scanNext_off (b : Bool) (w : Expr) : ∀ (ps : List Pair) {c : Ctx}, c.enable = false →
    scanNextG b w ps c = (scanSpec w ps, c)
  | [], c, _ => rfl
  | p :: ps, c, hc => by
    rw [scanNextG, scanSpec, filterRow_off b w p hc]
    cases hf : filterSpec w p with
    | error e => rfl
    | ok v => cases v <;> simp [scanNext_off b w ps hc]

theorem projectRow_off : ∀ (seen : List Bytes) (fields : List Field) (kv : Pair) {c : Ctx}, c.enable = false →
    projectRowFrom seen fields kv c = (rowSpec fields kv, c)
  | _, [], _, _, _ => rfl
  | seen, f :: fs, kv, c, hc => by
    rw [projectRowFrom, rowSpec]
    have hg : fieldRow seen f kv c = (nocache f.expr kv, c) := by
      unfold fieldRow
      have : (if seen.contains f.name = true then none else c.getFieldResult f.name) = none := by
        split <;> simp [Ctx.getFieldResult, hc]
      rw [this]; exact nocache_eq hc
    rw [hg]
    cases nocache f.expr kv with
    | error e => rfl
    | ok v =>
      simp only
      split
      · rfl
      · rw [projectRow_off (seen ++ [f.name]) fs kv hc]
        cases rowSpec fs kv <;> rfl

theorem drainRowFuel_off (b : Bool) (w : Expr) (fields : List Field) : ∀ (n : Nat) (ps : List Pair) {c : Ctx},
    c.enable = false → ps.length < n → drainRowFuel b w fields n ps c = (rowsSpec w fields ps, c)
  | 0, _, _, _, h => by omega
  | n + 1, ps, c, hc, hn => by
    rw [drainRowFuel, nextRowG, clear_off hc, scanNext_off b w ps hc, rowsSpec_scan]
    cases hs : scanSpec w ps with
    | error e => rfl
    | ok r =>
      obtain ⟨o, rest⟩ := r
      cases o with
      | none => rfl
      | some kv =>
        simp only [projectRow, projectRow_off [] fields kv hc]
        cases hr : rowSpec fields kv with
        | error e => rfl
        | ok row =>
          have := scanSpec_length hs
          simp only
          rw [drainRowFuel_off b w fields n rest hc (by omega)]

/-! ### cache on -/

section on
variable {A : Aliases} (hfun : Functional A)
include hfun

theorem filterRow_on {w : Expr} (hw : WF A w) (kv : Pair) {c : Ctx} (hon : CtxOn c) :
    (filterRowG true w kv c).1 = filterSpec w kv ∧ CtxOn (filterRowG true w kv c).2 ∧
      CacheOK A (filterRowG true w kv c).2 kv := by
  obtain ⟨h1, h2, h3⟩ := row_cache_ok_cleared hfun w hw kv c hon
  unfold filterRowG filterSpec
  simp only [↓reduceIte]
  rcases hx : exec w kv c.clear with ⟨r, c'⟩
  rw [hx] at h1 h2 h3
  simp only at h1 h2 h3
  rw [← h1]
  cases r with
  | error e => exact ⟨rfl, h2, h3⟩
  | ok v => cases v <;> exact ⟨rfl, h2, h3⟩

theorem scanNext_on {w : Expr} (hw : WF A w) : ∀ (ps : List Pair) {c : Ctx}, CtxOn c →
    (scanNextG true w ps c).1 = scanSpec w ps ∧ CtxOn (scanNextG true w ps c).2 ∧
      ∀ kv rest, scanSpec w ps = .ok (some kv, rest) → CacheOK A (scanNextG true w ps c).2 kv
  | [], c, hon => ⟨rfl, hon, fun kv rest h => by simp [scanSpec] at h⟩
  | p :: ps, c, hon => by
    obtain ⟨h1, h2, h3⟩ := filterRow_on hfun hw p hon
    rw [scanNextG, scanSpec]
    rcases hx : filterRowG true w p c with ⟨r, c'⟩
    rw [hx] at h1 h2 h3
    simp only at h1 h2 h3
    rw [← h1]
    cases r with
    | error e => exact ⟨rfl, h2, fun kv rest h => by cases h⟩
    | ok v =>
      cases v
      · exact scanNext_on hw ps h2
      · refine ⟨rfl, h2, fun kv rest h => ?_⟩
        simp at h; obtain ⟨rfl, _⟩ := h; exact h3

theorem projectRow_on : ∀ (seen : List Bytes) (fields : List Field), FieldsWF A fields → FieldsAgreeFrom A seen fields →
    ∀ (kv : Pair) {c : Ctx}, CtxOn c → CacheOK A c kv →
      (projectRowFrom seen fields kv c).1 = rowSpec fields kv ∧ CtxOn (projectRowFrom seen fields kv c).2
  | _, [], _, _, _, _, hon, _ => ⟨rfl, hon⟩
  | seen, f :: fs, hwf, hag, kv, c, hon, hok => by
    obtain ⟨hag1, hag2⟩ := hag
    have hwf' : FieldsWF A fs := fun g hg => hwf g (by simp [hg])
    rw [projectRowFrom, rowSpec]
    -- the value and the context after the field
    have key : ∃ c1, CtxOn c1 ∧ CacheOK A c1 kv ∧ fieldRow seen f kv c = (nocache f.expr kv, c1) := by
      unfold fieldRow
      cases hg : (if seen.contains f.name = true then none else c.getFieldResult f.name) with
      | some v =>
        simp only
        split at hg
        · cases hg
        · rename_i hs
          have hs' : seen.contains f.name = false := by simpa using hs
          have hg' : assocGet c.fieldCache f.name = some v := by
            simpa [Ctx.getFieldResult, hon.2] using hg
          obtain ⟨t, hA, hv⟩ := hok f.name v hg'
          refine ⟨c.updateHit, hon.updateHit, hok.updateHit, ?_⟩
          rw [← (hag1 hs' t hA).1 kv, hv]
      | none =>
        simp only
        obtain ⟨h1, h2, h3⟩ := row_cache_ok hfun f.expr (hwf f (by simp)) kv c hon hok
        exact ⟨(exec f.expr kv c).2, h2, h3, by rw [← h1]⟩
    obtain ⟨c1, hon1, hok1, hkey⟩ := key
    rw [hkey]
    cases nocache f.expr kv with
    | error e => exact ⟨rfl, hon1⟩
    | ok v =>
      simp only
      split
      · exact ⟨rfl, hon1⟩
      · obtain ⟨ih1, ih2⟩ := projectRow_on (seen ++ [f.name]) fs hwf' hag2 kv hon1 hok1
        rcases hx : projectRowFrom (seen ++ [f.name]) fs kv c1 with ⟨r, c2⟩
        rw [hx] at ih1 ih2
        simp only at ih1 ih2
        rw [← ih1]
        cases r <;> exact ⟨rfl, ih2⟩

theorem drainRowFuel_on {w : Expr} (hw : WF A w) {fields : List Field} (hwf : FieldsWF A fields)
    (hag : FieldsAgree A fields) : ∀ (n : Nat) (ps : List Pair) {c : Ctx},
    CtxOn c → ps.length < n → (drainRowFuel true w fields n ps c).1 = rowsSpec w fields ps
  | 0, _, _, _, h => by omega
  | n + 1, ps, c, hon, hn => by
    rw [drainRowFuel, nextRowG, rowsSpec_scan]
    obtain ⟨h1, h2, h3⟩ := scanNext_on hfun hw ps hon.clear
    rcases hx : scanNextG true w ps c.clear with ⟨r, c1⟩
    rw [hx] at h1 h2 h3
    simp only at h1 h2 h3
    rw [← h1]
    cases r with
    | error e => rfl
    | ok r =>
      obtain ⟨o, rest⟩ := r
      cases o with
      | none => rfl
      | some kv =>
        simp only
        obtain ⟨p1, p2⟩ := projectRow_on hfun [] fields hwf hag kv h2 (h3 kv rest h1.symm)
        unfold projectRow
        rcases hy : projectRowFrom [] fields kv c1 with ⟨r2, c2⟩
        rw [hy] at p1 p2
        simp only at p1 p2
        rw [← p1]
        cases r2 with
        | error e => rfl
        | ok row =>
          have := scanSpec_length h1.symm
          simp only
          rw [← drainRowFuel_on hw hwf hag n rest p2 (by omega)]

end on

/-! ### the theorems -/

/-- row mode with the cache ON is the cache-free specification -/
theorem drainRow_on_eq_spec {A : Aliases} (hfun : Functional A) {w : Expr} (hw : WF A w) {fields : List Field}
    (hwf : FieldsWF A fields) (hag : FieldsAgree A fields) (pairs : List Pair) {c : Ctx} (hon : CtxOn c) :
    (drainRow w fields pairs c).1 = rowsSpec w fields pairs :=
  drainRowFuel_on hfun hw hwf hag _ pairs hon (by omega)

/-- row mode with the cache OFF is the cache-free specification (no hypothesis) -/
theorem drainRow_off_eq_spec (w : Expr) (fields : List Field) (pairs : List Pair) {c : Ctx} (hc : c.enable = false) :
    (drainRow w fields pairs c).1 = rowsSpec w fields pairs := by
  unfold drainRow; rw [drainRowFuel_off true w fields _ pairs hc (by omega)]

/-- **row_mode_cache_invisible**: `scanNext` (Clear before each pair, filter, stop at the first accepted
    pair) followed by `processProjection`, drained, gives the same rows and the same error with the
    cache on as with the cache off, for every list of pairs — rejected pairs in between included -/
theorem row_mode_cache_invisible {A : Aliases} (hfun : Functional A) {w : Expr} (hw : WF A w) {fields : List Field}
    (hwf : FieldsWF A fields) (hag : FieldsAgree A fields) (pairs : List Pair) {con coff : Ctx}
    (hon : CtxOn con) (hoff : coff.enable = false) :
    (drainRow w fields pairs con).1 = (drainRow w fields pairs coff).1 := by
  rw [drainRow_on_eq_spec hfun hw hwf hag pairs hon, drainRow_off_eq_spec w fields pairs hoff]

/-! ### the counterexample without the Clear (the code before commit 374dfd6)

`select key as k where k = 'b'` over the pairs (a,1), (b,2): with the cache on, `k` is cached for the
rejected pair (a,1) and reused for (b,2), which is rejected too; with the cache off (b,2) is returned. -/

def cexFields : List Field := [⟨[107], .field 7 .key⟩]
def cexWhere : Expr := .binop 26 .eq (.ref 24 [107] (.field 7 .key)) (.str 28 [98])
def cexPairs : List Pair := [⟨[97], [49]⟩, ⟨[98], [50]⟩]

theorem noClear_counterexample :
    (drainRowNoClear cexWhere cexFields cexPairs (Ctx.new true)).1.rows.length = 0 ∧
    (drainRowNoClear cexWhere cexFields cexPairs (Ctx.new false)).1.rows.length = 1 ∧
    (drainRow cexWhere cexFields cexPairs (Ctx.new true)).1.rows.length = 1 := by
  refine ⟨by rfl, by rfl, by rfl⟩

/-- …although the statement meets every hypothesis of `row_mode_cache_invisible` -/
theorem noClear_counterexample_hyps :
    let A : Aliases := [([107], .field 7 .key)]
    Functional A ∧ WF A cexWhere ∧ FieldsWF A cexFields ∧ FieldsAgree A cexFields := by
  refine ⟨?_, ?_, ?_, ?_⟩
  · intro n t t' h1 h2; simp at h1 h2; rw [h1.2, h2.2]
  · intro p hp; simp [cexWhere, refs] at hp; simp [hp]
  · intro f hf; simp [cexFields] at hf; subst hf; intro p hp; simp [refs] at hp
  · refine ⟨fun _ t ht => ?_, trivial⟩
    simp at ht; subst ht; exact ⟨fun _ => rfl, fun _ => rfl⟩

/-! ### (d) the shape of a row -/

/-- `Shape kv fields row`: one column per field, in order, column j = the cache-free value of field j -/
inductive Shape (kv : Pair) : List Field → Row → Prop
  | nil : Shape kv [] []
  | cons {f : Field} {v : Value} {fs : List Field} {vs : Row} (h : nocache f.expr kv = .ok v) (t : Shape kv fs vs) :
      Shape kv (f :: fs) (v :: vs)

theorem Shape.length_eq {kv : Pair} : ∀ {fields : List Field} {row : Row}, Shape kv fields row → row.length = fields.length
  | _, _, .nil => rfl
  | _, _, .cons _ t => by simp [t.length_eq]

theorem Shape.get {kv : Pair} : ∀ {fields : List Field} {row : Row}, Shape kv fields row →
    ∀ (j : Nat) (hj : j < fields.length), ∃ v, row[j]? = some v ∧ nocache (fields[j]).expr kv = .ok v
  | _, _, .nil, j, hj => by simp at hj
  | _, _, .cons (v := v) h t, 0, _ => ⟨v, rfl, h⟩
  | _, _, .cons _ t, j + 1, hj => by
    obtain ⟨v, h1, h2⟩ := t.get j (by simpa using hj)
    exact ⟨v, by simpa using h1, by simpa using h2⟩

/-- a projected row has one column per field, column j being the cache-free value of field j -/
theorem rowSpec_shape : ∀ {fields : List Field} {kv : Pair} {row : Row}, rowSpec fields kv = .ok row →
    Shape kv fields row
  | [], _, row, h => by simp [rowSpec] at h; subst h; exact .nil
  | f :: fs, kv, row, h => by
    rw [rowSpec] at h
    cases hv : nocache f.expr kv with
    | error e => simp [hv] at h
    | ok v =>
      simp only [hv] at h
      split at h
      · cases h
      · cases hr : rowSpec fs kv with
        | error e => simp [hr] at h
        | ok vs =>
          simp [hr] at h; subst h
          exact .cons hv (rowSpec_shape hr)

/-- every row of the specification comes from a pair the filter accepts (cache off) -/
theorem rowsSpec_mem {w : Expr} {fields : List Field} : ∀ {ps : List Pair} {row : Row},
    row ∈ (rowsSpec w fields ps).rows → ∃ kv ∈ ps, filterSpec w kv = .ok true ∧ rowSpec fields kv = .ok row
  | [], _, h => by simp [rowsSpec] at h
  | p :: ps, row, h => by
    rw [rowsSpec] at h
    cases hf : filterSpec w p with
    | error e => simp [hf] at h
    | ok b =>
      cases b
      · simp only [hf] at h
        obtain ⟨kv, hk, h1, h2⟩ := rowsSpec_mem h
        exact ⟨kv, by simp [hk], h1, h2⟩
      · simp only [hf] at h
        cases hr : rowSpec fields p with
        | error e => simp [hr] at h
        | ok r =>
          simp only [hr, List.mem_cons] at h
          rcases h with rfl | h
          · exact ⟨p, by simp, hf, hr⟩
          · obtain ⟨kv, hk, h1, h2⟩ := rowsSpec_mem h
            exact ⟨kv, by simp [hk], h1, h2⟩

/-- **row_shape** (row mode, cache on): every returned row belongs to a pair of the scan that the filter
    accepts, has exactly one column per announced field, in the announced order, and column j is the
    value of field j's expression on that pair -/
theorem row_shape {A : Aliases} (hfun : Functional A) {w : Expr} (hw : WF A w) {fields : List Field}
    (hwf : FieldsWF A fields) (hag : FieldsAgree A fields) (pairs : List Pair) {c : Ctx} (hon : CtxOn c)
    {row : Row} (hrow : row ∈ (drainRow w fields pairs c).1.rows) :
    ∃ kv ∈ pairs, nocache w kv = .ok (.bool true) ∧ row.length = fields.length ∧
      Shape kv fields row := by
  rw [drainRow_on_eq_spec hfun hw hwf hag pairs hon] at hrow
  obtain ⟨kv, hk, h1, h2⟩ := rowsSpec_mem hrow
  refine ⟨kv, hk, ?_, (rowSpec_shape h2).length_eq, rowSpec_shape h2⟩
  unfold filterSpec at h1
  cases hv : nocache w kv with
  | error e => simp [hv] at h1
  | ok v => cases v <;> simp [hv] at h1; simp [h1]

/-- the same with the cache off -/
theorem row_shape_off (w : Expr) (fields : List Field) (pairs : List Pair) {c : Ctx} (hc : c.enable = false)
    {row : Row} (hrow : row ∈ (drainRow w fields pairs c).1.rows) :
    ∃ kv ∈ pairs, nocache w kv = .ok (.bool true) ∧ row.length = fields.length ∧
      Shape kv fields row := by
  rw [drainRow_off_eq_spec w fields pairs hc] at hrow
  obtain ⟨kv, hk, h1, h2⟩ := rowsSpec_mem hrow
  refine ⟨kv, hk, ?_, (rowSpec_shape h2).length_eq, rowSpec_shape h2⟩
  unfold filterSpec at h1
  cases hv : nocache w kv with
  | error e => simp [hv] at h1
  | ok v => cases v <;> simp [hv] at h1; simp [h1]

end Kvql.Cache
