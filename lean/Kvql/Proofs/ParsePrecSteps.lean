/-
  C15, precedence and parentheses — what "these tokens parse to exactly this tree" means at
  the levels of the expression grammar, and one lemma per syntactic form.

  Exact versions (positions included) of the `POK / UOK / BOK / IOK` of
  Proofs/ParserPrintParse.lean, with the climbing invariant in loop-state form (`QX`), as in
  Proofs/ParserPrec.lean, but parameterised by a left and a right strength.
-/
import Kvql.Proofs.ParsePrecSyn

set_option linter.unusedSimpArgs false
set_option linter.unusedVariables false

namespace Kvql.Proofs.ParsePrec

open Kvql Kvql.Parser Kvql.Generated Kvql.Proofs.PrintLex Kvql.Proofs.PrintParse
open Kvql.Proofs.Prec (atomTok opOK atom_operand opPrec_pos stopB_mono unary_notbang stopB_op)

variable (pf : Bytes → F64)

/-- `ts` read by `parsePrimaryExpr`: operand and suffixes are consumed, the loop of
    `parsePrimaryExpr` stands at `rest` with `e` in hand -/
def PX (e : Expr) (ts : Toks) : Prop :=
  ∀ fuel lev rest, 8 * ts.length + 2 ≤ fuel → lev + fuel ≤ maxNest →
    ∃ fuel' lev', parsePrimaryExpr pf fuel lev (ts ++ rest) = primaryLoop pf fuel' lev' e rest ∧
      fuel ≤ fuel' + 2 * ts.length ∧ lev' + fuel' ≤ lev + fuel

/-- `ts` read by `parseUnaryExpr` gives `e` and stops at `rest` -/
def UX (e : Expr) (ts : Toks) : Prop :=
  ∀ fuel lev rest, Stop rest → 8 * ts.length + 3 ≤ fuel → lev + fuel ≤ maxNest →
    parseUnaryExpr pf fuel lev (ts ++ rest) = .ok (e, rest)

/-- the climbing invariant: after `ts`, read at a threshold `prec1 ≤ lp`, the parser stands in
    the loop of `parseBinaryExpr` at that threshold with `e` in hand, provided what follows binds
    at most as tightly as `rp` -/
def QX (lp rp : Nat) (e : Expr) (ts : Toks) : Prop :=
  ∀ prec1 fuel lev rest, prec1 ≤ lp → StopB (rp + 1) rest → 8 * ts.length + 4 ≤ fuel →
    lev + fuel ≤ maxNest →
    ∃ fuel' lev', parseBinaryExpr pf fuel lev prec1 (ts ++ rest) = binaryLoop pf fuel' lev' prec1 e rest ∧
      fuel ≤ fuel' + ts.length ∧ lev' + fuel' ≤ lev + fuel

/-- `ts` read by `parseBinaryExpr` at threshold `c` gives `e` and stops at `rest` -/
def MX (c : Nat) (e : Expr) (ts : Toks) : Prop :=
  ∀ fuel lev rest, StopB c rest → 8 * ts.length + 4 ≤ fuel → lev + fuel ≤ maxNest →
    parseBinaryExpr pf fuel lev c (ts ++ rest) = .ok (e, rest)

/-- the items of a list / the arguments of a call, up to the closing parenthesis -/
def IX (es : List Expr) (ts : Toks) : Prop :=
  ∀ fuel lev strict acc rest p, 8 * ts.length + 5 ≤ fuel → lev + fuel ≤ maxNest →
    parseItems pf fuel lev tkRPAREN strict acc (ts ++ tok tkRPAREN [41] p :: rest) =
      .ok (acc ++ es, tok tkRPAREN [41] p :: rest)

/-! ### between the levels -/

theorem ux_of_px {e : Expr} {ts : Toks} (hb : Head notBang ts) (h : PX pf e ts) : UX pf e ts := by
  intro fuel lev rest hstop hf hl
  obtain ⟨t, r, rfl, hb⟩ := hb
  obtain ⟨f, rfl⟩ : ∃ f, fuel = f + 1 := ⟨fuel - 1, by omega⟩
  obtain ⟨fuel', lev', heq, hf', hl'⟩ := h f (lev + 1) rest (by omega) (by omega)
  simp only [List.cons_append]
  rw [unary_notbang pf f lev _ hb, ← List.cons_append, heq]
  exact primaryLoop_stop' pf (by simp only [List.length_cons] at *; omega) lev' e hstop

theorem qx_of_ux {e : Expr} {ts : Toks} (lp rp : Nat) (hne : 1 ≤ ts.length) (h : UX pf e ts) :
    QX pf lp rp e ts := by
  intro prec1 fuel lev rest _ hstop hf hl
  obtain ⟨f, rfl⟩ : ∃ f, fuel = f + 1 := ⟨fuel - 1, by omega⟩
  refine ⟨f, lev + 1, ?_, by omega, by omega⟩
  rw [binary_succ, h f lev rest hstop.stop (by omega) (by omega)]
  rfl

theorem mx_of_qx {lp rp c : Nat} {e : Expr} {ts : Toks} (h : QX pf lp rp e ts) (hc : c ≤ lp)
    (hlr : c ≤ rp + 1) : MX pf c e ts := by
  intro fuel lev rest hstop hf hl
  obtain ⟨fuel', lev', h1, h2, h3⟩ := h c fuel lev rest hc (stopB_mono hstop hlr) hf hl
  rw [h1]
  exact binaryLoop_stop' pf (by omega) (by omega) c e (fun t ht => (hstop t ht).2.2)

/-! ### primary expressions -/

theorem px_atom {e : Expr} {t : Token} (h : atomTok pf e = some t) : PX pf e [t] := by
  intro fuel lev rest hf hl
  obtain ⟨f, rfl⟩ : ∃ f, fuel = f + 2 := ⟨fuel - 2, by simp at hf; omega⟩
  refine ⟨f + 1, lev + 1, ?_, by simp, by omega⟩
  rw [primary_succ]
  simp only [List.cons_append, List.nil_append]
  rw [(atom_operand pf h).1]
  rfl

/-- `( ts )` -/
theorem px_paren {e : Expr} {ts : Toks} (h : MX pf 1 e ts) : PX pf e (LP :: (ts ++ [RP])) := by
  intro fuel lev rest hf hl
  simp only [List.length_cons, List.length_append, List.length_nil] at hf
  obtain ⟨f, rfl⟩ : ∃ f, fuel = f + 2 := ⟨fuel - 2, by omega⟩
  have hin := h f lev (RP :: rest) (stopB_rp 1 (by omega) 0 rest) (by omega) (by omega)
  refine ⟨f + 1, lev + 1, ?_, by simp only [List.length_cons, List.length_append, List.length_nil]; omega,
    by omega⟩
  rw [primary_succ]
  simp only [List.cons_append, List.append_assoc, List.nil_append, LP]
  rw [operand_lparen, hin]
  simp only [Res.bind_ok, RP, expect_tok, Res.pure_eq]

/-- `N ( args )` -/
theorem px_call {n : Expr} {args : List Expr} {tn tj : Toks} (hn : PX pf n tn)
    (hat : n.calleeAtomic = true) (hj : IX pf args tj) :
    PX pf (.call n.pos n args) (tn ++ LP :: (tj ++ [RP])) := by
  intro fuel lev rest hf hlev
  simp only [List.length_cons, List.length_append, List.length_nil] at hf
  obtain ⟨fuel', lev', heq, hf', hl'⟩ := hn fuel lev (LP :: (tj ++ RP :: rest)) (by omega) hlev
  obtain ⟨k, rfl⟩ : ∃ k, fuel' = k + 2 := ⟨fuel' - 2, by omega⟩
  have hj1 := hj k lev' true [] rest 0 (by omega) (by omega)
  refine ⟨k + 1, lev' + 1, ?_,
    by simp only [List.length_cons, List.length_append, List.length_nil]; omega, by omega⟩
  simp only [List.append_assoc, List.cons_append, List.nil_append]
  rw [heq]
  simp only [LP, RP] at hj1 ⊢
  rw [primaryLoop_call pf (k + 1) lev' n _ _ _ hat, call_succ, expect_tok]
  simp only [Res.bind_ok]
  rw [hj1]
  simp only [Res.bind_ok, List.nil_append, expect_tok, Res.pure_eq]

/-- `L [ F ]` -/
theorem px_access {l f : Expr} {tl tf : Toks} (p : Nat) (hl : PX pf l tl) (hf : MX pf 1 f tf)
    (hh : Head (fun t => t.tp ≠ tkRBRACK) tf) :
    PX pf (.access p l f) (tl ++ LB p :: (tf ++ [RB])) := by
  intro fuel lev rest hfu hlev
  obtain ⟨t, r, rfl, ht⟩ := hh
  simp only [List.length_cons, List.length_append, List.length_nil] at hfu
  obtain ⟨fuel', lev', heq, hf', hl'⟩ :=
    hl fuel lev (LB p :: (t :: (r ++ RB :: rest))) (by omega) hlev
  obtain ⟨k, rfl⟩ : ∃ k, fuel' = k + 3 := ⟨fuel' - 3, by omega⟩
  have hf1 := hf k lev' (RB :: rest)
    (stopB_cons (by decide) (by decide) (Or.inl (by decide)) (by omega))
    (by simp only [List.length_cons]; omega) (by omega)
  refine ⟨k + 2, lev' + 1, ?_,
    by simp only [List.length_cons, List.length_append, List.length_nil]; omega, by omega⟩
  simp only [List.append_assoc, List.cons_append, List.nil_append]
  rw [heq]
  simp only [LB, RB] at hf1 ⊢
  rw [primaryLoop_index]
  conv => lhs; unfold parseFieldAccess
  rw [expect_tok]
  simp only [Res.bind_ok]
  conv => lhs; unfold parseItems
  have ht' : (t.tp == tkRBRACK) = false := by simpa using ht
  simp only [ht', Bool.false_eq_true, if_false]
  simp only [List.cons_append] at hf1
  rw [hf1]
  simp [tok_tp, expect_tok]

/-! ### `!` -/

theorem ux_not {r : Expr} {tr : Toks} (p : Nat) (h : UX pf r tr) : UX pf (.not p r) (BANG p :: tr) := by
  intro fuel lev rest hstop hf hl
  simp only [List.length_cons] at hf
  obtain ⟨f, rfl⟩ : ∃ f, fuel = f + 1 := ⟨fuel - 1, by omega⟩
  have hr := h f (lev + 1) rest hstop (by omega) (by omega)
  have hbang : ((BANG p).tp == tkOPERATOR && (BANG p).str == "!") = true := by
    simp only [BANG, tok_tp, str_tok]; decide
  conv => lhs; unfold parseUnaryExpr
  simp only [List.cons_append, hbang, if_true]
  rw [hr]
  rfl

/-! ### the four binary forms -/

theorem opPrec_in : opPrec .in_ = 3 := rfl
theorem opPrec_between : opPrec .between = 3 := rfl

/-- `L op R` -/
theorem qx_bin {l r : Expr} {tl tr : Toks} {lpl rpl : Nat} (p : Nat) (op : Op) (hop : opOK op = true)
    (hl : QX pf lpl rpl l tl) (hrp : opPrec op ≤ rpl) (hr : MX pf (opPrec op + 1) r tr) :
    QX pf (min lpl (opPrec op)) (opPrec op) (.binop p op l r) (tl ++ opTok op p :: tr) := by
  intro prec1 fuel lev rest hp1 hstop hfuel hlev
  simp only [List.length_append, List.length_cons] at hfuel
  obtain ⟨f1, lev1, h1, h2, h3⟩ := hl prec1 fuel lev (opTok op p :: (tr ++ rest)) (by omega)
    (stopB_op op (by omega) p _) (by omega) hlev
  obtain ⟨k, rfl⟩ : ∃ k, f1 = k + 1 := ⟨f1 - 1, by omega⟩
  have hr' := hr k lev1 rest hstop (by omega) (by omega)
  refine ⟨k, lev1 + 1, ?_, by simp only [List.length_append, List.length_cons]; omega, by omega⟩
  simp only [List.append_assoc, List.cons_append]
  rw [h1]
  simp only [opTok]
  rw [binaryLoop_op pf k (by omega) prec1 l op p _ (by omega)]
  have hin : (op == Op.in_) = false := by cases op <;> simp_all [opOK]
  have hbt : (op == Op.between) = false := by cases op <;> simp_all [opOK]
  simp only [hin, hbt, Bool.false_eq_true, if_false]
  rw [hr']
  simp only [Res.bind_ok]

/-- `L in ( items )`: after the closing parenthesis the loop goes on, whatever follows -/
theorem qx_inList {l : Expr} {items : List Expr} {tl tj : Toks} {lpl rpl : Nat} (p : Nat)
    (hl : QX pf lpl rpl l tl) (hrp : 3 ≤ rpl) (hj : IX pf items tj) :
    QX pf (min lpl 3) 7 (.binop p .in_ l (.list p items))
      (tl ++ opTok .in_ p :: LP :: (tj ++ [RP])) := by
  intro prec1 fuel lev rest hp1 _ hfuel hlev
  simp only [List.length_append, List.length_cons, List.length_nil] at hfuel
  obtain ⟨f1, lev1, h1, h2, h3⟩ := hl prec1 fuel lev (opTok .in_ p :: LP :: (tj ++ RP :: rest)) (by omega)
    (stopB_op .in_ (by rw [opPrec_in]; omega) p _) (by omega) hlev
  obtain ⟨k, rfl⟩ : ∃ k, f1 = k + 2 := ⟨f1 - 2, by omega⟩
  have hj' := hj k lev1 false [] rest 0 (by omega) (by omega)
  refine ⟨k + 1, lev1 + 1, ?_,
    by simp only [List.length_append, List.length_cons, List.length_nil]; omega, by omega⟩
  simp only [List.append_assoc, List.cons_append, List.nil_append]
  rw [h1]
  simp only [opTok, LP, RP] at hj' ⊢
  rw [binaryLoop_op pf (k + 1) (by omega) prec1 l .in_ p _ (by rw [opPrec_in]; omega)]
  simp only [show (Op.in_ == Op.in_) = true from rfl, if_true, tok_tp, beq_self_eq_true]
  rw [list_succ, expect_tok]
  simp only [Res.bind_ok]
  rw [hj']
  simp only [Res.bind_ok, List.nil_append, expect_tok, Res.pure_eq]

/-- `L in R` where the text of `R` does not start with `(` -/
theorem qx_inExpr {l r : Expr} {tl tr : Toks} {lpl rpl : Nat} (p : Nat)
    (hl : QX pf lpl rpl l tl) (hrp : 3 ≤ rpl) (hr : MX pf 4 r tr)
    (hfirst : Head (fun t => t.tp ≠ tkLPAREN) tr) :
    QX pf (min lpl 3) 3 (.binop p .in_ l r) (tl ++ opTok .in_ p :: tr) := by
  intro prec1 fuel lev rest hp1 hstop hfuel hlev
  obtain ⟨t, r0, rfl, ht⟩ := hfirst
  simp only [List.length_append, List.length_cons] at hfuel
  obtain ⟨f1, lev1, h1, h2, h3⟩ := hl prec1 fuel lev (opTok .in_ p :: (t :: (r0 ++ rest))) (by omega)
    (stopB_op .in_ (by rw [opPrec_in]; omega) p _) (by omega) hlev
  obtain ⟨k, rfl⟩ : ∃ k, f1 = k + 1 := ⟨f1 - 1, by omega⟩
  have hr' := hr k lev1 rest hstop (by simp only [List.length_cons]; omega) (by omega)
  refine ⟨k, lev1 + 1, ?_, by simp only [List.length_append, List.length_cons]; omega, by omega⟩
  simp only [List.append_assoc, List.cons_append]
  rw [h1]
  simp only [opTok]
  rw [binaryLoop_op pf k (by omega) prec1 l .in_ p _ (by rw [opPrec_in]; omega)]
  have ht' : (t.tp == tkLPAREN) = false := by simpa using ht
  simp only [show (Op.in_ == Op.in_) = true from rfl, if_true, ht', Bool.false_eq_true, if_false,
    show opPrec .in_ + 1 = 4 from rfl]
  simp only [List.cons_append] at hr'
  rw [hr']
  simp only [Res.bind_ok]

/-- `L between LO and HI` -/
theorem qx_between {l lo hi : Expr} {tl tlo thi : Toks} {lpl rpl : Nat} (p : Nat)
    (hl : QX pf lpl rpl l tl) (hrp : 3 ≤ rpl) (hlo : MX pf 4 lo tlo) (hhi : MX pf 4 hi thi) :
    QX pf (min lpl 3) 3 (.binop p .between l (.list p [lo, hi]))
      (tl ++ opTok .between p :: (tlo ++ opTok .kwAnd 0 :: thi)) := by
  intro prec1 fuel lev rest hp1 hstop hfuel hlev
  simp only [List.length_append, List.length_cons] at hfuel
  obtain ⟨f1, lev1, h1, h2, h3⟩ := hl prec1 fuel lev
    (opTok .between p :: (tlo ++ opTok .kwAnd 0 :: (thi ++ rest))) (by omega)
    (stopB_op .between (by rw [opPrec_between]; omega) p _) (by omega) hlev
  obtain ⟨k, rfl⟩ : ∃ k, f1 = k + 2 := ⟨f1 - 2, by omega⟩
  have hlo' := hlo k lev1 (opTok .kwAnd 0 :: (thi ++ rest)) (stopB_and _ _) (by omega) (by omega)
  have hhi' := hhi k lev1 rest hstop (by omega) (by omega)
  refine ⟨k + 1, lev1 + 1, ?_, by simp only [List.length_append, List.length_cons]; omega, by omega⟩
  simp only [List.append_assoc, List.cons_append]
  rw [h1]
  simp only [opTok] at hlo' ⊢
  rw [binaryLoop_op pf (k + 1) (by omega) prec1 l .between p _ (by rw [opPrec_between]; omega)]
  simp only [show (Op.between == Op.in_) = false from rfl, show (Op.between == Op.between) = true from rfl,
    Bool.false_eq_true, if_false, if_true, show opPrec .between + 1 = 4 from rfl]
  rw [between_succ, hlo']
  simp only [Res.bind_ok, expect_tok]
  rw [hhi']
  simp only [Res.bind_ok, Res.pure_eq]

/-! ### item lists -/

theorem ix_nil : IX pf [] [] := by
  intro fuel lev strict acc rest p hf _
  obtain ⟨f, rfl⟩ : ∃ f, fuel = f + 1 := ⟨fuel - 1, by omega⟩
  unfold parseItems
  simp [tok_tp]

theorem ix_one {e : Expr} {te : Toks} (he : MX pf 1 e te) (hh : Head (fun t => t.tp ≠ tkRPAREN) te) :
    IX pf [e] te := by
  intro fuel lev strict acc rest p hf hlev
  obtain ⟨t, r, rfl, ht⟩ := hh
  obtain ⟨f, rfl⟩ : ∃ f, fuel = f + 1 := ⟨fuel - 1, by omega⟩
  have he1 := he f lev (tok tkRPAREN [41] p :: rest) (stopB_rp 1 (by omega) p rest) (by omega) (by omega)
  conv => lhs; unfold parseItems
  have ht' : (t.tp == tkRPAREN) = false := by simpa using ht
  simp only [List.cons_append, ht', Bool.false_eq_true, if_false]
  simp only [List.cons_append] at he1
  rw [he1]
  simp [tok_tp]

theorem ix_cons {e e2 : Expr} {es : List Expr} {te tj : Toks} (he : MX pf 1 e te)
    (hh : Head (fun t => t.tp ≠ tkRPAREN) te) (hj : IX pf (e2 :: es) tj) :
    IX pf (e :: e2 :: es) (te ++ COMMA :: tj) := by
  intro fuel lev strict acc rest p hf hlev
  obtain ⟨t, r, rfl, ht⟩ := hh
  simp only [List.length_cons, List.length_append] at hf
  obtain ⟨f, rfl⟩ : ∃ f, fuel = f + 1 := ⟨fuel - 1, by omega⟩
  have he1 := he f lev (COMMA :: (tj ++ tok tkRPAREN [41] p :: rest))
    (stopB_sep 0 _) (by simp only [List.length_cons]; omega) (by omega)
  have hj1 := hj f lev strict (acc ++ [e]) rest p (by omega) (by omega)
  conv => lhs; unfold parseItems
  have ht' : (t.tp == tkRPAREN) = false := by simpa using ht
  simp only [List.cons_append, List.append_assoc, ht', Bool.false_eq_true, if_false]
  simp only [List.cons_append] at he1
  rw [he1]
  have hs : COMMA.str = "," := by simp only [COMMA, str_tok]; decide
  simp only [Res.bind_ok, COMMA, tok_tp, show (tkSEP == tkRPAREN) = false from rfl, Bool.false_eq_true,
    if_false, beq_self_eq_true, Bool.and_self, Bool.not_true, Bool.and_false]
  simp only [COMMA] at hs
  simp only [hs, beq_self_eq_true, Bool.and_self, Bool.not_true, Bool.and_false, Bool.false_eq_true, if_false]
  rw [hj1]
  simp

end Kvql.Proofs.ParsePrec
