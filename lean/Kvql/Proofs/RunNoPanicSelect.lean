/-
  RunNoPanic, part 14: SELECT without aggregates — the projection over the scan (`projTrace`), then
  ORDER BY (`orderTrace`), then LIMIT (`limitTrace`).
-/
import Kvql.Proofs.RunNoPanicScan
import Kvql.Proofs.RunNoPanicOrder
import Kvql.Proofs.RunNoPanicLockRow
import Kvql.Proofs.RunNoPanicLockBatch
import Kvql.Proofs.RunNoPanicLockBatchOn
import Kvql.Properties.C07

namespace Kvql.Proofs.RunNoPanic

open Kvql Kvql.Run Kvql.Plans Kvql.Storage

/-! ### LIMIT never adds a failure -/

theorem limitTrace_fin {α : Type} (start count : Nat) (kind : PollKind) (bs : Nat) (t : Trace α) :
    (limitTrace start count kind bs t).fin.1 = none ∨ (limitTrace start count kind bs t).fin.1 = t.fin.1 := by
  unfold limitTrace
  cases kind with
  | next =>
    simp only
    split
    · right; rfl
    · left; rfl
  | batch =>
    simp only
    split
    · split
      · rename_i f hf; right; simp [hf]
      · left; rfl
    · left; rfl

/-! ### ORDER BY -/

theorem findIdx?_of_mem (nm : Bytes) : ∀ (names : List Bytes), nm ∈ names →
    ∃ i, names.findIdx? (· == nm) = some i ∧ i < names.length
  | [], h => by simp at h
  | x :: xs, h => by
    rw [List.findIdx?_cons]
    by_cases hx : (x == nm) = true
    · exact ⟨0, by simp [hx], by simp⟩
    · have hm : nm ∈ xs := by
        rcases List.mem_cons.mp h with h | h
        · subst h; simp at hx
        · exact h
      obtain ⟨i, hi, hlt⟩ := findIdx?_of_mem nm xs hm
      exact ⟨i + 1, by simp [hx, hi], by simp; omega⟩

theorem orderKeys_go (names : List Bytes) (types : List Nat) (hlen : names.length ≤ types.length) :
    ∀ (orders : List (Bytes × Nat)), (∀ p ∈ orders, p.1 ∈ names) →
      ∃ keys, orders.mapM (fun (p : Bytes × Nat) => do
          let idx ← names.findIdx? (· == p.1)
          let tp ← types[idx]?
          pure ({ pos := idx, tp := tp, desc := p.2 == Generated.tkDESC } : Order.Key)) = some keys ∧
        ∀ k ∈ keys, k.pos < names.length
  | [], _ => ⟨[], rfl, by simp⟩
  | (nm, ord) :: rest, h => by
    obtain ⟨i, hi, hlt⟩ := findIdx?_of_mem nm names (h (nm, ord) (by simp))
    obtain ⟨keys, hk, hpos⟩ := orderKeys_go names types hlen rest (fun p hp => h p (by simp [hp]))
    have hty : types[i]? = some types[i] := List.getElem?_eq_getElem (by omega)
    refine ⟨{ pos := i, tp := types[i], desc := ord == Generated.tkDESC } :: keys, ?_, ?_⟩
    · simp at hk
      simp [List.mapM_cons, hi, hty, hk]
    · intro k hk'
      rcases List.mem_cons.mp hk' with rfl | hk'
      · exact hlt
      · exact hpos k hk'

/-- the order keys `FinalOrderPlan.Init` computes exist and point inside the rows -/
theorem orderKeys_some (names : List Bytes) (types : List Nat) (o : OrderS) (hlen : names.length ≤ types.length)
    (hmem : ∀ p ∈ o.orders, p.1 ∈ names) :
    ∃ keys, orderKeys names types o = some keys ∧ ∀ k ∈ keys, k.pos < names.length := by
  unfold orderKeys
  exact orderKeys_go names types hlen o.orders hmem

theorem lessRows_total (keys : List Order.Key) (a b : List Value)
    (ha : ∀ k ∈ keys, k.pos < a.length) (hb : ∀ k ∈ keys, k.pos < b.length) : ∃ r, lessRows keys a b = .ok r := by
  unfold lessRows
  exact Kvql.Properties.C07.less_never_panics keys _ _ (fun o ho => ⟨by simpa using ha o ho, by simpa using hb o ho⟩)

/-- ORDER BY over rows that are wide enough never adds a failure -/
theorem orderTrace_fin (keys : List Order.Key) (kind : PollKind) (bs : Nat) (t : Trace (List Value)) (n : Nat)
    (hk : ∀ k ∈ keys, k.pos < n) (hrows : ∀ p ∈ t.polls, ∀ r ∈ p.1, r.length = n) :
    (orderTrace keys kind bs t).fin.1 = t.fin.1 := by
  unfold orderTrace
  simp only
  cases hf : t.fin.1 with
  | some f => rfl
  | none =>
    simp only
    have htot : ∀ a ∈ t.polls.flatMap (·.1), ∀ b ∈ t.polls.flatMap (·.1), ∃ r, lessRows keys a b = .ok r := by
      intro a ha b hb
      obtain ⟨p, hp, hap⟩ := List.mem_flatMap.mp ha
      obtain ⟨q, hq, hbq⟩ := List.mem_flatMap.mp hb
      exact lessRows_total keys a b (fun k hk' => by rw [hrows p hp a hap]; exact hk k hk')
        (fun k hk' => by rw [hrows q hq b hbq]; exact hk k hk')
    cases kind with
    | next =>
      simp only
      obtain ⟨out, ho⟩ := order_drainNext_no_panic (lessRows keys) (t.polls.flatMap (·.1)) htot
        ((t.polls.map (·.1.length)).sum + 2)
      rw [ho]
    | batch =>
      simp only
      have htot' : ∀ a ∈ (t.polls.map (·.1)).flatten, ∀ b ∈ (t.polls.map (·.1)).flatten, ∃ r, lessRows keys a b = .ok r := by
        rw [← List.flatMap_def]; exact htot
      obtain ⟨out, ho⟩ := order_drainBatch_no_panic (lessRows keys) (t.polls.map (·.1)) htot' bs
        ((t.polls.map (·.1.length)).sum + 2)
      rw [ho]

/-! ### the projection over the scan -/

theorem perrFail_mild {pe : Project.PErr} (h : mild (perrFail pe) = true) : isExec (perrFail pe) := by
  cases pe with
  | eval e => cases e <;> simp_all [perrFail, mild, isExec]
  | whereNotBool => exact ⟨_, rfl⟩
  | resultType => exact ⟨_, rfl⟩
  | colIndex => simp [perrFail, mild] at h
  | filterIndex => simp [perrFail, mild] at h
  | fuel => simp [perrFail, mild] at h

/-- how `zipProj` can end: cleanly, with a projection failure, with `glue`, or with the storage failure the
    scan trace ended with -/
theorem zipProj_fin_cases (polls : List (List SPair × Storage.World)) (fin : Option Fail × Storage.World)
    (rows : List (List Project.Row)) (err : Option Project.PErr) (w0 : Storage.World)
    (acc : List (List (List Value) × Storage.World)) :
    (zipProj polls fin rows err w0 acc).fin.1 = none ∨
    (∃ pe, (zipProj polls fin rows err w0 acc).fin.1 = some (perrFail pe)) ∨
    (∃ g, (zipProj polls fin rows err w0 acc).fin.1 = some (.glue g)) ∨
    (∃ e, (zipProj polls fin rows err w0 acc).fin.1 = some (.storageExec e) ∧ fin.1 = some (.storageExec e)) := by
  fun_induction zipProj polls fin rows err w0 acc
  all_goals first
    | exact .inl rfl
    | exact .inr (.inl ⟨_, rfl⟩)
    | exact .inr (.inr (.inl ⟨_, rfl⟩))
    | exact .inr (.inr (.inr ⟨_, rfl, rfl⟩))
    | assumption

/-- a scan trace never ends with a failure of the storage machine -/
theorem scanTrace_not_storage (node : ScanNode) (v : Verdicts) (kind : PollKind) (bs : Nat) (hbs : 1 ≤ bs)
    (store : Store) (e : Storage.Err) : (scanTrace node v kind bs store).fin.1 ≠ some (.storageExec e) := by
  rw [scanTrace_fin]
  rcases run_no_storage_error (.select node (filterOfV v)) (fun p e he => filterOfV_evalOnly v p e he) kind bs hbs store
    with ho | ho
  · rw [ho]; simp [finOf]
  · rw [ho]
    simp only [finOf, pollFail]
    cases firstErr v with
    | none => simp
    | some pe =>
      cases pe with
      | eval x => cases x <;> simp [perrFail]
      | _ => simp [perrFail]

/-- the number of columns of a projected row -/
def rowWidth (s : SelectS) (f : FoldedSelect) : Nat :=
  if s.allFields then 2 else (s.fieldNames.zip f.fields).length

/-- `select *`: the pairs of the scan as rows -/
theorem projTrace_star_safe (s : SelectS) (f : FoldedSelect) (store : Store) (kind : PollKind) (bs : Nat)
    (hbs : 1 ≤ bs) (cache : Bool) (hall : s.allFields = true) (hw : f.where_.wf = true) :
    (∀ fl, (projTrace s f store kind bs cache).fin.1 = some fl → isExec fl) ∧
    (∀ p ∈ (projTrace s f store kind bs cache).polls, ∀ r ∈ p.1, r.length = 2) := by
  unfold projTrace
  cases kind with
  | next =>
    simp only [hall, if_true]
    constructor
    · intro fl h
      exact scanTrace_fin_exec _ _ (rowVerdicts_good hw _ _) .next bs hbs fl h
    · intro p hp r hr
      simp only [Trace.map, List.mem_map] at hp
      obtain ⟨q, _, rfl⟩ := hp
      simp only [List.mem_map] at hr
      obtain ⟨x, _, rfl⟩ := hr
      rfl
  | batch =>
    simp only [hall, if_true]
    constructor
    · intro fl h
      refine scanTrace_fin_exec _ _ ?_ .batch bs hbs fl h
      have := batchVerdicts_good hw cache (innerChunks (nodeOf (Scan.optimize f.where_)) bs store)
      rw [Kvql.Proofs.RunTables.innerChunks_flatten _ bs hbs store] at this
      exact this
    · intro p hp r hr
      simp only [Trace.map, List.mem_map] at hp
      obtain ⟨q, _, rfl⟩ := hp
      simp only [List.mem_map] at hr
      obtain ⟨x, _, rfl⟩ := hr
      rfl

/-- a projection with a field list that does not end in `panic` / `fuel` / `glue` ends with an error value:
    the storage side never fails on its own -/
theorem projTrace_fields_isExec (s : SelectS) (f : FoldedSelect) (store : Store) (kind : PollKind) (bs : Nat)
    (hbs : 1 ≤ bs) (cache : Bool) (hnf : s.allFields = false) (fl : Run.Fail)
    (h : (projTrace s f store kind bs cache).fin.1 = some fl) (hm : mild fl = true) : isExec fl := by
  unfold projTrace at h
  cases kind with
  | next =>
    simp only [hnf, Bool.false_eq_true, if_false] at h
    rcases zipProj_fin_cases _ _ _ _ _ _ with h0 | ⟨pe, h1⟩ | ⟨g, h2⟩ | ⟨e, h3, h4⟩
    · rw [h0] at h; cases h
    · rw [h1] at h; cases h; exact perrFail_mild hm
    · rw [h2] at h; cases h; simp [mild] at hm
    · exact absurd h4 (scanTrace_not_storage _ _ _ _ hbs _ _)
  | batch =>
    simp only [hnf, Bool.false_eq_true, if_false] at h
    rcases zipProj_fin_cases _ _ _ _ _ _ with h0 | ⟨pe, h1⟩ | ⟨g, h2⟩ | ⟨e, h3, h4⟩
    · rw [h0] at h; cases h
    · rw [h1] at h; cases h; exact perrFail_mild hm
    · rw [h2] at h; cases h; simp [mild] at hm
    · exact absurd h4 (scanTrace_not_storage _ _ _ _ hbs _ _)

/-- **the projection plan over the scan plan**: ends cleanly or with an evaluation error value; every row has
    `rowWidth` columns.  With a field list the store must be sorted (the verdict table is keyed by key); either
    mode, cache on or off. -/
theorem projTrace_safe (s : SelectS) (f : FoldedSelect) (store : Store) (kind : PollKind) (bs : Nat)
    (hbs : 1 ≤ bs) (cache : Bool) (hw : f.where_.wf = true) (hf : ∀ x ∈ f.fields, x.wf = true)
    (hfields : s.allFields = false → store.Sorted) :
    (∀ fl, (projTrace s f store kind bs cache).fin.1 = some fl → isExec fl) ∧
    (∀ p ∈ (projTrace s f store kind bs cache).polls, ∀ r ∈ p.1, r.length = rowWidth s f) := by
  cases hall : s.allFields with
  | true =>
    have := projTrace_star_safe s f store kind bs hbs cache hall hw
    simpa [rowWidth, hall] using this
  | false =>
    have hs := hfields hall
    have key : (∀ fl, (projTrace s f store kind bs cache).fin.1 = some fl → mild fl = true) ∧
        (∀ p ∈ (projTrace s f store kind bs cache).polls, ∀ r ∈ p.1, r.length = (s.fieldNames.zip f.fields).length) := by
      cases kind with
      | next => exact projTrace_next_safe s f store hs bs hbs cache hall hw hf
      | batch =>
        cases cache with
        | false => exact projTrace_batch_safe_off s f store hs bs hbs hall hw hf
        | true => exact projTrace_batch_safe_on s f store hs bs hbs hall hw hf
    refine ⟨fun fl h => projTrace_fields_isExec s f store kind bs hbs cache hall fl h (key.1 fl h), ?_⟩
    simpa [rowWidth, hall] using key.2

/-! ### `buildFinalPlan` without aggregates -/

/-- what the front end guarantees about a SELECT (RunNoPanicParse `parse_select_good`) and its folded form
    (RunNoPanicFold `foldSelect_wf`), as far as the plans need it -/
structure SelShape (s : SelectS) (f : FoldedSelect) : Prop where
  whereWf : f.where_.wf = true
  fieldsWf : ∀ x ∈ f.fields, x.wf = true
  nodesWf : ∀ x ∈ f.nodes, x.wf = true
  names : s.fieldNames.length = s.fields.length
  flen : f.fields.length = s.fields.length
  nlen : f.nodes.length = s.fields.length
  types : s.allFields = false → s.fieldTypes.length = s.fieldNames.length
  star : s.allFields = true → s.fieldNames.length ≤ 2
  order : ∀ o, s.order = some o → ∀ p ∈ o.orders, p.1 ∈ s.fieldNames
  group : ∀ g, s.groupBy = some g → ∀ p ∈ g.fields, (∃ q k, p.2 = .field q k) ∨ p.1 ∈ s.fieldNames

theorem SelShape.names_le_width {s : SelectS} {f : FoldedSelect} (h : SelShape s f) :
    s.fieldNames.length ≤ rowWidth s f := by
  unfold rowWidth
  split
  · rename_i hall; exact h.star hall
  · simp only [List.length_zip]
    have := h.names; have := h.flen
    omega

theorem SelShape.names_le_types {s : SelectS} {f : FoldedSelect} (h : SelShape s f) :
    (projNames s).length ≤ (projTypes s).length := by
  unfold projNames projTypes
  split
  · rename_i hall; simpa using h.star hall
  · rename_i hall
    have := h.types (by simpa using hall)
    omega

/-- **SELECT without aggregates** (projection, ORDER BY, LIMIT): ends cleanly or with an evaluation error value -/
theorem runPlainSelect_safe (s : SelectS) (f : FoldedSelect) (hsh : SelShape s f) (store : Store) (kind : PollKind)
    (bs : Nat) (hbs : 1 ≤ bs) (cache : Bool)
    (hfields : s.allFields = false → store.Sorted)
    (fl : Run.Fail) (h : (runPlainSelect s f store kind bs cache).fail = some fl) : isExec fl := by
  obtain ⟨hfin, hrows⟩ := projTrace_safe s f store kind bs hbs cache hsh.whereWf hsh.fieldsWf hfields
  unfold runPlainSelect at h
  simp only at h
  -- the trace after ORDER BY ends as the projection does
  have horder : ∀ t1, (match s.order with
      | none => (Except.ok (projTrace s f store kind bs cache) : Except Fail (Trace (List Value)))
      | some o =>
        if elideOrder s o then .ok (projTrace s f store kind bs cache)
        else match orderKeys (projNames s) (projTypes s) o with
          | some keys => .ok (orderTrace keys kind bs (projTrace s f store kind bs cache))
          | none => .error (.glue "order field not in the select list")) = .ok t1 →
      t1.fin.1 = (projTrace s f store kind bs cache).fin.1 := by
    intro t1 ht
    cases ho : s.order with
    | none => rw [ho] at ht; cases ht; rfl
    | some o =>
      rw [ho] at ht
      simp only at ht
      split at ht
      · cases ht; rfl
      · obtain ⟨keys, hk, hpos⟩ := orderKeys_some (projNames s) (projTypes s) o hsh.names_le_types (hsh.order o ho)
        rw [hk] at ht
        cases ht
        exact orderTrace_fin keys kind bs _ (rowWidth s f)
          (fun k hk' => Nat.lt_of_lt_of_le (hpos k hk') hsh.names_le_width) hrows
  split at h
  · rename_i e he
    -- the only `error` is the glue of a missing order field, which does not occur
    exfalso
    cases ho : s.order with
    | none => rw [ho] at he; cases he
    | some o =>
      rw [ho] at he
      simp only at he
      split at he
      · cases he
      · obtain ⟨keys, hk, _⟩ := orderKeys_some (projNames s) (projTypes s) o hsh.names_le_types (hsh.order o ho)
        rw [hk] at he
        cases he
  · rename_i t1 ht
    have h1 := horder t1 ht
    split at h
    · simp only [Trace.outcome] at h
      rw [h1] at h
      exact hfin fl h
    · rename_i l _
      simp only [Trace.outcome] at h
      rcases limitTrace_fin (limitNat l).1 (limitNat l).2 kind bs t1 with h2 | h2
      · rw [h2] at h; cases h
      · rw [h2, h1] at h
        exact hfin fl h

/-! ### a SELECT without aggregates never leaves the modelled fragment (any store, no side condition) -/

/-- not `unsupported`, not `plan` -/
def inModel (f : Run.Fail) : Prop := (∀ w, f ≠ .unsupported w) ∧ ∀ e, f ≠ .plan e

theorem perrFail_inModel (pe : Project.PErr) : inModel (perrFail pe) := by
  cases pe with
  | eval e => cases e <;> simp [perrFail, inModel]
  | _ => simp [perrFail, inModel]

theorem scanTrace_inModel (node : ScanNode) (v : Verdicts) (kind : PollKind) (bs : Nat) (store : Store) (fl : Run.Fail)
    (h : (scanTrace node v kind bs store).fin.1 = some fl) : inModel fl := by
  rw [scanTrace_fin] at h
  cases ho : (run (.select node (filterOfV v)) kind bs none store).1.outcome with
  | ok => rw [ho] at h; cases h
  | planErr e => rw [ho] at h; cases h; simp [inModel]
  | execErr e =>
    rw [ho] at h
    simp only [finOf, Option.some.injEq] at h
    subst h
    unfold pollFail
    split
    · split
      · exact perrFail_inModel _
      · simp [inModel]
    · simp [inModel]

theorem projTrace_inModel (s : SelectS) (f : FoldedSelect) (store : Store) (kind : PollKind) (bs : Nat) (cache : Bool)
    (fl : Run.Fail) (h : (projTrace s f store kind bs cache).fin.1 = some fl) : inModel fl := by
  unfold projTrace at h
  cases kind with
  | next =>
    simp only at h
    split at h
    · exact scanTrace_inModel _ _ _ _ _ fl h
    · rcases zipProj_fin_cases _ _ _ _ _ _ with h0 | ⟨pe, h1⟩ | ⟨g, h2⟩ | ⟨e, h3, _⟩
      · rw [h0] at h; cases h
      · rw [h1] at h; cases h; exact perrFail_inModel _
      · rw [h2] at h; cases h; simp [inModel]
      · rw [h3] at h; cases h; simp [inModel]
  | batch =>
    simp only at h
    split at h
    · exact scanTrace_inModel _ _ _ _ _ fl h
    · rcases zipProj_fin_cases _ _ _ _ _ _ with h0 | ⟨pe, h1⟩ | ⟨g, h2⟩ | ⟨e, h3, _⟩
      · rw [h0] at h; cases h
      · rw [h1] at h; cases h; exact perrFail_inModel _
      · rw [h2] at h; cases h; simp [inModel]
      · rw [h3] at h; cases h; simp [inModel]

theorem orderTrace_fin_cases (keys : List Order.Key) (kind : PollKind) (bs : Nat) (t : Trace (List Value)) :
    (orderTrace keys kind bs t).fin.1 = none ∨ (orderTrace keys kind bs t).fin.1 = t.fin.1 ∨
    (orderTrace keys kind bs t).fin.1 = some (.panic "orderColumnsRow.Less") := by
  unfold orderTrace
  simp only
  cases hf : t.fin.1 with
  | some f => right; left; rfl
  | none =>
    simp only
    cases kind with
    | next =>
      simp only
      split
      · right; right; rfl
      · left; rfl
    | batch =>
      simp only
      split
      · right; right; rfl
      · left; rfl

theorem runPlainSelect_inModel (s : SelectS) (f : FoldedSelect) (store : Store) (kind : PollKind) (bs : Nat)
    (cache : Bool) (fl : Run.Fail) (h : (runPlainSelect s f store kind bs cache).fail = some fl) : inModel fl := by
  unfold runPlainSelect at h
  simp only at h
  split at h
  · rename_i e he
    cases h
    -- the only error is a glue
    cases ho : s.order with
    | none => rw [ho] at he; cases he
    | some o =>
      rw [ho] at he
      simp only at he
      split at he
      · cases he
      · split at he
        · cases he
        · cases he; simp [inModel]
  · rename_i t1 ht
    have h1 : ∀ fl, t1.fin.1 = some fl → inModel fl := by
      intro fl' hfl'
      cases ho : s.order with
      | none => rw [ho] at ht; cases ht; exact projTrace_inModel s f store kind bs cache fl' hfl'
      | some o =>
        rw [ho] at ht
        simp only at ht
        split at ht
        · cases ht; exact projTrace_inModel s f store kind bs cache fl' hfl'
        · split at ht
          · rename_i keys _
            cases ht
            rcases orderTrace_fin_cases keys kind bs (projTrace s f store kind bs cache) with h0 | h0 | h0
            · rw [h0] at hfl'; cases hfl'
            · rw [h0] at hfl'; exact projTrace_inModel s f store kind bs cache fl' hfl'
            · rw [h0] at hfl'; cases hfl'; simp [inModel]
          · cases ht
    split at h
    · exact h1 fl h
    · rename_i l _
      simp only [Trace.outcome] at h
      rcases limitTrace_fin (limitNat l).1 (limitNat l).2 kind bs t1 with h2 | h2
      · rw [h2] at h; cases h
      · rw [h2] at h; exact h1 fl h

end Kvql.Proofs.RunNoPanic
