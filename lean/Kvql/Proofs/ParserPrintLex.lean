/-
  print_reparse, lexer half: how the reference tokenizer (`Spec.lex`, proved equal to the model
  of `Lexer.Split`) splits the canonical text `Expr.toString e`.

  Everything here is about `LexSpec.L` (the fuel-free scanner).  The key fact is `L_append`:
  scanning `pre ++ X` is scanning `pre`, then `X`, whenever `pre` ends outside a literal and
  the two do not run into each other (a word on both sides of the seam, or an operator byte
  followed by `=`).
-/
import Kvql.Proofs.LexSpec
import Kvql.Proofs.LexRefine
import Kvql.Model.Parser

namespace Kvql.Proofs.PrintLex

open Kvql Kvql.Lexer Kvql.Generated Kvql.Spec Kvql.Proofs.LexSpec

/-- `compose` with the position of the (empty) pending word at the seam made explicit -/
theorem compose' (pre : Bytes) : Outside pre → ∀ (i : Nat) (w : Bytes) (p : Nat), (w = [] → p = i) →
    ∃ (toks : List Token) (w' : Bytes) (p' : Nat),
      (w' ≠ [] → (pre = [] ∧ w' = w) ∨ pre.getLast?.any wordByte = true) ∧
      (w' = [] → p' = i + pre.length) ∧
      ∀ X, Seam pre X → L (pre ++ X) i w p = toks ++ L X (i + pre.length) w' p' := by
  induction pre using step_induction with
  | nil =>
    intro _ i w p hp
    exact ⟨[], w, p, fun _ => Or.inl ⟨rfl, rfl⟩, by simpa using hp, fun X _ => by simp⟩
  | word c r hs ih =>
    intro ho i w p _
    obtain ⟨toks, w', p', hw, hp', heq⟩ :=
      ih ((Outside_step ho).2.1 hs) (i + 1) (w ++ [c]) p (by simp)
    refine ⟨toks, w', p', ?_, ?_, ?_⟩
    · intro hne
      right
      rcases hw hne with ⟨rfl, _⟩ | h
      · simpa using (stepOf_word_iff c []).mp hs
      · exact getLast?_any_append _ [c] r h
    · intro h; rw [hp' h]; simp; omega
    · intro X hX
      have hs' : stepOf c (r ++ X) = .word :=
        (stepOf_word_iff _ _).mpr ((stepOf_word_iff _ _).mp hs)
      have hX' : Seam r X := Seam_suffix (a := [c]) hX
      rw [List.cons_append, L_word hs', heq X hX']
      simp [Nat.add_assoc, Nat.add_comm 1]
  | unterm c r hs =>
    intro ho
    exact ((Outside_step ho).1 hs).elim
  | brk c r e k next hs ih =>
    intro ho i w p _
    obtain ⟨⟨taken, hsplit, hk⟩, _, _⟩ := stepOf_brk_spec hs
    obtain ⟨toks, w', p', hw, hp', heq⟩ :=
      ih ((Outside_step ho).2.2 e k next hs) (i + k) [] (i + k) (fun _ => rfl)
    have hlen : (c :: r).length = k + next.length := by rw [hsplit]; simp [hk]
    refine ⟨wordTok w p ++ emitToks e i ++ toks, w', p', ?_, ?_, ?_⟩
    · intro hne
      right
      rcases hw hne with ⟨_, h⟩ | h
      · exact (hne h).elim
      · rw [hsplit]; exact getLast?_any_append _ taken next h
    · intro h; rw [hp' h, hlen]; omega
    · intro X hX
      have hX' : Seam next X := by rw [hsplit] at hX; exact Seam_suffix hX
      rw [List.cons_append, L_brk (stepOf_append_brk hX hs), heq X hX']
      simp only [List.length_cons] at hlen
      simp [hlen, Nat.add_assoc]

/-- after a break the recorded word position is irrelevant -/
theorem L_wpos (post : Bytes) (i p p' : Nat) (h : ¬ post.head?.any wordByte = true) :
    L post i [] p = L post i [] p' := by
  cases post with
  | nil => simp [L_nil, wordTok_nil]
  | cons d r =>
    have hd : wordByte d = false := by simpa using h
    cases hs : stepOf d r with
    | word => rw [(stepOf_word_iff d r).mp hs] at hd; cases hd
    | unterm => simp [L_unterm hs, wordTok_nil]
    | brk e k next => simp [L_brk hs, wordTok_nil]

/-- `X` cannot continue a word -/
def BreakHead (X : Bytes) : Prop := ¬ X.head?.any wordByte = true

/-- Scanning `pre ++ X` from a clean state is scanning `pre`, then `X`, when `pre` ends outside
    any literal, no operator byte meets `=` at the seam, and no word runs across it. -/
theorem L_append (pre X : Bytes) (i : Nat) (ho : Outside pre) (hs : Seam pre X)
    (hb : BreakHead X ∨ ¬ pre.getLast?.any wordByte = true) :
    L (pre ++ X) i [] i = L pre i [] i ++ L X (i + pre.length) [] (i + pre.length) := by
  obtain ⟨toks, w', p', hw, hp', heq⟩ := compose' pre ho i [] i (fun _ => rfl)
  have h1 := heq [] (Seam_nil_right pre)
  have h2 := heq X hs
  simp only [List.append_nil, L_nil] at h1
  rw [h2, h1, List.append_assoc]
  congr 1
  by_cases hw' : w' = []
  · subst hw'
    rw [hp' rfl]; simp [wordTok_nil]
  · have hbx : BreakHead X := by
      rcases hb with hb | hb
      · exact hb
      · rcases hw hw' with ⟨_, h⟩ | h
        · exact (hw' h).elim
        · exact (hb h).elim
    rw [L_flush X _ w' p' hbx, L_wpos X _ p' (i + pre.length) hbx]

/-- `Outside` is closed under concatenation -/
theorem Outside_append : ∀ (a b : Bytes), Outside a → Outside b → Outside (a ++ b) := by
  intro a
  induction hn : a.length using Nat.strongRecOn generalizing a with
  | _ n ih =>
    intro b ha hb
    cases a with
    | nil => simpa using hb
    | cons c r =>
      subst hn
      by_cases hc : (isQuote c || isBackquote c) = true
      · obtain ⟨body, after, hlb, hoa⟩ := (Outside_cons_quote hc).mp ha
        rw [List.cons_append]
        apply (Outside_cons_quote hc).mpr
        refine ⟨body, after ++ b, literalBody_append b hlb, ?_⟩
        have := literalBody_length hlb
        exact ih after.length (by simp; omega) after rfl b hoa hb
      · have hc' : (isQuote c || isBackquote c) = false := by simpa using hc
        rw [List.cons_append]
        apply (Outside_cons_other hc').mpr
        exact ih r.length (by simp) r rfl b ((Outside_cons_other hc').mp ha) hb

/-- a run of word bytes joins the pending word -/
theorem L_words (d : Bytes) (hd : ∀ c ∈ d, wordByte c = true) : ∀ (X : Bytes) (i : Nat) (w : Bytes) (p : Nat),
    L (d ++ X) i w p = L X (i + d.length) (w ++ d) p := by
  induction d with
  | nil => intro X i w p; simp
  | cons c r ih =>
    intro X i w p
    have hc : wordByte c = true := hd c (by simp)
    rw [List.cons_append, L_word ((stepOf_word_iff c _).mpr hc),
      ih (fun x hx => hd x (by simp [hx]))]
    simp [Nat.add_assoc, Nat.add_comm 1]

/-- a word standing alone is one token -/
theorem L_word_alone (d : Bytes) (hd : ∀ c ∈ d, wordByte c = true) (i : Nat) :
    L d i [] i = wordTok d i := by
  have := L_words d hd [] i [] i
  simpa [L_nil] using this

/-- bytes without quotes are outside any literal -/
theorem Outside_of_noquote (d : Bytes) (hd : ∀ c ∈ d, (isQuote c || isBackquote c) = false) : Outside d := by
  induction d with
  | nil => exact Outside_nil
  | cons c r ih =>
    exact (Outside_cons_other (hd c (by simp))).mpr (ih (fun x hx => hd x (by simp [hx])))

theorem wordByte_noquote : ∀ c : UInt8, wordByte c = true → (isQuote c || isBackquote c) = false := by
  apply byte_all; decide +kernel

theorem wordByte_notop : ∀ c : UInt8, wordByte c = true → isOpChar c = false := by
  apply byte_all; decide +kernel

end Kvql.Proofs.PrintLex
