/-
  C14 (b), part 2: a statement with a fault at a given position is rejected — statement form by
  statement form (the filter of SELECT and of DELETE, a select field, a key or value of PUT, a key
  of REMOVE), for the faults `Check` finds (`FaultAny`, `Bad`: rejection propagates through the
  context, then through the statement) and for the faults the plan-time validation finds
  (`hasBadCall`: the call survives `Check`, the table of select fields and the final resolution
  of references, and is met by the walk).  The last section ties the statement forms to
  `Parser.Parse` and `PlanCheck.planStage`.
-/
import Kvql.Proofs.TypingFault

namespace Kvql.Proofs.Typing

open Kvql Kvql.Generated Kvql.PlanCheck Kvql.Parser

variable {pf : Bytes → F64}

/-- a sub-expression `Check` rejects in every context that allows `key` and `value`
    (SELECT and DELETE) -/
def FaultAny (e : Expr) : Prop :=
  ∀ ctx : CheckCtx, ctx.notAllowKey = false → ctx.notAllowValue = false → Rejects (ctx.check e)

/-! ### WHERE of SELECT -/

/-- FAULT IN THE FILTER OF A SELECT, at any position: rejected.  `ts` are the tokens after the
    WHERE keyword; the filter they parse to has the faulty sub-expression `e` in the hole of `c`. -/
theorem select_where_fault_rejected {ef lf spos : Nat} {sel : SelAcc} {wpos : Nat} {ts rest : Toks}
    {c : Ctxt} {e : Expr} (hp : parseExpr pf ef ts = .ok (plug c e, rest)) (hf : FaultAny e) :
    Rejects (parseWhere pf ef lf spos sel wpos ts) := by
  intro stmt h
  obtain ⟨expr, rest', _, _, _, _, tbl', expr', _, hp', _, _, _, _, hck, _⟩ := parseWhere_inv h
  rw [hp] at hp'
  cases hp'
  exact plug_rejects _ c e (hf _ rfl rfl) expr' hck

/-- FAULT CLASS 3, a filter that is not Boolean (SELECT) -/
theorem select_where_nonbool_rejected {ef lf spos : Nat} {sel : SelAcc} {wpos : Nat} {ts rest : Toks}
    {expr : Expr} (hp : parseExpr pf ef ts = .ok (expr, rest)) (hpl : plain expr = true)
    (ht : expr.retType ≠ tyTBOOL) : Rejects (parseWhere pf ef lf spos sel wpos ts) := by
  intro stmt h
  obtain ⟨expr0, rest', _, _, _, _, tbl', expr', _, hp', _, _, _, _, hck, hrt, _⟩ := parseWhere_inv h
  rw [hp] at hp'
  cases hp'
  rw [check_plain _ _ _ hpl hck] at hrt
  exact ht (rt_plain_eq hpl hrt)

/-- FAULT CLASS 5 in the filter of a SELECT: the statement `Parse` returns does not pass the
    plan-time validation -/
theorem select_where_badcall_rejected {ef lf spos : Nat} {sel : SelAcc} {wpos : Nat} {ts rest : Toks}
    {expr : Expr} (hp : parseExpr pf ef ts = .ok (expr, rest)) (hb : hasBadCall expr = true)
    {stmt : Stmt} (h : parseWhere pf ef lf spos sel wpos ts = .ok stmt) : Rejects (checkStmtCalls stmt) := by
  obtain ⟨expr0, rest', _, _, _, _, tbl', expr', s, hp', _, _, _, _, hck, _, hs, hw, _⟩ := parseWhere_inv h
  rw [hp] at hp'
  cases hp'
  subst hs
  simp only [checkStmtCalls]
  apply Rejects.bind
  rw [hw]
  exact walkCalls_bad _ false (resolveTop_keeps_bad tbl' expr' (check_keeps_bad _ _ _ hck hb))

/-! ### WHERE of DELETE -/

theorem parseDelete_inv' {ef lf : Nat} {ts : Toks} {stmt : Stmt} (h : parseDelete pf ef lf ts = .ok stmt) :
    ∃ ts0 ts1 wexpr ts2 w' pos wpos lim,
      expect tkDELETE ts = .ok ts0 ∧ expect tkWHERE ts0 = .ok ts1 ∧
      parseExpr pf ef ts1 = .ok (wexpr, ts2) ∧
      ({} : CheckCtx).check wexpr = .ok w' ∧ ({} : CheckCtx).rt w' = .ok tyTBOOL ∧
      stmt = .delete pos wpos w' lim := by
  unfold parseDelete at h
  split at h
  · cases h
  · obtain ⟨ts0, h0, h2⟩ := bind_ok_iff.mp h
    split at h2
    · cases h2
    · obtain ⟨ts1, h1, h3⟩ := bind_ok_iff.mp h2
      obtain ⟨⟨wexpr, ts2⟩, hp, h4⟩ := bind_ok_iff.mp h3
      dsimp only at h4
      obtain ⟨⟨lim, ts3⟩, _, h5⟩ := bind_ok_iff.mp h4
      dsimp only at h5
      split at h5
      · cases h5
      · obtain ⟨w', hck, h6⟩ := bind_ok_iff.mp h5
        obtain ⟨wt, hrt, h7⟩ := bind_ok_iff.mp h6
        split at h7
        · cases h7
        · rename_i hne
          simp only [bne_iff_ne, ne_eq, Decidable.not_not] at hne
          cases h7
          exact ⟨_, ts1, wexpr, ts2, w', _, _, lim, h0, h1, hp, hck, by rw [hrt, hne], rfl⟩

/-- FAULT IN THE FILTER OF A DELETE, at any position: rejected -/
theorem delete_where_fault_rejected {ef lf : Nat} {ts ts0 ts1 rest : Toks} {c : Ctxt} {e : Expr}
    (h0 : expect tkDELETE ts = .ok ts0) (h1 : expect tkWHERE ts0 = .ok ts1)
    (hp : parseExpr pf ef ts1 = .ok (plug c e, rest)) (hf : FaultAny e) :
    Rejects (parseDelete pf ef lf ts) := by
  intro stmt h
  obtain ⟨ts0', ts1', wexpr, ts2, w', _, _, _, h0', h1', hp', hck, _⟩ := parseDelete_inv' h
  rw [h0] at h0'; cases h0'
  rw [h1] at h1'; cases h1'
  rw [hp] at hp'; cases hp'
  exact plug_rejects _ c e (hf _ rfl rfl) w' hck

/-- FAULT CLASS 3, a filter that is not Boolean (DELETE) -/
theorem delete_where_nonbool_rejected {ef lf : Nat} {ts ts0 ts1 rest : Toks} {expr : Expr}
    (h0 : expect tkDELETE ts = .ok ts0) (h1 : expect tkWHERE ts0 = .ok ts1)
    (hp : parseExpr pf ef ts1 = .ok (expr, rest)) (hpl : plain expr = true) (ht : expr.retType ≠ tyTBOOL) :
    Rejects (parseDelete pf ef lf ts) := by
  intro stmt h
  obtain ⟨ts0', ts1', wexpr, ts2, w', _, _, _, h0', h1', hp', hck, hrt, _⟩ := parseDelete_inv' h
  rw [h0] at h0'; cases h0'
  rw [h1] at h1'; cases h1'
  rw [hp] at hp'; cases hp'
  rw [check_plain _ _ _ hpl hck] at hrt
  exact ht (rt_plain_eq hpl hrt)

/-- FAULT CLASS 5 in the filter of a DELETE -/
theorem delete_where_badcall_rejected {ef lf : Nat} {ts ts0 ts1 rest : Toks} {expr : Expr}
    (h0 : expect tkDELETE ts = .ok ts0) (h1 : expect tkWHERE ts0 = .ok ts1)
    (hp : parseExpr pf ef ts1 = .ok (expr, rest)) (hb : hasBadCall expr = true)
    {stmt : Stmt} (h : parseDelete pf ef lf ts = .ok stmt) : Rejects (checkStmtCalls stmt) := by
  obtain ⟨ts0', ts1', wexpr, ts2, w', _, _, _, h0', h1', hp', hck, _, hs⟩ := parseDelete_inv' h
  rw [h0] at h0'; cases h0'
  rw [h1] at h1'; cases h1'
  rw [hp] at hp'; cases hp'
  subst hs
  simp only [checkStmtCalls]
  exact walkCalls_bad _ false (check_keeps_bad _ _ _ hck hb)

/-! ### PUT and REMOVE -/

/-- `validatePut` keeps the pairs in order: the validated pair `i` is the `Check` of pair `i` -/
theorem validatePut_rejects (ctx : CheckCtx) (k v : Expr) (hkv : Rejects (ctx.check k) ∨ Rejects (ctx.check v))
    (post : List (Expr × Expr)) : ∀ pre : List (Expr × Expr), Rejects (validatePut ctx (pre ++ (k, v) :: post))
  | [] => by
    simp only [List.nil_append, validatePut]
    rcases hkv with hk | hv
    · exact Rejects.bind hk _
    · apply Rejects.bind_right; intro k' _
      apply Rejects.bind_right; intro tk _
      split
      · exact rejects_synErr _
      · exact Rejects.bind hv _
  | (k0, v0) :: pre => by
    simp only [List.cons_append, validatePut]
    apply Rejects.bind_right; intro k' _
    apply Rejects.bind_right; intro tk _
    split
    · exact rejects_synErr _
    · apply Rejects.bind_right; intro v' _
      apply Rejects.bind_right; intro tv _
      split
      · exact rejects_synErr _
      · exact Rejects.bind (validatePut_rejects ctx k v hkv post pre) _

theorem validateRemove_rejects (ctx : CheckCtx) (k : Expr) (hk : Rejects (ctx.check k)) (post : List Expr) :
    ∀ pre : List Expr, Rejects (validateRemove ctx (pre ++ k :: post))
  | [] => by
    simp only [List.nil_append, validateRemove]
    apply Rejects.bind_right; intro t _
    split
    · exact rejects_synErr _
    · exact Rejects.bind hk _
  | k0 :: pre => by
    simp only [List.cons_append, validateRemove]
    apply Rejects.bind_right; intro t _
    split
    · exact rejects_synErr _
    · apply Rejects.bind_right; intro k' _
      exact Rejects.bind (validateRemove_rejects ctx k hk post pre) _

/-- FAULT IN A KEY OR VALUE OF A PUT, at any position of any pair (incl. `value` anywhere): rejected.
    `pairs` is what the pair loop parsed from the tokens after PUT. -/
theorem put_fault_rejected {ef lf : Nat} {ts ts1 : Toks} {pre post : List (Expr × Expr)} {k v : Expr}
    (h0 : expect tkPUT ts = .ok ts1) (hl : putLoop pf ef lf [] ts1 = .ok (pre ++ (k, v) :: post))
    (hf : Rejects (({ notAllowValue := true } : CheckCtx).check k) ∨
          Rejects (({ notAllowValue := true } : CheckCtx).check v)) :
    Rejects (parsePut pf ef lf ts) := by
  intro stmt h
  unfold parsePut at h
  split at h
  · cases h
  · obtain ⟨ts1', h0', h2⟩ := bind_ok_iff.mp h
    rw [h0] at h0'; cases h0'
    obtain ⟨pairs, hl', h3⟩ := bind_ok_iff.mp h2
    rw [hl] at hl'; cases hl'
    obtain ⟨pairs', hv, _⟩ := bind_ok_iff.mp h3
    exact validatePut_rejects _ k v hf post pre pairs' hv

/-- FAULT IN A KEY OF A REMOVE, at any position (incl. `key` / `value` anywhere): rejected -/
theorem remove_fault_rejected {ef lf : Nat} {ts ts1 : Toks} {pre post : List Expr} {k : Expr}
    (h0 : expect tkREMOVE ts = .ok ts1) (hl : removeLoop pf ef lf [] ts1 = .ok (pre ++ k :: post))
    (hf : Rejects (({ notAllowKey := true, notAllowValue := true } : CheckCtx).check k)) :
    Rejects (parseRemove pf ef lf ts) := by
  intro stmt h
  unfold parseRemove at h
  split at h
  · cases h
  · obtain ⟨ts1', h0', h2⟩ := bind_ok_iff.mp h
    rw [h0] at h0'; cases h0'
    obtain ⟨keys, hl', h3⟩ := bind_ok_iff.mp h2
    rw [hl] at hl'; cases hl'
    obtain ⟨keys', hv, _⟩ := bind_ok_iff.mp h3
    exact validateRemove_rejects _ k hf post pre keys' hv

/-! ### select fields -/

/-- rejected by `Check` in every context that allows `key` and `value` -/
def Bad (x : Expr) : Prop :=
  ∀ ctx : CheckCtx, ctx.notAllowKey = false → ctx.notAllowValue = false → Rejects (ctx.check x)

theorem Bad.of_plug {c : Ctxt} {e : Expr} (h : FaultAny e) : Bad (plug c e) :=
  fun ctx h1 h2 => plug_rejects ctx c e (h ctx h1 h2)

theorem Bad.not_name {x : Expr} (h : Bad x) : ∀ p d, x ≠ .name p d := by
  intro p d he
  subst he
  exact h {} rfl rfl (.name p d) (by simp [CheckCtx.check])

/-- the select field at index `j` of the table is `x` -/
def Holds (tbl : Tbl) (j : Nat) (x : Expr) : Prop := ∃ nm, tbl[j]? = some (nm, x)

theorem Holds.setField_ne {tbl : Tbl} {j i : Nat} {x e : Expr} (h : Holds tbl j x) (hne : j ≠ i) :
    Holds (tbl.setField i e) j x := by
  obtain ⟨nm, h⟩ := h
  exact ⟨nm, by rw [setField_get_ne _ _ _ _ hne]; exact h⟩

theorem rewriteFieldNames_holds {j : Nat} {x : Expr} (hx : Bad x) : ∀ (n i : Nat) (tbl : Tbl) (tys : List Nat)
    (r : Tbl × List Nat), rewriteFieldNames n i tbl tys = .ok r → Holds tbl j x → Holds r.1 j x
  | 0, i, tbl, tys, r, h, hh => by
    simp only [rewriteFieldNames] at h; cases h; exact hh
  | n + 1, i, tbl, tys, r, h, hh => by
    unfold rewriteFieldNames at h
    split at h
    · cases h; exact hh
    · rename_i nm0 f hget
      split at h
      · rename_i p d
        split at h
        · split at h
          · exact rewriteFieldNames_holds hx n (i + 1) tbl tys r h hh
          · obtain ⟨f', _, h2⟩ := bind_ok_iff.mp h
            obtain ⟨t, _, h3⟩ := bind_ok_iff.mp h2
            refine rewriteFieldNames_holds hx n (i + 1) _ _ r h3 (hh.setField_ne ?_)
            intro hji
            subst hji
            obtain ⟨nm, hj⟩ := hh
            rw [hget] at hj
            cases hj
            exact hx.not_name p d rfl
        · exact rewriteFieldNames_holds hx n (i + 1) tbl tys r h hh
      · exact rewriteFieldNames_holds hx n (i + 1) tbl tys r h hh

theorem groupCheck_holds {j : Nat} {x : Expr} (hx : Bad x) : ∀ (gs : List (Bytes × GTarget)) (tbl : Tbl)
    (r : Tbl × List (Bytes × GTarget)), groupCheck tbl gs = .ok r → Holds tbl j x → Holds r.1 j x
  | [], tbl, r, h, hh => by
    simp only [groupCheck] at h; cases h; exact hh
  | (n, .sel i) :: rest, tbl, r, h, hh => by
    simp only [groupCheck] at h
    split at h
    · cases h
    · rename_i nm0 e hget
      obtain ⟨e', hck, h2⟩ := bind_ok_iff.mp h
      obtain ⟨⟨tbl', rest'⟩, h3, h4⟩ := bind_ok_iff.mp h2
      cases h4
      refine groupCheck_holds hx rest _ (tbl', rest') h3 (hh.setField_ne ?_)
      intro hji
      subst hji
      obtain ⟨nm, hj⟩ := hh
      rw [hget] at hj
      cases hj
      exact hx _ rfl rfl e' hck
  | (n, .own e) :: rest, tbl, r, h, hh => by
    simp only [groupCheck] at h
    obtain ⟨e', _, h2⟩ := bind_ok_iff.mp h
    obtain ⟨⟨tbl', rest'⟩, h3, h4⟩ := bind_ok_iff.mp h2
    cases h4
    exact groupCheck_holds hx rest tbl (tbl', rest') h3 hh

theorem clauseLoop_holds {ef lf : Nat} {j : Nat} {x : Expr} (hx : Bad x) : ∀ (fuel : Nat) (c c' : Clauses) (ts : Toks),
    clauseLoop pf ef lf fuel c ts = .ok c' → Holds c.tbl j x → Holds c'.tbl j x
  | 0, c, c', ts, h, _ => by simp [clauseLoop] at h
  | fuel + 1, c, c', ts, h, hh => by
    unfold clauseLoop at h
    split at h
    · cases h; exact hh
    · split at h
      · split at h
        · cases h
        · obtain ⟨⟨o, ts'⟩, _, h2⟩ := bind_ok_iff.mp h
          dsimp only at h2
          split at h2
          · cases h2
          · exact clauseLoop_holds hx fuel _ c' ts' h2 hh
      · split at h
        · split at h
          · cases h
          · obtain ⟨⟨⟨gpos, gfields, tbl'⟩, ts'⟩, hg, h2⟩ := bind_ok_iff.mp h
            dsimp only at h2
            split at h2
            · cases h2
            · refine clauseLoop_holds hx fuel _ c' ts' h2 ?_
              dsimp only
              unfold parseGroupBy at hg
              split at hg
              · cases hg
              · obtain ⟨ts1, _, hg2⟩ := bind_ok_iff.mp hg
                obtain ⟨ts2, _, hg3⟩ := bind_ok_iff.mp hg2
                obtain ⟨⟨fields, ts3⟩, _, hg4⟩ := bind_ok_iff.mp hg3
                dsimp only at hg4
                obtain ⟨⟨tbl2, fields2⟩, hgc, hg5⟩ := bind_ok_iff.mp hg4
                cases hg5
                exact groupCheck_holds hx fields c.tbl _ hgc hh
        · split at h
          · split at h
            · cases h
            · obtain ⟨⟨l, ts'⟩, _, h2⟩ := bind_ok_iff.mp h
              dsimp only at h2
              split at h2
              · cases h2
              · exact clauseLoop_holds hx fuel _ c' [] h2 hh
          · cases h

theorem validateFields_rejects {j : Nat} {x : Expr} (hx : Bad x) : ∀ (n i : Nat) (tbl : Tbl),
    i ≤ j → j < i + n → Holds tbl j x → Rejects (validateFields n i tbl)
  | 0, i, tbl, h1, h2, _ => by omega
  | n + 1, i, tbl, h1, h2, hh => by
    intro tbl' h
    unfold validateFields at h
    split at h
    · rename_i hnone
      obtain ⟨nm, hj⟩ := hh
      have : tbl[j]? = none := by
        rw [List.getElem?_eq_none_iff] at hnone ⊢; omega
      rw [this] at hj; cases hj
    · rename_i nm0 f hget
      obtain ⟨f', hck, h3⟩ := bind_ok_iff.mp h
      obtain ⟨u, _, h4⟩ := bind_ok_iff.mp h3
      by_cases hji : j = i
      · subst hji
        obtain ⟨nm, hj⟩ := hh
        rw [hget] at hj
        cases hj
        exact hx _ rfl rfl f' hck
      · exact validateFields_rejects hx n (i + 1) _ (by omega) (by omega) (hh.setField_ne hji) tbl' h4

/-- FAULT IN A SELECT FIELD, at any position of any field: rejected.  `sel` is the parsed select
    list; its field `j` has the faulty sub-expression `e` in the hole of `c`. -/
theorem select_field_fault_rejected {ef lf spos : Nat} {sel : SelAcc} {wpos : Nat} {ts : Toks}
    {j : Nat} {nm : Bytes} {c : Ctxt} {e : Expr}
    (hj : (sel.names.zip sel.fields)[j]? = some (nm, plug c e)) (hf : FaultAny e) :
    Rejects (parseWhere pf ef lf spos sel wpos ts) := by
  intro stmt h
  obtain ⟨expr, rest, tbl, types, cl, tbl1, tbl', expr', _, _, hrw, hcl, hv1, _⟩ := parseWhere_inv h
  have hx : Bad (plug c e) := Bad.of_plug hf
  have h0 : Holds (sel.names.zip sel.fields) j (plug c e) := ⟨nm, hj⟩
  have h1 := rewriteFieldNames_holds hx _ _ _ _ _ hrw h0
  have h2 : Holds cl.tbl j (plug c e) := clauseLoop_holds hx _ _ _ _ hcl h1
  have hjl : j < cl.tbl.length := by
    obtain ⟨nm', hj'⟩ := h2
    rcases Nat.lt_or_ge j cl.tbl.length with hlt | hge
    · exact hlt
    · rw [List.getElem?_eq_none_iff.mpr hge] at hj'; cases hj'
  exact validateFields_rejects hx _ 0 _ (Nat.zero_le _) (by omega) h2 tbl1 hv1

/-! ### unknown function / wrong argument count in a select field, PUT, REMOVE -/

/-- the select field at index `j` of the table has a bad call -/
def HoldsBad (tbl : Tbl) (j : Nat) : Prop := ∃ nm x, tbl[j]? = some (nm, x) ∧ hasBadCall x = true

theorem HoldsBad.setField_ne {tbl : Tbl} {j i : Nat} {e : Expr} (h : HoldsBad tbl j) (hne : j ≠ i) :
    HoldsBad (tbl.setField i e) j := by
  obtain ⟨nm, x, h, hb⟩ := h
  exact ⟨nm, x, by rw [setField_get_ne _ _ _ _ hne]; exact h, hb⟩

theorem HoldsBad.setField_eq {tbl : Tbl} {j : Nat} {nm0 : Bytes} {f e : Expr} (hget : tbl[j]? = some (nm0, f))
    (hb : hasBadCall e = true) : HoldsBad (tbl.setField j e) j :=
  ⟨nm0, e, setField_get_eq _ _ _ _ _ hget, hb⟩

theorem rewriteFieldNames_holdsBad {j : Nat} : ∀ (n i : Nat) (tbl : Tbl) (tys : List Nat)
    (r : Tbl × List Nat), rewriteFieldNames n i tbl tys = .ok r → HoldsBad tbl j → HoldsBad r.1 j
  | 0, i, tbl, tys, r, h, hh => by
    simp only [rewriteFieldNames] at h; cases h; exact hh
  | n + 1, i, tbl, tys, r, h, hh => by
    unfold rewriteFieldNames at h
    split at h
    · cases h; exact hh
    · rename_i nm0 f hget
      split at h
      · rename_i p d
        split at h
        · split at h
          · exact rewriteFieldNames_holdsBad n (i + 1) tbl tys r h hh
          · obtain ⟨f', _, h2⟩ := bind_ok_iff.mp h
            obtain ⟨t, _, h3⟩ := bind_ok_iff.mp h2
            refine rewriteFieldNames_holdsBad n (i + 1) _ _ r h3 (hh.setField_ne ?_)
            intro hji
            subst hji
            obtain ⟨nm, x, hj, hb⟩ := hh
            rw [hget] at hj
            cases hj
            simp [hasBadCall] at hb
        · exact rewriteFieldNames_holdsBad n (i + 1) tbl tys r h hh
      · exact rewriteFieldNames_holdsBad n (i + 1) tbl tys r h hh

theorem groupCheck_holdsBad {j : Nat} : ∀ (gs : List (Bytes × GTarget)) (tbl : Tbl)
    (r : Tbl × List (Bytes × GTarget)), groupCheck tbl gs = .ok r → HoldsBad tbl j → HoldsBad r.1 j
  | [], tbl, r, h, hh => by
    simp only [groupCheck] at h; cases h; exact hh
  | (n, .sel i) :: rest, tbl, r, h, hh => by
    simp only [groupCheck] at h
    split at h
    · cases h
    · rename_i nm0 e hget
      obtain ⟨e', hck, h2⟩ := bind_ok_iff.mp h
      obtain ⟨⟨tbl', rest'⟩, h3, h4⟩ := bind_ok_iff.mp h2
      cases h4
      refine groupCheck_holdsBad rest _ (tbl', rest') h3 ?_
      by_cases hji : j = i
      · subst hji
        obtain ⟨nm, x, hj, hb⟩ := hh
        rw [hget] at hj
        cases hj
        exact HoldsBad.setField_eq hget (check_keeps_bad _ _ _ hck hb)
      · exact hh.setField_ne hji
  | (n, .own e) :: rest, tbl, r, h, hh => by
    simp only [groupCheck] at h
    obtain ⟨e', _, h2⟩ := bind_ok_iff.mp h
    obtain ⟨⟨tbl', rest'⟩, h3, h4⟩ := bind_ok_iff.mp h2
    cases h4
    exact groupCheck_holdsBad rest tbl (tbl', rest') h3 hh

theorem clauseLoop_holdsBad {ef lf : Nat} {j : Nat} : ∀ (fuel : Nat) (c c' : Clauses) (ts : Toks),
    clauseLoop pf ef lf fuel c ts = .ok c' → HoldsBad c.tbl j → HoldsBad c'.tbl j
  | 0, c, c', ts, h, _ => by simp [clauseLoop] at h
  | fuel + 1, c, c', ts, h, hh => by
    unfold clauseLoop at h
    split at h
    · cases h; exact hh
    · split at h
      · split at h
        · cases h
        · obtain ⟨⟨o, ts'⟩, _, h2⟩ := bind_ok_iff.mp h
          dsimp only at h2
          split at h2
          · cases h2
          · exact clauseLoop_holdsBad fuel _ c' ts' h2 hh
      · split at h
        · split at h
          · cases h
          · obtain ⟨⟨⟨gpos, gfields, tbl'⟩, ts'⟩, hg, h2⟩ := bind_ok_iff.mp h
            dsimp only at h2
            split at h2
            · cases h2
            · refine clauseLoop_holdsBad fuel _ c' ts' h2 ?_
              dsimp only
              unfold parseGroupBy at hg
              split at hg
              · cases hg
              · obtain ⟨ts1, _, hg2⟩ := bind_ok_iff.mp hg
                obtain ⟨ts2, _, hg3⟩ := bind_ok_iff.mp hg2
                obtain ⟨⟨fields, ts3⟩, _, hg4⟩ := bind_ok_iff.mp hg3
                dsimp only at hg4
                obtain ⟨⟨tbl2, fields2⟩, hgc, hg5⟩ := bind_ok_iff.mp hg4
                cases hg5
                exact groupCheck_holdsBad fields c.tbl _ hgc hh
        · split at h
          · split at h
            · cases h
            · obtain ⟨⟨l, ts'⟩, _, h2⟩ := bind_ok_iff.mp h
              dsimp only at h2
              split at h2
              · cases h2
              · exact clauseLoop_holdsBad fuel _ c' [] h2 hh
          · cases h

theorem validateFields_holdsBad {j : Nat} : ∀ (n i : Nat) (tbl tbl' : Tbl),
    validateFields n i tbl = .ok tbl' → HoldsBad tbl j → HoldsBad tbl' j
  | 0, i, tbl, tbl', h, hh => by
    simp only [validateFields] at h; cases h; exact hh
  | n + 1, i, tbl, tbl', h, hh => by
    unfold validateFields at h
    split at h
    · cases h; exact hh
    · rename_i nm0 f hget
      obtain ⟨f', hck, h3⟩ := bind_ok_iff.mp h
      obtain ⟨u, _, h4⟩ := bind_ok_iff.mp h3
      refine validateFields_holdsBad n (i + 1) _ tbl' h4 ?_
      by_cases hji : j = i
      · subst hji
        obtain ⟨nm, x, hj, hb⟩ := hh
        rw [hget] at hj
        cases hj
        exact HoldsBad.setField_eq hget (check_keeps_bad _ _ _ hck hb)
      · exact hh.setField_ne hji

theorem walkFields_bad : ∀ (fs : List Expr) (f : Expr), f ∈ fs → hasBadCall f = true → Rejects (walkFields fs)
  | [], f, hf, _ => by simp at hf
  | g :: gs, f, hf, hb => by
    simp only [walkFields]
    rcases List.mem_cons.mp hf with rfl | hf'
    · exact Rejects.bind (walkCalls_bad _ true hb) _
    · exact Rejects.bind_right (fun _ _ => walkFields_bad gs f hf' hb)

/-- FAULT CLASS 5 in a select field (`select nosuch(key) where …`, `select upper() …`): the
    statement `Parse` returns does not pass the plan-time validation -/
theorem select_field_badcall_rejected {ef lf spos : Nat} {sel : SelAcc} {wpos : Nat} {ts : Toks}
    {j : Nat} {nm : Bytes} {x : Expr}
    (hj : (sel.names.zip sel.fields)[j]? = some (nm, x)) (hb : hasBadCall x = true)
    {stmt : Stmt} (h : parseWhere pf ef lf spos sel wpos ts = .ok stmt) : Rejects (checkStmtCalls stmt) := by
  obtain ⟨expr, rest, tbl, types, cl, tbl1, tbl', expr', s, _, hrw, hcl, hv1, hv2, _, _, hs, _, hfl⟩ :=
    parseWhere_inv h
  have h0 : HoldsBad (sel.names.zip sel.fields) j := ⟨nm, x, hj, hb⟩
  have h1 := rewriteFieldNames_holdsBad _ _ _ _ _ hrw h0
  have h2 := clauseLoop_holdsBad _ _ _ _ hcl h1
  have h3 := validateFields_holdsBad _ _ _ _ hv1 h2
  obtain ⟨nm', y, hy, hyb⟩ := validateFields_holdsBad _ _ _ _ hv2 h3
  subst hs
  simp only [checkStmtCalls]
  apply Rejects.bind_right
  intro _ _
  rw [hfl]
  refine walkFields_bad _ (resolveTop tbl' y) ?_ (resolveTop_keeps_bad tbl' y hyb)
  exact List.mem_map.mpr ⟨(nm', y), List.mem_of_getElem? hy, rfl⟩

theorem validatePut_bad (ctx : CheckCtx) : ∀ (pairs pairs' : List (Expr × Expr)), validatePut ctx pairs = .ok pairs' →
    (∃ p ∈ pairs, hasBadCall p.1 = true ∨ hasBadCall p.2 = true) → Rejects (walkPairs pairs')
  | [], _, _, ⟨p, hp, _⟩ => by simp at hp
  | (k, v) :: rest, pairs', h, ⟨p, hp, hb⟩ => by
    simp only [validatePut] at h
    obtain ⟨k', hk, h2⟩ := bind_ok_iff.mp h
    obtain ⟨tk, _, h3⟩ := bind_ok_iff.mp h2
    split at h3
    · cases h3
    · obtain ⟨v', hv, h4⟩ := bind_ok_iff.mp h3
      obtain ⟨tv, _, h5⟩ := bind_ok_iff.mp h4
      split at h5
      · cases h5
      · obtain ⟨rest', hr, h6⟩ := bind_ok_iff.mp h5
        cases h6
        simp only [walkPairs]
        rcases List.mem_cons.mp hp with rfl | hp'
        · rcases hb with hb | hb
          · exact Rejects.bind (walkCalls_bad _ false (check_keeps_bad _ _ _ hk hb)) _
          · exact Rejects.bind_right (fun _ _ => Rejects.bind (walkCalls_bad _ false (check_keeps_bad _ _ _ hv hb)) _)
        · exact Rejects.bind_right (fun _ _ => Rejects.bind_right (fun _ _ =>
            validatePut_bad ctx rest rest' hr ⟨p, hp', hb⟩))

theorem validateRemove_bad (ctx : CheckCtx) : ∀ (keys keys' : List Expr), validateRemove ctx keys = .ok keys' →
    (∃ k ∈ keys, hasBadCall k = true) → Rejects (walkKeys keys')
  | [], _, _, ⟨k, hk, _⟩ => by simp at hk
  | k0 :: rest, keys', h, ⟨k, hk, hb⟩ => by
    simp only [validateRemove] at h
    obtain ⟨t, _, h2⟩ := bind_ok_iff.mp h
    split at h2
    · cases h2
    · obtain ⟨k', hck, h3⟩ := bind_ok_iff.mp h2
      obtain ⟨rest', hr, h4⟩ := bind_ok_iff.mp h3
      cases h4
      simp only [walkKeys]
      rcases List.mem_cons.mp hk with rfl | hk'
      · exact Rejects.bind (walkCalls_bad _ false (check_keeps_bad _ _ _ hck hb)) _
      · exact Rejects.bind_right (fun _ _ => validateRemove_bad ctx rest rest' hr ⟨k, hk', hb⟩)

/-- FAULT CLASS 5 in a PUT -/
theorem put_badcall_rejected {ef lf : Nat} {ts ts1 : Toks} {pairs : List (Expr × Expr)}
    (h0 : expect tkPUT ts = .ok ts1) (hl : putLoop pf ef lf [] ts1 = .ok pairs)
    (hb : ∃ p ∈ pairs, hasBadCall p.1 = true ∨ hasBadCall p.2 = true)
    {stmt : Stmt} (h : parsePut pf ef lf ts = .ok stmt) : Rejects (checkStmtCalls stmt) := by
  unfold parsePut at h
  split at h
  · cases h
  · obtain ⟨ts1', h0', h2⟩ := bind_ok_iff.mp h
    rw [h0] at h0'; cases h0'
    obtain ⟨pairs0, hl', h3⟩ := bind_ok_iff.mp h2
    rw [hl] at hl'; cases hl'
    obtain ⟨pairs', hv, h4⟩ := bind_ok_iff.mp h3
    cases h4
    simp only [checkStmtCalls]
    exact validatePut_bad _ _ _ hv hb

/-- FAULT CLASS 5 in a REMOVE -/
theorem remove_badcall_rejected {ef lf : Nat} {ts ts1 : Toks} {keys : List Expr}
    (h0 : expect tkREMOVE ts = .ok ts1) (hl : removeLoop pf ef lf [] ts1 = .ok keys)
    (hb : ∃ k ∈ keys, hasBadCall k = true)
    {stmt : Stmt} (h : parseRemove pf ef lf ts = .ok stmt) : Rejects (checkStmtCalls stmt) := by
  unfold parseRemove at h
  split at h
  · cases h
  · obtain ⟨ts1', h0', h2⟩ := bind_ok_iff.mp h
    rw [h0] at h0'; cases h0'
    obtain ⟨keys0, hl', h3⟩ := bind_ok_iff.mp h2
    rw [hl] at hl'; cases hl'
    obtain ⟨keys', hv, h4⟩ := bind_ok_iff.mp h3
    cases h4
    simp only [checkStmtCalls]
    exact validateRemove_bad _ _ _ hv hb

/-! ### from the statement forms to `Parse` and `planStage` -/

theorem parse_put_eq {toks : Toks} {t : Token} {rest : Toks} (h : trimEndSemis toks = t :: rest)
    (ht : t.tp = tkPUT) :
    Parse pf toks = parsePut pf (exprFuel (t :: rest)) (loopFuel (t :: rest)) (t :: rest) := by
  unfold Parse
  simp only [h, ht]
  simp

theorem parse_remove_eq {toks : Toks} {t : Token} {rest : Toks} (h : trimEndSemis toks = t :: rest)
    (ht : t.tp = tkREMOVE) :
    Parse pf toks = parseRemove pf (exprFuel (t :: rest)) (loopFuel (t :: rest)) (t :: rest) := by
  unfold Parse
  simp only [h, ht]
  simp [tkREMOVE, tkPUT]

theorem parse_delete_eq {toks : Toks} {t : Token} {rest : Toks} (h : trimEndSemis toks = t :: rest)
    (ht : t.tp = tkDELETE) :
    Parse pf toks = parseDelete pf (exprFuel (t :: rest)) (loopFuel (t :: rest)) (t :: rest) := by
  unfold Parse
  simp only [h, ht]
  simp [tkDELETE, tkREMOVE, tkPUT]

theorem parse_where_eq {toks : Toks} {t : Token} {rest : Toks} (h : trimEndSemis toks = t :: rest)
    (ht : t.tp = tkWHERE) :
    Parse pf toks = parseWhere pf (exprFuel (t :: rest)) (loopFuel (t :: rest)) 0 { all := true } t.pos rest := by
  unfold Parse
  simp only [h, ht]
  simp [tkWHERE, tkSELECT, tkDELETE, tkREMOVE, tkPUT]

theorem parse_select_eq {toks : Toks} {t : Token} {rest : Toks} (h : trimEndSemis toks = t :: rest)
    (ht : t.tp = tkSELECT) {spos : Nat} {sel : SelAcc} {wt : Token} {ts : Toks}
    (hs : parseSelect pf (exprFuel (t :: rest)) (loopFuel (t :: rest)) (t :: rest) = .ok ((spos, sel), wt :: ts)) :
    Parse pf toks = parseWhere pf (exprFuel (t :: rest)) (loopFuel (t :: rest)) spos sel wt.pos ts := by
  unfold Parse
  simp only [h, ht]
  simp [tkSELECT, tkDELETE, tkREMOVE, tkPUT, hs]

/-- a rejection by the statement form is a rejection by `BuildPlan`, before any storage access -/
theorem planStage_rejects_of_eq {toks : Toks} {r : Res Stmt} (he : Parse pf toks = r) (h : Rejects r) :
    Rejects (planStage pf toks) :=
  planStage_rejects_of_parse (he ▸ h)

theorem planStage_rejects_of_calls_eq {toks : Toks} {r : Res Stmt} (he : Parse pf toks = r)
    (h : ∀ stmt, r = .ok stmt → Rejects (checkStmtCalls stmt)) : Rejects (planStage pf toks) :=
  planStage_rejects_of_calls (fun s hs => h s (he ▸ hs))

end Kvql.Proofs.Typing
