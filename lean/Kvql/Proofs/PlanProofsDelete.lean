/-
  C11: DELETE removes exactly what the child plan (scan, or LimitPlan over a scan) returns.

  * `DependsOn F m`: the computation `m` leaves the store alone and its result depends on the store
    only through the values of the keys in `F` (cursor scans after `Init`: no key at all — their
    cursor is a snapshot; MultiGet: the keys it has not yet read).
  * `Produces c bs fp ref s cs`: polled with `Batch` against any world that agrees with the
    reference store `ref` on the keys the state may still read (`fp`), the child in state `s`
    hands out exactly the non-empty chunks `cs`, then nothing; and the keys of a chunk handed out
    are never read again.
  * `delete_loop_correct`: `DeletePlan.execute` over such a child ends with the store minus exactly
    the keys of `cs`.
-/
import Kvql.Proofs.ScanRows
import Kvql.Proofs.PlanProofsEmits
import Kvql.Proofs.PlanProofsWrite

namespace Kvql.Proofs.Delete

open Kvql Kvql.Storage Kvql.Plans Kvql.Proofs.Plan Kvql.Proofs.Store Kvql.Proofs.Scan

/-! ### what a computation's result depends on -/

structure DependsOn (F : Bytes → Prop) (m : M α) : Prop where
  store : ∀ w, (m none w).2.store = w.store
  result : ∀ w1 w2, (∀ k, F k → w1.store.lookup k = w2.store.lookup k) → (m none w1).1 = (m none w2).1

theorem DependsOn.pure {F : Bytes → Prop} (a : α) : DependsOn F (pure a : M α) := ⟨fun _ => rfl, fun _ _ _ => rfl⟩
theorem DependsOn.throw {F : Bytes → Prop} (e : Err) : DependsOn F (M.throw e : M α) := ⟨fun _ => rfl, fun _ _ _ => rfl⟩
theorem DependsOn.ofExcept {F : Bytes → Prop} (x : Except Err α) : DependsOn F (M.ofExcept x) := by
  cases x with
  | ok a => exact DependsOn.pure a
  | error e => exact DependsOn.throw e

theorem DependsOn.call {F : Bytes → Prop} (c : Call) : DependsOn F (Storage.call c) :=
  ⟨fun w => by simp [run_call_none], fun w1 w2 _ => by simp [run_call_none]⟩

theorem DependsOn.get {F : Bytes → Prop} (k : Bytes) (hk : F k) : DependsOn F (Storage.get k) :=
  ⟨fun w => by simp [Storage.get, run_call_none],
   fun w1 w2 h => by simp [Storage.get, run_call_none, h k hk]⟩

/-- sequencing; the continuation needs to be well-behaved only on values `m` can return -/
theorem DependsOn.bind' {F : Bytes → Prop} {m : M α} {k : α → M β} (hm : DependsOn F m)
    (hk : ∀ w a w', m none w = (.ok a, w') → DependsOn F (k a)) : DependsOn F (m >>= k) := by
  refine ⟨fun w => ?_, fun w1 w2 h => ?_⟩
  · simp only [run_bind]
    have := hm.store w
    rcases hmw : m none w with ⟨r, w'⟩
    rw [hmw] at this
    cases r with
    | error e => exact this
    | ok a => simp only []; rw [(hk w a w' hmw).store w', this]
  · simp only [run_bind]
    have hr := hm.result w1 w2 h
    have hs1 := hm.store w1
    have hs2 := hm.store w2
    rcases h1 : m none w1 with ⟨r1, w1'⟩
    rcases h2 : m none w2 with ⟨r2, w2'⟩
    rw [h1, h2] at hr
    rw [h1] at hs1
    rw [h2] at hs2
    simp only at hr hs1 hs2
    subst hr
    cases r1 with
    | error e => rfl
    | ok a =>
      simp only []
      apply (hk w1 a w1' h1).result
      intro k hk'
      rw [hs1, hs2]
      exact h k hk'

theorem DependsOn.bind {F : Bytes → Prop} {m : M α} {k : α → M β} (hm : DependsOn F m)
    (hk : ∀ a, DependsOn F (k a)) : DependsOn F (m >>= k) :=
  DependsOn.bind' hm (fun _ a _ _ => hk a)

theorem DependsOn.mono {F G : Bytes → Prop} {m : M α} (h : DependsOn F m) (hfg : ∀ k, F k → G k) : DependsOn G m :=
  ⟨h.store, fun w1 w2 hg => h.result w1 w2 (fun k hk => hg k (hfg k hk))⟩

macro "dep_step" : tactic => `(tactic| first
  | exact DependsOn.pure _
  | exact DependsOn.throw _
  | exact DependsOn.call _
  | exact DependsOn.ofExcept _
  | assumption
  | apply DependsOn.bind
  | intro _
  | split)

macro "dep_auto" : tactic => `(tactic| repeat' dep_step)

theorem dep_readChunk {F : Bytes → Prop} (stop : Bytes → Bool) (i : Nat) : ∀ (rest acc : List Pair),
    DependsOn F (readChunk stop i rest acc) := by
  induction i with
  | zero => intro rest acc; unfold readChunk; dep_auto
  | succ i ih =>
    intro rest acc
    cases rest with
    | nil => unfold readChunk; dep_auto
    | cons p r =>
      unfold readChunk
      have := ih r (acc ++ [p])
      dep_auto

theorem dep_cursorBatchLoop {F : Bytes → Prop} (stop : Bytes → Bool) (filter : Filter) (bs fuel : Nat) :
    ∀ (rest ret : List Pair), DependsOn F (cursorBatchLoop stop filter bs fuel rest ret) := by
  induction fuel with
  | zero => intro rest ret; unfold cursorBatchLoop; dep_auto
  | succ fuel ih =>
    intro rest ret
    unfold cursorBatchLoop
    apply DependsOn.bind (dep_readChunk stop bs rest [])
    intro x
    obtain ⟨chunk, done, rest'⟩ := x
    try simp only []
    split
    · split
      · dep_auto
      · exact ih _ _
    · apply DependsOn.bind (DependsOn.ofExcept _)
      intro ms
      try simp only []
      split
      · dep_auto
      · split
        · dep_auto
        · exact ih _ _

theorem dep_mgetReadChunk (i : Nat) : ∀ (ks : List Bytes) (acc : List Pair),
    DependsOn (· ∈ ks) (mgetReadChunk i ks acc) := by
  induction i with
  | zero => intro ks acc; unfold mgetReadChunk; dep_auto
  | succ i ih =>
    intro ks acc
    cases ks with
    | nil => unfold mgetReadChunk; dep_auto
    | cons k ks =>
      unfold mgetReadChunk
      apply DependsOn.bind (DependsOn.get k List.mem_cons_self)
      intro v
      cases v with
      | none => exact (ih _ _).mono (fun k hk => List.mem_cons_of_mem _ hk)
      | some v => exact (ih _ _).mono (fun k hk => List.mem_cons_of_mem _ hk)

/-- whatever the world, the keys `mgetReadChunk` leaves are among those it was given -/
theorem mgetReadChunk_rest (i : Nat) (ks : List Bytes) (acc : List Pair) (w : World) (a : List Pair × Bool × List Bytes)
    (w' : World) (h : mgetReadChunk i ks acc none w = (.ok a, w')) : ∀ q ∈ a.2.2, q ∈ ks := by
  obtain ⟨w1, h1, _⟩ := mgetReadChunk_spec w.store i ks acc w rfl
  rw [h1] at h
  simp only [Prod.mk.injEq, Except.ok.injEq] at h
  rw [← h.1]
  exact (pureMgetChunk_spec w.store i ks).2.2.2.2.1

theorem dep_mgetBatchLoop (filter : Filter) (bs fuel : Nat) :
    ∀ (ks : List Bytes) (ret : List Pair), DependsOn (· ∈ ks) (mgetBatchLoop filter bs fuel ks ret) := by
  induction fuel with
  | zero => intro ks ret; unfold mgetBatchLoop; dep_auto
  | succ fuel ih =>
    intro ks ret
    unfold mgetBatchLoop
    apply DependsOn.bind' (dep_mgetReadChunk bs ks [])
    intro w x w' hx
    have hsub := mgetReadChunk_rest bs ks [] w x w' hx
    obtain ⟨chunk, fin, ks'⟩ := x
    try simp only []
    have ih' : ∀ ret', DependsOn (· ∈ ks) (mgetBatchLoop filter bs fuel ks' ret') :=
      fun ret' => (ih ks' ret').mono hsub
    split
    · apply DependsOn.bind (DependsOn.pure _)
      intro ret'
      split
      · dep_auto
      · exact ih' _
    · apply DependsOn.bind (DependsOn.ofExcept _)
      intro ms
      apply DependsOn.bind (DependsOn.pure _)
      intro ret'
      split
      · dep_auto
      · exact ih' _

/-- the keys a scan state may still read from the live store -/
def scanFp (st : ScanSt) : Bytes → Prop := fun k => k ∈ st.keysLeft

theorem dep_scanBatch (node : ScanNode) (filter : Filter) (bs : Nat) (st : ScanSt) :
    DependsOn (scanFp st) (node.batch filter bs st) := by
  unfold ScanNode.batch
  split
  · exact DependsOn.bind (dep_mgetBatchLoop _ _ _ _ _) (by dep_auto)
  · dep_auto
  · split
    · dep_auto
    · split
      · dep_auto
      · exact DependsOn.bind (dep_cursorBatchLoop _ _ _ _ _ _) (by dep_auto)

/-! ### MultiGet hands out keys of the part of the list it has passed -/

theorem pureMgetChunk_split (s : Store) : ∀ (i : Nat) (ks : List Bytes),
    ∃ pre, ks = pre ++ (pureMgetChunk s i ks).2.2 ∧ ∀ q ∈ (pureMgetChunk s i ks).1, q.1 ∈ pre := by
  intro i
  induction i with
  | zero => intro ks; exact ⟨[], by simp [pureMgetChunk], by simp [pureMgetChunk]⟩
  | succ i ih =>
    intro ks
    cases ks with
    | nil => exact ⟨[], by simp [pureMgetChunk], by simp [pureMgetChunk]⟩
    | cons k ks =>
      obtain ⟨pre, h1, h2⟩ := ih ks
      simp only [pureMgetChunk]
      cases s.lookup k with
      | none =>
        exact ⟨k :: pre, by simp only [List.cons_append]; rw [← h1], fun q hq => List.mem_cons_of_mem _ (h2 q hq)⟩
      | some v =>
        refine ⟨k :: pre, by simp only [List.cons_append]; rw [← h1], ?_⟩
        intro q hq
        rcases List.mem_cons.mp hq with e | hq
        · subst e; exact List.mem_cons_self
        · exact List.mem_cons_of_mem _ (h2 q hq)

theorem mem_selectMatches : ∀ (chunk : List Pair) (ms : List Bool) q, q ∈ selectMatches chunk ms → q ∈ chunk := by
  intro chunk
  induction chunk with
  | nil => intro ms q h; cases ms <;> simp [selectMatches] at h
  | cons p r ih =>
    intro ms q h
    cases ms with
    | nil => simp [selectMatches] at h
    | cons b bs =>
      simp only [selectMatches] at h
      split at h
      · rcases List.mem_cons.mp h with e | h
        · subst e; exact List.mem_cons_self
        · exact List.mem_cons_of_mem _ (ih bs q h)
      · exact List.mem_cons_of_mem _ (ih bs q h)

theorem mgetBatchLoop_split (filter : Filter) (bs : Nat) : ∀ (fuel : Nat) (ks : List Bytes) (ret : List Pair)
    (w : World) (out : List Pair) (ks' : List Bytes) (w' : World),
    mgetBatchLoop filter bs fuel ks ret none w = (.ok (out, ks'), w') →
    ∃ pre, ks = pre ++ ks' ∧ ∀ q ∈ out, q ∈ ret ∨ q.1 ∈ pre := by
  intro fuel
  induction fuel with
  | zero => intro ks ret w out ks' w' h; simp [mgetBatchLoop] at h
  | succ fuel ih =>
    intro ks ret w out ks' w' h
    obtain ⟨w1, h1, _⟩ := mgetReadChunk_spec w.store bs ks [] w rfl
    obtain ⟨pre1, hp1, hq1⟩ := pureMgetChunk_split w.store bs ks
    simp only [mgetBatchLoop, run_bind, h1, List.nil_append] at h
    generalize pureMgetChunk w.store bs ks = x at *
    obtain ⟨chunk, fin, ks1⟩ := x
    simp only at h hp1 hq1
    -- in both branches the rows kept so far are `ret` plus pairs of the chunk
    have key : ∀ ret', (∀ q ∈ ret', q ∈ ret ∨ q.1 ∈ pre1) →
        (if (fin || decide (ret'.length ≥ bs)) = true then (pure (ret', ks1) : M (List Pair × List Bytes))
          else mgetBatchLoop filter bs fuel ks1 ret') none w1 = (.ok (out, ks'), w') →
        ∃ pre, ks = pre ++ ks' ∧ ∀ q ∈ out, q ∈ ret ∨ q.1 ∈ pre := by
      intro ret' hret' h
      split at h
      · simp only [run_pure, Prod.mk.injEq, Except.ok.injEq] at h
        obtain ⟨⟨e1, e2⟩, _⟩ := h
        subst e1 e2
        exact ⟨pre1, hp1, hret'⟩
      · obtain ⟨pre2, hp2, hq2⟩ := ih ks1 ret' w1 out ks' w' h
        refine ⟨pre1 ++ pre2, by rw [hp1, hp2, List.append_assoc], ?_⟩
        intro q hq
        rcases hq2 q hq with h' | h'
        · rcases hret' q h' with h'' | h''
          · exact .inl h''
          · exact .inr (List.mem_append.mpr (.inl h''))
        · exact .inr (List.mem_append.mpr (.inr h'))
    cases hce : chunk.isEmpty with
    | true =>
      simp only [hce, if_true, run_bind, run_pure] at h
      exact key ret (fun q hq => .inl hq) h
    | false =>
      simp only [hce, Bool.false_eq_true, if_false, run_bind] at h
      cases hfc : filterChunk filter chunk with
      | error e => simp [hfc] at h
      | ok ms =>
        simp only [hfc, run_ofExcept_ok, run_pure] at h
        refine key (ret ++ selectMatches chunk ms) ?_ h
        intro q hq
        rcases List.mem_append.mp hq with h' | h'
        · exact .inl h'
        · exact .inr (hq1 q (mem_selectMatches _ _ _ h'))

/-! ### children that hand out a fixed list of chunks -/

/-- the world agrees with the reference store on every key the state may still read -/
def Agree (fp : σ → Bytes → Prop) (ref : Store) (s : σ) (w : World) : Prop :=
  ∀ k, fp s k → w.store.lookup k = ref.lookup k

inductive Produces (c : Child σ) (bs : Nat) (fp : σ → Bytes → Prop) (ref : Store) : σ → List (List Pair) → Prop
  /-- the child is dry: `Batch` returns nothing, and from then on does nothing at all -/
  | done {s s' : σ} :
      (∀ w, Agree fp ref s w → ∃ w', c.batch bs s none w = (.ok ([], s'), w') ∧ w'.store = w.store) →
      (∀ w, c.batch bs s' none w = (.ok ([], s'), w)) →
      (∀ k, fp s' k → fp s k) →
      Produces c bs fp ref s []
  /-- `Batch` hands out the non-empty chunk `x`; its keys are never read again -/
  | more {s s' : σ} {x : List Pair} {cs : List (List Pair)} : x ≠ [] →
      (∀ w, Agree fp ref s w → ∃ w', c.batch bs s none w = (.ok (x, s'), w') ∧ w'.store = w.store) →
      (∀ k, fp s' k → fp s k) → (∀ p ∈ x, ¬ fp s' p.1) →
      Produces c bs fp ref s' cs → Produces c bs fp ref s (x :: cs)

theorem eraseMany_append (s : Store) (a b : List Bytes) : (s.eraseMany a).eraseMany b = s.eraseMany (a ++ b) := by
  simp [Store.eraseMany, List.foldl_append]

theorem run_batchDelete_none (ks : List Bytes) (w : World) :
    batchDelete ks none w = (.ok (), { store := w.store.eraseMany ks, log := w.log ++ [⟨.batchDelete ks, false⟩] }) := by
  simp [batchDelete, run_call_none]

/-- `DeletePlan.execute` over a child that produces `cs`: it deletes exactly the keys of `cs`, and
    reports their number -/
theorem delete_loop_correct {c : Child σ} {bs : Nat} {fp : σ → Bytes → Prop} {ref : Store} :
    ∀ {s : σ} {cs : List (List Pair)}, Produces c bs fp ref s cs →
    ∀ (fuel count : Nat) (w : World), cs.length < fuel → Agree fp ref s w →
    ∃ s' w', DeletePlan.loop c bs fuel count s none w =
        (((.ok (count + cs.flatten.length), count + cs.flatten.length), s'), w') ∧
      w'.store = w.store.eraseMany (cs.flatten.map (·.1)) := by
  intro s cs hp
  induction hp with
  | @done s s' h1 _ _ =>
    intro fuel count w hfuel hag
    obtain ⟨w1, hb, hs⟩ := h1 w hag
    obtain ⟨fuel', hf⟩ : ∃ f', fuel = f' + 1 := ⟨fuel - 1, by omega⟩
    subst hf
    refine ⟨s', w1, ?_, by simp [hs, Store.eraseMany]⟩
    simp only [DeletePlan.loop, hb, List.isEmpty_nil, if_true, List.flatten_nil, List.length_nil, Nat.add_zero]
  | @more s s' x cs hx h1 hfp hdis _ ih =>
    intro fuel count w hfuel hag
    obtain ⟨w1, hb, hs⟩ := h1 w hag
    obtain ⟨fuel', hf⟩ : ∃ f', fuel = f' + 1 := ⟨fuel - 1, by simp at hfuel; omega⟩
    subst hf
    have hne : x.isEmpty = false := by cases x with | nil => exact absurd rfl hx | cons _ _ => rfl
    simp only [DeletePlan.loop, hb, hne, Bool.false_eq_true, if_false, run_batchDelete_none]
    -- the deleted keys are not read again: the new world still agrees with the reference
    have hag' : Agree fp ref s' { store := w1.store.eraseMany (x.map (·.1)), log := w1.log ++ [⟨.batchDelete (x.map (·.1)), false⟩] } := by
      intro k hk
      simp only [lookup_eraseMany]
      have hnot : k ∉ x.map (·.1) := by
        intro hmem
        obtain ⟨p, hp, e⟩ := List.mem_map.mp hmem
        exact hdis p hp (e ▸ hk)
      simp only [hnot, if_false, hs]
      exact hag k (hfp k hk)
    obtain ⟨s'', w'', hl, hst⟩ := ih fuel' (count + x.length) _ (by simp at hfuel; omega) hag'
    refine ⟨s'', w'', ?_, ?_⟩
    · rw [hl]; simp [Nat.add_assoc]
    · rw [hst]; simp [eraseMany_append, hs]

/-! ### the scan plans produce their rows -/

/-- one `Batch` of a cursor scan, against any world: the same chunk, the same new state -/
theorem cursor_batch_any (node : ScanNode) (hc : node.isCursorScan = true) (filter : Filter) (bs : Nat) (hbs : 1 ≤ bs)
    (snap rest : List Pair) (hev : ∀ p ∈ rest, node.stop p.1 = false → Evaluable filter p) :
    ∃ X r' d, (∀ w, ∃ w', (node.child filter).batch bs (cursorSt snap rest [] false) none w =
          (.ok (X, cursorSt snap r' [] d), w') ∧ w'.store = w.store) ∧
      scanRows node.stop filter rest = X ++ (if d then [] else scanRows node.stop filter r') ∧
      (d = false → X ≠ []) ∧ (X ≠ [] → r'.length < rest.length) ∧ (∀ q ∈ r', q ∈ rest) := by
  obtain ⟨w1, X, r1, d, h1, _, hr1, hd1, _, hl1, hm1⟩ :=
    cursorBatchLoop_spec node.stop filter bs hbs (rest.length + 1) rest [] (by omega) (by simp; omega) hev
      { store := [] }
  refine ⟨X, r1, d, ?_, hr1, hd1, hl1, hm1⟩
  intro w
  have hdep := dep_scanBatch node filter bs (cursorSt snap rest [] false)
  have h0 : (node.batch filter bs (cursorSt snap rest [] false) none { store := [] }).1 =
      .ok (X, cursorSt snap r1 [] d) := by
    rw [scanBatch_cursor node hc]
    simp only [run_bind, h1, List.nil_append, run_pure]
  have hres := hdep.result w { store := [] } (by intro k hk; simp [scanFp] at hk)
  rw [h0] at hres
  refine ⟨(node.batch filter bs (cursorSt snap rest [] false) none w).2, ?_, hdep.store w⟩
  show node.batch filter bs (cursorSt snap rest [] false) none w = _
  rw [← hres]

theorem cursor_stable (node : ScanNode) (hc : node.isCursorScan = true) (filter : Filter) (bs : Nat)
    (snap r' : List Pair) (w : World) :
    (node.child filter).batch bs (cursorSt snap r' [] true) none w = (.ok ([], cursorSt snap r' [] true), w) := by
  show node.batch filter bs (cursorSt snap r' [] true) none w = _
  rw [(scan_done node hc filter bs snap r' []).2]; rfl

theorem cursor_produces (node : ScanNode) (hc : node.isCursorScan = true) (filter : Filter) (bs : Nat) (hbs : 1 ≤ bs)
    (ref : Store) (snap : List Pair) : ∀ (n : Nat) (rest : List Pair), rest.length < n →
    (∀ p ∈ rest, node.stop p.1 = false → Evaluable filter p) →
    ∃ cs, Produces (node.child filter) bs scanFp ref (cursorSt snap rest [] false) cs ∧
      cs.flatten = scanRows node.stop filter rest ∧ cs.length ≤ rest.length := by
  intro n
  induction n with
  | zero => intro rest h; omega
  | succ n ih =>
    intro rest hlen hev
    obtain ⟨X, r', d, hb, hrows, hd, hl, hm⟩ := cursor_batch_any node hc filter bs hbs snap rest hev
    have hdone : Produces (node.child filter) bs scanFp ref (cursorSt snap r' [] true) [] :=
      .done (fun w _ => ⟨w, cursor_stable node hc filter bs snap r' w, rfl⟩) (cursor_stable node hc filter bs snap r')
        (fun k hk => hk)
    by_cases hX : X = []
    · subst hX
      have hdt : d = true := by cases d with | true => rfl | false => exact absurd rfl (hd rfl)
      subst hdt
      exact ⟨[], .done (fun w _ => hb w) (cursor_stable node hc filter bs snap r') (fun k hk => hk),
        by simpa using hrows.symm, by simp⟩
    · have hlt := hl hX
      cases d with
      | true =>
        refine ⟨[X], .more hX (fun w _ => hb w) (fun k hk => hk) (fun p _ h => by simp [scanFp] at h) hdone, ?_, ?_⟩
        · simpa using hrows.symm
        · simp; omega
      | false =>
        obtain ⟨cs, hp, hf, hcl⟩ := ih r' (by omega) (fun q hq => hev q (hm q hq))
        refine ⟨X :: cs, .more hX (fun w _ => hb w) (fun k hk => hk) (fun p _ h => by simp [scanFp] at h) hp, ?_, ?_⟩
        · simp [hf, hrows]
        · simp; omega

/-- one `Batch` of a MultiGet, against any world that agrees with `ref` on the keys still to read -/
theorem mget_batch_any (K : List Bytes) (filter : Filter) (bs : Nat) (hbs : 1 ≤ bs) (ref : Store) (ks : List Bytes)
    (hev : EvaluableOn ref filter ks) :
    ∃ X ks', (∀ w, Agree scanFp ref (mgetSt ks) w → ∃ w', ((ScanNode.mget K).child filter).batch bs (mgetSt ks) none w =
          (.ok (X, mgetSt ks'), w') ∧ w'.store = w.store) ∧
      mgetRows ref filter ks = X ++ mgetRows ref filter ks' ∧
      (X = [] → ks' = []) ∧ (X ≠ [] → ks'.length < ks.length) ∧
      (∃ pre, ks = pre ++ ks' ∧ ∀ q ∈ X, q.1 ∈ pre) := by
  obtain ⟨w1, X, ks1, h1, _, hr1, hx1, _, hl1, _⟩ :=
    mgetBatchLoop_spec ref filter bs hbs (ks.length + 1) ks [] (by omega) (by simp; omega) hev { store := ref } rfl
  obtain ⟨pre, hp1, hp2⟩ := mgetBatchLoop_split filter bs _ _ _ _ _ _ _ h1
  simp only [List.nil_append] at h1 hp2
  refine ⟨X, ks1, ?_, hr1, hx1, hl1, pre, hp1, fun q hq => (hp2 q hq).resolve_left (by simp)⟩
  intro w hag
  have hdep := dep_scanBatch (.mget K) filter bs (mgetSt ks)
  have h0 : ((ScanNode.mget K).batch filter bs (mgetSt ks) none { store := ref }).1 = .ok (X, mgetSt ks1) := by
    simp only [ScanNode.batch, run_bind, h1, run_pure]
  have hres := hdep.result w { store := ref } (fun k hk => hag k hk)
  rw [h0] at hres
  refine ⟨((ScanNode.mget K).batch filter bs (mgetSt ks) none w).2, ?_, hdep.store w⟩
  show (ScanNode.mget K).batch filter bs (mgetSt ks) none w = _
  rw [← hres]

theorem mget_stable (K : List Bytes) (filter : Filter) (bs : Nat) (hbs : 1 ≤ bs) (w : World) :
    ((ScanNode.mget K).child filter).batch bs (mgetSt []) none w = (.ok ([], mgetSt []), w) := by
  show (ScanNode.mget K).batch filter bs (mgetSt []) none w = _
  obtain ⟨n, hn⟩ : ∃ n, bs = n + 1 := ⟨bs - 1, by omega⟩
  subst hn
  simp [ScanNode.batch, mgetBatchLoop, mgetReadChunk]

theorem mget_produces (K : List Bytes) (filter : Filter) (bs : Nat) (hbs : 1 ≤ bs) (ref : Store) :
    ∀ (n : Nat) (ks : List Bytes), ks.length < n → ks.Pairwise (· < ·) → EvaluableOn ref filter ks →
    ∃ cs, Produces ((ScanNode.mget K).child filter) bs scanFp ref (mgetSt ks) cs ∧
      cs.flatten = mgetRows ref filter ks ∧ cs.length ≤ ks.length := by
  intro n
  induction n with
  | zero => intro ks h; omega
  | succ n ih =>
    intro ks hlen hsorted hev
    obtain ⟨X, ks', hb, hrows, hx, hl, pre, hpre, hkeys⟩ := mget_batch_any K filter bs hbs ref ks hev
    by_cases hX : X = []
    · subst hX
      have := hx rfl
      subst this
      exact ⟨[], .done hb (mget_stable K filter bs hbs) (fun k hk => by simp [scanFp] at hk),
        by simpa [mgetRows, found] using hrows.symm, by simp⟩
    · have hlt := hl hX
      have hsub : ∀ q ∈ ks', q ∈ ks := fun q hq => by rw [hpre]; exact List.mem_append.mpr (.inr hq)
      have hsorted' : ks'.Pairwise (· < ·) := by
        rw [hpre] at hsorted
        exact (List.pairwise_append.mp hsorted).2.1
      obtain ⟨cs, hp, hf, hcl⟩ := ih ks' (by omega) hsorted' (hev.sub hsub)
      refine ⟨X :: cs, .more hX hb (fun k hk => hsub k hk) ?_ hp, by simp [hf, hrows], by simp; omega⟩
      -- a key handed out lies in the part of the (strictly ascending) list that was passed
      intro p hp' hin
      have hpp := hkeys p hp'
      rw [hpre] at hsorted
      have := (List.pairwise_append.mp hsorted).2.2 p.1 hpp p.1 hin
      exact absurd this (key_lt_irrefl _)

/-! ### DELETE without LIMIT, scan-and-delete strategy -/

theorem buildPlan_delete_cursor (node : ScanNode) (hc : node.isCursorScan = true) (filter : Filter) (hasAnd : Bool)
    (w : World) :
    ∃ w', buildPlan (.delete node filter hasAnd none) none w =
        (.ok (.deleteScan node filter false (cursorSt w.store (node.startRest w.store) [] false)), w') ∧
      w'.store = w.store := by
  cases node with
  | mget ks => simp [ScanNode.isCursorScan] at hc
  | empty => simp [ScanNode.isCursorScan] at hc
  | full =>
    simp [buildPlan, buildPlan1, Plan.init, ScanNode.init, ScanNode.newState, cursor, Cursor.seek, run_call_none,
      ScanNode.startRest, cursorSt]
  | «prefix» p =>
    simp [buildPlan, buildPlan1, Plan.init, ScanNode.init, ScanNode.newState, cursor, Cursor.seek, run_call_none,
      ScanNode.startRest, cursorSt]
  | range a b =>
    cases a with
    | none =>
      simp [buildPlan, buildPlan1, Plan.init, ScanNode.init, ScanNode.newState, cursor, run_call_none,
        ScanNode.startRest, cursorSt]
    | some a =>
      simp [buildPlan, buildPlan1, Plan.init, ScanNode.init, ScanNode.newState, cursor, Cursor.seek, run_call_none,
        ScanNode.startRest, cursorSt]

theorem buildPlan_delete_mget (ks : List Bytes) (filter : Filter) (w : World) :
    buildPlan (.delete (.mget ks) filter true none) none w =
      (.ok (.deleteScan (.mget ks) filter false (mgetSt ks)), w) := by
  simp [buildPlan, buildPlan1, Plan.init, ScanNode.init, ScanNode.newState]

theorem buildPlan_delete_empty (filter : Filter) (hasAnd : Bool) (limit : Option (Nat × Nat)) (w : World) :
    buildPlan (.delete .empty filter hasAnd limit) none w = (.ok (.deleteScan .empty filter false {}), w) := by
  simp [buildPlan, buildPlan1, Plan.init, ScanNode.init]

theorem buildPlan_delete_shortcut (ks : List Bytes) (filter : Filter) (w : World) :
    buildPlan (.delete (.mget ks) filter false none) none w = (.ok (.remove (ks.map .ok) false), w) := by
  simp [buildPlan, buildPlan1, Plan.init]

/-- a run of a DELETE plan whose child produces `cs` -/
theorem run_deleteScan {node : ScanNode} {filter : Filter} {st : ScanSt} {cs : List (List Pair)} {ref : Store}
    (bs : Nat) (hp : Produces (node.child filter) bs scanFp ref st cs) (hlen : cs.length ≤ st.size)
    (kind : PollKind) (w : World) (hag : Agree scanFp ref st w) :
    ∃ w', drain kind bs (st.size + 2) (.deleteScan node filter false st) [] none w =
        (⟨.ok, [[.count cs.flatten.length]]⟩, w') ∧
      w'.store = w.store.eraseMany (cs.flatten.map (·.1)) := by
  obtain ⟨s', w', hl, hs⟩ := delete_loop_correct hp (st.size + 2) 0 w (by omega) hag
  refine ⟨w', ?_, hs⟩
  simp only [Nat.zero_add] at hl
  cases kind <;> simp [drain, Plan.poll, hl]

/-- the stored pairs a `select *` over the node returns (see `scan_rows`) -/
abbrev selected (node : ScanNode) (filter : Filter) (store : Store) : List Pair := expectedRows node filter store

theorem delete_scan_run (node : ScanNode) (hwf : ScanNode.WellFormed node) (filter : Filter) (hasAnd : Bool)
    (hstrategy : ∀ ks, node = .mget ks → hasAnd = true)
    (store : Store) (hs : store.Sorted) (hev : ∀ p ∈ store, node.inRegion p.1 = true → Evaluable filter p)
    (kind : PollKind) (bs : Nat) (hbs : 1 ≤ bs) :
    (run (.delete node filter hasAnd none) kind bs none store).1 =
        ⟨.ok, [[.count (selected node filter store).length]]⟩ ∧
    (run (.delete node filter hasAnd none) kind bs none store).2.store =
        store.eraseMany ((selected node filter store).map (·.1)) := by
  by_cases hc : node.isCursorScan = true
  · obtain ⟨w0, hb, hs0⟩ := buildPlan_delete_cursor node hc filter hasAnd { store := store }
    have hreg := region_of_cursor_scan node hc hs
    have hsub : ∀ p ∈ node.startRest store, p ∈ store := by
      intro p hp
      cases node with
      | mget ks => simp [ScanNode.isCursorScan] at hc
      | empty => simp [ScanNode.isCursorScan] at hc
      | full => exact (List.dropWhile_sublist _).subset hp
      | «prefix» pre => exact (List.dropWhile_sublist _).subset hp
      | range a b =>
        cases a with
        | none => exact hp
        | some a => exact (List.dropWhile_sublist _).subset hp
    have hev' : ∀ p ∈ node.startRest store, node.stop p.1 = false → Evaluable filter p :=
      fun p hp hstop => hev p (hsub p hp) (inRegion_of_startRest node hc hs p hp hstop)
    have hrows : scanRows node.stop filter (node.startRest store) = selected node filter store := by
      simp only [scanRows, selected, expectedRows, hreg]
    obtain ⟨cs, hp, hf, hcl⟩ := cursor_produces node hc filter bs hbs store store
      ((node.startRest store).length + 1) (node.startRest store) (by omega) hev'
    obtain ⟨w1, hd, hs1⟩ := run_deleteScan bs hp (by simpa [ScanSt.size] using hcl) kind w0
      (by intro k hk; simp [scanFp] at hk)
    simp only [run, runG, hb, Plan.size]
    rw [hd, hs1, hs0, hf, hrows]
    exact ⟨rfl, rfl⟩
  · cases node with
    | full => simp [ScanNode.isCursorScan] at hc
    | «prefix» pre => simp [ScanNode.isCursorScan] at hc
    | range a b => simp [ScanNode.isCursorScan] at hc
    | empty =>
      have : selected .empty filter store = [] := by simp [selected, expectedRows, ScanNode.inRegion]
      rw [this]
      cases kind <;>
        simp [run, runG, buildPlan_delete_empty, Plan.size, ScanSt.size, drain, Plan.poll, DeletePlan.loop,
          ScanNode.child, ScanNode.batch, Store.eraseMany]
    | mget ks =>
      have hand : hasAnd = true := hstrategy ks rfl
      subst hand
      have hks : ks.Pairwise (· < ·) := hwf
      have hevon : EvaluableOn store filter ks := by
        intro k hk v hl
        exact hev (k, v) ((mem_iff_lookup hs k v).mpr hl) (by simpa [ScanNode.inRegion] using hk)
      have hrows : mgetRows store filter ks = selected (.mget ks) filter store := by
        simp only [mgetRows, selected, expectedRows, found_eq_filter hs hks, ScanNode.inRegion]
      obtain ⟨cs, hp, hf, hcl⟩ := mget_produces ks filter bs hbs store (ks.length + 1) ks (by omega) hks hevon
      obtain ⟨w1, hd, hs1⟩ := run_deleteScan bs hp (by simpa [ScanSt.size] using hcl) kind { store := store }
        (by intro k _; rfl)
      simp only [run, runG, buildPlan_delete_mget, Plan.size]
      rw [hd, hs1, hf, hrows]
      exact ⟨rfl, rfl⟩

/-- the direct-removal strategy (`delete where key in (…)` without `&` and without LIMIT): correct
    when the filter accepts every stored pair whose key is listed — which is what the planner's
    choice of this strategy asserts -/
theorem delete_shortcut_run (ks : List Bytes) (filter : Filter) (store : Store)
    (hexact : ∀ p ∈ store, p.1 ∈ ks → filter p = .ok true) (kind : PollKind) (bs : Nat) :
    (run (.delete (.mget ks) filter false none) kind bs none store).1 = ⟨.ok, [[.count ks.length]]⟩ ∧
    (run (.delete (.mget ks) filter false none) kind bs none store).2.store =
        store.eraseMany ((selected (.mget ks) filter store).map (·.1)) := by
  have hev : evalKeys (ks.map .ok) = .ok ks := by
    induction ks with
    | nil => rfl
    | cons k r ih =>
      have := ih (fun p hp hk => hexact p hp (List.mem_cons_of_mem _ hk))
      simp [evalKeys, this]
  have hsel : selected (.mget ks) filter store = store.filter (fun p => decide (p.1 ∈ ks)) := by
    simp only [selected, expectedRows, ScanNode.inRegion]
    rw [List.filter_eq_self]
    intro p hp
    obtain ⟨hm, hk⟩ := List.mem_filter.mp hp
    simp [accepts, hexact p hm (of_decide_eq_true hk)]
  have hstore : store.eraseMany ((store.filter (fun p => decide (p.1 ∈ ks))).map (·.1)) = store.eraseMany ks := by
    rw [eraseMany_eq_filter, eraseMany_eq_filter]
    apply List.filter_congr
    intro p hp
    simp only [List.mem_map, List.mem_filter, decide_eq_true_eq, decide_eq_decide]
    constructor
    · intro h hk; exact h ⟨p, ⟨hp, hk⟩, rfl⟩
    · rintro h ⟨q, ⟨_, hq⟩, e⟩; exact h (e ▸ hq)
  have hr : run (.delete (.mget ks) filter false none) kind bs none store =
      (⟨.ok, [[.count ks.length]]⟩, { store := store.eraseMany ks, log := (removeCall ks).map (⟨·, false⟩) }) := by
    simp [run, runG, buildPlan_delete_shortcut, drain, Plan.poll, writePoll, removeExecute_ok hev]
  rw [hr, hsel, hstore]
  exact ⟨rfl, rfl⟩

end Kvql.Proofs.Delete
