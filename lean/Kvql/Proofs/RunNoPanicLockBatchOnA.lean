/-
  RunNoPanic, part 10b/A: the vector evaluator on ONE chunk with the field cache ON, WITHOUT any hypothesis
  about the alias table (`Functional` / `FieldsAgree` of C05 are not available).

  `FS k C0 x T` — for a computation `x` that evaluates a non-empty chunk whose first key is `k`:
    * FRAME (`fr`): the result depends only on `present`, `enable` and the columns cached AT THE KEY `k`
      (`AgreeAt k`), and the contexts left behind agree at `k` again;
    * BOOKKEEPING (`un`), from a context whose cache is on: the cache stays on; `FieldChunkCaches[name]` is what
      it was when the chunk was started (`C0`) plus — if `name` has a column for this chunk — that column
      (`Loc`); columns cached under other first keys are untouched (`Other`); and, when `x` succeeds, the set
      of names that have a column for this chunk turns from `S` into `T S`, a function of the EXPRESSION only
      (`touch` of CacheBatchSim.lean).
  `execBatch_fs`: `FS (fk ch) C0 (execBatch e ch) (touch e)` for every expression, by the mutual induction of
  CacheBatchInd.lean.
-/
import Kvql.Proofs.RunNoPanicLockBatch

set_option linter.unusedSectionVars false
set_option linter.unusedSimpArgs false
set_option linter.unusedVariables false

namespace Kvql.Proofs.RunNoPanic.LockBatchOn

open Kvql Kvql.Project Kvql.Cache

/-- two contexts agree on everything the evaluation of a chunk with first key `k` reads -/
def AgreeAt (k : Bytes) (c c' : Ctx) : Prop :=
  c.present = c'.present ∧ c.enable = c'.enable ∧
    ∀ name, c.getChunkFieldResult name k = c'.getChunkFieldResult name k

theorem AgreeAt.rfl' (k : Bytes) (c : Ctx) : AgreeAt k c c := ⟨rfl, rfl, fun _ => rfl⟩

theorem AgreeAt.updateHit {k : Bytes} {c c' : Ctx} (h : AgreeAt k c c') : AgreeAt k c.updateHit c'.updateHit := h

theorem get_on {c : Ctx} (he : c.enable = true) (n k : Bytes) :
    c.getChunkFieldResult n k = assocGet c.chunkKeyCache (Ctx.chunkKey n k) := by
  simp [Ctx.getChunkFieldResult, he]

/-- `SetChunkFieldResult` at the key `k`, done to both contexts, keeps them in agreement at `k` -/
theorem AgreeAt.setChunk {k : Bytes} {c c' : Ctx} (h : AgreeAt k c c') (n : Bytes) (vs : List Value) :
    AgreeAt k (c.setChunkFieldResult n k vs) (c'.setChunkFieldResult n k vs) := by
  obtain ⟨hp, he, hg⟩ := h
  cases hen : c.enable with
  | false =>
    have hen' : c'.enable = false := by rw [← he]; exact hen
    rw [Ctx.setChunkFieldResult_off hen, Ctx.setChunkFieldResult_off hen']
    exact ⟨hp, he, hg⟩
  | true =>
    have hen' : c'.enable = true := by rw [← he]; exact hen
    refine ⟨by rw [Vec.set_present, Vec.set_present]; exact hp, by rw [Vec.set_enable, Vec.set_enable]; exact he, ?_⟩
    intro m
    have hen1 : (c.setChunkFieldResult n k vs).enable = true := by rw [Vec.set_enable]; exact hen
    have hen1' : (c'.setChunkFieldResult n k vs).enable = true := by rw [Vec.set_enable]; exact hen'
    rw [get_on hen1, get_on hen1']
    have hgn := hg n
    rw [get_on hen, get_on hen'] at hgn
    have hgm := hg m
    rw [get_on hen, get_on hen'] at hgm
    cases hx : assocGet c.chunkKeyCache (Ctx.chunkKey n k) with
    | some col =>
      rw [setChunk_hit hen hx, setChunk_hit hen' (hgn ▸ hx)]
      exact hgm
    | none =>
      rw [(setChunk_miss (v := vs) hen hx).1, (setChunk_miss (v := vs) hen' (hgn ▸ hx)).1,
        assocGet_assocSet, assocGet_assocSet, hgm]

/-- `FieldChunkCaches[name]`: the entry the chunk started from, plus the column cached for this chunk -/
def Loc (k : Bytes) (C0 : Bytes → Option (List Value)) (c : Ctx) : Prop :=
  ∀ n, assocGet c.chunkCache n =
    match assocGet c.chunkKeyCache (Ctx.chunkKey n k) with
    | some col => some ((C0 n).getD [] ++ col)
    | none => C0 n

/-- which names have a column cached under the first key `k` -/
def flagAt (k : Bytes) (c : Ctx) : Flags :=
  fun n => (assocGet c.chunkKeyCache (Ctx.chunkKey n k)).isSome

/-- the columns cached under first keys other than `k` are the same -/
def Other (k : Bytes) (c c' : Ctx) : Prop :=
  ∀ n k', k' ≠ k → assocGet c'.chunkKeyCache (Ctx.chunkKey n k') = assocGet c.chunkKeyCache (Ctx.chunkKey n k')

theorem Other.refl (k : Bytes) (c : Ctx) : Other k c c := fun _ _ _ => rfl

theorem Other.trans {k : Bytes} {c1 c2 c3 : Ctx} (h1 : Other k c1 c2) (h2 : Other k c2 c3) : Other k c1 c3 :=
  fun n k' hk => (h2 n k' hk).trans (h1 n k' hk)

structure FS (k : Bytes) (C0 : Bytes → Option (List Value)) {α : Type} (x : M α) (T : Flags → Flags) : Prop where
  fr : ∀ c c', AgreeAt k c c' → (x c).1 = (x c').1 ∧ AgreeAt k (x c).2 (x c').2
  un : ∀ c, CtxOn c → Loc k C0 c →
    CtxOn (x c).2 ∧ Loc k C0 (x c).2 ∧ Other k c (x c).2 ∧
      (∀ a, (x c).1 = .ok a → flagAt k (x c).2 = T (flagAt k c))

namespace FS
variable {k : Bytes} {C0 : Bytes → Option (List Value)}

theorem pure {α} (a : α) : FS k C0 (Pure.pure a : M α) id :=
  ⟨fun _ _ h => ⟨rfl, h⟩, fun c h1 h2 => ⟨h1, h2, Other.refl k c, fun _ _ => rfl⟩⟩

theorem throw {α} (e : Err) (T : Flags → Flags) : FS k C0 (M.throw e : M α) T :=
  ⟨fun _ _ h => ⟨rfl, h⟩, fun c h1 h2 => ⟨h1, h2, Other.refl k c, fun _ h' => by cases h'⟩⟩

theorem lift {α} (x : Except Err α) : FS k C0 (M.lift x) id :=
  ⟨fun _ _ h => ⟨rfl, h⟩, fun c h1 h2 => ⟨h1, h2, Other.refl k c, fun _ _ => rfl⟩⟩

/-- a computation that ignores the context altogether -/
theorem const {α} (r : Except Err α) : FS k C0 (fun ctx => (r, ctx) : M α) id :=
  ⟨fun _ _ h => ⟨rfl, h⟩, fun c h1 h2 => ⟨h1, h2, Other.refl k c, fun _ _ => rfl⟩⟩

theorem bind {α β} {x : M α} {f : α → M β} {T1 T2 : Flags → Flags} (hx : FS k C0 x T1)
    (hf : ∀ a, FS k C0 (f a) T2) : FS k C0 (x >>= f) (fun S => T2 (T1 S)) := by
  constructor
  · intro c c' h
    obtain ⟨h1, h2⟩ := hx.fr c c' h
    rw [M.bind_run, M.bind_run]
    rcases hc : x c with ⟨r, d⟩
    rcases hc' : x c' with ⟨r', d'⟩
    rw [hc, hc'] at h1 h2
    dsimp only at h1 h2
    subst h1
    cases r with
    | error e => exact ⟨rfl, h2⟩
    | ok a => exact (hf a).fr d d' h2
  · intro c hon hloc
    obtain ⟨h1, h2, h3, h4⟩ := hx.un c hon hloc
    rw [M.bind_run]
    rcases hc : x c with ⟨r, d⟩
    rw [hc] at h1 h2 h3 h4
    dsimp only at h1 h2 h3 h4
    cases r with
    | error e => exact ⟨h1, h2, h3, fun _ h' => by cases h'⟩
    | ok a =>
      obtain ⟨g1, g2, g3, g4⟩ := (hf a).un d h1 h2
      refine ⟨g1, g2, h3.trans g3, fun b hb => ?_⟩
      rw [g4 b hb, h4 a rfl]

theorem ite {α} {p : Prop} [Decidable p] {x y : M α} {T : Flags → Flags} (hx : FS k C0 x T) (hy : FS k C0 y T) :
    FS k C0 (if p then x else y) T := by split <;> assumption

theorem congrT {α} {x : M α} {T T' : Flags → Flags} (h : FS k C0 x T) (e : T = T') : FS k C0 x T' := e ▸ h

/-- two operands in sequence, then a context-free kernel -/
theorem seq2 {α β γ} {x : M α} {y : M β} {T1 T2 : Flags → Flags} (hx : FS k C0 x T1) (hy : FS k C0 y T2)
    (kk : α → β → Except Err γ) :
    FS k C0 (do let a ← x; let b ← y; M.lift (kk a b)) (fun S => T2 (T1 S)) :=
  FS.congrT (FS.bind hx fun a => FS.bind hy fun b => FS.lift (kk a b)) rfl

end FS

/-! ### the alias reference -/

section
variable {ch : List Pair} (hne : ch ≠ []) {C0 : Bytes → Option (List Value)}
include hne

theorem ref_fs {p : Nat} {n : Bytes} {t : Expr} {Tt : Flags → Flags}
    (ih : FS (fk ch) C0 (execBatch t ch) Tt) :
    FS (fk ch) C0 (execBatch (.ref p n t) ch) (touchRef n Tt) := by
  constructor
  · -- the frame
    intro c c' h
    have hg : ∀ name, c.getChunkFieldResult name ((ch.head?.map (·.key)).getD []) =
        c'.getChunkFieldResult name ((ch.head?.map (·.key)).getD []) := h.2.2
    rw [execBatch]
    dsimp only
    rw [← h.1, ← hg n]
    simp only [isEmpty_false hne, Bool.and_false, Bool.false_eq_true, ↓reduceIte]
    generalize (if c.present = true then c.getChunkFieldResult n ((ch.head?.map (·.key)).getD []) else none) = g
    cases g with
    | some cval => exact ⟨rfl, h.updateHit⟩
    | none =>
      dsimp only
      obtain ⟨h1, h2⟩ := ih.fr c c' h
      rcases hc : execBatch t ch c with ⟨r, d⟩
      rcases hc' : execBatch t ch c' with ⟨r', d'⟩
      rw [hc, hc'] at h1 h2
      dsimp only at h1 h2
      subst h1
      cases r with
      | error e => exact ⟨rfl, h2⟩
      | ok v =>
        dsimp only
        refine ⟨rfl, ?_⟩
        rw [← h2.1]
        split
        · exact h2.setChunk n v
        · exact h2
  · -- the bookkeeping
    intro c hon hloc
    rw [execBatch_ref_on hne hon]
    cases hg : assocGet c.chunkKeyCache (Ctx.chunkKey n (fk ch)) with
    | some cval =>
      simp only
      refine ⟨hon.updateHit, hloc, Other.refl _ c, fun a _ => ?_⟩
      have hS : flagAt (fk ch) c n = true := by simp [flagAt, hg]
      show flagAt (fk ch) c.updateHit = touchRef n Tt (flagAt (fk ch) c)
      unfold touchRef; rw [if_pos hS]; rfl
    | none =>
      simp only
      obtain ⟨h1, h2, h3, h4⟩ := ih.un c hon hloc
      rcases hx : execBatch t ch c with ⟨r, c'⟩
      rw [hx] at h1 h2 h3 h4
      simp only at h1 h2 h3 h4
      cases r with
      | error e => exact ⟨h1, h2, h3, fun a h' => by cases h'⟩
      | ok vs =>
        simp only [h1.1, ↓reduceIte]
        have hS : flagAt (fk ch) c n = false := by simp [flagAt, hg]
        have hfl := h4 vs rfl
        cases hg' : assocGet c'.chunkKeyCache (Ctx.chunkKey n (fk ch)) with
        | some col =>
          rw [setChunk_hit h1.2 hg']
          refine ⟨h1, h2, h3, fun a _ => ?_⟩
          unfold touchRef; rw [hS]; simp only [Bool.false_eq_true, ↓reduceIte]
          funext m
          by_cases hm : (m == n) = true
          · have : m = n := by simpa using hm
            subst this; simp [flagAt, hg']
          · simp only [hm, Bool.false_eq_true, ↓reduceIte]; rw [hfl]
        | none =>
          obtain ⟨hK, hC⟩ := setChunk_miss (v := vs) h1.2 hg'
          refine ⟨h1.setChunk _ _ _, ?_, ?_, fun a _ => ?_⟩
          · -- Loc
            intro m
            rw [hK, hC, assocGet_assocSet, assocGet_assocSet]
            by_cases hm : (n == m) = true
            · have : n = m := by simpa using hm
              subst this
              have hl := h2 n
              rw [hg'] at hl
              simp [hl]
            · have hne' : n ≠ m := fun e => hm (by simp [e])
              have hk : (Ctx.chunkKey n (fk ch) == Ctx.chunkKey m (fk ch)) = false := by
                cases hh : (Ctx.chunkKey n (fk ch) == Ctx.chunkKey m (fk ch))
                · rfl
                · exact absurd (chunkKey_inj (by simpa using hh)).1 hne'
              simp only [hm, hk, Bool.false_eq_true, ↓reduceIte]
              exact h2 m
          · -- Other
            intro m k' hk'
            rw [hK, assocGet_assocSet]
            have hk : (Ctx.chunkKey n (fk ch) == Ctx.chunkKey m k') = false := by
              cases hh : (Ctx.chunkKey n (fk ch) == Ctx.chunkKey m k')
              · rfl
              · exact absurd (chunkKey_inj (by simpa using hh)).2.symm hk'
            simp only [hk, Bool.false_eq_true, ↓reduceIte]
            exact h3 m k' hk'
          · -- flags
            unfold touchRef; rw [hS]; simp only [Bool.false_eq_true, ↓reduceIte]
            funext m
            show (assocGet (c'.setChunkFieldResult n (fk ch) vs).chunkKeyCache (Ctx.chunkKey m (fk ch))).isSome = _
            rw [hK, assocGet_assocSet]
            by_cases hm : (m == n) = true
            · have : m = n := by simpa using hm
              subst this; simp
            · have hne' : m ≠ n := fun e => hm (by simp [e])
              have hk : (Ctx.chunkKey n (fk ch) == Ctx.chunkKey m (fk ch)) = false := by
                cases hh : (Ctx.chunkKey n (fk ch) == Ctx.chunkKey m (fk ch))
                · rfl
                · exact absurd (chunkKey_inj (by simpa using hh)).1.symm hne'
              simp only [hk, hm, Bool.false_eq_true, ↓reduceIte]
              rw [← hfl]; rfl

/-- the row body run pair by pair with a nil context: the chunk's context is not involved -/
theorem rowWise_fs (f : Pair → M Value) : FS (fk ch) C0 (rowWiseNoCtx f ch) id := by
  unfold rowWiseNoCtx; exact .const _

mutual
  theorem execBatch_fs : ∀ (e : Expr), FS (fk ch) C0 (execBatch e ch) (touch e)
    | .str .. => by rw [execBatch, touch]; exact .pure _
    | .field _ k => by rw [execBatch, touch]; exact .pure _
    | .name .. => by rw [execBatch, touch]; exact .pure _
    | .num .. => by rw [execBatch, touch]; exact .pure _
    | .float .. => by rw [execBatch, touch]; exact .pure _
    | .bool .. => by rw [execBatch, touch]; exact .pure _
    | .list .. => by rw [execBatch, touch]; exact .pure _
    | .cycle => by rw [execBatch, touch]; exact .throw _ _
    | .not _ r => by
      rw [execBatch, touch]
      exact FS.congrT (.bind (execBatch_fs r) fun _ => .lift _) rfl
    | .ref p n t => by
      rw [touch]
      exact ref_fs hne (execBatch_fs t)
    | .access _ l f => by
      rw [execBatch, touch]
      refine FS.congrT (.bind (T2 := id) (execBatch_fs l) fun left => ?_) rfl
      split <;> first | exact .lift _ | exact .throw _ _
    | .call _ nm args => by
      rw [execBatch, touch]
      cases hn : funcNameOf nm with
      | error e => exact .throw _ _
      | ok fname =>
        dsimp only
        cases hf : lookupFunc fname with
        | none => exact .throw _ _
        | some fo =>
          dsimp only
          cases hb : fo.body with
          | none => exact .ite (.throw _ _) (.ite (.throw _ _) (.throw _ _))
          | some b =>
            dsimp only
            refine .ite (.throw _ _) (.ite (.throw _ _) ?_)
            by_cases ht : fo.vecIsTwin = true
            · rw [if_pos ht, if_pos ht]; exact vecBody_fs b args
            · rw [if_neg ht, if_neg ht]; exact rowWise_fs hne _
    | .binop _ op l r => by
      have hl := execBatch_fs l
      have hr := execBatch_fs r
      cases op
      case and => rw [execBatch, touch]; exact .seq2 hl hr _
      case or => rw [execBatch, touch]; exact .seq2 hl hr _
      case not => rw [execBatch, touch]; exact .throw _ _
      case eq => rw [execBatch, touch]; exact .seq2 hl hr _
      case neq => rw [execBatch, touch]; exact .seq2 hl hr _
      case prefixMatch => rw [execBatch, touch]; exact .seq2 hl hr _
      case regexMatch => rw [execBatch, touch]; exact .seq2 hl hr _
      case add => rw [execBatch, touch]; exact .ite (.seq2 hl hr _) (.seq2 hl hr _)
      case sub => rw [execBatch, touch]; exact .seq2 hl hr _
      case mul => rw [execBatch, touch]; exact .seq2 hl hr _
      case div => rw [execBatch, touch]; exact .seq2 hl hr _
      case gt => rw [execBatch, touch]; exact .seq2 hl hr _
      case gte => rw [execBatch, touch]; exact .seq2 hl hr _
      case lt => rw [execBatch, touch]; exact .seq2 hl hr _
      case lte => rw [execBatch, touch]; exact .seq2 hl hr _
      case kwAnd => rw [execBatch, touch]; exact .seq2 hl hr _
      case kwOr => rw [execBatch, touch]; exact .seq2 hl hr _
      case in_ =>
        cases r with
        | list q items =>
          rw [execBatch, touch]
          · exact FS.congrT (.bind hl fun rleft => .bind (execInItemsBatch_fs _ items) fun cols => .lift _) rfl
          all_goals (intros; first | contradiction | simp_all)
        | call q nm args =>
          rw [execBatch, touch]
          · exact FS.congrT (.bind hl fun rleft => .bind hr fun frets => .lift _) rfl
          all_goals (intros; first | contradiction | simp_all)
        | ref q nm t =>
          rw [execBatch, touch]
          · exact FS.congrT (.bind hl fun rleft => .bind hr fun frets => .lift _) rfl
          all_goals (intros; first | contradiction | simp_all)
        | _ =>
          rw [execBatch, touch]
          · exact FS.congrT (.bind hl fun rleft => .throw _ id) rfl
          all_goals (intros; first | contradiction | simp_all)
      case between =>
        cases r with
        | list q items =>
          rcases items with _ | ⟨lo, _ | ⟨hi, _ | ⟨x, rest⟩⟩⟩
          · rw [execBatch, touch]
            · exact FS.congrT (.bind hl fun rleft => .throw _ id) rfl
            all_goals (intros; first | contradiction | simp_all)
          · rw [execBatch, touch]
            · exact FS.congrT (.bind hl fun rleft => .throw _ id) rfl
            all_goals (intros; first | contradiction | simp_all)
          · have hlo := execBatch_fs lo
            have hhi := execBatch_fs hi
            rw [execBatch, touch]
            · exact FS.congrT (.bind hl fun rleft =>
                .ite (.throw _ _) (.ite (.throw _ _) (.ite (.throw _ _) (.ite (.throw _ _)
                  (.bind hlo fun lb => .bind hhi fun ub => .lift _))))) rfl
            all_goals (intros; first | contradiction | simp_all)
          · rw [execBatch, touch]
            · exact FS.congrT (.bind hl fun rleft => .throw _ id) rfl
            all_goals (intros; first | contradiction | simp_all)
        | _ =>
          rw [execBatch, touch]
          · exact FS.congrT (.bind hl fun rleft => .throw _ id) rfl
          all_goals (intros; first | contradiction | simp_all)

  theorem execInItemsBatch_fs : ∀ (number : Bool) (es : List Expr),
      FS (fk ch) C0 (execInItemsBatch number es ch) (touchList es)
    | _, [] => by rw [execInItemsBatch, touchList]; exact .pure _
    | number, e :: es => by
      rw [execInItemsBatch, touchList]
      exact FS.congrT (.ite (.throw _ _) (.bind (execBatch_fs e) fun vals =>
        .bind (execInItemsBatch_fs number es) fun rest => .pure _)) rfl

  theorem vecBody_fs : ∀ (b : Body) (args : List Expr),
      FS (fk ch) C0 (vecBody b args ch) (touchBody b args)
    | .lower, a0 :: _ => by
      rw [vecBody, touchBody]; exact FS.congrT (.bind (execBatch_fs a0) fun _ => .lift _) rfl
    | .upper, a0 :: _ => by
      rw [vecBody, touchBody]; exact FS.congrT (.bind (execBatch_fs a0) fun _ => .lift _) rfl
    | .toInt, a0 :: _ => by
      rw [vecBody, touchBody]; exact FS.congrT (.bind (execBatch_fs a0) fun _ => .lift _) rfl
    | .toFloat, a0 :: _ => by
      rw [vecBody, touchBody]; exact FS.congrT (.bind (execBatch_fs a0) fun _ => .lift _) rfl
    | .toStr, a0 :: _ => by
      rw [vecBody, touchBody]; exact FS.congrT (.bind (execBatch_fs a0) fun _ => .lift _) rfl
    | .isInt, a0 :: _ => by
      rw [vecBody, touchBody]; exact FS.congrT (.bind (execBatch_fs a0) fun _ => .lift _) rfl
    | .isFloat, a0 :: _ => by
      rw [vecBody, touchBody]; exact FS.congrT (.bind (execBatch_fs a0) fun _ => .lift _) rfl
    | .strlen, a0 :: _ => by
      rw [vecBody, touchBody]; exact FS.congrT (.bind (execBatch_fs a0) fun _ => .lift _) rfl
    | .len, a0 :: _ => by
      rw [vecBody, touchBody]; exact FS.congrT (.bind (execBatch_fs a0) fun _ => .lift _) rfl
    | .json, a0 :: _ => by
      rw [vecBody, touchBody]; exact FS.congrT (.bind (execBatch_fs a0) fun _ => .lift _) rfl
    | .subStr, a0 :: a1 :: a2 :: _ => by
      rw [vecBody, touchBody]
      exact FS.congrT (.ite (.throw _ _) (.ite (.throw _ _)
        (.bind (execBatch_fs a0) fun _ => .bind (execBatch_fs a1) fun _ =>
          .bind (execBatch_fs a2) fun _ => .lift _))) rfl
    | .split, a0 :: a1 :: _ => by
      rw [vecBody, touchBody]
      exact FS.congrT (.ite (.throw _ _)
        (.bind (execBatch_fs a0) fun _ => .bind (execBatch_fs a1) fun _ => .lift _)) rfl
    | .cosine, a0 :: a1 :: _ => by
      rw [vecBody, touchBody]
      exact FS.congrT (.bind (execBatch_fs a0) fun _ => .bind (execBatch_fs a1) fun _ => .lift _) rfl
    | .l2, a0 :: a1 :: _ => by
      rw [vecBody, touchBody]
      exact FS.congrT (.bind (execBatch_fs a0) fun _ => .bind (execBatch_fs a1) fun _ => .lift _) rfl
    | .join, args => by simp only [vecBody, touchBody]; exact rowWise_fs hne _
    | .floatList, args => by simp only [vecBody, touchBody]; exact rowWise_fs hne _
    | .intList, args => by simp only [vecBody, touchBody]; exact rowWise_fs hne _
    | .toList, args => by simp only [vecBody, touchBody]; exact rowWise_fs hne _
    | .lower, [] | .upper, [] | .toInt, [] | .toFloat, []
    | .toStr, [] | .isInt, [] | .isFloat, [] | .strlen, []
    | .len, [] | .json, []
    | .subStr, [] | .subStr, [_] | .subStr, [_, _]
    | .split, [] | .split, [_]
    | .cosine, [] | .cosine, [_]
    | .l2, [] | .l2, [_] => by simp only [vecBody, touchBody]; exact .throw _ _
end

end

/-- THE FRAME LEMMA: the evaluation of a non-empty chunk with first key `fk ch` reads the context only through
    `present`, `enable` and the columns cached at that key -/
theorem execBatch_frame (e : Expr) {ch : List Pair} (hne : ch ≠ []) {c c' : Ctx} (h : AgreeAt (fk ch) c c') :
    (execBatch e ch c).1 = (execBatch e ch c').1 ∧ AgreeAt (fk ch) (execBatch e ch c).2 (execBatch e ch c').2 :=
  (execBatch_fs hne (C0 := fun _ => none) e).fr c c' h

end Kvql.Proofs.RunNoPanic.LockBatchOn
