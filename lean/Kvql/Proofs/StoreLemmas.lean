/-
  The store as a finite map: `lookup` after `insert` / `erase` / `insertMany` / `eraseMany`,
  and preservation of the strict key order.
-/
import Kvql.Model.Storage

namespace Kvql.Proofs.Store

open Kvql Kvql.Storage

theorem key_lt_trans {a b c : Bytes} (h1 : a < b) (h2 : b < c) : a < c := List.lt_trans h1 h2
theorem key_lt_irrefl (a : Bytes) : ¬ a < a := List.lt_irrefl a

/-- trichotomy of the byte-wise order -/
theorem key_lt_of_not (a b : Bytes) (h1 : ¬ a < b) (h2 : a ≠ b) : b < a := by
  have hle : b ≤ a := List.not_lt.mp h1
  rcases List.le_iff_lt_or_eq.mp hle with h | h
  · exact h
  · exact absurd h.symm h2

theorem mem_insert {s : Store} {k v : Bytes} {b : Pair} (h : b ∈ s.insert k v) : b = (k, v) ∨ b ∈ s := by
  induction s with
  | nil => simp [Store.insert] at h; exact .inl h
  | cons p r ih =>
    obtain ⟨k', v'⟩ := p
    simp only [Store.insert] at h
    split at h
    · simp at h ⊢; rcases h with h | h | h <;> simp [h]
    · split at h
      · simp at h ⊢; rcases h with h | h <;> simp [h]
      · simp at h ⊢
        rcases h with h | h
        · simp [h]
        · rcases ih h with h | h <;> simp [h]

theorem sorted_insert {s : Store} (hs : s.Sorted) (k v : Bytes) : (s.insert k v).Sorted := by
  induction s with
  | nil => simp [Store.insert, Store.Sorted]
  | cons p r ih =>
    obtain ⟨k', v'⟩ := p
    unfold Store.Sorted at hs ⊢
    rw [List.pairwise_cons] at hs
    simp only [Store.insert]
    split
    · rename_i hlt
      rw [List.pairwise_cons]
      refine ⟨?_, List.pairwise_cons.mpr hs⟩
      intro b hb
      rcases List.mem_cons.mp hb with h | h
      · subst h; exact hlt
      · exact key_lt_trans hlt (hs.1 b h)
    · split
      · rename_i heq
        subst heq
        exact List.pairwise_cons.mpr hs
      · rename_i hnlt hne
        rw [List.pairwise_cons]
        refine ⟨?_, ih hs.2⟩
        intro b hb
        rcases mem_insert hb with h | h
        · subst h; exact key_lt_of_not _ _ hnlt hne
        · exact hs.1 b h

theorem lookup_insert (s : Store) (k v k' : Bytes) :
    (s.insert k v).lookup k' = if k' = k then some v else s.lookup k' := by
  induction s with
  | nil =>
    simp only [Store.insert, Store.lookup]
    by_cases h : k = k' <;> simp [h, eq_comm]
  | cons p r ih =>
    obtain ⟨k0, v0⟩ := p
    simp only [Store.insert]
    split
    · simp only [Store.lookup]
      by_cases h : k = k' <;> simp [h, eq_comm]
    · split
      · rename_i heq
        subst heq
        simp only [Store.lookup]
        by_cases h : k = k' <;> simp [h, eq_comm]
      · rename_i hne
        simp only [Store.lookup, ih]
        by_cases h0 : k0 = k'
        · subst h0
          have : ¬ k0 = k := fun h => hne h.symm
          simp [this]
        · simp [h0]

theorem lookup_erase (s : Store) (k k' : Bytes) :
    (s.erase k).lookup k' = if k' = k then none else s.lookup k' := by
  induction s with
  | nil => simp [Store.erase, Store.lookup]
  | cons p r ih =>
    obtain ⟨k0, v0⟩ := p
    unfold Store.erase at ih ⊢
    simp only [List.filter_cons]
    by_cases h0 : k0 = k
    · subst h0
      simp only [ne_eq, not_true_eq_false, decide_false, Bool.false_eq_true, if_false, ih, Store.lookup]
      by_cases h : k0 = k'
      · subst h; simp
      · have : ¬ k' = k0 := fun e => h e.symm
        simp [h, this]
    · simp only [ne_eq, h0, not_false_eq_true, decide_true, if_true, Store.lookup, ih]
      by_cases h : k0 = k'
      · subst h; simp [h0]
      · simp [h]

theorem sorted_erase {s : Store} (hs : s.Sorted) (k : Bytes) : (s.erase k).Sorted :=
  List.Pairwise.filter _ hs

theorem sorted_insertMany {s : Store} (hs : s.Sorted) (kvs : List Pair) : (s.insertMany kvs).Sorted := by
  induction kvs generalizing s with
  | nil => exact hs
  | cons kv r ih => exact ih (sorted_insert hs _ _)

theorem sorted_eraseMany {s : Store} (hs : s.Sorted) (ks : List Bytes) : (s.eraseMany ks).Sorted := by
  induction ks generalizing s with
  | nil => exact hs
  | cons k r ih => exact ih (sorted_erase hs _)

/-- the value of the last pair that names `k`, if there is one -/
def lastWrite : List Pair → Bytes → Option Bytes
  | [], _ => none
  | kv :: r, k =>
    match lastWrite r k with
    | some v => some v
    | none => if kv.1 = k then some kv.2 else none

/-- BATCH PUT as a map update: a key takes the value of the last pair that names it -/
theorem lookup_insertMany (s : Store) (kvs : List Pair) (k : Bytes) :
    (s.insertMany kvs).lookup k = match lastWrite kvs k with
      | some v => some v
      | none => s.lookup k := by
  induction kvs generalizing s with
  | nil => simp [Store.insertMany, lastWrite]
  | cons kv r ih =>
    simp only [Store.insertMany, List.foldl_cons] at ih ⊢
    rw [ih, lastWrite]
    cases lastWrite r k with
    | some v => rfl
    | none =>
      simp only [lookup_insert]
      by_cases h : kv.1 = k
      · simp [h]
      · have : ¬ k = kv.1 := fun e => h e.symm
        simp [h, this]

/-- BATCH DELETE as a map update -/
theorem lookup_eraseMany (s : Store) (ks : List Bytes) (k : Bytes) :
    (s.eraseMany ks).lookup k = if k ∈ ks then none else s.lookup k := by
  induction ks generalizing s with
  | nil => simp [Store.eraseMany]
  | cons k0 r ih =>
    simp only [Store.eraseMany, List.foldl_cons] at ih ⊢
    rw [ih, lookup_erase]
    by_cases h1 : k ∈ r
    · simp [h1]
    · by_cases h2 : k = k0 <;> simp [h1, h2]

theorem eraseMany_eq_filter (s : Store) (ks : List Bytes) :
    s.eraseMany ks = s.filter (fun p => p.1 ∉ ks) := by
  induction ks generalizing s with
  | nil =>
    simp only [Store.eraseMany, List.foldl_nil, List.not_mem_nil, not_false_eq_true, decide_true]
    exact (List.filter_eq_self.mpr (fun _ _ => rfl)).symm
  | cons k r ih =>
    simp only [Store.eraseMany, List.foldl_cons] at ih ⊢
    rw [ih, Store.erase, List.filter_filter]
    congr 1
    funext p
    simp only [List.mem_cons, not_or]
    by_cases h1 : p.1 = k <;> by_cases h2 : p.1 ∈ r <;> simp [h1, h2]

end Kvql.Proofs.Store
