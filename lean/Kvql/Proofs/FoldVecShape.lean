/-
  Folding preserves the static side condition `vecOk` of C03 `vec_eq_map` (in `x in f(..)` / `x in alias`
  the right operand is statically a list).  Third instance of Proofs/FoldVecGen.lean:
      F e e' := FoldRel e e' ∧ (vecOk e → vecOk e') ∧ (e' a call / alias → e a call / alias)
  The last clause is what an operand of `in` needs: a rewritten operand that is a call was a call before
  (operands are rewritten by `tryOptimizeBinaryOpExecute` / `tryOptimizeFunctionCall`, which return the
  node itself or a literal; only `tryOptimizeAndOr`, applied to roots and call arguments, can hand back a
  sub-tree of another node kind).
-/
import Kvql.Proofs.FoldVecSteps

namespace Kvql
open Generated
namespace Fold

def VecPres (e e' : Expr) : Prop := e.vecOk = true → e'.vecOk = true

structure VecRel (e e' : Expr) : Prop where
  row : FoldRel e e'
  vec : VecPres e e'
  back : isCallRefNode e' = true → isCallRefNode e = true

theorem vecOk_binop_iff (p : Nat) (op : Op) (l r : Expr) :
    (Expr.binop p op l r).vecOk = true ↔
      l.vecOk = true ∧ r.vecOk = true ∧ (op = .in_ → isCallRefNode r = true → retType r = tyTLIST) := by
  simp only [Expr.vecOk, Bool.and_eq_true]
  constructor
  · rintro ⟨⟨h1, h2⟩, h3⟩
    refine ⟨h1, h2, fun hop hcr => ?_⟩
    subst hop
    cases r <;> simp [isCallRefNode] at hcr <;> simpa using h3
  · rintro ⟨h1, h2, h3⟩
    refine ⟨⟨h1, h2⟩, ?_⟩
    cases op <;> try rfl
    cases r <;> try rfl
    · simpa using h3 rfl rfl
    · simpa using h3 rfl rfl

theorem vecOkList_rows : ∀ {args args' : List Expr}, Rows VecPres args args' → Expr.vecOkList args = true →
    Expr.vecOkList args' = true
  | _, _, .nil, _ => rfl
  | _, _, .cons ha hr, h => by
    simp only [Expr.vecOkList, Bool.and_eq_true] at h ⊢
    exact ⟨ha h.1, vecOkList_rows hr h.2⟩

theorem vec_andOr (e : Expr) : VecPres e (andOr e).1 := by
  intro h
  cases e with
  | binop p op l r =>
    obtain ⟨hl, hr, _⟩ := (vecOk_binop_iff p op l r).mp h
    by_cases hop : op = .and ∨ op = .or
    · have hne : (op != .and && op != .or) = false := by rcases hop with h | h <;> subst h <;> rfl
      rcases notBool_cases l with ⟨pl, dl, lv, rfl⟩ | hl'
      · rcases notBool_cases r with ⟨pr, dr, rv, rfl⟩ | hr'
        · rw [andOr_bothLit pl dl lv pr dr rv hne]; split <;> rfl
        · rw [andOr_leftLit pl dl lv hne hr']; split <;> split <;> first | rfl | exact hr
      · rcases notBool_cases r with ⟨pr, dr, rv, rfl⟩ | hr'
        · rw [andOr_rightLit pr dr rv hne hl']; split <;> split <;> first | rfl | exact hl
        · rw [andOr_noLit hl' hr']; exact h
    · have : (op != .and && op != .or) = true := by
        cases op <;> simp at hop <;> rfl
      simp only [andOr, this, if_true]
      exact h
  | _ => simp only [andOr]; exact h

def vecSys : Sys where
  F := VecRel
  S := fun e e' => Sem e e' ∧ VecPres e e'
  F_refl := fun e => ⟨.refl e, id, id⟩
  F_trans := fun h1 h2 => ⟨h1.row.trans h2.row, fun h => h2.vec (h1.vec h), fun h => h1.back (h2.back h)⟩
  S_of_F := fun h => ⟨h.row.sem, h.vec⟩
  S_trans := fun h1 h2 => ⟨h1.1.trans h2.1, fun h => h2.2 (h1.2 h)⟩
  binop := fun p op l l' r r' hl hr =>
    ⟨FoldRel.binop p op hl.row hr.row,
     fun h => by
      obtain ⟨h1, h2, h3⟩ := (vecOk_binop_iff p op l r).mp h
      exact (vecOk_binop_iff p op l' r').mpr ⟨hl.vec h1, hr.vec h2, fun hop hcr => by
        rw [hr.row.ty]; exact h3 hop (hr.back hcr)⟩,
     fun h => by simp [isCallRefNode] at h⟩
  call := fun p nm _ _ h =>
    ⟨FoldRel.call p nm (h.imp fun _ _ ⟨⟨hs, _⟩, ht⟩ => ⟨hs, ht⟩),
     fun hv => by
      simp only [Expr.vecOk] at hv ⊢
      exact vecOkList_rows (h.imp fun _ _ ⟨⟨_, hk⟩, _⟩ => hk) hv,
     fun _ => rfl⟩
  foldBinary := fun hl hr h =>
    let ⟨hrow, hk⟩ := foldBinary_ok hl hr h
    ⟨hrow, fun _ => vecOk_lit hk, fun hcr => by
      rename_i k
      cases k <;> simp [isLit4] at hk <;> simp [isCallRefNode] at hcr⟩
  foldCall := fun hl h =>
    let ⟨hrow, _⟩ := foldCall_ok hl h
    ⟨hrow, fun _ => vecOk_lit (foldCall_ok hl h).2, fun _ => rfl⟩
  assoc := fun p q op x c1 c2 hop h =>
    ⟨assoc_ok p q hop h,
     fun hv => by
      obtain ⟨h1, h2, _⟩ := (vecOk_binop_iff p op _ c2).mp hv
      obtain ⟨h3, h4, _⟩ := (vecOk_binop_iff q op x c1).mp h1
      have hne : op ≠ .in_ := by rcases hop with rfl | rfl <;> simp
      exact (vecOk_binop_iff p op x _).mpr ⟨h3, (vecOk_binop_iff p op c1 c2).mpr ⟨h4, h2, fun h => absurd h hne⟩,
        fun h => absurd h hne⟩,
     fun h => by simp [isCallRefNode] at h⟩
  andOr := fun e => ⟨(andOr_ok e).sem, vec_andOr e⟩

/-- **folding preserves `vecOk`** -/
theorem optimize_vecOk {e e' : Expr} (h : optimize e = .ok e') (hv : e.vecOk = true) : e'.vecOk = true :=
  (vecSys.optimize_ok h).2 hv

theorem optimizeNode_vecOk {e n : Expr} (h : optimizeNode e = .ok n) (hv : e.vecOk = true) : n.vecOk = true :=
  (vecSys.optimizeNode_ok h).vec hv

end Fold
end Kvql
