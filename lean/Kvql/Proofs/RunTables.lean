/-
  End-to-end proofs, evaluation half: the verdict tables of RunBase.lean (`rowVerdicts`: the row
  evaluator on every pair the scan yields; `batchVerdicts`: the vector evaluator on every inner
  chunk) are, for a filter without alias references, the table of the cache-free verdicts — with
  the field cache on or off (C05: `filterRow_on` / `filterRow_off`, `loop_step` / `filterChunk_off`),
  in batch mode through C03 (`batch_pairwise`, `vec_eq_map` in the form `single_row_value`).
-/
import Kvql.Model.Run
import Kvql.Proofs.ScanRows
import Kvql.Proofs.CacheBatchShape
import Kvql.Proofs.TypingParse

namespace Kvql.Proofs.RunTables
open Kvql Kvql.Run Kvql.Plans Kvql.Storage Kvql.Proofs.Scan Kvql.Proofs.Typing Kvql.Cache

/-! ### what a scan yields -/

theorem startRest_eq (node : ScanNode) (store : Store) : Run.startRest node store = node.startRest store := by
  cases node with
  | range a b => cases a <;> rfl
  | _ => rfl

/-- the pairs a scan hands to its filter are the stored pairs of its region, in store order -/
theorem yielded_eq_filter (node : ScanNode) (hwf : ScanNode.WellFormed node) {store : Store} (hs : store.Sorted) :
    yielded node store = store.filter (fun p => node.inRegion p.1) := by
  cases node with
  | mget ks =>
    have : yielded (.mget ks) store = found store ks := rfl
    rw [this, found_eq_filter hs hwf]
    rfl
  | empty => simp [yielded, ScanNode.inRegion]
  | full =>
    have := region_of_cursor_scan .full rfl hs
    rw [← this, ← startRest_eq]; rfl
  | «prefix» p =>
    have := region_of_cursor_scan (.prefix p) rfl hs
    rw [← this, ← startRest_eq]; rfl
  | range a b =>
    have := region_of_cursor_scan (.range a b) rfl hs
    rw [← this, ← startRest_eq]; rfl

theorem keys_distinct {store : Store} (hs : store.Sorted) (q : SPair → Bool) :
    (store.filter q).Pairwise (fun a b => a.1 ≠ b.1) :=
  (List.Pairwise.filter _ hs).imp (fun {a b} h e => by rw [e] at h; exact List.lt_irrefl _ h)

/-- looking a key up in a table built from pairs with distinct keys -/
theorem lookup_map_of_mem {β : Type} (g : SPair → β) : ∀ {l : List SPair}, l.Pairwise (fun a b => a.1 ≠ b.1) →
    ∀ {p : SPair}, p ∈ l → (l.map (fun q => (q.1, g q))).lookup p.1 = some (g p)
  | [], _, p, hp => by cases hp
  | x :: xs, hd, p, hp => by
    rw [List.pairwise_cons] at hd
    simp only [List.map_cons, List.lookup_cons]
    rcases List.mem_cons.mp hp with rfl | hp'
    · simp
    · have hne : p.1 ≠ x.1 := fun e => hd.1 p hp' e.symm
      have : (p.1 == x.1) = false := by simpa using hne
      rw [this]
      exact lookup_map_of_mem g hd.2 hp'

/-! ### chunks -/

theorem chunksAux_flatten {α : Type} (bs : Nat) (hbs : 1 ≤ bs) : ∀ (n : Nat) (l : List α), l.length ≤ n →
    (chunksAux bs n l).flatten = l
  | 0, l, h => by
    have : l = [] := List.length_eq_zero_iff.mp (Nat.le_zero.mp h)
    subst this; rfl
  | n + 1, [], _ => rfl
  | n + 1, x :: xs, h => by
    rw [chunksAux, List.flatten_cons, chunksAux_flatten bs hbs n _ (by simp only [List.length_drop, List.length_cons] at h ⊢; omega)]
    exact List.take_append_drop bs (x :: xs)

theorem chunksOf_flatten {α : Type} (bs : Nat) (hbs : 1 ≤ bs) (l : List α) : (Run.chunksOf bs l).flatten = l :=
  chunksAux_flatten bs hbs l.length l (Nat.le_refl _)

theorem flatten_map_filterMap {α β : Type} (f : α → Option β) : ∀ (l : List (List α)),
    (l.map (List.filterMap f)).flatten = l.flatten.filterMap f
  | [] => rfl
  | x :: xs => by
    rw [List.map_cons, List.flatten_cons, List.flatten_cons, List.filterMap_append, flatten_map_filterMap f xs]

/-- the inner chunks of a scan, put together again, are what the scan yields -/
theorem innerChunks_flatten (node : ScanNode) (bs : Nat) (hbs : 1 ≤ bs) (store : Store) :
    (innerChunks node bs store).flatten = yielded node store := by
  cases node with
  | mget ks =>
    simp only [innerChunks, yielded]
    rw [flatten_map_filterMap, chunksOf_flatten bs hbs]
  | _ => simp only [innerChunks]; exact chunksOf_flatten bs hbs _

/-! ### the row table -/

mutual
  theorem refs_of_af : ∀ e : Expr, aliasFree e = true → refs e = []
    | .binop _ _ l r, h => by
      simp only [aliasFree, Bool.and_eq_true] at h
      simp [refs, refs_of_af l h.1, refs_of_af r h.2]
    | .not _ r, h => by
      simp only [aliasFree] at h
      simp [refs, refs_of_af r h]
    | .call _ n args, h => by
      simp only [aliasFree, Bool.and_eq_true] at h
      simp [refs, refsList_of_af args h.2]
    | .list _ items, h => by
      simp only [aliasFree] at h
      simp [refs, refsList_of_af items h]
    | .access _ l f, h => by
      simp only [aliasFree, Bool.and_eq_true] at h
      simp [refs, refs_of_af l h.1]
    | .ref .., h => by simp [aliasFree] at h
    | .cycle, _ | .field .., _ | .str .., _ | .name .., _ | .num .., _ | .float .., _ | .bool .., _ => by simp [refs]
  theorem refsList_of_af : ∀ es : List Expr, aliasFree.aliasFreeList es = true → refsList es = []
    | [], _ => by simp [refsList]
    | e :: es, h => by
      simp only [aliasFree.aliasFreeList, Bool.and_eq_true] at h
      simp [refsList, refs_of_af e h.1, refsList_of_af es h.2]
end

theorem wf_nil_of_af {e : Expr} (h : aliasFree e = true) : WF [] e := by
  intro p hp; rw [refs_of_af e h] at hp; cases hp

theorem functional_nil : Functional ([] : Aliases) := by
  intro n t t' h; cases h

theorem ctxOn_new : CtxOn (Ctx.new true) := ⟨rfl, rfl⟩

/-- `FilterExec.Filter` on a pair, for a filter without alias references whose cache-free value is
    the Boolean `b`: the verdict is `b`, field cache on or off -/
theorem filterRow_verdict {w : Expr} (haf : aliasFree w = true) {kv : Pair} {b : Bool}
    (hx : exec w kv Ctx.off = (.ok (.bool b), Ctx.off)) (cache : Bool) :
    (Project.filterRowG true w kv (Ctx.new cache)).1 = .ok b := by
  have hspec : filterSpec w kv = .ok b := by
    unfold filterSpec nocache
    rw [hx]
  cases cache with
  | false => rw [filterRow_off true w kv (c := Ctx.new false) rfl]; exact hspec
  | true => rw [(filterRow_on functional_nil (wf_nil_of_af haf) kv ctxOn_new).1]; exact hspec

/-- the row table of a reference-free filter that is Boolean on every pair the scan yields -/
theorem rowVerdicts_eq {w : Expr} (haf : aliasFree w = true) (cache : Bool) (g : SPair → Bool) (l : List SPair)
    (hx : ∀ p ∈ l, exec w (toKv p) Ctx.off = (.ok (.bool (g p)), Ctx.off)) :
    rowVerdicts w (Ctx.new cache) l = l.map (fun p => (p.1, Except.ok (g p))) := by
  unfold rowVerdicts
  apply List.map_congr_left
  intro p hp
  rw [filterRow_verdict haf (hx p hp) cache]

/-! ### the batch table -/

theorem mapM_boolOf_map (g : SPair → Bool) : ∀ (l : List SPair),
    (l.map (fun p => Value.bool (g p))).mapM Project.boolOf? = some (l.map g)
  | [] => rfl
  | x :: xs => by
    simp only [List.map_cons, List.mapM_cons, Project.boolOf?, Option.pure_def, Option.bind_eq_bind,
      Option.bind_some, mapM_boolOf_map g xs]

theorem zipVerdicts_map (g : SPair → Bool) : ∀ (l : List SPair),
    zipVerdicts l (l.map g) = l.map (fun p => (p.1, Except.ok (g p)))
  | [] => rfl
  | x :: xs => by simp [zipVerdicts, zipVerdicts_map g xs]

theorem rows_pairVal {w : Expr} (g : SPair → Bool) : ∀ (l : List SPair),
    (∀ p ∈ l, PairVal w (.bool (g p)) (toKv p)) →
    Kvql.Rows (PairVal w) (l.map (fun p => Value.bool (g p))) (l.map toKv)
  | [], _ => .nil
  | x :: xs, h => .cons (h x List.mem_cons_self) (rows_pairVal g xs (fun p hp => h p (List.mem_cons_of_mem _ hp)))

theorem new_true_clear : (Ctx.new true).clear = Ctx.new true := rfl

/-- `FilterExec.FilterBatch` on a non-empty inner chunk, for a filter without alias references whose
    cache-free batch value on every pair of the chunk (taken alone) is the Boolean `g` -/
theorem chunkVerdicts_eq {w : Expr} (haf : aliasFree w = true) (cache : Bool) (g : SPair → Bool) (ch : List SPair)
    (hx : ∀ p ∈ ch, PairVal w (.bool (g p)) (toKv p)) :
    chunkVerdicts w (Ctx.new cache) ch = ch.map (fun p => (p.1, Except.ok (g p))) := by
  cases hne : ch with
  | nil => unfold chunkVerdicts; split <;> simp [zipVerdicts]
  | cons x xs =>
    rw [← hne]
    have hne' : ch.map toKv ≠ [] := by rw [hne]; simp
    have hspec : filterChunkSpec w (ch.map toKv) = .ok (ch.map g) := by
      unfold filterChunkSpec
      rw [(nocacheB_ok_iff w hne' _).mpr (rows_pairVal g ch hx)]
      simp only [mapM_boolOf_map]
    have hres : (Project.filterChunk w (ch.map toKv) (Ctx.new cache)).1 = .ok (ch.map g) := by
      cases cache with
      | false => rw [filterChunk_off functional_nil (wf_nil_of_af haf) hne' (c := Ctx.new false) rfl]; exact hspec
      | true =>
        have inv := LoopInv.start (A := []) (w := w) ctxOn_new
        rw [new_true_clear] at inv
        rw [(loop_step functional_nil (wf_nil_of_af haf) inv hne' (by intro ch' h; cases h)).1]
        exact hspec
    unfold chunkVerdicts
    rw [hres]
    have hdrop : List.drop ch.length (List.map g ch) = [] := by
      rw [List.drop_eq_nil_iff]; simp
    simp only [hdrop, List.any_nil, Bool.false_eq_true, if_false]
    exact zipVerdicts_map g ch

theorem flatMap_map_eq {β : Type} (F : List SPair → List β) (h : SPair → β) : ∀ (chunks : List (List SPair)),
    (∀ ch ∈ chunks, F ch = ch.map h) → chunks.flatMap F = chunks.flatten.map h
  | [], _ => rfl
  | c :: cs, hc => by
    simp only [List.flatMap_cons, List.flatten_cons, List.map_append]
    rw [hc c List.mem_cons_self, flatMap_map_eq F h cs (fun ch hm => hc ch (List.mem_cons_of_mem _ hm))]

/-- the batch table over the inner chunks of a scan -/
theorem batchVerdicts_eq {w : Expr} (haf : aliasFree w = true) (cache : Bool) (g : SPair → Bool)
    (chunks : List (List SPair)) (hx : ∀ p ∈ chunks.flatten, PairVal w (.bool (g p)) (toKv p)) :
    batchVerdicts w (Ctx.new cache) chunks = chunks.flatten.map (fun p => (p.1, Except.ok (g p))) := by
  unfold batchVerdicts
  apply flatMap_map_eq
  intro ch hch
  exact chunkVerdicts_eq haf cache g ch (fun p hp => hx p (List.mem_flatten.mpr ⟨ch, hch, hp⟩))

end Kvql.Proofs.RunTables
