/-
  LimitPlan over a child that talks to the storage is the list-based limit state machine
  `Kvql.Limit` (proved equal to `take count ∘ drop start` in Proofs/LimitProofs.lean) applied to
  the chunks the child produces: if the child produces `cs`, the LimitPlan produces
  `Limit.drainBatch start count bs fuel st cs`.
-/
import Kvql.Proofs.PlanProofsDelete
import Kvql.Proofs.LimitProofs

namespace Kvql.Proofs.Delete

open Kvql Kvql.Storage Kvql.Plans Kvql.Proofs.Plan Kvql.Proofs.Store Kvql.Proofs.Scan

section
variable {σ : Type} {c : Child σ} {bs : Nat} {fp : σ → Bytes → Prop} {ref : Store} {start count : Nat}

/-- `Batch` on this state returns nothing and does nothing -/
def Stable (c : Child σ) (bs : Nat) (s : σ) : Prop := ∀ w, c.batch bs s none w = (.ok ([], s), w)

theorem produces_of_stable {s : σ} (h : Stable c bs s) : Produces c bs fp ref s [] :=
  .done (fun w _ => ⟨w, h w, rfl⟩) h (fun _ hk => hk)

theorem skipBatch_step {s s' : σ} {x : List Pair} {w w1 : World} (fuel skips : Nat) (hlt : skips < start)
    (hb : c.batch bs s none w = (.ok (x, s'), w1)) (hx : x ≠ []) :
    LimitPlan.skipBatch start bs c (fuel + 1) skips s none w =
      if x.length ≤ start - skips then LimitPlan.skipBatch start bs c fuel (skips + x.length) s' none w1
      else (.ok (some (x.drop (start - skips)), skips + (start - skips), s'), w1) := by
  have hne : x.isEmpty = false := by cases x with | nil => exact absurd rfl hx | cons _ _ => rfl
  simp only [LimitPlan.skipBatch, if_pos hlt, run_bind, hb, hne, Bool.false_eq_true, if_false]
  split <;> rfl

/-- first loop of `LimitPlan.Batch` against `Limit.skipPhase` -/
theorem skip_sim : ∀ {s : σ} {cs : List (List Pair)}, Produces c bs fp ref s cs →
    ∀ (fuel skips : Nat), start - skips ≤ fuel →
    match Limit.skipPhase start skips cs with
    | .exhausted sk => ∃ s1, (∀ w, Agree fp ref s w → ∃ w', LimitPlan.skipBatch start bs c fuel skips s none w =
          (.ok (none, sk, s1), w') ∧ w'.store = w.store) ∧ Stable c bs s1 ∧ sk < start ∧ (∀ k, fp s1 k → fp s k)
    | .done sk rows cs1 => ∃ s1, (∀ w, Agree fp ref s w → ∃ w', LimitPlan.skipBatch start bs c fuel skips s none w =
          (.ok (some rows, sk, s1), w') ∧ w'.store = w.store) ∧ Produces c bs fp ref s1 cs1 ∧
        (∀ k, fp s1 k → fp s k) ∧ (∀ p ∈ rows, ¬ fp s1 p.1) ∧ start ≤ sk := by
  intro s cs hp
  induction hp with
  | @done s s' h1 hst hfp0 =>
    intro fuel skips hfuel
    simp only [Limit.skipPhase]
    by_cases hlt : skips < start
    · rw [if_pos hlt]
      refine ⟨s', ?_, hst, hlt, hfp0⟩
      intro w hag
      obtain ⟨w1, hb, hs⟩ := h1 w hag
      obtain ⟨fuel', hf⟩ : ∃ f', fuel = f' + 1 := ⟨fuel - 1, by omega⟩
      subst hf
      exact ⟨w1, by simp [LimitPlan.skipBatch, hlt, hb], hs⟩
    · rw [if_neg hlt]
      refine ⟨s, ?_, .done h1 hst hfp0, fun k hk => hk, by simp, by omega⟩
      intro w _
      exact ⟨w, by cases fuel <;> simp [LimitPlan.skipBatch, hlt], rfl⟩
  | @more s s' x cs hx h1 hfp hdis hp' ih =>
    intro fuel skips hfuel
    simp only [Limit.skipPhase]
    by_cases hlt : skips < start
    · rw [if_pos hlt]
      obtain ⟨fuel', hf⟩ : ∃ f', fuel = f' + 1 := ⟨fuel - 1, by omega⟩
      subst hf
      have hne : x.isEmpty = false := by cases x with | nil => exact absurd rfl hx | cons _ _ => rfl
      have hpos : 0 < x.length := List.length_pos_iff.mpr hx
      by_cases hle : x.length ≤ start - skips
      · rw [if_pos hle]
        have := ih fuel' (skips + x.length) (by omega)
        split at this
        · rename_i sk heq
          obtain ⟨s1, hb1, hst1, hsk, hfp1⟩ := this
          refine ⟨s1, ?_, hst1, hsk, fun k hk => hfp k (hfp1 k hk)⟩
          intro w hag
          obtain ⟨w1, hb, hs⟩ := h1 w hag
          obtain ⟨w2, hb2, hs2⟩ := hb1 w1 (fun k hk => by rw [hs]; exact hag k (hfp k hk))
          exact ⟨w2, by rw [skipBatch_step fuel' skips hlt hb hx, if_pos hle, hb2], by rw [hs2, hs]⟩
        · rename_i sk rows cs1 heq
          obtain ⟨s1, hb1, hp1, hfp1, hd1, hsk⟩ := this
          refine ⟨s1, ?_, hp1, fun k hk => hfp k (hfp1 k hk), hd1, hsk⟩
          intro w hag
          obtain ⟨w1, hb, hs⟩ := h1 w hag
          obtain ⟨w2, hb2, hs2⟩ := hb1 w1 (fun k hk => by rw [hs]; exact hag k (hfp k hk))
          exact ⟨w2, by rw [skipBatch_step fuel' skips hlt hb hx, if_pos hle, hb2], by rw [hs2, hs]⟩
      · rw [if_neg hle]
        refine ⟨s', ?_, hp', hfp, fun p hp => hdis p (List.mem_of_mem_drop hp), by omega⟩
        intro w hag
        obtain ⟨w1, hb, hs⟩ := h1 w hag
        exact ⟨w1, by rw [skipBatch_step fuel' skips hlt hb hx, if_neg hle], hs⟩
    · rw [if_neg hlt]
      refine ⟨s, ?_, .more hx h1 hfp hdis hp', fun k hk => hk, by simp, by omega⟩
      intro w _
      exact ⟨w, by cases fuel <;> simp [LimitPlan.skipBatch, hlt], rfl⟩

/-- third loop of `LimitPlan.Batch` against `Limit.fillPhase` -/
theorem fill_sim : ∀ {s : σ} {cs : List (List Pair)}, Produces c bs fp ref s cs →
    ∀ (fuel current : Nat) (acc : List Pair), 1 ≤ fuel → bs + 1 ≤ fuel + acc.length → current < count →
    ∃ s1, (∀ w, Agree fp ref s w → ∃ w', LimitPlan.fillBatch count bs c fuel current acc s none w =
          (.ok ((Limit.fillPhase count bs current acc.length acc cs).1,
            (Limit.fillPhase count bs current acc.length acc cs).2.1, s1), w') ∧ w'.store = w.store) ∧
      Produces c bs fp ref s1 (Limit.fillPhase count bs current acc.length acc cs).2.2 ∧
      (∀ k, fp s1 k → fp s k) ∧
      (∀ p ∈ (Limit.fillPhase count bs current acc.length acc cs).1, p ∈ acc ∨ ¬ fp s1 p.1) ∧
      acc.length ≤ (Limit.fillPhase count bs current acc.length acc cs).1.length ∧
      ((Limit.fillPhase count bs current acc.length acc cs).1.length = acc.length → Stable c bs s1) := by
  intro s cs hp
  induction hp with
  | @done s s' h1 hst hfp0 =>
    intro fuel current acc hf1 _ _
    obtain ⟨fuel', hf⟩ : ∃ f', fuel = f' + 1 := ⟨fuel - 1, by omega⟩
    subst hf
    simp only [Limit.fillPhase]
    refine ⟨s', ?_, produces_of_stable hst, hfp0, fun p hp => .inl hp, Nat.le_refl _, fun _ => hst⟩
    intro w hag
    obtain ⟨w1, hb, hs⟩ := h1 w hag
    exact ⟨w1, by simp [LimitPlan.fillBatch, hb], hs⟩
  | @more s s' x cs hx h1 hfp hdis hp' ih =>
    intro fuel current acc hf1 hfuel hcur
    obtain ⟨fuel', hf⟩ : ∃ f', fuel = f' + 1 := ⟨fuel - 1, by omega⟩
    subst hf
    have hne : x.isEmpty = false := by cases x with | nil => exact absurd rfl hx | cons _ _ => rfl
    have htk : 0 < (x.take (count - current)).length := by
      have : 0 < x.length := List.length_pos_iff.mpr hx
      simp only [List.length_take]; omega
    have hstep : ∀ w w1, c.batch bs s none w = (.ok (x, s'), w1) →
        LimitPlan.fillBatch count bs c (fuel' + 1) current acc s none w =
          (if current + (x.take (count - current)).length ≥ count then
              (.ok (acc ++ x.take (count - current), current + (x.take (count - current)).length, s'), w1)
            else if (acc ++ x.take (count - current)).length ≥ bs then
              (.ok (acc ++ x.take (count - current), current + (x.take (count - current)).length, s'), w1)
            else LimitPlan.fillBatch count bs c fuel' (current + (x.take (count - current)).length)
              (acc ++ x.take (count - current)) s' none w1) := by
      intro w w1 hb
      simp only [LimitPlan.fillBatch, run_bind, hb, hne, Bool.false_eq_true, if_false]
      split
      · rfl
      · split <;> rfl
    simp only [Limit.fillPhase, hne, Bool.false_eq_true, if_false]
    have hmem : ∀ p ∈ acc ++ x.take (count - current), p ∈ acc ∨ ¬ fp s' p.1 := by
      intro p hp
      rcases List.mem_append.mp hp with h | h
      · exact .inl h
      · exact .inr (hdis p (List.mem_of_mem_take h))
    by_cases hc1 : current + (x.take (count - current)).length ≥ count
    · rw [if_pos hc1]
      refine ⟨s', ?_, hp', hfp, hmem, by simp, fun h => by rw [List.length_append] at h; omega⟩
      intro w hag
      obtain ⟨w1, hb, hs⟩ := h1 w hag
      exact ⟨w1, by rw [hstep w w1 hb, if_pos hc1], hs⟩
    · rw [if_neg hc1]
      by_cases hc2 : acc.length + (x.take (count - current)).length ≥ bs
      · rw [if_pos hc2]
        refine ⟨s', ?_, hp', hfp, hmem, by simp, fun h => by rw [List.length_append] at h; omega⟩
        intro w hag
        obtain ⟨w1, hb, hs⟩ := h1 w hag
        exact ⟨w1, by rw [hstep w w1 hb, if_neg hc1, if_pos (by simpa using hc2)], hs⟩
      · rw [if_neg hc2]
        have hlen : (acc ++ x.take (count - current)).length = acc.length + (x.take (count - current)).length := by
          simp
        obtain ⟨s1, hb1, hp1, hfp1, hm1, hle1, hst1⟩ :=
          ih fuel' (current + (x.take (count - current)).length) (acc ++ x.take (count - current))
            (by omega) (by omega) (by omega)
        rw [hlen] at hb1 hp1 hm1 hle1 hst1
        refine ⟨s1, ?_, hp1, fun k hk => hfp k (hfp1 k hk), ?_, by omega, fun h => by omega⟩
        · intro w hag
          obtain ⟨w1, hb, hs⟩ := h1 w hag
          obtain ⟨w2, hb2, hs2⟩ := hb1 w1 (fun k hk => by rw [hs]; exact hag k (hfp k hk))
          exact ⟨w2, by rw [hstep w w1 hb, if_neg hc1, if_neg (by simpa using hc2), hb2], by rw [hs2, hs]⟩
        · intro p hp
          rcases hm1 p hp with h | h
          · rcases hmem p h with h' | h'
            · exact .inl h'
            · exact .inr (fun hk => h' (hfp1 p.1 hk))
          · exact .inr h

theorem produces_nonempty : ∀ {s : σ} {cs : List (List Pair)}, Produces c bs fp ref s cs → ∀ x ∈ cs, x ≠ [] := by
  intro s cs hp
  induction hp with
  | done => intro x hx; cases hx
  | more hx _ _ _ _ ih =>
    intro y hy
    rcases List.mem_cons.mp hy with e | hy
    · subst e; exact hx
    · exact ih y hy

/-- the keys a LimitPlan may still read: those of its child -/
def limFp (fp : σ → Bytes → Prop) : LimitSt σ → Bytes → Prop := fun st => fp st.child

/-- a LimitPlan that has handed out its `count` rows, or whose child is dry, does nothing more -/
theorem limit_stable (lim : Limit.St) (s1 : σ)
    (h : (count ≤ lim.current ∧ start ≤ lim.skips) ∨ Stable c bs s1) :
    Stable (LimitPlan.child start count c) bs ⟨lim, s1⟩ := by
  intro w
  show LimitPlan.batch start count c bs ⟨lim, s1⟩ none w = _
  obtain ⟨skips, current⟩ := lim
  by_cases hlt : skips < start
  · -- still skipping: the child must be dry
    have hst : Stable c bs s1 := by
      rcases h with ⟨_, h2⟩ | h
      · simp at h2; omega
      · exact h
    obtain ⟨f', hf⟩ : ∃ f', start - skips = f' + 1 := ⟨start - skips - 1, by omega⟩
    simp [LimitPlan.batch, hf, LimitPlan.skipBatch, hlt, hst w]
  · have h0 : start - skips = 0 := by omega
    by_cases hc : count ≤ current
    · have : count - current = 0 := by omega
      simp [LimitPlan.batch, h0, LimitPlan.skipBatch, hlt, this, hc]
    · have hst : Stable c bs s1 := by
        rcases h with ⟨h1, _⟩ | h
        · simp at h1; omega
        · exact h
      simp [LimitPlan.batch, h0, LimitPlan.skipBatch, hlt, hc, LimitPlan.fillBatch, hst w]

/-- one `LimitPlan.Batch` against `Limit.batch` -/
theorem batch_sim {s : σ} {cs : List (List Pair)} (hp : Produces c bs fp ref s cs) (lim : Limit.St) :
    ∃ s1, (∀ w, Agree fp ref s w → ∃ w', LimitPlan.batch start count c bs ⟨lim, s⟩ none w =
          (.ok ((Limit.batch start count bs lim cs).1, ⟨(Limit.batch start count bs lim cs).2.1, s1⟩), w') ∧
          w'.store = w.store) ∧
      Produces c bs fp ref s1 (Limit.batch start count bs lim cs).2.2 ∧
      (∀ k, fp s1 k → fp s k) ∧
      (∀ p ∈ (Limit.batch start count bs lim cs).1, ¬ fp s1 p.1) ∧
      ((Limit.batch start count bs lim cs).1 = [] →
        (count ≤ (Limit.batch start count bs lim cs).2.1.current ∧
          start ≤ (Limit.batch start count bs lim cs).2.1.skips) ∨ Stable c bs s1) := by
  have hsk := skip_sim (start := start) hp (start - lim.skips) lim.skips (Nat.le_refl _)
  unfold Limit.batch
  split at hsk
  · rename_i sk heq
    rw [heq]
    obtain ⟨s1, hb1, hst1, _, hfp1⟩ := hsk
    refine ⟨s1, ?_, produces_of_stable hst1, hfp1, by simp, fun _ => .inr hst1⟩
    intro w hag
    obtain ⟨w1, hb, hs⟩ := hb1 w hag
    exact ⟨w1, by simp [LimitPlan.batch, hb], hs⟩
  · rename_i sk rows cs1 heq
    rw [heq]
    obtain ⟨s1, hb1, hp1, hfp1, hd1, hsk1⟩ := hsk
    simp only []
    by_cases hge : lim.current + (rows.take (count - lim.current)).length ≥ count
    · rw [if_pos hge]
      refine ⟨s1, ?_, hp1, hfp1, fun p hp => hd1 p (List.mem_of_mem_take hp), fun _ => .inl ⟨hge, hsk1⟩⟩
      intro w hag
      obtain ⟨w1, hb, hs⟩ := hb1 w hag
      refine ⟨w1, ?_, hs⟩
      simp only [LimitPlan.batch, run_bind, hb]
      rw [if_pos hge]
      rfl
    · rw [if_neg hge]
      obtain ⟨s2, hb2, hp2, hfp2, hm2, hle2, hst2⟩ :=
        fill_sim (count := count) hp1 (bs + 1) (lim.current + (rows.take (count - lim.current)).length)
          (rows.take (count - lim.current)) (by omega) (by omega) (by omega)
      refine ⟨s2, ?_, hp2, fun k hk => hfp1 k (hfp2 k hk), ?_, ?_⟩
      · intro w hag
        obtain ⟨w1, hb, hs⟩ := hb1 w hag
        obtain ⟨w2, hbb, hs2⟩ := hb2 w1 (fun k hk => by rw [hs]; exact hag k (hfp1 k hk))
        refine ⟨w2, ?_, by rw [hs2, hs]⟩
        simp only [LimitPlan.batch, run_bind, hb]
        rw [if_neg hge]
        simp only [run_bind, hbb, run_pure]
      · intro p hp
        rcases hm2 p hp with h | h
        · exact fun hk => hd1 p (List.mem_of_mem_take h) (hfp2 p.1 hk)
        · exact h
      · intro hnil
        right
        apply hst2
        have h0 := congrArg List.length hnil
        simp only [List.length_nil] at h0
        omega

/-- if the child produces `cs`, the LimitPlan over it produces what the list-based limit machine
    makes of `cs` -/
theorem limit_produces : ∀ (fuel : Nat) (lim : Limit.St) {s : σ} {cs : List (List Pair)},
    Produces c bs fp ref s cs → cs.length < fuel →
    Produces (LimitPlan.child start count c) bs (limFp fp) ref ⟨lim, s⟩
      (Limit.drainBatch start count bs fuel lim cs) := by
  intro fuel
  induction fuel with
  | zero => intro lim s cs _ h; omega
  | succ fuel ih =>
    intro lim s cs hp hlen
    obtain ⟨s1, hb, hp1, hfp1, hd1, hnil⟩ := batch_sim (start := start) (count := count) hp lim
    have hne := produces_nonempty hp
    unfold Limit.drainBatch
    split
    · rename_i st' cs' heq
      rw [heq] at hb hnil
      exact .done (fun w hag => hb w hag) (limit_stable _ s1 (hnil rfl)) hfp1
    · rename_i out st' cs' hout heq
      rw [heq] at hb hp1 hd1
      have hlt := ((Kvql.Proofs.Limit.batch_spec start count bs lim cs hne out st' cs' heq).2 hout).2.2
      exact .more hout (fun w hag => hb w hag) hfp1 hd1 (ih st' hp1 (by omega))

end

/-! ### DELETE … LIMIT -/

theorem drainBatch_length {α : Type} (start count bs : Nat) : ∀ (fuel : Nat) (st : Limit.St) (cs : List (List α)),
    (Limit.drainBatch start count bs fuel st cs).length ≤ fuel := by
  intro fuel
  induction fuel with
  | zero => intro st cs; simp [Limit.drainBatch]
  | succ fuel ih =>
    intro st cs
    unfold Limit.drainBatch
    split
    · simp
    · simp only [List.length_cons]; have := ih ‹_› ‹_›; omega

theorem buildPlan_deleteLimit_cursor (node : ScanNode) (hc : node.isCursorScan = true) (filter : Filter) (hasAnd : Bool)
    (start count : Nat) (w : World) :
    ∃ w', buildPlan (.delete node filter hasAnd (some (start, count))) none w =
        (.ok (.deleteLimit node filter start count false
          ⟨{}, cursorSt w.store (node.startRest w.store) [] false⟩), w') ∧
      w'.store = w.store := by
  cases node with
  | mget ks => simp [ScanNode.isCursorScan] at hc
  | empty => simp [ScanNode.isCursorScan] at hc
  | full =>
    simp [buildPlan, buildPlan1, Plan.init, LimitPlan.init, ScanNode.child, ScanNode.init, ScanNode.newState, cursor,
      Cursor.seek, run_call_none, ScanNode.startRest, cursorSt]
  | «prefix» p =>
    simp [buildPlan, buildPlan1, Plan.init, LimitPlan.init, ScanNode.child, ScanNode.init, ScanNode.newState, cursor,
      Cursor.seek, run_call_none, ScanNode.startRest, cursorSt]
  | range a b =>
    cases a with
    | none =>
      simp [buildPlan, buildPlan1, Plan.init, LimitPlan.init, ScanNode.child, ScanNode.init, ScanNode.newState, cursor,
        run_call_none, ScanNode.startRest, cursorSt]
    | some a =>
      simp [buildPlan, buildPlan1, Plan.init, LimitPlan.init, ScanNode.child, ScanNode.init, ScanNode.newState, cursor,
        Cursor.seek, run_call_none, ScanNode.startRest, cursorSt]

theorem buildPlan_deleteLimit_mget (ks : List Bytes) (filter : Filter) (hasAnd : Bool) (start count : Nat) (w : World) :
    buildPlan (.delete (.mget ks) filter hasAnd (some (start, count))) none w =
      (.ok (.deleteLimit (.mget ks) filter start count false ⟨{}, mgetSt ks⟩), w) := by
  simp [buildPlan, buildPlan1, Plan.init, LimitPlan.init, ScanNode.child, ScanNode.init, ScanNode.newState]

/-- a run of a DELETE … LIMIT plan whose scan produces `cs` -/
theorem run_deleteLimit {node : ScanNode} {filter : Filter} {st : ScanSt} {cs : List (List Pair)} {ref : Store}
    (bs start count : Nat) (hp : Produces (node.child filter) bs scanFp ref st cs) (hlen : cs.length ≤ st.size)
    (kind : PollKind) (w : World) (hag : Agree scanFp ref st w) :
    ∃ w', drain kind bs (st.size + 2) (.deleteLimit node filter start count false ⟨{}, st⟩) [] none w =
        (⟨.ok, [[.count ((cs.flatten.drop start).take count).length]]⟩, w') ∧
      w'.store = w.store.eraseMany (((cs.flatten.drop start).take count).map (·.1)) := by
  have hlp := limit_produces (start := start) (count := count) (cs.length + 1) {} hp (by omega)
  have hflat := Kvql.Proofs.Limit.drainBatch_flatten_eq start count bs cs (produces_nonempty hp) (cs.length + 1)
    (Nat.le_refl _)
  have hl := drainBatch_length start count bs (cs.length + 1) {} cs
  obtain ⟨s', w', hloop, hs⟩ := delete_loop_correct hlp (st.size + 2) 0 w (by omega) hag
  rw [hflat] at hloop hs
  refine ⟨w', ?_, hs⟩
  simp only [Nat.zero_add] at hloop
  cases kind <;> simp [drain, Plan.poll, hloop]

/-- DELETE … LIMIT start, count removes exactly rows `start … start+count-1` of what the scan selects -/
theorem delete_limit_run (node : ScanNode) (hwf : ScanNode.WellFormed node) (filter : Filter) (hasAnd : Bool)
    (start count : Nat) (store : Store) (hs : store.Sorted)
    (hev : ∀ p ∈ store, node.inRegion p.1 = true → Evaluable filter p)
    (kind : PollKind) (bs : Nat) (hbs : 1 ≤ bs) :
    (run (.delete node filter hasAnd (some (start, count))) kind bs none store).1 =
        ⟨.ok, [[.count (((selected node filter store).drop start).take count).length]]⟩ ∧
    (run (.delete node filter hasAnd (some (start, count))) kind bs none store).2.store =
        store.eraseMany ((((selected node filter store).drop start).take count).map (·.1)) := by
  by_cases hc : node.isCursorScan = true
  · obtain ⟨w0, hb, hs0⟩ := buildPlan_deleteLimit_cursor node hc filter hasAnd start count { store := store }
    have hreg := region_of_cursor_scan node hc hs
    have hsub : ∀ p ∈ node.startRest store, p ∈ store := by
      intro p hp
      cases node with
      | mget ks => simp [ScanNode.isCursorScan] at hc
      | empty => simp [ScanNode.isCursorScan] at hc
      | full => exact (List.dropWhile_sublist _).subset hp
      | «prefix» pre => exact (List.dropWhile_sublist _).subset hp
      | range a b =>
        cases a with
        | none => exact hp
        | some a => exact (List.dropWhile_sublist _).subset hp
    have hev' : ∀ p ∈ node.startRest store, node.stop p.1 = false → Evaluable filter p :=
      fun p hp hstop => hev p (hsub p hp) (inRegion_of_startRest node hc hs p hp hstop)
    have hrows : scanRows node.stop filter (node.startRest store) = selected node filter store := by
      simp only [scanRows, selected, expectedRows, hreg]
    obtain ⟨cs, hp, hf, hcl⟩ := cursor_produces node hc filter bs hbs store store
      ((node.startRest store).length + 1) (node.startRest store) (by omega) hev'
    obtain ⟨w1, hd, hs1⟩ := run_deleteLimit bs start count hp (by simpa [ScanSt.size] using hcl) kind w0
      (by intro k hk; simp [scanFp] at hk)
    simp only [run, runG, hb, Plan.size]
    rw [hd, hs1, hs0, hf, hrows]
    exact ⟨rfl, rfl⟩
  · cases node with
    | full => simp [ScanNode.isCursorScan] at hc
    | «prefix» pre => simp [ScanNode.isCursorScan] at hc
    | range a b => simp [ScanNode.isCursorScan] at hc
    | empty =>
      have : selected .empty filter store = [] := by simp [selected, expectedRows, ScanNode.inRegion]
      rw [this]
      cases kind <;>
        simp [run, runG, buildPlan_delete_empty, drain, Plan.poll, DeletePlan.loop,
          ScanNode.child, ScanNode.batch, Store.eraseMany]
    | mget ks =>
      have hks : ks.Pairwise (· < ·) := hwf
      have hevon : EvaluableOn store filter ks := by
        intro k hk v hl
        exact hev (k, v) ((mem_iff_lookup hs k v).mpr hl) (by simpa [ScanNode.inRegion] using hk)
      have hrows : mgetRows store filter ks = selected (.mget ks) filter store := by
        simp only [mgetRows, selected, expectedRows, found_eq_filter hs hks, ScanNode.inRegion]
      obtain ⟨cs, hp, hf, hcl⟩ := mget_produces ks filter bs hbs store (ks.length + 1) ks (by omega) hks hevon
      obtain ⟨w1, hd, hs1⟩ := run_deleteLimit bs start count hp (by simpa [ScanSt.size] using hcl) kind
        { store := store } (by intro k _; rfl)
      simp only [run, runG, buildPlan_deleteLimit_mget, Plan.size]
      rw [hd, hs1, hf, hrows]
      exact ⟨rfl, rfl⟩

end Kvql.Proofs.Delete
