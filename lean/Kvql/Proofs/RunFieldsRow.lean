/-
  End-to-end proofs for SELECT statements WITH A FIELD LIST, part 2: traces that end well
  (`Good`), the projection in row mode, ORDER BY and LIMIT over a good trace.

  * `scanTrace_next_single`   in row mode every poll of a scan trace hands out exactly one pair;
  * `zipProj_ok`              the evaluation side laid over the storage side when both hand out
                              the same number of rows poll by poll;
  * `projSpecNext_good`       row mode: if the cache-free filter is Boolean on every stored pair and
                              the cache-free projection succeeds on every accepted pair, the
                              projection trace ends without failure, hands out one row per poll,
                              and its rows are `map row` over the accepted stored pairs in key order;
  * `orderTrace_good`         C07 over traces (row and batch mode);
  * `Good.limit`              C08 over traces (`limitTrace_rows`).
-/
import Kvql.Proofs.RunFieldsTrace
import Kvql.Properties.C07

namespace Kvql.Proofs.RunFields
open Kvql Kvql.Run Kvql.Plans Kvql.Storage Kvql.Cache Kvql.Project Kvql.Proofs.Scan
open Kvql.Proofs.RunTables Kvql.Proofs.RunScan Kvql.Proofs.RunLimit

/-! ### traces that end well -/

/-- the trace ends without failure, every poll hands out at least one row, the rows are `rows`, and
    the store is `store` at the end -/
structure Good (t : Trace (List Value)) (rows : List (List Value)) (store : Store) : Prop where
  fin : t.fin.1 = none
  rows : allRows t = rows
  nonempty : ∀ p ∈ t.polls, p.1 ≠ []
  store : t.fin.2.store = store

theorem Good.outcome {t : Trace (List Value)} {rows : List (List Value)} {store : Store} (h : Good t rows store) :
    t.outcome.fail = none ∧ t.outcome.rows = rows ∧ t.outcome.world.store = store :=
  ⟨h.fin, by rw [outcome_rows]; exact h.rows, h.store⟩

/-- C08 over a good trace -/
theorem Good.limit {t : Trace (List Value)} {rows : List (List Value)} {store : Store} (h : Good t rows store)
    (start count : Nat) (kind : PollKind) (bs : Nat) :
    (limitTrace start count kind bs t).outcome.fail = none ∧
    (limitTrace start count kind bs t).outcome.rows = (rows.drop start).take count := by
  have := limitTrace_rows start count kind bs t h.fin h.nonempty
  rw [h.rows] at this
  exact this

/-! ### row mode: one pair per poll -/

theorem poll_select_next {plan : Plan} (hp : IsSelect plan) (bs : Nat) (w : Storage.World) :
    (plan.poll .next bs none w).1.rows.length ≤ 1 := by
  obtain ⟨node, filter, st, rfl⟩ := hp
  simp only [Plan.poll]
  rcases hn : node.next filter st none w with ⟨r, w'⟩
  cases r with
  | error e => simp
  | ok x =>
    obtain ⟨o, st'⟩ := x
    cases o <;> simp

theorem pairsOfRows_length_le (rows : List Plans.Row) : (pairsOfRows rows).length ≤ rows.length := by
  unfold pairsOfRows
  exact List.length_filterMap_le _ _

theorem scanTraceLoop_next_le1 (cls : Option Project.PErr) (bs : Nat) (w0 : Storage.World) :
    ∀ (fuel : Nat) (plan : Plan) (w : Storage.World) (acc : List (List SPair × Storage.World)),
      IsSelect plan → (∀ p ∈ acc, p.1.length ≤ 1) →
      ∀ p ∈ (scanTraceLoop cls .next bs w0 fuel plan w acc).polls, p.1.length ≤ 1
  | 0, plan, w, acc, _, hacc => by simpa [scanTraceLoop] using hacc
  | fuel + 1, plan, w, acc, hsel, hacc => by
    have hlen := poll_select_next hsel bs w
    obtain ⟨_, hsel'⟩ := poll_select hsel .next bs w
    rcases hp : plan.poll .next bs none w with ⟨⟨rows, err, plan'⟩, w'⟩
    rw [hp] at hlen hsel'
    simp only at hlen hsel'
    cases err with
    | some e => simpa [scanTraceLoop, hp] using hacc
    | none =>
      cases rows with
      | nil => simpa [scanTraceLoop, hp] using hacc
      | cons r rs =>
        have ht : scanTraceLoop cls .next bs w0 (fuel + 1) plan w acc =
            scanTraceLoop cls .next bs w0 fuel plan' w' (acc ++ [(pairsOfRows (r :: rs), w')]) := by
          simp [scanTraceLoop, hp]
        rw [ht]
        apply scanTraceLoop_next_le1 cls bs w0 fuel plan' w' _ hsel'
        intro p hp'
        rcases List.mem_append.mp hp' with h | h
        · exact hacc p h
        · simp only [List.mem_singleton] at h
          subst h
          exact Nat.le_trans (pairsOfRows_length_le _) hlen

/-- every poll recorded in the trace of a scan in row mode has exactly one pair -/
theorem scanTrace_next_single (node : ScanNode) (v : Verdicts) (bs : Nat) (store : Store) :
    ∀ p ∈ (scanTrace node v .next bs store).polls, p.1.length = 1 := by
  intro p hp
  have hne := scanTrace_nonempty node v .next bs store p hp
  have hle : p.1.length ≤ 1 := by
    revert p
    unfold scanTrace
    rcases hb : buildPlan (.select node (filterOfV v)) none { store := store } with ⟨r, w⟩
    cases r with
    | error e => simp [Trace.failed]
    | ok plan =>
      simp only
      intro p hp _
      exact scanTraceLoop_next_le1 _ bs w _ plan w [] (buildPlan_select_isSelect hb) (by simp) p hp
  have : 0 < p.1.length := List.length_pos_iff.mpr hne
  omega

theorem singles_eq {α : Type} : ∀ (l : List (List α)), (∀ x ∈ l, x.length = 1) → l = l.flatten.map (fun a => [a])
  | [], _ => rfl
  | x :: xs, h => by
    have hx := h x List.mem_cons_self
    obtain ⟨a, rfl⟩ : ∃ a, x = [a] := by
      cases x with
      | nil => simp at hx
      | cons a t =>
        cases t with
        | nil => exact ⟨a, rfl⟩
        | cons b t => simp at hx
    have ih := singles_eq xs (fun y hy => h y (List.mem_cons_of_mem _ hy))
    simp only [List.flatten_cons, List.singleton_append, List.map_cons]
    rw [← ih]

/-! ### the scan trace from a verdict table that is defined on the region -/

/-- the storage side of a statement whose verdict table gives `g` on the stored pairs of the node's
    region, `g` false outside the region: no failure, the accepted stored pairs in store order, store
    unchanged (`scan_rows`) -/
theorem scanTrace_of_table (node : ScanNode) (hwf : ScanNode.WellFormed node) (store : Store) (hs : store.Sorted)
    (v : Verdicts) (g : SPair → Bool)
    (hv : ∀ p ∈ store, node.inRegion p.1 = true → v.lookup p.1 = some (.ok (g p)))
    (hcover : ∀ p ∈ store, g p = true → node.inRegion p.1 = true)
    (kind : PollKind) (bs : Nat) (hbs : 1 ≤ bs) :
    (scanTrace node v kind bs store).fin.1 = none ∧
    (scanTrace node v kind bs store).fin.2.store = store ∧
    (scanTrace node v kind bs store).polls.flatMap (·.1) = store.filter g := by
  have hev : ∀ p ∈ store, node.inRegion p.1 = true → Evaluable (filterOfV v) p :=
    fun p hp hr => evaluable_filterOfV (hv p hp hr)
  obtain ⟨h1, h2, h3⟩ := scan_rows node hwf (filterOfV v) store hs hev kind bs hbs
  obtain ⟨t1, t2⟩ := scanTrace_ok node v kind bs store h1
  have hexp : expectedRows node (filterOfV v) store = store.filter g := by
    rw [expectedRows, List.filter_filter]
    apply List.filter_congr
    intro p hp
    cases hr : node.inRegion p.1 with
    | true => simp [accepts_filterOfV (hv p hp hr)]
    | false =>
      cases hg : g p with
      | false => simp
      | true => rw [hcover p hp hg] at hr; cases hr
  refine ⟨by rw [t1], by rw [t1]; exact h3, ?_⟩
  rw [t2, h2, pairsOfRows_map, hexp]

/-! ### `zipProj` when both sides agree poll by poll -/

theorem zipProj_ok (wf w0 : Storage.World) : ∀ (polls : List (List SPair × Storage.World)) (rss : List (List Project.Row))
    (acc : List (List (List Value) × Storage.World)),
    polls.map (fun p => p.1.length) = rss.map List.length →
    zipProj polls (none, wf) rss none w0 acc =
      { w0 := w0, polls := acc ++ List.zipWith (fun p rs => (rs, p.2)) polls rss, fin := (none, wf) }
  | [], [], acc, _ => by rw [zipProj]; simp
  | [], _ :: _, _, h => by simp at h
  | _ :: _, [], _, h => by simp at h
  | (pairs, w) :: ps, rows :: rs, acc, h => by
    simp only [List.map_cons, List.cons.injEq] at h
    have hl : (rows.length == pairs.length) = true := by simp [h.1.symm]
    rw [zipProj]
    simp only [hl, if_true]
    rw [zipProj_ok wf w0 ps rs _ h.2]
    simp

theorem zipWith_fst : ∀ (polls : List (List SPair × Storage.World)) (rss : List (List Project.Row)),
    polls.length = rss.length →
    (List.zipWith (fun (p : List SPair × Storage.World) (rs : List Project.Row) => (rs, p.2)) polls rss).map (·.1) = rss
  | [], [], _ => rfl
  | [], _ :: _, h => by simp at h
  | _ :: _, [], h => by simp at h
  | a :: as, r :: rs, h => by
    simp only [List.length_cons, Nat.add_right_cancel_iff] at h
    simp [zipWith_fst as rs h]

/-- the trace `zipProj_ok` yields ends well -/
theorem zipped_good {polls : List (List SPair × Storage.World)} {rss : List (List Project.Row)} {wf w0 : Storage.World} {store : Store}
    (hl : polls.map (fun p => p.1.length) = rss.map List.length) (hne : ∀ p ∈ polls, p.1 ≠ [])
    (hst : wf.store = store) :
    Good { w0 := w0, polls := List.zipWith (fun p rs => (rs, p.2)) polls rss, fin := (none, wf) } rss.flatten store := by
  have hlen : polls.length = rss.length := by simpa using congrArg List.length hl
  have hfst := zipWith_fst polls rss hlen
  refine ⟨rfl, ?_, ?_, hst⟩
  · unfold allRows
    simp only
    rw [List.flatMap_def, hfst]
  · intro q hq
    have hq1 : q.1 ∈ rss := by rw [← hfst]; exact List.mem_map.mpr ⟨q, hq, rfl⟩
    have : q.1.length ∈ rss.map List.length := List.mem_map.mpr ⟨q.1, hq1, rfl⟩
    rw [← hl] at this
    obtain ⟨p, hp, e⟩ := List.mem_map.mp this
    have h0 := hne p hp
    intro hnil
    rw [hnil] at e
    exact h0 (List.length_eq_zero_iff.mp e)

/-! ### the projection in row mode -/

theorem rowsSpec_of {w : Expr} {fields : List Field} (g : SPair → Bool) (row : SPair → Project.Row) :
    ∀ (l : List SPair), (∀ p ∈ l, filterSpec w (toKv p) = .ok (g p)) →
      (∀ p ∈ l, g p = true → rowSpec fields (toKv p) = .ok (row p)) →
      rowsSpec w fields (l.map toKv) = ⟨(l.filter g).map row, none⟩
  | [], _, _ => rfl
  | x :: xs, hf, hr => by
    have ih := rowsSpec_of g row xs (fun p hp => hf p (List.mem_cons_of_mem _ hp))
      (fun p hp => hr p (List.mem_cons_of_mem _ hp))
    rw [List.map_cons, rowsSpec, hf x List.mem_cons_self]
    cases hg : g x with
    | false => simp only [List.filter_cons, hg]; exact ih
    | true =>
      simp only [hr x List.mem_cons_self hg, ih, List.filter_cons, hg, if_true, List.map_cons]

theorem accepted_of_filterSpec {w : Expr} {p : SPair} {b : Bool} (h : filterSpec w (toKv p) = .ok b) :
    Select.accepted w p = b := by
  unfold filterSpec nocache at h
  unfold Select.accepted Select.execTrue
  have e : (⟨p.1, p.2⟩ : Kvql.Pair) = toKv p := rfl
  rw [e]
  cases hx : (exec w (toKv p) Ctx.off).1 with
  | error e => rw [hx] at h; cases h
  | ok v =>
    rw [hx] at h
    cases v with
    | bool b' => simp at h; subst h; cases b' <;> rfl
    | _ => simp at h

theorem nodeOf_wf (w : Expr) : ScanNode.WellFormed (nodeOf (Scan.optimize w)) := by
  rw [Kvql.Proofs.Run.nodeOf_eq]; exact Select.nodeOf_wellFormed _

/-- the scan node inferred from `w` covers every pair `w` accepts (C02 `scan_plan_sound`) -/
theorem cover_of_accepted (w : Expr) (p : SPair) (h : Select.accepted w p = true) :
    (nodeOf (Scan.optimize w)).inRegion p.1 = true := by
  rw [Kvql.Proofs.Run.nodeOf_eq]
  exact Select.inRegion_of_region (Kvql.Properties.C02.scan_plan_sound (Select.exec_is_sem p.2) w p.1 h)

/-- **row mode, the projection trace of a statement with a field list.**  If, cache off, the folded
    WHERE is Boolean (`g`) on every stored pair and the folded fields project every accepted pair
    (`row`), the trace ends well with the rows `map row` of the accepted pairs in key order. -/
theorem projSpecNext_good {s : SelectS} {f : FoldedSelect} (hnf : s.allFields = false) {store : Store}
    (hs : store.Sorted) (bs : Nat) (hbs : 1 ≤ bs) (g : SPair → Bool) (row : SPair → Project.Row)
    (hf : ∀ p ∈ store, filterSpec f.where_ (toKv p) = .ok (g p))
    (hr : ∀ p ∈ store, g p = true → rowSpec (selFields s f) (toKv p) = .ok (row p)) :
    Good (projSpecNext s f store bs) ((store.filter g).map row) store ∧
    (∀ p ∈ (projSpecNext s f store bs).polls, p.1.length = 1) := by
  have hwf := nodeOf_wf f.where_
  have hy := yielded_eq_filter (nodeOf (Scan.optimize f.where_)) hwf hs
  have hcover : ∀ p ∈ store, g p = true → (nodeOf (Scan.optimize f.where_)).inRegion p.1 = true := by
    intro p hp hg
    apply cover_of_accepted
    rw [accepted_of_filterSpec (hf p hp)]; exact hg
  have hv : ∀ p ∈ store, (nodeOf (Scan.optimize f.where_)).inRegion p.1 = true →
      (rowTable f.where_ (yielded (nodeOf (Scan.optimize f.where_)) store)).lookup p.1 = some (.ok (g p)) := by
    intro p hp hreg
    unfold rowTable
    rw [hy, lookup_map_of_mem _ (keys_distinct hs _) (List.mem_filter.mpr ⟨hp, hreg⟩), hf p hp]
  obtain ⟨t1, t2, t3⟩ := scanTrace_of_table _ hwf store hs _ g hv hcover .next bs hbs
  -- the evaluation side
  have hsub : ∀ p ∈ yielded (nodeOf (Scan.optimize f.where_)) store, p ∈ store := by
    intro p hp; rw [hy] at hp; exact (List.mem_filter.mp hp).1
  have hspec := rowsSpec_of (w := f.where_) (fields := selFields s f) g row
    (yielded (nodeOf (Scan.optimize f.where_)) store)
    (fun p hp => hf p (hsub p hp)) (fun p hp hg => hr p (hsub p hp) hg)
  have hyg : (yielded (nodeOf (Scan.optimize f.where_)) store).filter g = store.filter g := by
    rw [hy, List.filter_filter]
    apply List.filter_congr
    intro p hp
    cases hg : g p with
    | false => simp
    | true => simp [hcover p hp hg]
  rw [hyg] at hspec
  -- the storage side: one accepted pair per poll
  have hsingle := scanTrace_next_single (nodeOf (Scan.optimize f.where_))
    (rowTable f.where_ (yielded (nodeOf (Scan.optimize f.where_)) store)) bs store
  generalize hst : scanTrace (nodeOf (Scan.optimize f.where_))
    (rowTable f.where_ (yielded (nodeOf (Scan.optimize f.where_)) store)) .next bs store = st at t1 t2 t3 hsingle
  have hfin : st.fin = (none, st.fin.2) := by
    rcases hfx : st.fin with ⟨a, b⟩
    rw [hfx] at t1
    simp only at t1
    rw [t1]
  have hpolls : st.polls.map (·.1) = (store.filter g).map (fun p => [p]) := by
    have := singles_eq (st.polls.map (·.1)) (by
      intro x hx
      obtain ⟨q, hq, rfl⟩ := List.mem_map.mp hx
      exact hsingle q hq)
    rw [this, ← List.flatMap_def, t3]
  have hlens : st.polls.map (fun p => p.1.length) =
      (((store.filter g).map row).map (fun r => [r])).map List.length := by
    have : st.polls.map (fun p => p.1.length) = (st.polls.map (·.1)).map List.length := by
      rw [List.map_map]; rfl
    rw [this, hpolls]
    simp [List.map_map, Function.comp_def]
  have hdef : projSpecNext s f store bs =
      zipProj st.polls st.fin (((store.filter g).map row).map (fun r => [r])) none st.w0 [] := by
    unfold projSpecNext
    simp only [hnf, Bool.false_eq_true, if_false, hst, hspec]
  rw [hdef, hfin, zipProj_ok st.fin.2 st.w0 st.polls _ [] hlens]
  simp only [List.nil_append]
  have hne : ∀ p ∈ st.polls, p.1 ≠ [] := by
    intro p hp e
    have := hsingle p hp
    rw [e] at this
    simp at this
  have hgood := zipped_good (w0 := st.w0) hlens hne t2
  rw [flatten_single] at hgood
  refine ⟨hgood, ?_⟩
  intro q hq
  have hlen : st.polls.length = (((store.filter g).map row).map (fun r => [r])).length := by
    simpa using congrArg List.length hlens
  have hq1 : q.1 ∈ ((store.filter g).map row).map (fun r => [r]) := by
    rw [← zipWith_fst st.polls _ hlen]; exact List.mem_map.mpr ⟨q, hq, rfl⟩
  obtain ⟨r, _, e⟩ := List.mem_map.mp hq1
  rw [← e]; rfl

/-! ### ORDER BY over a good trace (C07) -/

open Kvql.Order Kvql.Spec.Order Kvql.Proofs.Order in
theorem SWO.comap {α β : Type} {P : α → Prop} {less : α → α → Bool} (h : SWO P less) (φ : β → α) :
    SWO (fun b => P (φ b)) (fun a b => less (φ a) (φ b)) :=
  ⟨fun _ ha => h.irrefl _ ha, fun _ _ _ ha hb hc => h.trans _ _ _ ha hb hc,
    fun _ _ _ ha hb hc => h.incomp _ _ _ ha hb hc⟩

/-- the documented order on rows of values -/
def lessV (keys : List Order.Key) (a b : List Value) : Bool :=
  Spec.Order.rowLess keys (a.map toCol) (b.map toCol)

/-- the rows on which the documented order is defined (`Spec.Order.RowOK`, C07 (d)) -/
def RowOKV (keys : List Order.Key) (kinds : List Spec.Order.Kind) (r : List Value) : Prop :=
  Spec.Order.RowOK Kvql.Properties.C07.SmallInt keys kinds (r.map toCol)

theorem lessV_swo (keys : List Order.Key) (kinds : List Spec.Order.Kind) :
    Kvql.Proofs.Order.SWO (RowOKV keys kinds) (lessV keys) ∧
    Kvql.Proofs.Order.LessOK (RowOKV keys kinds) (lessRows keys) (lessV keys) := by
  obtain ⟨hl, hs⟩ := Kvql.Properties.C07.less_swo keys kinds
  exact ⟨SWO.comap hs (fun (r : List Value) => r.map toCol), fun a b ha hb => hl _ _ ha hb⟩

theorem order_drainBatch_nonempty {α : Type} (lessR : α → α → Order.Res Bool) (bs : Nat) :
    ∀ (fuel : Nat) (st : Order.St α) (child : List (List α)) (bss : List (List α)),
      Order.drainBatch lessR bs fuel st child = .ok bss → ∀ b ∈ bss, b ≠ []
  | 0, _, _, bss, h => by
    simp only [Order.drainBatch] at h
    cases h
    intro b hb; cases hb
  | fuel + 1, st, child, bss, h => by
    rw [Order.drainBatch] at h
    split at h
    · cases h
    · cases h; intro b hb; cases hb
    · rename_i out st' child' hne hb
      split at h
      · cases h
      · rename_i rest hrest
        cases h
        intro b hb'
        rcases List.mem_cons.mp hb' with rfl | hb'
        · intro e
          subst e
          exact hne rfl
        · exact order_drainBatch_nonempty lessR bs fuel st' child' rest hrest b hb'

theorem sum_lengths {α : Type} (t : Trace α) : (t.polls.map (·.1.length)).sum = (allRows t).length := by
  unfold allRows
  rw [List.length_flatMap]

/-- **C07 over traces.**  ORDER BY over a child that ends well, on rows on which the documented
    order is defined: the trace ends well, its rows are a permutation of the child's rows and no row
    is (documented-order) less than an earlier one — row mode and batch mode, every batch size ≥ 1. -/
theorem orderTrace_good {t : Trace (List Value)} {R : List (List Value)} {store : Store} (h : Good t R store)
    (keys : List Order.Key) (kinds : List Spec.Order.Kind) (hR : ∀ r ∈ R, RowOKV keys kinds r)
    (kind : PollKind) (bs : Nat) (hbs : 1 ≤ bs) :
    ∃ out, Good (orderTrace keys kind bs t) out store ∧ out.Perm R ∧
      out.Pairwise (fun a b => lessV keys b a = false) := by
  obtain ⟨hswo, hlok⟩ := lessV_swo keys kinds
  have hsum := sum_lengths t
  rw [h.rows] at hsum
  cases kind with
  | next =>
    obtain ⟨out, e, hp, hpw⟩ := Kvql.Proofs.Order.plan_sorted_next hswo hlok R hR (R.length + 2) (by omega)
    refine ⟨out, ?_, hp, hpw⟩
    have hdef : orderTrace keys .next bs t =
        { w0 := t.w0, polls := out.map (fun r => ([r], t.fin.2)), fin := (none, t.fin.2) } := by
      unfold orderTrace
      simp only [h.fin, hsum]
      have hall : t.polls.flatMap (·.1) = R := h.rows
      rw [hall, e]
    rw [hdef]
    refine ⟨rfl, ?_, ?_, h.store⟩
    · unfold allRows
      simp only [List.flatMap_def, List.map_map, Function.comp_def]
      exact flatten_single out
    · intro p hp'
      obtain ⟨r, _, rfl⟩ := List.mem_map.mp hp'
      simp
  | batch =>
    have hne : ∀ c ∈ t.polls.map (·.1), c ≠ [] := by
      intro c hc
      obtain ⟨p, hp, rfl⟩ := List.mem_map.mp hc
      exact h.nonempty p hp
    have hfl : (t.polls.map (·.1)).flatten = R := by rw [← List.flatMap_def]; exact h.rows
    obtain ⟨out, e, hp, hpw⟩ := Kvql.Proofs.Order.plan_sorted_batch hswo hlok bs hbs (t.polls.map (·.1)) hne
      (by rw [hfl]; exact hR) (R.length + 2) (by rw [hfl]; omega)
    rw [hfl] at hp
    cases hd : Order.drainBatch (lessRows keys) bs (R.length + 2) {} (t.polls.map (·.1)) with
    | panic => rw [hd] at e; cases e
    | ok bss =>
      rw [hd] at e
      simp only [Order.Res.map, Order.Res.ok.injEq] at e
      refine ⟨out, ?_, hp, hpw⟩
      have hdef : orderTrace keys .batch bs t =
          { w0 := t.w0, polls := bss.map (fun b => (b, t.fin.2)), fin := (none, t.fin.2) } := by
        unfold orderTrace
        simp only [h.fin, hsum, hd]
      rw [hdef]
      refine ⟨rfl, ?_, ?_, h.store⟩
      · unfold allRows
        simp only [List.flatMap_def, List.map_map, Function.comp_def, List.map_id']
        exact e
      · intro p hp'
        obtain ⟨b, hb, rfl⟩ := List.mem_map.mp hp'
        exact order_drainBatch_nonempty _ bs _ _ _ bss hd b hb

end Kvql.Proofs.RunFields
