/-
  `Bytes.cmp/le/lt/eq` are the lexicographic order of core Lean on `List UInt8`, and
  `Bytes.isPrefix` is `List.IsPrefix`; with that, byte strings are a linear order with least
  element `[]` in which the strings having a given prefix form an interval (the `KeySpace` laws
  of DESIGN.md Appendix C).  `grind` does the order reasoning from the core instances
  `Std.IsLinearOrder (List UInt8)` / `Std.LawfulOrderLT (List UInt8)`.
-/
import Std
import Kvql.Model.ByteOrder

namespace Kvql.Bytes

theorem cmp_lt_iff (a b : Bytes) : cmp a b = .lt ↔ a < b := by
  induction a generalizing b with
  | nil => cases b <;> simp [cmp, List.nil_lt_cons]
  | cons x xs ih =>
    cases b with
    | nil => simp [cmp]
    | cons y ys =>
      simp only [cmp, List.cons_lt_cons_iff]
      split
      · simp_all
      · split
        · rename_i h1 h2
          simp only [reduceCtorEq, false_iff, not_or, not_and]
          exact ⟨h1, fun h => by subst h; exact absurd h2 h1⟩
        · rename_i h1 h2
          have : x = y := by
            have := UInt8.le_antisymm (UInt8.not_lt.mp h2) (UInt8.not_lt.mp h1)
            exact this
          simp [ih, this]

theorem cmp_eq_iff (a b : Bytes) : cmp a b = .eq ↔ a = b := by
  induction a generalizing b with
  | nil => cases b <;> simp [cmp]
  | cons x xs ih =>
    cases b with
    | nil => simp [cmp]
    | cons y ys =>
      simp only [cmp, List.cons.injEq]
      split
      · rename_i h
        simp only [reduceCtorEq, false_iff, not_and]
        intro e; subst e; exact absurd h (UInt8.lt_irrefl _)
      · split
        · rename_i h1 h2
          simp only [reduceCtorEq, false_iff, not_and]
          intro e; subst e; exact absurd h2 (UInt8.lt_irrefl _)
        · rename_i h1 h2
          have : x = y := UInt8.le_antisymm (UInt8.not_lt.mp h2) (UInt8.not_lt.mp h1)
          simp [ih, this]

theorem cmp_swap (a b : Bytes) : cmp a b = .gt ↔ cmp b a = .lt := by
  induction a generalizing b with
  | nil => cases b <;> simp [cmp]
  | cons x xs ih =>
    cases b with
    | nil => simp [cmp]
    | cons y ys =>
      simp only [cmp]
      by_cases h1 : x < y <;> by_cases h2 : y < x <;> simp [h1, h2, ih]
      exact absurd h2 (UInt8.not_lt.mpr (UInt8.le_of_lt h1))

theorem cmp_gt_iff (a b : Bytes) : cmp a b = .gt ↔ b < a := by
  rw [cmp_swap, cmp_lt_iff]

theorem lt_iff (a b : Bytes) : lt a b = true ↔ a < b := by
  simp [lt, cmp_lt_iff]

theorem eq_iff (a b : Bytes) : eq a b = true ↔ a = b := by
  simp [eq, cmp_eq_iff]

theorem le_iff (a b : Bytes) : le a b = true ↔ a ≤ b := by
  have h := cmp_gt_iff a b
  simp only [le, bne_iff_ne, ne_eq]
  rw [← List.not_lt]
  exact not_congr h

/-- bridges to the plan-layer model (`Kvql.Plans`), which uses core's order and
    `List.isPrefixOf` directly -/
theorem lt_eq_decide (a b : Bytes) : lt a b = decide (a < b) := by
  by_cases h : a < b <;> simp [h, lt_iff, Bool.eq_false_iff]

theorem le_eq_decide (a b : Bytes) : le a b = decide (a ≤ b) := by
  by_cases h : a ≤ b <;> simp [h, le_iff, Bool.eq_false_iff]

theorem isPrefix_eq_isPrefixOf (p k : Bytes) : isPrefix p k = p.isPrefixOf k := by
  induction p generalizing k with
  | nil => simp [isPrefix]
  | cons x xs ih => cases k <;> simp [isPrefix, ih, List.isPrefixOf]

/-- `p` is a prefix of `k` (kept as a definition so that `grind` treats it as an atom) -/
def Pre (p k : Bytes) : Prop := p <+: k

theorem isPrefix_iff (p k : Bytes) : isPrefix p k = true ↔ Pre p k := by
  unfold Pre
  induction p generalizing k with
  | nil => simp [isPrefix]
  | cons x xs ih =>
    cases k with
    | nil => simp [isPrefix]
    | cons y ys => simp [isPrefix, ih, List.cons_prefix_cons]

theorem isPrefix_false_iff (p k : Bytes) : isPrefix p k = false ↔ ¬ Pre p k := by
  rw [← isPrefix_iff]; simp

theorem le_false_iff (a b : Bytes) : le a b = false ↔ ¬ a ≤ b := by
  rw [← le_iff]; simp

theorem lt_false_iff (a b : Bytes) : lt a b = false ↔ ¬ a < b := by
  rw [← lt_iff]; simp

theorem eq_false_iff (a b : Bytes) : eq a b = false ↔ ¬ a = b := by
  rw [← eq_iff]; simp

instance (p k : Bytes) : Decidable (Pre p k) := decidable_of_iff _ (isPrefix_iff p k)

/-! ### the `KeySpace` laws -/

theorem nil_le (k : Bytes) : ([] : Bytes) ≤ k := List.nil_le k

theorem pre_refl (k : Bytes) : Pre k k := List.prefix_refl k

theorem pre_nil (k : Bytes) : Pre [] k := List.nil_prefix

theorem pre_of_nil (p : Bytes) : Pre p [] → p = [] := List.prefix_nil.mp

theorem pre_trans {a b c : Bytes} : Pre a b → Pre b c → Pre a c := List.IsPrefix.trans

theorem pre_comparable {a b k : Bytes} : Pre a k → Pre b k → Pre a b ∨ Pre b a :=
  List.prefix_or_prefix_of_prefix

/-- a prefix is not greater -/
theorem pre_le {p k : Bytes} : Pre p k → p ≤ k := by
  unfold Pre
  induction p generalizing k with
  | nil => intro _; exact List.nil_le k
  | cons x xs ih =>
    cases k with
    | nil => simp
    | cons y ys =>
      rw [List.cons_prefix_cons]
      rintro ⟨rfl, h⟩
      have := ih h
      rw [← List.not_lt] at this ⊢
      simp only [List.cons_lt_cons_iff, not_or, not_and]
      exact ⟨UInt8.lt_irrefl _, fun _ => this⟩

/-- the strings with prefix `p` are convex: between two of them there are only such strings -/
theorem pre_conv {p a b c : Bytes} : Pre p a → Pre p c → a ≤ b → b ≤ c → Pre p b := by
  unfold Pre
  induction p generalizing a b c with
  | nil => intros; exact List.nil_prefix
  | cons x xs ih =>
    cases a with
    | nil => simp
    | cons a0 as =>
      cases c with
      | nil => simp
      | cons c0 cs =>
        rw [List.cons_prefix_cons, List.cons_prefix_cons]
        rintro ⟨rfl, ha⟩ ⟨rfl, hc⟩ hab hbc
        cases b with
        | nil =>
          rw [← List.not_lt] at hab
          exact absurd (List.nil_lt_cons _ _) hab
        | cons b0 bs =>
          rw [← List.not_lt] at hab hbc
          simp only [List.cons_lt_cons_iff, not_or, not_and] at hab hbc
          have e : x = b0 := UInt8.le_antisymm (UInt8.not_lt.mp hab.1) (UInt8.not_lt.mp hbc.1)
          subst e
          rw [List.cons_prefix_cons]
          refine ⟨rfl, ih ha hc ?_ ?_⟩
          · rw [← List.not_lt]; exact hab.2 rfl
          · rw [← List.not_lt]; exact hbc.2 rfl

end Kvql.Bytes
