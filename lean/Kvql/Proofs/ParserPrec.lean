/-
  parse_precedence (partial): a tree of binary operators over single-token operands, written
  with parentheses only where the documented precedence table requires them (left operand:
  when it binds less tightly than the operator; right operand: when it does not bind more
  tightly — the operators are left associative), parses back to exactly that tree.

  Partial: the operators `in` and `between` (whose right-hand sides have their own syntax),
  unary `!`, calls and indexing are not in the fragment.

  The proof is the classical precedence-climbing invariant, in loop-state form: after the
  tokens of an un-parenthesised tree `e` have been read at threshold `prec1 ≤ prec e`, the
  machine is in the state "loop of `parseBinaryExpr` at threshold `prec1` with `e` in hand"
  (`QOK`); `MOK` (a complete parse that stops) follows for every threshold.
-/
import Kvql.Proofs.ParserPrintParse

set_option linter.unusedSimpArgs false

namespace Kvql.Proofs.Prec

open Kvql Kvql.Parser Kvql.Generated Kvql.Proofs.PrintLex Kvql.Proofs.PrintParse

variable (pf : Bytes → F64)

/-- the token of a single-token operand, carrying the node's position -/
def atomTok : Expr → Option Token
  | .name p d => some (tok tkNAME d p)
  | .field p .key => some (tok tkKEY (Bytes.ofAscii "key") p)
  | .field p .value => some (tok tkVALUE (Bytes.ofAscii "value") p)
  | .str p d => some (tok tkSTRING d p)
  | .num p d v => if v == Int64.ofInt ((parseInt? d).getD 0) then some (tok tkNUMBER d p) else none
  | .float p d v => if pf d == v then some (tok tkFLOAT d p) else none
  | .bool p d true => some (tok tkTRUE d p)
  | .bool p d false => some (tok tkFALSE d p)
  | _ => none

/-- the binary operators of the fragment -/
def opOK (op : Op) : Bool := op != .not && op != .in_ && op != .between

/-- binary operators over single-token operands -/
def frag : Expr → Bool
  | .binop _ op l r => opOK op && frag l && frag r
  | e => (atomTok pf e).isSome

/-- binding strength of a tree: that of its root operator; operands bind tightest -/
def pr : Expr → Nat
  | .binop _ op _ _ => opPrec op
  | _ => 7

def wrap (b : Bool) (ts : Toks) : Toks :=
  if b then tok tkLPAREN [40] 0 :: (ts ++ [tok tkRPAREN [41] 0]) else ts

/-- minimal parenthesisation by the documented table -/
def rend : Expr → Toks
  | .binop p op l r =>
    wrap (decide (pr l < opPrec op)) (rend l) ++ tok tkOPERATOR (Expr.opText op) p ::
      wrap (decide (pr r ≤ opPrec op)) (rend r)
  | e => match atomTok pf e with
    | some t => [t]
    | none => []

/-- `e` as an operand in a context that requires binding strength `prec1` -/
def rendAt (prec1 : Nat) (e : Expr) : Toks := wrap (decide (pr e < prec1)) (rend pf e)

theorem opPrec_pos {op : Op} (h : opOK op = true) : 1 ≤ opPrec op ∧ opPrec op ≤ 5 := by
  cases op <;> simp_all [opOK, opPrec]

theorem atom_operand {e : Expr} {t : Token} (h : atomTok pf e = some t) :
    (∀ f lev rest, parseOperand pf (f + 1) lev (t :: rest) = .ok (e, rest)) ∧ notBang t := by
  cases e <;> simp only [atomTok] at h
  case name p d => cases h; exact ⟨fun f lev rest => operand_name pf f lev d p rest, notBang_of_tp' (by decide)⟩
  case field p kw =>
    cases kw <;> simp only [atomTok] at h <;> cases h
    · exact ⟨fun f lev rest => operand_key pf f lev _ p rest, notBang_of_tp' (by decide)⟩
    · exact ⟨fun f lev rest => operand_value pf f lev _ p rest, notBang_of_tp' (by decide)⟩
  case str p d => cases h; exact ⟨fun f lev rest => operand_str pf f lev d p rest, notBang_of_tp' (by decide)⟩
  case num p d v =>
    split at h
    · rename_i hv
      cases h
      refine ⟨fun f lev rest => ?_, notBang_of_tp' (by decide)⟩
      rw [operand_num]
      simp only [beq_iff_eq] at hv
      simp [Expr.newNumber, hv]
    · cases h
  case float p d v =>
    split at h
    · rename_i hv
      cases h
      refine ⟨fun f lev rest => ?_, notBang_of_tp' (by decide)⟩
      rw [operand_float]
      simp only [beq_iff_eq] at hv
      simp [hv]
    · cases h
  case bool p d v =>
    cases v <;> simp only [atomTok] at h <;> cases h
    · exact ⟨fun f lev rest => operand_false pf f lev d p rest, notBang_of_tp' (by decide)⟩
    · exact ⟨fun f lev rest => operand_true pf f lev d p rest, notBang_of_tp' (by decide)⟩
  all_goals cases h

/-! ### the invariant -/

/-- after the tokens of the un-parenthesised tree `e`, read at a threshold `prec1 ≤ pr e`, the
    parser stands in the loop of `parseBinaryExpr` at that threshold with `e` in hand — provided
    what follows does not bind more tightly than `e`'s root (it is the operator of an enclosing
    expression, a closing parenthesis, or the end) -/
def QOK (e : Expr) : Prop :=
  ∀ prec1 fuel lev rest, prec1 ≤ pr e → StopB (pr e + 1) rest → 8 * (rend pf e).length + 4 ≤ fuel →
    lev + fuel ≤ maxNest →
    ∃ fuel' lev', parseBinaryExpr pf fuel lev prec1 (rend pf e ++ rest) = binaryLoop pf fuel' lev' prec1 e rest ∧
      fuel ≤ fuel' + (rend pf e).length ∧ lev' + fuel' ≤ lev + fuel

/-- `e`, parenthesised if the context `prec1` requires it, parses to `e` and stops -/
def MOK (e : Expr) : Prop :=
  ∀ prec1 fuel lev rest, 1 ≤ prec1 → StopB prec1 rest → 8 * (rendAt pf prec1 e).length + 4 ≤ fuel →
    lev + fuel ≤ maxNest →
    parseBinaryExpr pf fuel lev prec1 (rendAt pf prec1 e ++ rest) = .ok (e, rest)

theorem stopB_mono {a b : Nat} {rest : Toks} (h : StopB a rest) (hab : a ≤ b) : StopB b rest :=
  fun t ht => ⟨(h t ht).1, (h t ht).2.1, Nat.lt_of_lt_of_le (h t ht).2.2 hab⟩

theorem unary_notbang (f lev : Nat) {t : Token} (ts : Toks) (h : notBang t) :
    parseUnaryExpr pf (f + 1) lev (t :: ts) = parsePrimaryExpr pf f (lev + 1) (t :: ts) := by
  conv => lhs; unfold parseUnaryExpr
  unfold notBang at h
  simp only [h, Bool.false_eq_true, if_false]

theorem notBang_lp (p : Nat) : notBang (tok tkLPAREN [40] p) := notBang_of_tp' (by decide)

/-- a parenthesised group `( ts )` read by `parseUnaryExpr`, when the inside parses to `e` -/
theorem unary_paren {f lev : Nat} {ts rest : Toks} {e : Expr} (p1 p2 : Nat)
    (h : parseBinaryExpr pf (f + 1) (lev + 1) 1 (ts ++ tok tkRPAREN [41] p2 :: rest) =
      .ok (e, tok tkRPAREN [41] p2 :: rest)) (hs : Stop rest) :
    parseUnaryExpr pf (f + 4) lev (tok tkLPAREN [40] p1 :: (ts ++ tok tkRPAREN [41] p2 :: rest)) = .ok (e, rest) := by
  rw [unary_notbang pf (f + 3) lev _ (notBang_lp p1), primary_succ, operand_lparen, h]
  simp only [Res.bind_ok, expect_tok, Res.pure_eq]
  exact primaryLoop_stop' pf (by omega) _ _ hs

theorem rend_pos {e : Expr} (h : frag pf e = true) : 1 ≤ (rend pf e).length := by
  cases e
  case binop p op l r => simp only [rend, List.length_append, List.length_cons]; omega
  all_goals
    simp only [frag, Option.isSome_iff_exists] at h
    obtain ⟨t, ht⟩ := h
    simp [rend, ht]

theorem pr_pos {e : Expr} (h : frag pf e = true) : 1 ≤ pr e := by
  cases e <;> simp_all [frag, pr]
  case binop p op l r => exact (opPrec_pos h.1.1).1

theorem mok_of_qok {e : Expr} (hf : frag pf e = true) (hq : QOK pf e) : MOK pf e := by
  intro prec1 fuel lev rest hp1 hstop hfuel hlev
  have hpr := pr_pos pf hf
  have hlen := rend_pos pf hf
  unfold rendAt wrap at hfuel ⊢
  by_cases hc : pr e < prec1
  · -- parenthesised
    simp only [hc, decide_true, if_true, List.length_cons, List.length_append, List.length_nil] at hfuel ⊢
    obtain ⟨f, rfl⟩ : ∃ f, fuel = f + 5 := ⟨fuel - 5, by omega⟩
    obtain ⟨fuel', lev', hq1, hq2, hq3⟩ := hq 1 (f + 1) (lev + 1) (tok tkRPAREN [41] 0 :: rest) hpr
      (stopB_rp _ (by omega) _ _) (by omega) (by omega)
    have hin : parseBinaryExpr pf (f + 1) (lev + 1) 1 (rend pf e ++ tok tkRPAREN [41] 0 :: rest) =
        .ok (e, tok tkRPAREN [41] 0 :: rest) := by
      rw [hq1]
      exact binaryLoop_stop' pf (by omega) (by omega) 1 e
        (fun t ht => ((stopB_rp 1 (by omega) 0 rest) t ht).2.2)
    rw [binary_succ]
    simp only [List.cons_append, List.append_assoc, List.nil_append]
    rw [unary_paren pf 0 0 hin hstop.stop]
    simp only [Res.bind_ok]
    exact binaryLoop_stop' pf (by omega) (by omega) prec1 e (fun t ht => (hstop t ht).2.2)
  · simp only [hc, decide_false, Bool.false_eq_true, if_false] at hfuel ⊢
    obtain ⟨fuel', lev', hq1, hq2, hq3⟩ := hq prec1 fuel lev rest (by omega)
      (stopB_mono hstop (by omega)) hfuel hlev
    rw [hq1]
    exact binaryLoop_stop' pf (by omega) (by omega) prec1 e (fun t ht => (hstop t ht).2.2)

theorem qok_atom {e : Expr} {t : Token} (h : atomTok pf e = some t) : QOK pf e := by
  intro prec1 fuel lev rest _ hstop hfuel hlev
  have hr : rend pf e = [t] := by
    cases e <;> simp_all [rend, atomTok]
  obtain ⟨hop, hnb⟩ := atom_operand pf h
  rw [hr] at hfuel ⊢
  simp only [List.length_cons, List.length_nil] at hfuel
  obtain ⟨f, rfl⟩ : ∃ f, fuel = f + 4 := ⟨fuel - 4, by omega⟩
  refine ⟨f + 3, lev + 1, ?_, by simp, by omega⟩
  rw [binary_succ]
  simp only [List.cons_append, List.nil_append]
  rw [unary_notbang pf (f + 2) lev _ hnb, primary_succ, hop]
  simp only [Res.bind_ok]
  rw [primaryLoop_stop' pf (by omega) _ _ hstop.stop]
  rfl

theorem stopB_op {prec : Nat} (op : Op) (h : opPrec op < prec) (p : Nat) (rest : Toks) :
    StopB prec (tok tkOPERATOR (Expr.opText op) p :: rest) :=
  stopB_cons (by decide) (by decide) (Or.inr (by rw [precD_op]; exact h)) (by omega)

theorem qok_binop {l r : Expr} (p : Nat) (op : Op) (hop : opOK op = true) (hfl : frag pf l = true)
    (hfr : frag pf r = true) (hl : QOK pf l) (hr : QOK pf r) : QOK pf (.binop p op l r) := by
  intro prec1 fuel lev rest hp1 hstop hfuel hlev
  have hP := opPrec_pos hop
  have hml := mok_of_qok pf hfl hl
  have hmr := mok_of_qok pf hfr hr
  have hll := rend_pos pf hfl
  have hlr := rend_pos pf hfr
  simp only [pr] at hp1 hstop
  -- the right operand, as `rendAt`
  have hR : wrap (decide (pr r ≤ opPrec op)) (rend pf r) = rendAt pf (opPrec op + 1) r := by
    unfold rendAt
    congr 1
    simp only [decide_eq_decide]
    omega
  have hrend : rend pf (.binop p op l r) = wrap (decide (pr l < opPrec op)) (rend pf l) ++
      tok tkOPERATOR (Expr.opText op) p :: rendAt pf (opPrec op + 1) r := by
    conv => lhs; unfold rend
    rw [hR]
  rw [hrend] at hfuel ⊢
  simp only [List.length_append, List.length_cons] at hfuel
  -- step 1: the left operand is read; the loop stands at the operator
  have step1 : ∃ f1 lev1, parseBinaryExpr pf fuel lev prec1
        (wrap (decide (pr l < opPrec op)) (rend pf l) ++ tok tkOPERATOR (Expr.opText op) p ::
          rendAt pf (opPrec op + 1) r ++ rest) =
        binaryLoop pf f1 lev1 prec1 l (tok tkOPERATOR (Expr.opText op) p :: (rendAt pf (opPrec op + 1) r ++ rest)) ∧
        fuel ≤ f1 + (wrap (decide (pr l < opPrec op)) (rend pf l)).length ∧ lev1 + f1 ≤ lev + fuel := by
    unfold wrap at hfuel ⊢
    by_cases hc : pr l < opPrec op
    · simp only [hc, decide_true, if_true, List.length_cons, List.length_append, List.length_nil] at hfuel ⊢
      obtain ⟨f, rfl⟩ : ∃ f, fuel = f + 5 := ⟨fuel - 5, by omega⟩
      have hin := hml 1 (f + 1) (lev + 1) (tok tkRPAREN [41] 0 :: tok tkOPERATOR (Expr.opText op) p ::
        (rendAt pf (opPrec op + 1) r ++ rest)) (by omega) (stopB_rp _ (by omega) _ _)
        (by
          have : rendAt pf 1 l = rend pf l := by
            unfold rendAt wrap
            have := pr_pos pf hfl
            simp [show ¬ pr l < 1 by omega]
          rw [this]; omega)
        (by omega)
      have hra : rendAt pf 1 l = rend pf l := by
        unfold rendAt wrap
        have := pr_pos pf hfl
        simp [show ¬ pr l < 1 by omega]
      rw [hra] at hin
      refine ⟨f + 4, lev + 1, ?_, by omega, by omega⟩
      rw [binary_succ]
      simp only [List.cons_append, List.append_assoc, List.nil_append]
      rw [unary_paren pf 0 0 hin (stop_op op p _)]
      rfl
    · simp only [hc, decide_false, Bool.false_eq_true, if_false] at hfuel ⊢
      obtain ⟨f1, lev1, h1, h2, h3⟩ := hl prec1 fuel lev (tok tkOPERATOR (Expr.opText op) p ::
        (rendAt pf (opPrec op + 1) r ++ rest)) (by omega) (stopB_op op (by omega) p _) (by omega) hlev
      refine ⟨f1, lev1, ?_, h2, h3⟩
      simp only [List.append_assoc, List.cons_append]
      exact h1
  obtain ⟨f1, lev1, h1, h2, h3⟩ := step1
  have hwl : (wrap (decide (pr l < opPrec op)) (rend pf l)).length ≤ (rend pf l).length + 2 := by
    unfold wrap; split <;> simp
  have hwl1 : 1 ≤ (wrap (decide (pr l < opPrec op)) (rend pf l)).length := by
    unfold wrap; split
    · simp
    · exact hll
  obtain ⟨k, rfl⟩ : ∃ k, f1 = k + 1 := ⟨f1 - 1, by omega⟩
  -- step 2: the operator and the right operand
  have hmr' := hmr (opPrec op + 1) k lev1 rest (by omega) hstop (by omega) (by omega)
  refine ⟨k, lev1 + 1, ?_, by simp only [List.length_append, List.length_cons]; omega, by omega⟩
  simp only [List.append_assoc, List.cons_append] at h1 ⊢
  rw [h1, binaryLoop_op pf k (by omega) prec1 l op p _ hp1]
  have hin : (op == Op.in_) = false := by cases op <;> simp_all [opOK]
  have hbt : (op == Op.between) = false := by cases op <;> simp_all [opOK]
  simp only [hin, hbt, Bool.false_eq_true, if_false]
  rw [hmr']
  simp only [Res.bind_ok]

/-- the climbing invariant for every tree of the fragment -/
theorem qok : ∀ e : Expr, frag pf e = true → QOK pf e := by
  intro e
  induction e using Expr.rec (motive_2 := fun _ => True) with
  | binop p op l r ihl ihr =>
    intro h
    simp only [frag, Bool.and_eq_true] at h
    exact qok_binop pf p op h.1.1 h.1.2 h.2 (ihl h.1.2) (ihr h.2)
  | nil => trivial
  | cons _ _ _ _ => trivial
  | _ =>
    intro h
    simp only [frag, Option.isSome_iff_exists] at h
    obtain ⟨t, ht⟩ := h
    exact qok_atom pf ht

/-- minimal parenthesisation parses back to the tree, exactly (the tokens carry the nodes'
    positions) -/
theorem parse_precedence_partial (e : Expr) (h : frag pf e = true)
    (hsize : 8 * (rend pf e).length + 8 ≤ maxNestLevel) :
    parseExpr pf (exprFuel (rend pf e)) (rend pf e) = .ok (e, []) := by
  have hm := mok_of_qok pf h (qok pf e h)
  have hra : rendAt pf 1 e = rend pf e := by
    unfold rendAt wrap
    have := pr_pos pf h
    simp [show ¬ pr e < 1 by omega]
  have := hm 1 (exprFuel (rend pf e)) 0 [] (by omega) (stopB_nil 1) (by rw [hra]; simp [exprFuel])
    (by simp only [exprFuel, maxNest]; omega)
  rw [hra] at this
  simpa [parseExpr] using this

end Kvql.Proofs.Prec
