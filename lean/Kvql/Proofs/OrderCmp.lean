/-
  Proofs for C07, the comparator: on rows whose order columns hold, per order field, values of
  one kind fitting the declared type, `orderColumnsRow.Less` (Model/Order.lean `less`) never
  panics, is the documented comparator `Spec.Order.rowLess`, and is a strict weak order.

  Method: every per-field comparison is an Int-valued three-way comparison that behaves like
  one induced by a total preorder (`GoodCmp`); such comparisons are closed under "first
  non-zero" (`thenCmp`), and the sign of one is a strict weak order.
-/
import Kvql.Spec.Order
import Kvql.Proofs.OrderProofs
open Kvql Kvql.Order

set_option linter.unusedSimpArgs false

namespace Kvql.Proofs.OrderCmp

/-- an Int-valued three-way comparison that behaves like one induced by a total preorder -/
structure GoodCmp {α : Type} (P : α → Prop) (c : α → α → Int) : Prop where
  refl : ∀ a, P a → c a a = 0
  anti : ∀ a b, P a → P b → (c a b < 0 ↔ 0 < c b a)
  trans : ∀ a b d, P a → P b → P d → c a b ≤ 0 → c b d ≤ 0 →
    c a d ≤ 0 ∧ ((c a b < 0 ∨ c b d < 0) → c a d < 0)

/-- first non-zero of two comparisons -/
def thenCmp {α : Type} (c1 c2 : α → α → Int) (a b : α) : Int :=
  if c1 a b ≠ 0 then c1 a b else c2 a b

theorem GoodCmp.thenCmp {α : Type} {P : α → Prop} {c1 c2 : α → α → Int}
    (h1 : GoodCmp P c1) (h2 : GoodCmp P c2) : GoodCmp P (thenCmp c1 c2) := by
  constructor
  · intro a ha
    simp [OrderCmp.thenCmp, h1.refl a ha, h2.refl a ha]
  · intro a b ha hb
    have a1 := h1.anti a b ha hb
    have a1' := h1.anti b a hb ha
    have a2 := h2.anti a b ha hb
    simp only [OrderCmp.thenCmp]
    split <;> split <;> omega
  · intro a b d ha hb hd
    have t1 := h1.trans a b d ha hb hd
    have t2 := h2.trans a b d ha hb hd
    have ab := h1.anti a b ha hb
    have ba := h1.anti b a hb ha
    have bd := h1.anti b d hb hd
    have db := h1.anti d b hd hb
    have ad := h1.anti a d ha hd
    have da := h1.anti d a hd ha
    -- c1 d a ≤ 0 from c1 d b ≤ 0 and c1 b a ≤ 0 when both are ties
    have t1' := h1.trans d b a hd hb ha
    simp only [OrderCmp.thenCmp]
    split <;> split <;> split <;> omega

theorem GoodCmp.zero {α : Type} {P : α → Prop} : GoodCmp P (fun (_ _ : α) => (0 : Int)) := by
  constructor <;> intros <;> simp

/-- a good comparison gives a strict weak order -/
theorem GoodCmp.swo {α : Type} {P : α → Prop} {c : α → α → Int} (h : GoodCmp P c) :
    (∀ a, P a → ¬ c a a < 0) ∧
    (∀ a b d, P a → P b → P d → c a b < 0 → c b d < 0 → c a d < 0) ∧
    (∀ a b d, P a → P b → P d → ¬ c a b < 0 → ¬ c b a < 0 → ¬ c b d < 0 → ¬ c d b < 0 →
      ¬ c a d < 0 ∧ ¬ c d a < 0) := by
  refine ⟨?_, ?_, ?_⟩
  · intro a ha; have := h.refl a ha; omega
  · intro a b d ha hb hd h1 h2
    have := h.trans a b d ha hb hd (by omega) (by omega)
    exact this.2 (Or.inl h1)
  · intro a b d ha hb hd h1 h2 h3 h4
    have ab := h.anti a b ha hb
    have ba := h.anti b a hb ha
    have bd := h.anti b d hb hd
    have db := h.anti d b hd hb
    have ad := h.anti a d ha hd
    have da := h.anti d a hd ha
    have t1 := h.trans a b d ha hb hd
    have t2 := h.trans d b a hd hb ha
    omega


/-! ### bytes.Compare -/

theorem bc_refl : ∀ a : Bytes, bytesCompare a a = 0
  | [] => by simp [bytesCompare]
  | x :: a => by
    have : ¬ x < x := by simp
    simp [bytesCompare, bc_refl a]

theorem bc_anti : ∀ a b : Bytes, bytesCompare a b < 0 ↔ 0 < bytesCompare b a
  | [], [] => by simp [bytesCompare]
  | [], _ :: _ => by simp [bytesCompare]
  | _ :: _, [] => by simp [bytesCompare]
  | x :: a, y :: b => by
    have ih := bc_anti a b
    simp only [bytesCompare, UInt8.lt_iff_toNat_lt]
    split <;> split <;> omega

theorem bc_trans : ∀ a b d : Bytes, bytesCompare a b ≤ 0 → bytesCompare b d ≤ 0 →
    bytesCompare a d ≤ 0 ∧ ((bytesCompare a b < 0 ∨ bytesCompare b d < 0) → bytesCompare a d < 0)
  | [], [], [] => by simp [bytesCompare]
  | [], [], _ :: _ => by simp [bytesCompare]
  | [], _ :: _, [] => by simp [bytesCompare]
  | [], _ :: _, _ :: _ => by simp [bytesCompare]
  | _ :: _, [], _ => by simp [bytesCompare]
  | _ :: _, _ :: _, [] => by simp [bytesCompare]
  | x :: a, y :: b, z :: d => by
    have ih := bc_trans a b d
    simp only [bytesCompare, UInt8.lt_iff_toNat_lt]
    split <;> split <;> split <;> (try split) <;> (try split) <;> (try split) <;> omega

theorem bc_lt : ∀ a b : Bytes, bytesCompare a b < 0 ↔ a < b
  | [], [] => by simp [bytesCompare]
  | [], _ :: _ => by simp [bytesCompare]
  | _ :: _, [] => by simp [bytesCompare]
  | x :: a, y :: b => by
    have ih := bc_lt a b
    have hxy := UInt8.lt_iff_toNat_lt (a := x) (b := y)
    have hyx := UInt8.lt_iff_toNat_lt (a := y) (b := x)
    have heq : x = y ↔ x.toNat = y.toNat := UInt8.toNat_inj.symm
    simp only [bytesCompare, List.cons_lt_cons_iff]
    by_cases h1 : x < y
    · simp [h1]
    · by_cases h2 : y < x
      · have hne : ¬ x = y := by
          intro e; rw [hxy] at h1; rw [hyx] at h2; rw [heq] at e; omega
        simp [h1, h2, hne]
      · have he : x = y := by
          rw [hxy] at h1; rw [hyx] at h2; rw [heq]; omega
        simp [he, ih]


/-! ### one order field -/

open Kvql.Spec.Order
open Kvql.Generated (tyTSTR tyTNUMBER tyTBOOL)

/-- value of the model's `compare` (0 where it panics) -/
def cmpVal (tp : Nat) (desc : Bool) (a b : Col) : Int :=
  match compare tp a b desc with
  | .ok c => c
  | .panic => 0

theorem compareInt_facts (x y : Int) (rev : Bool) :
    (compareInt x y rev < 0 ↔ if rev then y < x else x < y) ∧
    (0 < compareInt x y rev ↔ if rev then x < y else y < x) ∧
    (compareInt x y rev = 0 ↔ x = y) := by
  unfold compareInt
  cases rev <;> simp <;> (split <;> (try split)) <;> omega

theorem compareFloat_facts (x y : F64) (rev : Bool) (hx : f64IsNaN x = false) (hy : f64IsNaN y = false) :
    compareFloat x y rev = compareInt (f64Key x) (f64Key y) rev := by
  unfold compareFloat compareInt f64Eq f64Lt
  simp [hx, hy]

theorem compareBoolVals_facts (x y rev : Bool) :
    compareBoolVals x y rev = compareInt (if x then 1 else 0) (if y then 1 else 0) rev := by
  cases x <;> cases y <;> cases rev <;> decide

theorem compareInt_congr {x y x' y' : Int} (rev : Bool) (h1 : x < y ↔ x' < y') (h2 : y < x ↔ y' < x') :
    compareInt x y rev = compareInt x' y' rev := by
  unfold compareInt
  have e : (x = y) ↔ (x' = y') := by omega
  by_cases hxy : x = y
  · have := e.mp hxy; simp [hxy, this]
  · have hne := fun h => hxy (e.mpr h)
    simp only [beq_iff_eq, hxy, hne, ↓reduceIte, gt_iff_lt]
    cases rev <;> simp only [Bool.false_eq_true, ↓reduceIte] <;> split <;> split <;> first | rfl | omega

theorem cmp_ok {S : Int → Prop} (_hS : ConvOK S) {tp : Nat} {k : Kind} (hf : k.fits tp) (desc : Bool) {a b : Col}
    (ha : k.holds S a) (hb : k.holds S b) : compare tp a b desc = .ok (cmpVal tp desc a b) := by
  cases k <;> cases a <;> simp [Kind.holds] at ha <;> cases b <;> simp [Kind.holds] at hb <;>
    simp only [Kind.fits] at hf <;> subst hf <;>
    simp [cmpVal, Order.compare, compareBytes, compareNumber, compareBool, orderBytes, orderBool, orderNumber, Num.toF64, tyTSTR, tyTNUMBER, tyTBOOL]

theorem GoodCmp.congr {α : Type} {P : α → Prop} {c c' : α → α → Int} (h : GoodCmp P c')
    (e : ∀ a b, P a → P b → c a b = c' a b) : GoodCmp P c := by
  constructor
  · intro a ha; rw [e a a ha ha]; exact h.refl a ha
  · intro a b ha hb; rw [e a b ha hb, e b a hb ha]; exact h.anti a b ha hb
  · intro a b d ha hb hd; rw [e a b ha hb, e b d hb hd, e a d ha hd]; exact h.trans a b d ha hb hd

theorem goodInt {α : Type} (P : α → Prop) (κ : α → Int) (rev : Bool) :
    GoodCmp P (fun a b => compareInt (κ a) (κ b) rev) := by
  constructor
  · intro a _; exact (compareInt_facts _ _ _).2.2.mpr rfl
  · intro a b _ _
    have f1 := compareInt_facts (κ a) (κ b) rev
    have f2 := compareInt_facts (κ b) (κ a) rev
    cases rev <;> simp at f1 f2 <;> omega
  · intro a b d _ _ _
    have f1 := compareInt_facts (κ a) (κ b) rev
    have f2 := compareInt_facts (κ b) (κ d) rev
    have f3 := compareInt_facts (κ a) (κ d) rev
    cases rev <;> simp at f1 f2 f3 <;> omega

theorem goodTxt {α : Type} (P : α → Prop) (t : α → Bytes) (rev : Bool) :
    GoodCmp P (fun a b => if rev then 0 - bytesCompare (t a) (t b) else bytesCompare (t a) (t b)) := by
  constructor
  · intro a _; simp [bc_refl]
  · intro a b _ _
    have f1 := bc_anti (t a) (t b)
    have f2 := bc_anti (t b) (t a)
    cases rev <;> simp <;> omega
  · intro a b d _ _ _
    have f1 := bc_trans (t a) (t b) (t d)
    have f2 := bc_trans (t d) (t b) (t a)
    have a1 := bc_anti (t a) (t b)
    have a2 := bc_anti (t b) (t a)
    have a3 := bc_anti (t b) (t d)
    have a4 := bc_anti (t d) (t b)
    have a5 := bc_anti (t a) (t d)
    have a6 := bc_anti (t d) (t a)
    cases rev <;> simp <;> omega

def intKey : Col → Int
  | .int i => i.toInt
  | .goInt i => i.toInt
  | .float f => f64Key f
  | .bool b => if b then 1 else 0
  | _ => 0

def txt : Col → Bytes
  | .bytes b => b
  | .str b => b
  | _ => []

/-- float64 reading of a number -/
def numKey (c : Col) : Int := (floatKey c).getD 0

def isTxtKind : Kind → Bool
  | .bytes | .str | .text => true
  | _ => false

theorem cmpVal_int {S : Int → Prop} {tp : Nat} {k : Kind} (hf : k.fits tp) (hk : isTxtKind k = false ∧ k ≠ .num) (desc : Bool) {a b : Col}
    (ha : k.holds S a) (hb : k.holds S b) : cmpVal tp desc a b = compareInt (intKey a) (intKey b) desc := by
  cases k <;> simp [isTxtKind] at hk <;> cases a <;> simp [Kind.holds] at ha <;> cases b <;> simp [Kind.holds] at hb <;>
    simp only [Kind.fits] at hf <;> subst hf <;>
    simp [cmpVal, Order.compare, compareNumber, compareBool, orderBool, orderNumber, Num.toF64, tyTSTR, tyTNUMBER, tyTBOOL, intKey,
      compareFloat_facts, compareBoolVals_facts, ha, hb]

theorem cmpVal_num {S : Int → Prop} (hS : ConvOK S) {tp : Nat} (hf : Kind.num.fits tp) (desc : Bool) {a b : Col}
    (ha : Kind.num.holds S a) (hb : Kind.num.holds S b) :
    cmpVal tp desc a b = compareInt (numKey a) (numKey b) desc := by
  obtain ⟨hmono, hnan⟩ := hS
  cases a <;> simp [Kind.holds] at ha <;> cases b <;> simp [Kind.holds] at hb <;>
    simp only [Kind.fits] at hf <;> subst hf <;>
    simp [cmpVal, Order.compare, compareNumber, orderNumber, Num.toF64, tyTSTR, tyTNUMBER, tyTBOOL, numKey, floatKey,
      compareFloat_facts, ha, hb, hnan] <;>
    exact compareInt_congr desc (hmono _ _ ha hb) (hmono _ _ hb ha)

theorem cmpVal_txt {S : Int → Prop} {tp : Nat} {k : Kind} (hf : k.fits tp) (hk : isTxtKind k = true) (desc : Bool) {a b : Col}
    (ha : k.holds S a) (hb : k.holds S b) :
    cmpVal tp desc a b = if desc then 0 - bytesCompare (txt a) (txt b) else bytesCompare (txt a) (txt b) := by
  cases k <;> simp [isTxtKind] at hk <;> cases a <;> simp [Kind.holds] at ha <;> cases b <;> simp [Kind.holds] at hb <;>
    simp only [Kind.fits] at hf <;> subst hf <;>
    simp [cmpVal, Order.compare, compareBytes, orderBytes, tyTSTR, tyTNUMBER, tyTBOOL, txt]

theorem cmp_good {S : Int → Prop} (hS : ConvOK S) {tp : Nat} {k : Kind} (hf : k.fits tp) (desc : Bool) :
    GoodCmp (k.holds S) (cmpVal tp desc) := by
  by_cases hk : isTxtKind k = true
  · exact (goodTxt (k.holds S) txt desc).congr (fun a b ha hb => cmpVal_txt hf hk desc ha hb)
  · by_cases hn : k = .num
    · subst hn
      exact (goodInt (Kind.num.holds S) numKey desc).congr (fun a b ha hb => cmpVal_num hS hf desc ha hb)
    · exact (goodInt (k.holds S) intKey desc).congr (fun a b ha hb => cmpVal_int hf ⟨by simpa using hk, hn⟩ desc ha hb)

/-- the model's comparison agrees with the documented order of the two values -/
theorem cmp_lt {S : Int → Prop} (hS : ConvOK S) {tp : Nat} {k : Kind} (hf : k.fits tp) (desc : Bool) {a b : Col}
    (ha : k.holds S a) (hb : k.holds S b) :
    (cmpVal tp desc a b < 0 ↔ (if desc then colLt b a else colLt a b) = true) ∧
    (0 < cmpVal tp desc a b ↔ (if desc then colLt a b else colLt b a) = true) := by
  by_cases hk : isTxtKind k = true
  · rw [cmpVal_txt hf hk desc ha hb]
    have l1 := bc_lt (txt a) (txt b)
    have l2 := bc_lt (txt b) (txt a)
    have a1 := bc_anti (txt a) (txt b)
    have a2 := bc_anti (txt b) (txt a)
    have e1 : colLt a b = true ↔ bytesCompare (txt a) (txt b) < 0 := by
      rw [l1]
      cases k <;> simp [isTxtKind] at hk <;> cases a <;> simp [Kind.holds] at ha <;> cases b <;> simp [Kind.holds] at hb <;> simp [colLt, textOf, txt]
    have e2 : colLt b a = true ↔ bytesCompare (txt b) (txt a) < 0 := by
      rw [l2]
      cases k <;> simp [isTxtKind] at hk <;> cases a <;> simp [Kind.holds] at ha <;> cases b <;> simp [Kind.holds] at hb <;> simp [colLt, textOf, txt]
    clear l1 l2
    cases desc <;> simp only [Bool.false_eq_true, ↓reduceIte, e1, e2] <;> constructor <;> first | trivial | omega
  · by_cases hn : k = .num
    · subst hn
      rw [cmpVal_num hS hf desc ha hb]
      have f := compareInt_facts (numKey a) (numKey b) desc
      obtain ⟨hmono, _⟩ := hS
      have e1 : colLt a b = true ↔ numKey a < numKey b := by
        cases a <;> simp [Kind.holds] at ha <;> cases b <;> simp [Kind.holds] at hb <;>
          simp [colLt, textOf, intOf, floatKey, numKey]
        all_goals exact hmono _ _ ha hb
      have e2 : colLt b a = true ↔ numKey b < numKey a := by
        cases a <;> simp [Kind.holds] at ha <;> cases b <;> simp [Kind.holds] at hb <;>
          simp [colLt, textOf, intOf, floatKey, numKey]
        all_goals exact hmono _ _ hb ha
      cases desc <;> simp only [Bool.false_eq_true, ↓reduceIte, e1, e2] at f ⊢ <;> constructor <;> first | trivial | omega
    · rw [cmpVal_int hf ⟨by simpa using hk, hn⟩ desc ha hb]
      have f := compareInt_facts (intKey a) (intKey b) desc
      have e1 : colLt a b = true ↔ intKey a < intKey b := by
        cases k <;> simp [isTxtKind] at hk hn <;> cases a <;> simp [Kind.holds] at ha <;> cases b <;> simp [Kind.holds] at hb <;>
          simp [colLt, textOf, intOf, floatKey, intKey]
        rename_i x y; cases x <;> cases y <;> simp
      have e2 : colLt b a = true ↔ intKey b < intKey a := by
        cases k <;> simp [isTxtKind] at hk hn <;> cases a <;> simp [Kind.holds] at ha <;> cases b <;> simp [Kind.holds] at hb <;>
          simp [colLt, textOf, intOf, floatKey, intKey]
        rename_i x y; cases x <;> cases y <;> simp
      cases desc <;> simp only [Bool.false_eq_true, ↓reduceIte, e1, e2] at f ⊢ <;> constructor <;> first | trivial | omega

/-! ### the order list -/

theorem GoodCmp.pull {α β : Type} {P : α → Prop} {Q : β → Prop} {c : β → β → Int} (h : GoodCmp Q c)
    (f : α → β) (hf : ∀ a, P a → Q (f a)) : GoodCmp P (fun a b => c (f a) (f b)) := by
  constructor
  · intro a ha; exact h.refl _ (hf a ha)
  · intro a b ha hb; exact h.anti _ _ (hf a ha) (hf b hb)
  · intro a b d ha hb hd; exact h.trans _ _ _ (hf a ha) (hf b hb) (hf d hd)

theorem GoodCmp.mono {α : Type} {P P' : α → Prop} {c : α → α → Int} (h : GoodCmp P c)
    (hp : ∀ a, P' a → P a) : GoodCmp P' c := by
  constructor
  · intro a ha; exact h.refl _ (hp a ha)
  · intro a b ha hb; exact h.anti _ _ (hp a ha) (hp b hb)
  · intro a b d ha hb hd; exact h.trans _ _ _ (hp a ha) (hp b hb) (hp d hd)

def colAt (o : Key) (r : Row) : Col := r[o.pos]?.getD .nil

/-- three-way comparison of two rows under one order field -/
def keyCmp (o : Key) (l r : Row) : Int := cmpVal o.tp o.desc (colAt o l) (colAt o r)

/-- three-way lexicographic comparison under the order list -/
def rowCmp : List Key → Row → Row → Int
  | [] => fun _ _ => 0
  | o :: rest => thenCmp (keyCmp o) (rowCmp rest)

theorem rowOK_head {S : Int → Prop} {o : Key} {keys : List Key} {k : Kind} {kinds : List Kind} {r : Row}
    (h : RowOK S (o :: keys) (k :: kinds) r) :
    k.fits o.tp ∧ r[o.pos]? = some (colAt o r) ∧ k.holds S (colAt o r) ∧ RowOK S keys kinds r := by
  obtain ⟨hf, ⟨v, hv, hh⟩, hr⟩ := h
  exact ⟨hf, by simp [colAt, hv], by simpa [colAt, hv] using hh, hr⟩

theorem rowCmp_good {S : Int → Prop} (hS : ConvOK S) : ∀ (keys : List Key) (kinds : List Kind),
    GoodCmp (RowOK S keys kinds) (rowCmp keys)
  | [], _ => GoodCmp.zero
  | _ :: _, [] => by constructor <;> intros <;> simp_all [RowOK]
  | o :: keys, k :: kinds => by
    by_cases hf : k.fits o.tp
    · have g1 : GoodCmp (RowOK S (o :: keys) (k :: kinds)) (keyCmp o) :=
        (cmp_good hS hf o.desc).pull (colAt o) (fun r hr => (rowOK_head hr).2.2.1)
      have g2 : GoodCmp (RowOK S (o :: keys) (k :: kinds)) (rowCmp keys) :=
        (rowCmp_good hS keys kinds).mono (fun r hr => (rowOK_head hr).2.2.2)
      exact g1.thenCmp g2
    · constructor <;> intros <;> simp_all [RowOK]

/-- on fitting rows the model's `Less` does not panic and is the sign of `rowCmp` -/
theorem less_eq_rowCmp {S : Int → Prop} (hS : ConvOK S) : ∀ (keys : List Key) (kinds : List Kind) (l r : Row),
    RowOK S keys kinds l → RowOK S keys kinds r → less keys l r = .ok (decide (rowCmp keys l r < 0))
  | [], _, _, _, _, _ => by simp [less, rowCmp]
  | _ :: _, [], _, _, h, _ => by simp [RowOK] at h
  | o :: keys, k :: kinds, l, r, hl, hr => by
    obtain ⟨hf, el, hl1, hl2⟩ := rowOK_head hl
    obtain ⟨_, er, hr1, hr2⟩ := rowOK_head hr
    have ih := less_eq_rowCmp hS keys kinds l r hl2 hr2
    simp only [less, el, er, cmp_ok hS hf o.desc hl1 hr1, rowCmp, thenCmp, keyCmp, ih]
    by_cases h1 : cmpVal o.tp o.desc (colAt o l) (colAt o r) < 0
    · have : cmpVal o.tp o.desc (colAt o l) (colAt o r) ≠ 0 := by omega
      simp [h1, this]
    · by_cases h2 : cmpVal o.tp o.desc (colAt o l) (colAt o r) > 0
      · have : cmpVal o.tp o.desc (colAt o l) (colAt o r) ≠ 0 := by omega
        simp [h1, h2, this]
      · have : cmpVal o.tp o.desc (colAt o l) (colAt o r) = 0 := by omega
        simp [this]

/-- the sign of `rowCmp` is the documented order -/
theorem rowLess_eq_rowCmp {S : Int → Prop} (hS : ConvOK S) : ∀ (keys : List Key) (kinds : List Kind) (l r : Row),
    RowOK S keys kinds l → RowOK S keys kinds r → Spec.Order.rowLess keys l r = decide (rowCmp keys l r < 0)
  | [], _, _, _, _, _ => by simp [rowLess, rowCmp]
  | _ :: _, [], _, _, h, _ => by simp [RowOK] at h
  | o :: keys, k :: kinds, l, r, hl, hr => by
    obtain ⟨hf, el, hl1, hl2⟩ := rowOK_head hl
    obtain ⟨_, er, hr1, hr2⟩ := rowOK_head hr
    have ih := rowLess_eq_rowCmp hS keys kinds l r hl2 hr2
    have c1 := cmp_lt hS hf o.desc hl1 hr1
    have k1 : keyLt o l r = true ↔ keyCmp o l r < 0 := by
      simp only [keyLt, el, er, keyCmp]; exact c1.1.symm
    have k2 : keyLt o r l = true ↔ 0 < keyCmp o l r := by
      simp only [keyLt, el, er, keyCmp]; exact c1.2.symm
    simp only [rowLess, rowCmp, thenCmp, ih]
    cases h1 : keyLt o l r <;> cases h2 : keyLt o r l <;> simp [h1, h2] at k1 k2 ⊢ <;> split <;> omega

open Kvql.Proofs.Order in
/-- (d) on rows whose order columns have, per order field, one kind that fits the declared
    type (text; int64/int; non-NaN float64; a mix of the numbers, the integers in `S`; bool),
    the model's `Less` never panics, is the documented comparator, and is a strict weak order -/
theorem less_swo {S : Int → Prop} (hS : ConvOK S) (keys : List Key) (kinds : List Kind) :
    LessOK (RowOK S keys kinds) (less keys) (Spec.Order.rowLess keys) ∧
    SWO (RowOK S keys kinds) (Spec.Order.rowLess keys) := by
  have g := (rowCmp_good hS keys kinds).swo
  have E := rowLess_eq_rowCmp hS keys kinds
  refine ⟨?_, ⟨?_, ?_, ?_⟩⟩
  · intro l r hl hr
    rw [less_eq_rowCmp hS keys kinds l r hl hr, E l r hl hr]
  · intro a ha
    rw [E a a ha ha]
    simpa using g.1 a ha
  · intro a b c ha hb hc
    rw [E a b ha hb, E b c hb hc, E a c ha hc]
    simpa using g.2.1 a b c ha hb hc
  · intro a b c ha hb hc
    rw [E a b ha hb, E b c hb hc, E a c ha hc, E b a hb ha, E c b hc hb, E c a hc ha]
    simpa using g.2.2 a b c ha hb hc

end Kvql.Proofs.OrderCmp
