/-
  C14 (b), part 3: the first half of the property as ONE statement.

  `RootFault e`   the fault classes the checker finds, at the root of a sub-expression
  `Faulty pf toks` a statement (token list) that has a fault at some position: which statement
                   form, which clause, and the context `c` (a `Ctxt`) around the faulty
                   sub-expression inside the parsed expression
  `fault_rejected : Faulty pf toks → Rejects (planStage pf toks)`
-/
import Kvql.Proofs.TypingFaultStmt

namespace Kvql.Proofs.Typing

open Kvql Kvql.Generated Kvql.PlanCheck Kvql.Parser

/-- the fault classes `Check` finds, on plain operands (literals, `key`, `value`, calls and
    expressions built from them): an operator applied to operand types it does not support
    (README operator table `opAccepts`; `in`, `between`), `!` on a non-Boolean -/
inductive RootFault : Expr → Prop
  | opMismatch (pos : Nat) (op : Op) (l r : Expr) : plain l = true → plain r = true →
      op ≠ .in_ → op ≠ .between → opAccepts op l.retType r.retType = false → RootFault (.binop pos op l r)
  | inMismatch (pos q : Nat) (l : Expr) (items : List Expr) : plain l = true → plain.plainList items = true →
      ((l.retType ≠ tyTSTR ∧ l.retType ≠ tyTNUMBER) ∨ ∃ x ∈ items, x.retType ≠ l.retType) →
      RootFault (.binop pos .in_ l (.list q items))
  | betweenMismatch (pos q : Nat) (l lo hi : Expr) : plain l = true → plain lo = true → plain hi = true →
      ((l.retType ≠ tyTSTR ∧ l.retType ≠ tyTNUMBER) ∨ lo.retType ≠ l.retType ∨ hi.retType ≠ l.retType) →
      RootFault (.binop pos .between l (.list q [lo, hi]))
  | notNonBool (pos : Nat) (r : Expr) : plain r = true → r.retType ≠ tyTBOOL → RootFault (.not pos r)

/-- a root fault is rejected in every context, whatever the select list and the statement form -/
theorem RootFault.rejected {e : Expr} (h : RootFault e) (ctx : CheckCtx) : Rejects (ctx.check e) := by
  cases h with
  | opMismatch pos op l r hl hr h1 h2 ha => exact op_mismatch_rejected ctx pos op l r hl hr ⟨h1, h2⟩ ha
  | inMismatch pos q l items hl hi h => exact in_mismatch_rejected ctx pos q l items hl hi h
  | betweenMismatch pos q l lo hi hl hlo hhi h => exact between_mismatch_rejected ctx pos q l lo hi hl hlo hhi h
  | notNonBool pos r hr h => exact not_nonbool_rejected ctx pos r hr h

theorem RootFault.faultAny {e : Expr} (h : RootFault e) : FaultAny e := fun ctx _ _ => h.rejected ctx

/-- what a sub-expression in the hole must be for the statement to be faulty in a statement form
    with flags `noKey` / `noValue` (REMOVE: both; PUT: `noValue`) -/
inductive HoleFault (noKey noValue : Bool) : Expr → Prop
  | root {e : Expr} : RootFault e → HoleFault noKey noValue e
  | key (pos : Nat) : noKey = true → HoleFault noKey noValue (.field pos .key)
  | value (pos : Nat) : noValue = true → HoleFault noKey noValue (.field pos .value)

theorem HoleFault.rejected {nk nv : Bool} {e : Expr} (h : HoleFault nk nv e) (ctx : CheckCtx)
    (h1 : ctx.notAllowKey = nk) (h2 : ctx.notAllowValue = nv) : Rejects (ctx.check e) := by
  cases h with
  | root hr => exact hr.rejected ctx
  | key pos hk => exact key_forbidden_rejected ctx pos (h1.trans hk)
  | value pos hv => exact value_forbidden_rejected ctx pos (h2.trans hv)

/-- the expression is faulty: a checker fault in the hole of some context, or a bad call anywhere,
    or (for a filter) a plain expression that is not Boolean -/
inductive ExprFault (noKey noValue : Bool) (isFilter : Bool) : Expr → Prop
  | hole (c : Ctxt) (e : Expr) : HoleFault noKey noValue e → ExprFault noKey noValue isFilter (plug c e)
  | badCall (c : Ctxt) (pos : Nat) (nm : Expr) (args : List Expr) : badCall nm args.length = true →
      ExprFault noKey noValue isFilter (plug c (.call pos nm args))
  | nonBool (x : Expr) : isFilter = true → plain x = true → x.retType ≠ tyTBOOL → ExprFault noKey noValue isFilter x

/-- a statement with a statically detectable fault: the statement form (first token), the clause,
    and what the clause's tokens parse to -/
inductive Faulty (pf : Bytes → F64) (toks : Toks) : Prop
  /-- `select … where <faulty>` -/
  | selectWhere (t : Token) (rest : Toks) (spos : Nat) (sel : SelAcc) (wt : Token) (ts rest' : Toks) (x : Expr) :
      trimEndSemis toks = t :: rest → t.tp = tkSELECT →
      parseSelect pf (exprFuel (t :: rest)) (loopFuel (t :: rest)) (t :: rest) = .ok ((spos, sel), wt :: ts) →
      parseExpr pf (exprFuel (t :: rest)) ts = .ok (x, rest') → ExprFault false false true x → Faulty pf toks
  /-- `where <faulty>` -/
  | bareWhere (t : Token) (rest rest' : Toks) (x : Expr) :
      trimEndSemis toks = t :: rest → t.tp = tkWHERE →
      parseExpr pf (exprFuel (t :: rest)) rest = .ok (x, rest') → ExprFault false false true x → Faulty pf toks
  /-- `select …, <faulty>, … where …` -/
  | selectField (t : Token) (rest : Toks) (spos : Nat) (sel : SelAcc) (wt : Token) (ts : Toks)
      (j : Nat) (nm : Bytes) (x : Expr) :
      trimEndSemis toks = t :: rest → t.tp = tkSELECT →
      parseSelect pf (exprFuel (t :: rest)) (loopFuel (t :: rest)) (t :: rest) = .ok ((spos, sel), wt :: ts) →
      (sel.names.zip sel.fields)[j]? = some (nm, x) → ExprFault false false false x → Faulty pf toks
  /-- `delete where <faulty>` -/
  | deleteWhere (t : Token) (rest ts0 ts1 rest' : Toks) (x : Expr) :
      trimEndSemis toks = t :: rest → t.tp = tkDELETE →
      expect tkDELETE (t :: rest) = .ok ts0 → expect tkWHERE ts0 = .ok ts1 →
      parseExpr pf (exprFuel (t :: rest)) ts1 = .ok (x, rest') → ExprFault false false true x → Faulty pf toks
  /-- `put …, (<faulty>, v), …` / `put …, (k, <faulty>), …` -/
  | putPair (t : Token) (rest ts1 : Toks) (pre post : List (Expr × Expr)) (k v : Expr) :
      trimEndSemis toks = t :: rest → t.tp = tkPUT → expect tkPUT (t :: rest) = .ok ts1 →
      putLoop pf (exprFuel (t :: rest)) (loopFuel (t :: rest)) [] ts1 = .ok (pre ++ (k, v) :: post) →
      (ExprFault false true false k ∨ ExprFault false true false v) → Faulty pf toks
  /-- `remove …, <faulty>, …` -/
  | removeKey (t : Token) (rest ts1 : Toks) (pre post : List Expr) (k : Expr) :
      trimEndSemis toks = t :: rest → t.tp = tkREMOVE → expect tkREMOVE (t :: rest) = .ok ts1 →
      removeLoop pf (exprFuel (t :: rest)) (loopFuel (t :: rest)) [] ts1 = .ok (pre ++ k :: post) →
      ExprFault true true false k → Faulty pf toks

theorem hasBadCall_call {pos : Nat} {nm : Expr} {args : List Expr} (h : badCall nm args.length = true) :
    hasBadCall (.call pos nm args) = true := by simp [hasBadCall, h]

/-- THE FIRST HALF OF C14 over the models: a statement that contains a statically detectable
    fault — an operator applied to operand types it does not support, `!` on a non-Boolean, a
    filter that is not Boolean, `key`/`value` where the statement form forbids them, an unknown
    function or a wrong argument count — at ANY position (under `!`, under `& | and or` or any
    other operator, in a function argument, an IN list, a BETWEEN bound, a field-access operand; in
    the filter, a select field, a PUT key or value, a REMOVE key) is rejected by what `BuildPlan`
    decides before it touches the storage. -/
theorem fault_rejected {pf : Bytes → F64} {toks : Toks} (h : Faulty pf toks) : Rejects (planStage pf toks) := by
  cases h with
  | selectWhere t rest spos sel wt ts rest' x h0 ht hs hp hx =>
    have he := parse_select_eq (pf := pf) h0 ht hs
    cases hx with
    | hole c e hf =>
      refine planStage_rejects_of_eq he (select_where_fault_rejected hp ?_)
      exact fun ctx h1 h2 => hf.rejected ctx h1 h2
    | badCall c pos nm args hb =>
      exact planStage_rejects_of_calls_eq he (fun stmt hs' =>
        select_where_badcall_rejected hp (plug_keeps_bad c _ (hasBadCall_call hb)) hs')
    | nonBool x _ hpl hnb => exact planStage_rejects_of_eq he (select_where_nonbool_rejected hp hpl hnb)
  | bareWhere t rest rest' x h0 ht hp hx =>
    have he := parse_where_eq (pf := pf) h0 ht
    cases hx with
    | hole c e hf =>
      refine planStage_rejects_of_eq he (select_where_fault_rejected hp ?_)
      exact fun ctx h1 h2 => hf.rejected ctx h1 h2
    | badCall c pos nm args hb =>
      exact planStage_rejects_of_calls_eq he (fun stmt hs' =>
        select_where_badcall_rejected hp (plug_keeps_bad c _ (hasBadCall_call hb)) hs')
    | nonBool x _ hpl hnb => exact planStage_rejects_of_eq he (select_where_nonbool_rejected hp hpl hnb)
  | selectField t rest spos sel wt ts j nm x h0 ht hs hj hx =>
    have he := parse_select_eq (pf := pf) h0 ht hs
    cases hx with
    | hole c e hf =>
      refine planStage_rejects_of_eq he (select_field_fault_rejected hj ?_)
      exact fun ctx h1 h2 => hf.rejected ctx h1 h2
    | badCall c pos nm' args hb =>
      exact planStage_rejects_of_calls_eq he (fun stmt hs' =>
        select_field_badcall_rejected hj (plug_keeps_bad c _ (hasBadCall_call hb)) hs')
    | nonBool x hfil _ _ => cases hfil
  | deleteWhere t rest ts0 ts1 rest' x h0 ht hd hw hp hx =>
    have he := parse_delete_eq (pf := pf) h0 ht
    cases hx with
    | hole c e hf =>
      refine planStage_rejects_of_eq he (delete_where_fault_rejected hd hw hp ?_)
      exact fun ctx h1 h2 => hf.rejected ctx h1 h2
    | badCall c pos nm args hb =>
      exact planStage_rejects_of_calls_eq he (fun stmt hs' =>
        delete_where_badcall_rejected hd hw hp (plug_keeps_bad c _ (hasBadCall_call hb)) hs')
    | nonBool x _ hpl hnb => exact planStage_rejects_of_eq he (delete_where_nonbool_rejected hd hw hp hpl hnb)
  | putPair t rest ts1 pre post k v h0 ht hx hl hkv =>
    have he := parse_put_eq (pf := pf) h0 ht
    -- a checker fault in the key or the value, or a bad call in one of them
    have key : (Rejects (({ notAllowValue := true } : CheckCtx).check k) ∨
                Rejects (({ notAllowValue := true } : CheckCtx).check v)) ∨
               (hasBadCall k = true ∨ hasBadCall v = true) := by
      rcases hkv with hk | hv
      · cases hk with
        | hole c e hf => exact .inl (.inl (plug_rejects _ c e (hf.rejected _ rfl rfl)))
        | badCall c pos nm args hb => exact .inr (.inl (plug_keeps_bad c _ (hasBadCall_call hb)))
        | nonBool x hfil _ _ => cases hfil
      · cases hv with
        | hole c e hf => exact .inl (.inr (plug_rejects _ c e (hf.rejected _ rfl rfl)))
        | badCall c pos nm args hb => exact .inr (.inr (plug_keeps_bad c _ (hasBadCall_call hb)))
        | nonBool x hfil _ _ => cases hfil
    rcases key with hrej | hbad
    · exact planStage_rejects_of_eq he (put_fault_rejected hx hl hrej)
    · exact planStage_rejects_of_calls_eq he (fun stmt hs' =>
        put_badcall_rejected hx hl ⟨(k, v), by simp, hbad⟩ hs')
  | removeKey t rest ts1 pre post k h0 ht hx hl hk =>
    have he := parse_remove_eq (pf := pf) h0 ht
    cases hk with
    | hole c e hf =>
      exact planStage_rejects_of_eq he (remove_fault_rejected hx hl (plug_rejects _ c e (hf.rejected _ rfl rfl)))
    | badCall c pos nm args hb =>
      exact planStage_rejects_of_calls_eq he (fun stmt hs' =>
        remove_badcall_rejected hx hl ⟨plug c (.call pos nm args), by simp,
          plug_keeps_bad c _ (hasBadCall_call hb)⟩ hs')
    | nonBool x hfil _ _ => cases hfil

end Kvql.Proofs.Typing
