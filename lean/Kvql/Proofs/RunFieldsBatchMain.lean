/-
  End-to-end proofs for SELECT statements WITH A FIELD LIST, part 12: BATCH MODE, the projection trace.

  With the lock-step description of both sides (`scanTrace_batch_polls`, `batchesSpec_polls`) the check
  `zipProj` makes at every `Batch` call is discharged: if the vector evaluator gives a Boolean for the
  folded WHERE on every stored pair and a value for every folded field on every accepted pair
  (`BatchEvalOK`; the pair as a chunk of its own — C03 `batch_pairwise` extends it to every chunk), and the
  WHERE meets the static side condition `vecOk` of C03 `vec_eq_map` (so that the batch verdict is the row
  evaluator's and C02 `scan_plan_sound` applies), the trace ends well with one batch row per accepted
  stored pair, in key order.
-/
import Kvql.Proofs.RunFieldsLockScan

namespace Kvql.Proofs.RunFields
open Kvql Kvql.Run Kvql.Plans Kvql.Storage Kvql.Cache Kvql.Project Kvql.Proofs.Scan Kvql.Proofs.Typing
open Kvql.Proofs.RunTables Kvql.Proofs.RunScan Kvql.Proofs.RunLimit Kvql.Proofs.RunFold

/-- the hypotheses of batch mode on a folded statement and a store: the VECTOR evaluator, cache off, on each
    stored pair as a chunk of its own, gives a Boolean for the WHERE and — where the row evaluator accepts the
    pair — a value for every field -/
structure BatchEvalOK (s : SelectS) (f : FoldedSelect) (store : Store) : Prop where
  filter : ∀ p ∈ store, ∃ b, PairVal f.where_ (.bool b) (toKv p)
  fields : ∀ p ∈ store, Select.accepted f.where_ p = true → FieldsOKOn (selFields s f) p

/-- the batch verdict on a pair is the row evaluator's (C03 `vec_eq_map` through `single_row_value`) -/
theorem accepted_of_pairVal {w : Expr} (hok : w.vecOk = true) {p : SPair} {b : Bool}
    (h : PairVal w (.bool b) (toKv p)) : Select.accepted w p = b := by
  obtain ⟨vr, h1, h2⟩ := single_row_value hok h
  have hvr := Kvql.Proofs.Run.contentEq_bool h2
  subst hvr
  have h3 : filterSpec w (toKv p) = .ok b := by unfold filterSpec; rw [h1]
  exact accepted_of_filterSpec h3

theorem chunkTable_ok {w : Expr} (g : SPair → Bool) (c : List SPair)
    (h : c ≠ [] → filterChunkSpec w (c.map toKv) = .ok (c.map g)) :
    chunkTable w c = c.map (fun p => (p.1, Except.ok (g p))) := by
  cases hc : c with
  | nil => unfold chunkTable; split <;> simp [zipVerdicts]
  | cons x xs =>
    rw [← hc]
    unfold chunkTable
    rw [h (by rw [hc]; simp)]
    have hdrop : List.drop c.length (List.map g c) = [] := by rw [List.drop_eq_nil_iff]; simp
    simp only [hdrop, List.any_nil, Bool.false_eq_true, if_false]
    exact zipVerdicts_map g c

/-- **batch mode, the projection trace of a statement with a field list.** -/
theorem projSpecBatch_good {s : SelectS} {f : FoldedSelect} (hnf : s.allFields = false) (hok : f.where_.vecOk = true)
    {store : Store} (hs : store.Sorted) (bs : Nat) (hbs : 1 ≤ bs) (hev : BatchEvalOK s f store) :
    Good (projSpecBatch s f store bs)
      ((store.filter (Select.accepted f.where_)).map (batchRow (selFields s f))) store := by
  have hwf := nodeOf_wf f.where_
  have hy := yielded_eq_filter (nodeOf (Scan.optimize f.where_)) hwf hs
  have hfl := innerChunks_flatten (nodeOf (Scan.optimize f.where_)) bs hbs store
  -- the pairs of the inner chunks are stored pairs
  have hmem : ∀ c ∈ innerChunks (nodeOf (Scan.optimize f.where_)) bs store, ∀ p ∈ c, p ∈ store := by
    intro c hc p hp
    have : p ∈ (innerChunks (nodeOf (Scan.optimize f.where_)) bs store).flatten := List.mem_flatten.mpr ⟨c, hc, hp⟩
    rw [hfl, hy] at this
    exact (List.mem_filter.mp this).1
  have hpv : ∀ p ∈ store, PairVal f.where_ (.bool (Select.accepted f.where_ p)) (toKv p) := by
    intro p hp
    obtain ⟨b, hb⟩ := hev.filter p hp
    rw [accepted_of_pairVal hok hb]; exact hb
  -- the chunk filter gives `accepted` on every inner chunk
  have hchunks : ChunksOK f.where_ (Select.accepted f.where_) (innerChunks (nodeOf (Scan.optimize f.where_)) bs store) := by
    intro c hc hne
    have hne' : c.map toKv ≠ [] := by simpa using hne
    unfold filterChunkSpec
    rw [(nocacheB_ok_iff f.where_ hne' _).mpr
      (rows_pairVal (Select.accepted f.where_) c (fun p hp => hpv p (hmem c hc p hp)))]
    simp only [mapM_boolOf_map]
  -- the verdict table
  have htable : batchTable f.where_ (innerChunks (nodeOf (Scan.optimize f.where_)) bs store) =
      (yielded (nodeOf (Scan.optimize f.where_)) store).map (fun p => (p.1, Except.ok (Select.accepted f.where_ p))) := by
    unfold batchTable
    rw [← hfl]
    apply flatMap_map_eq
    intro c hc
    exact chunkTable_ok _ c (hchunks c hc)
  have hcover : ∀ p ∈ store, Select.accepted f.where_ p = true →
      (nodeOf (Scan.optimize f.where_)).inRegion p.1 = true := fun p _ h => cover_of_accepted f.where_ p h
  have hv : ∀ p ∈ store, (nodeOf (Scan.optimize f.where_)).inRegion p.1 = true →
      (batchTable f.where_ (innerChunks (nodeOf (Scan.optimize f.where_)) bs store)).lookup p.1 =
        some (.ok (Select.accepted f.where_ p)) := by
    intro p hp hreg
    rw [htable, hy]
    exact lookup_map_of_mem _ (keys_distinct hs _) (List.mem_filter.mpr ⟨hp, hreg⟩)
  -- the storage side
  obtain ⟨t1, t2, t3⟩ := scanTrace_of_table _ hwf store hs _ (Select.accepted f.where_) hv hcover .batch bs hbs
  have hpolls := scanTrace_batch_polls _ hwf store hs _ (Select.accepted f.where_) hv bs hbs
  have hne := scanTrace_nonempty (nodeOf (Scan.optimize f.where_))
    (batchTable f.where_ (innerChunks (nodeOf (Scan.optimize f.where_)) bs store)) .batch bs store
  -- the evaluation side
  have hspec := batchesSpec_polls (w := f.where_) (fields := selFields s f) hbs
    ((innerChunks (nodeOf (Scan.optimize f.where_)) bs store).length + 1)
    (innerChunks (nodeOf (Scan.optimize f.where_)) bs store) (by omega) hchunks
    (fun c hc p hp hg => hev.fields p (hmem c hc p hp) hg)
  generalize hst : scanTrace (nodeOf (Scan.optimize f.where_))
    (batchTable f.where_ (innerChunks (nodeOf (Scan.optimize f.where_)) bs store)) .batch bs store = st
    at t1 t2 t3 hpolls hne
  generalize hP : pollsOf bs (Select.accepted f.where_)
    ((innerChunks (nodeOf (Scan.optimize f.where_)) bs store).length + 1)
    (innerChunks (nodeOf (Scan.optimize f.where_)) bs store) = P at hpolls hspec
  have hfin : st.fin = (none, st.fin.2) := by
    rcases hfx : st.fin with ⟨a, b⟩
    rw [hfx] at t1
    simp only at t1
    rw [t1]
  have hlens : st.polls.map (fun p => p.1.length) =
      (P.map (·.map (batchRow (selFields s f)))).map List.length := by
    have : st.polls.map (fun p => p.1.length) = (st.polls.map (·.1)).map List.length := by
      rw [List.map_map]; rfl
    rw [this, hpolls]
    simp [List.map_map, Function.comp_def]
  have hdef : projSpecBatch s f store bs =
      zipProj st.polls st.fin (P.map (·.map (batchRow (selFields s f)))) none st.w0 [] := by
    unfold projSpecBatch
    simp only [hnf, Bool.false_eq_true, if_false, hst, hspec]
  rw [hdef, hfin, zipProj_ok st.fin.2 st.w0 st.polls _ [] hlens]
  simp only [List.nil_append]
  have hgood := zipped_good (w0 := st.w0) hlens hne t2
  have hflat : (P.map (·.map (batchRow (selFields s f)))).flatten =
      (store.filter (Select.accepted f.where_)).map (batchRow (selFields s f)) := by
    rw [← List.map_flatten, ← hpolls, ← List.flatMap_def, t3]
  rw [hflat] at hgood
  exact hgood

/-- **batch mode: the projection trace**, cache on or off -/
theorem projTrace_batch_good {s : SelectS} {f : FoldedSelect} (hnf : s.allFields = false) (hA : AliasOK s f)
    (hok : f.where_.vecOk = true) {store : Store} (hs : store.Sorted) (hev : BatchEvalOK s f store)
    (bs : Nat) (hbs : 1 ≤ bs) (cache : Bool) :
    Good (projTrace s f store .batch bs cache)
      ((store.filter (Select.accepted f.where_)).map (batchRow (selFields s f))) store := by
  rw [projTrace_batch_eq_spec hA hs bs hbs cache]
  exact projSpecBatch_good hnf hok hs bs hbs hev

/-- the rows of the statement without ORDER BY / LIMIT in batch mode -/
def specRowsB (s : SelectS) (f : FoldedSelect) (store : Store) : List (List Value) :=
  (store.filter (Select.accepted f.where_)).map (batchRow (selFields s f))

/-- batch and row mode return, for the same accepted pairs, rows that agree column by column BY CONTENT
    (`[]byte` vs `string` is the only difference, C03 `vec_eq_map`) when every field is `vecOk` -/
theorem batchRow_content {s : SelectS} {f : FoldedSelect} (hvf : ∀ g ∈ selFields s f, g.expr.vecOk = true) {p : SPair}
    (hfp : FieldsOKOn (selFields s f) p) :
    Rows (fun (vb vr : Value) => Value.contentEq vb vr) (batchRow (selFields s f) p)
      ((selFields s f).map (fun g => colVal g.expr p)) := by
  unfold batchRow
  generalize selFields s f = fields at hvf hfp
  induction fields with
  | nil => exact .nil
  | cons g gs ih =>
    simp only [List.map_cons]
    refine .cons ?_ (ih (fun x hx => hvf x (List.mem_cons_of_mem _ hx)) (fun x hx => hfp x (List.mem_cons_of_mem _ hx)))
    obtain ⟨v, hv⟩ := hfp g List.mem_cons_self
    obtain ⟨vr, h1, h2⟩ := single_row_value (hvf g List.mem_cons_self) hv
    unfold batchVal colVal
    rw [batchValKv_of_pairVal hv, h1]
    exact h2

end Kvql.Proofs.RunFields
