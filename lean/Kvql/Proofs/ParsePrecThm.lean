/-
  C15, precedence and parentheses — the theorems on abstract trees and the corollaries:
  minimal parenthesisation round trip, positions, nested redundant parentheses, full
  parenthesisation, left associativity over arbitrary operands, `in` / `between`, and
  agreement with the renderer of the earlier partial theorem.
-/
import Kvql.Proofs.ParsePrecMin

set_option linter.unusedSimpArgs false
set_option linter.unusedVariables false

namespace Kvql.Proofs.ParsePrec

open Kvql Kvql.Parser Kvql.Generated Kvql.Proofs.PrintLex Kvql.Proofs.PrintParse
open Kvql.Proofs.Prec (atomTok opOK pr opPrec_pos)

variable (pf : Bytes → F64)

theorem rpr_bin (p : Nat) (op : Op) (l r : Syn) : (Syn.bin p op l r).rpr = opPrec op := rfl
theorem rpr_inList (p : Nat) (l : Syn) (items : List Syn) : (Syn.inList p l items).rpr = 7 := rfl
theorem rpr_inExpr (p : Nat) (l r : Syn) : (Syn.inExpr p l r).rpr = 3 := rfl
theorem rpr_between (p : Nat) (l lo hi : Syn) : (Syn.between p l lo hi).rpr = 3 := rfl
theorem rpr_paren (s : Syn) : (Syn.paren s).rpr = 7 := rfl

/-! ### minimal parenthesisation parses back -/

theorem print_min_parse_rest (e : Expr) (h : wf pf e = true) (fuel lev : Nat) (rest : Toks)
    (hstop : StopB 1 rest) (hf : 8 * (printMin pf e).length + 4 ≤ fuel) (hl : lev + fuel ≤ maxNestLevel) :
    parseBinaryExpr pf fuel lev 1 (printMin pf e ++ rest) = .ok (canonPos e, rest) := by
  have f := facts pf e h
  have := parse_syn_rest pf (synOf e) f.ok fuel lev rest hstop hf hl
  rw [f.st] at this
  exact this

theorem print_min_parse (e : Expr) (h : wf pf e = true)
    (hsize : 8 * (printMin pf e).length + 8 ≤ maxNestLevel) :
    parseExpr pf (exprFuel (printMin pf e)) (printMin pf e) = .ok (canonPos e, []) := by
  have f := facts pf e h
  have := parse_syn pf (synOf e) f.ok hsize
  rw [f.st] at this
  exact this

/-! ### positions -/

theorem canonPos_binop_list (p q : Nat) (op : Op) (l : Expr) (items : List Expr) :
    canonPos (.binop p op l (.list q items)) = .binop p op (canonPos l) (.list p (canonPosList items)) := by
  simp only [canonPos]

mutual
  /-- `canonPos` only touches positions -/
  theorem erasePos_canonPos : ∀ e : Expr, erasePos (canonPos e) = erasePos e
    | .binop p op l r => by
      have ihl := erasePos_canonPos l
      have ihr := erasePos_canonPos r
      cases r with
      | list q items =>
        rw [canonPos_binop_list]
        simp only [erasePos, ihl, erasePosList_canonPosList items]
      | _ =>
        all_goals
          rw [canonPos_binop_nonlist rfl]
          simp only [erasePos, ihl]
          simp only [erasePos] at ihr
          rw [ihr]
    | .not p r => by simp only [canonPos, erasePos, erasePos_canonPos r]
    | .call q n args => by
      simp only [canonPos, erasePos, erasePos_canonPos n, erasePosList_canonPosList args]
    | .access p l f => by simp only [canonPos, erasePos, erasePos_canonPos l, erasePos_canonPos f]
    | .field .. => rfl
    | .str .. => rfl
    | .name .. => rfl
    | .num .. => rfl
    | .float .. => rfl
    | .bool .. => rfl
    | .ref .. => rfl
    | .cycle => rfl
    | .list .. => rfl
  theorem erasePosList_canonPosList : ∀ es : List Expr, erasePosList (canonPosList es) = erasePosList es
    | [] => rfl
    | e :: es => by
      simp only [canonPosList, erasePosList, erasePos_canonPos e, erasePosList_canonPosList es]
end

/-- the round trip modulo positions, for any positions in `e` -/
theorem print_min_parse_erase (e : Expr) (h : wf pf e = true)
    (hsize : 8 * (printMin pf e).length + 8 ≤ maxNestLevel) :
    ∃ e', parseExpr pf (exprFuel (printMin pf e)) (printMin pf e) = .ok (e', []) ∧
      erasePos e' = erasePos e :=
  ⟨canonPos e, print_min_parse pf e h hsize, erasePos_canonPos e⟩

/-! ### nested redundant parentheses -/

/-- `n` pairs of parentheses around a token list -/
def wrapN : Nat → Toks → Toks
  | 0, ts => ts
  | n + 1, ts => LP :: (wrapN n ts ++ [RP])

def parenN : Nat → Syn → Syn
  | 0, s => s
  | n + 1, s => .paren (parenN n s)

theorem parenN_facts (n : Nat) (s : Syn) :
    (parenN n s).ok pf = s.ok pf ∧ (parenN n s).strip = s.strip ∧ (parenN n s).toks pf = wrapN n (s.toks pf) := by
  induction n with
  | zero => exact ⟨rfl, rfl, rfl⟩
  | succ n ih => simp only [parenN, Syn.ok, Syn.strip, Syn.toks, wrapN, ih, and_self]

theorem wrapN_length (n : Nat) (ts : Toks) : (wrapN n ts).length = ts.length + 2 * n := by
  induction n with
  | zero => simp [wrapN]
  | succ n ih => simp only [wrapN, List.length_cons, List.length_append, ih, List.length_nil]; omega

/-- `n` redundant pairs of parentheses around the whole text do not change the tree -/
theorem parse_wrapN (s : Syn) (h : s.ok pf = true) (n : Nat)
    (hsize : 8 * ((s.toks pf).length + 2 * n) + 8 ≤ maxNestLevel) :
    parseExpr pf (exprFuel (wrapN n (s.toks pf))) (wrapN n (s.toks pf)) = .ok (s.strip, []) := by
  obtain ⟨h1, h2, h3⟩ := parenN_facts pf n s
  have := parse_syn pf (parenN n s) (by rw [h1]; exact h) (by rw [h3, wrapN_length]; exact hsize)
  rw [h2, h3] at this
  exact this

/-! ### full parenthesisation -/

namespace Syn
mutual
  /-- parentheses around every operand, bound, `!`-operand and indexed expression; not around
      the right operand of `l in r` (it would become a list), whose text is left as it is -/
  def full : Syn → Syn
    | .atom e => .atom e
    | .paren s => .paren (full s)
    | .bin p op l r => .bin p op (.paren (full l)) (.paren (full r))
    | .inList p l items => .inList p (.paren (full l)) (fullList items)
    | .inExpr p l r => .inExpr p (.paren (full l)) r
    | .between p l lo hi => .between p (.paren (full l)) (.paren (full lo)) (.paren (full hi))
    | .not p r => .not p (.paren (full r))
    | .call fn args => .call fn (fullList args)
    | .access p l f => .access p (.paren (full l)) (full f)
  def fullList : List Syn → List Syn
    | [] => []
    | s :: ss => full s :: fullList ss
end
end Syn

mutual
  theorem full_facts : ∀ s : Syn, s.ok pf = true → s.full.ok pf = true ∧ s.full.strip = s.strip
    | .atom e, h => ⟨h, rfl⟩
    | .paren s, h => by
      simp only [Syn.ok] at h
      simpa only [Syn.full, Syn.ok, Syn.strip] using full_facts s h
    | .bin p op l r, h => by
      simp only [Syn.ok, Bool.and_eq_true, decide_eq_true_eq] at h
      obtain ⟨⟨⟨⟨hop, hl⟩, hr⟩, hrp⟩, hlp⟩ := h
      have h5 := Syn.opPrec_le5 op
      simp only [Syn.full, Syn.ok, Syn.strip, hop, full_facts l hl, full_facts r hr, Bool.and_eq_true, decide_eq_true_eq, true_and, and_true]
      simp only [rpr_bin, rpr_inList, rpr_inExpr, rpr_between, rpr_paren, Syn.lpr]
      omega
    | .inList p l items, h => by
      simp only [Syn.ok, Bool.and_eq_true, decide_eq_true_eq] at h
      simp only [Syn.full, Syn.ok, Syn.strip, full_facts l h.1.1, fullList_facts items h.1.2, 
        Bool.and_eq_true, decide_eq_true_eq, true_and, and_true]
      simp only [rpr_bin, rpr_inList, rpr_inExpr, rpr_between, rpr_paren]
      omega
    | .inExpr p l r, h => by
      simp only [Syn.ok, Bool.and_eq_true, decide_eq_true_eq, Bool.not_eq_true'] at h
      obtain ⟨⟨⟨⟨hl, hr⟩, hrp⟩, hlp⟩, hnp⟩ := h
      simp only [Syn.full, Syn.ok, Syn.strip, full_facts l hl, hr, hnp, 
        Bool.and_eq_true, decide_eq_true_eq, true_and, and_true, Bool.not_false]
      simp only [rpr_bin, rpr_inList, rpr_inExpr, rpr_between, rpr_paren]
      omega
    | .between p l lo hi, h => by
      simp only [Syn.ok, Bool.and_eq_true, decide_eq_true_eq] at h
      obtain ⟨⟨⟨⟨⟨hl, hlo⟩, hhi⟩, hrp⟩, hlpo⟩, hlph⟩ := h
      simp only [Syn.full, Syn.ok, Syn.strip, full_facts l hl, full_facts lo hlo, full_facts hi hhi, 
        Bool.and_eq_true, decide_eq_true_eq, true_and, and_true]
      simp only [rpr_bin, rpr_inList, rpr_inExpr, rpr_between, rpr_paren, Syn.lpr]
      omega
    | .not p r, h => by
      simp only [Syn.ok, Bool.and_eq_true] at h
      simp only [Syn.full, Syn.ok, Syn.strip, full_facts r h.1, Syn.isBin, Bool.not_false, Bool.and_self,
        and_self]
    | .call fn args, h => by
      simp only [Syn.ok, Bool.and_eq_true] at h
      obtain ⟨⟨⟨hf, hk⟩, hat⟩, ha⟩ := h
      simp only [Syn.full, Syn.ok, Syn.strip, hf, hk, hat, fullList_facts args ha, Bool.and_self, and_self]
    | .access p l f, h => by
      simp only [Syn.ok, Bool.and_eq_true] at h
      simp only [Syn.full, Syn.ok, Syn.strip, full_facts l h.1.1, full_facts f h.2, Syn.isPrimary,
        Bool.and_self, and_self]
  theorem fullList_facts : ∀ ss : List Syn, Syn.okList pf ss = true →
      Syn.okList pf (Syn.fullList ss) = true ∧ Syn.stripList (Syn.fullList ss) = Syn.stripList ss
    | [], _ => ⟨rfl, rfl⟩
    | s :: ss, h => by
      simp only [Syn.okList, Bool.and_eq_true] at h
      simp only [Syn.fullList, Syn.okList, Syn.stripList, full_facts s h.1, fullList_facts ss h.2,
        Bool.and_self, and_self]
end

/-- the tokens of `e`, fully parenthesised -/
def printFull (e : Expr) : Toks := (synOf e).full.toks pf

/-- full and minimal parenthesisation give the same tree -/
theorem print_full_parse (e : Expr) (h : wf pf e = true)
    (hsize : 8 * (printFull pf e).length + 8 ≤ maxNestLevel) :
    parseExpr pf (exprFuel (printFull pf e)) (printFull pf e) = .ok (canonPos e, []) := by
  have f := facts pf e h
  obtain ⟨h1, h2⟩ := full_facts pf (synOf e) f.ok
  have := parse_syn pf (synOf e).full h1 hsize
  rw [h2, f.st] at this
  exact this

/-! ### left associativity and levels, over arbitrary operands -/

/-- an operand: anything but an un-parenthesised binary form -/
def Operand (s : Syn) : Prop := s.ok pf = true ∧ s.isBin = false

theorem operand_pr {s : Syn} (h : Operand pf s) : s.lpr = 7 ∧ s.rpr = 7 := Syn.lpr_of_not_bin h.2

/-- `a op1 b op2 c`: when `op2` does not bind more tightly than `op1` (same level, or a weaker
    one) the tree is `(a op1 b) op2 c`; when it binds more tightly, `a op1 (b op2 c)` -/
theorem assoc_levels (a b c : Syn) (op1 op2 : Op) (p1 p2 : Nat) (ha : Operand pf a) (hb : Operand pf b)
    (hc : Operand pf c) (h1 : opOK op1 = true) (h2 : opOK op2 = true)
    (hsize : 8 * ((a.toks pf).length + (b.toks pf).length + (c.toks pf).length + 2) + 8 ≤ maxNestLevel) :
    let ts := a.toks pf ++ opTok op1 p1 :: (b.toks pf ++ opTok op2 p2 :: c.toks pf)
    parseExpr pf (exprFuel ts) ts =
      .ok (if opPrec op2 ≤ opPrec op1 then .binop p2 op2 (.binop p1 op1 a.strip b.strip) c.strip
           else .binop p1 op1 a.strip (.binop p2 op2 b.strip c.strip), []) := by
  intro ts
  have pa := operand_pr pf ha
  have pb := operand_pr pf hb
  have pc := operand_pr pf hc
  have q1 := Syn.opPrec_le5 op1
  have q2 := Syn.opPrec_le5 op2
  by_cases hle : opPrec op2 ≤ opPrec op1
  · rw [if_pos hle]
    have hok : (Syn.bin p2 op2 (.bin p1 op1 a b) c).ok pf = true := by
      simp only [Syn.ok, ha.1, hb.1, hc.1, h1, h2, Bool.and_eq_true,
        decide_eq_true_eq, true_and, and_true]
      simp only [rpr_bin, rpr_inList, rpr_inExpr, rpr_between, rpr_paren, Syn.lpr, pa.2, pb.1, pc.1]
      omega
    have hts : (Syn.bin p2 op2 (.bin p1 op1 a b) c).toks pf = ts := by
      simp only [Syn.toks, ts, List.append_assoc, List.cons_append]
    have := parse_syn pf _ hok (by rw [hts]; simp only [ts, List.length_append, List.length_cons]; omega)
    rw [hts] at this
    exact this
  · rw [if_neg hle]
    have hok : (Syn.bin p1 op1 a (.bin p2 op2 b c)).ok pf = true := by
      simp only [Syn.ok, ha.1, hb.1, hc.1, h1, h2, Bool.and_eq_true,
        decide_eq_true_eq, true_and, and_true]
      simp only [rpr_bin, rpr_inList, rpr_inExpr, rpr_between, rpr_paren, Syn.lpr, pa.2, pb.1, pb.2, pc.1]
      omega
    have hts : (Syn.bin p1 op1 a (.bin p2 op2 b c)).toks pf = ts := by
      simp only [Syn.toks, ts]
    have := parse_syn pf _ hok (by rw [hts]; simp only [ts, List.length_append, List.length_cons]; omega)
    rw [hts] at this
    exact this

/-! ### `in` and `between` -/

/-- `a in ( items ) op c` is `(a in (items)) op c` for *every* binary operator `op`, also `+` and
    `*`: after the closing parenthesis of the list the climbing loop simply goes on (the code's
    behaviour; by the table one would expect the list to be an operand of the tighter `op`) -/
theorem in_list_then_op (a c : Syn) (items : List Syn) (op : Op) (p1 p2 : Nat) (ha : Operand pf a)
    (hc : Operand pf c) (hi : Syn.okList pf items = true) (h2 : opOK op = true)
    (hsize : 8 * ((a.toks pf).length + (Syn.toksList pf items).length + (c.toks pf).length + 4) + 8 ≤
      maxNestLevel) :
    let ts := a.toks pf ++ opTok .in_ p1 :: LP :: (Syn.toksList pf items ++ RP :: opTok op p2 :: c.toks pf)
    parseExpr pf (exprFuel ts) ts =
      .ok (.binop p2 op (.binop p1 .in_ a.strip (.list p1 (Syn.stripList items))) c.strip, []) := by
  intro ts
  have pa := operand_pr pf ha
  have pc := operand_pr pf hc
  have q2 := Syn.opPrec_le5 op
  have hok : (Syn.bin p2 op (.inList p1 a items) c).ok pf = true := by
    simp only [Syn.ok, ha.1, hc.1, hi, h2, Bool.and_eq_true,
      decide_eq_true_eq, true_and, and_true]
    simp only [rpr_bin, rpr_inList, rpr_inExpr, rpr_between, rpr_paren, Syn.lpr, pa.2, pc.1]
    omega
  have hts : (Syn.bin p2 op (.inList p1 a items) c).toks pf = ts := by
    simp only [Syn.toks, ts, List.append_assoc, List.cons_append, List.nil_append]
  have := parse_syn pf _ hok (by
    rw [hts]; simp only [ts, List.length_append, List.length_cons]; omega)
  rw [hts] at this
  exact this

/-- `a in b op c` with `b` not starting with `(`: a comparison or logical `op` closes the `in`
    (`(a in b) op c`, left associative at the comparison level), an arithmetic `op` belongs to
    the right operand (`a in (b op c)`) -/
theorem in_expr_then_op (a b c : Syn) (op : Op) (p1 p2 : Nat) (ha : Operand pf a) (hb : Operand pf b)
    (hc : Operand pf c) (hnp : b.headParen = false) (h2 : opOK op = true)
    (hsize : 8 * ((a.toks pf).length + (b.toks pf).length + (c.toks pf).length + 2) + 8 ≤ maxNestLevel) :
    let ts := a.toks pf ++ opTok .in_ p1 :: (b.toks pf ++ opTok op p2 :: c.toks pf)
    parseExpr pf (exprFuel ts) ts =
      .ok (if opPrec op ≤ 3 then .binop p2 op (.binop p1 .in_ a.strip b.strip) c.strip
           else .binop p1 .in_ a.strip (.binop p2 op b.strip c.strip), []) := by
  intro ts
  have pa := operand_pr pf ha
  have pb := operand_pr pf hb
  have pc := operand_pr pf hc
  have q2 := Syn.opPrec_le5 op
  by_cases hle : opPrec op ≤ 3
  · rw [if_pos hle]
    have hok : (Syn.bin p2 op (.inExpr p1 a b) c).ok pf = true := by
      simp only [Syn.ok, ha.1, hb.1, hc.1, h2, hnp, Bool.and_eq_true,
        decide_eq_true_eq, true_and, and_true, Bool.not_false]
      simp only [rpr_bin, rpr_inList, rpr_inExpr, rpr_between, rpr_paren, Syn.lpr, pa.2, pb.1, pc.1]
      omega
    have hts : (Syn.bin p2 op (.inExpr p1 a b) c).toks pf = ts := by
      simp only [Syn.toks, ts, List.append_assoc, List.cons_append]
    have := parse_syn pf _ hok (by rw [hts]; simp only [ts, List.length_append, List.length_cons]; omega)
    rw [hts] at this
    exact this
  · rw [if_neg hle]
    have hok : (Syn.inExpr p1 a (.bin p2 op b c)).ok pf = true := by
      simp only [Syn.ok, ha.1, hb.1, hc.1, h2, hnp, Bool.and_eq_true, decide_eq_true_eq, true_and, and_true, Bool.not_false]
      simp only [rpr_bin, rpr_inList, rpr_inExpr, rpr_between, rpr_paren, Syn.lpr, Syn.headParen, pa.2, pb.1, pb.2, pc.1, hnp, Bool.not_false, and_true]
      omega
    have hts : (Syn.inExpr p1 a (.bin p2 op b c)).toks pf = ts := by
      simp only [Syn.toks, ts]
    have := parse_syn pf _ hok (by rw [hts]; simp only [ts, List.length_append, List.length_cons]; omega)
    rw [hts] at this
    exact this

/-- `a between lo and hi op c`, the bounds being operands or arithmetic (`+ - * /`) expressions:
    a comparison or logical `op` — in particular a second `and` — closes the `between`
    (`(a between lo and hi) op c`), an arithmetic `op` belongs to the upper bound -/
theorem between_then_op (a lo hi c : Syn) (op : Op) (p1 p2 : Nat) (ha : Operand pf a)
    (hlo : lo.ok pf = true) (hlo4 : 4 ≤ lo.lpr) (hhi : Operand pf hi) (hc : Operand pf c) (h2 : opOK op = true)
    (hsize : 8 * ((a.toks pf).length + (lo.toks pf).length + (hi.toks pf).length + (c.toks pf).length + 3) + 8 ≤
      maxNestLevel) :
    let ts := a.toks pf ++ opTok .between p1 :: (lo.toks pf ++ opTok .kwAnd 0 :: (hi.toks pf ++ opTok op p2 :: c.toks pf))
    parseExpr pf (exprFuel ts) ts =
      .ok (if opPrec op ≤ 3 then
             .binop p2 op (.binop p1 .between a.strip (.list p1 [lo.strip, hi.strip])) c.strip
           else .binop p1 .between a.strip (.list p1 [lo.strip, .binop p2 op hi.strip c.strip]), []) := by
  intro ts
  have pa := operand_pr pf ha
  have ph := operand_pr pf hhi
  have pc := operand_pr pf hc
  have q2 := Syn.opPrec_le5 op
  by_cases hle : opPrec op ≤ 3
  · rw [if_pos hle]
    have hok : (Syn.bin p2 op (.between p1 a lo hi) c).ok pf = true := by
      simp only [Syn.ok, ha.1, hlo, hhi.1, hc.1, h2, Bool.and_eq_true,
        decide_eq_true_eq, true_and, and_true]
      simp only [rpr_bin, rpr_inList, rpr_inExpr, rpr_between, rpr_paren, Syn.lpr, pa.2, pc.1, ph.1]
      omega
    have hts : (Syn.bin p2 op (.between p1 a lo hi) c).toks pf = ts := by
      simp only [Syn.toks, ts, List.append_assoc, List.cons_append]
    have := parse_syn pf _ hok (by rw [hts]; simp only [ts, List.length_append, List.length_cons]; omega)
    rw [hts] at this
    exact this
  · rw [if_neg hle]
    have hok : (Syn.between p1 a lo (.bin p2 op hi c)).ok pf = true := by
      simp only [Syn.ok, ha.1, hlo, hhi.1, hc.1, h2, Bool.and_eq_true,
        decide_eq_true_eq, true_and, and_true]
      simp only [rpr_bin, rpr_inList, rpr_inExpr, rpr_between, rpr_paren, Syn.lpr, pa.2, pc.1, ph.1, ph.2]
      omega
    have hts : (Syn.between p1 a lo (.bin p2 op hi c)).toks pf = ts := by
      simp only [Syn.toks, ts]
    have := parse_syn pf _ hok (by rw [hts]; simp only [ts, List.length_append, List.length_cons]; omega)
    rw [hts] at this
    exact this

/-! ### the general left-operand rule (left associativity in its general form) -/

/-- whatever `x` stands to the left — an operand or a bare binary form of any kind — if its right
    strength is at least the level of `op`, all of it is the left operand of `op`; the right
    operand `r` is anything strictly stronger than `op` -/
theorem then_op (x r : Syn) (op : Op) (p : Nat) (hx : x.ok pf = true) (hr : r.ok pf = true)
    (hop : opOK op = true) (hxr : opPrec op ≤ x.rpr) (hrl : opPrec op + 1 ≤ r.lpr)
    (hsize : 8 * ((x.toks pf).length + (r.toks pf).length + 1) + 8 ≤ maxNestLevel) :
    let ts := x.toks pf ++ opTok op p :: r.toks pf
    parseExpr pf (exprFuel ts) ts = .ok (.binop p op x.strip r.strip, []) := by
  intro ts
  have hok : (Syn.bin p op x r).ok pf = true := by
    simp only [Syn.ok, hx, hr, hop, Bool.and_eq_true, decide_eq_true_eq, true_and]
    exact ⟨hxr, hrl⟩
  exact parse_syn pf _ hok (by simp only [Syn.toks, List.length_append, List.length_cons]; omega)

/-- … of `in ( items )`, when the right strength of `x` is at least 3 -/
theorem then_in_list (x : Syn) (items : List Syn) (p : Nat) (hx : x.ok pf = true)
    (hi : Syn.okList pf items = true) (hxr : 3 ≤ x.rpr)
    (hsize : 8 * ((x.toks pf).length + (Syn.toksList pf items).length + 3) + 8 ≤ maxNestLevel) :
    let ts := x.toks pf ++ opTok .in_ p :: LP :: (Syn.toksList pf items ++ [RP])
    parseExpr pf (exprFuel ts) ts = .ok (.binop p .in_ x.strip (.list p (Syn.stripList items)), []) := by
  intro ts
  have hok : (Syn.inList p x items).ok pf = true := by
    simp only [Syn.ok, hx, hi, Bool.and_eq_true, decide_eq_true_eq, true_and]
    exact hxr
  exact parse_syn pf _ hok (by
    simp only [Syn.toks, List.length_append, List.length_cons, List.length_nil]; omega)

/-- … of `in r`, `r` of level ≥ 4 and not starting with `(` -/
theorem then_in_expr (x r : Syn) (p : Nat) (hx : x.ok pf = true) (hr : r.ok pf = true) (hxr : 3 ≤ x.rpr)
    (hrl : 4 ≤ r.lpr) (hnp : r.headParen = false)
    (hsize : 8 * ((x.toks pf).length + (r.toks pf).length + 1) + 8 ≤ maxNestLevel) :
    let ts := x.toks pf ++ opTok .in_ p :: r.toks pf
    parseExpr pf (exprFuel ts) ts = .ok (.binop p .in_ x.strip r.strip, []) := by
  intro ts
  have hok : (Syn.inExpr p x r).ok pf = true := by
    simp only [Syn.ok, hx, hr, hnp, Bool.and_eq_true, decide_eq_true_eq, true_and, Bool.not_false, and_true]
    exact ⟨hxr, hrl⟩
  exact parse_syn pf _ hok (by simp only [Syn.toks, List.length_append, List.length_cons]; omega)

/-- … of `between lo and hi`, the bounds of level ≥ 4 -/
theorem then_between (x lo hi : Syn) (p : Nat) (hx : x.ok pf = true) (hlo : lo.ok pf = true)
    (hhi : hi.ok pf = true) (hxr : 3 ≤ x.rpr) (hlo4 : 4 ≤ lo.lpr) (hhi4 : 4 ≤ hi.lpr)
    (hsize : 8 * ((x.toks pf).length + (lo.toks pf).length + (hi.toks pf).length + 2) + 8 ≤ maxNestLevel) :
    let ts := x.toks pf ++ opTok .between p :: (lo.toks pf ++ opTok .kwAnd 0 :: hi.toks pf)
    parseExpr pf (exprFuel ts) ts = .ok (.binop p .between x.strip (.list p [lo.strip, hi.strip]), []) := by
  intro ts
  have hok : (Syn.between p x lo hi).ok pf = true := by
    simp only [Syn.ok, hx, hlo, hhi, Bool.and_eq_true, decide_eq_true_eq, true_and]
    exact ⟨⟨hxr, hlo4⟩, hhi4⟩
  exact parse_syn pf _ hok (by simp only [Syn.toks, List.length_append, List.length_cons]; omega)

/-! ### agreement with the renderer of `parse_precedence_partial` -/

theorem toks_parIf (b : Bool) (s : Syn) : (parIf b s).toks pf = Prec.wrap b (s.toks pf) := by
  cases b <;> simp [parIf, Syn.toks, Prec.wrap, LP, RP]

theorem frag_facts : ∀ e : Expr, Prec.frag pf e = true → wf pf e = true ∧ printMin pf e = Prec.rend pf e := by
  intro e
  induction e using Expr.rec (motive_2 := fun _ => True) with
  | binop p op l r ihl ihr =>
    intro h
    simp only [Prec.frag, Bool.and_eq_true] at h
    obtain ⟨⟨hop, hl⟩, hr⟩ := h
    obtain ⟨wl, pl⟩ := ihl hl
    obtain ⟨wr, pr'⟩ := ihr hr
    have hnl : isListE r = false := wf_not_list pf wr
    have hops : op ≠ .not ∧ op ≠ .in_ ∧ op ≠ .between := by
      cases op <;> simp_all [opOK]
    have hw : wf pf (.binop p op l r) = true := by
      rw [wf_binop_nonlist pf hnl]
      simp [wl, wr, hops.1, hops.2.1, hops.2.2]
    refine ⟨hw, ?_⟩
    have fl := facts pf l wl
    have fr := facts pf r wr
    unfold printMin at pl pr' ⊢
    rw [synOf_binop_nonlist hnl]
    have hb : (op == Op.in_) = false := by simpa using hops.2.1
    simp only [binExpr, hb, Bool.false_eq_true, if_false, Syn.toks, toks_parIf, fl.lp, fr.lp, pl, pr', opTok]
    conv => rhs; unfold Prec.rend
  | nil => trivial
  | cons _ _ _ _ => trivial
  | _ =>
    intro h
    simp only [Prec.frag] at h
    first
      | (simp [atomTok] at h; done)
      | exact ⟨by simpa [wf] using h, rfl⟩

end Kvql.Proofs.ParsePrec
