/-
  The batch analogue of C01 (1) `exec_refines_spec`: on the core language, wherever the REFERENCE
  evaluator gives a value on a pair, the engine's VECTOR evaluator (`ExecuteBatch`, cache off) succeeds
  on that pair taken as a chunk of its own, with a related value, and leaves the context untouched.

  C03 proves batch ⇒ row (`vec_eq_map`) and that a chunk's result is the pair-by-pair result
  (`batch_pairwise`); this file supplies the missing direction reference ⇒ batch, which is what the
  whole-statement theorems need wherever the engine evaluates a filter through `FilterBatch` (batch-mode
  SELECT, and DELETE in either mode).  The reference is STRICT (both operands of `&` / `|` are
  evaluated), which is exactly how the vector evaluator works.

  Same structure as Proofs/ExecRefinesSpec.lean: one lemma per operator group over the kernels
  (`equalRow_spec`, `compareBy_spec`, `executeMathOp_spec`, `betweenKernel_spec`, … of
  Proofs/RefineKernels.lean — the vector loops call the row kernels), kinds from C14
  (`batch_ok_kinds`), mutual structural induction.
-/
import Kvql.Proofs.ExecRefinesSpec
import Kvql.Proofs.ExecVecSound

namespace Kvql.Refine
open Kvql Kvql.Spec Generated

/-- for one expression: whenever the reference evaluates it on a pair, `ExecuteBatch` succeeds on the
    chunk made of that pair, with a related value, leaving the (cache-off) context as it was -/
def BRefines (e : Expr) : Prop :=
  ∀ (kv : Pair) (c : Ctx), c.enable = false → ∀ s, Spec.eval e kv = some s →
    ∃ v, execBatch e [kv] c = (.ok [v], c) ∧ v ≈ s

def BRefinesAll (es : List Expr) : Prop :=
  ∀ (kv : Pair) (c : Ctx), c.enable = false → ∀ ss, Spec.evalList es kv = some ss →
    All2 (fun e s => ∃ v, execBatch e [kv] c = (.ok [v], c) ∧ v ≈ s) es ss

theorem BRefines.kinded {e : Expr} (h : BRefines e) {k : Kind} (hk : kindOf e = some k) {kv : Pair} {c : Ctx}
    (hc : c.enable = false) {s : SVal} (hs : Spec.eval e kv = some s) :
    ∃ v, execBatch e [kv] c = (.ok [v], c) ∧ v ≈ s ∧ v.hasKind k = true := by
  obtain ⟨v, hv, hr⟩ := h kv c hc s hs
  exact ⟨v, hv, hr, (batch_ok_kinds hk hc hv).2.2 v (by simp)⟩

/-! ### the loops on a chunk of one pair -/

theorem zipRows_one (f : Value → Value → Except Err Value) (a b : Value) :
    zipRows f 1 [a] [b] = (f a b).map (fun y => [y]) := by
  simp only [zipRows]
  cases f a b <;> rfl

theorem mapRows_one (f : Value → Except Err Value) (a : Value) : mapRows f 1 [a] = (f a).map (fun y => [y]) := by
  simp only [mapRows]
  cases f a <;> rfl

theorem mapRowsFresh_one (f : Value → Value) (a : Value) : mapRowsFresh f 1 [a] = .ok [f a] := rfl

/-! ### operator groups -/

section groups
variable {p : Nat} {l r : Expr} {kv : Pair} {c : Ctx} {va vb : Value} {sa sb s : SVal}

theorem brefines_logic {op : Op} (hop : op = .and ∨ op = .kwAnd ∨ op = .or ∨ op = .kwOr)
    (hl : execBatch l [kv] c = (.ok [va], c)) (hr : execBatch r [kv] c = (.ok [vb], c)) (ha : va ≈ sa) (hb : vb ≈ sb)
    (h : Spec.binop op sa sb = some s) : ∃ v, execBatch (.binop p op l r) [kv] c = (.ok [v], c) ∧ v ≈ s := by
  rcases hop with rfl | rfl | rfl | rfl <;>
  (simp only [Spec.binop] at h
   split at h
   · rename_i x y
     cases h
     have e1 := ha.bool_inv; have e2 := hb.bool_inv; subst e1 e2
     rw [execBatch]
     simp [M.bind_ok hl, M.bind_ok hr, zipRows_one, Except.map, Rel]
   · cases h)

theorem brefines_eq {op : Op} (hop : op = .eq ∨ op = .neq)
    (hl : execBatch l [kv] c = (.ok [va], c)) (hr : execBatch r [kv] c = (.ok [vb], c)) (ha : va ≈ sa) (hb : vb ≈ sb)
    (h : Spec.binop op sa sb = some s) : ∃ v, execBatch (.binop p op l r) [kv] c = (.ok [v], c) ∧ v ≈ s := by
  rcases hop with rfl | rfl <;> simp only [Spec.binop] at h
  · cases hc : compare? .eq sa sb with
    | none => simp [hc] at h
    | some x =>
      simp only [hc, Option.map_some, Option.some.injEq] at h; subst h
      rw [execBatch]
      exact ⟨.bool x, by simp [M.bind_ok hl, M.bind_ok hr, equalBatchFinish, zipRows_one, boolV, Except.map,
        equalRow_spec ha hb hc], rfl⟩
  · cases hc : compare? .eq sa sb with
    | none => simp [hc] at h
    | some x =>
      simp only [hc, Option.map_some, Option.some.injEq] at h; subst h
      rw [execBatch]
      exact ⟨.bool !x, by simp [M.bind_ok hl, M.bind_ok hr, equalBatchFinish, zipRows_one, boolV, Except.map,
        equalRow_spec ha hb hc], rfl⟩

theorem brefines_compare {op : Op} {k : Kind} (hop : op = .gt ∨ op = .gte ∨ op = .lt ∨ op = .lte)
    (hk : k = .text ∨ k = .num) (hkl : kindOf l = some k)
    (hl : execBatch l [kv] c = (.ok [va], c)) (hr : execBatch r [kv] c = (.ok [vb], c)) (ha : va ≈ sa) (hb : vb ≈ sb)
    (hka : va.hasKind k = true)
    (h : Spec.binop op sa sb = some s) : ∃ v, execBatch (.binop p op l r) [kv] c = (.ok [v], c) ∧ v ≈ s := by
  have hflag := hk_of hkl hk
  rcases hop with rfl | rfl | rfl | rfl
  · obtain ⟨x, hx, rfl⟩ := binop_cmp (cop := .gt) rfl h
    rw [execBatch]
    exact ⟨.bool x, by simp [M.bind_ok hl, M.bind_ok hr, zipRows_one, boolV, Except.map,
      compareBy_spec hflag ha hb hka .gt hx], rfl⟩
  · obtain ⟨x, hx, rfl⟩ := binop_cmp (cop := .gte) rfl h
    rw [execBatch]
    exact ⟨.bool x, by simp [M.bind_ok hl, M.bind_ok hr, zipRows_one, boolV, Except.map,
      compareBy_spec hflag ha hb hka .gte hx], rfl⟩
  · obtain ⟨x, hx, rfl⟩ := binop_cmp (cop := .lt) rfl h
    rw [execBatch]
    exact ⟨.bool x, by simp [M.bind_ok hl, M.bind_ok hr, zipRows_one, boolV, Except.map,
      compareBy_spec hflag ha hb hka .lt hx], rfl⟩
  · obtain ⟨x, hx, rfl⟩ := binop_cmp (cop := .lte) rfl h
    rw [execBatch]
    exact ⟨.bool x, by simp [M.bind_ok hl, M.bind_ok hr, zipRows_one, boolV, Except.map,
      compareBy_spec hflag ha hb hka .lte hx], rfl⟩

theorem brefines_match {op : Op} (hop : op = .prefixMatch ∨ op = .regexMatch)
    (hl : execBatch l [kv] c = (.ok [va], c)) (hr : execBatch r [kv] c = (.ok [vb], c)) (ha : va ≈ sa) (hb : vb ≈ sb)
    (h : Spec.binop op sa sb = some s) : ∃ v, execBatch (.binop p op l r) [kv] c = (.ok [v], c) ∧ v ≈ s := by
  rcases hop with rfl | rfl <;> simp only [Spec.binop] at h <;> split at h
  · rename_i x y
    cases h
    rw [execBatch]
    exact ⟨.bool (y.isPrefixOf x), by simp [M.bind_ok hl, M.bind_ok hr, zipRows_one, Except.map,
      convert_text ha, convert_text hb], rfl⟩
  · cases h
  · rename_i x y
    cases hre : Regex.parse y with
    | none => simp [hre] at h
    | some re =>
      simp only [hre, Option.map_some, Option.some.injEq] at h; subst h
      rw [execBatch]
      exact ⟨.bool (re.matches x), by simp [M.bind_ok hl, M.bind_ok hr, zipRows_one, Except.map,
        convert_text ha, convert_text hb, hre], rfl⟩
  · cases h

theorem brefines_arith {op : Op} {mop : MathOp} (hop : mathOpOf op = some mop) (hkl : kindOf l = some .num)
    (hl : execBatch l [kv] c = (.ok [va], c)) (hr : execBatch r [kv] c = (.ok [vb], c)) (ha : va ≈ sa) (hb : vb ≈ sb)
    (hka : va.hasKind .num = true)
    (h : Spec.binop op sa sb = some s) : ∃ v, execBatch (.binop p op l r) [kv] c = (.ok [v], c) ∧ v ≈ s := by
  have hns : (retType l == tyTSTR) = false := (number_flag hkl).2 rfl
  have harith : Spec.arith (mathOpToOp mop) sa sb = some s := by
    cases op <;> simp [mathOpOf] at hop <;> subst hop <;> simp only [Spec.binop, mathOpToOp] at h ⊢
    · rcases ha.kind_num hka with ⟨i, rfl⟩ | ⟨f, rfl⟩ <;> exact h
    · exact h
    · exact h
    · exact h
  obtain ⟨v, hv, hrel⟩ := executeMathOp_spec ha hb mop harith
  refine ⟨v, ?_, hrel⟩
  cases op <;> simp [mathOpOf] at hop <;> subst hop <;> rw [execBatch] <;>
    simp [hns, M.bind_ok hl, M.bind_ok hr, zipRows_one, Except.map, hv]

theorem brefines_concat (hkl : kindOf l = some .text)
    (hl : execBatch l [kv] c = (.ok [va], c)) (hr : execBatch r [kv] c = (.ok [vb], c)) (ha : va ≈ sa) (hb : vb ≈ sb)
    (hka : va.hasKind .text = true) (hkb : vb.hasKind .text = true)
    (h : Spec.binop .add sa sb = some s) : ∃ v, execBatch (.binop p .add l r) [kv] c = (.ok [v], c) ∧ v ≈ s := by
  have hs : (retType l == tyTSTR) = true := (number_flag hkl).1 rfl
  obtain ⟨x, rfl⟩ := ha.kind_text hka
  obtain ⟨y, rfl⟩ := hb.kind_text hkb
  simp only [Spec.binop, Option.some.injEq] at h; subst h
  rw [execBatch]
  exact ⟨.bytes (x ++ y), by simp [hs, M.bind_ok hl, M.bind_ok hr, zipRows_one, Except.map,
    convert_text ha, convert_text hb], rfl⟩

end groups

/-! ### `in (…)`: the vector loops (items evaluated first, then the membership scan with early exit) -/

theorem binItems_spec {number : Bool} {k : Kind} (hk : (number = true ∧ k = .num) ∨ (number = false ∧ k = .text))
    {left : Value} {sx : SVal} (hx : left ≈ sx) (hkx : left.hasKind k = true) {kv : Pair} {c : Ctx} :
    ∀ (items : List Expr) (ss : List SVal), allKind k items = true →
      All2 (fun e s => ∃ v, execBatch e [kv] c = (.ok [v], c) ∧ v ≈ s) items ss →
      ∀ r, Spec.member sx ss = some r →
        ∃ cols, execInItemsBatch number items [kv] c = (.ok cols, c) ∧ inColumns number left 0 cols = .ok r
  | [], _, _, hall, r, hm => by
    cases hall
    simp only [Spec.member, Option.some.injEq] at hm; subst hm
    exact ⟨[], by rw [execInItemsBatch]; rfl, rfl⟩
  | e :: es, _, hkind, hall, r, hm => by
    cases hall with
    | cons hhead htail =>
      rename_i s ss
      obtain ⟨v, hv, hrel⟩ := hhead
      obtain ⟨here, later, h1, h2, rfl⟩ := member_cons hm
      simp only [allKind, Bool.and_eq_true] at hkind
      have hke : kindOf e = some k := by simpa using hkind.1
      have hrt : retType e = (if number = true then tyTNUMBER else tyTSTR) := by
        rw [retType_of_kind e k hke]
        rcases hk with ⟨rfl, rfl⟩ | ⟨rfl, rfl⟩ <;> rfl
      have hcmp := compareBy_spec hk hx hrel hkx .eq (r := here) h1
      obtain ⟨cols, hcols, hin⟩ := binItems_spec hk hx hkx es ss hkind.2 htail later h2
      refine ⟨[v] :: cols, ?_, ?_⟩
      · rw [execInItemsBatch]
        simp only [hrt, bne_self_eq_false, Bool.false_eq_true, if_false]
        simp [M.bind_ok hv, M.bind_ok hcols]
      · simp only [inColumns, List.getElem?_cons_zero, hcmp]
        cases here with
        | true => rfl
        | false => simpa using hin

theorem inRows_one (number : Bool) (cols : List (List Value)) (left : Value) :
    inRows number cols 1 0 [left] = (inColumns number left 0 cols).map (fun b => [Value.bool b]) := by
  simp only [inRows]
  cases inColumns number left 0 cols <;> rfl

/-! ### functions -/

/-- the nine functions of the reference are vector twins in the engine's table -/
theorem ofName_lookup_vec {f : Bytes} {fn : Fn} (h : Fn.ofName f = some fn) :
    ∃ fo, lookupFunc (toLower f) = some fo ∧ fo.body = some (bodyOf fn) ∧ fo.vecIsTwin = true := by
  unfold Fn.ofName at h
  have e : f.map Spec.lowerByte = toLower f := rfl
  simp only [e] at h
  generalize toLower f = n at h
  split at h
  · rename_i hn; subst hn; cases h; exact ⟨_, rfl, rfl, rfl⟩
  split at h
  · rename_i hn; subst hn; cases h; exact ⟨_, rfl, rfl, rfl⟩
  split at h
  · rename_i hn; subst hn; cases h; exact ⟨_, rfl, rfl, rfl⟩
  split at h
  · rename_i hn; subst hn; cases h; exact ⟨_, rfl, rfl, rfl⟩
  split at h
  · rename_i hn; subst hn; cases h; exact ⟨_, rfl, rfl, rfl⟩
  split at h
  · rename_i hn; subst hn; cases h; exact ⟨_, rfl, rfl, rfl⟩
  split at h
  · rename_i hn; subst hn; cases h; exact ⟨_, rfl, rfl, rfl⟩
  split at h
  · rename_i hn; subst hn; cases h; exact ⟨_, rfl, rfl, rfl⟩
  split at h
  · rename_i hn; subst hn; cases h; exact ⟨_, rfl, rfl, rfl⟩
  · cases h

theorem execBatch_call_eq' {p : Nat} {nm : Expr} {args : List Expr} {chunk : List Pair} {fname : Bytes} {fo : FuncInfo}
    {b : Body} (hn : funcNameOf nm = .ok fname) (hf : lookupFunc fname = some fo)
    (h1 : ¬ (!fo.varArgs && args.length != fo.numArgs) = true)
    (h2 : ¬ (fo.varArgs && decide (args.length < fo.numArgs)) = true) (hb : fo.body = some b)
    (hv : fo.vecIsTwin = true) :
    execBatch (.call p nm args) chunk = vecBody b args chunk := by
  rw [execBatch]; simp only [hn, hf, hb]; simp [h1, h2, hv]

/-- the value the one-argument functions compute from the argument's value (row body and vector body alike) -/
def unaryVal : Fn → Value → Value
  | .upper, v => .str (toUpper (toStringV v))
  | .lower, v => .str (toLower (toStringV v))
  | .int, v => .int (toIntV v 0)
  | .float, v => .float (toFloatV v F64.zero)
  | .str, v => .str (toStringV v)
  | .strlen, v => .int (Int64.ofNat (toStringV v).length)
  | .isInt, v => .bool (isIntV v)
  | .isFloat, v => .bool (isFloatV v)
  | .substr, v => v

theorem unaryVal_rel {fn : Fn} (hfn : fn ≠ .substr) {va : Value} {sa s : SVal} (hrel : va ≈ sa)
    (h : Spec.apply fn [sa] = some s) : unaryVal fn va ≈ s := by
  cases fn with
  | substr => exact absurd rfl hfn
  | upper =>
    cases sa <;> simp [Spec.apply] at h
    rename_i t; subst h
    simp [unaryVal, Rel, toStringV_text hrel, toUpper_eq]
  | lower =>
    cases sa <;> simp [Spec.apply] at h
    rename_i t; subst h
    simp [unaryVal, Rel, toStringV_text hrel, toLower_eq]
  | int =>
    simp only [Spec.apply] at h
    cases hi : Spec.toInt sa with
    | none => simp [hi] at h
    | some i =>
      simp only [hi, Option.map_some, Option.some.injEq] at h; subst h
      simp only [unaryVal]
      cases sa with
      | text t =>
        simp only [Spec.toInt, readInt_eq] at hi
        rcases hrel.text_inv with rfl | rfl <;> simp [Rel, toIntV, textToInt, hi]
      | int j =>
        simp only [Spec.toInt, Option.some.injEq] at hi; subst hi
        rcases hrel.int_inv with rfl | rfl <;> simp [Rel, toIntV]
      | float f =>
        have := hrel.float_inv; subst this
        simp only [Spec.toInt] at hi
        split at hi
        · cases hi; simp [Rel, toIntV]
        · cases hi
      | bool _ => simp [Spec.toInt] at hi
      | list _ => simp [Spec.toInt] at hi
  | float =>
    simp only [Spec.apply] at h
    cases hi : Spec.toFloat sa with
    | none => simp [hi] at h
    | some x =>
      simp only [hi, Option.map_some, Option.some.injEq] at h; subst h
      simp only [unaryVal]
      cases sa with
      | text t =>
        simp only [Spec.toFloat] at hi
        rcases hrel.text_inv with rfl | rfl <;> simp [Rel, toFloatV, hi]
      | int j =>
        simp only [Spec.toFloat, Option.some.injEq] at hi; subst hi
        rcases hrel.int_inv with rfl | rfl <;> simp [Rel, toFloatV]
      | float f =>
        have := hrel.float_inv; subst this
        simp only [Spec.toFloat, Option.some.injEq] at hi; subst hi
        simp [Rel, toFloatV]
      | bool _ => simp [Spec.toFloat] at hi
      | list _ => simp [Spec.toFloat] at hi
  | str =>
    simp only [Spec.apply] at h
    cases hi : Spec.toStr sa with
    | none => simp [hi] at h
    | some x =>
      simp only [hi, Option.map_some, Option.some.injEq] at h; subst h
      exact toStr_spec hrel hi
  | strlen =>
    simp only [Spec.apply] at h
    cases hi : Spec.toStr sa with
    | none => simp [hi] at h
    | some x =>
      simp only [hi, Option.map_some, Option.some.injEq] at h; subst h
      have : toStringV va = x := toStr_spec hrel hi
      simp [unaryVal, Rel, this]
  | isInt =>
    simp only [unaryVal]
    cases sa with
    | text t =>
      simp only [Spec.apply, Option.some.injEq] at h; subst h
      rw [readInt_eq]
      rcases hrel.text_inv with rfl | rfl <;> simp [Rel, isIntV, parseInt64?]
    | int j =>
      simp only [Spec.apply, Option.some.injEq] at h; subst h
      rcases hrel.int_inv with rfl | rfl <;> simp [Rel, isIntV]
    | float _ => simp [Spec.apply] at h
    | bool _ => simp [Spec.apply] at h
    | list _ => simp [Spec.apply] at h
  | isFloat =>
    simp only [unaryVal]
    cases sa with
    | text t =>
      simp only [Spec.apply, Option.some.injEq] at h; subst h
      rcases hrel.text_inv with rfl | rfl <;> simp [Rel, isFloatV]
    | float f =>
      simp only [Spec.apply, Option.some.injEq] at h; subst h
      have := hrel.float_inv; subst this
      simp [Rel, isFloatV]
    | int _ => simp [Spec.apply] at h
    | bool _ => simp [Spec.apply] at h
    | list _ => simp [Spec.apply] at h

section calls
variable {kv : Pair} {c : Ctx}

theorem brefines_unary {fn : Fn} (hfn : fn ≠ .substr) {a : Expr} {rest : List Expr} {va : Value} {sa s : SVal}
    (ha : execBatch a [kv] c = (.ok [va], c)) (hrel : va ≈ sa) (h : Spec.apply fn [sa] = some s) :
    ∃ v, vecBody (bodyOf fn) (a :: rest) [kv] c = (.ok [v], c) ∧ v ≈ s := by
  refine ⟨unaryVal fn va, ?_, unaryVal_rel hfn hrel h⟩
  cases fn <;> first
    | exact absurd rfl hfn
    | (rw [bodyOf, vecBody]; simp [M.bind_ok ha, mapRowsFresh_one, unaryVal])

theorem brefines_substr {a0 a1 a2 : Expr} {rest : List Expr} {v0 v1 v2 : Value} {s0 s1 s2 s : SVal}
    (hk1 : kindOf a1 = some .num) (hk2 : kindOf a2 = some .num)
    (h0 : execBatch a0 [kv] c = (.ok [v0], c)) (h1 : execBatch a1 [kv] c = (.ok [v1], c))
    (h2 : execBatch a2 [kv] c = (.ok [v2], c))
    (r0 : v0 ≈ s0) (r1 : v1 ≈ s1) (r2 : v2 ≈ s2) (h : Spec.apply .substr [s0, s1, s2] = some s) :
    ∃ v, vecBody .subStr (a0 :: a1 :: a2 :: rest) [kv] c = (.ok [v], c) ∧ v ≈ s := by
  have t1 := retType_of_kind a1 .num hk1
  have t2 := retType_of_kind a2 .num hk2
  cases s0 <;> cases s1 <;> cases s2 <;> simp [Spec.apply] at h
  rename_i t st en; subst h
  rw [vecBody]
  have e1 : toIntV v1 0 = st := by rcases r1.int_inv with rfl | rfl <;> rfl
  have e2 : toIntV v2 0 = en := by rcases r2.int_inv with rfl | rfl <;> rfl
  refine ⟨.str (subString (toStringV v0) (toIntV v1 0) (toIntV v2 0)), ?_, ?_⟩
  · simp [M.bind_ok h0, M.bind_ok h1, M.bind_ok h2, t1, t2, Kind.code, zip3Rows, substrRow, substrKernel]
    rfl
  · simp [Rel, e1, e2, toStringV_text r0, substr_eq]

end calls

/-! ### the alias reference with the cache off -/

theorem execBatch_ref_off' {p : Nat} {n : Bytes} {t : Expr} {kv : Pair} {c : Ctx}
    (hc : c.enable = false) {r : Except Err (List Value)} (ht : execBatch t [kv] c = (r, c)) :
    execBatch (.ref p n t) [kv] c = (r, c) := by
  rw [execBatch]
  simp only [List.isEmpty_cons, Bool.and_false, Bool.false_eq_true, ↓reduceIte, Ctx.getChunkFieldResult_off hc,
    ite_self, ht]
  cases r <;> simp [Ctx.setChunkFieldResult_off hc]

/-! ### the induction -/

mutual
  theorem brefines : ∀ (e : Expr) (k : Kind), kindOf e = some k → core e = true → BRefines e
    | .str _ d, _, _, _ => by
      intro kv c _ s hs
      rw [Spec.eval] at hs; cases hs
      exact ⟨.bytes d, by rw [execBatch]; rfl, rfl⟩
    | .field _ kw, _, _, _ => by
      intro kv c _ s hs
      cases kw <;> (rw [Spec.eval] at hs; cases hs)
      · exact ⟨.bytes kv.key, by rw [execBatch]; rfl, rfl⟩
      · exact ⟨.bytes kv.value, by rw [execBatch]; rfl, rfl⟩
    | .num _ _ v, _, _, _ => by
      intro kv c _ s hs
      rw [Spec.eval] at hs; cases hs
      exact ⟨.int v, by rw [execBatch]; rfl, rfl⟩
    | .float _ _ v, _, _, _ => by
      intro kv c _ s hs
      rw [Spec.eval] at hs; cases hs
      exact ⟨.float v, by rw [execBatch]; rfl, rfl⟩
    | .bool _ _ v, _, _, _ => by
      intro kv c _ s hs
      rw [Spec.eval] at hs; cases hs
      exact ⟨.bool v, by rw [execBatch]; rfl, rfl⟩
    | .name .., _, hk, _ => by simp [kindOf] at hk
    | .cycle, _, hk, _ => by simp [kindOf] at hk
    | .list .., _, hk, _ => by simp [kindOf] at hk
    | .access .., _, hk, _ => by simp [kindOf] at hk
    | .ref p name t, k, hk, hcore => by
      intro kv c hc s hs
      rw [Spec.eval] at hs
      have hk' : kindOf t = some k := by simpa only [kindOf] using hk
      have hc' : core t = true := by simpa only [core] using hcore
      obtain ⟨v, hv, hr⟩ := brefines t k hk' hc' kv c hc s hs
      exact ⟨v, execBatch_ref_off' hc hv, hr⟩
    | .not p r, k, hk, hcore => by
      intro kv c hc s hs
      obtain ⟨b, hb, rfl⟩ := eval_not hs
      have hk' : kindOf r = some .bool := by
        simp only [kindOf] at hk
        split at hk
        · rename_i hh; exact beqk hh
        · cases hk
      have hc' : core r = true := by simpa only [core] using hcore
      obtain ⟨v, hv, hr⟩ := brefines r .bool hk' hc' kv c hc _ hb
      have := hr.bool_inv; subst this
      exact ⟨.bool !b, by rw [execBatch]; simp [M.bind_ok hv, mapRows_one, boolV, asBool, Except.map], rfl⟩
    | .call p nm args, k, hk, hcore => by
      intro kv c hc s hs
      obtain ⟨fname, fo, b, hn, hf, h1, h2, hb, hargs, _⟩ := kindOf_call hk
      simp only [core, Bool.and_eq_true] at hcore
      cases nm with
      | name q f =>
        obtain ⟨fn, ss, hfn, hss, happ⟩ := eval_call hs
        obtain ⟨fo', hf', hb', hvt⟩ := ofName_lookup_vec hfn
        have hfname : fname = toLower f := by
          simp only [funcNameOf, Except.ok.injEq] at hn; exact hn.symm
        subst hfname
        rw [hf] at hf'; cases hf'
        rw [hb] at hb'; cases hb'
        rw [execBatch_call_eq' hn hf h1 h2 hb hvt]
        have hall := brefinesAll args hcore.2 (argsOk_kinds hargs) kv c hc ss hss
        by_cases hsub : fn = .substr
        · subst hsub
          match args, hargs, hall with
          | [a0, a1, a2], hargs', hall' =>
            simp only [bodyOf, argsOk, Bool.and_eq_true] at hargs'
            obtain ⟨s0, s1, s2, rfl, ⟨v0, x0, y0⟩, ⟨v1, x1, y1⟩, ⟨v2, x2, y2⟩⟩ := hall'.three
            exact brefines_substr (beqk hargs'.1.2) (beqk hargs'.2) x0 x1 x2 y0 y1 y2 happ
          | [], hargs, _ => simp [bodyOf, argsOk] at hargs
          | [_], hargs, _ => simp [bodyOf, argsOk] at hargs
          | [_, _], hargs, _ => simp [bodyOf, argsOk] at hargs
          | _ :: _ :: _ :: _ :: _, hargs, _ => simp [bodyOf, argsOk] at hargs
        · obtain ⟨x, rfl⟩ := apply_unary hsub happ
          match args, hall with
          | [a], hall' =>
            obtain ⟨s0, hx, ⟨v0, x0, y0⟩⟩ := hall'.one
            cases hx
            exact brefines_unary hsub x0 y0 happ
          | [], hall' => cases hall'
          | _ :: _ :: _, hall' =>
            cases hall' with
            | cons _ t => cases t
      | _ => simp [coreName] at hcore
    | .binop p op l r, k, hk, hcore => by
      intro kv c hc s hs
      obtain ⟨sa, sb, hsa, hsb, hop⟩ := eval_binop hs
      have hcl := (core_binop hcore).1
      have hcr := (core_binop hcore).2
      cases op with
      | not => simp [kindOf] at hk
      | and =>
        obtain ⟨kl, kr⟩ := kind_logic (.inl rfl) hk
        obtain ⟨va, hva, ra⟩ := brefines l _ kl hcl kv c hc sa hsa
        obtain ⟨vb, hvb, rb⟩ := brefines r _ kr hcr kv c hc sb hsb
        exact brefines_logic (.inl rfl) hva hvb ra rb hop
      | kwAnd =>
        obtain ⟨kl, kr⟩ := kind_logic (.inr (.inl rfl)) hk
        obtain ⟨va, hva, ra⟩ := brefines l _ kl hcl kv c hc sa hsa
        obtain ⟨vb, hvb, rb⟩ := brefines r _ kr hcr kv c hc sb hsb
        exact brefines_logic (.inr (.inl rfl)) hva hvb ra rb hop
      | or =>
        obtain ⟨kl, kr⟩ := kind_logic (.inr (.inr (.inl rfl))) hk
        obtain ⟨va, hva, ra⟩ := brefines l _ kl hcl kv c hc sa hsa
        obtain ⟨vb, hvb, rb⟩ := brefines r _ kr hcr kv c hc sb hsb
        exact brefines_logic (.inr (.inr (.inl rfl))) hva hvb ra rb hop
      | kwOr =>
        obtain ⟨kl, kr⟩ := kind_logic (.inr (.inr (.inr rfl))) hk
        obtain ⟨va, hva, ra⟩ := brefines l _ kl hcl kv c hc sa hsa
        obtain ⟨vb, hvb, rb⟩ := brefines r _ kr hcr kv c hc sb hsb
        exact brefines_logic (.inr (.inr (.inr rfl))) hva hvb ra rb hop
      | eq =>
        obtain ⟨e, hsome⟩ := kind_eq (.inl rfl) hk
        obtain ⟨kk, hkk⟩ := Option.isSome_iff_exists.mp hsome
        obtain ⟨va, hva, ra⟩ := brefines l kk hkk hcl kv c hc sa hsa
        obtain ⟨vb, hvb, rb⟩ := brefines r kk (by rw [e]; exact hkk) hcr kv c hc sb hsb
        exact brefines_eq (.inl rfl) hva hvb ra rb hop
      | neq =>
        obtain ⟨e, hsome⟩ := kind_eq (.inr rfl) hk
        obtain ⟨kk, hkk⟩ := Option.isSome_iff_exists.mp hsome
        obtain ⟨va, hva, ra⟩ := brefines l kk hkk hcl kv c hc sa hsa
        obtain ⟨vb, hvb, rb⟩ := brefines r kk (by rw [e]; exact hkk) hcr kv c hc sb hsb
        exact brefines_eq (.inr rfl) hva hvb ra rb hop
      | gt =>
        obtain ⟨kk, hkk, kl, kr⟩ := kind_cmp (.inl rfl) hk
        obtain ⟨va, hva, ra, ka⟩ := (brefines l kk kl hcl).kinded kl hc hsa
        obtain ⟨vb, hvb, rb⟩ := brefines r kk kr hcr kv c hc sb hsb
        exact brefines_compare (.inl rfl) hkk kl hva hvb ra rb ka hop
      | gte =>
        obtain ⟨kk, hkk, kl, kr⟩ := kind_cmp (.inr (.inl rfl)) hk
        obtain ⟨va, hva, ra, ka⟩ := (brefines l kk kl hcl).kinded kl hc hsa
        obtain ⟨vb, hvb, rb⟩ := brefines r kk kr hcr kv c hc sb hsb
        exact brefines_compare (.inr (.inl rfl)) hkk kl hva hvb ra rb ka hop
      | lt =>
        obtain ⟨kk, hkk, kl, kr⟩ := kind_cmp (.inr (.inr (.inl rfl))) hk
        obtain ⟨va, hva, ra, ka⟩ := (brefines l kk kl hcl).kinded kl hc hsa
        obtain ⟨vb, hvb, rb⟩ := brefines r kk kr hcr kv c hc sb hsb
        exact brefines_compare (.inr (.inr (.inl rfl))) hkk kl hva hvb ra rb ka hop
      | lte =>
        obtain ⟨kk, hkk, kl, kr⟩ := kind_cmp (.inr (.inr (.inr rfl))) hk
        obtain ⟨va, hva, ra, ka⟩ := (brefines l kk kl hcl).kinded kl hc hsa
        obtain ⟨vb, hvb, rb⟩ := brefines r kk kr hcr kv c hc sb hsb
        exact brefines_compare (.inr (.inr (.inr rfl))) hkk kl hva hvb ra rb ka hop
      | prefixMatch =>
        obtain ⟨kl, kr⟩ := kind_match (.inl rfl) hk
        obtain ⟨va, hva, ra⟩ := brefines l _ kl hcl kv c hc sa hsa
        obtain ⟨vb, hvb, rb⟩ := brefines r _ kr hcr kv c hc sb hsb
        exact brefines_match (.inl rfl) hva hvb ra rb hop
      | regexMatch =>
        obtain ⟨kl, kr⟩ := kind_match (.inr rfl) hk
        obtain ⟨va, hva, ra⟩ := brefines l _ kl hcl kv c hc sa hsa
        obtain ⟨vb, hvb, rb⟩ := brefines r _ kr hcr kv c hc sb hsb
        exact brefines_match (.inr rfl) hva hvb ra rb hop
      | add =>
        rcases kind_add hk with ⟨kl, kr⟩ | ⟨kl, kr⟩
        · obtain ⟨va, hva, ra, ka⟩ := (brefines l _ kl hcl).kinded kl hc hsa
          obtain ⟨vb, hvb, rb, kb⟩ := (brefines r _ kr hcr).kinded kr hc hsb
          exact brefines_concat kl hva hvb ra rb ka kb hop
        · obtain ⟨va, hva, ra, ka⟩ := (brefines l _ kl hcl).kinded kl hc hsa
          obtain ⟨vb, hvb, rb⟩ := brefines r _ kr hcr kv c hc sb hsb
          exact brefines_arith (mop := .add) rfl kl hva hvb ra rb ka hop
      | sub =>
        obtain ⟨kl, kr⟩ := kind_arith (.inl rfl) hk
        obtain ⟨va, hva, ra, ka⟩ := (brefines l _ kl hcl).kinded kl hc hsa
        obtain ⟨vb, hvb, rb⟩ := brefines r _ kr hcr kv c hc sb hsb
        exact brefines_arith (mop := .sub) rfl kl hva hvb ra rb ka hop
      | mul =>
        obtain ⟨kl, kr⟩ := kind_arith (.inr (.inl rfl)) hk
        obtain ⟨va, hva, ra, ka⟩ := (brefines l _ kl hcl).kinded kl hc hsa
        obtain ⟨vb, hvb, rb⟩ := brefines r _ kr hcr kv c hc sb hsb
        exact brefines_arith (mop := .mul) rfl kl hva hvb ra rb ka hop
      | div =>
        obtain ⟨kl, kr⟩ := kind_arith (.inr (.inr rfl)) hk
        obtain ⟨va, hva, ra, ka⟩ := (brefines l _ kl hcl).kinded kl hc hsa
        obtain ⟨vb, hvb, rb⟩ := brefines r _ kr hcr kv c hc sb hsb
        exact brefines_arith (mop := .div) rfl kl hva hvb ra rb ka hop
      | in_ =>
        have hlist : isListNode r = true := by
          simp only [core, Bool.and_eq_true] at hcore; exact hcore.2
        have hnode := brefinesNode r hcr
        obtain ⟨q, items, rfl⟩ := isListNode_inv hlist
        obtain ⟨kk, hkk, kl, hall⟩ := kind_in hk
        obtain ⟨ss, hss, rfl⟩ := eval_list hsb
        simp only [Spec.binop] at hop
        cases hm : Spec.member sa ss with
        | none => simp [hm] at hop
        | some x =>
          simp only [hm, Option.map_some, Option.some.injEq] at hop; subst hop
          obtain ⟨va, hva, ra, ka⟩ := (brefines l kk kl hcl).kinded kl hc hsa
          have hitems := hnode q items rfl (allKind_mem hall) kv c hc ss hss
          have hflag := hk_of kl hkk
          obtain ⟨cols, hcols, hin⟩ := binItems_spec hflag ra ka items ss hall hitems x hm
          refine ⟨.bool x, ?_, rfl⟩
          rw [execBatch]
          simp [M.bind_ok hva, M.bind_ok hcols, inRows_one, hin, Except.map]
      | between =>
        have hlist : isListNode r = true := by
          simp only [core, Bool.and_eq_true] at hcore; exact hcore.2
        have hnode := brefinesNode r hcr
        obtain ⟨q, items, rfl⟩ := isListNode_inv hlist
        obtain ⟨kk, lo, hi, rfl, hkk, kl, klo, khi⟩ := kind_between hk
        obtain ⟨ss, hss, rfl⟩ := eval_list hsb
        have hitems := hnode q [lo, hi] rfl (by
          intro e he
          simp only [List.mem_cons, List.not_mem_nil, or_false] at he
          rcases he with rfl | rfl
          · rw [klo]; rfl
          · rw [khi]; rfl) kv c hc ss hss
        obtain ⟨va, hva, ra, ka⟩ := (brefines l kk kl hcl).kinded kl hc hsa
        obtain ⟨slo, shi, rfl, ⟨vlo, hvlo, rlo⟩, ⟨vhi, hvhi, rhi⟩⟩ := hitems.two
        have klo' : vlo.hasKind kk = true := (batch_ok_kinds klo hc hvlo).2.2 vlo (by simp)
        simp only [Spec.binop] at hop
        cases hm : Spec.between sa slo shi with
        | none => simp [hm] at hop
        | some x =>
          simp only [hm, Option.map_some, Option.some.injEq] at hop; subst hop
          have hflag := hk_of kl hkk
          have tlo := retType_of_kind lo kk klo
          have thi := retType_of_kind hi kk khi
          have hbk : betweenRow (!(retType l == tyTSTR)) (some va) vlo vhi = .ok (.bool x) :=
            betweenKernel_spec hflag ra rlo rhi ka klo' hm
          refine ⟨.bool x, ?_, rfl⟩
          rw [execBatch]
          rcases hkk with rfl | rfl
          · have hs := (number_flag kl).1 rfl
            simp [hs, tlo, thi, Kind.code, M.bind_ok hva, M.bind_ok hvlo, M.bind_ok hvhi, betweenRows] at hbk ⊢
            simp [hbk]
            rfl
          · have hs := (number_flag kl).2 rfl
            simp [hs, tlo, thi, Kind.code, M.bind_ok hva, M.bind_ok hvlo, M.bind_ok hvhi, betweenRows] at hbk ⊢
            simp [hbk]
            rfl
  termination_by e => sizeOf e
  decreasing_by all_goals (simp_wf; try omega)

  /-- a list node: its items, position by position -/
  theorem brefinesNode : ∀ (r : Expr), core r = true → ∀ (q : Nat) (items : List Expr), r = .list q items →
      (∀ e ∈ items, (kindOf e).isSome = true) → BRefinesAll items
    | .list _ items', hcore, _, _, heq, hk => by
      cases heq
      exact brefinesAll items' (by simpa only [core] using hcore) hk
    | .binop .., _, _, _, heq, _ => by cases heq
    | .field .., _, _, _, heq, _ => by cases heq
    | .str .., _, _, _, heq, _ => by cases heq
    | .not .., _, _, _, heq, _ => by cases heq
    | .call .., _, _, _, heq, _ => by cases heq
    | .name .., _, _, _, heq, _ => by cases heq
    | .ref .., _, _, _, heq, _ => by cases heq
    | .cycle, _, _, _, heq, _ => by cases heq
    | .num .., _, _, _, heq, _ => by cases heq
    | .float .., _, _, _, heq, _ => by cases heq
    | .bool .., _, _, _, heq, _ => by cases heq
    | .access .., _, _, _, heq, _ => by cases heq
  termination_by r => sizeOf r
  decreasing_by all_goals (simp_wf; try omega)

  theorem brefinesAll : ∀ (es : List Expr), coreList es = true → (∀ e ∈ es, (kindOf e).isSome = true) → BRefinesAll es
    | [], _, _ => by
      intro kv c _ ss hss
      simp only [Spec.evalList, Option.some.injEq] at hss; subst hss
      exact .nil
    | e :: es, hcore, hkinds => by
      intro kv c hc ss hss
      obtain ⟨s, rest, he, hrest, rfl⟩ := evalList_cons hss
      simp only [coreList, Bool.and_eq_true] at hcore
      obtain ⟨k, hk⟩ := Option.isSome_iff_exists.mp (hkinds e (List.mem_cons_self ..))
      exact .cons (brefines e k hk hcore.1 kv c hc s he)
        (brefinesAll es hcore.2 (fun x hx => hkinds x (List.mem_cons_of_mem _ hx)) kv c hc rest hrest)
  termination_by es => sizeOf es
  decreasing_by all_goals (simp_wf; try omega)
end

/-- **the batch analogue of C01 (1)**: on the core language, wherever the reference evaluator gives a
    value on a pair, the engine's vector evaluator (cache off) succeeds on the chunk made of that pair,
    with a related value, and leaves the context untouched -/
theorem batch_refines_spec (e : Expr) (h : CoreLang e) (kv : Pair) {s : SVal} (hs : Spec.eval e kv = some s) :
    ∃ v, execBatch e [kv] Ctx.off = (.ok [v], Ctx.off) ∧ v ≈ s := by
  obtain ⟨k, hk⟩ := Option.isSome_iff_exists.mp h.2
  exact brefines e k hk h.1 kv Ctx.off rfl s hs

/-- for a condition: the reference says `b` ⇒ the vector evaluator says `b` -/
theorem batch_refines_spec_bool (e : Expr) (h : CoreLang e) (kv : Pair) {b : Bool}
    (hs : Spec.eval e kv = some (.bool b)) : execBatch e [kv] Ctx.off = (.ok [.bool b], Ctx.off) := by
  obtain ⟨v, hv, hr⟩ := batch_refines_spec e h kv hs
  rw [hr.bool_inv] at hv; exact hv

/-- … and the static side condition of C03 `vec_eq_map` holds on the core language -/
theorem vecOk_of_coreLang {e : Expr} (h : CoreLang e) : e.vecOk = true := by
  obtain ⟨k, hk⟩ := Option.isSome_iff_exists.mp h.2
  exact vecOk_of_kind e k hk

end Kvql.Refine
