/-
  The rewriting steps of expression_optimizer.go against the BATCH evaluator:
  * `foldBinaryB_ok`, `foldCallB_ok` — a node whose operands / arguments are literals, replaced by the
    literal of its ROW value on the empty pair (`constExec`), has that value (texts by content) on every
    one-pair chunk on which `ExecuteBatch` succeeds: C03 `vec_eq_map` carries a batch success over to the
    row evaluator (a node over literals is `vecOk`), C04 `foldBinary_ok` / `foldCall_ok` does the rest;
  * `assocB_ok` — `(x op c1) op c2 => x op (c1 op c2)` under `canReassociate`: byte-string concatenation
    (the batch `+` on text yields `[]byte` of both operands' bytes) and wrapping Int64 `+` / `*`
    (`isIntB`: an `isIntegerExpr` has integer batch values);
  * `andOrB_ok` — `tryOptimizeAndOr`: the batch `&` / `|` evaluate both operands, so dropping one is a
    refinement exactly as in row mode.
-/
import Kvql.Proofs.FoldVecCongr

namespace Kvql
open Generated
namespace Fold

/-! ### literals -/

theorem sb_lit {e : Expr} (h : isLit4 e = true) (kv : Pair) (c : Ctx) : SB e kv c (litVal e) := by
  cases e <;> simp [isLit4] at h <;> (unfold SB Single; rw [execBatch]; rfl)

theorem sb_lit_iff {e : Expr} (h : isLit4 e = true) (kv : Pair) (c : Ctx) (w : Value) : SB e kv c w ↔ w = litVal e :=
  ⟨fun hw => SB.unique hw (sb_lit h kv c), fun hw => hw ▸ sb_lit h kv c⟩

theorem vecOk_lit {e : Expr} (h : isLit4 e = true) : e.vecOk = true := by
  cases e <;> simp [isLit4] at h <;> simp [Expr.vecOk]

theorem vecOkList_lit : ∀ {args : List Expr}, args.all isLit4 = true → Expr.vecOkList args = true
  | [], _ => rfl
  | a :: rest, h => by
    simp only [List.all_cons, Bool.and_eq_true] at h
    simp [Expr.vecOkList, vecOk_lit h.1, vecOkList_lit h.2]

theorem litVal_not_str {k : Expr} (h : isLit4 k = true) (s : Bytes) : litVal k ≠ .str s := by
  cases k <;> simp [isLit4] at h <;> simp [litVal]

theorem unpack_litVal {k : Expr} (h : isLit4 k = true) : unpackArray (litVal k) = none := by
  cases k <;> simp [isLit4] at h <;> rfl

/-- two values that refine the same value, the first of them not a Go string -/
theorem rel_of_common {a b x : Value} (ha : ∀ s, a ≠ .str s) (h1 : Rel a x) (h2 : Rel b x) : Rel a b := by
  rcases h1 with rfl | ⟨s, rfl, rfl⟩
  · rcases h2 with rfl | ⟨s, rfl, rfl⟩
    · exact .refl _
    · exact absurd rfl (ha s)
  · rcases h2 with rfl | ⟨s', rfl, hs⟩
    · exact .inr ⟨s, rfl, rfl⟩
    · cases hs; exact .refl _

/-- a batch success on a `vecOk` expression is a row success with a related value (C03 `vec_eq_map`) -/
theorem sb_row {e : Expr} (hok : e.vecOk = true) {kv : Pair} {c : Ctx} (hc : c.enable = false) {v : Value}
    (h : SB e kv c v) : ∃ vr, ev e kv c = .ok vr ∧ Rel v vr := by
  obtain ⟨_, R⟩ := vec_eq_map_core e hok [kv] c hc [v] c h
  obtain ⟨w, hw, vr, hvr, rel⟩ := R.singleton_inv
  cases hw
  exact ⟨vr, by simp [ev, run, hvr], rel⟩

/-- a node that C04 replaces by the literal `k`: the batch evaluator agrees -/
theorem lit_step {n k : Expr} (hok : n.vecOk = true) (hk : isLit4 k = true) (hrow : FoldRel n k) :
    SemB n k ∧ NoUnpack n := by
  have key : ∀ kv c, c.enable = false → ∀ v, SB n kv c v → Rel (litVal k) v := by
    intro kv c hc v hv
    obtain ⟨vr, hvr, rel⟩ := sb_row hok hc hv
    obtain ⟨v', hv', r'⟩ := hrow.sem kv c hc vr hvr
    rw [ev_lit hk] at hv'
    cases hv'
    exact rel_of_common (litVal_not_str hk) r' rel
  refine ⟨fun kv c hc v hv => ⟨litVal k, sb_lit hk kv c, key kv c hc v hv⟩, fun kv c hc v hv => ?_⟩
  rw [← (key kv c hc v hv).unpackArray_congr]
  exact unpack_litVal hk

theorem vecOk_binop_lit (p : Nat) (op : Op) {l r : Expr} (hl : isLit4 l = true) (hr : isLit4 r = true) :
    (Expr.binop p op l r).vecOk = true := by
  simp only [Expr.vecOk, vecOk_lit hl, vecOk_lit hr, Bool.true_and]
  cases op <;> try rfl
  cases r <;> simp [isLit4] at hr <;> rfl

theorem foldBinaryB_ok {p : Nat} {op : Op} {l r k : Expr} (hl : isLit4 l = true) (hr : isLit4 r = true)
    (h : foldBinary (.binop p op l r) = .ok (some k)) : FoldRelB (.binop p op l r) k := by
  obtain ⟨hrow, hk⟩ := foldBinary_ok hl hr h
  have hok := vecOk_binop_lit p op hl hr
  exact ⟨hrow, (lit_step hok hk hrow).1, fun hcr => by simp [isCallRefNode] at hcr⟩

theorem foldCallB_ok {p : Nat} {nm : Expr} {args : List Expr} {k : Expr} (hl : args.all isLit4 = true)
    (h : foldCall (.call p nm args) = .ok (some k)) : FoldRelB (.call p nm args) k := by
  obtain ⟨hrow, hk⟩ := foldCall_ok hl h
  have hok : (Expr.call p nm args).vecOk = true := by simp [Expr.vecOk, vecOkList_lit hl]
  obtain ⟨h1, h2⟩ := lit_step hok hk hrow
  exact ⟨hrow, h1, fun _ => .inr h2⟩

/-! ### isIntegerExpr: integer batch values -/

theorem twin_int :
    (lookupFunc (asciiBytes "int")).map (·.vecIsTwin) = some true ∧
    (lookupFunc (asciiBytes "strlen")).map (·.vecIsTwin) = some true ∧
    (lookupFunc (asciiBytes "len")).map (·.vecIsTwin) = some true := by decide

theorem isIntB : ∀ (e : Expr), isIntegerExpr e = true → ∀ (kv : Pair) (c : Ctx), c.enable = false →
    ∀ v, SB e kv c v → IsInt v
  | .num p d i, _, kv, c, _, v, hv => by
    have := (sb_lit_iff (e := .num p d i) rfl kv c v).mp hv
    subst this
    exact ⟨i, rfl⟩
  | .binop p op l r, h, kv, c, hc, v, hv => by
    simp only [isIntegerExpr, Bool.and_eq_true, Bool.or_eq_true, beq_iff_eq] at h
    have hlt := isInt_ty l h.1.2
    have hk : isKernelOp op = true := by rcases h.1.1 with ((h1 | h1) | h1) | h1 <;> subst h1 <;> rfl
    obtain ⟨a, b, sa, sb, hkv⟩ := (sb_binop hk p l r kv hc v).mp hv
    obtain ⟨ia, ha⟩ := isIntB l h.1.2 kv c hc a sa
    obtain ⟨ib, hb⟩ := isIntB r h.2 kv c hc b sb
    have hne : (retType l == tyTSTR) = false := by rw [hlt]; decide
    rw [hne] at hkv
    have : ∃ mop, kernelB op false a b = intMath mop ia ib := by
      rcases h.1.1 with ((h1 | h1) | h1) | h1 <;> subst h1 <;>
        exact ⟨_, by simp only [kernelB, Bool.false_eq_true, if_false]; exact executeMathOp_int ha hb _⟩
    obtain ⟨mop, hm⟩ := this
    rw [hm] at hkv
    obtain ⟨i, rfl⟩ := intMath_kind hkv
    exact ⟨i, rfl⟩
  | .call p nm args, h, kv, c, hc, v, hv => by
    simp only [isIntegerExpr] at h
    obtain ⟨q, d, rfl, hd⟩ := intName_cases h
    obtain ⟨fo, b, hlk, hb, hn, hva, _, hbody⟩ := intName_lookup hd
    have htw : fo.vecIsTwin = true := by
      have := twin_int
      rcases hd with hd | hd | hd <;> rw [hd] at hlk <;> simp [hlk] at this <;> simp [this]
    have hcf : callForm (.name q d) args.length = if args.length = 1 then some (b, true) else none := by
      simp only [callForm, funcNameOf, hlk, hb, hn, hva, htw]
      by_cases h1 : args.length = 1 <;> simp [h1]
    match args, hcf, hv with
    | [], hcf, hv => exact absurd hv (execBatch_call_none (by rw [hcf]; rfl) _ _ _ _)
    | _ :: _ :: _, hcf, hv => exact absurd hv (execBatch_call_none (by rw [hcf]; simp) _ _ _ _)
    | [a], hcf, hv =>
      unfold SB Single at hv
      rw [execBatch_call_some (b := b) (twin := true) (by rw [hcf]; rfl)] at hv
      simp only [if_true] at hv
      rcases hbody with rfl | rfl | rfl
      · obtain ⟨x, _, rfl⟩ := (sb_unary (f := fun v => .int (toIntV v 0)) rfl a [] kv hc v).mp hv
        exact ⟨_, rfl⟩
      · obtain ⟨x, _, rfl⟩ := (sb_unary (f := fun v => .int (Int64.ofNat (toStringV v).length)) rfl a [] kv hc v).mp hv
        exact ⟨_, rfl⟩
      · have e1 := Single.un (X := execBatch a) (Z := vecBody .len [a]) (kv := kv) (c := c)
          (K := fun v => (getListLength v).map Value.goInt) (by rw [vecBody]; rfl) (fun x => mapRows_one' _ x) (pw_core a) hc
        obtain ⟨x, _, hk⟩ := (e1 v).mp hv
        cases hg : getListLength x with
        | error e => rw [hg] at hk; cases hk
        | ok n => rw [hg] at hk; cases hk; exact ⟨_, rfl⟩
  | .field .., h, _, _, _, _, _ | .str .., h, _, _, _, _, _ | .not .., h, _, _, _, _, _ | .name .., h, _, _, _, _, _
  | .ref .., h, _, _, _, _, _ | .cycle, h, _, _, _, _, _ | .float .., h, _, _, _, _, _ | .bool .., h, _, _, _, _, _
  | .list .., h, _, _, _, _, _ | .access .., h, _, _, _, _, _ => by simp [isIntegerExpr] at h

/-! ### tryReorderBinaryOp -/

theorem concatK_ok {a b v : Value} (h : concatK a b = .ok v) :
    ∃ x y, convertToByteArray a = some x ∧ convertToByteArray b = some y ∧ v = .bytes (x ++ y) := by
  unfold concatK at h
  cases ha : convertToByteArray a with
  | none => simp [ha] at h
  | some x =>
    cases hb : convertToByteArray b with
    | none => simp [ha, hb] at h
    | some y => simp [ha, hb] at h; exact ⟨x, y, rfl, rfl, h.symm⟩

theorem assocB_text (p q : Nat) {x c1 : Expr} (c2 : Expr) (hx : retType x = tyTSTR) (h1 : retType c1 = tyTSTR) :
    SemB (.binop p .add (.binop q .add x c1) c2) (.binop p .add x (.binop p .add c1 c2)) := by
  intro kv c hc v hv
  have hq : retType (.binop q .add x c1) = tyTSTR := by simp [retType, hx]
  obtain ⟨ab, d, sab, sd, hk⟩ := (sb_binop (op := .add) rfl p _ c2 kv hc v).mp hv
  obtain ⟨a, b, sa, sb, hk'⟩ := (sb_binop (op := .add) rfl q x c1 kv hc ab).mp sab
  simp only [kernelB, hq, hx, beq_self_eq_true, if_true] at hk hk'
  obtain ⟨xa, xb, ha, hb, rfl⟩ := concatK_ok hk'
  obtain ⟨xab, xd, hab, hd, rfl⟩ := concatK_ok hk
  simp only [convertToByteArray, Option.some.injEq] at hab
  subst hab
  refine ⟨.bytes (xa ++ (xb ++ xd)), ?_, by rw [List.append_assoc]; exact .refl _⟩
  refine (sb_binop (op := .add) rfl p x _ kv hc _).mpr ⟨a, .bytes (xb ++ xd), sa, ?_, ?_⟩
  · refine (sb_binop (op := .add) rfl p c1 c2 kv hc _).mpr ⟨b, d, sb, sd, ?_⟩
    simp [kernelB, h1, concatK, hb, hd]
  · rw [hx]
    simp only [kernelB, beq_self_eq_true, if_true]
    unfold concatK
    rw [ha]
    rfl

theorem assocB_int (p q : Nat) {op : Op} (hop : op = .add ∨ op = .mul) {x c1 c2 : Expr}
    (hx : isIntegerExpr x = true) (h1 : isIntegerExpr c1 = true) (h2 : isIntegerExpr c2 = true) :
    SemB (.binop p op (.binop q op x c1) c2) (.binop p op x (.binop p op c1 c2)) := by
  intro kv c hc v hv
  have hk : isKernelOp op = true := by rcases hop with rfl | rfl <;> rfl
  have tx : (retType x == tyTSTR) = false := by rw [isInt_ty x hx]; decide
  have t1 : (retType c1 == tyTSTR) = false := by rw [isInt_ty c1 h1]; decide
  have tq : (retType (.binop q op x c1) == tyTSTR) = false := by
    have : isIntegerExpr (.binop q op x c1) = true := by
      rcases hop with rfl | rfl <;> simp [isIntegerExpr, hx, h1]
    rw [isInt_ty _ this]; decide
  obtain ⟨ab, d, sab, sd, hkv⟩ := (sb_binop hk p _ c2 kv hc v).mp hv
  obtain ⟨a, b, sa, sb, hkv'⟩ := (sb_binop hk q x c1 kv hc ab).mp sab
  obtain ⟨ia, ha⟩ := isIntB x hx kv c hc a sa
  obtain ⟨ib, hb⟩ := isIntB c1 h1 kv c hc b sb
  obtain ⟨id, hd⟩ := isIntB c2 h2 kv c hc d sd
  rw [tq] at hkv
  rw [tx] at hkv'
  rcases hop with rfl | rfl
  · simp only [kernelB, Bool.false_eq_true, if_false, executeMathOp_int ha hb, intMath] at hkv'
    cases hkv'
    simp only [kernelB, Bool.false_eq_true, if_false,
      executeMathOp_int (show convertToInt (.int (ia + ib)) = some (ia + ib) from rfl) hd, intMath] at hkv
    cases hkv
    refine ⟨.int (ia + (ib + id)), ?_, by rw [Int64.add_assoc]; exact .refl _⟩
    refine (sb_binop hk p x _ kv hc _).mpr ⟨a, .int (ib + id), sa, ?_, ?_⟩
    · refine (sb_binop hk p c1 c2 kv hc _).mpr ⟨b, d, sb, sd, ?_⟩
      simp only [t1, kernelB, Bool.false_eq_true, if_false, executeMathOp_int hb hd, intMath]
    · simp only [tx, kernelB, Bool.false_eq_true, if_false,
        executeMathOp_int ha (show convertToInt (.int (ib + id)) = some (ib + id) from rfl), intMath]
  · simp only [kernelB, executeMathOp_int ha hb, intMath] at hkv'
    cases hkv'
    simp only [kernelB, executeMathOp_int (show convertToInt (.int (ia * ib)) = some (ia * ib) from rfl) hd, intMath] at hkv
    cases hkv
    refine ⟨.int (ia * (ib * id)), ?_, by rw [Int64.mul_assoc]; exact .refl _⟩
    refine (sb_binop hk p x _ kv hc _).mpr ⟨a, .int (ib * id), sa, ?_, ?_⟩
    · refine (sb_binop hk p c1 c2 kv hc _).mpr ⟨b, d, sb, sd, ?_⟩
      simp only [kernelB, executeMathOp_int hb hd, intMath]
    · simp only [kernelB, executeMathOp_int ha (show convertToInt (.int (ib * id)) = some (ib * id) from rfl), intMath]

theorem assocB_ok (p q : Nat) {op : Op} (hop : op = .add ∨ op = .mul) {x c1 c2 : Expr}
    (h : canReassociate op x c1 c2 = true) :
    FoldRelB (.binop p op (.binop q op x c1) c2) (.binop p op x (.binop p op c1 c2)) := by
  refine ⟨assoc_ok p q hop h, ?_, fun hcr => by simp [isCallRefNode] at hcr⟩
  simp only [canReassociate, Bool.or_eq_true, Bool.and_eq_true, beq_iff_eq] at h
  rcases h with ⟨⟨h0, hx⟩, h1⟩ | ⟨⟨hx, h1⟩, h2⟩
  · subst h0; exact assocB_text p q c2 hx h1
  · exact assocB_int p q hop hx h1 h2

/-! ### tryOptimizeAndOr -/

theorem andK_ok {a b v : Value} (h : andK a b = .ok v) : ∃ x y, a = .bool x ∧ b = .bool y ∧ v = .bool (x && y) := by
  cases a <;> cases b <;> simp [andK] at h
  exact ⟨_, _, rfl, rfl, h.symm⟩

theorem orK_ok {a b v : Value} (h : orK a b = .ok v) : ∃ x y, a = .bool x ∧ b = .bool y ∧ v = .bool (x || y) := by
  cases a <;> cases b <;> simp [orK] at h
  exact ⟨_, _, rfl, rfl, h.symm⟩

/-- `&` / `|` in batch: both operands Boolean, the connective applied -/
theorem sb_andor {op : Op} (hop : op = .and ∨ op = .or) (p : Nat) (l r : Expr) (kv : Pair) {c : Ctx}
    (hc : c.enable = false) (v : Value) :
    SB (.binop p op l r) kv c v ↔
      ∃ x y, SB l kv c (.bool x) ∧ SB r kv c (.bool y) ∧ v = .bool (if op == .and then x && y else x || y) := by
  have hk : isKernelOp op = true := by rcases hop with rfl | rfl <;> rfl
  rw [sb_binop hk p l r kv hc v]
  constructor
  · rintro ⟨a, b, sa, sb, h⟩
    rcases hop with rfl | rfl
    · obtain ⟨x, y, rfl, rfl, rfl⟩ := andK_ok h
      exact ⟨x, y, sa, sb, rfl⟩
    · obtain ⟨x, y, rfl, rfl, rfl⟩ := orK_ok h
      exact ⟨x, y, sa, sb, rfl⟩
  · rintro ⟨x, y, sa, sb, rfl⟩
    refine ⟨_, _, sa, sb, ?_⟩
    rcases hop with rfl | rfl <;> rfl

theorem sb_mkBool (pos : Nat) (b : Bool) (kv : Pair) (c : Ctx) : SB (mkBool pos b) kv c (.bool b) :=
  sb_lit (e := mkBool pos b) rfl kv c

theorem sb_bool_iff (q : Nat) (d : Bytes) (b : Bool) (kv : Pair) (c : Ctx) (w : Value) :
    SB (.bool q d b) kv c w ↔ w = .bool b := sb_lit_iff (e := .bool q d b) rfl kv c w

theorem andOrB_ok (e : Expr) : SemB e (andOr e).1 := by
  cases e with
  | binop p op l r =>
    by_cases hop : op = .and ∨ op = .or
    · have hne : (op != .and && op != .or) = false := by rcases hop with h | h <;> subst h <;> rfl
      rcases notBool_cases l with ⟨pl, dl, lv, rfl⟩ | hl
      · rcases notBool_cases r with ⟨pr, dr, rv, rfl⟩ | hr
        · rw [andOr_bothLit pl dl lv pr dr rv hne]
          intro kv c hc v hv
          obtain ⟨x, y, sx, sy, rfl⟩ := (sb_andor hop p _ _ kv hc v).mp hv
          have hx := (sb_bool_iff pl dl lv kv c _).mp sx
          have hy := (sb_bool_iff pr dr rv kv c _).mp sy
          cases hx; cases hy
          rcases hop with rfl | rfl
          · exact ⟨_, sb_mkBool _ _ kv c, .refl _⟩
          · exact ⟨_, sb_mkBool _ _ kv c, .refl _⟩
        · rw [andOr_leftLit pl dl lv hne hr]
          intro kv c hc v hv
          obtain ⟨x, y, sx, sy, rfl⟩ := (sb_andor hop p _ _ kv hc v).mp hv
          have hx := (sb_bool_iff pl dl lv kv c _).mp sx
          cases hx
          rcases hop with rfl | rfl
          · cases lv
            · exact ⟨_, sb_mkBool _ _ kv c, by simp; exact .refl _⟩
            · exact ⟨_, sy, by simp; exact .refl _⟩
          · cases lv
            · exact ⟨_, sy, by simp; exact .refl _⟩
            · exact ⟨_, sb_mkBool _ _ kv c, by simp; exact .refl _⟩
      · rcases notBool_cases r with ⟨pr, dr, rv, rfl⟩ | hr
        · rw [andOr_rightLit pr dr rv hne hl]
          intro kv c hc v hv
          obtain ⟨x, y, sx, sy, rfl⟩ := (sb_andor hop p _ _ kv hc v).mp hv
          have hy := (sb_bool_iff pr dr rv kv c _).mp sy
          cases hy
          rcases hop with rfl | rfl
          · cases rv
            · exact ⟨_, sb_mkBool _ _ kv c, by simp; exact .refl _⟩
            · exact ⟨_, sx, by simp; exact .refl _⟩
          · cases rv
            · exact ⟨_, sx, by simp; exact .refl _⟩
            · exact ⟨_, sb_mkBool _ _ kv c, by simp; exact .refl _⟩
        · rw [andOr_noLit hl hr]
          exact .refl _
    · have : (op != .and && op != .or) = true := by
        cases op <;> simp at hop <;> rfl
      simp only [andOr, this, if_true]
      exact .refl _
  | _ => simp only [andOr]; exact .refl _

end Fold
end Kvql
