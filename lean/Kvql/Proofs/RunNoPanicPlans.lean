/-
  RunNoPanic, part 7: the plan layer (Model/Plans.lean) without fault injection.
    * `run_no_storage_error`  with `PlanBatchSize ≥ 1` and no injected fault a statement never ends in a
                              storage error, a nil cursor or a divergence: every loop fuel of the plan
                              layer suffices; the only failure is an evaluation failure
                              (proof: RunNoPanicPlansTotal.lean);
    * `select_evalErr_covered`, `delete_evalErr_covered`  an evaluation failure of a scan is the
                              failure of the filter on a pair the scan yields
                              (proof: RunNoPanicPlansCover.lean).
-/
import Kvql.Proofs.RunNoPanicPlansTotal
import Kvql.Proofs.RunNoPanicPlansCover

namespace Kvql.Proofs.RunNoPanic

open Kvql Kvql.Plans Kvql.Storage Kvql.Run

/-- the evaluation tables of the statement fail with `eval` only (as `filterOfV`, `putPairs`, `removeKeys` do) -/
def EvalOnly : Plans.Stmt → Prop
  | .select _ filter => ∀ p e, filter p = .error e → e = .eval
  | .delete _ filter _ _ => ∀ p e, filter p = .error e → e = .eval
  | .put pairs => ∀ pp ∈ pairs, (∀ e, pp.key = .error e → e = .eval) ∧ ∀ k e, pp.value k = .error e → e = .eval
  | .remove keys => ∀ k ∈ keys, ∀ e, k = .error e → e = .eval

/-- NO FAULT, `PlanBatchSize ≥ 1` ⇒ NO STORAGE ERROR, NO NIL CURSOR, NO DIVERGENCE -/
theorem run_no_storage_error (stmt : Plans.Stmt) (hev : EvalOnly stmt) (kind : PollKind) (bs : Nat) (hbs : 1 ≤ bs)
    (store : Store) :
    (Plans.run stmt kind bs none store).1.outcome = .ok ∨
    (Plans.run stmt kind bs none store).1.outcome = .execErr .eval :=
  PlansTotal.run_no_storage_error' stmt (by cases stmt <;> exact hev) kind bs hbs store

/-- an evaluation failure of `select *` is the failure of the filter on a pair the scan yields -/
theorem select_evalErr_covered (node : ScanNode) (filter : Filter) (kind : PollKind) (bs : Nat) (store : Store)
    (h : (Plans.run (.select node filter) kind bs none store).1.outcome = .execErr .eval) :
    ∃ p ∈ yielded node store, filter p = .error .eval :=
  PlansCover.select_evalErr_covered' node filter kind bs store h

/-- … of DELETE (a cursor is a snapshot; `MultiGetPlan` reads the store as the deletions left it): the
    failing pair has the key of a pair the scan of the ORIGINAL store yields -/
theorem delete_evalErr_covered (node : ScanNode) (filter : Filter) (hasAnd : Bool) (limit : Option (Nat × Nat))
    (kind : PollKind) (bs : Nat) (store : Store)
    (h : (Plans.run (.delete node filter hasAnd limit) kind bs none store).1.outcome = .execErr .eval) :
    ∃ p, p.1 ∈ (yielded node store).map (·.1) ∧ filter p = .error .eval :=
  PlansCover.delete_evalErr_covered' node filter hasAnd limit kind bs store h

end Kvql.Proofs.RunNoPanic
