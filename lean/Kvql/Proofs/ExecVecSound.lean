/-
  C14(4), batch mode: a well-kinded expression evaluated on a chunk (cache off) never fails with an
  operand-type error, and a successful batch holds values of the inferred kind.
  Kinds of intermediate batch results come from `vec_eq_map_core` (batch value ≈ row value) and the
  row-mode preservation theorem `exec_sound`.
-/
import Kvql.Proofs.ExecSoundThm
import Kvql.Proofs.ExecVecTotalThm

namespace Kvql
open Generated

theorem and3 {a b c : Bool} (ha : a = true) (hb : b = true) (hc : c = true) : (a && b && c) = true := by
  simp [ha, hb, hc]

mutual
  /-- a well-kinded expression satisfies the static side condition of `vec_eq_map` -/
  theorem vecOk_of_kind : ∀ (e : Expr) (k : Kind), kindOf e = some k → e.vecOk = true
    | .str .., _, _ => rfl
    | .field .., _, _ => rfl
    | .num .., _, _ => rfl
    | .float .., _, _ => rfl
    | .bool .., _, _ => rfl
    | .name .., _, _ => rfl
    | .cycle, _, _ => rfl
    | .list .., _, h => by simp [kindOf] at h
    | .access .., _, h => by simp [kindOf] at h
    | .not _ r, k, h => by
      simp only [kindOf] at h
      obtain ⟨hc, _⟩ := if_some h
      simp only [Expr.vecOk]
      exact vecOk_of_kind r .bool (beq_some hc)
    | .ref _ _ t, k, h => by
      simp only [kindOf] at h
      simp only [Expr.vecOk]
      exact vecOk_of_kind t k h
    | .call p nm args, k, h => by
      simp only [kindOf] at h
      simp only [Expr.vecOk]
      cases hn : funcNameOf nm with
      | error e => simp [hn] at h
      | ok fname =>
        simp only [hn] at h
        cases hf : lookupFunc fname with
        | none => simp [hf] at h
        | some fo =>
          simp only [hf] at h
          split at h
          · cases h
          · split at h
            · cases h
            · cases hb : fo.body with
              | none => simp [hb] at h
              | some b =>
                simp only [hb] at h
                obtain ⟨hargs, _⟩ := if_some h
                exact vecOkList_of_argsOk b args hargs
    | .binop p op l r, k, h => by
      have two : ∀ {kl kr : Kind}, kindOf l = some kl → kindOf r = some kr → l.vecOk = true ∧ r.vecOk = true :=
        fun h1 h2 => ⟨vecOk_of_kind l _ h1, vecOk_of_kind r _ h2⟩
      cases op with
      | not => rw [kindOf] at h; cases h
      | and =>
        simp only [kindOf] at h; obtain ⟨hc, _⟩ := if_some h; obtain ⟨h1, h2⟩ := and_true hc
        obtain ⟨a, b⟩ := two (beq_some h1) (beq_some h2); simp [Expr.vecOk, a, b]
      | or =>
        simp only [kindOf] at h; obtain ⟨hc, _⟩ := if_some h; obtain ⟨h1, h2⟩ := and_true hc
        obtain ⟨a, b⟩ := two (beq_some h1) (beq_some h2); simp [Expr.vecOk, a, b]
      | kwAnd =>
        simp only [kindOf] at h; obtain ⟨hc, _⟩ := if_some h; obtain ⟨h1, h2⟩ := and_true hc
        obtain ⟨a, b⟩ := two (beq_some h1) (beq_some h2); simp [Expr.vecOk, a, b]
      | kwOr =>
        simp only [kindOf] at h; obtain ⟨hc, _⟩ := if_some h; obtain ⟨h1, h2⟩ := and_true hc
        obtain ⟨a, b⟩ := two (beq_some h1) (beq_some h2); simp [Expr.vecOk, a, b]
      | prefixMatch =>
        simp only [kindOf] at h; obtain ⟨hc, _⟩ := if_some h; obtain ⟨h1, h2⟩ := and_true hc
        obtain ⟨a, b⟩ := two (beq_some h1) (beq_some h2); simp [Expr.vecOk, a, b]
      | regexMatch =>
        simp only [kindOf] at h; obtain ⟨hc, _⟩ := if_some h; obtain ⟨h1, h2⟩ := and_true hc
        obtain ⟨a, b⟩ := two (beq_some h1) (beq_some h2); simp [Expr.vecOk, a, b]
      | sub =>
        simp only [kindOf] at h; obtain ⟨hc, _⟩ := if_some h; obtain ⟨h1, h2⟩ := and_true hc
        obtain ⟨a, b⟩ := two (beq_some h1) (beq_some h2); simp [Expr.vecOk, a, b]
      | mul =>
        simp only [kindOf] at h; obtain ⟨hc, _⟩ := if_some h; obtain ⟨h1, h2⟩ := and_true hc
        obtain ⟨a, b⟩ := two (beq_some h1) (beq_some h2); simp [Expr.vecOk, a, b]
      | div =>
        simp only [kindOf] at h; obtain ⟨hc, _⟩ := if_some h; obtain ⟨h1, h2⟩ := and_true hc
        obtain ⟨a, b⟩ := two (beq_some h1) (beq_some h2); simp [Expr.vecOk, a, b]
      | add =>
        simp only [kindOf] at h
        split at h
        · rename_i hc; obtain ⟨h1, h2⟩ := and_true hc
          obtain ⟨a, b⟩ := two (beq_some h1) (beq_some h2); simp [Expr.vecOk, a, b]
        · split at h
          · rename_i hc; obtain ⟨h1, h2⟩ := and_true hc
            obtain ⟨a, b⟩ := two (beq_some h1) (beq_some h2); simp [Expr.vecOk, a, b]
          · cases h
      | eq =>
        simp only [kindOf] at h; obtain ⟨hc, _⟩ := if_some h; obtain ⟨h1, h2⟩ := and_true hc
        have h2' : kindOf r = kindOf l := by simpa using (by simpa using h2 : kindOf l = kindOf r).symm
        rcases isScalar_cases h1 with hk | hk | hk <;>
          (obtain ⟨a, b⟩ := two hk (by rw [h2', hk]); simp [Expr.vecOk, a, b])
      | neq =>
        simp only [kindOf] at h; obtain ⟨hc, _⟩ := if_some h; obtain ⟨h1, h2⟩ := and_true hc
        have h2' : kindOf r = kindOf l := by simpa using (by simpa using h2 : kindOf l = kindOf r).symm
        rcases isScalar_cases h1 with hk | hk | hk <;>
          (obtain ⟨a, b⟩ := two hk (by rw [h2', hk]); simp [Expr.vecOk, a, b])
      | gt =>
        simp only [kindOf] at h; obtain ⟨hc, _⟩ := if_some h; obtain ⟨h1, h2⟩ := and_true hc
        have h2' : kindOf r = kindOf l := by simpa using (by simpa using h2 : kindOf l = kindOf r).symm
        have h1' : kindOf l = some .text ∨ kindOf l = some .num := by simpa using h1
        rcases h1' with hk | hk <;> (obtain ⟨a, b⟩ := two hk (by rw [h2', hk]); simp [Expr.vecOk, a, b])
      | gte =>
        simp only [kindOf] at h; obtain ⟨hc, _⟩ := if_some h; obtain ⟨h1, h2⟩ := and_true hc
        have h2' : kindOf r = kindOf l := by simpa using (by simpa using h2 : kindOf l = kindOf r).symm
        have h1' : kindOf l = some .text ∨ kindOf l = some .num := by simpa using h1
        rcases h1' with hk | hk <;> (obtain ⟨a, b⟩ := two hk (by rw [h2', hk]); simp [Expr.vecOk, a, b])
      | lt =>
        simp only [kindOf] at h; obtain ⟨hc, _⟩ := if_some h; obtain ⟨h1, h2⟩ := and_true hc
        have h2' : kindOf r = kindOf l := by simpa using (by simpa using h2 : kindOf l = kindOf r).symm
        have h1' : kindOf l = some .text ∨ kindOf l = some .num := by simpa using h1
        rcases h1' with hk | hk <;> (obtain ⟨a, b⟩ := two hk (by rw [h2', hk]); simp [Expr.vecOk, a, b])
      | lte =>
        simp only [kindOf] at h; obtain ⟨hc, _⟩ := if_some h; obtain ⟨h1, h2⟩ := and_true hc
        have h2' : kindOf r = kindOf l := by simpa using (by simpa using h2 : kindOf l = kindOf r).symm
        have h1' : kindOf l = some .text ∨ kindOf l = some .num := by simpa using h1
        rcases h1' with hk | hk <;> (obtain ⟨a, b⟩ := two hk (by rw [h2', hk]); simp [Expr.vecOk, a, b])
      | between =>
        cases r with
        | list q items =>
          match items, h with
          | [lo, hi], h =>
            simp only [kindOf] at h; obtain ⟨hc, _⟩ := if_some h
            obtain ⟨h12, h3⟩ := and_true hc; obtain ⟨h1, h2⟩ := and_true h12
            have h1' : kindOf l = some .text ∨ kindOf l = some .num := by simpa using h1
            have hlo : kindOf lo = kindOf l := by simpa using h2
            have hhi : kindOf hi = kindOf l := by simpa using h3
            rcases h1' with hk | hk <;>
              simp [Expr.vecOk, Expr.vecOkList, vecOk_of_kind l _ hk, vecOk_of_kind lo _ (by rw [hlo, hk]),
                vecOk_of_kind hi _ (by rw [hhi, hk])]
          | [], h => simp [kindOf] at h
          | [_], h => simp [kindOf] at h
          | _ :: _ :: _ :: _, h => simp [kindOf] at h
        | _ => simp [kindOf] at h
      | in_ =>
        have ihr : ∀ k, kindOf r = some k → r.vecOk = true := fun k hk => vecOk_of_kind r k hk
        cases r with
        | list q items =>
          simp only [kindOf] at h
          split at h
          · rename_i hk
            obtain ⟨hit, _⟩ := if_some h
            simp [Expr.vecOk, vecOk_of_kind l _ (beq_some hk), vecOkList_of_allKind _ items hit]
          · split at h
            · rename_i hk
              obtain ⟨hit, _⟩ := if_some h
              simp [Expr.vecOk, vecOk_of_kind l _ (beq_some hk), vecOkList_of_allKind _ items hit]
            · cases h
        | call q nm args =>
          rw [kindOf] at h; obtain ⟨hc, _⟩ := if_some h
          rcases in_kinds hc with ⟨h1, h2⟩ | ⟨h1, h2⟩ <;>
            (have ht := retType_of_kind _ _ h2
             have hv := ihr _ h2
             simp only [Expr.vecOk] at hv ⊢
             simp [vecOk_of_kind l _ h1, hv, ht, Kind.code])
        | ref q nm t =>
          rw [kindOf] at h; obtain ⟨hc, _⟩ := if_some h
          rcases in_kinds hc with ⟨h1, h2⟩ | ⟨h1, h2⟩ <;>
            (have ht := retType_of_kind _ _ h2
             have hv := ihr _ h2
             simp only [Expr.vecOk] at hv ⊢
             simp [vecOk_of_kind l _ h1, hv, ht, Kind.code])
        | _ => simp [kindOf] at h

  theorem vecOkList_of_allKind : ∀ (k : Kind) (es : List Expr), allKind k es = true → Expr.vecOkList es = true
    | _, [], _ => rfl
    | k, e :: es, h => by
      simp only [allKind] at h
      obtain ⟨h1, h2⟩ := and_true h
      simp [Expr.vecOkList, vecOk_of_kind e k (beq_some h1), vecOkList_of_allKind k es h2]

  theorem vecOkList_of_allScalar : ∀ (es : List Expr), allScalar es = true → Expr.vecOkList es = true
    | [], _ => rfl
    | e :: es, h => by
      simp only [allScalar] at h
      obtain ⟨h1, h2⟩ := and_true h
      have : e.vecOk = true := by
        rcases isScalar_cases h1 with hk | hk | hk <;> exact vecOk_of_kind e _ hk
      simp [Expr.vecOkList, this, vecOkList_of_allScalar es h2]

  theorem vecOkList_of_argsOk : ∀ (b : Body) (args : List Expr), argsOk b args = true → Expr.vecOkList args = true
    | .lower, [a], h | .upper, [a], h | .json, [a], h => by
      simp only [argsOk] at h
      simp [Expr.vecOkList, vecOk_of_kind a _ (beq_some h)]
    | .toInt, [a], h | .toFloat, [a], h | .toStr, [a], h | .strlen, [a], h | .isInt, [a], h | .isFloat, [a], h => by
      simp only [argsOk] at h
      have : a.vecOk = true := by
        rcases isScalar_cases h with hk | hk | hk <;> exact vecOk_of_kind a _ hk
      simp [Expr.vecOkList, this]
    | .subStr, [a0, a1, a2], h => by
      simp only [argsOk] at h
      obtain ⟨h01, h2⟩ := and_true h; obtain ⟨h0, h1⟩ := and_true h01
      simp [Expr.vecOkList, vecOk_of_kind a0 _ (beq_some h0), vecOk_of_kind a1 _ (beq_some h1), vecOk_of_kind a2 _ (beq_some h2)]
    | .split, [a0, a1], h => by
      simp only [argsOk] at h
      obtain ⟨h0, h1⟩ := and_true h
      simp [Expr.vecOkList, vecOk_of_kind a0 _ (beq_some h0), vecOk_of_kind a1 _ (beq_some h1)]
    | .join, a0 :: rest, h => by
      simp only [argsOk] at h
      obtain ⟨h0, h1⟩ := and_true h
      simp [Expr.vecOkList, vecOk_of_kind a0 _ (beq_some h0), vecOkList_of_allScalar rest h1]
    | .len, [a], h => by
      simp only [argsOk] at h
      have h' : isList (kindOf a) = true ∨ kindOf a = some .text := by simpa using h
      have : a.vecOk = true := by
        rcases h' with hl | hk
        · rcases isList_cases hl with hk | hk <;> exact vecOk_of_kind a _ hk
        · exact vecOk_of_kind a _ hk
      simp [Expr.vecOkList, this]
    | .cosine, [a0, a1], h | .l2, [a0, a1], h => by
      simp only [argsOk] at h
      obtain ⟨h0, h1⟩ := and_true h
      have v0 : a0.vecOk = true := by rcases isList_cases h0 with hk | hk <;> exact vecOk_of_kind a0 _ hk
      have v1 : a1.vecOk = true := by rcases isList_cases h1 with hk | hk <;> exact vecOk_of_kind a1 _ hk
      simp [Expr.vecOkList, v0, v1]
    | .toList, a :: rest, h | .intList, a :: rest, h | .floatList, a :: rest, h => by
      simp only [argsOk] at h
      obtain ⟨h0, h1⟩ := and_true h
      have : a.vecOk = true := by
        rcases isScalar_cases h0 with hk | hk | hk <;> exact vecOk_of_kind a _ hk
      simp [Expr.vecOkList, this, vecOkList_of_allScalar rest h1]
    | .lower, [], h | .lower, _ :: _ :: _, h
    | .upper, [], h | .upper, _ :: _ :: _, h
    | .json, [], h | .json, _ :: _ :: _, h
    | .toInt, [], h | .toInt, _ :: _ :: _, h
    | .toFloat, [], h | .toFloat, _ :: _ :: _, h
    | .toStr, [], h | .toStr, _ :: _ :: _, h
    | .strlen, [], h | .strlen, _ :: _ :: _, h
    | .isInt, [], h | .isInt, _ :: _ :: _, h
    | .isFloat, [], h | .isFloat, _ :: _ :: _, h
    | .len, [], h | .len, _ :: _ :: _, h
    | .subStr, [], h | .subStr, [_], h | .subStr, [_, _], h
    | .subStr, _ :: _ :: _ :: _ :: _, h
    | .split, [], h | .split, [_], h | .split, _ :: _ :: _ :: _, h
    | .cosine, [], h | .cosine, [_], h | .cosine, _ :: _ :: _ :: _, h
    | .l2, [], h | .l2, [_], h | .l2, _ :: _ :: _ :: _, h
    | .join, [], h | .intList, [], h | .floatList, [], h | .toList, [], h => by
      simp [argsOk] at h
end

/-! ### kinds of a successful batch -/

theorem Rel.hasKind_congr {vb vr : Value} (h : Rel vb vr) (k : Kind) : vb.hasKind k = vr.hasKind k := by
  rcases h with rfl | ⟨b, rfl, rfl⟩
  · rfl
  · cases k <;> rfl

theorem Rows.forall_left {α β : Type} {P : α → β → Prop} {Q : α → Prop} (h : ∀ a b, P a b → Q a) :
    ∀ {as : List α} {bs : List β}, Rows P as bs → ∀ a ∈ as, Q a
  | _, _, .nil, a, ha => by simp at ha
  | _, _, .cons hp hr, a, ha => by
    rcases List.mem_cons.mp ha with rfl | ha
    · exact h _ _ hp
    · exact Rows.forall_left h hr a ha

/-- a successful batch of a well-kinded expression: context untouched, one value per pair, all of the kind -/
theorem batch_ok_kinds {e : Expr} {k : Kind} (hk : kindOf e = some k) {chunk : List Pair} {c : Ctx}
    (hc : c.enable = false) {vs : List Value} {c1 : Ctx} (h : execBatch e chunk c = (.ok vs, c1)) :
    c1 = c ∧ vs.length = chunk.length ∧ ∀ v ∈ vs, v.hasKind k = true := by
  obtain ⟨e1, R⟩ := vec_eq_map_core e (vecOk_of_kind e k hk) chunk c hc vs c1 h
  refine ⟨e1, R.length_eq, R.forall_left ?_⟩
  rintro vb kv ⟨vr, hvr, rel⟩
  rw [rel.hasKind_congr]
  exact (exec_sound e k hk kv c hc).1 vr c hvr

/-! ### loops: no operand-type error when no pair's kernel has one -/

def NoOT {α} (x : Except Err α) : Prop := x ≠ .error .operandType

theorem NoOT.ok {α} (a : α) : NoOT (.ok a : Except Err α) := by simp [NoOT]
theorem NoOT.bind {α β} {x : Except Err α} {f : α → Except Err β} (hx : NoOT x) (hf : ∀ a, x = .ok a → NoOT (f a)) :
    NoOT (x >>= f) := by
  cases x with
  | error e =>
    intro h
    have : (Except.error e : Except Err β) = .error .operandType := h
    cases this; exact hx rfl
  | ok a => exact hf a rfl
theorem NoOT.map {α β} {x : Except Err α} {f : α → β} (hx : NoOT x) : NoOT (x.map f) := by
  cases x with
  | error e =>
    intro h
    have : (Except.error e : Except Err β) = .error .operandType := h
    cases this; exact hx rfl
  | ok a => simp [NoOT, Except.map]
theorem NoOT.of_benign_ne {α} {x : Except Err α} (h : ∀ e, x = .error e → e ≠ .operandType) : NoOT x := by
  intro he; exact h _ he rfl

theorem idxPanic_ne : idxPanic ≠ .operandType := by simp [idxPanic]

theorem mapRows_noOT {f : Value → Except Err Value} :
    ∀ (n : Nat) (xs : List Value), (∀ x ∈ xs, NoOT (f x)) → NoOT (mapRows f n xs)
  | 0, xs, _ => .ok _
  | n + 1, [], _ => by simp [mapRows, NoOT, idxPanic]
  | n + 1, x :: xs, h => by
    simp only [mapRows]
    exact .bind (h x (by simp)) fun _ _ => .bind (mapRows_noOT n xs fun y hy => h y (by simp [hy])) fun _ _ => .ok _

theorem mapRowsFresh_noOT {f : Value → Value} : ∀ (n : Nat) (xs : List Value), NoOT (mapRowsFresh f n xs)
  | 0, xs => .ok _
  | n + 1, [] => by simp [mapRowsFresh, NoOT, idxPanic]
  | n + 1, x :: xs => by
    simp only [mapRowsFresh]
    exact .bind (mapRowsFresh_noOT n xs) fun _ _ => .ok _

theorem zipRows_noOT {f : Value → Value → Except Err Value} :
    ∀ (n : Nat) (xs ys : List Value), (∀ x ∈ xs, ∀ y ∈ ys, NoOT (f x y)) → NoOT (zipRows f n xs ys)
  | 0, _, _, _ => .ok _
  | n + 1, x :: xs, y :: ys, h => by
    simp only [zipRows]
    exact .bind (h x (by simp) y (by simp)) fun _ _ =>
      .bind (zipRows_noOT n xs ys fun a ha b hb => h a (by simp [ha]) b (by simp [hb])) fun _ _ => .ok _
  | n + 1, [], _, _ => by simp [zipRows, NoOT, idxPanic]
  | n + 1, _ :: _, [], _ => by simp [zipRows, NoOT, idxPanic]

theorem zip3Rows_noOT {f : Value → Value → Value → Except Err Value} :
    ∀ (n : Nat) (xs ys zs : List Value), (∀ x ∈ xs, ∀ y ∈ ys, ∀ z ∈ zs, NoOT (f x y z)) → NoOT (zip3Rows f n xs ys zs)
  | 0, _, _, _, _ => .ok _
  | n + 1, x :: xs, y :: ys, z :: zs, h => by
    simp only [zip3Rows]
    exact .bind (h x (by simp) y (by simp) z (by simp)) fun _ _ =>
      .bind (zip3Rows_noOT n xs ys zs fun a ha b hb d hd => h a (by simp [ha]) b (by simp [hb]) d (by simp [hd])) fun _ _ => .ok _
  | n + 1, [], _, _, _ => by simp [zip3Rows, NoOT, idxPanic]
  | n + 1, _ :: _, [], _, _ => by simp [zip3Rows, NoOT, idxPanic]
  | n + 1, _ :: _, _ :: _, [], _ => by simp [zip3Rows, NoOT, idxPanic]

theorem zipRowsLazy_noOT {f : Value → Option Value → Except Err Value} (hnone : ∀ x, NoOT (f x none)) :
    ∀ (n : Nat) (xs ys : List Value), (∀ x ∈ xs, ∀ y ∈ ys, NoOT (f x (some y))) → NoOT (zipRowsLazy f n xs ys)
  | 0, _, _, _ => .ok _
  | n + 1, [], _, _ => by simp [zipRowsLazy, NoOT, idxPanic]
  | n + 1, x :: xs, [], h => by
    simp only [zipRowsLazy, List.head?_nil, List.tail_nil]
    exact .bind (hnone x) fun _ _ => .bind (zipRowsLazy_noOT hnone n xs [] (fun _ _ _ hb => by simp at hb)) fun _ _ => .ok _
  | n + 1, x :: xs, y :: ys, h => by
    simp only [zipRowsLazy, List.head?_cons, List.tail_cons]
    exact .bind (h x (by simp) y (by simp)) fun _ _ =>
      .bind (zipRowsLazy_noOT hnone n xs ys fun a ha b hb => h a (by simp [ha]) b (by simp [hb])) fun _ _ => .ok _

theorem betweenRow_noOT {number : Bool} {k : Kind} (hk : (number = true ∧ k = .num) ∨ (number = false ∧ k = .text))
    {x? : Option Value} {lo hi : Value} (hx : ∀ x, x? = some x → x.hasKind k = true)
    (hl : lo.hasKind k = true) (hh : hi.hasKind k = true) : NoOT (betweenRow number x? lo hi) := by
  cases x? with
  | none =>
    unfold betweenRow
    obtain ⟨c1, h1⟩ := compareBy_ok hk hl hh .lt
    simp only [h1, bind, Except.bind]
    cases c1 <;> simp [NoOT, idxPanic]
  | some x => exact (betweenKernel_sound hk (hx x rfl) hl hh).2

theorem betweenRows_noOT {number : Bool} {k : Kind} (hk : (number = true ∧ k = .num) ∨ (number = false ∧ k = .text)) :
    ∀ (n : Nat) (xs ys zs : List Value), (∀ x ∈ xs, x.hasKind k = true) → (∀ y ∈ ys, y.hasKind k = true) →
      (∀ z ∈ zs, z.hasKind k = true) → NoOT (betweenRows number n xs ys zs)
  | 0, _, _, _, _, _, _ => .ok _
  | n + 1, xs, y :: ys, z :: zs, hx, hy, hz => by
    simp only [betweenRows]
    refine .bind (betweenRow_noOT hk (fun x hx' => hx x (List.mem_of_mem_head? hx')) (hy y (by simp)) (hz z (by simp))) fun _ _ => ?_
    exact .bind (betweenRows_noOT hk n xs.tail ys zs (fun x hx' => hx x (List.mem_of_mem_tail hx'))
      (fun a ha => hy a (by simp [ha])) (fun a ha => hz a (by simp [ha]))) fun _ _ => .ok _
  | n + 1, _, [], _, _, _, _ => by simp [betweenRows, NoOT, idxPanic]
  | n + 1, _, _ :: _, [], _, _, _ => by simp [betweenRows, NoOT, idxPanic]

theorem inValues_noOT {number : Bool} {k : Kind} (_hk : (number = true ∧ k = .num) ∨ (number = false ∧ k = .text))
    {left : Value} (_hl : left.hasKind k = true) (vals : List Value) (_h : ∀ v ∈ vals, v.hasKind k = true) :
    NoOT (inValues number left vals) := .ok _

theorem unpack_kinds {fret : Value} {k kr : Kind} (hk : (k = .text ∧ kr = .listText) ∨ (k = .num ∧ kr = .listNum))
    (hf : fret.hasKind kr = true) : ∃ vals, unpackArray fret = some vals ∧ ∀ v ∈ vals, v.hasKind k = true := by
  rcases hk with ⟨rfl, rfl⟩ | ⟨rfl, rfl⟩
  · cases fret <;> simp [Value.hasKind] at hf
    exact ⟨_, rfl, by simp [Value.hasKind]⟩
  · cases fret <;> simp [Value.hasKind] at hf
    · exact ⟨_, rfl, by simp [Value.hasKind]⟩
    · exact ⟨_, rfl, by simp [Value.hasKind]⟩

theorem inCallRows_noOT {number : Bool} {k kr : Kind} (hk : (number = true ∧ k = .num) ∨ (number = false ∧ k = .text))
    (hkr : (k = .text ∧ kr = .listText) ∨ (k = .num ∧ kr = .listNum)) :
    ∀ (n : Nat) (xs ys : List Value), (∀ x ∈ xs, x.hasKind k = true) → (∀ y ∈ ys, y.hasKind kr = true) →
      NoOT (inCallRows number n xs ys)
  | 0, _, _, _, _ => .ok _
  | n + 1, _, [], _, _ => by simp [inCallRows, NoOT, idxPanic]
  | n + 1, xs, y :: ys, hx, hy => by
    obtain ⟨vals, hu, hv⟩ := unpack_kinds hkr (hy y (by simp))
    simp only [inCallRows, hu]
    cases xs with
    | nil => simp [NoOT, idxPanic]
    | cons x xs =>
      dsimp only
      exact .bind (inValues_noOT hk (hx x (by simp)) vals hv) fun _ _ =>
        .bind (inCallRows_noOT hk hkr n xs ys (fun a ha => hx a (by simp [ha])) (fun a ha => hy a (by simp [ha]))) fun _ _ => .ok _

theorem inColumns_noOT {number : Bool} {k : Kind} (hk : (number = true ∧ k = .num) ∨ (number = false ∧ k = .text))
    {left : Value} (hl : left.hasKind k = true) {i : Nat} : ∀ (cols : List (List Value)),
      (∀ col ∈ cols, ∀ v ∈ col, v.hasKind k = true) → NoOT (inColumns number left i cols)
  | [], _ => .ok _
  | col :: cols, h => by
    unfold inColumns
    cases hi : col[i]? with
    | none => simp [NoOT, idxPanic]
    | some lval =>
      dsimp only
      have hmem : lval ∈ col := List.mem_of_getElem? hi
      obtain ⟨c, hc⟩ := compareBy_ok hk hl (h col (by simp) lval hmem) .eq
      rw [hc]
      cases c
      · exact inColumns_noOT hk hl cols fun c' hc' => h c' (by simp [hc'])
      · exact .ok _

theorem inRows_noOT {number : Bool} {k : Kind} (hk : (number = true ∧ k = .num) ∨ (number = false ∧ k = .text))
    {cols : List (List Value)} (hcols : ∀ col ∈ cols, ∀ v ∈ col, v.hasKind k = true) :
    ∀ (n i : Nat) (ls : List Value), (∀ x ∈ ls, x.hasKind k = true) → NoOT (inRows number cols n i ls)
  | 0, _, _, _ => .ok _
  | n + 1, _, [], _ => by simp [inRows, NoOT, idxPanic]
  | n + 1, i, l :: ls, h => by
    simp only [inRows]
    exact .bind (inColumns_noOT hk (h l (by simp)) cols hcols) fun _ _ =>
      .bind (inRows_noOT hk hcols n (i + 1) ls fun a ha => h a (by simp [ha])) fun _ _ => .ok _

theorem equalBatchFinish_noOT {not : Bool} {k : Kind} (hs : k.scalar = true) {n : Nat} {xs ys : List Value}
    (hx : ∀ x ∈ xs, x.hasKind k = true) (hy : ∀ y ∈ ys, y.hasKind k = true) : NoOT (equalBatchFinish not n xs ys) := by
  unfold equalBatchFinish
  split
  · exact .ok _
  · refine zipRows_noOT _ _ _ fun a ha b hb => ?_
    obtain ⟨c, hc⟩ := equalRow_ok hs (hx a ha) (hy b hb)
    rw [hc]; simp [NoOT, boolV, Except.map]

theorem distanceRow_noOT {dist : List F64 → List F64 → Except Err F64} (hd : ∀ l r, NoOT (dist l r))
    {x : Value} (hx : x.hasKind .listText = true ∨ x.hasKind .listNum = true) {y? : Option Value}
    (hy : ∀ y, y? = some y → (y.hasKind .listText = true ∨ y.hasKind .listNum = true)) :
    NoOT (distanceRow dist x y?) := by
  unfold distanceRow
  refine .bind (toFloatList_of hx) fun lv _ => ?_
  cases y? with
  | none => simp [NoOT, idxPanic]
  | some y =>
    dsimp only
    exact .bind (toFloatList_of (hy y rfl)) fun rv _ => .bind (hd _ _) fun _ _ => .ok _

theorem cosineDistance_noOT (l r : List F64) : NoOT (cosineDistance l r) := by
  unfold cosineDistance; split <;> simp [NoOT]
theorem l2Distance_noOT (l r : List F64) : NoOT (l2Distance l r) := by
  unfold l2Distance; split <;> simp [NoOT]

/-- columns of a successful item evaluation: context untouched, every entry of the items' kind -/
theorem inItems_kinds {number : Bool} {k : Kind} (items : List Expr) (hit : allKind k items = true)
    {chunk : List Pair} {c : Ctx} (hc : c.enable = false) {cols : List (List Value)} {c2 : Ctx}
    (h : execInItemsBatch number items chunk c = (.ok cols, c2)) :
    c2 = c ∧ ∀ col ∈ cols, ∀ v ∈ col, v.hasKind k = true := by
  obtain ⟨e2, hC⟩ := inItems_core number items (vecOkList_of_allKind k items hit) chunk c hc cols c2 h
  refine ⟨e2, ?_⟩
  clear h
  induction hC with
  | nil => intro col hcol; simp at hcol
  | @cons col e cols items hp _ ih =>
    simp only [allKind] at hit
    obtain ⟨he, hes⟩ := and_true hit
    intro col' hcol' v hv
    rcases List.mem_cons.mp hcol' with rfl | hmem
    · refine Rows.forall_left (Q := fun (w : Value) => w.hasKind k = true) ?_ hp.2 v hv
      rintro vb kv ⟨vr, hvr, rel⟩
      show vb.hasKind k = true
      rw [rel.hasKind_congr]
      exact (exec_sound e k (beq_some he) kv c hc).1 vr c hvr
    · exact ih hes col' hmem v hv

end Kvql
