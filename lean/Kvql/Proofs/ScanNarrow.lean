/-
  C18 (planner half): AND narrows to within a pinning operand, equalities and IN lists are point
  reads, face-unsatisfiable conjunctions read nothing.
-/
import Kvql.Proofs.ScanSound

namespace Kvql.Scan
open Kvql.Bytes (Pre)

/-- a scan type pins the key when it is anything but FULL -/
def pinned (s : Scan) : Prop := s ≠ .full

/-- `region s ⊆ region x` -/
def within (s x : Scan) : Prop := ∀ k, region s k → region x k

theorem within_refl (s : Scan) : within s s := fun _ h => h
theorem empty_within (x : Scan) : within .empty x := fun _ h => h.elim

theorem mget_like_within {ks : List Bytes} {x : Scan} (h : ∀ k, k ∈ ks → region x k) :
    within (if ks.isEmpty then .empty else .mget ks) x := by
  intro k hk
  split at hk
  · exact hk.elim
  · exact h k hk

theorem intersectionMget_within (a b : List Bytes) : within (intersectionMget a b) (.mget a) := by
  unfold intersectionMget
  exact mget_like_within (fun k hk => by
    simp only [mem_sort, List.mem_filter, mem_dedup] at hk; exact hk.1)

theorem intersectionMgetAndPrefix_within (ks : List Bytes) (p : Bytes) :
    within (intersectionMgetAndPrefix ks p) (.mget ks) := by
  unfold intersectionMgetAndPrefix
  exact mget_like_within (fun k hk => by simp only [List.mem_filter] at hk; exact hk.1)

theorem intersectionMgetAndRange_within (ks : List Bytes) (rs re : OB) :
    within (intersectionMgetAndRange ks rs re) (.mget ks) := by
  unfold intersectionMgetAndRange
  exact mget_like_within (fun k hk => by simp only [List.mem_filter] at hk; exact hk.1)

theorem intersectionPrefix_within (l r : Bytes) :
    within (intersectionPrefix l r) (.pre l) ∧ within (intersectionPrefix l r) (.pre r) := by
  scan_laws
  unfold intersectionPrefix within
  constructor <;> intro k <;> scan_simp <;> grind

theorem intersectionBounds_within (a b c d : OB) :
    within (intersectionBounds a b c d) (.range a b) ∧ within (intersectionBounds a b c d) (.range c d) := by
  unfold intersectionBounds within
  constructor <;> intro k <;> cases a <;> cases b <;> cases c <;> cases d <;> scan_simp <;> grind

theorem intersectionRange_within {a b c d : OB} (wl : WF (.range a b)) (wr : WF (.range c d)) :
    within (intersectionRange a b c d) (.range a b) ∧ within (intersectionRange a b c d) (.range c d) := by
  unfold intersectionRange
  rw [swap_wf wl, swap_wf wr]
  exact intersectionBounds_within a b c d

/-- PREFIX ∩ RANGE keeps one of the two (it returns the range as it is when the range starts
    inside the prefix interval — pinned by TestOptimizers), so it is within one of them, not both -/
theorem intersectionPrefixAndRange_within {p : Bytes} {rs re : OB} (hw : WF (.range rs re)) :
    within (intersectionPrefixAndRange p rs re) (.pre p) ∨
    within (intersectionPrefixAndRange p rs re) (.range rs re) := by
  scan_laws
  unfold intersectionPrefixAndRange within
  cases rs <;> cases re <;> scan_simp <;> grind

/-- `and_narrows`: when an operand of AND pins the key, the inferred region lies within the region
    of a pinning operand -/
theorem and_narrows {l r : Scan} (wl : WF l) (wr : WF r) (h : pinned l ∨ pinned r) :
    ∃ x, (x = l ∨ x = r) ∧ pinned x ∧ within (andScan l r) x := by
  cases l <;> cases r <;> scan_kinds <;> simp [pinned] at h ⊢ <;>
    first
    | exact within_refl _
    | exact empty_within _
    | exact Or.inl (within_refl _)
    | exact Or.inr (within_refl _)
    | exact Or.inl (empty_within _)
    | exact Or.inl (intersectionMget_within _ _)
    | exact Or.inl (intersectionMgetAndPrefix_within _ _)
    | exact Or.inr (intersectionMgetAndPrefix_within _ _)
    | exact Or.inl (intersectionMgetAndRange_within _ _ _)
    | exact Or.inr (intersectionMgetAndRange_within _ _ _)
    | exact Or.inl (intersectionPrefix_within _ _).1
    | exact Or.inl (intersectionRange_within wl wr).1
    | exact intersectionPrefixAndRange_within wr
    | exact (intersectionPrefixAndRange_within wl).symm

/-- hypotheses of `and_narrows` are satisfiable, and the conclusion is not trivial:
    `key ^= "k" & key between "k1" and "l8"` is planned as the range (TestOptimizers), within the
    range operand but not within the prefix operand -/
example : WF (.pre [107]) ∧ WF (.range (some [107, 49]) (some [108, 56])) ∧ pinned (.pre [107]) ∧
    andScan (.pre [107]) (.range (some [107, 49]) (some [108, 56])) =
      .range (some [107, 49]) (some [108, 56]) := by
  refine ⟨trivial, ?_, by simp [pinned], by decide⟩
  simp [WF]; decide

/-! ### point reads -/

/-- EMPTY or MGET: no cursor is opened -/
def pointKind : Scan → Prop
  | .empty | .mget _ => True
  | _ => False

theorem mget_like_point (ks : List Bytes) : pointKind (if ks.isEmpty then .empty else .mget ks) := by
  split <;> trivial

theorem andScan_point {l r : Scan} (h : pointKind l ∨ pointKind r) : pointKind (andScan l r) := by
  cases l <;> cases r <;> scan_kinds <;> simp [pointKind] at h ⊢ <;>
    first
    | (simp only [intersectionMget, intersectionMgetAndPrefix, intersectionMgetAndRange]; exact mget_like_point _)

/-- `c` is one of the conjuncts of `e` (through `&` / `and`, any nesting) -/
inductive Conjunct (c : Expr) : Expr → Prop
  | self : Conjunct c c
  | andL {p l r} : Conjunct c l → Conjunct c (.binop p .and l r)
  | andR {p l r} : Conjunct c r → Conjunct c (.binop p .and l r)
  | kwAndL {p l r} : Conjunct c l → Conjunct c (.binop p .kwAnd l r)
  | kwAndR {p l r} : Conjunct c r → Conjunct c (.binop p .kwAnd l r)

/-- the pair test is monotone: a pair found among some of the conjuncts is found among all -/
theorem emptyPair_sublist {l1 l2 : List Scan} (h : l1.Sublist l2) (h1 : emptyPair l1 = true) :
    emptyPair l2 = true := by
  cases h2 : emptyPair l2 with
  | true => rfl
  | false =>
    have := ((emptyPair_false_iff l2).mp h2).sublist h
    rw [← emptyPair_false_iff] at this
    rw [this] at h1; cases h1

/-- `optimizeExpr` of any node in terms of the pair test and the tree combination -/
theorem optimizeExpr_eq (e : Expr) :
    optimizeExpr e = if emptyPair (leafTypes e) then .empty else andTree e := by
  cases h : isAnd e with
  | false => simp [leafTypes_leaf h, andTree_leaf h, emptyPair]
  | true =>
    cases e with
    | binop p op l r =>
      cases op <;> simp [isAnd] at h
      · rw [optimizeExpr_and, leafTypes_and, andTree_and]
      · rw [optimizeExpr_kwAnd, leafTypes_kwAnd, andTree_kwAnd]
    | _ => simp [isAnd] at h

/-- a conjunct's leaves are among the leaves of the whole conjunction, in order -/
theorem conjunct_leaves {c e : Expr} (hc : Conjunct c e) : (leafTypes c).Sublist (leafTypes e) := by
  induction hc with
  | self => exact List.Sublist.refl _
  | andL _ ih => rw [leafTypes_and]; exact ih.trans (List.sublist_append_left _ _)
  | andR _ ih => rw [leafTypes_and]; exact ih.trans (List.sublist_append_right _ _)
  | kwAndL _ ih => rw [leafTypes_kwAnd]; exact ih.trans (List.sublist_append_left _ _)
  | kwAndR _ ih => rw [leafTypes_kwAnd]; exact ih.trans (List.sublist_append_right _ _)

theorem conjunct_point_tree {c e : Expr} (hc : Conjunct c e) (h : pointKind (optimizeExpr c)) :
    pointKind (andTree e) ∨ emptyPair (leafTypes e) = true := by
  induction hc with
  | self =>
    rw [optimizeExpr_eq] at h
    cases hp : emptyPair (leafTypes c) with
    | true => exact Or.inr rfl
    | false => simp [hp] at h; exact Or.inl h
  | andL hc' ih =>
    rcases ih with ih | ih
    · left; rw [andTree_and]; exact andScan_point (Or.inl ih)
    · right; rw [leafTypes_and]; exact emptyPair_sublist (List.sublist_append_left _ _) ih
  | andR hc' ih =>
    rcases ih with ih | ih
    · left; rw [andTree_and]; exact andScan_point (Or.inr ih)
    · right; rw [leafTypes_and]; exact emptyPair_sublist (List.sublist_append_right _ _) ih
  | kwAndL hc' ih =>
    rcases ih with ih | ih
    · left; rw [andTree_kwAnd]; exact andScan_point (Or.inl ih)
    · right; rw [leafTypes_kwAnd]; exact emptyPair_sublist (List.sublist_append_left _ _) ih
  | kwAndR hc' ih =>
    rcases ih with ih | ih
    · left; rw [andTree_kwAnd]; exact andScan_point (Or.inr ih)
    · right; rw [leafTypes_kwAnd]; exact emptyPair_sublist (List.sublist_append_right _ _) ih

theorem conjunct_point {c e : Expr} (hc : Conjunct c e) (h : pointKind (optimizeExpr c)) :
    pointKind (optimizeExpr e) := by
  rw [optimizeExpr_eq]
  rcases conjunct_point_tree hc h with h | h
  · split
    · trivial
    · exact h
  · simp [h, pointKind]

/-- the point atoms: `key = lit`, `lit = key`, `key in (lits)` (a non-empty list of string literals) -/
inductive PointAtom : Expr → Prop
  | eqR (p p1 p2 lit) : PointAtom (.binop p .eq (.field p1 .key) (.str p2 lit))
  | eqL (p p1 p2 lit) : PointAtom (.binop p .eq (.str p1 lit) (.field p2 .key))
  | inList (p p1 p2 items) : (stringItems items).2 = true → (stringItems items).1 ≠ [] →
      PointAtom (.binop p .in_ (.field p1 .key) (.list p2 items))

theorem pointAtom_point {c : Expr} (h : PointAtom c) : pointKind (optimizeExpr c) := by
  cases h with
  | eqR | eqL => simp [optimizeExpr, infer, Conj.single, optimizeEqualExpr, operands, pointKind]
  | inList p p1 p2 items h1 h2 =>
    simp [optimizeExpr, infer, Conj.single, optimizeInExpr, leftField, h1, h2, pointKind]

/-- `eq_in_point_reads`: a WHERE clause with a conjunct `key = lit` / `lit = key` /
    `key in (lits)` is planned as point reads (MGET) or as nothing (EMPTY), whatever the other
    conjuncts are -/
theorem eq_in_point_reads {c e : Expr} (hc : Conjunct c e) (ha : PointAtom c) :
    pointKind (optimizeExpr e) :=
  conjunct_point hc (pointAtom_point ha)

end Kvql.Scan
